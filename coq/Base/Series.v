(* Truncated formal power series over an abstract field: the model of what
   jax.experimental.jet computes on polynomial programs.

   A series is the list of its NORMALISED Taylor coefficients a_n = u^(n)/n!
   (index = order).  Storage is a list, meaning is the coefficient function
   [sget a : nat -> F] (zero beyond the stored length); every operation is
   [mkv N (fun n => formula over coefficient functions)], so the n-th
   coefficient of a result is a closed formula in the coefficients of the
   arguments and truncation needs no side conditions.

   The semantic domain for proofs is [fs := nat -> F] (infinite formal power
   series) with pointwise equality [fs_eq]; the list operations are shown to
   compute the coefficients of the corresponding [fs] operations
   (sget_scompose).  [fs] is a commutative ring with the Cauchy product, the
   formal derivative [fs_D] satisfies the Leibniz rule, and the composition of a
   multivariate polynomial (Model/Poly.v) with a tuple of series is a ring
   homomorphism obeying the chain rule. *)
From Coq Require Import List Arith Lia Bool ZArith Setoid Morphisms Ring Field.
From PD Require Import Base.Field Base.Matrix Model.Poly.
Import ListNotations.

Section Series.
  Context {F : Type} `{FieldOps F}.
  Local Open Scope F_scope.

  Definition series := list F.
  Definition fs := nat -> F.

  Definition sget (a : series) (n : nat) : F := nth n a 0.

  (* ------------------------------------------------ infinite series (meaning) *)
  Definition fs_const (c : F) : fs := fun n => match n with O => c | S _ => 0 end.
  Definition fs_add (a b : fs) : fs := fun n => a n + b n.
  Definition fs_sub (a b : fs) : fs := fun n => a n - b n.
  Definition fs_opp (a : fs) : fs := fun n => - a n.
  Definition fs_scale (c : F) (a : fs) : fs := fun n => c * a n.
  (* Cauchy product *)
  Definition fs_mul (a b : fs) : fs := fun n => vsum (S n) (fun i => a i * b (n - i)%nat).
  Fixpoint fs_pow (a : fs) (e : nat) : fs :=
    match e with O => fs_const 1 | S e' => fs_mul a (fs_pow a e') end.
  (* t0 + tau *)
  Definition fs_time (t0 : F) : fs :=
    fun n => match n with O => t0 | S O => 1 | _ => 0 end.
  (* formal derivative on normalised coefficients: (D a)_n = (n+1) a_{n+1} *)
  Definition fs_D (a : fs) : fs := fun n => fnat (S n) * a (S n).
  Fixpoint fs_Dn (j : nat) (a : fs) : fs :=
    match j with O => a | S j' => fs_D (fs_Dn j' a) end.

  (* composition of a polynomial with a tuple of series: [eval_poly] read in
     the ring of formal power series *)
  Fixpoint fs_exps (env : list fs) (es : list nat) : fs :=
    match env, es with
    | x :: env', e :: es' => fs_mul (fs_pow x e) (fs_exps env' es')
    | _, _ => fs_const 1
    end.
  Definition fs_mono (env : list fs) (m : @mono F) : fs := fs_scale (fst m) (fs_exps env (snd m)).
  Definition fs_compose (env : list fs) (p : @poly F) : fs :=
    fold_right (fun m acc => fs_add (fs_mono env m) acc) (fs_const 0) p.

  (* ------------------------------------------------ truncated series (storage) *)
  Definition strunc (N : nat) (a : fs) : series := mkv N a.
  Definition sconst (N : nat) (c : F) : series := mkv N (fs_const c).
  Definition sadd (N : nat) (a b : series) : series := mkv N (fs_add (sget a) (sget b)).
  Definition ssub (N : nat) (a b : series) : series := mkv N (fs_sub (sget a) (sget b)).
  Definition sopp (N : nat) (a : series) : series := mkv N (fs_opp (sget a)).
  Definition sscale (N : nat) (c : F) (a : series) : series := mkv N (fs_scale c (sget a)).
  Definition smul (N : nat) (a b : series) : series := mkv N (fs_mul (sget a) (sget b)).
  Fixpoint spow (N : nat) (a : series) (e : nat) : series :=
    match e with O => sconst N 1 | S e' => smul N a (spow N a e') end.
  Definition stime (N : nat) (t0 : F) : series := mkv N (fs_time t0).
  Definition sD (N : nat) (a : series) : series := mkv N (fs_D (sget a)).

  Fixpoint sexps (N : nat) (env : list series) (es : list nat) : series :=
    match env, es with
    | x :: env', e :: es' => smul N (spow N x e) (sexps N env' es')
    | _, _ => sconst N 1
    end.
  Definition smono (N : nat) (env : list series) (m : @mono F) : series :=
    sscale N (fst m) (sexps N env (snd m)).
  Definition scompose (N : nat) (env : list series) (p : @poly F) : series :=
    fold_right (fun m acc => sadd N (smono N env m) acc) (sconst N 0) p.

  (* ---------------------------------------- polynomial arithmetic (data) *)
  Fixpoint exps_cmp (a b : list nat) : comparison :=
    match a, b with
    | [], [] => Eq
    | [], _ :: _ => Lt
    | _ :: _, [] => Gt
    | x :: a', y :: b' =>
      match Nat.compare x y with Eq => exps_cmp a' b' | c => c end
    end.

  (* merge of two (sorted) monomial lists, combining equal exponent vectors and
     dropping zero coefficients; semantically an addition for ANY two lists *)
  Fixpoint padd (p : @poly F) : @poly F -> @poly F :=
    fix aux (q : @poly F) : @poly F :=
      match p, q with
      | [], _ => q
      | _, [] => p
      | (c, e) :: p', (c', e') :: q' =>
        match exps_cmp e e' with
        | Lt => (c, e) :: padd p' q
        | Gt => (c', e') :: aux q'
        | Eq => let s := c + c' in
                if feqb s 0 then padd p' q' else (s, e) :: padd p' q'
        end
      end.

  Fixpoint eadd (a b : list nat) : list nat :=
    match a, b with
    | [], _ => b
    | _, [] => a
    | x :: a', y :: b' => (x + y)%nat :: eadd a' b'
    end.
  Definition pmul_mono (m : @mono F) (p : @poly F) : poly :=
    map (fun m' => (fst m * fst m', eadd (snd m) (snd m'))) p.
  Definition pmul (p q : @poly F) : @poly F :=
    fold_right (fun m acc => padd (pmul_mono m q) acc) [] p.
  (* the variable x_i among nvars variables *)
  Definition pvar (nvars i : nat) : @poly F :=
    [(1, map (fun j => if Nat.eqb i j then 1%nat else 0%nat) (seq 0 nvars))].

  (* ---------------------------- derivatives <-> normalised coefficients *)
  (* derivatives (u, u', u'', ...) -> (u, u'/1!, u''/2!, ...) and back *)
  Definition to_norm (ds : list F) : series :=
    mkv (length ds) (fun n => sget ds n / ffact n).
  Definition to_deriv (a : series) : list F :=
    mkv (length a) (fun n => ffact n * sget a n).
End Series.

(* ================================================================= lemmas *)
Section SeriesLemmas.
  Context {F : Type} `{FL : FieldLaws F}.
  Local Open Scope F_scope.
  Add Field FSer : fth.
  Local Notation fs := (@fs F).
  Local Notation series := (@series F).

  (* ------------------------------------------------- naturals in the field *)
  Lemma fpos_succ' p : fpos (Pos.succ p) = 1 + fpos p.
  Proof. induction p as [p IH|p IH|]; simpl; [rewrite IH; ring|ring|ring]. Qed.
  Lemma fnat_O : fnat 0 = (0 : F).
  Proof. reflexivity. Qed.
  Lemma fnat_succ n : fnat (S n) = 1 + fnat n.
  Proof.
    destruct n as [|n].
    - unfold fnat; simpl. ring.
    - unfold fnat. change (Z.of_nat (S (S n))) with (Zpos (Pos.succ (Pos.of_succ_nat n))).
      change (Z.of_nat (S n)) with (Zpos (Pos.of_succ_nat n)). simpl fZ.
      apply fpos_succ'.
  Qed.
  Lemma fnat_plus n m : fnat (n + m) = fnat n + fnat m.
  Proof.
    induction n as [|n IH].
    - rewrite fnat_O. simpl. ring.
    - change (S n + m)%nat with (S (n + m)). rewrite !fnat_succ, IH. ring.
  Qed.
  Lemma fnat_neq0 n : n <> 0%nat -> fnat n <> (0 : F).
  Proof.
    destruct n as [|n]; intro Hn; [congruence|].
    unfold fnat. change (Z.of_nat (S n)) with (Zpos (Pos.of_succ_nat n)). simpl fZ.
    apply char0.
  Qed.
  Lemma f1_neq0 : (1 : F) <> 0.
  Proof. exact (F_1_neq_0 fth). Qed.
  Lemma fmul_neq0 (x y : F) : x <> 0 -> y <> 0 -> x * y <> 0.
  Proof.
    intros Hx Hy Hxy. apply Hx.
    transitivity (x * y / y); [field; exact Hy|]. rewrite Hxy. field. exact Hy.
  Qed.
  Lemma ffact_neq0 n : ffact n <> (0 : F).
  Proof.
    induction n as [|n IH]; simpl; [exact f1_neq0|].
    apply fmul_neq0; [apply fnat_neq0; discriminate|exact IH].
  Qed.

  (* ------------------------------------------------------------ storage *)
  Lemma sget_mkv N (f : nat -> F) n : n < N -> sget (mkv N f) n = f n.
  Proof. exact (vget_mkv N f n). Qed.
  Lemma sget_mkv_out N (f : nat -> F) n : N <= n -> sget (mkv N f) n = 0.
  Proof. exact (vget_mkv_out N f n). Qed.
  Lemma sget_nil n : sget (@nil F) n = 0.
  Proof. unfold sget. destruct n; reflexivity. Qed.

  (* --------------------------------------------------- pointwise equality *)
  (* an inductive wrapper, so that [rewrite] treats it as a setoid relation *)
  Inductive fs_eq (a b : fs) : Prop := fs_eq_intro : (forall n, a n = b n) -> fs_eq a b.
  Local Infix "==" := fs_eq (at level 70).
  Lemma fs_eq_at a b : a == b -> forall n, a n = b n.
  Proof. intros [E]. exact E. Qed.

  Lemma fs_eq_refl a : a == a. Proof. constructor. intro n. reflexivity. Qed.
  Lemma fs_eq_sym a b : a == b -> b == a. Proof. intros [E]. constructor. intro n. symmetry. apply E. Qed.
  Lemma fs_eq_trans a b c : a == b -> b == c -> a == c.
  Proof. intros [E1] [E2]. constructor. intro n. rewrite E1. apply E2. Qed.

  #[global] Instance fs_eq_equiv : Equivalence fs_eq.
  Proof. split; [exact fs_eq_refl|exact fs_eq_sym|exact fs_eq_trans]. Qed.

  #[global] Instance fs_add_proper : Proper (fs_eq ==> fs_eq ==> fs_eq) fs_add.
  Proof. intros a a' [Ea] b b' [Eb]. constructor. intro n. unfold fs_add. rewrite Ea, Eb. reflexivity. Qed.
  #[global] Instance fs_sub_proper : Proper (fs_eq ==> fs_eq ==> fs_eq) fs_sub.
  Proof. intros a a' [Ea] b b' [Eb]. constructor. intro n. unfold fs_sub. rewrite Ea, Eb. reflexivity. Qed.
  #[global] Instance fs_opp_proper : Proper (fs_eq ==> fs_eq) fs_opp.
  Proof. intros a a' [Ea]. constructor. intro n. unfold fs_opp. rewrite Ea. reflexivity. Qed.
  #[global] Instance fs_scale_proper c : Proper (fs_eq ==> fs_eq) (fs_scale c).
  Proof. intros a a' [Ea]. constructor. intro n. unfold fs_scale. rewrite Ea. reflexivity. Qed.
  #[global] Instance fs_mul_proper : Proper (fs_eq ==> fs_eq ==> fs_eq) fs_mul.
  Proof.
    intros a a' [Ea] b b' [Eb]. constructor. intro n. unfold fs_mul. apply vsum_ext. intros i _.
    rewrite Ea, Eb. reflexivity.
  Qed.
  #[global] Instance fs_D_proper : Proper (fs_eq ==> fs_eq) fs_D.
  Proof. intros a a' [Ea]. constructor. intro n. unfold fs_D. rewrite Ea. reflexivity. Qed.
  #[global] Instance fs_pow_proper : Proper (fs_eq ==> eq ==> fs_eq) fs_pow.
  Proof.
    intros a a' Ea e e' <-. induction e as [|e IH]; simpl; [reflexivity|].
    apply fs_mul_proper; [exact Ea|exact IH].
  Qed.

  (* ---------------------------------------------------------- sum tools *)
  Lemma vsum_S_first n (f : nat -> F) : vsum (S n) f = f 0%nat + vsum n (fun i => f (S i)).
  Proof.
    induction n as [|n IH]; [simpl; ring|].
    change (vsum (S (S n)) f) with (vsum (S n) f + f (S n)). rewrite IH. simpl. ring.
  Qed.

  (* sum over the triangle m <= n, i <= m  =  sum over i <= n, j <= n - i *)
  Lemma vsum_triangle n (g : nat -> nat -> F) :
    vsum (S n) (fun m => vsum (S m) (fun i => g i m))
    = vsum (S n) (fun i => vsum (S (n - i)) (fun j => g i (i + j)%nat)).
  Proof.
    induction n as [|n IH].
    - simpl. ring.
    - change (vsum (S (S n)) (fun m => vsum (S m) (fun i => g i m)))
        with (vsum (S n) (fun m => vsum (S m) (fun i => g i m))
              + vsum (S (S n)) (fun i => g i (S n))).
      rewrite IH.
      change (vsum (S (S n)) (fun i => vsum (S (S n - i)) (fun j => g i (i + j)%nat)))
        with (vsum (S n) (fun i => vsum (S (S n - i)) (fun j => g i (i + j)%nat))
              + vsum (S (S n - S n)) (fun j => g (S n) (S n + j)%nat)).
      rewrite (vsum_ext (S n) (fun i => vsum (S (S n - i)) (fun j => g i (i + j)%nat))
                        (fun i => vsum (S (n - i)) (fun j => g i (i + j)%nat) + g i (S n))).
      2:{ intros i Hi. replace (S n - i)%nat with (S (n - i)) by lia.
          change (vsum (S (S (n - i))) (fun j => g i (i + j)%nat))
            with (vsum (S (n - i)) (fun j => g i (i + j)%nat) + g i (i + S (n - i))%nat).
          replace (i + S (n - i))%nat with (S n) by lia. reflexivity. }
      rewrite vsum_add.
      replace (S n - S n)%nat with 0%nat by lia.
      change (vsum (S (S n)) (fun i => g i (S n)))
        with (vsum (S n) (fun i => g i (S n)) + g (S n) (S n)).
      change (vsum 1 (fun j => g (S n) (S n + j)%nat)) with (0 + g (S n) (S n + 0)%nat).
      replace (S n + 0)%nat with (S n) by lia. ring.
  Qed.

  (* --------------------------------------------------------- ring laws *)
  Lemma fs_add_comm a b : fs_add a b == fs_add b a.
  Proof. constructor. intro n. unfold fs_add. ring. Qed.
  Lemma fs_add_assoc a b c : fs_add a (fs_add b c) == fs_add (fs_add a b) c.
  Proof. constructor. intro n. unfold fs_add. ring. Qed.
  Lemma fs_add_0_l a : fs_add (fs_const 0) a == a.
  Proof. constructor. intro n. unfold fs_add, fs_const. destruct n; ring. Qed.
  Lemma fs_sub_def a b : fs_sub a b == fs_add a (fs_opp b).
  Proof. constructor. intro n. unfold fs_sub, fs_add, fs_opp. ring. Qed.
  Lemma fs_opp_def a : fs_add a (fs_opp a) == fs_const 0.
  Proof. constructor. intro n. unfold fs_add, fs_opp, fs_const. destruct n; ring. Qed.

  Lemma vsum_rev n (f : nat -> F) : vsum (S n) f = vsum (S n) (fun i => f (n - i)%nat).
  Proof.
    induction n as [|n IH]; [reflexivity|].
    rewrite (vsum_S_first (S n) (fun i => f (S n - i)%nat)).
    change (vsum (S (S n)) f) with (vsum (S n) f + f (S n)).
    rewrite IH. replace (S n - 0)%nat with (S n) by lia.
    change (vsum (S n) (fun i => f (S n - S i)%nat)) with (vsum (S n) (fun i => f (n - i)%nat)).
    ring.
  Qed.

  Lemma fs_mul_comm a b : fs_mul a b == fs_mul b a.
  Proof.
    constructor. intro n. unfold fs_mul. rewrite vsum_rev. apply vsum_ext. intros i Hi.
    replace (n - (n - i))%nat with i by lia. ring.
  Qed.

  Lemma fs_mul_assoc a b c : fs_mul a (fs_mul b c) == fs_mul (fs_mul a b) c.
  Proof.
    constructor. intro n. unfold fs_mul.
    (* rhs: sum_{m<=n} (sum_{i<=m} a_i b_{m-i}) c_{n-m} *)
    rewrite (vsum_ext (S n)
               (fun m => vsum (S m) (fun i => a i * b (m - i)%nat) * c (n - m)%nat)
               (fun m => vsum (S m) (fun i => a i * b (m - i)%nat * c (n - m)%nat)))
      by (intros m _; rewrite vsum_scale_r; reflexivity).
    rewrite (vsum_triangle n (fun i m => a i * b (m - i)%nat * c (n - m)%nat)).
    apply vsum_ext. intros i Hi. rewrite <- vsum_scale_l. apply vsum_ext. intros j Hj.
    replace (i + j - i)%nat with j by lia. replace (n - (i + j))%nat with (n - i - j)%nat by lia.
    ring.
  Qed.

  Lemma fs_mul_1_l a : fs_mul (fs_const 1) a == a.
  Proof.
    constructor. intro n. unfold fs_mul. rewrite vsum_S_first.
    rewrite (vsum_ext n _ (fun _ => 0)) by (intros i _; simpl; ring).
    rewrite vsum_zero. simpl. replace (n - 0)%nat with n by lia. ring.
  Qed.
  Lemma fs_mul_0_l a : fs_mul (fs_const 0) a == fs_const 0.
  Proof.
    constructor. intro n. unfold fs_mul.
    rewrite (vsum_ext (S n) _ (fun _ => 0)) by (intros i _; unfold fs_const; destruct i; ring).
    rewrite vsum_zero. unfold fs_const. destruct n; reflexivity.
  Qed.
  Lemma fs_distr_l a b c : fs_mul (fs_add a b) c == fs_add (fs_mul a c) (fs_mul b c).
  Proof.
    constructor. intro n. unfold fs_mul, fs_add. rewrite <- vsum_add. apply vsum_ext. intros i _. ring.
  Qed.

  Lemma fs_ring_theory :
    ring_theory (fs_const 0) (fs_const 1) fs_add fs_mul fs_sub fs_opp fs_eq.
  Proof.
    constructor.
    - exact fs_add_0_l.
    - exact fs_add_comm.
    - exact fs_add_assoc.
    - exact fs_mul_1_l.
    - exact fs_mul_comm.
    - exact fs_mul_assoc.
    - exact fs_distr_l.
    - exact fs_sub_def.
    - exact fs_opp_def.
  Qed.
  Add Ring FSring : fs_ring_theory.

  Lemma fs_scale_mul c a : fs_scale c a == fs_mul (fs_const c) a.
  Proof.
    constructor. intro n. unfold fs_scale, fs_mul. rewrite vsum_S_first.
    rewrite (vsum_ext n _ (fun _ => 0)) by (intros i _; simpl; ring).
    rewrite vsum_zero. simpl. replace (n - 0)%nat with n by lia. ring.
  Qed.
  Lemma fs_const_add x y : fs_const (x + y) == fs_add (fs_const x) (fs_const y).
  Proof. constructor. intro n. unfold fs_add, fs_const. destruct n; ring. Qed.
  Lemma fs_const_mul x y : fs_const (x * y) == fs_mul (fs_const x) (fs_const y).
  Proof. rewrite <- fs_scale_mul. constructor. intro n. unfold fs_scale, fs_const. destruct n; ring. Qed.

  Lemma fs_pow_add a e1 e2 : fs_pow a (e1 + e2) == fs_mul (fs_pow a e1) (fs_pow a e2).
  Proof.
    induction e1 as [|e1 IH]; simpl.
    - ring.
    - rewrite IH. ring.
  Qed.

  (* ------------------------------------------------- formal derivative *)
  Lemma fs_D_add a b : fs_D (fs_add a b) == fs_add (fs_D a) (fs_D b).
  Proof. constructor. intro n. unfold fs_D, fs_add. ring. Qed.
  Lemma fs_D_scale c a : fs_D (fs_scale c a) == fs_scale c (fs_D a).
  Proof. constructor. intro n. unfold fs_D, fs_scale. ring. Qed.
  Lemma fs_D_const c : fs_D (fs_const c) == fs_const 0.
  Proof. constructor. intro n. unfold fs_D, fs_const. destruct n; ring. Qed.
  Lemma fs_D_time t0 : fs_D (fs_time t0) == fs_const 1.
  Proof.
    constructor. intro n. unfold fs_D, fs_time, fs_const. destruct n as [|[|n]].
    - unfold fnat; simpl. ring.
    - ring.
    - ring.
  Qed.

  (* Leibniz rule for the Cauchy product *)
  Lemma fs_D_mul a b : fs_D (fs_mul a b) == fs_add (fs_mul (fs_D a) b) (fs_mul a (fs_D b)).
  Proof.
    constructor. intro n. unfold fs_D, fs_add, fs_mul.
    set (T := fun i => a i * b (S n - i)%nat).
    assert (E1 : vsum (S n) (fun i => fnat (S i) * a (S i) * b (n - i)%nat)
                 = vsum (S (S n)) (fun i => fnat i * T i)).
    { rewrite (vsum_S_first (S n) (fun i => fnat i * T i)). rewrite fnat_O.
      transitivity (0 + vsum (S n) (fun i => fnat (S i) * T (S i))); [|ring].
      transitivity (vsum (S n) (fun i => fnat (S i) * T (S i))); [|ring].
      apply vsum_ext. intros i Hi. unfold T. change (S n - S i)%nat with (n - i)%nat. ring. }
    assert (E2 : vsum (S n) (fun i => a i * (fnat (S (n - i)) * b (S (n - i))))
                 = vsum (S (S n)) (fun i => fnat (S n - i) * T i)).
    { change (vsum (S (S n)) (fun i => fnat (S n - i) * T i))
        with (vsum (S n) (fun i => fnat (S n - i) * T i) + fnat (S n - S n) * T (S n)).
      replace (S n - S n)%nat with 0%nat by lia. rewrite fnat_O.
      transitivity (vsum (S n) (fun i => fnat (S n - i) * T i)); [|ring].
      apply vsum_ext. intros i Hi. unfold T.
      replace (S n - i)%nat with (S (n - i)) by lia. ring. }
    rewrite E1, E2. rewrite <- vsum_add. rewrite <- vsum_scale_l.
    apply vsum_ext. intros i Hi. fold (T i).
    replace (fnat (S n)) with (fnat (i + (S n - i))) by (f_equal; lia).
    rewrite fnat_plus. ring.
  Qed.

  Lemma fs_D_pow a e :
    fs_D (fs_pow a (S e)) == fs_mul (fs_scale (fnat (S e)) (fs_pow a e)) (fs_D a).
  Proof.
    induction e as [|e IH].
    - simpl. rewrite fs_D_mul, fs_D_const. rewrite !fs_scale_mul.
      assert (E : fs_const (fnat 1) == fs_const 1).
      { constructor. intro n. unfold fnat; simpl. reflexivity. }
      rewrite E. ring.
    - change (fs_pow a (S (S e))) with (fs_mul a (fs_pow a (S e))).
      rewrite fs_D_mul, IH. rewrite !fs_scale_mul.
      rewrite (fnat_succ (S e)). rewrite fs_const_add.
      change (fs_pow a (S e)) with (fs_mul a (fs_pow a e)). ring.
  Qed.
End SeriesLemmas.

(* ===================================================== composition lemmas *)
Section SeriesCompose.
  Context {F : Type} `{FL : FieldLaws F}.
  Local Open Scope F_scope.
  Add Field FSer2 : fth.
  Add Ring FSring2 : fs_ring_theory.
  Local Notation fs := (@fs F).
  Local Notation series := (@series F).
  Local Notation poly := (@poly F).
  Local Infix "==" := fs_eq (at level 70).

  (* ------------------------------------------------------- finite sums *)
  Definition fs_sum (l : list fs) : fs := fold_right fs_add (fs_const 0) l.

  Lemma fs_sum_ext {A} (g h : A -> fs) l :
    (forall x, In x l -> g x == h x) -> fs_sum (map g l) == fs_sum (map h l).
  Proof.
    induction l as [|x l IH]; intro E; simpl; [reflexivity|].
    rewrite (E x) by (left; reflexivity). rewrite IH by (intros y Hy; apply E; right; exact Hy).
    reflexivity.
  Qed.
  Lemma fs_sum_add {A} (g h : A -> fs) l :
    fs_sum (map (fun x => fs_add (g x) (h x)) l) == fs_add (fs_sum (map g l)) (fs_sum (map h l)).
  Proof. induction l as [|x l IH]; simpl; [ring|]. rewrite IH. ring. Qed.
  Lemma fs_sum_mul_l {A} c (g : A -> fs) l :
    fs_sum (map (fun x => fs_mul c (g x)) l) == fs_mul c (fs_sum (map g l)).
  Proof. induction l as [|x l IH]; simpl; [ring|]. rewrite IH. ring. Qed.
  Lemma fs_sum_zero {A} (l : list A) : fs_sum (map (fun _ => fs_const 0) l) == fs_const 0.
  Proof. induction l as [|x l IH]; simpl; [reflexivity|]. rewrite IH. ring. Qed.

  (* ------------------------------------------------ structure of compose *)
  Lemma fs_compose_nil env : fs_compose env [] = fs_const 0.
  Proof. reflexivity. Qed.
  Lemma fs_compose_cons env m p :
    fs_compose env (m :: p) = fs_add (fs_mono env m) (fs_compose env p).
  Proof. reflexivity. Qed.
  Lemma fs_compose_app env p q :
    fs_compose env (p ++ q) == fs_add (fs_compose env p) (fs_compose env q).
  Proof.
    induction p as [|m p IH]; simpl.
    - change (fs_compose env q == fs_add (fs_const 0) (fs_compose env q)). ring.
    - change (fs_add (fs_mono env m) (fs_compose env (p ++ q))
              == fs_add (fs_add (fs_mono env m) (fs_compose env p)) (fs_compose env q)).
      rewrite IH. ring.
  Qed.

  (* --------------------------------------------- the constant coefficient *)
  Lemma fs_mul_at0 (a b : fs) : fs_mul a b 0%nat = a 0%nat * b 0%nat.
  Proof. unfold fs_mul. simpl. ring. Qed.
  Lemma fs_pow_at0 (a : fs) e : fs_pow a e 0%nat = fpow (a 0%nat) e.
  Proof. induction e as [|e IH]; simpl; [reflexivity|]. rewrite fs_mul_at0, IH. reflexivity. Qed.
  Lemma fs_exps_at0 (env : list fs) es :
    fs_exps env es 0%nat = eval_exps (map (fun a => a 0%nat) env) es.
  Proof.
    revert es. induction env as [|x env IH]; intros [|e es]; simpl; try reflexivity.
    rewrite fs_mul_at0, fs_pow_at0, IH. reflexivity.
  Qed.
  (* composing and reading off the constant term = plain evaluation *)
  Lemma fs_compose_at0 (env : list fs) (p : poly) :
    fs_compose env p 0%nat = eval_poly (map (fun a => a 0%nat) env) p.
  Proof.
    induction p as [|m p IH]; simpl; [reflexivity|].
    unfold fs_add at 1. unfold eval_poly in IH. rewrite IH.
    unfold fs_mono, fs_scale, eval_mono. rewrite fs_exps_at0. reflexivity.
  Qed.

  (* --------------------------------------------------- prefix dependence *)
  (* coefficients below N agree *)
  Definition agreeN (N : nat) (a b : fs) : Prop := forall i, i < N -> a i = b i.

  Lemma agreeN_refl N a : agreeN N a a.
  Proof. intros i _. reflexivity. Qed.
  Lemma agreeN_le N M a b : M <= N -> agreeN N a b -> agreeN M a b.
  Proof. intros HM E i Hi. apply E. lia. Qed.
  Lemma fs_eq_agreeN N a b : a == b -> agreeN N a b.
  Proof. intros [E] i _. apply E. Qed.

  Lemma fs_mul_agreeN N a a' b b' :
    agreeN N a a' -> agreeN N b b' -> agreeN N (fs_mul a b) (fs_mul a' b').
  Proof.
    intros Ea Eb n Hn. unfold fs_mul. apply vsum_ext. intros i Hi.
    rewrite Ea by lia. rewrite Eb by lia. reflexivity.
  Qed.
  Lemma fs_add_agreeN N a a' b b' :
    agreeN N a a' -> agreeN N b b' -> agreeN N (fs_add a b) (fs_add a' b').
  Proof. intros Ea Eb n Hn. unfold fs_add. rewrite Ea, Eb by exact Hn. reflexivity. Qed.
  Lemma fs_scale_agreeN N c a a' : agreeN N a a' -> agreeN N (fs_scale c a) (fs_scale c a').
  Proof. intros Ea n Hn. unfold fs_scale. rewrite Ea by exact Hn. reflexivity. Qed.
  Lemma fs_pow_agreeN N a a' e : agreeN N a a' -> agreeN N (fs_pow a e) (fs_pow a' e).
  Proof.
    intro Ea. induction e as [|e IH]; simpl; [apply agreeN_refl|].
    apply fs_mul_agreeN; assumption.
  Qed.
  Lemma fs_exps_agreeN N (env env' : list fs) es :
    Forall2 (agreeN N) env env' -> agreeN N (fs_exps env es) (fs_exps env' es).
  Proof.
    intro E. revert es. induction E as [|x x' env env' Ex E IH]; intros [|e es]; simpl;
      try apply agreeN_refl.
    apply fs_mul_agreeN; [apply fs_pow_agreeN; exact Ex|apply IH].
  Qed.
  (* coefficient n of a composition depends only on the coefficients <= n of the arguments *)
  Lemma fs_compose_agreeN N (env env' : list fs) (p : poly) :
    Forall2 (agreeN N) env env' -> agreeN N (fs_compose env p) (fs_compose env' p).
  Proof.
    intro E. induction p as [|m p IH]; simpl; [apply agreeN_refl|].
    apply fs_add_agreeN; [|exact IH].
    unfold fs_mono. apply fs_scale_agreeN. apply fs_exps_agreeN. exact E.
  Qed.

  (* ------------------------ the truncated list operations compute the above *)
  Lemma sget_sconst N c : agreeN N (sget (sconst N c)) (fs_const c).
  Proof. intros n Hn. unfold sconst. apply sget_mkv. exact Hn. Qed.
  Lemma sget_smul N a b : agreeN N (sget (smul N a b)) (fs_mul (sget a) (sget b)).
  Proof. intros n Hn. unfold smul. apply sget_mkv. exact Hn. Qed.
  Lemma sget_sadd N a b : agreeN N (sget (sadd N a b)) (fs_add (sget a) (sget b)).
  Proof. intros n Hn. unfold sadd. apply sget_mkv. exact Hn. Qed.
  Lemma sget_ssub N a b : agreeN N (sget (ssub N a b)) (fs_sub (sget a) (sget b)).
  Proof. intros n Hn. unfold ssub. apply sget_mkv. exact Hn. Qed.
  Lemma sget_sscale N c a : agreeN N (sget (sscale N c a)) (fs_scale c (sget a)).
  Proof. intros n Hn. unfold sscale. apply sget_mkv. exact Hn. Qed.
  Lemma sget_strunc N a : agreeN N (sget (strunc N a)) a.
  Proof. intros n Hn. unfold strunc. apply sget_mkv. exact Hn. Qed.
  Lemma sget_stime N t0 : agreeN N (sget (stime N t0)) (fs_time t0).
  Proof. intros n Hn. unfold stime. apply sget_mkv. exact Hn. Qed.

  Lemma agreeN_trans N a b c : agreeN N a b -> agreeN N b c -> agreeN N a c.
  Proof. intros E1 E2 i Hi. rewrite E1 by exact Hi. apply E2. exact Hi. Qed.

  Lemma sget_spow N a e : agreeN N (sget (spow N a e)) (fs_pow (sget a) e).
  Proof.
    induction e as [|e IH]; simpl; [apply sget_sconst|].
    eapply agreeN_trans; [apply sget_smul|].
    apply fs_mul_agreeN; [apply agreeN_refl|exact IH].
  Qed.
  Lemma sget_sexps N (env : list series) es :
    agreeN N (sget (sexps N env es)) (fs_exps (map sget env) es).
  Proof.
    revert es. induction env as [|x env IH]; intros [|e es]; simpl; try apply sget_sconst.
    eapply agreeN_trans; [apply sget_smul|].
    apply fs_mul_agreeN; [apply sget_spow|apply IH].
  Qed.
  (* jet on a polynomial program = composition of formal power series, truncated *)
  Lemma sget_scompose N (env : list series) (p : poly) :
    agreeN N (sget (scompose N env p)) (fs_compose (map sget env) p).
  Proof.
    induction p as [|m p IH]; simpl; [apply sget_sconst|].
    eapply agreeN_trans; [apply sget_sadd|].
    apply fs_add_agreeN; [|exact IH].
    unfold smono, fs_mono. eapply agreeN_trans; [apply sget_sscale|].
    apply fs_scale_agreeN. apply sget_sexps.
  Qed.

  (* ----------------------------------------------------------- chain rule *)
  (* d/dx_v of the monomial x^es, composed with env *)
  Definition dexps (env : list fs) (es : list nat) (v : nat) : fs :=
    match dec_at v es with
    | None => fs_const 0
    | Some (k, es') => fs_scale (fnat k) (fs_exps env es')
    end.

  Lemma fs_D_exps (env : list fs) es :
    fs_D (fs_exps env es)
    == fs_sum (map (fun v => fs_mul (dexps env es v) (fs_D (nth v env (fs_const 0))))
                   (seq 0 (length env))).
  Proof.
    revert es. induction env as [|x env IH]; intros es.
    - simpl. destruct es; apply fs_D_const.
    - destruct es as [|e es].
      + simpl fs_exps. rewrite fs_D_const.
        rewrite (fs_sum_ext _ (fun _ => fs_const 0)).
        * symmetry. apply fs_sum_zero.
        * intros v _. unfold dexps. destruct v; simpl; ring.
      + simpl fs_exps. simpl length. rewrite <- cons_seq, <- seq_shift.
        rewrite map_cons, map_map. simpl fs_sum. rewrite fs_D_mul.
        (* the terms v = S v' *)
        rewrite (fs_sum_ext
                   (fun v' => fs_mul (dexps (x :: env) (e :: es) (S v'))
                                     (fs_D (nth v' env (fs_const 0))))
                   (fun v' => fs_mul (fs_pow x e)
                                     (fs_mul (dexps env es v') (fs_D (nth v' env (fs_const 0)))))).
        2:{ intros v' _. unfold dexps. simpl dec_at.
            destruct (dec_at v' es) as [[k r]|].
            - simpl fs_exps. rewrite !fs_scale_mul. ring.
            - ring. }
        rewrite fs_sum_mul_l. rewrite <- IH.
        (* the term v = 0 *)
        unfold dexps at 1. simpl dec_at. simpl nth.
        destruct e as [|e'].
        * simpl fs_pow. rewrite fs_D_const. ring.
        * rewrite fs_D_pow. simpl fs_exps. rewrite !fs_scale_mul. ring.
  Qed.

  Lemma fs_compose_diff_mono (env : list fs) v (m : @mono F) :
    fs_compose env (match diff_mono v m with None => [] | Some m' => [m'] end)
    == fs_scale (fst m) (dexps env (snd m) v).
  Proof.
    unfold diff_mono, dexps. destruct (dec_at v (snd m)) as [[k es']|].
    - rewrite fs_compose_cons, fs_compose_nil. unfold fs_mono. simpl fst. simpl snd.
      rewrite !fs_scale_mul, fs_const_mul. ring.
    - rewrite fs_compose_nil, fs_scale_mul. ring.
  Qed.

  (* D (p o env) = sum_v ((d p / d x_v) o env) * D env_v *)
  Theorem fs_D_compose (env : list fs) (p : poly) :
    fs_D (fs_compose env p)
    == fs_sum (map (fun v => fs_mul (fs_compose env (diff_poly v p))
                                    (fs_D (nth v env (fs_const 0))))
                   (seq 0 (length env))).
  Proof.
    induction p as [|m p IH].
    - rewrite fs_compose_nil, fs_D_const.
      rewrite (fs_sum_ext _ (fun _ => fs_const 0)).
      + symmetry. apply fs_sum_zero.
      + intros v _. change (diff_poly v (@nil (@mono F))) with (@nil (@mono F)).
        rewrite fs_compose_nil. ring.
    - rewrite fs_compose_cons, fs_D_add. unfold fs_mono at 1. rewrite fs_D_scale, fs_D_exps, IH.
      rewrite (fs_sum_ext
                 (fun v => fs_mul (fs_compose env (diff_poly v (m :: p)))
                                  (fs_D (nth v env (fs_const 0))))
                 (fun v => fs_add
                             (fs_mul (fs_const (fst m))
                                     (fs_mul (dexps env (snd m) v) (fs_D (nth v env (fs_const 0)))))
                             (fs_mul (fs_compose env (diff_poly v p))
                                     (fs_D (nth v env (fs_const 0)))))).
      2:{ intros v _. unfold diff_poly at 1. simpl flat_map.
          rewrite fs_compose_app, fs_compose_diff_mono, fs_scale_mul.
          fold (diff_poly v p). ring. }
      rewrite fs_sum_add, fs_sum_mul_l, fs_scale_mul. reflexivity.
  Qed.
End SeriesCompose.
