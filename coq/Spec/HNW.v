(* The starting-step-size algorithm of
     E. Hairer, S. P. Norsett, G. Wanner, Solving Ordinary Differential
     Equations I (Nonstiff Problems), 2nd ed., Sec. II.4, "Starting Step Size",
   transcribed from the book, independently of the code and of Model/Stepsize.v
   (this file imports the standard library only).

   The book's text:
   (a) Do one function evaluation f(x0,y0) at the initial point.  Then put
       d0 = ||y0|| and d1 = ||f(x0,y0)||, using the norm (4.11)
           ||v|| = sqrt( 1/n * sum_i (v_i / sc_i)^2 ),
       with sc_i = Atol_i + |y0_i| * Rtol_i.
   (b) As a first guess for the step size let h0 = 0.01 * (d0 / d1).  If either
       d0 or d1 is smaller than 1e-5 we put h0 = 1e-6.
   (c) Perform one explicit Euler step, y1 = y0 + h0 * f(x0,y0), and compute
       f(x0 + h0, y1).
   (d) Compute d2 = ||f(x0+h0,y1) - f(x0,y0)|| / h0 as an estimate of the second
       derivative of the solution; again by using the norm (4.11).
   (e) Compute a step size h1 from the relation
           h1^(p+1) * max(d1, d2) = 0.01,
       where p is the order of the method.  If max(d1,d2) <= 1e-15 we put
       h1 = max(1e-6, h0 * 1e-3).
   (f) Finally we propose as starting step size  h = min(100 * h0, h1).

   Norms.  (4.11) contains a square root, so the norm is an oracle here.  The
   algorithm is written for an arbitrary pair of norm oracles
       norm_a sc v   (used in step (a))     norm_d sc v   (used in step (d)),
   each of which may fail (None: division by a zero sc_i).  Three instances
   are named below:
     [book_norm]      : both norms are (4.11)  (THE BOOK);
     [variant_plain]  : sqrt(sum v_i^2), ignoring sc (what probdiffeq uses for
                        d0 and d1);
     [variant_scaled] : sqrt(sum (v_i/sc_i)^2), no 1/n (what probdiffeq and
                        jax.experimental.ode use for d2; jax.experimental.ode
                        uses it for d0 and d1 as well).
   Proofs/StepsizeProofs.v states exactly in which respects these coincide and
   proves that they do NOT coincide in general. *)
From Coq Require Import List QArith Qabs Qminmax Bool.
Import ListNotations.
Local Open Scope Q_scope.

(* sc_i = Atol + |y0_i| * Rtol   (scalar tolerances, as in the code) *)
Fixpoint sc_of (Atol Rtol : Q) (y0 : list Q) : list Q :=
  match y0 with
  | [] => []
  | y :: r => (Atol + Qabs y * Rtol) :: sc_of Atol Rtol r
  end.

Fixpoint vsub (a b : list Q) : list Q :=
  match a, b with
  | x :: ra, y :: rb => (x - y) :: vsub ra rb
  | _, _ => []
  end.

(* y + h * g *)
Fixpoint explicit_euler (y : list Q) (h : Q) (g : list Q) : list Q :=
  match y, g with
  | a :: ry, b :: rg => (a + h * b) :: explicit_euler ry h rg
  | _, _ => []
  end.

(* (v_i / sc_i)_i ; None if some sc_i is zero or the lengths differ *)
Fixpoint wdiv (v sc : list Q) : option (list Q) :=
  match v, sc with
  | [], [] => Some []
  | a :: rv, s :: rs =>
      match Qeq_dec s 0 with
      | left _ => None
      | right _ => option_map (cons (a / s)) (wdiv rv rs)
      end
  | _, _ => None
  end.

Fixpoint sum_sq (v : list Q) : Q :=
  match v with [] => 0 | a :: r => sum_sq r + a * a end.

Fixpoint pow_nat (x : Q) (k : nat) : Q :=
  match k with O => 1 | Datatypes.S k' => pow_nat x k' * x end.

(* ---- the three norms, as contracts on the value d of the norm ---- *)
(* (4.11):  d >= 0  and  n * d^2 = sum (v_i/sc_i)^2 *)
Definition book_norm (sc v : list Q) (d : Q) : Prop :=
  exists w, wdiv v sc = Some w /\ 0 <= d /\
            inject_Z (Z.of_nat (length v)) * (d * d) == sum_sq w.
Definition variant_plain (v : list Q) (d : Q) : Prop :=
  0 <= d /\ d * d == sum_sq v.
Definition variant_scaled (sc v : list Q) (d : Q) : Prop :=
  exists w, wdiv v sc = Some w /\ 0 <= d /\ d * d == sum_sq w.

Record hnw_trace : Type := mkHNW {
  hs_d0 : Q; hs_d1 : Q;
  hs_fallback : bool;     (* step (b): "we put h0 = 1e-6" *)
  hs_h0 : Q;
  hs_y1 : list Q; hs_x1 : Q;
  hs_d2 : Q;
  hs_guard : bool;        (* step (e): "we put h1 = max(1e-6, h0*1e-3)" *)
  hs_h1 : Q;
  hs_h : Q }.

Section HNW.
  Variable f : Q -> list Q -> list Q.
  Variable norm_a norm_d : list Q -> list Q -> option Q.
  Variable p : nat.                       (* order of the method *)
  Variable Atol Rtol : Q.

  (* steps (a)-(d) *)
  Definition step_b (d0 d1 : Q) : bool * Q :=
    match Qlt_le_dec d0 (1 # 100000) with
    | left _ => (true, 1 # 1000000)
    | right _ =>
      match Qlt_le_dec d1 (1 # 100000) with
      | left _ => (true, 1 # 1000000)
      | right _ => (false, (1 # 100) * (d0 / d1))
      end
    end.

  (* step (e), exceptional case *)
  Definition step_e_guard (d1 d2 : Q) : bool :=
    match Qlt_le_dec (1 # 1000000000000000) (Qmax d1 d2) with
    | left _ => false
    | right _ => true
    end.

  (* step (e) as the book states it: a RELATION that determines h1 *)
  Definition step_e_rel (h0 d1 d2 h1 : Q) : Prop :=
    if step_e_guard d1 d2
    then h1 == Qmax (1 # 1000000) (h0 * (1 # 1000))
    else 0 < h1 /\ pow_nat h1 (p + 1) * Qmax d1 d2 == 1 # 100.

  (* the complete algorithm as a relation between the data and (trace, h) *)
  Definition hnw_rel (x0 : Q) (y0 : list Q) (r : hnw_trace) : Prop :=
    let sc := sc_of Atol Rtol y0 in
    let f0 := f x0 y0 in
    norm_a sc y0 = Some (hs_d0 r) /\ norm_a sc f0 = Some (hs_d1 r) /\      (* a *)
    (hs_fallback r, hs_h0 r) = step_b (hs_d0 r) (hs_d1 r) /\                (* b *)
    hs_y1 r = explicit_euler y0 (hs_h0 r) f0 /\ hs_x1 r = x0 + hs_h0 r /\   (* c *)
    (exists n2, norm_d sc (vsub (f (hs_x1 r) (hs_y1 r)) f0) = Some n2 /\
                hs_d2 r = n2 / hs_h0 r) /\                                  (* d *)
    hs_guard r = step_e_guard (hs_d1 r) (hs_d2 r) /\
    step_e_rel (hs_h0 r) (hs_d1 r) (hs_d2 r) (hs_h1 r) /\                   (* e *)
    hs_h r == Qmin (100 * hs_h0 r) (hs_h1 r).                               (* f *)

  (* the same algorithm as a function, given an oracle for the (p+1)-th root *)
  Variable root : Q -> nat -> Q.

  Definition hnw_start (x0 : Q) (y0 : list Q) : option hnw_trace :=
    let sc := sc_of Atol Rtol y0 in
    let f0 := f x0 y0 in
    match norm_a sc y0, norm_a sc f0 with
    | Some d0, Some d1 =>
      let '(fb, h0) := step_b d0 d1 in
      let y1 := explicit_euler y0 h0 f0 in
      let x1 := x0 + h0 in
      match norm_d sc (vsub (f x1 y1) f0) with
      | Some n2 =>
        let d2 := n2 / h0 in
        let g := step_e_guard d1 d2 in
        let h1 := if g then Qmax (1 # 1000000) (h0 * (1 # 1000))
                  else root ((1 # 100) / Qmax d1 d2) (p + 1) in
        Some (mkHNW d0 d1 fb h0 y1 x1 d2 g h1 (Qmin (100 * h0) h1))
      | None => None
      end
    | _, _ => None
    end.
End HNW.

(* The norm oracles of the implemented variant, built from one Euclidean-norm
   oracle nrm (contract: variant_plain v (nrm v)). *)
Definition plain_of (nrm : list Q -> Q) : list Q -> list Q -> option Q :=
  fun _ v => Some (nrm v).
Definition scaled_of (nrm : list Q -> Q) : list Q -> list Q -> option Q :=
  fun sc v => option_map nrm (wdiv v sc).
