(* Specification for C10: the formal power-series solution of

       u^(k)(t) = f(u(t), u'(t), ..., u^(k-1)(t), t),   u^(j)(t0) given for j < k.

   With U(tau) = sum_n a_n tau^n (a_n a d-vector of NORMALISED coefficients,
   a_n = u^(n)(t0)/n!) the ODE reads, coefficient by coefficient,

       (n+1)(n+2)...(n+k) a_{n+k}  =  [tau^n] f(U(tau), U'(tau), ..., t0 + tau),

   where the right-hand side only involves a_0 .. a_{n+k-1}.  This determines
   the sequence uniquely (Proofs/JetProofs.v, T10.1) and is computed by the
   obvious recursion below.  The derivatives are u^(n)(t0) = n! a_n.
   Definitions only. *)
From Coq Require Import List Arith Bool.
From PD Require Import Base.Field Base.Matrix Model.Poly Base.Series.
Import ListNotations.

Section ODESeries.
  Context {F : Type} `{FieldOps F}.
  Local Open Scope F_scope.

  (* a vector field of order k in d dimensions: one polynomial per dimension
     over the variables x_{j,b} (index j*d + b, j < k) followed by t (index k*d) *)
  Record vfield : Type := mkVF { vf_k : nat; vf_d : nat; vf_f : list (@poly F) }.

  (* (n+1)(n+2)...(n+j) *)
  Fixpoint rise (n j : nat) : F :=
    match j with O => 1 | S j' => fnat (S n) * rise (S n) j' end.

  (* the j-th derivative of component b of the curve with normalised
     coefficients a, as a formal series in tau *)
  Definition curve_fs (a : nat -> nat -> F) (j b : nat) : fs :=
    fs_Dn j (fun n => a n b).

  (* the tuple of series substituted for (x_{0,0}, ..., x_{k-1,d-1}, t) *)
  Definition curve_env (k d : nat) (a : nat -> nat -> F) (t0 : F) : list fs :=
    map (fun idx => curve_fs a (idx / d) (idx mod d)) (seq 0 (k * d)) ++ [fs_time t0].

  (* a is a formal solution: U^(k) = f(U, ..., U^(k-1), t0 + tau) as formal series *)
  Definition is_formal_solution (v : vfield) (t0 : F) (a : nat -> nat -> F) : Prop :=
    forall n b, b < vf_d v ->
      curve_fs a (vf_k v) b n
      = fs_compose (curve_env (vf_k v) (vf_d v) a t0) (nth b (vf_f v) []) n.

  (* ---------------------------------------------------- the recursion *)
  (* coefficient function of a stored list of coefficient vectors *)
  Definition afun (A : list (list F)) : nat -> nat -> F :=
    fun n b => vget (nth n A []) b.

  Definition spec_env (N k d : nat) (A : list (list F)) (t0 : F) : list series :=
    map (fun idx => strunc N (curve_fs (afun A) (idx / d) (idx mod d))) (seq 0 (k * d))
    ++ [stime N t0].

  (* from a_0 .. a_{m} (m+1 = length A >= k) compute a_{m+1}: with n = m+1-k,
     a_{n+k} = [tau^n] f(...) / ((n+1)...(n+k)) *)
  Definition spec_next (v : vfield) (t0 : F) (A : list (list F)) : list F :=
    let n := (length A - vf_k v)%nat in
    map (fun p => sget (scompose (S n) (spec_env (S n) (vf_k v) (vf_d v) A t0) p) n
                  / rise n (vf_k v))
        (vf_f v).

  Fixpoint spec_coeffs (v : vfield) (t0 : F) (A0 : list (list F)) (num : nat)
    : list (list F) :=
    match num with
    | O => A0
    | S num' => let A := spec_coeffs v t0 A0 num' in A ++ [spec_next v t0 A]
    end.

  (* derivative vectors <-> normalised coefficient vectors, order by order *)
  Definition normalise (ds : list (list F)) : list (list F) :=
    map (fun n => map (fun x => x / ffact n) (nth n ds [])) (seq 0 (length ds)).
  Definition denormalise (A : list (list F)) : list (list F) :=
    map (fun n => map (fun x => ffact n * x) (nth n A [])) (seq 0 (length A)).

  (* the specification of every Taylor-coefficient routine: from the k initial
     derivative vectors (u(t0), ..., u^(k-1)(t0)) the list
     (u(t0), u'(t0), ..., u^(k-1+num)(t0)) *)
  Definition spec_derivs (v : vfield) (t0 : F) (inits : list (list F)) (num : nat)
    : list (list F) :=
    denormalise (spec_coeffs v t0 (normalise inits) num).
  (* ================================================================
     Specification for C11: total time derivatives of a function of k jet
     coordinates along a curve.

     g is a polynomial over the variables x_{j,b} (index j*d + b, j < K) and
     t (index K*d).  Along any curve u(.) with u^(j) = x_j, the chain rule gives

         d/dt g(u, u', ..., u^(K-1), t) = (D_t g)(u, u', ..., u^(K), t),
         D_t g = dg/dt + sum_{j,b} dg/dx_{j,b} * x_{j+1,b}.

     A function of k coordinates lifted by m is embedded into K = k + m
     coordinates; D_t^l g then involves the coordinates j < k + l only. *)
  Definition embed_exps (k d K : nat) (es : list nat) : list nat :=
    firstn (k * d) es ++ repeat 0%nat ((K - k) * d) ++ [nth (k * d) es 0%nat].
  Definition embed_poly (k d K : nat) (p : @poly F) : @poly F :=
    map (fun m : @mono F => (fst m, embed_exps k d K (snd m))) p.

  Definition total_deriv (K d : nat) (g : @poly F) : @poly F :=
    padd (diff_poly (K * d) g)
         (fold_right (fun idx acc =>
                        padd (pmul (diff_poly idx g) (pvar (S (K * d)) (idx + d))) acc)
                     [] (seq 0 ((K - 1) * d))).

  Fixpoint total_deriv_n (K d l : nat) (g : @poly F) : @poly F :=
    match l with O => g | S l' => total_deriv K d (total_deriv_n K d l' g) end.

  (* the values D_t^l f_o, l = 0..m, at the supplied coefficients x_0..x_{k+m-1} and t *)
  Definition lift_spec (k d : nat) (ps : list (@poly F)) (m : nat)
             (coords : list (list F)) (t : F) : list (list F) :=
    let K := (k + m)%nat in
    let env := concat (firstn K coords) ++ [t] in
    map (fun l => map (fun p => eval_poly env (total_deriv_n K d l (embed_poly k d K p))) ps)
        (seq 0 (S m)).
End ODESeries.
