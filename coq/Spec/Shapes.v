(* C20 -- DECLARATIVE well-formedness of the arguments of every public entry
   point, written from the documentation (docstrings, type hints `C | bool`,
   tests), independently of the order and the mechanics of the validator code.

   Vocabulary shared with the model: the abstract values [aval], [fact].

   Summary
     Numeric v          v is a number container leaf: an array or a Python scalar
     CoeffTree c        one Taylor coefficient: a non-empty pytree of numeric leaves
     SameShape a b      identical tree structure, numeric leaves, identical leaf shapes
     WfTcoeffs x        a non-array, non-empty list / tuple of coefficients that all
                        have the same tree of shapes
     WfFlags f m ie     exactness flags: a Python bool, or (dense, blockdiag) the tree of
                        the mean with boolean leaves of the leaf's shape or of shape ()
                        (documented: scalar flags per leaf), or (isotropic) one boolean
                        SCALAR per coefficient
     WfBaseScale f m s  None, or (dense, blockdiag) exactly the tree and leaf shapes of ONE
                        coefficient, or (isotropic) a numeric scalar
     WfStd f m s        an explicit standard-deviation container: (dense, blockdiag)
                        exactly the tree and leaf shapes of the mean; (isotropic) one
                        numeric scalar per coefficient
     WfCal e c          a calibrated output scale: array-like of shape e
     WfLossStd s e      observation noise: exactly the tree and leaf shapes expected
     lift_in_range      0 <= lift_by <= (#jet coordinates) - (order of the residual)
     Unsuitable s r     strategy / routine pairings documented as unsuitable *)
From Coq Require Import List Bool Arith ZArith.
From PD Require Import Model.Validate.
Import ListNotations.

Definition Numeric (v : aval) : Prop :=
  match v with AArr _ _ | APyBool | APyFloat | APyInt => True | _ => False end.

(* the shape of a numeric leaf; Python scalars are 0-dimensional *)
Definition shape_of (v : aval) : list nat :=
  match v with AArr s _ => s | _ => [] end.

Fixpoint CoeffTree (v : aval) : Prop :=
  match v with
  | AList xs | ATuple xs =>
      xs <> [] /\
      (fix all (l : list aval) : Prop :=
         match l with [] => True | x :: r => CoeffTree x /\ all r end) xs
  | ADict kvs =>
      kvs <> [] /\
      (fix all (l : list (nat * aval)) : Prop :=
         match l with [] => True | (_, x) :: r => CoeffTree x /\ all r end) kvs
  | _ => Numeric v
  end.

Fixpoint SameShape (a b : aval) {struct a} : Prop :=
  match a, b with
  | AList xs, AList ys | ATuple xs, ATuple ys =>
      xs <> [] /\
      (fix go (xs ys : list aval) : Prop :=
         match xs, ys with
         | [], [] => True
         | x :: xs', y :: ys' => SameShape x y /\ go xs' ys'
         | _, _ => False
         end) xs ys
  | ADict xs, ADict ys =>
      xs <> [] /\
      (fix go (xs ys : list (nat * aval)) : Prop :=
         match xs, ys with
         | [], [] => True
         | (k, x) :: xs', (k', y) :: ys' => k = k' /\ SameShape x y /\ go xs' ys'
         | _, _ => False
         end) xs ys
  | AList _, _ | ATuple _, _ | ADict _, _ => False
  | _, _ => Numeric a /\ Numeric b /\ shape_of a = shape_of b
  end.

(* ---- Taylor-coefficient containers *)
Definition coefficients (x : aval) : option (list aval) :=
  match x with AList xs | ATuple xs => Some xs | _ => None end.

Definition WfTcoeffs (x : aval) : Prop :=
  match coefficients x with
  | Some (c :: cs) => CoeffTree c /\ Forall (SameShape c) cs
  | _ => False
  end.

(* ---- exactness flags *)
Definition BoolFlag (v : aval) : Prop :=
  match v with AArr _ DBool | APyBool => True | _ => False end.

(* per-leaf flags against the tree of the mean (array leaves) *)
Fixpoint FlagsFor (a b : aval) {struct a} : Prop :=
  match a, b with
  | AList xs, AList ys | ATuple xs, ATuple ys =>
      (fix go (xs ys : list aval) : Prop :=
         match xs, ys with
         | [], [] => True
         | x :: xs', y :: ys' => FlagsFor x y /\ go xs' ys'
         | _, _ => False
         end) xs ys
  | ADict xs, ADict ys =>
      (fix go (xs ys : list (nat * aval)) : Prop :=
         match xs, ys with
         | [], [] => True
         | (k, x) :: xs', (k', y) :: ys' => k = k' /\ FlagsFor x y /\ go xs' ys'
         | _, _ => False
         end) xs ys
  | AList _, _ | ATuple _, _ | ADict _, _ | ANone, _ => False
  | _, AArr s _ => BoolFlag a /\ (shape_of a = [] \/ shape_of a = s)
  | _, _ => False
  end.

Definition ScalarFlag (v : aval) : Prop := BoolFlag v /\ shape_of v = [].

(* one scalar flag per coefficient, in the same kind of container as the mean *)
Definition IsoFlags (ie mean : aval) : Prop :=
  match ie, mean with
  | AList fs, AList cs | ATuple fs, ATuple cs =>
      length fs = length cs /\ Forall ScalarFlag fs
  | _, _ => False
  end.

Definition WfFlags (f : fact) (mean ie : aval) : Prop :=
  ie = APyBool \/
  match f with
  | Isotropic => IsoFlags ie mean
  | _ => FlagsFor ie mean
  end.

(* ---- base output scale *)
Definition WfBaseScale (f : fact) (mean sc : aval) : Prop :=
  sc = ANone \/
  match f with
  | Isotropic => Numeric sc /\ shape_of sc = []
  | _ => match coefficients mean with
         | Some (c :: _) => SameShape sc c
         | _ => False
         end
  end.

(* ---- explicit standard deviations (prior_*_diffuse) *)
Definition ScalarNumeric (v : aval) : Prop := Numeric v /\ shape_of v = [].

Definition WfStd (f : fact) (mean std : aval) : Prop :=
  match coefficients mean, coefficients std with
  | Some cs, Some ss =>
      match f with
      | Isotropic => length ss = length cs /\ Forall ScalarNumeric ss
      | _ => Forall2 SameShape ss cs
      end
  | _, _ => False
  end.

Definition WfPriorIwp (f : fact) (tc ie sc : aval) : Prop :=
  WfTcoeffs tc /\ WfFlags f tc ie /\ WfBaseScale f tc sc.

Definition WfPriorDiffuse (f : fact) (mean std sc : aval) : Prop :=
  WfTcoeffs mean /\ WfStd f mean std /\ WfBaseScale f mean sc.

(* some coefficient entry is floating point (the drift is differentiated) *)
Fixpoint RealValued (v : aval) : Prop :=
  match v with
  | AArr _ DFloat | APyFloat => True
  | AList xs | ATuple xs =>
      (fix any (l : list aval) : Prop :=
         match l with [] => False | x :: r => RealValued x \/ any r end) xs
  | ADict kvs =>
      (fix any (l : list (nat * aval)) : Prop :=
         match l with [] => False | (_, x) :: r => RealValued x \/ any r end) kvs
  | _ => False
  end.

(* exponential priors exist for the dense factorisation; the ODE must be an
   autonomous ODE description whose order equals the number of coefficients,
   and the coefficients must be real-valued *)
Definition WfPriorExp (f : fact) (ode tc ie sc : aval) : Prop :=
  f = Dense /\
  (exists k, ode = AJetOdeAuto k /\ coefficients tc <> None /\
             Some k = option_map (@length aval) (coefficients tc)) /\
  RealValued tc /\
  WfPriorIwp Dense tc ie sc.

(* the Matern prior additionally needs plain array coefficients *)
Definition WfPriorMatern (f : fact) (tc ie sc : aval) : Prop :=
  f = Dense /\ RealValued tc /\ WfPriorIwp Dense tc ie sc /\
  match coefficients tc with Some cs => Forall Numeric cs | None => False end.

(* ---- calibrated output scale of transition(): array-like of the expected shape *)
Fixpoint ArrayLike (v : aval) (s : list nat) {struct v} : Prop :=
  match v with
  | AList xs | ATuple xs =>
      match s with
      | n :: s' => n = length xs /\ (xs = [] -> s' = []) /\     (* np.asarray([]).shape = (0,) *)
                   (fix all (l : list aval) : Prop :=
                      match l with [] => True | x :: r => ArrayLike x s' /\ all r end) xs
      | [] => False
      end
  | _ => Numeric v /\ shape_of v = s
  end.

Definition WfCal (expected : list nat) (cal : aval) : Prop := ArrayLike cal expected.

(* ---- object kinds *)
Definition IsJetOde (o : aval) : Prop := exists k, o = AJetOde k.
Definition IsJetResidual (o : aval) : Prop := exists k, o = AJetResidual k.
Definition IsMarkovSeq (o : aval) : Prop := o = AMarkovSeq.

(* ---- lifts *)
Definition lift_in_range (k n : nat) (lift_by : Z) : Prop :=
  (0 <= lift_by /\ lift_by <= Z.of_nat n - Z.of_nat k)%Z.

(* ---- observation noise of the losses *)
Definition WfLossStd (std expected : aval) : Prop := SameShape std expected.

(* ---- residual-based error estimate: as many constraint entries as state entries *)
Definition WfErrorResidual (m d : nat) : Prop := m = d.

(* ---- ensembles *)
Definition WfEnsembles (ens n : nat) : Prop := n <= ens.

(* ---- documented unsuitable pairings (docstrings of the strategies and the solve routines) *)
Inductive Unsuitable : strategy -> routine -> Prop :=
| U_fixedinterval_save_at : forall w, Unsuitable SFixedInterval (RSaveAt w)
| U_fixedpoint_fixed_grid : Unsuitable SFixedPoint RFixedGrid
| U_fixedpoint_every_step : Unsuitable SFixedPoint RSaveEveryStep.

(* values without None and without empty containers (the corner in which Python's
   `==` identifies the shape () of a scalar with an empty tuple node) *)
Fixpoint Regular (v : aval) : Prop :=
  match v with
  | AList xs | ATuple xs =>
      xs <> [] /\
      (fix all (l : list aval) : Prop :=
         match l with [] => True | x :: r => Regular x /\ all r end) xs
  | ADict kvs =>
      kvs <> [] /\
      (fix all (l : list (nat * aval)) : Prop :=
         match l with [] => True | (_, x) :: r => Regular x /\ all r end) kvs
  | ANone => False
  | _ => True
  end.
