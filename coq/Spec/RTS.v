(* Textbook Kalman prediction/update and Rauch-Tung-Striebel smoothing on PLAIN
   (un-preconditioned) conditionals, per block.  Written independently of the
   strategy code: used as executable specification (C02, C03, C05). *)
From Coq Require Import List Arith Bool.
From PD Require Import Base.Field Base.Matrix Base.Solve Model.Gauss.
Import ListNotations.

Section RTS.
  Context {F : Type} `{FieldOps F}.
  Local Open Scope F_scope.
  Local Notation mat := (@mat F).
  Local Notation normal := (@normal F).

  Variable inv : nat -> mat -> option mat.

  (* prediction through x' = A x + b + N(0,Q) *)
  Definition kf_predict (n c : nat) (A b Q : mat) (rv : normal) : normal :=
    mkN (madd n c (mmul n n c A (n_mean rv)) b)
        (madd n n (mmul n n n (mmul n n n A (n_cov rv)) (mtr n n A)) Q).

  (* update with observation 0 = H x + r + N(0,R), H k x n *)
  Definition kf_update (n k c : nat) (Hm r R : mat) (rv : normal) : option normal :=
    let S := madd k k (mmul k n k (mmul k n n Hm (n_cov rv)) (mtr k n Hm)) R in
    match inv k S with
    | None => None
    | Some Si =>
      let K := mmul n k k (mmul n n k (n_cov rv) (mtr k n Hm)) Si in
      let z := madd k c (mmul k n c Hm (n_mean rv)) r in
      Some (mkN (msub n c (n_mean rv) (mmul n k c K z))
                (msub n n (n_cov rv) (mmul n k n (mmul n k k K S) (mtr n k K))))
    end.

  (* one RTS step: filtering marginal at t_k, transition (A,b,Q) to t_{k+1},
     smoothed marginal at t_{k+1}  ->  smoothed marginal at t_k *)
  Definition rts_step (n c : nat) (A b Q : mat) (filt sm_next : normal) : option normal :=
    let pred := kf_predict n c A b Q filt in
    match inv n (n_cov pred) with
    | None => None
    | Some Pi =>
      let G := mmul n n n (mmul n n n (n_cov filt) (mtr n n A)) Pi in
      Some (mkN (madd n c (n_mean filt)
                   (mmul n n c G (msub n c (n_mean sm_next) (n_mean pred))))
                (madd n n (n_cov filt)
                   (mmul n n n (mmul n n n G (msub n n (n_cov sm_next) (n_cov pred)))
                         (mtr n n G))))
    end.

  (* backward pass: filts = [f_0; ...; f_N], trs = [K_1; ...; K_N] plain
     conditionals (K_k : t_{k-1} -> t_k); result [s_0; ...; s_N], s_N = f_N *)
  Fixpoint rts_pass (n c : nat) (filts : list normal) (trs : list (@cond F))
    : option (list normal) :=
    match filts, trs with
    | [fN], [] => Some [fN]
    | f :: fs, K :: Ks =>
      match rts_pass n c fs Ks with
      | Some (s :: rest) =>
        match rts_step n c (c_A K) (c_b K) (c_Q K) f s with
        | Some s0 => Some (s0 :: s :: rest)
        | None => None
        end
      | _ => None
      end
    | _, _ => None
    end.
End RTS.
