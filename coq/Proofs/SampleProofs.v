(* The sampling recursion of MarkovSequence.sample (Model/Sample.v) is an affine
   map of the base draws: zero draws give the marginal means, the linear part
   does not see the offsets and is given by an explicit block matrix whose Gram
   matrix is the joint covariance of the Markov factorisation. *)
From Coq Require Import List Arith Lia Bool Field Ring.
From PD Require Import Base.Field Base.Matrix Base.Solve Model.Gauss Model.Poly Model.Prior
  Model.Solver Spec.RTS Proofs.GaussProofs Proofs.FilterProofs Model.Sample.
Import ListNotations.

Section SampleProofs.
  Context {F : Type} `{FL : FieldLaws F}.
  Local Open Scope F_scope.
  Add Field FFs : fth.
  Local Notation mat := (@mat F).
  Local Notation vec := (@vec F).
  Local Notation cond := (@cond F).
  Local Notation normal := (@normal F).

  (* ------------------------------------------------------------ list glue *)
  Lemma zip3_app {A B C : Type} (a1 a2 : list A) (b1 b2 : list B) (d1 d2 : list C) :
    length a1 = length b1 -> length a1 = length d1 ->
    zip3 (a1 ++ a2) (b1 ++ b2) (d1 ++ d2) = zip3 a1 b1 d1 ++ zip3 a2 b2 d2.
  Proof.
    revert b1 d1. induction a1 as [|x a1 IH]; intros b1 d1 Hb Hd.
    - destruct b1; [|discriminate]. destruct d1; [|discriminate]. reflexivity.
    - destruct b1 as [|y b1]; [discriminate|]. destruct d1 as [|w d1]; [discriminate|].
      simpl. f_equal. apply IH; simpl in *; lia.
  Qed.

  Lemma zip3_rev {A B C : Type} (a : list A) (b : list B) (d : list C) :
    length a = length b -> length a = length d ->
    zip3 (rev a) (rev b) (rev d) = rev (zip3 a b d).
  Proof.
    revert b d. induction a as [|x a IH]; intros b d Hb Hd.
    - destruct b; [|discriminate]. destruct d; [|discriminate]. reflexivity.
    - destruct b as [|y b]; [discriminate|]. destruct d as [|w d]; [discriminate|].
      simpl. rewrite zip3_app by (rewrite !rev_length; simpl in *; lia).
      rewrite IH by (simpl in *; lia). reflexivity.
  Qed.

  Lemma last_nonempty_indep {A : Type} (l : list A) (x d d' : A) :
    last (x :: l) d = last (x :: l) d'.
  Proof.
    revert x. induction l as [|y l IH]; intro x; [reflexivity|].
    change (last (y :: l) d = last (y :: l) d'). apply IH.
  Qed.

  Lemma scan_samples_app n c (x : mat) l1 l2 :
    scan_samples n c x (l1 ++ l2)
    = scan_samples n c x l1 ++ scan_samples n c (last (scan_samples n c x l1) x) l2.
  Proof.
    revert x. induction l1 as [|[[K L] z] l1 IH]; intro x; [reflexivity|].
    cbn [app scan_samples]. rewrite IH. cbn [app]. f_equal. f_equal. f_equal.
    destruct (scan_samples n c (sample_step n c K L z x) l1) eqn:E; [reflexivity|].
    change (last (m :: l) (sample_step n c K L z x) = last (sample_step n c K L z x :: m :: l) x).
    change (last (m :: l) (sample_step n c K L z x) = last (m :: l) x).
    apply last_nonempty_indep.
  Qed.

  Lemma hd_rev_app {A : Type} (l : list A) (d : A) : hd d (rev l ++ [d]) = last l d.
  Proof.
    induction l as [|x l IH]; [reflexivity|].
    simpl rev. destruct l as [|y l].
    - reflexivity.
    - rewrite <- app_assoc. cbn [last].
      transitivity (hd d (rev (y :: l) ++ [d])); [|exact IH].
      simpl rev. rewrite <- !app_assoc.
      destruct (rev l); reflexivity.
  Qed.

  (* the reverse scan in TIME order: steps = (K_k, L_k, z_k), k = 0..N-1 *)
  Fixpoint rev_chain (n c : nat) (steps : list (cond * mat * mat)) (xN : mat) : list mat :=
    match steps with
    | [] => [xN]
    | (K, L, z) :: r =>
      let rest := rev_chain n c r xN in
      sample_step n c K L z (hd xN rest) :: rest
    end.

  Lemma scan_rev_is_rev_chain n c (steps : list (cond * mat * mat)) (x0 : mat) :
    rev (scan_samples n c x0 (rev steps)) ++ [x0] = rev_chain n c steps x0.
  Proof.
    induction steps as [|[[K L] z] r IH]; [reflexivity|].
    simpl rev. rewrite scan_samples_app. cbn [scan_samples].
    rewrite rev_app_distr. cbn [rev app].
    cbn [rev_chain]. rewrite <- IH. rewrite hd_rev_app. reflexivity.
  Qed.

  Lemma markov_sample_reverse n c (m0 L0 : mat) conds Ls z0 zs :
    length Ls = length conds -> length zs = length conds ->
    markov_sample true n c m0 L0 conds Ls (z0 :: zs)
    = Some (rev_chain n c (zip3 conds Ls (rev zs)) (n_sample n c m0 L0 z0)).
  Proof.
    intros HL Hz. unfold markov_sample.
    rewrite HL, Hz, Nat.eqb_refl. cbn [andb].
    f_equal. rewrite <- scan_rev_is_rev_chain. f_equal. f_equal. f_equal.
    rewrite <- (rev_involutive zs) at 1.
    apply zip3_rev; rewrite ?rev_length; lia.
  Qed.

  Lemma markov_sample_forward n c (m0 L0 : mat) conds Ls z0 zs :
    length Ls = length conds -> length zs = length conds ->
    markov_sample false n c m0 L0 conds Ls (z0 :: zs)
    = Some (n_sample n c m0 L0 z0
            :: scan_samples n c (n_sample n c m0 L0 z0) (zip3 conds Ls zs)).
  Proof.
    intros HL Hz. unfold markov_sample. rewrite HL, Hz, Nat.eqb_refl. reflexivity.
  Qed.
  (* ------------------------------------------------------------ zip3 facts *)
  Lemma zip3_map_cond {A B C : Type} (a : list A) (b : list B) (d : list C) :
    length b = length a -> length d = length a ->
    map (fun s => fst (fst s)) (zip3 a b d) = a.
  Proof.
    revert b d. induction a as [|x a IH]; intros b d Hb Hd; [reflexivity|].
    destruct b as [|y b]; [discriminate|]. destruct d as [|w d]; [discriminate|].
    simpl. f_equal. apply IH; simpl in *; lia.
  Qed.
  Lemma zip3_map_pair {A B C : Type} (a : list A) (b : list B) (d : list C) :
    length b = length a -> length d = length a ->
    map fst (zip3 a b d) = combine a b.
  Proof.
    revert b d. induction a as [|x a IH]; intros b d Hb Hd; [reflexivity|].
    destruct b as [|y b]; [discriminate|]. destruct d as [|w d]; [discriminate|].
    simpl. f_equal. apply IH; simpl in *; lia.
  Qed.
  Lemma zip3_map_draw {A B C : Type} (a : list A) (b : list B) (d : list C) :
    length b = length a -> length d = length a ->
    map snd (zip3 a b d) = d.
  Proof.
    revert b d. induction a as [|x a IH]; intros b d Hb Hd.
    - destruct d; [reflexivity|discriminate].
    - destruct b as [|y b]; [discriminate|]. destruct d as [|w d]; [discriminate|].
      simpl. f_equal. apply IH; simpl in *; lia.
  Qed.
  Lemma zip3_Forall_draw {A B C : Type} (P : C -> Prop) (a : list A) (b : list B) (d : list C) :
    Forall P d -> Forall (fun s => P (snd s)) (zip3 a b d).
  Proof.
    intro Hd. revert a b. induction Hd as [|w d Hw Hd IH]; intros a b.
    - destruct a; [constructor|]. destruct b; constructor.
    - destruct a as [|x a]; [constructor|]. destruct b as [|y b]; [constructor|].
      simpl. constructor; [exact Hw|apply IH].
  Qed.
  Lemma hd_map_nonempty {A B : Type} (f : A -> B) (l : list A) (d : A) (d' : B) :
    l <> [] -> hd d' (map f l) = f (hd d l).
  Proof. destruct l; [congruence|reflexivity]. Qed.
  Lemma back_marginals_nonempty n c conds (term : normal) : back_marginals n c conds term <> [].
  Proof. destruct conds; discriminate. Qed.

  (* ================================================================
     T13.1  zero draws give the marginal means *)
  Definition zero_draw (n c : nat) (z : mat) : Prop :=
    forall i a, i < n -> a < c -> mget z i a = 0.

  Lemma mmul_zero_draw n c (L z : mat) i a :
    zero_draw n c z -> i < n -> a < c -> mget (mmul n n c L z) i a = 0.
  Proof.
    intros Hz Hi Ha. rewrite mget_mmul by assumption.
    rewrite (vsum_ext n _ (fun _ => 0)); [apply vsum_zero|].
    intros l Hl. rewrite Hz by assumption. ring.
  Qed.

  Lemma n_sample_zero n c (mean L z : mat) :
    zero_draw n c z -> n_sample n c mean L z = canon n c mean.
  Proof.
    intro Hz. unfold n_sample, madd, canon. apply mk_ext. intros i a Hi Ha.
    rewrite mmul_zero_draw by assumption. ring.
  Qed.

  Lemma canon_canon n m (A : mat) : canon n m (canon n m A) = canon n m A.
  Proof. unfold canon at 2. apply canon_mk. Qed.

  Lemma c_apply_mean_canon n c (K : cond) (x : mat) :
    n_mean (c_apply n n c K (canon n c x)) = n_mean (c_apply n n c K x).
  Proof.
    unfold c_apply; cbn [n_mean]. f_equal. f_equal. f_equal.
    unfold scale_rows. apply mk_ext. intros i a Hi Ha.
    rewrite mget_canon by assumption. reflexivity.
  Qed.

  Lemma c_apply_mean_is_canon n c (K : cond) (x : mat) :
    canon n c (n_mean (c_apply n n c K x)) = n_mean (c_apply n n c K x).
  Proof. unfold c_apply; cbn [n_mean]. unfold scale_rows at 1. apply canon_mk. Qed.

  Lemma c_marg_mean_is_apply n c (K : cond) (rv : normal) :
    n_mean (c_marg n n c K rv) = n_mean (c_apply n n c K (n_mean rv)).
  Proof. reflexivity. Qed.

  Lemma sample_step_zero n c (K : cond) (L z x : mat) :
    zero_draw n c z -> sample_step n c K L z x = n_mean (c_apply n n c K x).
  Proof.
    intro Hz. unfold sample_step. rewrite n_sample_zero by exact Hz.
    apply c_apply_mean_is_canon.
  Qed.

  Lemma rev_chain_zero_draws n c (steps : list (cond * mat * mat)) (term : normal) :
    Forall (fun s => zero_draw n c (snd s)) steps ->
    rev_chain n c steps (canon n c (n_mean term))
    = map (fun rv => canon n c (n_mean rv))
          (back_marginals n c (map (fun s => fst (fst s)) steps) term).
  Proof.
    induction 1 as [|[[K L] z] r Hz Hr IH]; [reflexivity|].
    cbn [rev_chain map fst snd back_marginals]. cbn [snd] in Hz.
    rewrite IH.
    rewrite (hd_map_nonempty _ _ term) by apply back_marginals_nonempty.
    f_equal.
    rewrite sample_step_zero by exact Hz.
    rewrite c_apply_mean_canon. rewrite c_marg_mean_is_apply.
    symmetry. apply c_apply_mean_is_canon.
  Qed.

  Theorem zero_draws_give_backward_means n c (term : normal) (L0 : mat) conds Ls z0 zs :
    length Ls = length conds -> length zs = length conds ->
    zero_draw n c z0 -> Forall (zero_draw n c) zs ->
    markov_sample true n c (n_mean term) L0 conds Ls (z0 :: zs)
    = Some (map (fun rv => canon n c (n_mean rv)) (back_marginals n c conds term)).
  Proof.
    intros HL Hz Hz0 Hzs. rewrite markov_sample_reverse by assumption. f_equal.
    rewrite n_sample_zero by exact Hz0.
    rewrite rev_chain_zero_draws.
    - rewrite zip3_map_cond by (rewrite ?rev_length; assumption). reflexivity.
    - apply zip3_Forall_draw. apply Forall_rev. exact Hzs.
  Qed.

  (* forward chain *)
  Lemma scan_zero_draws n c (steps : list (cond * mat * mat)) (rv : normal) (x : mat) :
    Forall (fun s => zero_draw n c (snd s)) steps ->
    canon n c x = canon n c (n_mean rv) ->
    scan_samples n c x steps
    = map (fun rv => canon n c (n_mean rv))
          (fwd_marginals_from n c (map (fun s => fst (fst s)) steps) rv).
  Proof.
    intro Hs. revert rv x. induction Hs as [|[[K L] z] r Hz Hr IH]; intros rv x Hx; [reflexivity|].
    cbn [scan_samples map fst snd fwd_marginals_from]. cbn [snd] in Hz.
    assert (Hstep : sample_step n c K L z x = canon n c (n_mean (c_marg n n c K rv))).
    { rewrite sample_step_zero by exact Hz.
      rewrite <- c_apply_mean_canon. rewrite Hx. rewrite c_apply_mean_canon.
      rewrite c_marg_mean_is_apply. symmetry. apply c_apply_mean_is_canon. }
    rewrite Hstep. f_equal.
    apply IH. apply canon_canon.
  Qed.

  Theorem zero_draws_give_forward_means n c (init : normal) (L0 : mat) conds Ls z0 zs :
    length Ls = length conds -> length zs = length conds ->
    zero_draw n c z0 -> Forall (zero_draw n c) zs ->
    markov_sample false n c (n_mean init) L0 conds Ls (z0 :: zs)
    = Some (map (fun rv => canon n c (n_mean rv)) (seq_marginals false n c conds init)).
  Proof.
    intros HL Hz Hz0 Hzs. rewrite markov_sample_forward by assumption. f_equal.
    rewrite n_sample_zero by exact Hz0. unfold seq_marginals. cbn [map]. f_equal.
    rewrite (scan_zero_draws n c _ init).
    - rewrite zip3_map_cond by assumption. reflexivity.
    - apply zip3_Forall_draw. exact Hzs.
    - apply canon_canon.
  Qed.
  (* ================================================================
     T13.2a  the sample is affine in the draws: sample(z) = sample(0) + lin(z),
     where lin is the SAME recursion run on the conditionals with their offsets
     removed (c_nooff) and a zero initial mean *)
  Lemma mget_sample_step n c (K : cond) (L z x : mat) i a : i < n -> a < c ->
    mget (sample_step n c K L z x) i a
    = vget (c_to K) i * (vsum n (fun l => mget (c_A K) i l * (vget (c_tl K) l * mget x l a))
                         + mget (c_b K) i a)
      + vsum n (fun l => mget L i l * mget z l a).
  Proof.
    intros Hi Ha. unfold sample_step, n_sample, c_apply; cbn [n_mean].
    rewrite mget_madd by assumption.
    rewrite (mget_mmul n n c L z) by assumption. rewrite mget_scale_rows by assumption.
    rewrite mget_madd by assumption. rewrite mget_mmul by assumption.
    f_equal. f_equal. f_equal. apply vsum_ext. intros l Hl.
    rewrite mget_scale_rows by assumption. reflexivity.
  Qed.

  Lemma sample_step_is_canon n c (K : cond) (L z x : mat) :
    sample_step n c K L z x = mk n c (mget (sample_step n c K L z x)).
  Proof.
    change (sample_step n c K L z x = canon n c (sample_step n c K L z x)).
    unfold sample_step, n_sample, madd. symmetry. apply canon_mk.
  Qed.

  Lemma mget_mzero n m i j : i < n -> j < m -> mget (mzero n m) i j = (0 : F).
  Proof. intros. unfold mzero. rewrite mget_mk by assumption. reflexivity. Qed.

  Lemma sample_step_affine n c (K : cond) (L z x0 xl : mat) :
    sample_step n c K L z (madd n c x0 xl)
    = madd n c (sample_step n c K L (mzero n c) x0)
               (sample_step n c (c_nooff n c K) L z xl).
  Proof.
    rewrite (sample_step_is_canon n c K L z). unfold madd at 2. apply mk_ext.
    intros i a Hi Ha. rewrite !mget_sample_step by assumption.
    cbn [c_nooff c_A c_b c_tl c_to].
    rewrite (vsum_ext n (fun l => mget (c_A K) i l * (vget (c_tl K) l * mget (madd n c x0 xl) l a))
               (fun l => mget (c_A K) i l * (vget (c_tl K) l * mget x0 l a)
                         + mget (c_A K) i l * (vget (c_tl K) l * mget xl l a))).
    2:{ intros l Hl. rewrite mget_madd by assumption. ring. }
    rewrite vsum_add.
    rewrite (vsum_ext n (fun l => mget L i l * mget (mzero n c) l a) (fun _ => 0)).
    2:{ intros l Hl. rewrite mget_mzero by assumption. ring. }
    rewrite vsum_zero. rewrite mget_mzero by assumption. ring.
  Qed.

  Lemma n_sample_affine n c (m0 L0 z0 : mat) :
    n_sample n c m0 L0 z0
    = madd n c (n_sample n c m0 L0 (mzero n c)) (n_sample n c (mzero n c) L0 z0).
  Proof.
    unfold n_sample. unfold madd at 1 2. apply mk_ext. intros i a Hi Ha.
    rewrite !mget_madd by assumption.
    rewrite mget_mzero by assumption.
    rewrite (mmul_zero_draw n c L0 (mzero n c) i a) by (try assumption; intros l b Hl Hb; apply mget_mzero; assumption).
    ring.
  Qed.

  Definition st_zero (n c : nat) (s : cond * mat * mat) : cond * mat * mat :=
    (fst (fst s), snd (fst s), mzero n c).
  Definition st_nooff (n c : nat) (s : cond * mat * mat) : cond * mat * mat :=
    (c_nooff n c (fst (fst s)), snd (fst s), snd s).

  Lemma rev_chain_nonempty n c steps (x : mat) : rev_chain n c steps x <> [].
  Proof. destruct steps as [|[[K L] z] r]; discriminate. Qed.

  Lemma hd_zipw {A B C : Type} (f : A -> B -> C) l1 l2 d1 d2 d :
    l1 <> [] -> l2 <> [] -> hd d (zipw f l1 l2) = f (hd d1 l1) (hd d2 l2).
  Proof. destruct l1; [congruence|]. destruct l2; [congruence|]. reflexivity. Qed.

  Lemma rev_chain_affine n c (steps : list (cond * mat * mat)) (a b : mat) :
    rev_chain n c steps (madd n c a b)
    = zipw (madd n c) (rev_chain n c (map (st_zero n c) steps) a)
                      (rev_chain n c (map (st_nooff n c) steps) b).
  Proof.
    induction steps as [|[[K L] z] r IH]; [reflexivity|].
    cbn [rev_chain map st_zero st_nooff fst snd zipw]. rewrite IH.
    rewrite (hd_zipw _ _ _ a b) by apply rev_chain_nonempty.
    rewrite sample_step_affine. reflexivity.
  Qed.

  Lemma scan_samples_affine n c (steps : list (cond * mat * mat)) (a b : mat) :
    scan_samples n c (madd n c a b) steps
    = zipw (madd n c) (scan_samples n c a (map (st_zero n c) steps))
                      (scan_samples n c b (map (st_nooff n c) steps)).
  Proof.
    revert a b. induction steps as [|[[K L] z] r IH]; intros a b; [reflexivity|].
    cbn [scan_samples map st_zero st_nooff fst snd zipw].
    rewrite sample_step_affine. rewrite IH. reflexivity.
  Qed.

  Lemma zip3_map_zero n c (a : list cond) (b : list mat) (d : list mat) :
    zip3 a b (map (fun _ => mzero n c) d) = map (st_zero n c) (zip3 a b d).
  Proof.
    revert b d. induction a as [|x a IH]; intros b d; [reflexivity|].
    destruct b as [|y b]; [reflexivity|]. destruct d as [|w d]; [reflexivity|].
    cbn [map zip3]. rewrite IH. reflexivity.
  Qed.
  Lemma zip3_map_nooff n c (a : list cond) (b : list mat) (d : list mat) :
    zip3 (map (c_nooff n c) a) b d = map (st_nooff n c) (zip3 a b d).
  Proof.
    revert b d. induction a as [|x a IH]; intros b d; [reflexivity|].
    destruct b as [|y b]; [reflexivity|]. destruct d as [|w d]; [reflexivity|].
    cbn [map zip3]. rewrite IH. reflexivity.
  Qed.

  Theorem sample_is_affine n c (reverse : bool) (m0 L0 : mat) conds Ls z0 zs :
    length Ls = length conds -> length zs = length conds ->
    exists s0 sl,
      markov_sample reverse n c m0 L0 conds Ls (zeros_like n c (z0 :: zs)) = Some s0 /\
      markov_sample reverse n c (mzero n c) L0 (map (c_nooff n c) conds) Ls (z0 :: zs) = Some sl /\
      markov_sample reverse n c m0 L0 conds Ls (z0 :: zs) = Some (zipw (madd n c) s0 sl).
  Proof.
    intros HL Hz. destruct reverse.
    - eexists. eexists. cbn [zeros_like map].
      rewrite !markov_sample_reverse by (rewrite ?map_length; assumption).
      split; [reflexivity|]. split; [reflexivity|]. f_equal.
      rewrite (n_sample_affine n c m0 L0 z0). rewrite rev_chain_affine.
      rewrite <- map_rev. rewrite zip3_map_zero. rewrite zip3_map_nooff. reflexivity.
    - eexists. eexists. cbn [zeros_like map].
      rewrite !markov_sample_forward by (rewrite ?map_length; assumption).
      split; [reflexivity|]. split; [reflexivity|]. f_equal.
      rewrite (n_sample_affine n c m0 L0 z0). cbn [zipw]. f_equal.
      rewrite scan_samples_affine.
      rewrite zip3_map_zero. rewrite zip3_map_nooff. reflexivity.
  Qed.
  (* ================================================================
     T13.2b  the linear part is the block matrix rev_rows / fwd_rows_from *)
  Lemma mmul_mzero_r n k m (A : mat) : mmul n k m A (mzero k m) = mzero n m.
  Proof.
    unfold mmul, mzero. apply mk_ext. intros i j Hi Hj.
    rewrite (vsum_ext k _ (fun _ => 0)); [apply vsum_zero|].
    intros l Hl. rewrite mget_mk by assumption. ring.
  Qed.
  Lemma mmul_mzero_l n k m (B : mat) : mmul n k m (mzero n k) B = mzero n m.
  Proof.
    unfold mmul, mzero. apply mk_ext. intros i j Hi Hj.
    rewrite (vsum_ext k _ (fun _ => 0)); [apply vsum_zero|].
    intros l Hl. rewrite mget_mk by assumption. ring.
  Qed.
  Lemma madd_mzero_l n m (X : mat) : madd n m (mzero n m) X = canon n m X.
  Proof.
    unfold madd, canon. apply mk_ext. intros i j Hi Hj. rewrite mget_mzero by assumption. ring.
  Qed.
  Lemma madd_mzero_r n m (X : mat) : madd n m X (mzero n m) = canon n m X.
  Proof.
    unfold madd, canon. apply mk_ext. intros i j Hi Hj. rewrite mget_mzero by assumption. ring.
  Qed.
  Lemma madd_comm n m (X Y : mat) : madd n m X Y = madd n m Y X.
  Proof. unfold madd. apply mk_ext. intros. ring. Qed.

  Lemma wsum_map_gain n c (G : mat) ws zs :
    wsum n c (map (mmul n n n G) ws) zs = mmul n n c G (wsum n c ws zs).
  Proof.
    revert zs. induction ws as [|W ws IH]; intro zs.
    - cbn [map wsum]. symmetry. apply mmul_mzero_r.
    - destruct zs as [|z zs]; cbn [map wsum].
      + symmetry. apply mmul_mzero_r.
      + rewrite IH. rewrite mmul_add_r. rewrite (mmul_assoc n n n c G W z). reflexivity.
  Qed.

  Lemma wsum_canon n c ws zs : canon n c (wsum n c ws zs) = wsum n c ws zs.
  Proof.
    destruct ws as [|W ws]; [apply canon_mk|]. destruct zs as [|z zs]; [apply canon_mk|].
    cbn [wsum]. unfold madd. apply canon_mk.
  Qed.

  Lemma wsum_zero_head n c row z zs :
    wsum n c (mzero n n :: row) (z :: zs) = wsum n c row zs.
  Proof.
    cbn [wsum]. rewrite mmul_mzero_l. rewrite madd_mzero_l. apply wsum_canon.
  Qed.

  Lemma sample_step_linear_part n c (K : cond) (L z v : mat) :
    sample_step n c (c_nooff n c K) L z v
    = madd n c (mmul n n c L z) (mmul n n c (gain n K) v).
  Proof.
    rewrite sample_step_is_canon. unfold madd. apply mk_ext. intros i a Hi Ha.
    rewrite mget_sample_step by assumption. cbn [c_nooff c_A c_b c_tl c_to].
    rewrite mget_mzero by assumption.
    rewrite !mget_mmul by assumption.
    rewrite (vsum_ext n (fun l => mget (gain n K) i l * mget v l a)
               (fun l => vget (c_to K) i * (mget (c_A K) i l * (vget (c_tl K) l * mget v l a)))).
    2:{ intros l Hl. unfold gain. rewrite mget_mk by assumption. ring. }
    rewrite vsum_scale_l. ring.
  Qed.

  Lemma rev_rows_nonempty n steps (LN : mat) : rev_rows n steps LN <> [].
  Proof. destruct steps as [|[K L] r]; discriminate. Qed.

  Lemma n_sample_lin_is_wsum n c (L0 z0 : mat) :
    n_sample n c (mzero n c) L0 z0 = wsum n c [L0] [z0].
  Proof. unfold n_sample. cbn [wsum]. apply madd_comm. Qed.

  Lemma rev_chain_linear_part n c (steps : list (cond * mat * mat)) (L0 z0 : mat) :
    rev_chain n c (map (st_nooff n c) steps) (n_sample n c (mzero n c) L0 z0)
    = map (fun row => wsum n c row (map snd steps ++ [z0]))
          (rev_rows n (map fst steps) L0).
  Proof.
    induction steps as [|[[K L] z] r IH].
    - cbn [map rev_chain rev_rows app]. f_equal. apply n_sample_lin_is_wsum.
    - cbn [map rev_chain st_nooff fst snd rev_rows app]. rewrite IH.
      set (zr := map snd r ++ [z0]).
      set (rows := rev_rows n (map fst r) L0).
      rewrite (hd_map_nonempty _ _ []) by apply rev_rows_nonempty.
      f_equal.
      + rewrite sample_step_linear_part. cbn [wsum]. rewrite wsum_map_gain. reflexivity.
      + rewrite map_map. apply map_ext. intro row. symmetry. apply wsum_zero_head.
  Qed.

  Lemma scan_linear_part n c (steps : list (cond * mat * mat)) (row zr : list mat) :
    scan_samples n c (wsum n c row zr) (map (st_nooff n c) steps)
    = zipw (fun row' zr' => wsum n c row' zr')
           (fwd_rows_from n row (map fst steps)) (fwd_draws zr (map snd steps)).
  Proof.
    revert row zr. induction steps as [|[[K L] z] r IH]; intros row zr; [reflexivity|].
    cbn [map scan_samples st_nooff fst snd fwd_rows_from fwd_draws zipw].
    rewrite sample_step_linear_part.
    assert (Hx : madd n c (mmul n n c L z) (mmul n n c (gain n K) (wsum n c row zr))
                 = wsum n c (L :: map (mmul n n n (gain n K)) row) (z :: zr)).
    { cbn [wsum]. rewrite wsum_map_gain. reflexivity. }
    rewrite Hx. f_equal. apply IH.
  Qed.

  (* ================================================================
     T13.2c  Gram matrix of the linear part = joint covariance *)
  Lemma cross_sum_canon n ws vs : canon n n (cross_sum n ws vs) = cross_sum n ws vs.
  Proof.
    destruct ws as [|W ws]; [apply canon_mk|]. destruct vs as [|V vs]; [apply canon_mk|].
    cbn [cross_sum]. unfold madd. apply canon_mk.
  Qed.

  Lemma cross_sum_map_l n (G : mat) ws vs :
    cross_sum n (map (mmul n n n G) ws) vs = mmul n n n G (cross_sum n ws vs).
  Proof.
    revert vs. induction ws as [|W ws IH]; intro vs.
    - cbn [map cross_sum]. symmetry. apply mmul_mzero_r.
    - destruct vs as [|V vs]; cbn [map cross_sum].
      + symmetry. apply mmul_mzero_r.
      + rewrite IH. rewrite mmul_add_r. rewrite (mmul_assoc n n n n G W (mtr n n V)). reflexivity.
  Qed.

  Lemma cross_sum_map_r n (G : mat) ws vs :
    cross_sum n ws (map (mmul n n n G) vs) = mmul n n n (cross_sum n ws vs) (mtr n n G).
  Proof.
    revert vs. induction ws as [|W ws IH]; intro vs.
    - cbn [cross_sum]. symmetry. apply mmul_mzero_l.
    - destruct vs as [|V vs]; cbn [map cross_sum].
      + symmetry. apply mmul_mzero_l.
      + rewrite IH. rewrite mmul_add_l. rewrite mtr_mmul.
        rewrite <- (mmul_assoc n n n n W (mtr n n V) (mtr n n G)). reflexivity.
  Qed.

  Lemma mtr_mzero n m : mtr n m (mzero n m) = (mzero m n : mat).
  Proof.
    unfold mtr, mzero. apply mk_ext. intros i j Hi Hj. rewrite mget_mk by assumption. reflexivity.
  Qed.

  Lemma cross_sum_zero_l n (V : mat) ws vs :
    cross_sum n (mzero n n :: ws) (V :: vs) = cross_sum n ws vs.
  Proof.
    cbn [cross_sum]. rewrite mmul_mzero_l. rewrite madd_mzero_l. apply cross_sum_canon.
  Qed.
  Lemma cross_sum_zero_r n (W : mat) ws vs :
    cross_sum n (W :: ws) (mzero n n :: vs) = cross_sum n ws vs.
  Proof.
    cbn [cross_sum]. rewrite mtr_mzero. rewrite mmul_mzero_r. rewrite madd_mzero_l.
    apply cross_sum_canon.
  Qed.

  (* covariance of c_marg in plain form: G P G^T + to Q to *)
  Lemma c_marg_cov_plain n c (K : cond) (rv : normal) :
    n_cov (c_marg n n c K rv)
    = madd n n (mmul n n n (mmul n n n (gain n K) (n_cov rv)) (mtr n n (gain n K)))
               (dsand n (c_to K) (c_Q K)).
  Proof. rewrite c_marg_is_kalman_prediction. reflexivity. Qed.

  Lemma rev_rows_length n steps (LN : mat) : length (rev_rows n steps LN) = S (length steps).
  Proof.
    induction steps as [|[K L] r IH]; [reflexivity|].
    cbn [rev_rows length]. rewrite map_length. rewrite IH. reflexivity.
  Qed.

  Lemma nth_map_cons {A : Type} (x : A) (l : list (list A)) k :
    k < length l -> nth k (map (cons x) l) [] = x :: nth k l [].
  Proof.
    intro Hk. rewrite (nth_indep _ [] (x :: [])) by (rewrite map_length; exact Hk).
    apply (map_nth (cons x)).
  Qed.

  Definition factor_ok (n : nat) (s : cond * mat) : Prop :=
    mmul n n n (snd s) (mtr n n (snd s)) = dsand n (c_to (fst s)) (c_Q (fst s)).

  Theorem rev_rows_gram_is_joint_cov n c (steps : list (cond * mat)) (LN : mat) (term : normal) :
    Forall (factor_ok n) steps ->
    mmul n n n LN (mtr n n LN) = canon n n (n_cov term) ->
    forall k j, k <= j -> j <= length steps ->
    let rows := rev_rows n steps LN in
    cross_sum n (nth k rows []) (nth j rows [])
    = gains_apply n (map (gain n) (firstn (j - k) (skipn k (map fst steps))))
        (canon n n (n_cov (nth j (back_marginals n c (map fst steps) term) term))).
  Proof.
    intros Hs HN. induction Hs as [|[K L] r HKL Hr IH]; intros k j Hkj Hj.
    - cbn in Hj. assert (j = 0%nat) by lia. assert (k = 0%nat) by lia. subst.
      cbn. rewrite HN. rewrite madd_mzero_r. apply canon_canon.
    - cbv zeta in *. cbn [rev_rows map fst back_marginals].
      set (rows := rev_rows n r LN) in *.
      set (bm := back_marginals n c (map fst r) term) in *.
      assert (Hlen : length rows = S (length r)) by apply rev_rows_length.
      assert (Hhd : hd [] rows = nth 0 rows []) by (destruct rows; reflexivity).
      assert (Hhdb : hd term bm = nth 0 bm term) by (destruct bm; reflexivity).
      cbn [length] in Hj.
      destruct k as [|k']; destruct j as [|j'].
      + (* diagonal block at the head *)
        cbn [nth Nat.sub firstn map gains_apply fold_right cross_sum].
        rewrite cross_sum_map_l. rewrite cross_sum_map_r.
        rewrite Hhd. rewrite (IH 0%nat 0%nat) by lia.
        cbn [Nat.sub firstn map gains_apply fold_right].
        unfold factor_ok in HKL; cbn [fst snd] in HKL. rewrite HKL.
        rewrite c_marg_cov_plain. rewrite canon_madd. rewrite Hhdb.
        rewrite mmul_canon_l.
        rewrite <- (mmul_assoc n n n n (gain n K) (n_cov (nth 0 bm term)) (mtr n n (gain n K))).
        apply madd_comm.
      + (* first row against a later row *)
        cbn [nth]. rewrite nth_map_cons by lia.
        rewrite cross_sum_zero_r. rewrite cross_sum_map_l.
        rewrite Hhd. rewrite (IH 0%nat j') by lia.
        rewrite Nat.sub_0_r. cbn [skipn firstn map gains_apply fold_right].
        rewrite Nat.sub_0_r. reflexivity.
      + lia.
      + cbn [nth]. rewrite !nth_map_cons by lia.
        rewrite cross_sum_zero_l.
        rewrite (IH k' j') by lia. reflexivity.
  Qed.
  (* one step of the Gram recursion: Cov' = G Cov G^T + to Q to *)
  Lemma gram_step n c (K : cond) (L : mat) ws (rv : normal) :
    factor_ok n (K, L) ->
    cross_sum n ws ws = canon n n (n_cov rv) ->
    cross_sum n (L :: map (mmul n n n (gain n K)) ws) (L :: map (mmul n n n (gain n K)) ws)
    = canon n n (n_cov (c_marg n n c K rv)).
  Proof.
    intros HKL Hws. cbn [cross_sum]. rewrite cross_sum_map_l. rewrite cross_sum_map_r.
    rewrite Hws. unfold factor_ok in HKL; cbn [fst snd] in HKL. rewrite HKL.
    rewrite c_marg_cov_plain. rewrite canon_madd. rewrite mmul_canon_l.
    rewrite <- (mmul_assoc n n n n (gain n K) (n_cov rv) (mtr n n (gain n K))).
    apply madd_comm.
  Qed.

  (* T13.3 forward chain: diagonal blocks *)
  Theorem fwd_rows_gram n c (steps : list (cond * mat)) (row : list mat) (rv : normal) :
    Forall (factor_ok n) steps ->
    cross_sum n row row = canon n n (n_cov rv) ->
    map (fun r => cross_sum n r r) (fwd_rows_from n row steps)
    = map (fun rv => canon n n (n_cov rv)) (fwd_marginals_from n c (map fst steps) rv).
  Proof.
    intro Hs. revert row rv. induction Hs as [|[K L] r HKL Hr IH]; intros row rv Hrow; [reflexivity|].
    cbn [fwd_rows_from map fst fwd_marginals_from].
    rewrite (gram_step n c K L row rv HKL Hrow). f_equal.
    apply IH. apply (gram_step n c K L row rv HKL Hrow).
  Qed.

  (* forward chain, adjacent cross block: Cov(x_{k+1}, x_k) = G_k Cov_k *)
  Theorem fwd_adjacent_cross n (K : cond) (L : mat) (row : list mat) r :
    cross_sum n (tl (hd [] (fwd_rows_from n row ((K, L) :: r)))) row
    = mmul n n n (gain n K) (cross_sum n row row).
  Proof. cbn [fwd_rows_from hd tl]. apply cross_sum_map_l. Qed.

  (* ---------------------------------------------------- sequence-level forms *)
  Lemma combine_map_fst {A B : Type} (a : list A) (b : list B) :
    length b = length a -> map fst (combine a b) = a.
  Proof.
    revert b. induction a as [|x a IH]; intros b Hb; [reflexivity|].
    destruct b as [|y b]; [discriminate|]. cbn. f_equal. apply IH. simpl in Hb. lia.
  Qed.
  Lemma combine_length_eq {A B : Type} (a : list A) (b : list B) :
    length b = length a -> length (combine a b) = length a.
  Proof. intro Hb. rewrite combine_length. lia. Qed.

  Theorem reverse_sample_linear_map n c (L0 : mat) conds Ls z0 zs :
    length Ls = length conds -> length zs = length conds ->
    markov_sample true n c (mzero n c) L0 (map (c_nooff n c) conds) Ls (z0 :: zs)
    = Some (map (fun row => wsum n c row (rev zs ++ [z0]))
                (rev_rows n (combine conds Ls) L0)).
  Proof.
    intros HL Hz. rewrite markov_sample_reverse by (rewrite ?map_length; assumption). f_equal.
    rewrite zip3_map_nooff. rewrite rev_chain_linear_part.
    rewrite zip3_map_draw by (rewrite ?rev_length; assumption).
    rewrite zip3_map_pair by (rewrite ?rev_length; assumption). reflexivity.
  Qed.

  Theorem forward_sample_linear_map n c (L0 : mat) conds Ls z0 zs :
    length Ls = length conds -> length zs = length conds ->
    markov_sample false n c (mzero n c) L0 (map (c_nooff n c) conds) Ls (z0 :: zs)
    = Some (zipw (fun row zr => wsum n c row zr)
                 ([L0] :: fwd_rows_from n [L0] (combine conds Ls))
                 ([z0] :: fwd_draws [z0] zs)).
  Proof.
    intros HL Hz. rewrite markov_sample_forward by (rewrite ?map_length; assumption). f_equal.
    cbn [zipw]. rewrite n_sample_lin_is_wsum. f_equal.
    rewrite zip3_map_nooff. rewrite scan_linear_part.
    rewrite zip3_map_draw by assumption. rewrite zip3_map_pair by assumption. reflexivity.
  Qed.

  Theorem reverse_gram_is_joint_cov n c conds Ls (LN : mat) (term : normal) :
    length Ls = length conds ->
    Forall (factor_ok n) (combine conds Ls) ->
    mmul n n n LN (mtr n n LN) = canon n n (n_cov term) ->
    forall k j, k <= j -> j <= length conds ->
    let rows := rev_rows n (combine conds Ls) LN in
    cross_sum n (nth k rows []) (nth j rows [])
    = gains_apply n (map (gain n) (firstn (j - k) (skipn k conds)))
        (canon n n (n_cov (nth j (back_marginals n c conds term) term))).
  Proof.
    intros HL Hf HN k j Hkj Hj.
    pose proof (rev_rows_gram_is_joint_cov n c (combine conds Ls) LN term Hf HN k j Hkj) as Hg.
    rewrite combine_length_eq in Hg by exact HL. specialize (Hg Hj).
    rewrite combine_map_fst in Hg by exact HL. exact Hg.
  Qed.

  Corollary reverse_gram_diagonal n c conds Ls (LN : mat) (term : normal) :
    length Ls = length conds ->
    Forall (factor_ok n) (combine conds Ls) ->
    mmul n n n LN (mtr n n LN) = canon n n (n_cov term) ->
    forall k, k <= length conds ->
    let rows := rev_rows n (combine conds Ls) LN in
    cross_sum n (nth k rows []) (nth k rows [])
    = canon n n (n_cov (nth k (back_marginals n c conds term) term)).
  Proof.
    intros HL Hf HN k Hk.
    pose proof (reverse_gram_is_joint_cov n c conds Ls LN term HL Hf HN k k (le_n k) Hk) as Hg.
    cbv zeta in Hg. rewrite Nat.sub_diag in Hg. exact Hg.
  Qed.

  Corollary reverse_gram_adjacent n c conds Ls (LN : mat) (term : normal) :
    length Ls = length conds ->
    Forall (factor_ok n) (combine conds Ls) ->
    mmul n n n LN (mtr n n LN) = canon n n (n_cov term) ->
    forall k, S k <= length conds ->
    let rows := rev_rows n (combine conds Ls) LN in
    cross_sum n (nth k rows []) (nth (S k) rows [])
    = mmul n n n (gain n (nth k conds (mkC [] [] [] [] [])))
        (canon n n (n_cov (nth (S k) (back_marginals n c conds term) term))).
  Proof.
    intros HL Hf HN k Hk.
    pose proof (reverse_gram_is_joint_cov n c conds Ls LN term HL Hf HN k (S k) (le_S _ _ (le_n k)) Hk) as Hg.
    cbv zeta in Hg. replace (S k - k)%nat with 1%nat in Hg by lia.
    assert (Hsk : firstn 1 (skipn k conds) = [nth k conds (mkC [] [] [] [] [])]).
    { clear -Hk. revert k Hk. induction conds as [|x conds IH]; intros k Hk; [cbn in Hk; lia|].
      destruct k as [|k]; [reflexivity|]. cbn [skipn nth]. apply IH. cbn in Hk. lia. }
    rewrite Hsk in Hg. exact Hg.
  Qed.

  Theorem forward_gram_diagonal n c conds Ls (L0 : mat) (init : normal) :
    length Ls = length conds ->
    Forall (factor_ok n) (combine conds Ls) ->
    mmul n n n L0 (mtr n n L0) = canon n n (n_cov init) ->
    map (fun r => cross_sum n r r) ([L0] :: fwd_rows_from n [L0] (combine conds Ls))
    = map (fun rv => canon n n (n_cov rv)) (seq_marginals false n c conds init).
  Proof.
    intros HL Hf H0.
    assert (Hrow : cross_sum n [L0] [L0] = canon n n (n_cov init)).
    { cbn [cross_sum]. rewrite H0. rewrite madd_mzero_r. apply canon_canon. }
    unfold seq_marginals. cbn [map]. rewrite Hrow. f_equal.
    rewrite (fwd_rows_gram n c (combine conds Ls) [L0] init Hf Hrow).
    rewrite combine_map_fst by exact HL. reflexivity.
  Qed.

  (* ================================================================
     Columns (isotropic model: state dimensions) are independent: column a of
     every sample of the linear part is the SAME block matrix applied to column a
     of the draws, so the Gram matrix over the flattened n x c state is
     (W W^T) (x) I_c = joint covariance (x) I_c. *)
  Lemma mget_mcol n a (z : mat) i j : i < n -> j < 1 -> mget (mcol n a z) i j = mget z i a.
  Proof. intros Hi Hj. unfold mcol. rewrite mget_mk by assumption. reflexivity. Qed.

  Lemma wsum_column n c a ws zs : a < c ->
    mcol n a (wsum n c ws zs) = wsum n 1 ws (map (mcol n a) zs).
  Proof.
    intro Ha. revert zs. induction ws as [|W ws IH]; intro zs.
    - cbn [wsum]. unfold mcol. unfold mzero at 2. apply mk_ext. intros i j Hi Hj.
      apply mget_mzero; assumption.
    - destruct zs as [|z zs]; cbn [wsum map].
      + unfold mcol. unfold mzero at 2. apply mk_ext. intros i j Hi Hj.
        apply mget_mzero; assumption.
      + rewrite <- IH. unfold mcol at 1. unfold madd at 2. apply mk_ext. intros i j Hi Hj.
        rewrite mget_madd by assumption.
        rewrite (mget_mmul n n c W z) by assumption. rewrite (mget_mmul n n 1 W) by assumption.
        rewrite mget_mcol by assumption. f_equal.
        apply vsum_ext. intros l Hl. rewrite mget_mcol by assumption. reflexivity.
  Qed.

  Theorem sample_columns_independent n c (L0 : mat) conds Ls z0 zs xs :
    length Ls = length conds -> length zs = length conds ->
    markov_sample true n c (mzero n c) L0 (map (c_nooff n c) conds) Ls (z0 :: zs) = Some xs ->
    forall a, a < c ->
    map (mcol n a) xs
    = map (fun row => wsum n 1 row (map (mcol n a) (rev zs ++ [z0])))
          (rev_rows n (combine conds Ls) L0).
  Proof.
    intros HL Hz Hs a Ha.
    rewrite reverse_sample_linear_map in Hs by assumption. inversion Hs; subst xs. clear Hs.
    rewrite map_map. apply map_ext. intro row. apply wsum_column. exact Ha.
  Qed.

  (* Gram entries of one sample_flat over the flattened n x c state, by unit
     draws e_{l,b}:  sum_{l,b} M[(i,a),(l,b)] M[(i',a'),(l,b)] = (L L^T)[i,i'] [a = a'] *)
  Lemma unit_response n c (L : mat) l b i a : i < n -> a < c -> l < n ->
    mget (n_sample n c (mzero n c) L (unit_draw n c l b)) i a = mget L i l * delta a b.
  Proof.
    intros Hi Ha Hl. unfold n_sample. rewrite mget_madd by assumption.
    rewrite mget_mzero by assumption. rewrite mget_mmul by assumption.
    rewrite (vsum_ext n _ (fun k => (mget L i k * delta a b) * delta k l)).
    2:{ intros k Hk. unfold unit_draw. rewrite mget_mk by assumption. ring. }
    rewrite (vsum_delta_r n l (fun k => mget L i k * delta a b) Hl). ring.
  Qed.

  Theorem sample_flat_gram_is_kronecker n c (L : mat) i i' a a' :
    i < n -> i' < n -> a < c -> a' < c ->
    vsum n (fun l => vsum c (fun b =>
      mget (n_sample n c (mzero n c) L (unit_draw n c l b)) i a
      * mget (n_sample n c (mzero n c) L (unit_draw n c l b)) i' a'))
    = mget (mmul n n n L (mtr n n L)) i i' * delta a a'.
  Proof.
    intros Hi Hi' Ha Ha'.
    rewrite mget_mmul by assumption. rewrite <- vsum_scale_r.
    apply vsum_ext. intros l Hl.
    rewrite (vsum_ext c _ (fun b => delta a b * (mget L i l * mget L i' l * delta a' b))).
    2:{ intros b Hb. rewrite !unit_response by assumption. ring. }
    rewrite (vsum_delta_l c a (fun b => mget L i l * mget L i' l * delta a' b) Ha).
    rewrite mget_mtr by assumption.
    unfold delta. rewrite (Nat.eqb_sym a' a). ring.
  Qed.

  (* Documentation of the repaired defect (3219804): the former sample_flat of
     the isotropic model broadcast ONE draw of length n to all c columns; its
     Gram matrix has Cov[i,i] between two different columns, where Cov (x) I_c
     has 0 (witness n = 1, c = 2, L = Cov = [[1]]). *)
  Definition n_sample_shared (n c : nat) (mean L z : mat) : mat :=
    madd n c mean (mk n c (fun i _ => mget (mmul n n 1 L z) i 0)).

  Theorem shared_draw_cross_dimension_gram_refuted :
    exists (n c : nat) (L0 Cov : mat) (i a b : nat),
      i < n /\ a < c /\ b < c /\ a <> b /\
      mmul n n n L0 (mtr n n L0) = canon n n Cov /\
      vsum n (fun l => mget (n_sample_shared n c (mzero n c) L0 (unit_draw n 1 l 0)) i a
                       * mget (n_sample_shared n c (mzero n c) L0 (unit_draw n 1 l 0)) i b)
      = mget Cov i i /\
      mget Cov i i <> 0.
  Proof.
    exists 1%nat, 2%nat, [[1]], [[1]], 0%nat, 0%nat, 1%nat.
    repeat split; try lia.
    - cbn. f_equal. f_equal. ring.
    - cbn. ring.
    - cbn. apply (F_1_neq_0 fth).
  Qed.

  (* ---------------------------------------------------------------- examples:
     the hypotheses of the Gram theorems are satisfiable (n = 1, one conditional
     with non-unit scalings) *)
  Example factor_hypotheses_satisfiable :
    let two := (1 + 1 : F) in
    let K := mkC [[1]] [[1]] [[1]] [two] [two] : cond in
    factor_ok 1 (K, [[two]]) /\
    mmul 1 1 1 [[1]] (mtr 1 1 [[1]]) = canon 1 1 (n_cov (mkN [[0]] [[1]] : normal)) /\
    length [[[two]]] = length [K].
  Proof.
    cbv zeta. split; [|split; [|reflexivity]].
    - unfold factor_ok. cbn. f_equal. f_equal. ring.
    - cbn. f_equal. f_equal. ring.
  Qed.
  (* ================================================================
     Link to the solver model: block a of Model/Solver.v's backward_marginals
     (= MarkovSequence.evaluate_marginals on the factorised posterior, the
     smoothing marginals solution.u) is back_marginals on block a *)
  Lemma map2_length {A B C : Type} (f : A -> B -> C) l1 l2 :
    length (map2 f l1 l2) = Nat.min (length l1) (length l2).
  Proof.
    revert l2. induction l1 as [|x l1 IH]; intro l2; [reflexivity|].
    destruct l2 as [|y l2]; [reflexivity|]. cbn. rewrite IH. reflexivity.
  Qed.
  Lemma nth_map2 {A B C : Type} (f : A -> B -> C) l1 l2 a d1 d2 d :
    a < length l1 -> a < length l2 -> nth a (map2 f l1 l2) d = f (nth a l1 d1) (nth a l2 d2).
  Proof.
    revert l2 a. induction l1 as [|x l1 IH]; intros l2 a H1 H2; [cbn in H1; lia|].
    destruct l2 as [|y l2]; [cbn in H2; lia|].
    destruct a as [|a]; [reflexivity|]. cbn. apply IH; cbn in *; lia.
  Qed.

  Lemma backward_marginals_lengths (s : shape) (conds : list (list cond)) (term : list normal) a :
    a < length term -> Forall (fun K => a < length K) conds ->
    Forall (fun m => a < length m) (backward_marginals s conds term).
  Proof.
    intros Ht Hc. induction Hc as [|K r HK Hr IH]; cbn [backward_marginals].
    - constructor; [exact Ht|constructor].
    - constructor; [|exact IH].
      unfold f_marg. rewrite map2_length.
      assert (a < length (hd term (backward_marginals s r term))).
      { destruct (backward_marginals s r term) as [|m ms]; [exact Ht|].
        inversion IH; assumption. }
      apply Nat.min_glb_lt; assumption.
  Qed.

  Theorem solver_backward_marginals_blockwise (s : shape) (conds : list (list cond))
          (term : list normal) a (dn : normal) (dc : cond) :
    a < length term -> Forall (fun K => a < length K) conds ->
    map (fun m => nth a m dn) (backward_marginals s conds term)
    = back_marginals (sh_N s) (sh_c s) (map (fun K => nth a K dc) conds) (nth a term dn).
  Proof.
    intros Ht Hc. induction Hc as [|K r HK Hr IH]; [reflexivity|].
    cbn [backward_marginals map back_marginals]. rewrite <- IH. f_equal.
    pose proof (backward_marginals_lengths s r term a Ht Hr) as Hl.
    assert (Hne : backward_marginals s r term <> []) by (destruct r; discriminate).
    rewrite (hd_map_nonempty _ _ term) by exact Hne.
    unfold f_marg. apply nth_map2; [exact HK|].
    destruct (backward_marginals s r term) as [|m ms]; [exact Ht|]. inversion Hl; assumption.
  Qed.
  (* the zero-draw hypotheses are met by the zero column; with fitting list
     lengths the sampler returns a value *)
  Example zero_draw_satisfiable n c :
    zero_draw n c (mzero n c : mat) /\ Forall (zero_draw n c) [mzero n c : mat].
  Proof.
    assert (Hz : zero_draw n c (mzero n c : mat)) by (intros i a Hi Ha; apply mget_mzero; assumption).
    split; [exact Hz|]. constructor; [exact Hz|constructor].
  Qed.
  Example markov_sample_defined n c (m0 L0 : mat) (K : cond) (L z0 z1 : mat) reverse :
    exists xs, markov_sample reverse n c m0 L0 [K] [L] [z0; z1] = Some xs /\ length xs = 2%nat.
  Proof. destruct reverse; eexists; (split; [reflexivity|reflexivity]). Qed.
End SampleProofs.
