(* Proofs about the Pade/Legendre/doubling model (Model/ExpGram.v) and the
   tables translated from the source (Generated/ExpGramConstants.v).

   T09.5 pade_order            (vm_compute, the five offered orders)
   T09.6 legendre_gram_order   (vm_compute, the five offered orders)
   T09.7 doubling_exact        (all n, all matrices: algebra)
   T09.4 kahan_hilbert_gram    (vm_compute, K <= 3, n <= 11)
   T09.8 OU / Matern bottom blocks (all q, d)

   The order conditions instantiate THE SAME Gallina functions that the
   correspondence check runs (pade_D, pade_N, leg_blocks_gen) at 1 x 1 matrices
   whose single entry is a truncated polynomial with rational coefficients. *)
From Coq Require Import List Arith Lia Bool Field Ring ZArith QArith Qcanon.
From PD Require Import Base.Field Base.Matrix Base.Solve Model.Gauss Model.Prior Model.ExpGram
  Proofs.GaussProofs Generated.ExpGramConstants.
Import ListNotations.
Local Close Scope Qc_scope.
Local Close Scope Q_scope.
Local Open Scope nat_scope.

(* ------------------------------------------------------------------------
   Truncated polynomials (degrees 0 .. N-1) as a FieldOps carrier.  Only the
   ring operations are meaningful; fdiv / finv are never called by the
   functions instantiated below: pade_D, pade_N, leg_blocks_gen only add, subtract
   and multiply. *)
Section PolyCarrier.
  Context {F : Type} `{FieldOps F}.
  Variable N : nat.
  Local Open Scope F_scope.

  Definition pget (a : list F) (k : nat) : F := nth k a 0.
  Definition pconst (c : F) : list F := mkv N (fun k => if Nat.eqb k 0 then c else 0).
  Definition pX : list F := mkv N (fun k => if Nat.eqb k 1 then 1 else 0).
  Definition padd (a b : list F) : list F := mkv N (fun k => pget a k + pget b k).
  Definition psub (a b : list F) : list F := mkv N (fun k => pget a k - pget b k).
  Definition popp (a : list F) : list F := mkv N (fun k => - pget a k).
  (* Cauchy product, truncated *)
  Definition pmul (a b : list F) : list F :=
    mkv N (fun k => vsum (S k) (fun i => pget a i * pget b (k - i))).
  Definition peqb (a b : list F) : bool :=
    forallb (fun k => feqb (pget a k) (pget b k)) (seq 0 N).

  Definition PolyOps : FieldOps (list F) := {|
    f0 := pconst 0; f1 := pconst 1;
    fadd := padd; fmul := pmul; fsub := psub; fopp := popp;
    fdiv := fun a _ => a; finv := fun a => a;
    feqb := peqb |}.
End PolyCarrier.

Local Notation poly := (list Qc).
Definition qc (x : Q) : Qc := Q2Qc x.

(* the 1 x 1 instantiation: A = [[x]], B = [[1]], table entries as constants *)
Definition ptab (N : nat) (b : list Q) : list poly := map (fun c => pconst N (qc c)) b.
Definition pmat (N : nat) (C : list (list Q)) : list (list poly) := map (ptab N) C.
Definition Xmat (N : nat) : list (list poly) := [[pX N]].
Definition Onemat (N : nat) : list (list poly) := [[pconst N (qc 1)]].

(* D(x) = (V - U)(x) and N(x) = (V + U)(x) of the model, as coefficient lists *)
Definition pade_D_poly (N p : nat) (b : list Q) : poly :=
  @mget poly (PolyOps N) (@pade_D poly (PolyOps N) 1 p (ptab N b) (Xmat N)) 0 0.
Definition pade_N_poly (N p : nat) (b : list Q) : poly :=
  @mget poly (PolyOps N) (@pade_N poly (PolyOps N) 1 p (ptab N b) (Xmat N)) 0 0.
(* exp(x) = sum_k x^k / k! *)
Definition exp_series (N : nat) : poly := mkv N (fun k => (1 / ffact k)%F).

(* the k-th Legendre right-hand side l_k(x) of the model (before / sqrt(norm_k)) *)
Definition leg_polys (advance : nat -> bool) (N p : nat) (C : list (list Q)) : list poly :=
  map (fun L => @mget poly (PolyOps N) L 0 0)
      (@leg_blocks_gen poly (PolyOps N) advance 1 1 p (pmat N C) (Xmat N) (Onemat N)).

(* ---------------------------------------------------------------- T09.5 *)
(* (V-U)(x) exp(x) = (V+U)(x)  mod x^(2p+1), and NOT mod x^(2p+2) *)
Definition pade_order_holds (p : nat) (b : list Q) : Prop :=
  let N := 2 * p + 2 in
  (forall k, k <= 2 * p ->
     pget (pmul N (pade_D_poly N p b) (exp_series N)) k = pget (pade_N_poly N p b) k)
  /\ pget (pmul N (pade_D_poly N p b) (exp_series N)) (2 * p + 1)
     <> pget (pade_N_poly N p b) (2 * p + 1).

Definition pade_order_check (p : nat) (b : list Q) : bool :=
  let N := 2 * p + 2 in
  forallb (fun k => feqb (pget (pmul N (pade_D_poly N p b) (exp_series N)) k)
                         (pget (pade_N_poly N p b) k)) (seq 0 (S (2 * p)))
  && negb (feqb (pget (pmul N (pade_D_poly N p b) (exp_series N)) (2 * p + 1))
                (pget (pade_N_poly N p b) (2 * p + 1))).

Lemma forallb_seq_le (P : nat -> bool) n :
  forallb P (seq 0 (S n)) = true -> forall k, k <= n -> P k = true.
Proof.
  intros Hb k Hk. rewrite forallb_forall in Hb. apply Hb. apply in_seq. lia.
Qed.

Lemma pade_order_check_sound p b : pade_order_check p b = true -> pade_order_holds p b.
Proof.
  unfold pade_order_check, pade_order_holds. intro Hc.
  apply andb_true_iff in Hc. destruct Hc as [H1 H2]. split.
  - intros k Hk. apply (proj1 (feqb_eq _ _)).
    exact (forallb_seq_le _ _ H1 k Hk).
  - intro Heq. apply (proj2 (feqb_eq _ _)) in Heq. rewrite Heq in H2. discriminate.
Qed.

Theorem pade_order :
  pade_order_holds 3 src_pade_3 /\ pade_order_holds 5 src_pade_5 /\ pade_order_holds 7 src_pade_7
  /\ pade_order_holds 9 src_pade_9 /\ pade_order_holds 13 src_pade_13.
Proof.
  repeat split; apply pade_order_check_sound; vm_compute; reflexivity.
Qed.

(* ---------------------------------------------------------------- T09.6 *)
(* The Gramian G = int_0^1 e^{sA} W e^{sA^T} ds = sum_{a,b} A^a W (A^T)^b / (a! b! (a+b+1)).
   The initialiser returns D(A)^-1 [ sum_k l_k(A) W l_k(A)^T / norm_k ] D(A)^-T
   (W = B B^T).  Left multiplication by A and right multiplication by A^T commute as
   operators on W, so writing x for the former and y for the latter the
   initialiser is exact up to total degree T iff
       sum_k l_k(x) l_k(y) / norm_k  =  D(x) D(y) sum_{a,b} x^a y^b / (a! b! (a+b+1))
   coefficientwise for a + b <= T.  The five tables satisfy this for
   T = 2p - 1 and not for T = 2p. *)
Definition gram_weight (a b : nat) : Qc := (1 / (ffact a * ffact b * fnat (a + b + 1)))%F.
Definition leg_lhs_of (Ls : list poly) (norms : list Q) (p a b : nat) : Qc :=
  vsum (S p) (fun k => (pget (nth k Ls []) a * pget (nth k Ls []) b / qc (nth k norms 0%Q))%F).
Definition leg_rhs_of (D : poly) (a b : nat) : Qc :=
  vsum (S a) (fun i => vsum (S b) (fun j => (pget D i * pget D j * gram_weight (a - i) (b - j))%F)).

Definition legendre_gram_exact_to (advance : nat -> bool) (p : nat) (bP : list Q)
           (C : list (list Q)) (norms : list Q) (T : nat) : Prop :=
  let Ls := leg_polys advance (S p) p C in
  let D := pade_D_poly (S p) p bP in
  forall a b, a + b <= T -> leg_lhs_of Ls norms p a b = leg_rhs_of D a b.
Definition legendre_gram_fails_at (advance : nat -> bool) (p : nat) (bP : list Q)
           (C : list (list Q)) (norms : list Q) (a b : nat) : Prop :=
  let Ls := leg_polys advance (S p) p C in
  let D := pade_D_poly (S p) p bP in
  leg_lhs_of Ls norms p a b <> leg_rhs_of D a b.
(* order exactly 2p: exact for total degree <= 2p-1, wrong in the y^(2p) coefficient *)
Definition legendre_gram_order_holds (p : nat) (bP : list Q) (C : list (list Q)) (norms : list Q)
  : Prop :=
  legendre_gram_exact_to (fun _ => true) p bP C norms (2 * p - 1)
  /\ legendre_gram_fails_at (fun _ => true) p bP C norms 0 (2 * p).

Definition legendre_exact_check (advance : nat -> bool) (p : nat) (bP : list Q)
           (C : list (list Q)) (norms : list Q) (T : nat) : bool :=
  let Ls := leg_polys advance (S p) p C in
  let D := pade_D_poly (S p) p bP in
  forallb (fun a => forallb (fun b =>
    if Nat.leb (a + b) T then feqb (leg_lhs_of Ls norms p a b) (leg_rhs_of D a b) else true)
    (seq 0 (S T))) (seq 0 (S T)).
Definition legendre_fails_check (advance : nat -> bool) (p : nat) (bP : list Q)
           (C : list (list Q)) (norms : list Q) (a b : nat) : bool :=
  let Ls := leg_polys advance (S p) p C in
  let D := pade_D_poly (S p) p bP in
  negb (feqb (leg_lhs_of Ls norms p a b) (leg_rhs_of D a b)).

Lemma legendre_exact_check_sound adv p bP C norms T :
  legendre_exact_check adv p bP C norms T = true -> legendre_gram_exact_to adv p bP C norms T.
Proof.
  unfold legendre_exact_check, legendre_gram_exact_to. cbv zeta. intros Hc a b Hab.
  pose proof (forallb_seq_le _ _ Hc a ltac:(lia)) as Ha. cbv beta in Ha.
  pose proof (forallb_seq_le _ _ Ha b ltac:(lia)) as Hb. cbv beta in Hb.
  assert (Hle : Nat.leb (a + b) T = true) by (apply Nat.leb_le; exact Hab).
  rewrite Hle in Hb. apply (proj1 (feqb_eq _ _)). exact Hb.
Qed.
Lemma legendre_fails_check_sound adv p bP C norms a b :
  legendre_fails_check adv p bP C norms a b = true -> legendre_gram_fails_at adv p bP C norms a b.
Proof.
  unfold legendre_fails_check, legendre_gram_fails_at. cbv zeta. intros Hc Heq.
  apply (proj2 (feqb_eq _ _)) in Heq. rewrite Heq in Hc. discriminate.
Qed.

Lemma legendre_gram_order_3 :
  legendre_gram_order_holds 3 src_pade_3 src_legendre_3 src_legendre_norms_3.
Proof.
  split; [apply legendre_exact_check_sound|apply legendre_fails_check_sound]; vm_compute; reflexivity.
Qed.
Lemma legendre_gram_order_5 :
  legendre_gram_order_holds 5 src_pade_5 src_legendre_5 src_legendre_norms_5.
Proof.
  split; [apply legendre_exact_check_sound|apply legendre_fails_check_sound]; vm_compute; reflexivity.
Qed.
Lemma legendre_gram_order_7 :
  legendre_gram_order_holds 7 src_pade_7 src_legendre_7 src_legendre_norms_7.
Proof.
  split; [apply legendre_exact_check_sound|apply legendre_fails_check_sound]; vm_compute; reflexivity.
Qed.
Lemma legendre_gram_order_9 :
  legendre_gram_order_holds 9 src_pade_9 src_legendre_9 src_legendre_norms_9.
Proof.
  split; [apply legendre_exact_check_sound|apply legendre_fails_check_sound]; vm_compute; reflexivity.
Qed.
Lemma legendre_gram_order_13 :
  legendre_gram_order_holds 13 src_pade_13 src_legendre_13 src_legendre_norms_13.
Proof.
  split; [apply legendre_exact_check_sound|apply legendre_fails_check_sound]; vm_compute; reflexivity.
Qed.

Theorem legendre_gram_order :
  legendre_gram_order_holds 3 src_pade_3 src_legendre_3 src_legendre_norms_3
  /\ legendre_gram_order_holds 5 src_pade_5 src_legendre_5 src_legendre_norms_5
  /\ legendre_gram_order_holds 7 src_pade_7 src_legendre_7 src_legendre_norms_7
  /\ legendre_gram_order_holds 9 src_pade_9 src_legendre_9 src_legendre_norms_9
  /\ legendre_gram_order_holds 13 src_pade_13 src_legendre_13 src_legendre_norms_13.
Proof.
  exact (conj legendre_gram_order_3 (conj legendre_gram_order_5 (conj legendre_gram_order_7
          (conj legendre_gram_order_9 legendre_gram_order_13)))).
Qed.

(* the loop of the order-5 initialiser WITHOUT its `P = A2 @ P` (the state of the
   source before the repair of finding F2) is wrong already in the y^2 coefficient *)
Theorem legendre_gram_order_5_without_advance_refuted :
  legendre_gram_fails_at (fun _ => false) 5 src_pade_5 src_legendre_5 src_legendre_norms_5 0 2.
Proof. apply legendre_fails_check_sound. vm_compute. reflexivity. Qed.

(* what the source does now: every Legendre loop advances P, over k = 2 .. (p+1)/2 - 1 *)
Theorem source_legendre_loops :
  (src_legendre_advance_3 = true /\ src_legendre_loop_3 = seq 2 (half 3 - 2))
  /\ (src_legendre_advance_5 = true /\ src_legendre_loop_5 = seq 2 (half 5 - 2))
  /\ (src_legendre_advance_7 = true /\ src_legendre_loop_7 = seq 2 (half 7 - 2))
  /\ (src_legendre_advance_9 = true /\ src_legendre_loop_9 = seq 2 (half 9 - 2))
  /\ (src_legendre_advance_13 = true /\ src_legendre_loop_13 = seq 2 (half 13 - 2)).
Proof. repeat split; reflexivity. Qed.

(* ---------------------------------------------------------------- T09.4 *)
(* Kahan's recurrence: the Gram matrix of the returned factor
   L = tril((U * sqrt(odds)[:,None] * (1/f)[None,:])^T) is
   (L L^T)[j][j'] = sum_i U[i][j] U[i][j'] odds[i] / (f[j] f[j'])  = kahan_gram,
   and equals the (shifted) Hilbert matrix 1/(i+j+K+1) for K <= 3, n <= 11. *)
Definition kahan_check (K n : nat) : bool :=
  meqb n n (@kahan_gram Qc _ K n) (@hilbert Qc _ K n).

Theorem kahan_hilbert_gram :
  forall K n, K <= 3 -> n <= 11 ->
  forall i j, i < n -> j < n ->
    mget (@kahan_gram Qc _ K n) i j = mget (@hilbert Qc _ K n) i j.
Proof.
  assert (Hall : forallb (fun K => forallb (fun n => kahan_check K n) (seq 0 12)) (seq 0 4) = true)
    by (vm_compute; reflexivity).
  intros K n HK Hn.
  pose proof (forallb_seq_le _ _ Hall K HK) as H1. cbv beta in H1.
  pose proof (forallb_seq_le _ _ H1 n Hn) as H2. cbv beta in H2.
  exact (meqb_true n n _ _ H2).
Qed.

(* system_matrices_1d_iwp: Gram of the re-triangularised flipped factor = flipped Hilbert
   matrix of Model/Prior.v, for q <= 10 *)
Theorem kahan_flip_is_hilbert_flip :
  forall q, q <= 10 ->
  forall i j, i < S q -> j < S q ->
    mget (@kahan_gram_flip Qc _ q) i j = mget (@hilbert_flip Qc _ q) i j.
Proof.
  assert (Hall : forallb (fun q => meqb (S q) (S q) (@kahan_gram_flip Qc _ q) (@hilbert_flip Qc _ q))
                         (seq 0 11) = true) by (vm_compute; reflexivity).
  intros q Hq. pose proof (forallb_seq_le _ _ Hall q Hq) as H1. cbv beta in H1.
  exact (meqb_true (S q) (S q) _ _ H1).
Qed.

(* the squared entries reported by the model are the squares of a lower-triangular factor
   whose Gram matrix is kahan_gram: L2[j][i] = U[i][j]^2 odds[i] / f[j]^2 *)
Example kahan_L2_3 :
  map (map (fun x => this x)) (@kahan_L2 Qc _ 0 3)
  = [[1#1; 0#1; 0#1]; [1#4; 1#12; 0#1]; [1#9; 1#12; 1#180]]%Q.
Proof. vm_compute. reflexivity. Qed.

(* ================================================================= algebra *)
Section ExpGramAlgebra.
  Context {F : Type} `{FL : FieldLaws F}.
  Local Open Scope F_scope.
  Add Field FFe : fth.
  Local Notation mat := (@mat F).
  Local Notation vec := (@vec F).

  (* ------------------------------------------------------------ T09.7 *)
  (* one doubling step maps (Phi(h), G(h)) to (Phi(2h), G(2h)) whenever the pair obeys the
     semigroup laws of a linear time-invariant SDE *)
  Theorem doubling_step_exact n (Phi_h G_h Phi_2h G_2h : mat) :
    Phi_2h = mmul n n n Phi_h Phi_h ->
    G_2h = madd n n G_h (sandwich n n Phi_h G_h) ->
    eg_double n (Phi_h, G_h) = (Phi_2h, G_2h).
  Proof. intros -> ->. reflexivity. Qed.

  (* ... hence num doublings started from the exact pair at step h return the exact pair at
     step 2^num h: Ph k, Gm k stand for Phi(2^k h), G(2^k h) *)
  Theorem doubling_exact n (Ph Gm : nat -> mat) :
    (forall k, Ph (S k) = mmul n n n (Ph k) (Ph k)) ->
    (forall k, Gm (S k) = madd n n (Gm k) (sandwich n n (Ph k) (Gm k))) ->
    forall num k, iter num (eg_double n) (Ph k, Gm k) = (Ph (num + k)%nat, Gm (num + k)%nat).
  Proof.
    intros HP HG num. induction num as [|num IH]; intro k; cbn [iter].
    - reflexivity.
    - rewrite (doubling_step_exact n (Ph k) (Gm k) (Ph (S k)) (Gm (S k)) (HP k) (HG k)).
      rewrite IH. replace (num + S k)%nat with (S num + k)%nat by lia. reflexivity.
  Qed.

  Lemma vsum_split a b (f : nat -> F) :
    vsum (a + b) f = vsum a f + vsum b (fun i => f (a + i)%nat).
  Proof.
    induction b as [|b IH].
    - rewrite Nat.add_0_r. simpl. ring.
    - rewrite Nat.add_succ_r. simpl. rewrite IH. ring.
  Qed.

  (* the square-root implementation: stack = (U, Phi U) (n x 2n), U' = qr_r(stack^T)^T.
     Under the QR contract R^T R = M^T M (M = stack^T) the new Gram matrix U' U'^T is
     Gamma + Phi Gamma Phi^T with Gamma = U U^T. *)
  Definition dbl_stack (n : nat) (Phi U : mat) : mat :=
    mk n (n + n) (fun i j => if Nat.ltb j n then mget U i j
                             else mget (mmul n n n Phi U) i (j - n)).

  Lemma stack_gram n (Phi U : mat) :
    mmul n (n + n) n (dbl_stack n Phi U) (mtr n (n + n) (dbl_stack n Phi U))
    = madd n n (mmul n n n U (mtr n n U))
               (sandwich n n Phi (mmul n n n U (mtr n n U))).
  Proof.
    unfold sandwich.
    rewrite <- (mmul_assoc n n n n Phi U (mtr n n U)).
    rewrite (mmul_assoc n n n n (mmul n n n Phi U) (mtr n n U) (mtr n n Phi)).
    rewrite <- (mtr_mmul n n n Phi U).
    unfold madd. unfold mmul at 1. apply mk_ext. intros i j Hi Hj.
    rewrite vsum_split. f_equal.
    - rewrite mget_mmul by assumption. apply vsum_ext. intros l Hl.
      rewrite mget_mtr by lia. unfold dbl_stack. rewrite !mget_mk by lia.
      assert (Hlt : Nat.ltb l n = true) by (apply Nat.ltb_lt; exact Hl). rewrite Hlt.
      rewrite mget_mtr by assumption. reflexivity.
    - rewrite mget_mmul by assumption. apply vsum_ext. intros l Hl.
      rewrite mget_mtr by lia. unfold dbl_stack. rewrite !mget_mk by lia.
      assert (Hge : Nat.ltb (n + l) n = false) by (apply Nat.ltb_ge; lia). rewrite Hge.
      replace (n + l - n)%nat with l by lia.
      rewrite mget_mtr by assumption. reflexivity.
  Qed.

  Theorem doubling_sqrt_form n r (Phi U R : mat) :
    (* QR contract for M = stack^T : R is r x n with R^T R = M^T M = stack stack^T *)
    mmul n r n (mtr r n R) R
      = mmul n (n + n) n (dbl_stack n Phi U) (mtr n (n + n) (dbl_stack n Phi U)) ->
    (* U' = R^T ;  U' U'^T = R^T R *)
    mmul n r n (mtr r n R) (mtr n r (mtr r n R))
      = snd (eg_double n (Phi, mmul n n n U (mtr n n U))).
  Proof.
    intro HQR. cbn [eg_double snd fst]. rewrite <- stack_gram. rewrite <- HQR.
    rewrite mtr_mtr. rewrite mmul_canon_r. reflexivity.
  Qed.
  (* the QR contract is satisfiable for every stack: R = stack^T itself *)
  Example doubling_sqrt_form_hypothesis_satisfiable n (Phi U : mat) :
    let R := mtr n (n + n) (dbl_stack n Phi U) in
    mmul n (n + n) n (mtr (n + n) n R) R
      = mmul n (n + n) n (dbl_stack n Phi U) (mtr n (n + n) (dbl_stack n Phi U)).
  Proof. cbv zeta. rewrite mtr_mtr. rewrite mmul_canon_l. reflexivity. Qed.
End ExpGramAlgebra.

(* the hypotheses of doubling_exact are satisfiable (scalar Ornstein-Uhlenbeck-like pair) *)
Example doubling_exact_hypotheses_satisfiable :
  exists (Ph Gm : nat -> @mat Qc),
    (forall k, Ph (S k) = mmul 1 1 1 (Ph k) (Ph k))
    /\ (forall k, Gm (S k) = madd 1 1 (Gm k) (sandwich 1 1 (Ph k) (Gm k))).
Proof.
  exists (fix ph k := match k with O => [[Q2Qc (1#2)]] | S k' => mmul 1 1 1 (ph k') (ph k') end).
  exists (fix gm k := match k with
                      | O => [[Q2Qc 1]]
                      | S k' => madd 1 1 (gm k')
                          (sandwich 1 1 ((fix ph k := match k with O => [[Q2Qc (1#2)]]
                                                     | S k' => mmul 1 1 1 (ph k') (ph k') end) k')
                                    (gm k'))
                      end).
  split; intro k; reflexivity.
Qed.

(* ---------------------------------------------------------------- T09.8 *)
(* the drift matrices of the exponential priors: prior_exponential_diffuse takes
   bottom_block = jacfwd(vf_flat) of the (linear) `autonomous` map, i.e. its matrix *)
Section ExpPriorDrift.
  Context {F : Type} `{FL : FieldLaws F}.
  Local Open Scope F_scope.
  Add Field FFd : fth.
  Local Notation mat := (@mat F).
  Local Notation vec := (@vec F).

  Lemma last_map_seq {X : Type} (f : nat -> X) q dflt : last (map f (seq 0 (S q))) dflt = f q.
  Proof. rewrite seq_S, map_app. simpl. apply last_last. Qed.
  Lemma nth_map_seq {X : Type} (f : nat -> X) n i dflt : i < n -> nth i (map f (seq 0 n)) dflt = f i.
  Proof.
    intro Hi. rewrite nth_indep with (d' := f 0%nat) by (rewrite map_length, seq_length; exact Hi).
    rewrite map_nth. rewrite seq_nth by exact Hi. reflexivity.
  Qed.

  Lemma vsum_indicator_r n j (f : nat -> F) : j < n ->
    vsum n (fun k => f k * (if Nat.eqb k j then 1 else 0)) = f j.
  Proof.
    intro Hj. rewrite <- (vsum_delta_r n j f Hj). apply vsum_ext. intros k _. reflexivity.
  Qed.

  (* OU: the Jacobian of jet_coords |-> linop(jet_coords[-1]) is (0 | ... | 0 | Lop) *)
  Theorem ou_bottom_block q d (Lop : mat) :
    jac_of q d (ou_autonomous d Lop) = ou_bottom q d Lop.
  Proof.
    unfold jac_of, ou_bottom. apply mk_ext. intros r c Hr Hc.
    assert (Hd : (0 < d)%nat) by lia.
    assert (Ha : (c mod d < d)%nat) by (apply Nat.mod_upper_bound; lia).
    unfold ou_autonomous. rewrite vget_mkv by assumption.
    unfold basis_coords. rewrite last_map_seq.
    rewrite (vsum_ext d _ (fun a => (if Nat.eqb q (c / d) then mget Lop r a else 0)
                                   * (if Nat.eqb a (c mod d) then 1 else 0))).
    2:{ intros a Ha'. rewrite vget_mkv by assumption.
        destruct (Nat.eqb q (c / d)); destruct (Nat.eqb a (c mod d)); simpl; ring. }
    rewrite vsum_indicator_r by assumption. rewrite (Nat.eqb_sym (c / d) q). reflexivity.
  Qed.

  (* Matern: the Jacobian of jet_coords |-> -(sum_i comb(D,i) z^(D-i) jet_coords[i]), D = q+1,
     has the blocks -comb(D,i) z^(D-i) I_d *)
  Theorem matern_bottom_block q d (z : F) :
    jac_of q d (matern_autonomous d z) = matern_bottom q d z.
  Proof.
    unfold jac_of, matern_bottom. apply mk_ext. intros r c Hr Hc.
    assert (Hd : (0 < d)%nat) by lia.
    assert (Hk : (c / d < S q)%nat) by (apply Nat.div_lt_upper_bound; lia).
    unfold matern_autonomous. rewrite vget_mkv by assumption.
    assert (HD : length (basis_coords q d (c / d) (c mod d)) = S q)
      by (unfold basis_coords; rewrite map_length, seq_length; reflexivity).
    rewrite HD.
    rewrite (vsum_ext (S q) _ (fun i => (if Nat.eqb r (c mod d)
                                         then fcomb (S q) i * fpow z (S q - i) else 0)
                                        * (if Nat.eqb i (c / d) then 1 else 0))).
    2:{ intros i Hi. unfold basis_coords. rewrite nth_map_seq by assumption.
        rewrite vget_mkv by assumption.
        destruct (Nat.eqb i (c / d)); destruct (Nat.eqb r (c mod d)); cbn [andb]; ring. }
    rewrite vsum_indicator_r by assumption. rewrite (Nat.eqb_sym (c mod d) r).
    destruct (Nat.eqb r (c mod d)); ring.
  Qed.

  (* documented drift: shifted identity above the bottom block *)
  Theorem drift_matrix_entries q d (bottom : mat) i j :
    (i < S q * d)%nat -> (j < S q * d)%nat ->
    mget (drift_matrix q d bottom) i j
    = if Nat.ltb i (q * d) then (if Nat.eqb j (i + d) then 1 else 0)
      else mget bottom (i - q * d) j.
  Proof. intros Hi Hj. unfold drift_matrix. rewrite mget_mk by assumption. reflexivity. Qed.
End ExpPriorDrift.

(* ------------------------------------------------ the statements over the list of orders *)
Lemma pade_order_all :
  forall p b, In (p, b) [(3, src_pade_3); (5, src_pade_5); (7, src_pade_7); (9, src_pade_9);
                         (13, src_pade_13)] ->
    pade_order_holds p b.
Proof.
  intros p b Hin. destruct pade_order as (H3 & H5 & H7 & H9 & H13).
  repeat (destruct Hin as [Heq|Hin]; [inversion Heq; subst; assumption|]). destruct Hin.
Qed.

Lemma legendre_gram_order_all :
  forall p bP C norms,
    In (p, bP, C, norms)
       [(3, src_pade_3, src_legendre_3, src_legendre_norms_3);
        (5, src_pade_5, src_legendre_5, src_legendre_norms_5);
        (7, src_pade_7, src_legendre_7, src_legendre_norms_7);
        (9, src_pade_9, src_legendre_9, src_legendre_norms_9);
        (13, src_pade_13, src_legendre_13, src_legendre_norms_13)] ->
    legendre_gram_order_holds p bP C norms.
Proof.
  intros p bP C norms Hin. destruct legendre_gram_order as (H3 & H5 & H7 & H9 & H13).
  repeat (destruct Hin as [Heq|Hin]; [inversion Heq; subst; assumption|]). destruct Hin.
Qed.

(* ----------------------------------------------------------------
   Where the model is organised differently from the code:
   (a) B / sqrt(2^num) before the initialiser  vs  Gramian / 2^num after it;
   (b) the hand-written blocks of the order-3 function vs the generic loop;
   (c) the grouped high powers of the order-13 Pade polynomials vs the generic sum. *)
Section Homogeneity.
  Context {F : Type} `{FL : FieldLaws F}.
  Local Open Scope F_scope.
  Add Field FFh : fth.
  Local Notation mat := (@mat F).
  Local Notation vec := (@vec F).

  Lemma mmul_mscale_r n k m c (A B : mat) :
    mmul n k m A (mscale k m c B) = mscale n m c (mmul n k m A B).
  Proof.
    unfold mmul at 1, mscale at 2. apply mk_ext. intros i j Hi Hj.
    rewrite mget_mmul by assumption. rewrite <- vsum_scale_l. apply vsum_ext. intros l Hl.
    rewrite mget_mscale by assumption. ring.
  Qed.
  Lemma mscale_madd n m c (X Y : mat) :
    madd n m (mscale n m c X) (mscale n m c Y) = mscale n m c (madd n m X Y).
  Proof.
    unfold madd at 1, mscale at 3. apply mk_ext. intros i j Hi Hj.
    rewrite mget_madd by assumption. rewrite !mget_mscale by assumption. ring.
  Qed.
  Lemma mscale_mscale_comm n m c x (X : mat) :
    mscale n m x (mscale n m c X) = mscale n m c (mscale n m x X).
  Proof.
    unfold mscale at 1 3. apply mk_ext. intros i j Hi Hj. rewrite !mget_mscale by assumption. ring.
  Qed.
  Lemma mscale_mzero n m c : mscale n m c (mzero n m) = (mzero n m : mat).
  Proof.
    unfold mscale, mzero. apply mk_ext. intros i j Hi Hj. rewrite mget_mk by assumption. ring.
  Qed.

  Lemma mapi_map {X Y Z : Type} (f : nat -> Y -> Z) (g : X -> Y) (l : list X) :
    mapi f (map g l) = mapi (fun i x => f i (g x)) l.
  Proof.
    unfold mapi. rewrite map_length.
    generalize (seq 0 (length l)) as s. induction l as [|x l IH]; intros [|i s]; simpl; try reflexivity.
    f_equal. apply IH.
  Qed.
  Lemma map_mapi {X Y Z : Type} (g : Y -> Z) (f : nat -> X -> Y) (l : list X) :
    map g (mapi f l) = mapi (fun i x => g (f i x)) l.
  Proof. unfold mapi. rewrite map_map. reflexivity. Qed.
  Lemma mapi_ext {X Y : Type} (f g : nat -> X -> Y) (l : list X) :
    (forall i x, f i x = g i x) -> mapi f l = mapi g l.
  Proof. intro Hfg. unfold mapi. apply map_ext. intros [i x]. apply Hfg. Qed.
  Lemma interleave_map {X Y : Type} (g : X -> Y) (a b : list X) :
    interleave (map g a) (map g b) = map g (interleave a b).
  Proof.
    revert b. induction a as [|x a IH]; intros [|y b]; simpl; try reflexivity.
    rewrite IH. reflexivity.
  Qed.

  (* a state of the Legendre loop scaled by c in its accumulators *)
  Definition st_scale (n mB : nat) (c : F) (st : mat * (list mat * list mat))
    : mat * (list mat * list mat) :=
    (fst st, (map (mscale n mB c) (fst (snd st)), map (mscale n mB c) (snd (snd st)))).

  Lemma leg_start_scale n mB m C A2 (B : mat) c :
    leg_start n mB m C A2 (mscale n mB c B) = st_scale n mB c (leg_start n mB m C A2 B).
  Proof.
    unfold leg_start, st_scale. cbn [fst snd]. rewrite mmul_mscale_r.
    rewrite !map_app. cbn [map].
    rewrite !(mscale_mscale_comm n mB c). rewrite !mscale_madd.
    assert (Hz : forall k, map (mscale n mB c) (repeat (mzero n mB) k) = repeat (mzero n mB : mat) k).
    { induction k as [|k IH]; simpl; [reflexivity|]. rewrite IH, mscale_mzero. reflexivity. }
    rewrite Hz. reflexivity.
  Qed.

  Lemma leg_step_scale adv n mB C A2 (B : mat) c st k :
    leg_step adv n mB C A2 (mscale n mB c B) (st_scale n mB c st) k
    = st_scale n mB c (leg_step adv n mB C A2 B st k).
  Proof.
    unfold leg_step, st_scale. cbn [fst snd]. rewrite mmul_mscale_r.
    rewrite !mapi_map, !map_mapi. f_equal. f_equal.
    - apply mapi_ext. intros i x. rewrite (mscale_mscale_comm n mB c). apply mscale_madd.
    - apply mapi_ext. intros i x. rewrite (mscale_mscale_comm n mB c). apply mscale_madd.
  Qed.

  (* the Legendre right-hand sides are linear in B *)
  Theorem leg_blocks_scale adv n mB p C A (B : mat) c :
    leg_blocks_gen adv n mB p C A (mscale n mB c B)
    = map (mscale n mB c) (leg_blocks_gen adv n mB p C A B).
  Proof.
    unfold leg_blocks_gen. rewrite leg_start_scale.
    set (A2 := mmul n n n A A).
    assert (Hf : forall ks st,
      fold_left (leg_step adv n mB C A2 (mscale n mB c B)) ks (st_scale n mB c st)
      = st_scale n mB c (fold_left (leg_step adv n mB C A2 B) ks st)).
    { induction ks as [|k ks IH]; intro st; simpl; [reflexivity|].
      rewrite leg_step_scale. apply IH. }
    rewrite Hf. unfold st_scale at 1 2. cbn [fst snd].
    rewrite <- interleave_map. f_equal.
    rewrite !map_map. apply map_ext. intro X. apply mmul_mscale_r.
  Qed.

  Lemma nth_map_in {X Y : Type} (g : X -> Y) (l : list X) k dx dy :
    k < length l -> nth k (map g l) dy = g (nth k l dx).
  Proof.
    revert k. induction l as [|x l IH]; intros [|k] Hk; simpl in *; try lia; [reflexivity|].
    apply IH. lia.
  Qed.

  (* ... hence their Gram matrix is quadratic in the scale of B *)
  Theorem leg_gram_scale n mB norms (Ls : list mat) c :
    leg_gram n mB norms (map (mscale n mB c) Ls) = mscale n n (c * c) (leg_gram n mB norms Ls).
  Proof.
    symmetry. unfold mscale at 1. unfold leg_gram at 2. apply mk_ext. intros i j Hi Hj.
    unfold leg_gram. rewrite mget_mk by assumption. rewrite map_length.
    rewrite <- vsum_scale_l. apply vsum_ext. intros k Hk.
    rewrite (nth_map_in (mscale n mB c) Ls k [] []) by exact Hk.
    rewrite (vsum_ext mB (fun a => mget (mscale n mB c (nth k Ls [])) i a * mget (mscale n mB c (nth k Ls [])) j a)
                      (fun a => (c * c) * (mget (nth k Ls []) i a * mget (nth k Ls []) j a))).
    2:{ intros a Ha. rewrite !mget_mscale by assumption. ring. }
    rewrite vsum_scale_l. rewrite !(Fdiv_def fth). ring.
  Qed.

  Lemma mmul_mscale_l n k m c (A B : mat) :
    mmul n k m (mscale n k c A) B = mscale n m c (mmul n k m A B).
  Proof.
    unfold mmul at 1, mscale at 2. apply mk_ext. intros i j Hi Hj.
    rewrite mget_mmul by assumption. rewrite <- vsum_scale_l. apply vsum_ext. intros l Hl.
    rewrite mget_mscale by assumption. ring.
  Qed.
  Lemma sandwich_mscale n m c (A P : mat) :
    sandwich n m A (mscale m m c P) = mscale n n c (sandwich n m A P).
  Proof. unfold sandwich. rewrite mmul_mscale_r, mmul_mscale_l. reflexivity. Qed.

  (* PadeLegendre.init at Gram level: scaling B by c scales the Gramian by c^2 and leaves e^A alone *)
  Theorem pl_init_scale adv n mB T A (B : mat) c :
    pl_init_gen adv n mB T A (mscale n mB c B)
    = match pl_init_gen adv n mB T A B with
      | None => None
      | Some (Phi, Gam) => Some (Phi, mscale n n (c * c) Gam)
      end.
  Proof.
    unfold pl_init_gen. destruct (minv n (pade_D n (pl_p T) (pl_pade T) A)) as [Di|]; [|reflexivity].
    rewrite leg_blocks_scale, leg_gram_scale, sandwich_mscale. reflexivity.
  Qed.

  (* exp_gram_cholesky scales B by 1/sqrt(2^num) BEFORE the initialiser; the model scales the
     initial Gramian by 1/2^num AFTER it.  For any s with s^2 = 1/2^num the two coincide. *)
  Theorem exp_gram_scaling_of_B n mB T num A (B : mat) s :
    s * s = finv (fpow (1 + 1) num) ->
    exp_gram n mB T num A B
    = match pl_init n mB T (mscale n n (finv (fpow (1 + 1) num)) A) (mscale n mB s B) with
      | None => None
      | Some PG => Some (iter num (eg_double n) PG)
      end.
  Proof.
    intro Hs. unfold exp_gram, pl_init. rewrite pl_init_scale. rewrite Hs.
    destruct (pl_init_gen (fun _ => true) n mB T (mscale n n (finv (fpow (1 + 1) num)) A) B)
      as [[Phi Gam]|]; reflexivity.
  Qed.

  (* the order-3 function writes its four blocks by hand; they are the generic loop's blocks
     whenever C[1,3] = 0 (true for the source table: legendre_coeffs[1] = [0, 60, 0, 0]) *)
  Theorem leg_blocks3_is_generic n mB (C A B : mat) :
    mget C 1 3 = 0 -> leg_blocks n mB 3 C A B = leg_blocks3 n mB C A B.
  Proof.
    intro HC. unfold leg_blocks, leg_blocks_gen, leg_blocks3, leg_start.
    change (half 3) with 2%nat. cbn [Nat.sub seq fold_left fst snd repeat app map interleave].
    rewrite HC. f_equal. f_equal; [|f_equal; f_equal].
    - unfold mmul at 1, mscale at 3. apply mk_ext. intros i j Hi Hj.
      rewrite mget_mmul by assumption. rewrite <- vsum_scale_l. apply vsum_ext. intros l Hl.
      rewrite mget_madd by assumption. rewrite !mget_mscale by assumption. ring.
    - rewrite mmul_mscale_r. rewrite <- mmul_assoc. reflexivity.
  Qed.
End Homogeneity.

Section Pade13.
  Context {F : Type} `{FL : FieldLaws F}.
  Local Open Scope F_scope.
  Add Field FFp13 : fth.
  Local Notation mat := (@mat F).

  (* seven-term matrix polynomial in A2, generic form vs the grouping of pade_and_legendre_13 *)
  Lemma grouped13 n (A2 : mat) c0 c1 c2 c3 c4 c5 c6 :
    let A4 := mmul n n n A2 A2 in let A6 := mmul n n n A4 A2 in
    let s := mscale n n in let pl := madd n n in
    mcomb n 7 [c0; c1; c2; c3; c4; c5; c6] (a2_powers n A2 6)
    = pl (pl (pl (pl (mmul n n n A6 (pl (pl (s c6 A6) (s c5 A4)) (s c4 A2)))
                     (s c3 A6)) (s c2 A4)) (s c1 A2)) (s c0 (mid n)).
  Proof.
    cbv zeta. cbn [a2_powers app last].
    rewrite !mmul_add_r, !mmul_mscale_r.
    rewrite (mmul_id_l n n A2). rewrite (mmul_canon_l n n n A2 A2).
    set (Q2 := mmul n n n A2 A2). set (Q3 := mmul n n n Q2 A2).
    rewrite (mmul_assoc n n n n Q3 A2 A2). fold Q2.
    rewrite (mmul_assoc n n n n Q3 Q2 A2). fold Q3.
    unfold mcomb. unfold madd at 1. apply mk_ext. intros i j Hi Hj.
    cbn [vsum nth tget].
    repeat (rewrite mget_madd by assumption). repeat (rewrite mget_mscale by assumption).
    rewrite mget_canon by assumption. ring.
  Qed.
  Theorem pade13_is_generic n (b : list F) (A : mat) :
    pade13_V n b A = pade_V n 13 b A /\ pade13_U n b A = pade_U n 13 b A.
  Proof.
    unfold pade_V, pade_U. change (half 13) with 7%nat.
    cbn [Nat.sub evens odds seq map Nat.mul Nat.add].
    rewrite !grouped13. split; reflexivity.
  Qed.
End Pade13.


(* the order-3 source table satisfies the side condition of leg_blocks3_is_generic *)
Example src_legendre_3_entry_1_3 : @mget Qc _ (map (map qc) src_legendre_3) 1 3 = Q2Qc 0.
Proof. apply Qc_is_canon. reflexivity. Qed.
(* a scale s with s^2 = 1/2^num exists over Qc whenever num is even, e.g. num = 2, s = 1/2 *)
Example exp_gram_scaling_hypothesis_satisfiable :
  ((Q2Qc (1#2)) * (Q2Qc (1#2)) = finv (fpow (1 + 1) 2))%F.
Proof. apply Qc_is_canon. reflexivity. Qed.
