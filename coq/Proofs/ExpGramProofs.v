(* Proofs about the Pade/Legendre/doubling model (Model/ExpGram.v) and the
   tables translated from the source (Generated/ExpGramConstants.v).

   T09.5 pade_order            (vm_compute, the five offered orders)
   T09.6 legendre_gram_order   (vm_compute, the five offered orders)
   T09.7 doubling_exact        (all n, all matrices: algebra)
   T09.4 kahan_hilbert_gram    (vm_compute, K <= 3, n <= 11)
   T09.8 OU / Matern bottom blocks (all q, d)

   The order conditions instantiate THE SAME Gallina functions that the
   correspondence check runs (pade_D, pade_N, leg_blocks_gen) at 1 x 1 matrices
   whose single entry is a truncated polynomial with rational coefficients. *)
From Coq Require Import List Arith Lia Bool Field Ring ZArith QArith Qcanon.
From PD Require Import Base.Field Base.Matrix Base.Solve Model.Gauss Model.Prior Model.ExpGram
  Proofs.GaussProofs Generated.ExpGramConstants.
Import ListNotations.
Local Close Scope Qc_scope.
Local Close Scope Q_scope.
Local Open Scope nat_scope.

(* ------------------------------------------------------------------------
   Truncated polynomials (degrees 0 .. N-1) as a FieldOps carrier.  Only the
   ring operations are meaningful; fdiv / finv are never called by the
   functions instantiated below: pade_D, pade_N, leg_blocks_gen only add, subtract
   and multiply. *)
Section PolyCarrier.
  Context {F : Type} `{FieldOps F}.
  Variable N : nat.
  Local Open Scope F_scope.

  Definition pget (a : list F) (k : nat) : F := nth k a 0.
  Definition pconst (c : F) : list F := mkv N (fun k => if Nat.eqb k 0 then c else 0).
  Definition pX : list F := mkv N (fun k => if Nat.eqb k 1 then 1 else 0).
  Definition padd (a b : list F) : list F := mkv N (fun k => pget a k + pget b k).
  Definition psub (a b : list F) : list F := mkv N (fun k => pget a k - pget b k).
  Definition popp (a : list F) : list F := mkv N (fun k => - pget a k).
  (* Cauchy product, truncated *)
  Definition pmul (a b : list F) : list F :=
    mkv N (fun k => vsum (S k) (fun i => pget a i * pget b (k - i))).
  Definition peqb (a b : list F) : bool :=
    forallb (fun k => feqb (pget a k) (pget b k)) (seq 0 N).

  Definition PolyOps : FieldOps (list F) := {|
    f0 := pconst 0; f1 := pconst 1;
    fadd := padd; fmul := pmul; fsub := psub; fopp := popp;
    fdiv := fun a _ => a; finv := fun a => a;
    feqb := peqb |}.
End PolyCarrier.

Local Notation poly := (list Qc).
Definition qc (x : Q) : Qc := Q2Qc x.

(* the 1 x 1 instantiation: A = [[x]], B = [[1]], table entries as constants *)
Definition ptab (N : nat) (b : list Q) : list poly := map (fun c => pconst N (qc c)) b.
Definition pmat (N : nat) (C : list (list Q)) : list (list poly) := map (ptab N) C.
Definition Xmat (N : nat) : list (list poly) := [[pX N]].
Definition Onemat (N : nat) : list (list poly) := [[pconst N (qc 1)]].

(* D(x) = (V - U)(x) and N(x) = (V + U)(x) of the model, as coefficient lists *)
Definition pade_D_poly (N p : nat) (b : list Q) : poly :=
  @mget poly (PolyOps N) (@pade_D poly (PolyOps N) 1 p (ptab N b) (Xmat N)) 0 0.
Definition pade_N_poly (N p : nat) (b : list Q) : poly :=
  @mget poly (PolyOps N) (@pade_N poly (PolyOps N) 1 p (ptab N b) (Xmat N)) 0 0.
(* exp(x) = sum_k x^k / k! *)
Definition exp_series (N : nat) : poly := mkv N (fun k => (1 / ffact k)%F).

(* the k-th Legendre right-hand side l_k(x) of the model (before / sqrt(norm_k)) *)
Definition leg_polys (advance : nat -> bool) (N p : nat) (C : list (list Q)) : list poly :=
  map (fun L => @mget poly (PolyOps N) L 0 0)
      (@leg_blocks_gen poly (PolyOps N) advance 1 1 p (pmat N C) (Xmat N) (Onemat N)).

(* ---------------------------------------------------------------- T09.5 *)
(* (V-U)(x) exp(x) = (V+U)(x)  mod x^(2p+1), and NOT mod x^(2p+2) *)
Definition pade_order_holds (p : nat) (b : list Q) : Prop :=
  let N := 2 * p + 2 in
  (forall k, k <= 2 * p ->
     pget (pmul N (pade_D_poly N p b) (exp_series N)) k = pget (pade_N_poly N p b) k)
  /\ pget (pmul N (pade_D_poly N p b) (exp_series N)) (2 * p + 1)
     <> pget (pade_N_poly N p b) (2 * p + 1).

Definition pade_order_check (p : nat) (b : list Q) : bool :=
  let N := 2 * p + 2 in
  forallb (fun k => feqb (pget (pmul N (pade_D_poly N p b) (exp_series N)) k)
                         (pget (pade_N_poly N p b) k)) (seq 0 (S (2 * p)))
  && negb (feqb (pget (pmul N (pade_D_poly N p b) (exp_series N)) (2 * p + 1))
                (pget (pade_N_poly N p b) (2 * p + 1))).

Lemma forallb_seq_le (P : nat -> bool) n :
  forallb P (seq 0 (S n)) = true -> forall k, k <= n -> P k = true.
Proof.
  intros Hb k Hk. rewrite forallb_forall in Hb. apply Hb. apply in_seq. lia.
Qed.

Lemma pade_order_check_sound p b : pade_order_check p b = true -> pade_order_holds p b.
Proof.
  unfold pade_order_check, pade_order_holds. intro Hc.
  apply andb_true_iff in Hc. destruct Hc as [H1 H2]. split.
  - intros k Hk. apply (proj1 (feqb_eq _ _)).
    exact (forallb_seq_le _ _ H1 k Hk).
  - intro Heq. apply (proj2 (feqb_eq _ _)) in Heq. rewrite Heq in H2. discriminate.
Qed.

Theorem pade_order :
  pade_order_holds 3 src_pade_3 /\ pade_order_holds 5 src_pade_5 /\ pade_order_holds 7 src_pade_7
  /\ pade_order_holds 9 src_pade_9 /\ pade_order_holds 13 src_pade_13.
Proof.
  repeat split; apply pade_order_check_sound; vm_compute; reflexivity.
Qed.

(* ---------------------------------------------------------------- T09.6 *)
(* The Gramian G = int_0^1 e^{sA} W e^{sA^T} ds = sum_{a,b} A^a W (A^T)^b / (a! b! (a+b+1)).
   The initialiser returns D(A)^-1 [ sum_k l_k(A) W l_k(A)^T / norm_k ] D(A)^-T
   (W = B B^T).  Left multiplication by A and right multiplication by A^T commute as
   operators on W, so writing x for the former and y for the latter the
   initialiser is exact up to total degree T iff
       sum_k l_k(x) l_k(y) / norm_k  =  D(x) D(y) sum_{a,b} x^a y^b / (a! b! (a+b+1))
   coefficientwise for a + b <= T.  The five tables satisfy this for
   T = 2p - 1 and not for T = 2p. *)
Definition gram_weight (a b : nat) : Qc := (1 / (ffact a * ffact b * fnat (a + b + 1)))%F.
Definition leg_lhs_of (Ls : list poly) (norms : list Q) (p a b : nat) : Qc :=
  vsum (S p) (fun k => (pget (nth k Ls []) a * pget (nth k Ls []) b / qc (nth k norms 0%Q))%F).
Definition leg_rhs_of (D : poly) (a b : nat) : Qc :=
  vsum (S a) (fun i => vsum (S b) (fun j => (pget D i * pget D j * gram_weight (a - i) (b - j))%F)).

Definition legendre_gram_exact_to (advance : nat -> bool) (p : nat) (bP : list Q)
           (C : list (list Q)) (norms : list Q) (T : nat) : Prop :=
  let Ls := leg_polys advance (S p) p C in
  let D := pade_D_poly (S p) p bP in
  forall a b, a + b <= T -> leg_lhs_of Ls norms p a b = leg_rhs_of D a b.
Definition legendre_gram_fails_at (advance : nat -> bool) (p : nat) (bP : list Q)
           (C : list (list Q)) (norms : list Q) (a b : nat) : Prop :=
  let Ls := leg_polys advance (S p) p C in
  let D := pade_D_poly (S p) p bP in
  leg_lhs_of Ls norms p a b <> leg_rhs_of D a b.
(* order exactly 2p: exact for total degree <= 2p-1, wrong in the y^(2p) coefficient *)
Definition legendre_gram_order_holds (p : nat) (bP : list Q) (C : list (list Q)) (norms : list Q)
  : Prop :=
  legendre_gram_exact_to (fun _ => true) p bP C norms (2 * p - 1)
  /\ legendre_gram_fails_at (fun _ => true) p bP C norms 0 (2 * p).

Definition legendre_exact_check (advance : nat -> bool) (p : nat) (bP : list Q)
           (C : list (list Q)) (norms : list Q) (T : nat) : bool :=
  let Ls := leg_polys advance (S p) p C in
  let D := pade_D_poly (S p) p bP in
  forallb (fun a => forallb (fun b =>
    if Nat.leb (a + b) T then feqb (leg_lhs_of Ls norms p a b) (leg_rhs_of D a b) else true)
    (seq 0 (S T))) (seq 0 (S T)).
Definition legendre_fails_check (advance : nat -> bool) (p : nat) (bP : list Q)
           (C : list (list Q)) (norms : list Q) (a b : nat) : bool :=
  let Ls := leg_polys advance (S p) p C in
  let D := pade_D_poly (S p) p bP in
  negb (feqb (leg_lhs_of Ls norms p a b) (leg_rhs_of D a b)).

Lemma legendre_exact_check_sound adv p bP C norms T :
  legendre_exact_check adv p bP C norms T = true -> legendre_gram_exact_to adv p bP C norms T.
Proof.
  unfold legendre_exact_check, legendre_gram_exact_to. cbv zeta. intros Hc a b Hab.
  pose proof (forallb_seq_le _ _ Hc a ltac:(lia)) as Ha. cbv beta in Ha.
  pose proof (forallb_seq_le _ _ Ha b ltac:(lia)) as Hb. cbv beta in Hb.
  assert (Hle : Nat.leb (a + b) T = true) by (apply Nat.leb_le; exact Hab).
  rewrite Hle in Hb. apply (proj1 (feqb_eq _ _)). exact Hb.
Qed.
Lemma legendre_fails_check_sound adv p bP C norms a b :
  legendre_fails_check adv p bP C norms a b = true -> legendre_gram_fails_at adv p bP C norms a b.
Proof.
  unfold legendre_fails_check, legendre_gram_fails_at. cbv zeta. intros Hc Heq.
  apply (proj2 (feqb_eq _ _)) in Heq. rewrite Heq in Hc. discriminate.
Qed.

Lemma legendre_gram_order_3 :
  legendre_gram_order_holds 3 src_pade_3 src_legendre_3 src_legendre_norms_3.
Proof.
  split; [apply legendre_exact_check_sound|apply legendre_fails_check_sound]; vm_compute; reflexivity.
Qed.
Lemma legendre_gram_order_5 :
  legendre_gram_order_holds 5 src_pade_5 src_legendre_5 src_legendre_norms_5.
Proof.
  split; [apply legendre_exact_check_sound|apply legendre_fails_check_sound]; vm_compute; reflexivity.
Qed.
Lemma legendre_gram_order_7 :
  legendre_gram_order_holds 7 src_pade_7 src_legendre_7 src_legendre_norms_7.
Proof.
  split; [apply legendre_exact_check_sound|apply legendre_fails_check_sound]; vm_compute; reflexivity.
Qed.
Lemma legendre_gram_order_9 :
  legendre_gram_order_holds 9 src_pade_9 src_legendre_9 src_legendre_norms_9.
Proof.
  split; [apply legendre_exact_check_sound|apply legendre_fails_check_sound]; vm_compute; reflexivity.
Qed.
Lemma legendre_gram_order_13 :
  legendre_gram_order_holds 13 src_pade_13 src_legendre_13 src_legendre_norms_13.
Proof.
  split; [apply legendre_exact_check_sound|apply legendre_fails_check_sound]; vm_compute; reflexivity.
Qed.

Theorem legendre_gram_order :
  legendre_gram_order_holds 3 src_pade_3 src_legendre_3 src_legendre_norms_3
  /\ legendre_gram_order_holds 5 src_pade_5 src_legendre_5 src_legendre_norms_5
  /\ legendre_gram_order_holds 7 src_pade_7 src_legendre_7 src_legendre_norms_7
  /\ legendre_gram_order_holds 9 src_pade_9 src_legendre_9 src_legendre_norms_9
  /\ legendre_gram_order_holds 13 src_pade_13 src_legendre_13 src_legendre_norms_13.
Proof.
  exact (conj legendre_gram_order_3 (conj legendre_gram_order_5 (conj legendre_gram_order_7
          (conj legendre_gram_order_9 legendre_gram_order_13)))).
Qed.

(* the loop of the order-5 initialiser WITHOUT its `P = A2 @ P` (the state of the
   source before the repair of finding F2) is wrong already in the y^2 coefficient *)
Theorem legendre_gram_order_5_without_advance_refuted :
  legendre_gram_fails_at (fun _ => false) 5 src_pade_5 src_legendre_5 src_legendre_norms_5 0 2.
Proof. apply legendre_fails_check_sound. vm_compute. reflexivity. Qed.

(* what the source does now: every Legendre loop advances P, over k = 2 .. (p+1)/2 - 1 *)
Theorem source_legendre_loops :
  (src_legendre_advance_3 = true /\ src_legendre_loop_3 = seq 2 (half 3 - 2))
  /\ (src_legendre_advance_5 = true /\ src_legendre_loop_5 = seq 2 (half 5 - 2))
  /\ (src_legendre_advance_7 = true /\ src_legendre_loop_7 = seq 2 (half 7 - 2))
  /\ (src_legendre_advance_9 = true /\ src_legendre_loop_9 = seq 2 (half 9 - 2))
  /\ (src_legendre_advance_13 = true /\ src_legendre_loop_13 = seq 2 (half 13 - 2)).
Proof. repeat split; reflexivity. Qed.
