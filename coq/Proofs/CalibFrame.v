(* T04.6: quasi-MLE calibration does not touch the posterior DURING the run.
   One step of the MLE-calibrating solver produces the same time, marginal,
   posterior (incl. backward model), step counter and cached linearisation as
   one step of the uncalibrated solver from the same state; only the running
   scale and the data counter differ.  By induction the same holds on every
   fixed grid: the MLE run IS the unit-scale run, its covariances are rescaled
   once, at the end (CalibProofs.v). Any factorisation, strategy, order. *)
From Coq Require Import List Arith Lia Bool.
From PD Require Import Base.Field Base.Matrix Base.Solve Model.Gauss Model.Poly Model.Prior Model.Solver.
Import ListNotations.

Section CalibFrame.
  Context {F : Type} `{FO : FieldOps F}.
  Variable inv : nat -> @mat F -> option (@mat F).

  Definition same_posterior (a b : @sstate F) : Prop :=
    st_t a = st_t b /\ st_u a = st_u b /\ st_post a = st_post b /\
    st_nsteps a = st_nsteps b /\ st_fx a = st_fx b.

  Definition cfg_with (cf : @config F) (c : calib) : @config F :=
    mkCfg (cf_shape cf) (cf_strat cf) c (cf_lin cf) (cf_ode cf) (cf_base2 cf) (cf_damp2 cf).

  Theorem mle_step_same_posterior (cf : @config F) (corr : bool) (stM stN : @sstate F) (dt : F) :
    st_t stM = st_t stN -> st_post stM = st_post stN -> st_nsteps stM = st_nsteps stN ->
    forall stM', solver_step inv (cfg_with cf (CalMLE corr)) stM dt = Some stM' ->
    exists stN', solver_step inv (cfg_with cf CalNone) stN dt = Some stN' /\
                 same_posterior stM' stN' /\
                 st_out2 stM' = st_out2 stM /\ st_ndata stM' = S (st_ndata stM).
  Proof.
    intros Ht Hp Hn stM' HM.
    unfold solver_step, cfg_with in *;
      cbn [cf_calib cf_shape cf_strat cf_base2 cf_ode cf_lin cf_damp2] in *.
    rewrite <- Hp, <- Ht.
    destruct (predict inv (cf_shape cf) (cf_strat cf) (st_post stM)
                      (transition (cf_shape cf) (cf_base2 cf) dt (ones (cf_shape cf)))) as [pred|]; [|discriminate].
    destruct (correct inv (cf_shape cf)
                      (linearize (cf_shape cf) (cf_ode cf) (cf_lin cf) (cf_damp2 cf) (p_marg pred) (fadd (st_t stM) dt))
                      (p_marg pred)) as [[obs upd]|]; [|discriminate].
    destruct (rms2 inv (cf_shape cf) obs) as [new2|]; [|discriminate].
    inversion HM; subst. eexists. split; [reflexivity|].
    unfold same_posterior. cbn [st_t st_u st_post st_nsteps st_fx st_out2 st_ndata].
    rewrite Hn. repeat split; reflexivity.
  Qed.

  (* the whole grid *)
  Theorem mle_grid_same_posteriors (cf : @config F) (corr : bool) (dts : list F) :
    forall (stM stN : @sstate F),
      st_t stM = st_t stN -> st_post stM = st_post stN -> st_nsteps stM = st_nsteps stN ->
      forall lM, fixed_grid_states inv (cfg_with cf (CalMLE corr)) stM dts = Some lM ->
      exists lN, fixed_grid_states inv (cfg_with cf CalNone) stN dts = Some lN /\
                 Forall2 same_posterior lM lN.
  Proof.
    induction dts as [|dt r IH]; intros stM stN Ht Hp Hn lM HM.
    - cbn [fixed_grid_states] in *. inversion HM; subst. exists []. split; [reflexivity|constructor].
    - cbn [fixed_grid_states] in HM |- *.
      destruct (solver_step inv (cfg_with cf (CalMLE corr)) stM dt) as [stM'|] eqn:HsM; [|discriminate].
      destruct (mle_step_same_posterior cf corr stM stN dt Ht Hp Hn stM' HsM) as [stN' [HsN [Hsame _]]].
      rewrite HsN.
      destruct (fixed_grid_states inv (cfg_with cf (CalMLE corr)) stM' r) as [lM'|] eqn:HrM; [|discriminate].
      inversion HM; subst.
      destruct Hsame as [A [B [C [D E]]]].
      destruct (IH stM' stN' A C D lM' HrM) as [lN' [HrN HF]].
      rewrite HrN. eexists. split; [reflexivity|].
      constructor; [repeat split; assumption | exact HF].
  Qed.
End CalibFrame.
