(* Proofs for C17 (Model/Jacobians.v): the sign-vector orthogonality identity
   and exact unbiasedness of the Hutchinson-type trace / diagonal estimators
   under full enumeration of the Rademacher probes; validator characterisation.
   Nothing is bounded: N, n_in, n_out, d and the Jacobian tensor are arbitrary. *)
From Coq Require Import List Arith Lia Bool ZArith Permutation QArith Qcanon Field Ring.
From PD Require Import Base.Field Base.Matrix Model.Jacobians.
Import ListNotations.
Local Close Scope Qc_scope.
Local Close Scope Q_scope.
Local Open Scope nat_scope.

Section JacProofs.
  Context {F : Type} `{FL : FieldLaws F}.
  Local Open Scope F_scope.
  Add Field FFJ : fth.

  (* ------------------------------------------------- naturals in the field *)
  Lemma fpos_succ p : fpos (Pos.succ p) = 1 + fpos p.
  Proof. induction p as [p IH|p IH|]; simpl; [rewrite IH; ring|ring|ring]. Qed.

  Lemma fnat_0 : fnat 0 = (0 : F).
  Proof. reflexivity. Qed.

  Lemma fnat_S n : fnat (S n) = 1 + fnat n.
  Proof.
    destruct n as [|n].
    - unfold fnat; simpl. ring.
    - unfold fnat. change (Z.of_nat (S (S n))) with (Zpos (Pos.succ (Pos.of_succ_nat n))).
      change (Z.of_nat (S n)) with (Zpos (Pos.of_succ_nat n)). simpl fZ.
      apply fpos_succ.
  Qed.

  Lemma fnat_add n m : fnat (n + m) = fnat n + fnat m.
  Proof.
    induction n as [|n IH].
    - rewrite fnat_0. simpl. ring.
    - change (S n + m)%nat with (S (n + m)). rewrite !fnat_S, IH. ring.
  Qed.

  Lemma fnat_nonzero n : n <> 0%nat -> fnat n <> (0 : F).
  Proof.
    destruct n as [|n]; intro Hn; [congruence|].
    unfold fnat. change (Z.of_nat (S n)) with (Zpos (Pos.of_succ_nat n)). simpl fZ.
    apply char0.
  Qed.

  Lemma pow2_nonzero N : (2 ^ N <> 0)%nat.
  Proof. apply Nat.pow_nonzero. discriminate. Qed.

  (* ------------------------------------------------------------ list sums *)
  Lemma lsum_app (l1 l2 : list F) : lsum (l1 ++ l2) = lsum l1 + lsum l2.
  Proof. induction l1 as [|x l1 IH]; simpl; [ring|]. rewrite IH. ring. Qed.

  Lemma lsum_map_ext {A} (g h : A -> F) l :
    (forall s, In s l -> g s = h s) -> lsum (map g l) = lsum (map h l).
  Proof. intro E. f_equal. apply map_ext_in. exact E. Qed.

  Lemma lsum_map_add {A} (g h : A -> F) l :
    lsum (map (fun s => g s + h s) l) = lsum (map g l) + lsum (map h l).
  Proof. induction l as [|x l IH]; simpl; [ring|]. rewrite IH. ring. Qed.

  Lemma lsum_map_scale_l {A} c (g : A -> F) l :
    lsum (map (fun s => c * g s) l) = c * lsum (map g l).
  Proof. induction l as [|x l IH]; simpl; [ring|]. rewrite IH. ring. Qed.

  Lemma lsum_map_const {A} c (l : list A) :
    lsum (map (fun _ => c) l) = fnat (length l) * c.
  Proof.
    induction l as [|x l IH].
    - simpl. rewrite fnat_0. ring.
    - simpl length. rewrite fnat_S. simpl. rewrite IH. ring.
  Qed.

  Lemma lsum_map_zero {A} (l : list A) : lsum (map (fun _ => 0) l) = (0 : F).
  Proof. rewrite lsum_map_const. ring. Qed.

  (* Fubini: list sum of index sums *)
  Lemma lsum_map_vsum {A} n (g : A -> nat -> F) l :
    lsum (map (fun s => vsum n (g s)) l) = vsum n (fun k => lsum (map (fun s => g s k) l)).
  Proof.
    induction n as [|n IH]; simpl.
    - apply lsum_map_zero.
    - rewrite lsum_map_add, IH. reflexivity.
  Qed.

  Lemma lsum_perm (l1 l2 : list F) : Permutation l1 l2 -> lsum l1 = lsum l2.
  Proof.
    induction 1 as [|x l l' _ IH|x y l|l l' l'' _ IH1 _ IH2]; simpl.
    - reflexivity.
    - rewrite IH. reflexivity.
    - ring.
    - rewrite IH1. exact IH2.
  Qed.

  Lemma mean_list_perm {A} (g : A -> F) l1 l2 :
    Permutation l1 l2 -> mean_list (map g l1) = mean_list (map g l2).
  Proof.
    intro P. unfold mean_list.
    rewrite (lsum_perm _ _ (Permutation_map g P)).
    rewrite !map_length, (Permutation_length P). reflexivity.
  Qed.

  (* --------------------------------------------------------- sign vectors *)
  Lemma signs_length N : length (@signs F _ N) = (2 ^ N)%nat.
  Proof.
    induction N as [|N IH]; [reflexivity|].
    simpl signs. rewrite app_length, !map_length, IH. simpl. lia.
  Qed.

  Lemma signs_entry_length N s : In s (@signs F _ N) -> length s = N.
  Proof.
    revert s. induction N as [|N IH]; intros s Hs; simpl in Hs.
    - destruct Hs as [<-|[]]. reflexivity.
    - apply in_app_or in Hs. destruct Hs as [Hs|Hs]; apply in_map_iff in Hs;
        destruct Hs as [t [<- Ht]]; simpl; f_equal; apply IH; exact Ht.
  Qed.

  Lemma signs_entry_pm1 N s i :
    In s (@signs F _ N) -> (i < N)%nat -> vget s i = 1 \/ vget s i = - (1).
  Proof.
    revert s i. induction N as [|N IH]; intros s i Hs Hi; [lia|]. simpl in Hs.
    apply in_app_or in Hs. destruct Hs as [Hs|Hs]; apply in_map_iff in Hs;
      destruct Hs as [t [<- Ht]]; destruct i as [|i]; unfold vget; simpl;
      try (now left); try (now right); apply (IH t i Ht); lia.
  Qed.

  Lemma one_neq_minus_one : (1 : F) <> - (1).
  Proof.
    intro E. apply (char0 2%positive). simpl.
    replace ((1 + 1) * 1) with (1 - - (1)) by ring. rewrite <- E. ring.
  Qed.

  (* [signs N] is exactly {+1,-1}^N: complete and without repetition *)
  Lemma signs_complete N : forall s, length s = N ->
    (forall i, (i < N)%nat -> vget s i = 1 \/ vget s i = - (1)) -> In s (signs N).
  Proof.
    induction N as [|N IH]; intros s Hl Hs.
    - destruct s; [left; reflexivity|discriminate].
    - destruct s as [|x t]; [discriminate|]. simpl in Hl. injection Hl as Hl.
      assert (Ht : In t (signs N)).
      { apply IH; [exact Hl|]. intros i Hi. apply (Hs (S i)). lia. }
      simpl. apply in_or_app.
      destruct (Hs 0%nat ltac:(lia)) as [E|E]; unfold vget in E; simpl in E; subst x.
      + left. apply in_map. exact Ht.
      + right. apply in_map. exact Ht.
  Qed.

  Lemma NoDup_app_intro {A} (l1 l2 : list A) :
    NoDup l1 -> NoDup l2 -> (forall x, In x l1 -> ~ In x l2) -> NoDup (l1 ++ l2).
  Proof.
    induction l1 as [|x l1 IH]; intros N1 N2 Hd; simpl; [exact N2|].
    inversion N1 as [|? ? Hx N1']; subst. constructor.
    - intro Hin. apply in_app_or in Hin. destruct Hin as [Hin|Hin]; [contradiction|].
      apply (Hd x); [left; reflexivity|exact Hin].
    - apply IH; [exact N1'|exact N2|]. intros y Hy. apply Hd. right. exact Hy.
  Qed.

  Lemma signs_nodup N : NoDup (@signs F _ N).
  Proof.
    induction N as [|N IH]; simpl.
    - constructor; [intros []|constructor].
    - apply NoDup_app_intro.
      + apply FinFun.Injective_map_NoDup; [|exact IH]. intros x y E. injection E. auto.
      + apply FinFun.Injective_map_NoDup; [|exact IH]. intros x y E. injection E. auto.
      + intros x Hx Hy. apply in_map_iff in Hx. apply in_map_iff in Hy.
        destruct Hx as [t [<- _]]. destruct Hy as [u [E _]]. injection E as E1 _.
        apply one_neq_minus_one. symmetry. exact E1.
  Qed.

  Lemma lsum_signs_S N (g : list F -> F) :
    lsum (map g (signs (S N)))
    = lsum (map (fun s => g (1 :: s)) (signs N)) + lsum (map (fun s => g (- (1) :: s)) (signs N)).
  Proof. simpl signs. rewrite map_app, lsum_app, !map_map. reflexivity. Qed.

  (* T17.1  sum over all v in {+1,-1}^N of v_i * v_k = 2^N * delta_ik *)
  Theorem sign_orthogonality N : forall i k, (i < N)%nat -> (k < N)%nat ->
    lsum (map (fun s => vget s i * vget s k) (signs N)) = fnat (2 ^ N) * delta i k.
  Proof.
    induction N as [|N IH]; intros i k Hi Hk; [lia|].
    rewrite lsum_signs_S.
    assert (E2 : fnat (2 ^ S N) = fnat (2 ^ N) + fnat (2 ^ N) :> F).
    { rewrite <- fnat_add. f_equal. simpl. lia. }
    rewrite E2.
    destruct i as [|i], k as [|k]; unfold vget; simpl nth.
    - rewrite (lsum_map_ext _ (fun _ => 1)) by (intros; ring).
      rewrite (lsum_map_ext (fun _ => - (1) * - (1)) (fun _ => 1)) by (intros; ring).
      rewrite lsum_map_const, signs_length. unfold delta; simpl. ring.
    - rewrite !lsum_map_scale_l. unfold delta; simpl. ring.
    - rewrite (lsum_map_ext (fun s => nth i s 0 * 1) (fun s => 1 * nth i s 0)) by (intros; ring).
      rewrite (lsum_map_ext (fun s => nth i s 0 * - (1)) (fun s => - (1) * nth i s 0)) by (intros; ring).
      rewrite !lsum_map_scale_l. unfold delta; simpl. ring.
    - change (fun s : list F => nth i s 0 * nth k s 0) with (fun s : list F => vget s i * vget s k).
      rewrite IH by lia. unfold delta. simpl. ring.
  Qed.

  (* the same identity stated for the average (needs characteristic 0) *)
  Corollary sign_orthogonality_mean N i k : (i < N)%nat -> (k < N)%nat ->
    mean_list (map (fun s => vget s i * vget s k) (signs N)) = delta i k.
  Proof.
    intros Hi Hk. unfold mean_list. rewrite sign_orthogonality by assumption.
    rewrite map_length, signs_length. field. apply fnat_nonzero, pow2_nonzero.
  Qed.

  Lemma mean_signs N (g : list F -> F) T :
    lsum (map g (signs N)) = fnat (2 ^ N) * T -> mean_list (map g (signs N)) = T.
  Proof.
    intro E. unfold mean_list. rewrite E, map_length, signs_length.
    field. apply fnat_nonzero, pow2_nonzero.
  Qed.

  (* ------------------------------------------- 2-d index structure (i, a) *)
  Lemma flat_index_lt n d i a : (i < n)%nat -> (a < d)%nat -> (i * d + a < n * d)%nat.
  Proof. intros. nia. Qed.

  Lemma delta_pair d i a i' b : (a < d)%nat -> (b < d)%nat ->
    delta (i * d + a) (i' * d + b) = delta i i' * delta a b :> F.
  Proof.
    intros Ha Hb. unfold delta.
    destruct (Nat.eqb_spec i i') as [Ei|Ei], (Nat.eqb_spec a b) as [Ea|Ea],
      (Nat.eqb_spec (i * d + a) (i' * d + b)) as [Es|Es]; try ring; exfalso.
    - subst. lia.
    - subst. lia.
    - destruct (lt_eq_lt_dec i i') as [[L|E]|L]; [nia|contradiction|nia].
    - destruct (lt_eq_lt_dec i i') as [[L|E]|L]; [nia|contradiction|nia].
  Qed.

  (* Hutchinson's identity on an (n, d) probe: for ANY coefficients c,
     sum_s  s[i,a] * (sum_{i',b} c[i',b] * s[i',b])  =  2^(n d) * c[i,a] *)
  Lemma hutchinson_2d n d (c : nat -> nat -> F) i a : (i < n)%nat -> (a < d)%nat ->
    lsum (map (fun s => vget s (i * d + a)
                        * vsum n (fun i' => vsum d (fun b => c i' b * vget s (i' * d + b))))
              (signs (n * d)))
    = fnat (2 ^ (n * d)) * c i a.
  Proof.
    intros Hi Ha.
    rewrite (lsum_map_ext _ (fun s => vsum n (fun i' => vsum d (fun b =>
               c i' b * (vget s (i * d + a) * vget s (i' * d + b)))))).
    2:{ intros s _. rewrite <- vsum_scale_l. apply vsum_ext. intros i' _.
        rewrite <- vsum_scale_l. apply vsum_ext. intros b _. ring. }
    rewrite lsum_map_vsum.
    rewrite (vsum_ext n _ (fun i' => delta i i' * (fnat (2 ^ (n * d)) * c i' a))).
    - rewrite vsum_delta_l by exact Hi. reflexivity.
    - intros i' Hi'. rewrite lsum_map_vsum.
      rewrite (vsum_ext d _ (fun b => delta a b * (c i' b * fnat (2 ^ (n * d)) * delta i i'))).
      + rewrite vsum_delta_l by exact Ha. ring.
      + intros b Hb. rewrite lsum_map_scale_l.
        rewrite sign_orthogonality by (apply flat_index_lt; assumption).
        rewrite delta_pair by assumption. ring.
  Qed.

  (* ------------------------------------------------------ tensor plumbing *)
  Lemma mk3_ext p n m (f g : nat -> nat -> nat -> F) :
    (forall x y z, (x < p)%nat -> (y < n)%nat -> (z < m)%nat -> f x y z = g x y z) ->
    mk3 p n m f = mk3 p n m g.
  Proof.
    intro E. unfold mk3. apply map_ext_in. intros x Hx. apply in_seq in Hx.
    apply mk_ext. intros. apply E; lia.
  Qed.

  Lemma t3get_mk3 p n m (f : nat -> nat -> nat -> F) x y z :
    (x < p)%nat -> (y < n)%nat -> (z < m)%nat -> t3get (mk3 p n m f) x y z = f x y z.
  Proof.
    intros Hx Hy Hz. unfold t3get, mk3.
    rewrite nth_indep with (d' := mk n m (f 0%nat))
      by (rewrite map_length, seq_length; exact Hx).
    rewrite map_nth with (f := fun x => mk n m (f x)).
    rewrite seq_nth by exact Hx. simpl. apply mget_mk; assumption.
  Qed.

  Lemma t4get_mk4 q p n m (f : nat -> nat -> nat -> nat -> F) w x y z :
    (w < q)%nat -> (x < p)%nat -> (y < n)%nat -> (z < m)%nat ->
    t4get (mk4 q p n m f) w x y z = f w x y z.
  Proof.
    intros Hw Hx Hy Hz. unfold t4get, mk4.
    rewrite nth_indep with (d' := mk3 p n m (f 0%nat))
      by (rewrite map_length, seq_length; exact Hw).
    rewrite map_nth with (f := fun w => mk3 p n m (f w)).
    rewrite seq_nth by exact Hw. simpl. apply t3get_mk3; assumption.
  Qed.

  Lemma mget_reshape n d s i a : (i < n)%nat -> (a < d)%nat ->
    mget (reshape n d s) i a = vget s (i * d + a).
  Proof. intros. unfold reshape. rewrite mget_mk by assumption. reflexivity. Qed.

  (* ------------------------------------------------ T17.4 exact handler *)
  Lemma materialize_dense_entry n_in n_out d (J : jac) o a i b :
    (o < n_out)%nat -> (a < d)%nat -> (i < n_in)%nat -> (b < d)%nat ->
    t4get (materialize_dense n_in n_out d J) o a i b = J o a i b.
  Proof. intros. unfold materialize_dense. apply t4get_mk4; assumption. Qed.

  Lemma mat_trace_spec n_in n_out d (J : jac) :
    mat_trace n_in n_out d J = mk n_out n_in (fun o i => vsum d (fun a => J o a i a)).
  Proof.
    unfold mat_trace, trace_along_d. apply mk_ext. intros o i Ho Hi.
    apply vsum_ext. intros a Ha. apply materialize_dense_entry; assumption.
  Qed.

  Lemma mat_diagonal_spec n_in n_out d (J : jac) :
    mat_diagonal n_in n_out d J = mk3 d n_out n_in (fun a o i => J o a i a).
  Proof.
    unfold mat_diagonal, diagonal_along_d. apply mk3_ext. intros a o i Ha Ho Hi.
    apply materialize_dense_entry; assumption.
  Qed.

  Lemma mat_trace_entry n_in n_out d (J : jac) o i : (o < n_out)%nat -> (i < n_in)%nat ->
    mget (mat_trace n_in n_out d J) o i = vsum d (fun a => J o a i a).
  Proof. intros. rewrite mat_trace_spec. rewrite mget_mk by assumption. reflexivity. Qed.

  Lemma mat_diagonal_entry n_in n_out d (J : jac) a o i :
    (a < d)%nat -> (o < n_out)%nat -> (i < n_in)%nat ->
    t3get (mat_diagonal n_in n_out d J) a o i = J o a i a.
  Proof. intros. rewrite mat_diagonal_spec. rewrite t3get_mk3 by assumption. reflexivity. Qed.

  (* the trace block is the sum over dimensions of the diagonal blocks *)
  Lemma mat_trace_is_sum_of_diagonal n_in n_out d (J : jac) o i :
    (o < n_out)%nat -> (i < n_in)%nat ->
    mget (mat_trace n_in n_out d J) o i
    = vsum d (fun a => t3get (mat_diagonal n_in n_out d J) a o i).
  Proof.
    intros Ho Hi. rewrite mat_trace_entry by assumption. apply vsum_ext. intros a Ha.
    symmetry. apply mat_diagonal_entry; assumption.
  Qed.

  (* ------------------------------------ single-probe estimators, entrywise *)
  Lemma jvp_entry n_in n_out d (J : jac) s o a : (o < n_out)%nat -> (a < d)%nat ->
    mget (jvp n_in n_out d J (reshape n_in d s)) o a
    = vsum n_in (fun i => vsum d (fun b => J o a i b * vget s (i * d + b))).
  Proof.
    intros Ho Ha. unfold jvp. rewrite mget_mk by assumption.
    apply vsum_ext. intros i Hi. apply vsum_ext. intros b Hb.
    rewrite mget_reshape by assumption. reflexivity.
  Qed.

  Lemma vjp_entry n_in n_out d (J : jac) s i b : (i < n_in)%nat -> (b < d)%nat ->
    mget (vjp n_in n_out d J (reshape n_out d s)) i b
    = vsum n_out (fun o => vsum d (fun a => J o a i b * vget s (o * d + a))).
  Proof.
    intros Hi Hb. unfold vjp. rewrite mget_mk by assumption.
    apply vsum_ext. intros o Ho. apply vsum_ext. intros a Ha.
    rewrite mget_reshape by assumption. ring.
  Qed.

  Lemma fwd_diag_est_entry n_in n_out d (J : jac) s o i a :
    (o < n_out)%nat -> (i < n_in)%nat -> (a < d)%nat ->
    t3get (fwd_diag_est n_in n_out d J (reshape n_in d s)) o i a
    = vget s (i * d + a)
      * vsum n_in (fun i' => vsum d (fun b => J o a i' b * vget s (i' * d + b))).
  Proof.
    intros Ho Hi Ha. unfold fwd_diag_est. rewrite t3get_mk3 by assumption.
    rewrite jvp_entry, mget_reshape by assumption. reflexivity.
  Qed.

  Lemma fwd_trace_est_entry n_in n_out d (J : jac) s o i :
    (o < n_out)%nat -> (i < n_in)%nat ->
    mget (fwd_trace_est n_in n_out d J (reshape n_in d s)) o i
    = vsum d (fun a => vget s (i * d + a)
        * vsum n_in (fun i' => vsum d (fun b => J o a i' b * vget s (i' * d + b)))).
  Proof.
    intros Ho Hi. unfold fwd_trace_est. rewrite mget_mk by assumption.
    apply vsum_ext. intros a Ha.
    rewrite jvp_entry, mget_reshape by assumption. reflexivity.
  Qed.

  Lemma rev_diag_est_entry n_in n_out d (J : jac) s o i a :
    (o < n_out)%nat -> (i < n_in)%nat -> (a < d)%nat ->
    t3get (rev_diag_est n_in n_out d J (reshape n_out d s)) o i a
    = vget s (o * d + a)
      * vsum n_out (fun o' => vsum d (fun a' => J o' a' i a * vget s (o' * d + a'))).
  Proof.
    intros Ho Hi Ha. unfold rev_diag_est. rewrite t3get_mk3 by assumption.
    rewrite vjp_entry, mget_reshape by assumption. ring.
  Qed.

  Lemma rev_trace_est_entry n_in n_out d (J : jac) s o i :
    (o < n_out)%nat -> (i < n_in)%nat ->
    mget (rev_trace_est n_in n_out d J (reshape n_out d s)) o i
    = vsum d (fun a => vget s (o * d + a)
        * vsum n_out (fun o' => vsum d (fun a' => J o' a' i a * vget s (o' * d + a')))).
  Proof.
    intros Ho Hi. unfold rev_trace_est. rewrite mget_mk by assumption.
    apply vsum_ext. intros a Ha.
    rewrite vjp_entry, mget_reshape by assumption. ring.
  Qed.

  (* ---------------------- T17.2/3 full enumeration gives the exact blocks *)
  Theorem mc_fwd_trace_all_probes n_in n_out d (J : jac) :
    mc_fwd_trace n_in n_out d J (all_probes n_in d) = mat_trace n_in n_out d J.
  Proof.
    rewrite mat_trace_spec. unfold mc_fwd_trace, mean_mats, all_probes.
    apply mk_ext. intros o i Ho Hi. rewrite !map_map.
    apply mean_signs.
    rewrite (lsum_map_ext _ _ _ (fun s _ => fwd_trace_est_entry n_in n_out d J s o i Ho Hi)).
    rewrite lsum_map_vsum. rewrite <- vsum_scale_l. apply vsum_ext. intros a Ha.
    apply (hutchinson_2d n_in d (J o a) i a Hi Ha).
  Qed.

  Theorem mc_fwd_diag_all_probes n_in n_out d (J : jac) :
    mc_fwd_diag n_in n_out d J (all_probes n_in d) = mat_diagonal n_in n_out d J.
  Proof.
    rewrite mat_diagonal_spec. unfold mc_fwd_diag, transpose_201, mean_t3, all_probes.
    apply mk3_ext. intros a o i Ha Ho Hi. rewrite t3get_mk3 by assumption.
    rewrite !map_map. apply mean_signs.
    rewrite (lsum_map_ext _ _ _ (fun s _ => fwd_diag_est_entry n_in n_out d J s o i a Ho Hi Ha)).
    apply (hutchinson_2d n_in d (J o a) i a Hi Ha).
  Qed.

  Theorem mc_rev_trace_all_probes n_in n_out d (J : jac) :
    mc_rev_trace n_in n_out d J (all_probes n_out d) = mat_trace n_in n_out d J.
  Proof.
    rewrite mat_trace_spec. unfold mc_rev_trace, mean_mats, all_probes.
    apply mk_ext. intros o i Ho Hi. rewrite !map_map.
    apply mean_signs.
    rewrite (lsum_map_ext _ _ _ (fun s _ => rev_trace_est_entry n_in n_out d J s o i Ho Hi)).
    rewrite lsum_map_vsum. rewrite <- vsum_scale_l. apply vsum_ext. intros a Ha.
    apply (hutchinson_2d n_out d (fun o' a' => J o' a' i a) o a Ho Ha).
  Qed.

  Theorem mc_rev_diag_all_probes n_in n_out d (J : jac) :
    mc_rev_diag n_in n_out d J (all_probes n_out d) = mat_diagonal n_in n_out d J.
  Proof.
    rewrite mat_diagonal_spec. unfold mc_rev_diag, transpose_201, mean_t3, all_probes.
    apply mk3_ext. intros a o i Ha Ho Hi. rewrite t3get_mk3 by assumption.
    rewrite !map_map. apply mean_signs.
    rewrite (lsum_map_ext _ _ _ (fun s _ => rev_diag_est_entry n_in n_out d J s o i a Ho Hi Ha)).
    apply (hutchinson_2d n_out d (fun o' a' => J o' a' i a) o a Ho Ha).
  Qed.

  (* the averages do not depend on the order in which the probes are drawn *)
  Lemma mc_fwd_trace_perm n_in n_out d (J : jac) Vs Ws :
    Permutation Vs Ws -> mc_fwd_trace n_in n_out d J Vs = mc_fwd_trace n_in n_out d J Ws.
  Proof.
    intro P. unfold mc_fwd_trace, mean_mats. apply mk_ext. intros o i _ _.
    rewrite !map_map. apply mean_list_perm. exact P.
  Qed.
  Lemma mc_rev_trace_perm n_in n_out d (J : jac) Vs Ws :
    Permutation Vs Ws -> mc_rev_trace n_in n_out d J Vs = mc_rev_trace n_in n_out d J Ws.
  Proof.
    intro P. unfold mc_rev_trace, mean_mats. apply mk_ext. intros o i _ _.
    rewrite !map_map. apply mean_list_perm. exact P.
  Qed.
  Lemma mc_fwd_diag_perm n_in n_out d (J : jac) Vs Ws :
    Permutation Vs Ws -> mc_fwd_diag n_in n_out d J Vs = mc_fwd_diag n_in n_out d J Ws.
  Proof.
    intro P. unfold mc_fwd_diag, transpose_201, mean_t3. apply mk3_ext.
    intros a o i Ha Ho Hi. rewrite !t3get_mk3 by assumption.
    rewrite !map_map. apply mean_list_perm. exact P.
  Qed.
  Lemma mc_rev_diag_perm n_in n_out d (J : jac) Vs Ws :
    Permutation Vs Ws -> mc_rev_diag n_in n_out d J Vs = mc_rev_diag n_in n_out d J Ws.
  Proof.
    intro P. unfold mc_rev_diag, transpose_201, mean_t3. apply mk3_ext.
    intros a o i Ha Ho Hi. rewrite !t3get_mk3 by assumption.
    rewrite !map_map. apply mean_list_perm. exact P.
  Qed.

  (* -------------------------------------------------- handler-level forms:
     any key type, any split, any probe generator that returns every sign
     tensor exactly once (in any order) for the requested shape *)
  Section Calls.
    Variable K : Type.
    Variable split : K -> K * K.
    Variable rademacher : K -> nat -> nat -> nat -> list (@mat F).

    Theorem mc_fwd_calls_exact num n_in n_out d fx (J : jac) key :
      Permutation (rademacher (snd (split key)) num n_in d) (all_probes n_in d) ->
      mc_fwd_trace_call K split rademacher num n_in n_out d fx J key
        = (fx, mat_trace n_in n_out d J, fst (split key)) /\
      mc_fwd_diag_call K split rademacher num n_in n_out d fx J key
        = (fx, mat_diagonal n_in n_out d J, fst (split key)).
    Proof.
      intro P. unfold mc_fwd_trace_call, mc_fwd_diag_call. cbv zeta.
      rewrite (mc_fwd_trace_perm _ _ _ _ _ _ P), (mc_fwd_diag_perm _ _ _ _ _ _ P).
      rewrite mc_fwd_trace_all_probes, mc_fwd_diag_all_probes. split; reflexivity.
    Qed.

    Theorem mc_rev_calls_exact num n_in n_out d fx (J : jac) key :
      Permutation (rademacher (snd (split key)) num n_out d) (all_probes n_out d) ->
      mc_rev_trace_call K split rademacher num n_in n_out d fx J key
        = (fx, mat_trace n_in n_out d J, fst (split key)) /\
      mc_rev_diag_call K split rademacher num n_in n_out d fx J key
        = (fx, mat_diagonal n_in n_out d J, fst (split key)).
    Proof.
      intro P. unfold mc_rev_trace_call, mc_rev_diag_call. cbv zeta.
      rewrite (mc_rev_trace_perm _ _ _ _ _ _ P), (mc_rev_diag_perm _ _ _ _ _ _ P).
      rewrite mc_rev_trace_all_probes, mc_rev_diag_all_probes. split; reflexivity.
    Qed.

    (* function value and key: for ANY probes the value is passed through and
       the returned key is the first half of split(key), never the old key
       provided split never returns its argument *)
    Theorem mc_calls_value_and_key num n_in n_out d fx (J : jac) key :
      let r1 := mc_fwd_trace_call K split rademacher num n_in n_out d fx J key in
      let r2 := mc_fwd_diag_call K split rademacher num n_in n_out d fx J key in
      let r3 := mc_rev_trace_call K split rademacher num n_in n_out d fx J key in
      let r4 := mc_rev_diag_call K split rademacher num n_in n_out d fx J key in
      (fst (fst r1) = fx /\ fst (fst r2) = fx /\ fst (fst r3) = fx /\ fst (fst r4) = fx) /\
      (snd r1 = fst (split key) /\ snd r2 = fst (split key) /\
       snd r3 = fst (split key) /\ snd r4 = fst (split key)) /\
      ((forall k, fst (split k) <> k) ->
       snd r1 <> key /\ snd r2 <> key /\ snd r3 <> key /\ snd r4 <> key).
    Proof.
      cbv zeta. unfold mc_fwd_trace_call, mc_fwd_diag_call, mc_rev_trace_call, mc_rev_diag_call.
      simpl. split; [|split].
      - repeat split.
      - repeat split.
      - intro Hs. repeat split; apply Hs.
    Qed.
  End Calls.
End JacProofs.

(* --------------------------------------------------------- T17.5 validator *)
Theorem verify_accepts_iff x fx n_in n_out d :
  verify_fun_and_x x fx = Accept n_in n_out d <->
  av_is_array x = true /\ av_is_array fx = true /\
  av_shape x = [n_in; d] /\ av_shape fx = [n_out; d].
Proof.
  destruct x as [xa xs], fx as [fa fs]. unfold verify_fun_and_x. simpl. split.
  - destruct xa, fa; simpl; try discriminate.
    destruct xs as [|x0 [|x1 [|x2 xs]]]; simpl; try discriminate;
    destruct fs as [|y0 [|y1 [|y2 fs]]]; simpl; try discriminate.
    destruct (Nat.eqb_spec x1 y1) as [E|E]; simpl; try discriminate.
    intro Hacc. injection Hacc as <- <- <-. subst. repeat split; reflexivity.
  - intros [-> [-> [-> ->]]]. simpl. rewrite Nat.eqb_refl. reflexivity.
Qed.

Theorem verify_rejects_iff x fx :
  (verify_fun_and_x x fx = RejectType <->
     av_is_array x = false \/ av_is_array fx = false) /\
  (verify_fun_and_x x fx = RejectValue <->
     av_is_array x = true /\ av_is_array fx = true /\
     (length (av_shape x) <> 2 \/ length (av_shape fx) <> 2 \/
      nth 1 (av_shape x) 0 <> nth 1 (av_shape fx) 0))%nat.
Proof.
  destruct x as [xa xs], fx as [fa fs]. unfold verify_fun_and_x. simpl.
  destruct xa, fa; simpl;
    try (split; split; [intros _; auto | reflexivity | discriminate | intros [? [? _]]; discriminate]).
  destruct xs as [|x0 [|x1 [|x2 xs]]]; simpl;
    try (split; split; [discriminate | intros [?|?]; discriminate
                        | intros _; repeat split; left; discriminate | reflexivity]);
  destruct fs as [|y0 [|y1 [|y2 fs]]]; simpl;
    try (split; split; [discriminate | intros [?|?]; discriminate
                        | intros _; repeat split; right; left; discriminate | reflexivity]).
  destruct (Nat.eqb_spec x1 y1) as [E|E]; simpl.
  - split; split; [discriminate | intros [?|?]; discriminate | discriminate |].
    intros [_ [_ [Hc|[Hc|Hc]]]]; exfalso; apply Hc; auto.
  - split; split; [discriminate | intros [?|?]; discriminate | | reflexivity].
    intros _. repeat split. right. right. exact E.
Qed.

(* every verdict of the validator is one of the three, and the returned
   triple is read off the shapes *)
Example verify_accept_example :
  verify_fun_and_x (mkArg true [3; 5]) (mkArg true [2; 5]) = Accept 3 2 5.
Proof. reflexivity. Qed.
Example verify_reject_examples :
  verify_fun_and_x (mkArg false [3; 5]) (mkArg true [2; 5]) = RejectType /\
  verify_fun_and_x (mkArg true [3; 5]) (mkArg false []) = RejectType /\
  verify_fun_and_x (mkArg true [15]) (mkArg true [2; 5]) = RejectValue /\
  verify_fun_and_x (mkArg true [3; 5; 1]) (mkArg true [2; 5]) = RejectValue /\
  verify_fun_and_x (mkArg true [3; 5]) (mkArg true [5]) = RejectValue /\
  verify_fun_and_x (mkArg true [3; 5]) (mkArg true [2; 4]) = RejectValue.
Proof. repeat split. Qed.

(* ------------------------------------------- satisfiability / sanity (Qc) *)
Definition ex_J : @jac Qc :=
  fun o a i b => Q2Qc (inject_Z (Z.of_nat (1 + o + 2 * a + 3 * i + 5 * b + o * b * 7 + a * i))).

(* the index hypotheses of sign_orthogonality are satisfiable and both sides
   are the non-trivial values 2^N and 0 *)
Example sign_orthogonality_example :
  feqb (lsum (map (fun s => vget s 1 * vget s 1)%F (@signs Qc _ 3))) (fnat 8) = true /\
  feqb (lsum (map (fun s => vget s 0 * vget s 2)%F (@signs Qc _ 3))) f0 = true.
Proof. split; vm_compute; reflexivity. Qed.

(* a single probe does NOT give the exact block (the estimators are genuinely
   stochastic), the full enumeration does; non-square n_in = 3, n_out = 2 *)
Example single_probe_is_not_exact :
  meqb 2 3 (mc_fwd_trace 3 2 2 ex_J [reshape 3 2 (map (fun _ => f1) (seq 0 6))])
           (mat_trace 3 2 2 ex_J) = false.
Proof. vm_compute. reflexivity. Qed.
Example full_enumeration_is_exact :
  meqb 2 3 (mc_fwd_trace 3 2 2 ex_J (all_probes 3 2)) (mat_trace 3 2 2 ex_J) = true /\
  meqb 2 3 (mc_rev_trace 3 2 2 ex_J (all_probes 2 2)) (mat_trace 3 2 2 ex_J) = true.
Proof. split; vm_compute; reflexivity. Qed.
(* a probe generator satisfying the hypothesis of the handler-level theorems *)
Example probe_oracle_exists :
  exists rad : unit -> nat -> nat -> nat -> list (@mat Qc),
    forall n d, Permutation (rad tt (2 ^ (n * d))%nat n d) (all_probes n d).
Proof. exists (fun _ _ n d => all_probes n d). intros. apply Permutation_refl. Qed.
(* a key-splitting function that never returns its argument *)
Example split_oracle_exists :
  exists split : nat -> nat * nat, forall k, fst (split k) <> k.
Proof. exists (fun k => (S k, k)). intro k. simpl. apply Nat.neq_succ_diag_l. Qed.

(* ------------------------------------------- packaged statements (Props/C17.v) *)
Section Packaged.
  Local Open Scope F_scope.

Lemma P_sign_vectors_enumerate_the_cube :
  forall (F : Type) (H : FieldOps F) (FL : FieldLaws F) (N : nat),
    length (@signs F H N) = (2 ^ N)%nat /\ NoDup (@signs F H N) /\
    (forall s : list F, In s (signs N) <->
       length s = N /\
       forall i, (i < N)%nat -> vget s i = 1 \/ vget s i = - (1)).
Proof.
  intros F H FL N. split; [apply signs_length|]. split; [apply signs_nodup|].
  intro s. split.
  - intro Hs. split; [apply signs_entry_length; exact Hs|].
    intros i Hi. apply (signs_entry_pm1 N); assumption.
  - intros [Hl Hs]. apply signs_complete; assumption.
Qed.

Lemma P_sign_vectors_are_orthogonal :
  forall (F : Type) (H : FieldOps F) (FL : FieldLaws F) (N i k : nat),
    (i < N)%nat -> (k < N)%nat ->
    lsum (map (fun s : list F => vget s i * vget s k) (signs N))
      = fnat (2 ^ N) * (if Nat.eqb i k then 1 else 0) /\
    mean_list (map (fun s : list F => vget s i * vget s k) (signs N))
      = (if Nat.eqb i k then 1 else 0).
Proof.
  intros F H FL N i k Hi Hk. split.
  - apply sign_orthogonality; assumption.
  - apply sign_orthogonality_mean; assumption.
Qed.

Lemma P_materialising_handler_returns_exact_blocks :
  forall (F : Type) (H : FieldOps F) (FL : FieldLaws F) (K : Type)
         (n_in n_out d : nat) (fx : @mat F) (J : @jac F) (state : K),
    materialize_call K n_in n_out d fx J state
      = (fx, materialize_dense n_in n_out d J, state) /\
    mat_trace_call K n_in n_out d fx J state = (fx, mat_trace n_in n_out d J, state) /\
    mat_diagonal_call K n_in n_out d fx J state = (fx, mat_diagonal n_in n_out d J, state) /\
    forall o a i b, (o < n_out)%nat -> (a < d)%nat -> (i < n_in)%nat -> (b < d)%nat ->
      t4get (materialize_dense n_in n_out d J) o a i b = J o a i b /\
      mget (mat_trace n_in n_out d J) o i = vsum d (fun c => J o c i c) /\
      t3get (mat_diagonal n_in n_out d J) a o i = J o a i a /\
      mget (mat_trace n_in n_out d J) o i
        = vsum d (fun c => t3get (mat_diagonal n_in n_out d J) c o i).
Proof.
  intros F H FL K n_in n_out d fx J state. repeat split.
  - apply materialize_dense_entry; assumption.
  - apply mat_trace_entry; assumption.
  - apply mat_diagonal_entry; assumption.
  - apply mat_trace_is_sum_of_diagonal; assumption.
Qed.

Lemma P_forward_estimators_average_to_exact_blocks :
  forall (F : Type) (H : FieldOps F) (FL : FieldLaws F)
         (n_in n_out d : nat) (J : @jac F),
    mc_fwd_trace n_in n_out d J (all_probes n_in d) = mat_trace n_in n_out d J /\
    mc_fwd_diag n_in n_out d J (all_probes n_in d) = mat_diagonal n_in n_out d J.
Proof.
  intros. split; [apply mc_fwd_trace_all_probes|apply mc_fwd_diag_all_probes].
Qed.

Lemma P_reverse_estimators_average_to_exact_blocks :
  forall (F : Type) (H : FieldOps F) (FL : FieldLaws F)
         (n_in n_out d : nat) (J : @jac F),
    mc_rev_trace n_in n_out d J (all_probes n_out d) = mat_trace n_in n_out d J /\
    mc_rev_diag n_in n_out d J (all_probes n_out d) = mat_diagonal n_in n_out d J.
Proof.
  intros. split; [apply mc_rev_trace_all_probes|apply mc_rev_diag_all_probes].
Qed.

Lemma P_stochastic_handlers_exact_under_full_enumeration :
  forall (F : Type) (H : FieldOps F) (FL : FieldLaws F) (K : Type)
         (split : K -> K * K) (rademacher : K -> nat -> nat -> nat -> list (@mat F))
         (num n_in n_out d : nat) (fx : @mat F) (J : @jac F) (key : K),
    (Permutation (rademacher (snd (split key)) num n_in d) (all_probes n_in d) ->
       mc_fwd_trace_call K split rademacher num n_in n_out d fx J key
         = (fx, mat_trace n_in n_out d J, fst (split key)) /\
       mc_fwd_diag_call K split rademacher num n_in n_out d fx J key
         = (fx, mat_diagonal n_in n_out d J, fst (split key))) /\
    (Permutation (rademacher (snd (split key)) num n_out d) (all_probes n_out d) ->
       mc_rev_trace_call K split rademacher num n_in n_out d fx J key
         = (fx, mat_trace n_in n_out d J, fst (split key)) /\
       mc_rev_diag_call K split rademacher num n_in n_out d fx J key
         = (fx, mat_diagonal n_in n_out d J, fst (split key))).
Proof.
  intros. split; intro P; [apply mc_fwd_calls_exact|apply mc_rev_calls_exact]; exact P.
Qed.

Lemma P_stochastic_handlers_pass_value_and_advance_key :
  forall (F : Type) (H : FieldOps F) (FL : FieldLaws F) (K : Type)
         (split : K -> K * K) (rademacher : K -> nat -> nat -> nat -> list (@mat F))
         (num n_in n_out d : nat) (fx : @mat F) (J : @jac F) (key : K),
    let r1 := mc_fwd_trace_call K split rademacher num n_in n_out d fx J key in
    let r2 := mc_fwd_diag_call K split rademacher num n_in n_out d fx J key in
    let r3 := mc_rev_trace_call K split rademacher num n_in n_out d fx J key in
    let r4 := mc_rev_diag_call K split rademacher num n_in n_out d fx J key in
    (fst (fst r1) = fx /\ fst (fst r2) = fx /\ fst (fst r3) = fx /\ fst (fst r4) = fx) /\
    (snd r1 = fst (split key) /\ snd r2 = fst (split key) /\
     snd r3 = fst (split key) /\ snd r4 = fst (split key)) /\
    ((forall k, fst (split k) <> k) ->
     snd r1 <> key /\ snd r2 <> key /\ snd r3 <> key /\ snd r4 <> key).
Proof.
  intros F H FL K split rademacher num n_in n_out d fx J key.
  exact (mc_calls_value_and_key K split rademacher num n_in n_out d fx J key).
Qed.

Lemma P_validator_accepts_iff_two_2d_arrays_with_equal_trailing_dim :
  forall (x fx : arg_view) (n_in n_out d : nat),
    verify_fun_and_x x fx = Accept n_in n_out d <->
    av_is_array x = true /\ av_is_array fx = true /\
    av_shape x = [n_in; d] /\ av_shape fx = [n_out; d].
Proof.
  exact verify_accepts_iff.
Qed.

Lemma P_validator_rejects_everything_else :
  forall (x fx : arg_view),
    (verify_fun_and_x x fx = RejectType <->
       av_is_array x = false \/ av_is_array fx = false) /\
    (verify_fun_and_x x fx = RejectValue <->
       av_is_array x = true /\ av_is_array fx = true /\
       (length (av_shape x) <> 2 \/ length (av_shape fx) <> 2 \/
        nth 1 (av_shape x) 0 <> nth 1 (av_shape fx) 0))%nat.
Proof.
  exact verify_rejects_iff.
Qed.
End Packaged.
