(* C01: algebraic core of the local order condition. *)
From Coq Require Import List Arith Lia Bool Field Ring.
From PD Require Import Base.Field Base.Matrix Base.Solve Model.Gauss Model.Prior Spec.RTS
  Proofs.GaussProofs Proofs.FilterProofs Proofs.PriorProofs.
Import ListNotations.

Section OrderProofs.
  Context {F : Type} `{FL : FieldLaws F}.
  Local Open Scope F_scope.
  Add Field FFo : fth.
  Local Notation mat := (@mat F).

  Theorem prediction_is_taylor_shift q (h s2 : F) (rv : @normal F) i :
    h <> 0 -> i < S q ->
    mget (n_mean (c_marg (S q) (S q) 1 (iwp_transition_1d q 1 h s2) rv)) i 0
    = vsum (S q) (fun j => (if Nat.leb i j then fpow h (j - i) / ffact (j - i) else 0)
                           * mget (n_mean rv) j 0).
  Proof.
    intros Hh Hi.
    rewrite c_marg_is_kalman_prediction. cbv zeta.
    rewrite (iwp_plain_A_closed_form q 1 h s2 Hh).
    unfold kf_predict; cbn [n_mean].
    rewrite mget_madd by lia. rewrite mget_mmul by lia.
    rewrite (iwp_plain_offset_zero q 1 h s2 i 0 Hi) by lia.
    transitivity (vsum (S q) (fun l => mget (iwp_A_closed q h) i l * mget (n_mean rv) l 0)); [ring|].
    apply vsum_ext. intros j Hj. unfold iwp_A_closed. rewrite mget_mk by assumption. reflexivity.
  Qed.

  Theorem zero_residual_update_keeps_mean inv n k c (Hm r R : mat) (rv upd : @normal F) :
    (forall i a, i < k -> a < c ->
       mget (madd k c (mmul k n c Hm (n_mean rv)) r) i a = 0) ->
    kf_update inv n k c Hm r R rv = Some upd ->
    n_mean upd = canon n c (n_mean rv).
  Proof.
    intros Hz Hu. unfold kf_update in Hu.
    destruct (inv k _) as [Si|]; [|discriminate].
    inversion Hu; subst. cbn [n_mean].
    unfold msub, canon. apply mk_ext. intros i a Hi Ha.
    rewrite mget_mmul by assumption.
    rewrite (vsum_ext k _ (fun _ => 0)).
    - rewrite vsum_zero. ring.
    - intros l Hl. rewrite Hz by assumption. ring.
  Qed.
End OrderProofs.
