(* T01.3: EXACTNESS ON POLYNOMIAL SOLUTIONS, for every grid.
   Let p be a polynomial of degree D <= q (coefficients a_n in the divided-power
   basis t^n/n!).  If the state mean holds the exact derivatives p^(i)(t),
   i = 0..q, then one step of the textbook EKF for u' = p'(t) -- prediction with the
   closed-form integrated-Wiener transition, update on the derivative selector --
   holds the exact derivatives p^(i)(t+h), whatever the covariances, the process
   noise, the observation noise and the step h; by induction the same is true
   at every node of every grid.  (Taylor's formula for polynomials = the binomial
   theorem in divided powers, PriorProofs.dpow_add; zero innovation keeps the
   mean, OrderProofs.)  Together with C02 (solver step = EKF step) this is the
   polynomial-exactness stream of the C01 check as a theorem. *)
From Coq Require Import List Arith Lia Bool Field Ring.
From PD Require Import Base.Field Base.Matrix Base.Solve Model.Gauss Model.Prior Spec.RTS
  Proofs.GaussProofs Proofs.FilterProofs Proofs.PriorProofs Proofs.OrderProofs.
Import ListNotations.

Section PolyExact.
  Context {F : Type} `{FL : FieldLaws F}.
  Local Open Scope F_scope.
  Add Field FFpe : fth.
  Local Notation mat := (@mat F).
  Local Notation normal := (@normal F).

  (* i-th derivative at t of  p(t) = sum_{n <= D} a_n t^n/n! *)
  Definition pder (a : nat -> F) (D i : nat) (t : F) : F :=
    vsum (S D) (fun n => if Nat.leb i n then a n * dpow t (n - i) else 0).

  Lemma pder_beyond a D i t : D < i -> pder a D i t = 0.
  Proof.
    intro Hi. unfold pder. apply vsum_all_zero. intros n Hn.
    assert (Hl : Nat.leb i n = false) by (apply Nat.leb_gt; lia). rewrite Hl. reflexivity.
  Qed.

  (* Taylor's formula:  sum_{k >= i} h^(k-i)/(k-i)! p^(k)(t) = p^(i)(t+h) *)
  Theorem taylor_shift_of_polynomial a D q i (t h : F) : D <= q -> i <= q ->
    vsum (S q) (fun k => (if Nat.leb i k then dpow h (k - i) else 0) * pder a D k t)
    = pder a D i (t + h).
  Proof.
    intros HD Hi. unfold pder.
    (* swap the sums *)
    transitivity (vsum (S q) (fun k => vsum (S D) (fun n =>
                    (if Nat.leb i k then dpow h (k - i) else 0)
                    * (if Nat.leb k n then a n * dpow t (n - k) else 0)))).
    { apply vsum_ext. intros k Hk. rewrite vsum_scale_l. reflexivity. }
    rewrite vsum_swap. apply vsum_ext. intros n Hn.
    destruct (Nat.leb_spec i n) as [Hin|Hin].
    - (* window k in [i, n] *)
      rewrite (vsum_window (S q) i n); [|exact Hin|lia|].
      2:{ intros k Hk Hout. destruct Hout as [Ho|Ho].
          - assert (Hl : Nat.leb i k = false) by (apply Nat.leb_gt; lia). rewrite Hl. ring.
          - assert (Hl : Nat.leb k n = false) by (apply Nat.leb_gt; lia). rewrite Hl. ring. }
      replace (t + h) with (h + t) by ring.
      rewrite dpow_add. rewrite <- vsum_scale_l. apply vsum_ext. intros m Hm.
      assert (H1 : Nat.leb i (i + m) = true) by (apply Nat.leb_le; lia).
      assert (H2 : Nat.leb (i + m) n = true) by (apply Nat.leb_le; lia).
      rewrite H1, H2.
      replace (i + m - i)%nat with m by lia. replace (n - (i + m))%nat with (n - i - m)%nat by lia.
      ring.
    - apply vsum_all_zero. intros k Hk.
      destruct (Nat.leb_spec i k) as [Hik|Hik]; [|ring].
      assert (Hl : Nat.leb k n = false) by (apply Nat.leb_gt; lia). rewrite Hl. ring.
  Qed.

  (* the exact state: all derivatives of p at t *)
  Definition exact_mean (a : nat -> F) (D q : nat) (t : F) : mat :=
    mk (S q) 1 (fun i _ => pder a D i t).

  Definition sel1 (q : nat) : mat := mk 1 (S q) (fun _ col => delta 1 col).

  Lemma predicted_mean_is_exact a D q (t h : F) (Q : mat) (rv : normal) :
    D <= q -> n_mean rv = exact_mean a D q t ->
    n_mean (kf_predict (S q) 1 (iwp_A_closed q h) (mzero (S q) 1) Q rv) = exact_mean a D q (t + h).
  Proof.
    intros HD Hm. unfold kf_predict; cbn [n_mean]. rewrite Hm.
    unfold madd, exact_mean. apply mk_ext. intros i c Hi Hc.
    rewrite mget_mmul by assumption. unfold mzero. rewrite mget_mk by assumption.
    rewrite <- (taylor_shift_of_polynomial a D q i t h HD) by lia.
    transitivity (vsum (S q) (fun k => mget (iwp_A_closed q h) i k * mget (mk (S q) 1 (fun i0 _ => pder a D i0 t)) k c)); [ring|].
    apply vsum_ext. intros k Hk. unfold iwp_A_closed. rewrite !mget_mk by assumption.
    destruct (Nat.leb i k); unfold dpow; reflexivity.
  Qed.

  (* one EKF step for u' = p'(t): the field evaluated at the new time is p'(t+h) *)
  Theorem ekf_step_exact_on_polynomials a D q (t h : F) (Q R : mat) (rv upd : normal)
          (inv : nat -> mat -> option mat) :
    1 <= q -> D <= q ->
    n_mean rv = exact_mean a D q t ->
    kf_update inv (S q) 1 1 (sel1 q) (mk 1 1 (fun _ _ => - pder a D 1 (t + h))) R
              (kf_predict (S q) 1 (iwp_A_closed q h) (mzero (S q) 1) Q rv) = Some upd ->
    n_mean upd = exact_mean a D q (t + h).
  Proof.
    intros Hq HD Hm Hu.
    set (pred := kf_predict (S q) 1 (iwp_A_closed q h) (mzero (S q) 1) Q rv) in *.
    pose proof (predicted_mean_is_exact a D q t h Q rv HD Hm) as Hp. fold pred in Hp.
    assert (Hz : forall i c, i < 1 -> c < 1 ->
               mget (madd 1 1 (mmul 1 (S q) 1 (sel1 q) (n_mean pred)) (mk 1 1 (fun _ _ => - pder a D 1 (t + h)))) i c = 0).
    2:{ rewrite (zero_residual_update_keeps_mean inv (S q) 1 1 (sel1 q) _ R pred upd Hz Hu).
        rewrite Hp. unfold exact_mean. apply canon_mk. }
    { intros i c Hi Hc. rewrite mget_madd by assumption. rewrite mget_mmul by assumption.
      rewrite mget_mk by assumption. rewrite Hp.
      assert (i = 0%nat) by lia. assert (c = 0%nat) by lia. subst.
      unfold sel1.
      rewrite (vsum_ext (S q) _ (fun l => delta 1 l * mget (exact_mean a D q (t + h)) l 0)).
      2:{ intros l Hl. rewrite mget_mk by lia. reflexivity. }
      rewrite vsum_delta_l by lia. unfold exact_mean. rewrite mget_mk by lia. ring. }
  Qed.

  (* every grid: iterate the step over a list of step sizes, with arbitrary
     (per-step) process and observation noises and any inverse oracle *)
  Fixpoint ekf_poly_grid (a : nat -> F) (D q : nat) (inv : nat -> mat -> option mat)
           (t : F) (rv : normal) (steps : list (F * mat * mat)) : option (list (F * normal)) :=
    match steps with
    | [] => Some []
    | (h, Q, R) :: r =>
      match kf_update inv (S q) 1 1 (sel1 q) (mk 1 1 (fun _ _ => - pder a D 1 (t + h))) R
                      (kf_predict (S q) 1 (iwp_A_closed q h) (mzero (S q) 1) Q rv) with
      | None => None
      | Some upd =>
        match ekf_poly_grid a D q inv (t + h) upd r with
        | None => None
        | Some l => Some ((t + h, upd) :: l)
        end
      end
    end.

  Theorem ekf_exact_on_polynomials_every_grid a D q inv :
    1 <= q -> D <= q ->
    forall steps t rv l,
      n_mean rv = exact_mean a D q t ->
      ekf_poly_grid a D q inv t rv steps = Some l ->
      Forall (fun tn => n_mean (snd tn) = exact_mean a D q (fst tn)) l.
  Proof.
    intros Hq HD. induction steps as [|[[h Q] R] r IH]; intros t rv l Hm Hrun.
    - cbn [ekf_poly_grid] in Hrun. inversion Hrun. constructor.
    - cbn [ekf_poly_grid] in Hrun.
      destruct (kf_update inv (S q) 1 1 (sel1 q) (mk 1 1 (fun _ _ => - pder a D 1 (t + h))) R
                          (kf_predict (S q) 1 (iwp_A_closed q h) (mzero (S q) 1) Q rv)) as [upd|] eqn:Hu; [|discriminate].
      pose proof (ekf_step_exact_on_polynomials a D q t h Q R rv upd inv Hq HD Hm Hu) as Hup.
      destruct (ekf_poly_grid a D q inv (t + h) upd r) as [l'|] eqn:Hr; [|discriminate].
      inversion Hrun; subst. constructor; [exact Hup|].
      exact (IH (t + h) upd l' Hup Hr).
  Qed.
End PolyExact.
