(* T02.1 for the BLOCK-DIAGONAL model: one step of the uncalibrated filter is,
   dimension by dimension, one step of the textbook (extended) Kalman filter with
   the closed-form integrated-Wiener transition scaled by that dimension's base
   scale and the documented per-dimension linearisation (TS0: selector and
   -f_a(m^-); TS1: selector minus the DIAGONAL Jacobian entries d f_a / d u_a^(i),
   bias g_a(m^-) - H_a m_a^-), evaluated at the predicted means of ALL dimensions. *)
From Coq Require Import List Arith Lia Bool Field Ring.
From PD Require Import Base.Field Base.Matrix Base.Solve Model.Gauss Model.Poly Model.Prior Model.Solver
  Spec.RTS Proofs.GaussProofs Proofs.FilterProofs Proofs.PriorProofs Proofs.SolverRefine.
Import ListNotations.

Section ListLemmas.
  Context {A B C : Type}.

  Lemma omap2_some_nth (f : A -> B -> option C) : forall (l1 : list A) (l2 : list B) (l : list C),
      length l1 = length l2 ->
      omap2 f l1 l2 = Some l ->
      length l = length l1 /\
      forall a da db dc, a < length l1 -> f (nth a l1 da) (nth a l2 db) = Some (nth a l dc).
  Proof.
    induction l1 as [|x xs IH]; intros l2 l Hlen Hs.
    - cbn in Hs. inversion Hs; subst. split; [reflexivity|]. intros a da db dc Ha. cbn in Ha. lia.
    - destruct l2 as [|y ys]; [cbn in Hlen; lia|].
      cbn [omap2] in Hs.
      destruct (f x y) as [z|] eqn:Hxy; [|discriminate].
      destruct (omap2 f xs ys) as [zs|] eqn:Hr; [|discriminate].
      inversion Hs; subst.
      cbn [length] in Hlen. assert (Hl' : length xs = length ys) by lia.
      destruct (IH ys zs Hl' Hr) as [Hlz Hn].
      split; [cbn [length]; lia|].
      intros a da db dc Ha. destruct a as [|a]; cbn [nth].
      + exact Hxy.
      + apply Hn. cbn [length] in Ha. lia.
  Qed.

  Lemma map2_nth (f : A -> B -> C) : forall (l1 : list A) (l2 : list B) a da db dc,
      a < length l1 -> a < length l2 ->
      nth a (map2 f l1 l2) dc = f (nth a l1 da) (nth a l2 db).
  Proof.
    induction l1 as [|x xs IH]; intros l2 a da db dc H1 H2; [cbn in H1; lia|].
    destruct l2 as [|y ys]; [cbn in H2; lia|].
    destruct a as [|a]; cbn [map2 nth]; [reflexivity|].
    apply IH; cbn [length] in *; lia.
  Qed.

  Lemma map2_length (f : A -> B -> C) : forall (l1 : list A) (l2 : list B),
      length l1 = length l2 -> length (map2 f l1 l2) = length l1.
  Proof.
    induction l1 as [|x xs IH]; intros l2 H; [reflexivity|].
    destruct l2 as [|y ys]; [cbn in H; lia|]. cbn [map2 length]. f_equal. apply IH. cbn in H. lia.
  Qed.
End ListLemmas.

Lemma nth_map_seq {A : Type} (g : nat -> A) d a dflt : a < d -> nth a (map g (seq 0 d)) dflt = g a.
Proof.
  intro Ha. rewrite (nth_indep _ dflt (g 0%nat)) by (rewrite map_length, seq_length; exact Ha).
  rewrite map_nth. rewrite seq_nth by exact Ha. reflexivity.
Qed.

Section SolverRefineBlock.
  Context {F : Type} `{FL : FieldLaws F}.
  Local Open Scope F_scope.
  Add Field FFb : fth.
  Local Notation mat := (@mat F).
  Local Notation normal := (@normal F).

  Definition dfltN : normal := mkN [] [].

  (* prediction of dimension a *)
  Definition bd_pred (q : nat) (base2 : @vec F) (dt : F) (rvs : list normal) (a : nat) : normal :=
    kf_predict (S q) 1 (iwp_A_closed q dt) (mzero (S q) 1) (iwp_Q_closed q dt (vget base2 a * 1)) (nth a rvs dfltN).

  (* documented block-diagonal linearisation of dimension a at the predicted marginals *)
  Definition bd_H (q d : nat) (o : @odeP F) (l : lin) (t' : F) (preds : list normal) (a : nat) : mat :=
    let s := mkShape BlockDiag q d in
    match l with
    | TS0 => mk 1 (S q) (fun _ col => delta (ode_k o) col)
    | TS1 => mk 1 (S q) (fun _ i => dg_eval s o preds t' a i a)
    end.
  Definition bd_bias (q d : nat) (o : @odeP F) (l : lin) (t' : F) (preds : list normal) (a : nat) : mat :=
    let s := mkShape BlockDiag q d in
    match l with
    | TS0 => mk 1 1 (fun _ _ => - f_eval s o preds t' a)
    | TS1 => mk 1 1 (fun _ _ => g_eval s o preds t' a
                                - vsum (S q) (fun i => mget (bd_H q d o TS1 t' preds a) 0 i * coeff s preds i a))
    end.

  Theorem blockdiag_filter_step_is_per_dimension_ekf (q d : nat) (o : @odeP F) (l : lin) (base2 : @vec F)
          (damp2 : F) (st st' : @sstate F) (rvs : list normal) (pc : list (@cond F)) (dt : F) :
    let cf := mkCfg (mkShape BlockDiag q d) Filter CalNone l o base2 damp2 in
    dt <> 0 -> length rvs = d ->
    st_post st = mkPost rvs pc ->
    (forall a, a < d -> symmetric (S q) (n_cov (bd_pred q base2 dt rvs a))) ->
    solver_step minv cf st dt = Some st' ->
    let t' := st_t st + dt in
    let preds := map (bd_pred q base2 dt rvs) (seq 0 d) in
    length (st_u st') = d /\
    forall a, a < d ->
      kf_update minv (S q) 1 1 (bd_H q d o l t' preds a) (bd_bias q d o l t' preds a) (noise_cov 1 damp2)
                (bd_pred q base2 dt rvs a)
      = Some (nth a (st_u st') dfltN).
  Proof.
    intros cf Hdt Hlen Hp Hsym Hstep t' preds.
    unfold solver_step, cf in Hstep; cbn [cf_calib cf_shape cf_strat cf_base2 cf_ode cf_lin cf_damp2] in Hstep.
    rewrite Hp in Hstep. unfold predict in Hstep; cbn [p_marg p_cond] in Hstep.
    set (s := mkShape BlockDiag q d) in *.
    set (tr := transition s base2 dt (ones s)) in *.
    (* the predicted marginals are the closed-form Kalman predictions *)
    assert (Hpred : f_marg s tr rvs = preds).
    { unfold f_marg, tr, transition, preds; cbn [sh_kind s sh_q sh_d sh_N sh_c].
      apply (nth_ext _ _ dfltN dfltN).
      - rewrite map2_length by (rewrite map_length, seq_length; lia).
        rewrite !map_length, seq_length. reflexivity.
      - intros a Ha. rewrite map2_length in Ha by (rewrite map_length, seq_length; lia).
        rewrite map_length, seq_length in Ha.
        rewrite (map2_nth _ _ _ a (identity_conditional (S q) 1) dfltN dfltN)
          by (rewrite ?map_length, ?seq_length; lia).
        rewrite !nth_map_seq by exact Ha.
        unfold ones; cbn [sh_blocks sh_kind s sh_d].
        rewrite nth_map_seq by exact Ha.
        rewrite c_marg_is_kalman_prediction. cbv zeta.
        rewrite (iwp_plain_A_closed_form q 1 dt _ Hdt).
        rewrite (iwp_plain_Q_closed_form q 1 dt _).
        assert (Hb : c_b (c_plain (S q) (S q) 1 (iwp_transition_1d q 1 dt (vget base2 a * 1))) = mzero (S q) 1).
        { unfold c_plain, iwp_transition_1d; cbn [c_b c_to]. apply scale_rows_mzero. }
        rewrite Hb. reflexivity. }
    rewrite Hpred in Hstep.
    set (fx := linearize s o l damp2 preds (st_t st + dt)) in *.
    unfold correct in Hstep.
    destruct (omap2 (fun k r => bayes_rule minv (sh_N s) (sh_nout s) (sh_c s) k (mzero (sh_nout s) (sh_c s)) r) fx preds)
      as [lst|] eqn:Hom; [|discriminate].
    inversion Hstep; subst st'. cbn [st_u].
    assert (Hfxlen : length fx = d).
    { unfold fx, linearize; cbn [sh_kind s]. destruct l; rewrite map_length, seq_length; reflexivity. }
    assert (Hplen : length preds = d) by (unfold preds; rewrite map_length, seq_length; reflexivity).
    destruct (omap2_some_nth _ fx preds lst (eq_trans Hfxlen (eq_sym Hplen)) Hom) as [Hll Hn].
    split; [rewrite map_length; lia|].
    intros a Ha.
    specialize (Hn a (identity_conditional (S q) 1) dfltN (dfltN, dfltN)).
    rewrite Hfxlen in Hn. specialize (Hn Ha).
    assert (Hnp : nth a preds dfltN = bd_pred q base2 dt rvs a) by (unfold preds; apply nth_map_seq; exact Ha).
    rewrite Hnp in Hn.
    (* the a-th linearisation *)
    assert (Hfx : nth a fx (identity_conditional (S q) 1)
                  = from_linop_and_noise (S q) 1 (bd_H q d o l t' preds a)
                      (mkN (bd_bias q d o l t' preds a) (noise_cov 1 damp2))).
    { unfold fx, linearize; cbn [sh_kind s sh_q sh_d sh_N]. unfold bd_H, bd_bias, t'. fold s.
      destruct l; rewrite nth_map_seq by exact Ha; reflexivity. }
    rewrite Hfx in Hn. cbn [sh_N sh_nout sh_c sh_kind s sh_q sh_d] in Hn.
    pose proof (bayes_rule_is_kalman_update minv (S q) 1 1 (bd_H q d o l t' preds a) (bd_bias q d o l t' preds a)
                  (noise_cov 1 damp2) (bd_pred q base2 dt rvs a) (Hsym a Ha)) as HK.
    rewrite Hn in HK. cbn [option_map snd] in HK.
    rewrite <- HK. f_equal.
    rewrite (nth_indep _ dfltN (snd (dfltN, dfltN))) by (rewrite map_length; lia).
    rewrite map_nth. reflexivity.
  Qed.
End SolverRefineBlock.
