(* T02.1 for the DENSE model with equal base scales (TS0): composing
   - EmbedProofs (C14): the dense TS0 filter step from an embedded state is the
     Kronecker embedding of the isotropic step, and
   - SolverRefine (C02): the isotropic step is the textbook EKF step,
   the dense solver step returns the embedding  upd (x) I_d  of the EKF posterior. *)
From Coq Require Import List Arith Lia Bool.
From PD Require Import Base.Field Base.Matrix Base.Solve Model.Gauss Model.Poly Model.Prior Model.Solver
  Spec.RTS Proofs.GaussProofs Proofs.FilterProofs Proofs.PriorProofs Proofs.SolverRefine Proofs.EmbedProofs.
Import ListNotations.

Section SolverRefineDense.
  Context {F : Type} `{FL : FieldLaws F}.
  Local Open Scope F_scope.
  Local Notation normal := (@normal F).

  Theorem dense_ts0_filter_step_is_embedded_ekf_step (q d : nat) (o : @odeP F) (base2D base2I : @vec F) (damp2 : F)
          (stD stI stD' stI' : @sstate F) (rv : normal) (pcD pcI : list (@cond F)) (dt : F) :
    let cfD := mkCfg (mkShape Dense q d) Filter CalNone TS0 o base2D damp2 in
    let cfI := mkCfg (mkShape Iso q d) Filter CalNone TS0 o base2I damp2 in
    ode_k o <= S q ->
    (forall a, a < d -> vget base2D a = vget base2I 0) ->
    dt <> 0 ->
    st_t stD = st_t stI ->
    st_u stI = [rv] -> st_post stI = mkPost [rv] pcI ->
    st_post stD = mkPost [embed_normal (S q) d rv] pcD ->
    symmetric (S q) (n_cov (kf_predict (S q) d (iwp_A_closed q dt) (mzero (S q) d)
                              (iwp_Q_closed q dt (vget base2I 0 * 1)) rv)) ->
    solver_step minv cfD stD dt = Some stD' ->
    solver_step minv cfI stI dt = Some stI' ->
    exists upd fx,
      ekf_step_iso q d o (vget base2I 0 * 1) damp2 (st_t stI + dt) dt rv = Some (upd, fx) /\
      st_u stI' = [upd] /\
      st_u stD' = [embed_normal (S q) d upd].
  Proof.
    intros cfD cfI Hk Hbase Hdt Ht Hu HpI HpD Hsym HsD HsI.
    (* isotropic step = EKF step *)
    pose proof (iso_ts0_filter_step_is_ekf_step q d o base2I damp2 stI rv pcI dt Hdt Hu HpI Hsym) as HI.
    cbv zeta in HI. fold cfI in HI. rewrite HsI in HI.
    destruct (ekf_step_iso q d o (vget base2I 0 * 1) damp2 (st_t stI + dt) dt rv) as [[upd fx]|] eqn:He; [|discriminate].
    inversion HI as [HstI']. exists upd, fx. split; [reflexivity|]. split; [reflexivity|].
    (* both steps as ts0_filter_step *)
    pose proof (solver_step_is_ts0_filter_step cfD stD dt eq_refl eq_refl eq_refl) as TD.
    pose proof (solver_step_is_ts0_filter_step cfI stI dt eq_refl eq_refl eq_refl) as TI.
    rewrite HsD in TD. rewrite HsI in TI. cbn [option_map] in TD, TI.
    unfold cfD in TD; unfold cfI in TI; cbn [cf_shape cf_ode cf_damp2 cf_base2] in TD, TI.
    rewrite HpD in TD. rewrite HpI in TI. cbn [p_marg] in TD, TI. rewrite Ht in TD.
    destruct (ts0_filter_step (mkShape Dense q d) o damp2 base2D dt (st_t stI + dt) [embed_normal (S q) d rv])
      as [[obsD updD]|] eqn:HD; [|discriminate].
    destruct (ts0_filter_step (mkShape Iso q d) o damp2 base2I dt (st_t stI + dt) [rv])
      as [[obsI updI]|] eqn:HIs; [|discriminate].
    cbn [option_map snd] in TD, TI. inversion TD as [HuD]. inversion TI as [HuI].
    destruct (dense_ts0_filter_step_is_embedded_isotropic_step q d o damp2 base2D base2I dt (st_t stI + dt) rv
                obsI updI obsD updD Hk Hbase HIs HD) as [_ Hupd].
    rewrite HuD, Hupd. rewrite <- HuI. rewrite HstI'. cbn [st_u map]. reflexivity.
  Qed.
End SolverRefineDense.
