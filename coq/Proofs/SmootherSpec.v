(* T03.5: the stored backward conditional, marginalised through ANY later
   marginal, is literally the Rauch-Tung-Striebel step of the independent
   specification Spec/RTS.v (gain computed there as  P_f A^T (A P_f A^T + Q)^-1
   with the certified inverse), for arbitrary non-zero preconditioner scalings
   and any symmetric filtering covariance. *)
From Coq Require Import List Arith Lia Bool Field Ring.
From PD Require Import Base.Field Base.Matrix Base.Solve Model.Gauss Spec.RTS Proofs.GaussProofs
  Proofs.FilterProofs.
Import ListNotations.

Section SmootherSpec.
  Context {F : Type} `{FL : FieldLaws F}.
  Local Open Scope F_scope.
  Add Field FFss : fth.
  Local Notation mat := (@mat F).
  Local Notation normal := (@normal F).

  Lemma madd_canon_l n m (A B : mat) : madd n m (canon n m A) B = madd n m A B.
  Proof.
    unfold madd. apply mk_ext. intros i j Hi Hj. rewrite mget_canon by assumption. reflexivity.
  Qed.

  Lemma mmul_entrywise_eq n k m (A B : mat) (X : mat) :
    (forall i j, i < n -> j < m -> mget (mmul n k m A B) i j = mget X i j) ->
    mmul n k m A B = canon n m X.
  Proof.
    intro Hent. unfold mmul at 1, canon. apply mk_ext. intros i j Hi Hj.
    rewrite <- (Hent i j Hi Hj). rewrite mget_mmul by assumption. reflexivity.
  Qed.

  Theorem backward_kernel_is_spec_rts_step n c (K : @cond F) (filt obs : normal) bw Pi :
    (forall i, i < n -> vget (c_tl K) i <> 0) ->
    (forall i, i < n -> vget (c_to K) i <> 0) ->
    symmetric n (n_cov filt) ->
    c_revert minv n n c K filt = Some (obs, bw) ->
    minv n (n_cov obs) = Some Pi ->
    forall sm,
      let P := c_plain n n c K in
      rts_step minv n c (c_A P) (c_b P) (c_Q P) filt sm = Some (c_marg n n c bw sm).
  Proof.
    intros Htl Hto Hsym Hrev Hinv sm P.
    pose proof (backward_kernel_is_rts n c K filt obs bw Htl Hto Hrev sm) as Hrts.
    pose proof (backward_kernel_gain_equation n c K filt obs bw Htl Hto Hrev) as Hgain.
    pose proof (c_revert_observed_is_marginal minv n n c K filt obs bw Hrev) as Hobs.
    rewrite c_marg_is_kalman_prediction in Hobs. cbv zeta in Hobs. fold P in Hobs.
    unfold rts_step. rewrite <- Hobs. rewrite Hinv.
    rewrite Hrts. unfold rts_with_gain.
    set (G' := c_A (c_plain n n c bw)) in *.
    set (A := c_A P) in *.
    destruct (minv_spec n (n_cov obs) Pi Hinv) as [HPi [HCP HPC]].
    (* the specification's gain equals the stored gain *)
    assert (HG : mmul n n n (mmul n n n (n_cov filt) (mtr n n A)) Pi = G').
    { assert (HG'c : G' = canon n n G').
      { unfold G', c_plain; cbn [c_A]. rewrite canon_mk. reflexivity. }
      assert (E1 : mmul n n n G' (n_cov obs) = mtr n n (mmul n n n A (n_cov filt))).
      { rewrite (mmul_entrywise_eq n n n G' (n_cov obs) (mtr n n (mmul n n n A (n_cov filt)))).
        - unfold mtr at 1. rewrite canon_mk. reflexivity.
        - intros i j Hi Hj. apply Hgain; assumption. }
      assert (E2 : mtr n n (mmul n n n A (n_cov filt)) = mmul n n n (n_cov filt) (mtr n n A)).
      { rewrite mtr_mmul.
        assert (Hs : mtr n n (n_cov filt) = canon n n (n_cov filt)).
        { unfold mtr, canon. apply mk_ext. intros i j Hi Hj. apply Hsym; assumption. }
        rewrite Hs. apply mmul_canon_l. }
      rewrite <- E2, <- E1.
      rewrite mmul_assoc. rewrite HCP. rewrite mmul_id_r. symmetry. exact HG'c. }
    rewrite HG.
    f_equal. f_equal.
    - rewrite madd_canon_l. reflexivity.
    - rewrite madd_canon_l. reflexivity.
  Qed.

  (* ---- the whole backward pass ---- *)
  (* marginalising the stored backward conditionals from the terminal marginal
     down to t0 (strategy finalize / backward_marginals, one block) *)
  Fixpoint bw_chain (n c : nat) (bws : list (@cond F)) (term : normal) : list normal :=
    match bws with
    | [] => [term]
    | bw :: r =>
      let rest := bw_chain n c r term in
      c_marg n n c bw (hd term rest) :: rest
    end.

  Lemma bw_chain_nonempty n c bws term : exists s rest, bw_chain n c bws term = s :: rest.
  Proof. destruct bws as [|bw r]; cbn [bw_chain]; eauto. Qed.

  (* the filter produced these backward conditionals: bw_k reverts transition K_k
     with respect to the filtering marginal f_(k-1) *)
  Inductive smoother_run (n c : nat) : list normal -> list (@cond F) -> list (@cond F) -> Prop :=
  | run_end f : smoother_run n c [f] [] []
  | run_step f fs K Ks bw bws obs Pi :
      (forall i, i < n -> vget (c_tl K) i <> 0) ->
      (forall i, i < n -> vget (c_to K) i <> 0) ->
      symmetric n (n_cov f) ->
      c_revert minv n n c K f = Some (obs, bw) ->
      minv n (n_cov obs) = Some Pi ->
      smoother_run n c fs Ks bws ->
      smoother_run n c (f :: fs) (K :: Ks) (bw :: bws).

  Lemma smoother_run_nonempty n c fs Ks bws : smoother_run n c fs Ks bws -> fs <> [].
  Proof. intro Hr. destruct Hr; discriminate. Qed.

  Lemma rts_pass_cons n c f fs (K : @cond F) Ks : fs <> [] ->
    rts_pass minv n c (f :: fs) (K :: Ks)
    = match rts_pass minv n c fs Ks with
      | Some (s :: rest) =>
        match rts_step minv n c (c_A K) (c_b K) (c_Q K) f s with
        | Some s0 => Some (s0 :: s :: rest)
        | None => None
        end
      | _ => None
      end.
  Proof. intro Hne. destruct fs as [|f1 fs']; [contradiction|]. reflexivity. Qed.

  Lemma last_cons_nonempty (f : normal) fs d : fs <> [] -> last (f :: fs) d = last fs d.
  Proof. intro Hne. destruct fs; [contradiction|]. reflexivity. Qed.

  Theorem backward_pass_is_spec_rts_pass n c filts Ks bws :
    smoother_run n c filts Ks bws ->
    rts_pass minv n c filts (map (c_plain n n c) Ks)
    = Some (bw_chain n c bws (last filts (mkN [] []))).
  Proof.
    intro Hrun. induction Hrun as [f | f fs K Ks bw bws obs Pi Htl Hto Hsym Hrev Hinv Hrun IH].
    - reflexivity.
    - pose proof (smoother_run_nonempty n c fs Ks bws Hrun) as Hne.
      cbn [map]. rewrite (rts_pass_cons n c f fs (c_plain n n c K) (map (c_plain n n c) Ks) Hne).
      rewrite (last_cons_nonempty f fs (mkN [] []) Hne).
      set (term := last fs (mkN [] [])) in *.
      rewrite IH.
      destruct (bw_chain_nonempty n c bws term) as [s [rest Hch]].
      cbn [bw_chain]. rewrite Hch. cbn [hd].
      pose proof (backward_kernel_is_spec_rts_step n c K f obs bw Pi Htl Hto Hsym Hrev Hinv s) as Hstep.
      cbv zeta in Hstep. cbn [c_A c_b c_Q]. rewrite Hstep. reflexivity.
  Qed.
End SmootherSpec.
