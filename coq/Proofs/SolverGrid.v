(* T02.3: the one-step refinement (SolverRefine.v) lifted to EVERY fixed grid by
   induction over the list of step sizes: the times and marginals of
   solve_fixed_grid's scan are those of the iterated textbook EKF.  Symmetry of
   the covariance is the invariant carried through the induction. *)
From Coq Require Import List Arith Lia Bool Field Ring.
From PD Require Import Base.Field Base.Matrix Base.Solve Model.Gauss Model.Poly Model.Prior Model.Solver
  Spec.RTS Proofs.GaussProofs Proofs.FilterProofs Proofs.PriorProofs Proofs.SolverRefine.
Import ListNotations.

Section SolverGrid.
  Context {F : Type} `{FL : FieldLaws F}.
  Local Open Scope F_scope.
  Add Field FFg : fth.
  Local Notation mat := (@mat F).
  Local Notation normal := (@normal F).

  (* the textbook EKF iterated over a grid given by its step sizes *)
  Fixpoint ekf_grid_iso (q d : nat) (o : @odeP F) (s2 damp2 : F) (t : F) (rv : normal) (dts : list F)
    : option (list (F * normal)) :=
    match dts with
    | [] => Some []
    | dt :: r =>
      match ekf_step_iso q d o s2 damp2 (t + dt) dt rv with
      | None => None
      | Some (upd, _) =>
        match ekf_grid_iso q d o s2 damp2 (t + dt) upd r with
        | None => None
        | Some l => Some ((t + dt, upd) :: l)
        end
      end
    end.

  Lemma noise_cov_symmetric n (damp2 : F) : symmetric n (noise_cov n damp2).
  Proof.
    unfold symmetric, noise_cov. intros i j Hi Hj. rewrite !mget_mk by assumption.
    rewrite (Nat.eqb_sym i j). reflexivity.
  Qed.

  Definition view (st : @sstate F) : F * list normal := (st_t st, st_u st).
  Definition lift1 (p : F * normal) : F * list normal := (fst p, [snd p]).

  Theorem iso_ts0_fixed_grid_is_ekf (q d : nat) (o : @odeP F) (base2 : @vec F) (damp2 : F)
          (dts : list F) :
    let cf := mkCfg (mkShape Iso q d) Filter CalNone TS0 o base2 damp2 in
    Forall (fun dt => dt <> 0) dts ->
    forall (st : @sstate F) (rv : normal) (pc : list (@cond F)),
      st_u st = [rv] -> st_post st = mkPost [rv] pc ->
      symmetric (S q) (n_cov rv) ->
      option_map (map view) (fixed_grid_states minv cf st dts)
      = option_map (map lift1) (ekf_grid_iso q d o (vget base2 0 * 1) damp2 (st_t st) rv dts).
  Proof.
    intros cf Hall. induction Hall as [|dt r Hdt Hr IH]; intros st rv pc Hu Hp Hsym.
    - reflexivity.
    - cbn [fixed_grid_states ekf_grid_iso].
      assert (Hps : symmetric (S q) (n_cov (kf_predict (S q) d (iwp_A_closed q dt) (mzero (S q) d)
                                (iwp_Q_closed q dt (vget base2 0 * 1)) rv))).
      { apply kf_predict_symmetric; [exact Hsym | apply iwp_Q_closed_symmetric]. }
      pose proof (iso_ts0_filter_step_is_ekf_step q d o base2 damp2 st rv pc dt Hdt Hu Hp Hps) as Hstep.
      cbv zeta in Hstep. fold cf in Hstep. rewrite Hstep.
      destruct (ekf_step_iso q d o (vget base2 0 * 1) damp2 (st_t st + dt) dt rv) as [[upd fx]|] eqn:He.
      2:{ reflexivity. }
      assert (Hus : symmetric (S q) (n_cov upd)).
      { unfold ekf_step_iso in He.
        match type of He with
        | match kf_update ?inv ?n ?k ?c ?Hm ?b ?R ?pred with _ => _ end = _ =>
          destruct (kf_update inv n k c Hm b R pred) as [u'|] eqn:Hku; [|discriminate];
            inversion He; subst;
            exact (kf_update_symmetric n k c Hm b R pred upd Hps (noise_cov_symmetric _ _) Hku)
        end. }
      set (st' := mkSt (st_t st + dt) [upd] (mkPost [upd] pc) [1] (st_run2 st)
                       (st_ndata st) (S (st_nsteps st)) [fx]).
      specialize (IH st' upd pc eq_refl eq_refl Hus).
      cbn [st_t st'] in IH.
      change (st_t st') with (st_t st + dt) in IH.
      destruct (fixed_grid_states minv cf st' r) as [l|];
        destruct (ekf_grid_iso q d o (vget base2 0 * 1) damp2 (st_t st + dt) upd r) as [l'|];
        cbn [option_map] in IH |- *; try discriminate; try reflexivity.
      inversion IH as [Hl]. cbn [map]. rewrite Hl. reflexivity.
  Qed.
End SolverGrid.
