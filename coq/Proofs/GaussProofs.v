(* Algebra of Gaussian conditionals with diagonal scalings (Model/Gauss.v)
   over an arbitrary field. *)
From Coq Require Import List Arith Lia Bool Field Ring.
From PD Require Import Base.Field Base.Matrix Base.Solve Model.Gauss.
Import ListNotations.

Section GaussProofs.
  Context {F : Type} `{FL : FieldLaws F}.
  Local Open Scope F_scope.
  Add Field FFg : fth.
  Local Notation mat := (@mat F).
  Local Notation vec := (@vec F).

  (* ------------------------------------------------------------ accessors *)
  Lemma mget_mmul n k m (A B : mat) i j : i < n -> j < m ->
    mget (mmul n k m A B) i j = vsum k (fun l => mget A i l * mget B l j).
  Proof. intros. unfold mmul. rewrite mget_mk by assumption. reflexivity. Qed.
  Lemma mget_madd n m (A B : mat) i j : i < n -> j < m ->
    mget (madd n m A B) i j = mget A i j + mget B i j.
  Proof. intros. unfold madd. rewrite mget_mk by assumption. reflexivity. Qed.
  Lemma mget_msub n m (A B : mat) i j : i < n -> j < m ->
    mget (msub n m A B) i j = mget A i j - mget B i j.
  Proof. intros. unfold msub. rewrite mget_mk by assumption. reflexivity. Qed.
  Lemma mget_mscale n m c (A : mat) i j : i < n -> j < m ->
    mget (mscale n m c A) i j = c * mget A i j.
  Proof. intros. unfold mscale. rewrite mget_mk by assumption. reflexivity. Qed.
  Lemma mget_mtr n m (A : mat) i j : i < m -> j < n ->
    mget (mtr n m A) i j = mget A j i.
  Proof. intros. unfold mtr. rewrite mget_mk by assumption. reflexivity. Qed.
  Lemma mget_scale_rows n m (v : vec) (A : mat) i j : i < n -> j < m ->
    mget (scale_rows n m v A) i j = vget v i * mget A i j.
  Proof. intros. unfold scale_rows. rewrite mget_mk by assumption. reflexivity. Qed.
  Lemma mget_dsand n (v : vec) (P : mat) i j : i < n -> j < n ->
    mget (dsand n v P) i j = vget v i * mget P i j * vget v j.
  Proof. intros. unfold dsand. rewrite mget_mk by assumption. reflexivity. Qed.
  Lemma mget_mid n i j : i < n -> j < n -> mget (mid n) i j = (delta i j : F).
  Proof. intros. unfold mid. rewrite mget_mk by assumption. reflexivity. Qed.
  Lemma mget_canon n m (A : mat) i j : i < n -> j < m -> mget (canon n m A) i j = mget A i j.
  Proof. intros. unfold canon. rewrite mget_mk by assumption. reflexivity. Qed.
  Lemma vget_vones n i : i < n -> vget (vones n) i = (1 : F).
  Proof. intros. unfold vones. rewrite vget_mkv by assumption. reflexivity. Qed.
  Lemma vget_vinv n (v : vec) i : i < n -> vget (vinv n v) i = finv (vget v i).
  Proof. intros. unfold vinv. rewrite vget_mkv by assumption. reflexivity. Qed.
  Lemma vget_vmap2 n g (u v : vec) i : i < n -> vget (vmap2 n g u v) i = g (vget u i) (vget v i).
  Proof. intros. unfold vmap2. rewrite vget_mkv by assumption. reflexivity. Qed.

  Lemma mget_sandwich n m (A P : mat) i j : i < n -> j < n ->
    mget (sandwich n m A P) i j
    = vsum m (fun k => vsum m (fun l => mget A i l * mget P l k) * mget A j k).
  Proof.
    intros Hi Hj. unfold sandwich. rewrite mget_mmul by assumption.
    apply vsum_ext. intros k Hk. rewrite mget_mmul by assumption.
    rewrite mget_mtr by assumption. reflexivity.
  Qed.

  (* a double sum with scalar factors pulled through *)
  Lemma vsum_mul_l n (c : F) (f : nat -> F) : c * vsum n f = vsum n (fun i => c * f i).
  Proof. symmetry. apply vsum_scale_l. Qed.
  Lemma vsum_mul_r n (c : F) (f : nat -> F) : vsum n f * c = vsum n (fun i => f i * c).
  Proof. symmetry. apply vsum_scale_r. Qed.

  (* =================================================================
     T08.1-4  the operations with scalings equal the operations on the plain
     (preconditioner_apply) conditional *)
  Theorem c_apply_plain nin nout c (K : @cond F) (x : mat) :
    c_apply nin nout c K x = c_apply nin nout c (c_plain nin nout c K) x.
  Proof.
    unfold c_apply, c_plain; cbn [c_A c_b c_Q c_tl c_to]. f_equal.
    - unfold scale_rows at 1 3. apply mk_ext. intros i a Hi Ha.
      rewrite vget_vones by assumption.
      rewrite !mget_madd by assumption. rewrite !mget_mmul by assumption.
      rewrite mget_scale_rows by assumption.
      rewrite (vsum_ext nin _ (fun l => mget (c_A K) i l * (vget (c_tl K) l * mget x l a))).
      2:{ intros l Hl. rewrite mget_scale_rows by assumption. reflexivity. }
      rewrite (vsum_ext nin (fun l => mget (mk nout nin _) i l * _)
                 (fun l => vget (c_to K) i * (mget (c_A K) i l * (vget (c_tl K) l * mget x l a)))).
      2:{ intros l Hl. rewrite mget_mk by assumption.
          rewrite mget_scale_rows by assumption. rewrite vget_vones by assumption. ring. }
      rewrite vsum_scale_l. ring.
    - unfold dsand. apply mk_ext. intros i j Hi Hj.
      rewrite mget_mk by assumption. rewrite !vget_vones by assumption. ring.
  Qed.

  Lemma vsum2_scale (c d : F) n m (f : nat -> nat -> F) :
    c * vsum n (fun k => vsum m (fun l => f k l)) * d
    = vsum n (fun k => vsum m (fun l => c * f k l * d)).
  Proof.
    rewrite <- vsum_scale_l. rewrite <- vsum_scale_r. apply vsum_ext. intros k _.
    rewrite <- vsum_scale_l. rewrite <- vsum_scale_r. reflexivity.
  Qed.
  Lemma vsum2_ext n m (f g : nat -> nat -> F) :
    (forall k l, k < n -> l < m -> f k l = g k l) ->
    vsum n (fun k => vsum m (fun l => f k l)) = vsum n (fun k => vsum m (fun l => g k l)).
  Proof. intro Hfg. apply vsum_ext. intros k Hk. apply vsum_ext. intros l Hl. auto. Qed.

  (* entries of A (D P D) A^T and of (R A D) P (R A D)^T as double sums *)
  Lemma sandwich_dsand_entry n m (A P : mat) (v : vec) i j : i < n -> j < n ->
    mget (sandwich n m A (dsand m v P)) i j
    = vsum m (fun k => vsum m (fun l =>
        mget A i l * vget v l * mget P l k * vget v k * mget A j k)).
  Proof.
    intros Hi Hj. rewrite mget_sandwich by assumption.
    apply vsum_ext. intros k Hk. rewrite <- vsum_scale_r. apply vsum_ext. intros l Hl.
    rewrite mget_dsand by assumption. ring.
  Qed.
  Lemma sandwich_mk_entry n m (r v : vec) (A P : mat) i j : i < n -> j < n ->
    mget (sandwich n m (mk n m (fun a b => vget r a * mget A a b * vget v b)) P) i j
    = vsum m (fun k => vsum m (fun l =>
        vget r i * mget A i l * vget v l * mget P l k * (vget r j * mget A j k * vget v k))).
  Proof.
    intros Hi Hj. rewrite mget_sandwich by assumption.
    apply vsum_ext. intros k Hk. rewrite mget_mk by assumption.
    rewrite <- vsum_scale_r. apply vsum_ext. intros l Hl.
    rewrite mget_mk by assumption. reflexivity.
  Qed.

  Theorem c_marg_plain nin nout c (K : @cond F) (rv : @normal F) :
    c_marg nin nout c K rv = c_marg nin nout c (c_plain nin nout c K) rv.
  Proof.
    unfold c_marg, c_plain; cbn [c_A c_b c_Q c_tl c_to]. f_equal.
    - unfold scale_rows at 1 3. apply mk_ext. intros i a Hi Ha.
      rewrite vget_vones by assumption.
      rewrite !mget_madd by assumption. rewrite !mget_mmul by assumption.
      rewrite mget_scale_rows by assumption.
      rewrite (vsum_ext nin _ (fun l => mget (c_A K) i l * (vget (c_tl K) l * mget (n_mean rv) l a))).
      2:{ intros l Hl. rewrite mget_scale_rows by assumption. reflexivity. }
      rewrite (vsum_ext nin (fun l => mget (mk nout nin _) i l * _)
                 (fun l => vget (c_to K) i * (mget (c_A K) i l * (vget (c_tl K) l * mget (n_mean rv) l a)))).
      2:{ intros l Hl. rewrite mget_mk by assumption.
          rewrite mget_scale_rows by assumption. rewrite vget_vones by assumption. ring. }
      rewrite vsum_scale_l. ring.
    - unfold dsand at 1 3. apply mk_ext. intros i j Hi Hj.
      rewrite !vget_vones by assumption.
      rewrite !mget_madd by assumption.
      rewrite sandwich_dsand_entry by assumption.
      rewrite sandwich_dsand_entry by assumption.
      rewrite mget_dsand by assumption.
      transitivity (vget (c_to K) i
                    * vsum nin (fun k => vsum nin (fun l =>
                        mget (c_A K) i l * vget (c_tl K) l * mget (n_cov rv) l k
                        * vget (c_tl K) k * mget (c_A K) j k))
                    * vget (c_to K) j
                    + vget (c_to K) i * mget (c_Q K) i j * vget (c_to K) j); [ring|].
      rewrite vsum2_scale.
      transitivity (vsum nin (fun k => vsum nin (fun l =>
                      mget (mk nout nin (fun a b => vget (c_to K) a * mget (c_A K) a b * vget (c_tl K) b)) i l
                      * vget (vones nin) l * mget (n_cov rv) l k * vget (vones nin) k
                      * mget (mk nout nin (fun a b => vget (c_to K) a * mget (c_A K) a b * vget (c_tl K) b)) j k))
                    + vget (c_to K) i * mget (c_Q K) i j * vget (c_to K) j); [|ring].
      f_equal. apply vsum2_ext. intros k l Hk Hl.
      rewrite !mget_mk by assumption. rewrite !vget_vones by assumption. ring.
  Qed.

  (* ---------------------------------------------- matrix-level sandwich laws *)
  Lemma sandwich_mmul n k' k (A1 B P : mat) :
    sandwich n k (mmul n k' k A1 B) P = sandwich n k' A1 (sandwich k' k B P).
  Proof.
    unfold sandwich. rewrite mtr_mmul.
    rewrite (mmul_assoc n k' k k A1 B P).
    rewrite (mmul_assoc n k' k n A1 (mmul k' k k B P) (mmul k k' n (mtr k' k B) (mtr n k' A1))).
    rewrite <- (mmul_assoc k' k k' n (mmul k' k k B P) (mtr k' k B) (mtr n k' A1)).
    rewrite <- (mmul_assoc n k' k' n A1 (mmul k' k k' (mmul k' k k B P) (mtr k' k B)) (mtr n k' A1)).
    reflexivity.
  Qed.

  Lemma dsand_sandwich n m (v : vec) (A P : mat) :
    dsand n v (sandwich n m A P) = sandwich n m (scale_rows n m v A) P.
  Proof.
    unfold dsand at 1. symmetry. unfold sandwich at 1, mmul at 1. apply mk_ext. intros i j Hi Hj.
    rewrite mget_sandwich by assumption.
    rewrite (vsum_ext m _ (fun k => vsum m (fun l => vget v i * (mget A i l * mget P l k) * (mget A j k * vget v j)))).
    2:{ intros k Hk. rewrite mget_mmul by assumption. rewrite mget_mtr by assumption.
        rewrite mget_scale_rows by assumption.
        rewrite <- vsum_scale_r. apply vsum_ext. intros l Hl.
        rewrite mget_scale_rows by assumption. ring. }
    rewrite <- vsum_scale_l. rewrite <- vsum_scale_r. apply vsum_ext. intros k Hk.
    rewrite <- vsum_scale_r. rewrite <- vsum_scale_l. rewrite <- vsum_scale_r.
    apply vsum_ext. intros l Hl. ring.
  Qed.

  Lemma sandwich_madd n m (A X Y : mat) :
    sandwich n m A (madd m m X Y) = madd n n (sandwich n m A X) (sandwich n m A Y).
  Proof.
    unfold sandwich. rewrite mmul_add_r. rewrite mmul_add_l. reflexivity.
  Qed.

  Lemma dsand_dsand n (u v : vec) (X : mat) :
    dsand n u (dsand n v X) = dsand n (vmap2 n fmul u v) X.
  Proof.
    unfold dsand at 1 3. apply mk_ext. intros i j Hi Hj.
    rewrite mget_dsand by assumption. rewrite !vget_vmap2 by assumption. ring.
  Qed.
  Lemma dsand_madd n (v : vec) (X Y : mat) :
    dsand n v (madd n n X Y) = madd n n (dsand n v X) (dsand n v Y).
  Proof.
    unfold dsand at 1, madd at 2. apply mk_ext. intros i j Hi Hj.
    rewrite mget_madd by assumption. rewrite !mget_dsand by assumption. ring.
  Qed.
  Lemma madd_ext n m (X Y X' Y' : mat) :
    (forall i j, i < n -> j < m -> mget X i j + mget Y i j = mget X' i j + mget Y' i j) ->
    madd n m X Y = madd n m X' Y'.
  Proof. intro Hxy. unfold madd. apply mk_ext. exact Hxy. Qed.
  Lemma madd_assoc n m (X Y Z : mat) :
    madd n m (madd n m X Y) Z = madd n m X (madd n m Y Z).
  Proof.
    unfold madd at 1 3. apply mk_ext. intros i j Hi Hj.
    rewrite !mget_madd by assumption. ring.
  Qed.

  (* =================================================================
     T08.5  merge is composition: marginalising through the merged conditional
     equals marginalising through the inner and then the outer conditional,
     for arbitrary scalings *)
  Theorem c_merge_is_composition nin nmid nout c (K1 K2 : @cond F) (rv : @normal F) :
    c_marg nin nout c (c_merge nin nmid nout c K1 K2) rv
    = c_marg nmid nout c K1 (c_marg nin nmid c K2 rv).
  Proof.
    unfold c_marg, c_merge; cbn [c_A c_b c_Q c_tl c_to n_mean n_cov].
    set (T := vmap2 nmid fmul (c_tl K1) (c_to K2)).
    f_equal.
    - (* means *)
      f_equal. apply madd_ext. intros i a Hi Ha.
      rewrite mget_madd by assumption. rewrite !mget_mmul by assumption.
      rewrite (vsum_ext nin _ (fun l => vsum nmid (fun p =>
                 mget (c_A K1) i p * vget T p * mget (c_A K2) p l * vget (c_tl K2) l * mget (n_mean rv) l a))).
      2:{ intros l Hl. rewrite mget_mmul by assumption. rewrite mget_scale_rows by assumption.
          rewrite <- vsum_scale_r. apply vsum_ext. intros p Hp.
          rewrite mget_scale_rows by assumption. ring. }
      rewrite vsum_swap.
      rewrite (vsum_ext nmid (fun l => mget (c_A K1) i l * mget (scale_rows nmid c T (c_b K2)) l a)
                 (fun p => mget (c_A K1) i p * vget T p * mget (c_b K2) p a)).
      2:{ intros p Hp. rewrite mget_scale_rows by assumption. ring. }
      rewrite (vsum_ext nmid (fun l => mget (c_A K1) i l * mget (scale_rows nmid c (c_tl K1) _) l a)
                 (fun p => vsum nin (fun l => mget (c_A K1) i p * vget T p * mget (c_A K2) p l * vget (c_tl K2) l * mget (n_mean rv) l a)
                           + mget (c_A K1) i p * vget T p * mget (c_b K2) p a)).
      2:{ intros p Hp. rewrite mget_scale_rows by assumption. rewrite mget_scale_rows by assumption.
          rewrite mget_madd by assumption. rewrite mget_mmul by assumption.
          unfold T. rewrite vget_vmap2 by assumption.
          rewrite (vsum_ext nin _ (fun l => mget (c_A K2) p l * (vget (c_tl K2) l * mget (n_mean rv) l a))).
          2:{ intros l Hl. rewrite mget_scale_rows by assumption. reflexivity. }
          set (Sm := vsum nin (fun l => mget (c_A K2) p l * (vget (c_tl K2) l * mget (n_mean rv) l a))).
          transitivity (mget (c_A K1) i p * (vget (c_tl K1) p * vget (c_to K2) p) * Sm
                        + mget (c_A K1) i p * (vget (c_tl K1) p * vget (c_to K2) p) * mget (c_b K2) p a);
            [ring|].
          f_equal. unfold Sm. rewrite <- vsum_scale_l. apply vsum_ext. intros l Hl. ring. }
      rewrite vsum_add. ring.
    - (* covariances *)
      f_equal.
      rewrite <- madd_assoc. f_equal.
      rewrite dsand_dsand. fold T.
      rewrite dsand_madd. rewrite sandwich_madd. f_equal.
      rewrite dsand_sandwich. rewrite <- sandwich_mmul. reflexivity.
  Qed.

  (* =================================================================
     T08.6  revert reproduces the joint law: the observed marginal is the
     marginalisation, the backward conditional pushed through the observed
     marginal gives back the prior, and gain * innovation covariance = cross
     covariance (which determines the gain when S is invertible). *)
  Lemma finv_l (x : F) : x <> 0 -> finv x * x = 1.
  Proof. intro Hx. field. exact Hx. Qed.

  Theorem c_revert_observed_is_marginal inv nin nout c (K : @cond F) (rv obs : @normal F) bw :
    c_revert inv nin nout c K rv = Some (obs, bw) -> obs = c_marg nin nout c K rv.
  Proof.
    unfold c_revert, c_marg. destruct (inv nout _) as [Si|]; [|discriminate].
    intro Hs. inversion Hs; subst. reflexivity.
  Qed.

  Theorem c_revert_reproduces_prior inv nin nout c (K : @cond F) (rv obs : @normal F) bw :
    (forall i, i < nin -> vget (c_tl K) i <> 0) ->
    (forall i, i < nout -> vget (c_to K) i <> 0) ->
    c_revert inv nin nout c K rv = Some (obs, bw) ->
    c_marg nout nin c bw obs
    = mkN (canon nin c (n_mean rv)) (canon nin nin (n_cov rv)).
  Proof.
    intros Htl Hto. unfold c_revert. destruct (inv nout _) as [Si|]; [|discriminate].
    intro Hs. inversion Hs; subst. clear Hs.
    unfold c_marg; cbn [c_A c_b c_Q c_tl c_to n_mean n_cov].
    set (m' := scale_rows nin c (c_tl K) (n_mean rv)).
    set (P' := dsand nin (c_tl K) (n_cov rv)).
    set (AP := mmul nout nin nin (c_A K) P').
    set (S := madd nout nout (mmul nout nin nout AP (mtr nout nin (c_A K))) (c_Q K)).
    set (G := mmul nin nout nout (mtr nout nin AP) Si).
    set (m_obs := madd nout c (mmul nout nin c (c_A K) m') (c_b K)).
    f_equal.
    - unfold scale_rows at 1, canon. apply mk_ext. intros i a Hi Ha.
      rewrite vget_vinv by assumption.
      rewrite mget_madd by assumption. rewrite mget_msub by assumption.
      rewrite mget_mmul by assumption.
      rewrite (vsum_ext nout _ (fun l => mget G i l * mget m_obs l a)).
      2:{ intros l Hl. rewrite mget_scale_rows by assumption. rewrite vget_vinv by assumption.
          rewrite mget_scale_rows by assumption.
          transitivity (mget G i l * ((finv (vget (c_to K) l) * vget (c_to K) l) * mget m_obs l a)); [ring|].
          rewrite finv_l by (apply Hto; assumption). ring. }
      rewrite <- (mget_mmul nin nout c G m_obs i a Hi Ha).
      unfold m'. rewrite mget_scale_rows by assumption.
      transitivity ((finv (vget (c_tl K) i) * vget (c_tl K) i) * mget (n_mean rv) i a); [ring|].
      rewrite finv_l by (apply Htl; assumption). ring.
    - rewrite dsand_dsand.
      assert (HS : dsand nout (vmap2 nout fmul (vinv nout (c_to K)) (c_to K)) S = S).
      { unfold S, madd. unfold dsand. apply mk_ext. intros i j Hi Hj.
        rewrite mget_mk by assumption. rewrite !vget_vmap2 by assumption.
        rewrite !vget_vinv by assumption.
        rewrite !finv_l by (apply Hto; assumption). ring. }
      rewrite HS.
      unfold dsand at 1, canon. apply mk_ext. intros i j Hi Hj.
      rewrite !vget_vinv by assumption.
      rewrite mget_madd by assumption. rewrite mget_msub by assumption.
      unfold P' at 1. rewrite mget_dsand by assumption.
      transitivity ((finv (vget (c_tl K) i) * vget (c_tl K) i) * mget (n_cov rv) i j
                    * (vget (c_tl K) j * finv (vget (c_tl K) j))); [ring|].
      rewrite finv_l by (apply Htl; assumption).
      replace (vget (c_tl K) j * finv (vget (c_tl K) j)) with (finv (vget (c_tl K) j) * vget (c_tl K) j) by ring.
      rewrite finv_l by (apply Htl; assumption). ring.
  Qed.

  (* gain equation (latent coordinates): with the certified inverse,
     G S = P' A^T, i.e. G is the Kalman / RTS gain *)
  Theorem c_revert_gain_equation nin nout c (K : @cond F) (rv obs : @normal F) bw :
    c_revert minv nin nout c K rv = Some (obs, bw) ->
    let P' := dsand nin (c_tl K) (n_cov rv) in
    let S := madd nout nout (sandwich nout nin (c_A K) P') (c_Q K) in
    mmul nin nout nout (c_A bw) S
    = mtr nout nin (mmul nout nin nin (c_A K) P').
  Proof.
    unfold c_revert.
    destruct (minv nout _) as [Si|] eqn:Hinv; [|discriminate].
    intro Hs. inversion Hs; subst. clear Hs. cbn [c_A]. cbv zeta.
    apply minv_spec in Hinv. destruct Hinv as [_ [_ HSi]].
    unfold sandwich. rewrite mmul_assoc. rewrite HSi.
    rewrite mmul_id_r. unfold mtr. apply canon_mk.
  Qed.
End GaussProofs.
