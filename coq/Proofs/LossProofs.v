(* Proofs for C12 (Model/Loss.v).
   T12.1  accumulator: the running mean / running sum of evaluate_lml after N
          terms is the arithmetic mean / the sum of the N term values (any N, any
          values, any field of characteristic 0), and evaluate_lml is exactly
          this accumulation of the values of the terms of evaluate_lml_terms.
   T12.2  one step of the recursion = predict through the stored backward
          conditional, then condition on the datum: the density term is the
          density of the datum under the marginalised observation model, the
          carried state is Gauss.bayes_rule (C02: the Kalman update), and the
          pair (observed, reverted) reproduces the predicted distribution.
   T12.3  chain rule for two time points with scalar observations: quadratic
          form and determinant of the 2 x 2 joint covariance factor as
          marginal x conditional.  The N-point chain rule is NOT proved in
          general (the check compares the recursion with the direct joint
          density exactly for every generated N). *)
From Coq Require Import List Arith Lia Bool ZArith Field Ring.
From PD Require Import Base.Field Base.Matrix Base.Solve Model.Gauss Model.Poly
  Model.Prior Model.Solver Model.Loss Proofs.GaussProofs.
Import ListNotations.
Local Open Scope nat_scope.

Section LossProofs.
  Context {F : Type} `{FL : FieldLaws F}.
  Local Open Scope F_scope.
  Add Field FFl : fth.
  Local Notation mat := (@mat F).
  Local Notation vec := (@vec F).
  Local Notation normal := (@normal F).
  Local Notation cond := (@cond F).
  Local Notation dterm := (@dterm F).

  (* ------------------------------------------------- naturals in the field *)
  Lemma l_fpos_succ p : fpos (Pos.succ p) = fpos p + (1 : F).
  Proof. induction p as [p IH|p IH|]; simpl; [rewrite IH; ring|ring|ring]. Qed.

  Lemma l_fnat_S n : fnat (S n) = fnat n + (1 : F).
  Proof.
    destruct n as [|n].
    - unfold fnat; simpl. ring.
    - unfold fnat. change (Z.of_nat (S (S n))) with (Zpos (Pos.succ (Pos.of_succ_nat n))).
      change (Z.of_nat (S n)) with (Zpos (Pos.of_succ_nat n)). simpl fZ.
      apply l_fpos_succ.
  Qed.

  Lemma l_fnat_S_neq0 n : fnat (S n) <> (0 : F).
  Proof.
    unfold fnat. change (Z.of_nat (S n)) with (Zpos (Pos.of_succ_nat n)). simpl fZ.
    apply char0.
  Qed.

  Lemma l_fnat_1 : fnat 1 = (1 : F).
  Proof. reflexivity. Qed.

  (* ================================================================ T12.1 *)
  Lemma lsumF_app l1 l2 : lsumF (l1 ++ l2) = lsumF l1 + lsumF l2.
  Proof. induction l1 as [|x l1 IH]; simpl; [ring|]. rewrite IH. ring. Qed.

  Lemma acc_run_app avg st l1 l2 :
    acc_run avg st (l1 ++ l2) = acc_run avg (acc_run avg st l1) l2.
  Proof. unfold acc_run. apply fold_left_app. Qed.

  Lemma acc_run_cons avg st x ls :
    acc_run avg st (x :: ls) = acc_run avg (acc_step avg st x) ls.
  Proof. reflexivity. Qed.

  Lemma acc_run_count avg ls : forall st, snd (acc_run avg st ls) = (snd st + length ls)%nat.
  Proof.
    induction ls as [|x r IH]; intro st.
    - simpl. lia.
    - rewrite acc_run_cons, IH. unfold acc_step. simpl. lia.
  Qed.

  Lemma acc_run_sum ls : forall l n, fst (acc_run false (l, n) ls) = l + lsumF ls.
  Proof.
    induction ls as [|x r IH]; intros l n.
    - simpl. ring.
    - rewrite acc_run_cons. unfold acc_step. simpl fst; simpl snd.
      rewrite IH. simpl. ring.
  Qed.

  Lemma acc_run_mean_mul ls : forall l n,
    fst (acc_run true (l, S n) ls) * fnat (S n + length ls) = l * fnat (S n) + lsumF ls.
  Proof.
    induction ls as [|x r IH]; intros l n.
    - simpl. rewrite Nat.add_0_r. ring.
    - rewrite acc_run_cons. unfold acc_step. simpl fst; simpl snd.
      replace (S n + length (x :: r))%nat with (S (S n) + length r)%nat by (simpl; lia).
      rewrite IH. simpl lsumF.
      pose proof (l_fnat_S_neq0 (S n)) as Hnz. field. exact Hnz.
  Qed.

  (* T12.1 (sum): after the first term l1 and the further terms ls the running
     value is the sum of all terms *)
  Theorem accumulator_sum (l1 : F) (ls : list F) :
    acc_run false (l1, 1%nat) ls = (lsumF (l1 :: ls), length (l1 :: ls)).
  Proof.
    apply injective_projections.
    - rewrite acc_run_sum. reflexivity.
    - rewrite acc_run_count. reflexivity.
  Qed.

  (* T12.1 (mean): ... the arithmetic mean of all N = 1 + |ls| terms *)
  Theorem accumulator_mean (l1 : F) (ls : list F) :
    acc_run true (l1, 1%nat) ls
    = (lsumF (l1 :: ls) / fnat (length (l1 :: ls)), length (l1 :: ls)).
  Proof.
    apply injective_projections.
    - pose proof (acc_run_mean_mul ls l1 0) as Hm.
      simpl length. simpl fst.
      pose proof (l_fnat_S_neq0 (length ls)) as Hnz.
      change (1 + length ls)%nat with (S (length ls)) in Hm.
      rewrite l_fnat_1 in Hm.
      transitivity (fst (acc_run true (l1, 1%nat) ls) * fnat (S (length ls)) / fnat (S (length ls))).
      + field. exact Hnz.
      + rewrite Hm. simpl lsumF. field. exact Hnz.
    - rewrite acc_run_count. reflexivity.
  Qed.

  (* ---- evaluate_lml is this accumulation over the terms of evaluate_lml_terms ---- *)
  Variable inv : nat -> mat -> option mat.

  Lemma lml_scan_terms_rel (val : dterm -> F) avg s :
    forall conds models us rv0 st0 acc0 rv st,
      lml_scan inv val avg s conds models us (rv0, st0) = Some (rv, st) ->
      exists acc,
        lml_scan_terms inv s conds models us (rv0, acc0) = Some (rv, acc0 ++ acc)
        /\ st = acc_run avg st0 (map (f_logpdf val) acc)
        /\ length acc = length conds.
  Proof.
    induction conds as [|K cr IH]; intros models us rv0 st0 acc0 rv st Hs.
    - destruct models; [|destruct us; discriminate]. destruct us; [|discriminate].
      simpl in Hs. inversion Hs; subst. exists []. simpl. rewrite app_nil_r. auto.
    - destruct models as [|M mr]; [destruct us; discriminate|].
      destruct us as [|u ur]; [discriminate|].
      simpl in Hs.
      destruct (lml_scan inv val avg s cr mr ur (rv0, st0)) as [[rv' st']|] eqn:E; [|discriminate].
      destruct (IH mr ur rv0 st0 acc0 rv' st' E) as [acc' [Ht [Hst Hlen]]].
      unfold lml_body in Hs. simpl fst in Hs. simpl snd in Hs.
      destruct (f_bayes_logpdf inv s M u (f_marg s K rv')) as [[ts corrected]|] eqn:Eb; [|discriminate].
      inversion Hs; subst rv st. clear Hs.
      exists (acc' ++ [ts]). split; [|split].
      + simpl. rewrite Ht. rewrite Eb. rewrite app_assoc. reflexivity.
      + rewrite map_app. rewrite acc_run_app. rewrite <- Hst. reflexivity.
      + rewrite app_length. simpl. lia.
  Qed.

  Theorem evaluate_lml_accumulates_terms (val : dterm -> F) avg s term conds us models v :
    evaluate_lml inv val avg s term conds us models = Some v ->
    exists t0 rest,
      evaluate_lml_terms inv s term conds us models = Some (t0 :: rest)
      /\ length rest = length conds
      /\ v = fst (acc_run avg (f_logpdf val t0, 1%nat) (map (f_logpdf val) rest)).
  Proof.
    unfold evaluate_lml, evaluate_lml_terms.
    destruct us as [|u0 ur]; [discriminate|].
    destruct models as [|m0 mr]; [discriminate|].
    destruct (f_bayes_logpdf inv s (last (m0 :: mr) []) (last (u0 :: ur) []) term)
      as [[t0 updated]|]; [|discriminate].
    destruct (lml_scan inv val avg s conds (removelast (m0 :: mr)) (removelast (u0 :: ur))
                (updated, (f_logpdf val t0, 1%nat))) as [[rv [pdf n]]|] eqn:E; [|discriminate].
    intro Hv. inversion Hv; subst v. clear Hv.
    destruct (lml_scan_terms_rel val avg s conds _ _ updated _ [t0] rv (pdf, n) E)
      as [acc [Ht [Hst Hlen]]].
    exists t0, acc. rewrite Ht. simpl. split; [reflexivity|]. split; [exact Hlen|].
    rewrite <- Hst. reflexivity.
  Qed.

  (* T12.1 at the level of the model: the value of evaluate_lml is the mean
     (average_pdfs) resp. the sum of the values of the density terms, one per
     time point *)
  Theorem evaluate_lml_mean_or_sum (val : dterm -> F) avg s term conds us models v :
    evaluate_lml inv val avg s term conds us models = Some v ->
    exists terms,
      evaluate_lml_terms inv s term conds us models = Some terms
      /\ length terms = S (length conds)
      /\ v = if avg then lsumF (map (f_logpdf val) terms) / fnat (length terms)
             else lsumF (map (f_logpdf val) terms).
  Proof.
    intro Hv. destruct (evaluate_lml_accumulates_terms val avg s term conds us models v Hv)
      as [t0 [rest [Ht [Hlen Hval]]]].
    exists (t0 :: rest). split; [exact Ht|]. split; [simpl; rewrite Hlen; reflexivity|].
    destruct avg.
    - rewrite accumulator_mean in Hval. simpl fst in Hval.
      rewrite Hval. simpl. rewrite !map_length. reflexivity.
    - rewrite accumulator_sum in Hval. simpl fst in Hval. exact Hval.
  Qed.

  (* ================================================================ T12.2 *)
  (* the density term: quadratic form through a CERTIFIED two-sided inverse,
     determinant by Laplace expansion *)
  Theorem n_density_certified k c (rv : normal) (u : mat) (t : dterm) :
    n_density minv k c rv u = Some t ->
    exists Si,
      mmul k k k (n_cov rv) Si = mid k /\ mmul k k k Si (n_cov rv) = mid k
      /\ d_maha t = vsum c (fun a => vsum k (fun i =>
                      mget (msub k c u (n_mean rv)) i a
                      * mget (mmul k k c Si (msub k c u (n_mean rv))) i a))
      /\ d_det t = mdet k (n_cov rv) /\ d_k t = k /\ d_c t = c.
  Proof.
    unfold n_density. destruct (minv k (n_cov rv)) as [Si|] eqn:Hi; [|discriminate].
    intro Ht. inversion Ht; subst t. clear Ht.
    apply minv_spec in Hi. destruct Hi as [_ [H1 H2]].
    exists Si. simpl. repeat split; auto.
  Qed.

  (* bayes_rule_and_logpdf = (density of the datum under the marginalised
     observation model, Gauss.bayes_rule); the observed marginal together with the
     reverted conditional reproduces the distribution that was conditioned *)
  Theorem bayes_rule_and_logpdf_spec nin k c (M : cond) (u : mat) (rv : normal) t upd :
    bayes_rule_and_logpdf inv nin k c M u rv = Some (t, upd) ->
    n_density inv k c (c_marg nin k c M rv) u = Some t
    /\ bayes_rule inv nin k c M u rv = Some (c_marg nin k c M rv, upd)
    /\ exists bw,
         c_revert inv nin k c M rv = Some (c_marg nin k c M rv, bw)
         /\ upd = c_apply k nin c bw u
         /\ ((forall i, i < nin -> vget (c_tl M) i <> 0) ->
             (forall i, i < k -> vget (c_to M) i <> 0) ->
             c_marg k nin c bw (c_marg nin k c M rv)
             = mkN (canon nin c (n_mean rv)) (canon nin nin (n_cov rv))).
  Proof.
    unfold bayes_rule_and_logpdf, bayes_rule.
    destruct (c_revert inv nin k c M rv) as [[obs bw]|] eqn:Hr; [|discriminate].
    pose proof (c_revert_observed_is_marginal inv nin k c M rv obs bw Hr) as Hobs.
    destruct (n_density inv k c obs u) as [t'|] eqn:Hd; [|discriminate].
    intro Hs. inversion Hs; subst t' upd. clear Hs. subst obs.
    split; [exact Hd|]. split; [reflexivity|].
    exists bw. split; [reflexivity|]. split; [reflexivity|].
    intros Htl Hto.
    exact (c_revert_reproduces_prior inv nin k c M rv _ bw Htl Hto Hr).
  Qed.

  (* one step of the scan, per block: predict through the backward conditional K,
     then condition on the datum through the observation model M *)
  Theorem lml_step_is_predict_then_condition N k c (K M : cond) (u : mat) (prev : normal) t upd :
    bayes_rule_and_logpdf inv N k c M u (c_marg N N c K prev) = Some (t, upd) ->
    let predicted := c_marg N N c K prev in
    n_density inv k c (c_marg N k c M predicted) u = Some t
    /\ bayes_rule inv N k c M u predicted = Some (c_marg N k c M predicted, upd).
  Proof.
    intro Hs. cbv zeta.
    destruct (bayes_rule_and_logpdf_spec N k c M u _ t upd Hs) as [H1 [H2 _]].
    split; assumption.
  Qed.

  (* the observation models built by to_derivative have unit scalings, so the
     non-vanishing hypotheses above hold for them *)
  Lemma to_derivative_unit_scalings s i std2 (M : cond) :
    In M (to_derivative s i std2) ->
    c_tl M = vones (sh_N s) /\ c_to M = vones (sh_nout s).
  Proof.
    unfold to_derivative, sh_N, sh_nout. destruct (sh_kind s); simpl.
    - intros [<-|[]]. split; reflexivity.
    - intros [<-|[]]. split; reflexivity.
    - rewrite in_map_iff. intros [a [<- _]]. split; reflexivity.
  Qed.

  Lemma vones_neq0 n i : i < n -> vget (@vones F _ n) i <> 0.
  Proof.
    intro Hi. rewrite vget_vones by exact Hi. exact (F_1_neq_0 fth).
  Qed.

  (* ================================================================ T12.3 *)
  (* Gaussian conditioning for two scalars: (y0, y1) ~ N((m0, m1), [[s00, s01],[s01, s11]]);
     y1 ~ N(m1, s11);  y0 | y1 ~ N(m0 + s01/s11 (y1 - m1), s00 - s01^2/s11).
     r0 = y0 - m0, r1 = y1 - m1. *)
  Lemma chain_rule_scalar_algebra (s00 s01 s11 r0 r1 : F) :
    s11 <> 0 -> s00 * s11 - s01 * s01 <> 0 ->
    let v := s00 - s01 * (s01 / s11) in
    let e := r0 - s01 / s11 * r1 in
    r1 * r1 / s11 + e * e / v
    = (s11 * (r0 * r0) - (1 + 1) * s01 * (r0 * r1) + s00 * (r1 * r1)) / (s00 * s11 - s01 * s01)
    /\ s11 * v = s00 * s11 - s01 * s01
    /\ v <> 0.
  Proof.
    intros H11 Hdet. cbv zeta.
    assert (Hv : s00 - s01 * (s01 / s11) <> 0).
    { intro Hc. apply Hdet.
      transitivity (s11 * (s00 - s01 * (s01 / s11))); [field; exact H11|].
      rewrite Hc. ring. }
    split; [|split].
    - field. repeat split; try assumption;
        try (intro Hc; apply Hdet; rewrite <- Hc; ring).
    - field. exact H11.
    - exact Hv.
  Qed.

  Lemma mmul_mid_entry n (A B : mat) :
    mmul n n n A B = mid n ->
    forall i j, i < n -> j < n -> vsum n (fun l => mget A i l * mget B l j) = delta i j.
  Proof.
    intros Hm i j Hi Hj.
    rewrite <- (mget_mmul n n n A B i j Hi Hj). rewrite Hm. apply mget_mid; assumption.
  Qed.

  (* the same statement through the model's own density function: the density
     term of the JOINT distribution of two scalar observations factors into the
     term of the marginal of y1 and the term of the conditional of y0 given y1
     (the order in which evaluate_lml visits them) *)
  Theorem chain_rule_two_points (m0 m1 s00 s01 s11 y0 y1 : F) (tj t1 t0 : dterm) :
    let joint := mkN [[m0]; [m1]] [[s00; s01]; [s01; s11]] in
    let marg1 := mkN [[m1]] [[s11]] in
    let cond0 := mkN [[m0 + s01 / s11 * (y1 - m1)]] [[s00 - s01 * (s01 / s11)]] in
    n_density minv 2 1 joint [[y0]; [y1]] = Some tj ->
    n_density minv 1 1 marg1 [[y1]] = Some t1 ->
    n_density minv 1 1 cond0 [[y0]] = Some t0 ->
    d_maha tj = d_maha t1 + d_maha t0 /\ d_det tj = d_det t1 * d_det t0.
  Proof.
    cbv zeta. intros Hj H1 H0.
    apply n_density_certified in Hj. destruct Hj as [Sj [HjA [HjB [Hjm [Hjd _]]]]].
    apply n_density_certified in H1. destruct H1 as [S1 [H1A [_ [H1m [H1d _]]]]].
    apply n_density_certified in H0. destruct H0 as [S0 [H0A [_ [H0m [H0d _]]]]].
    cbn [n_cov n_mean] in *.
    (* entry equations of the certified inverses *)
    pose proof (mmul_mid_entry 2 _ _ HjA 0 0 ltac:(lia) ltac:(lia)) as E00.
    pose proof (mmul_mid_entry 2 _ _ HjA 0 1 ltac:(lia) ltac:(lia)) as E01.
    pose proof (mmul_mid_entry 2 _ _ HjA 1 0 ltac:(lia) ltac:(lia)) as E10.
    pose proof (mmul_mid_entry 2 _ _ HjA 1 1 ltac:(lia) ltac:(lia)) as E11.
    pose proof (mmul_mid_entry 1 _ _ H1A 0 0 ltac:(lia) ltac:(lia)) as F1.
    pose proof (mmul_mid_entry 1 _ _ H0A 0 0 ltac:(lia) ltac:(lia)) as F0.
    cbn in E00, E01, E10, E11, F1, F0.
    set (p := mget Sj 0 0) in *. set (q := mget Sj 0 1) in *.
    set (r := mget Sj 1 0) in *. set (w := mget Sj 1 1) in *.
    set (a1 := mget S1 0 0) in *. set (a0 := mget S0 0 0) in *.
    assert (H11 : s11 <> 0).
    { intro Hc. rewrite Hc in F1. apply (F_1_neq_0 fth). rewrite <- F1. ring. }
    assert (Hv : s00 - s01 * (s01 / s11) <> 0).
    { intro Hc. rewrite Hc in F0. apply (F_1_neq_0 fth). rewrite <- F0. ring. }
    assert (Hdet : s00 * s11 - s01 * s01 <> 0).
    { intro Hc. apply Hv.
      transitivity ((s00 * s11 - s01 * s01) / s11); [field; exact H11|]. rewrite Hc. field. exact H11. }
    (* Cramer: the certified inverse is the adjugate over the determinant *)
    assert (Dp : (s00 * s11 - s01 * s01) * p = s11).
    { transitivity (s11 * (0 + s00 * p + s01 * r) - s01 * (0 + s01 * p + s11 * r)); [ring|].
      rewrite E00, E10. ring. }
    assert (Dq : (s00 * s11 - s01 * s01) * q = - s01).
    { transitivity (s11 * (0 + s00 * q + s01 * w) - s01 * (0 + s01 * q + s11 * w)); [ring|].
      rewrite E01, E11. ring. }
    assert (Dr : (s00 * s11 - s01 * s01) * r = - s01).
    { transitivity (s00 * (0 + s01 * p + s11 * r) - s01 * (0 + s00 * p + s01 * r)); [ring|].
      rewrite E00, E10. ring. }
    assert (Dw : (s00 * s11 - s01 * s01) * w = s00).
    { transitivity (s00 * (0 + s01 * q + s11 * w) - s01 * (0 + s00 * q + s01 * w)); [ring|].
      rewrite E01, E11. ring. }
    assert (Pp : p = s11 / (s00 * s11 - s01 * s01)).
    { transitivity (((s00 * s11 - s01 * s01) * p) / (s00 * s11 - s01 * s01)); [field; exact Hdet|].
      rewrite Dp. reflexivity. }
    assert (Pq : q = - s01 / (s00 * s11 - s01 * s01)).
    { transitivity (((s00 * s11 - s01 * s01) * q) / (s00 * s11 - s01 * s01)); [field; exact Hdet|].
      rewrite Dq. reflexivity. }
    assert (Pr : r = - s01 / (s00 * s11 - s01 * s01)).
    { transitivity (((s00 * s11 - s01 * s01) * r) / (s00 * s11 - s01 * s01)); [field; exact Hdet|].
      rewrite Dr. reflexivity. }
    assert (Pw : w = s00 / (s00 * s11 - s01 * s01)).
    { transitivity (((s00 * s11 - s01 * s01) * w) / (s00 * s11 - s01 * s01)); [field; exact Hdet|].
      rewrite Dw. reflexivity. }
    assert (A1 : a1 = 1 / s11).
    { transitivity ((0 + s11 * a1) / s11); [field; exact H11|]. rewrite F1. reflexivity. }
    assert (A0 : a0 = 1 / (s00 - s01 * (s01 / s11))).
    { transitivity ((0 + (s00 - s01 * (s01 / s11)) * a0) / (s00 - s01 * (s01 / s11))); [field; split; assumption|].
      rewrite F0. reflexivity. }
    destruct (chain_rule_scalar_algebra s00 s01 s11 (y0 - m0) (y1 - m1) H11 Hdet) as [Hq [Hd _]].
    cbv zeta in Hq, Hd.
    split.
    - rewrite Hjm, H1m, H0m. cbn.
      fold p q r w a1 a0. rewrite Pp, Pq, Pr, Pw, A1, A0.
      transitivity ((s11 * ((y0 - m0) * (y0 - m0)) - (1 + 1) * s01 * ((y0 - m0) * (y1 - m1))
                     + s00 * ((y1 - m1) * (y1 - m1))) / (s00 * s11 - s01 * s01)).
      + field. exact Hdet.
      + rewrite <- Hq. field. split; assumption.
    - rewrite Hjd, H1d, H0d. cbn. rewrite <- Hd || idtac. field_simplify_eq; [ring|exact H11].
  Qed.
End LossProofs.

(* ------------------------------------------------------------------ examples:
   the hypotheses of the theorems above are satisfiable (Qc instance) *)
From Coq Require Import QArith Qcanon.
Local Close Scope Qc_scope.
Local Close Scope Q_scope.
Local Open Scope nat_scope.

Definition exq (n : Z) : Qc := Q2Qc (n # 1).
Definition ex_shape : shape := mkShape Iso 1 1.
Definition ex_term : list (@normal Qc) := [mkN [[exq 1]; [exq 0]] [[exq 2; exq 1]; [exq 1; exq 3]]].
Definition ex_cond : list (@cond Qc) :=
  [mkC [[exq 1; exq (-1)]; [exq 0; exq 1]] [[exq 0]; [exq 1]] [[exq 1; exq 0]; [exq 0; exq 1]]
       [exq 1; exq 2] [exq 1; exq 1]].
Definition ex_us : list (list (@mat Qc)) := [[[[exq 2]]]; [[[exq 1]]]].
Definition ex_models : list (list (@cond Qc)) :=
  map (to_derivative ex_shape 0) [[exq 4]; [exq 1]].

(* evaluate_lml succeeds (hypothesis of evaluate_lml_mean_or_sum) *)
Example ex_evaluate_lml_some :
  exists v, evaluate_lml (F:=Qc) minv (fun t => (d_maha t + d_det t)%F) true ex_shape ex_term [ex_cond] ex_us ex_models = Some v.
Proof. eexists. vm_compute. reflexivity. Qed.

(* one step succeeds (hypothesis of lml_step_is_predict_then_condition /
   bayes_rule_and_logpdf_spec), with non-vanishing scalings *)
Example ex_step_some :
  exists t upd,
    bayes_rule_and_logpdf (F:=Qc) minv 2 1 1 (hd (mkC [] [] [] [] []) (to_derivative ex_shape 0 [exq 4])) [[exq 2]]
      (c_marg 2 2 1 (hd (mkC [] [] [] [] []) ex_cond) (hd (mkN [] []) ex_term)) = Some (t, upd).
Proof. eexists. eexists. vm_compute. reflexivity. Qed.

(* the three densities of chain_rule_two_points exist *)
Example ex_chain_rule_hyps :
  let m0 := exq 1 in let m1 := exq 2 in let s00 := exq 2 in let s01 := exq 1 in let s11 := exq 3 in
  let y0 := exq 0 in let y1 := exq 5 in
  exists tj t1 t0,
    n_density (F:=Qc) minv 2 1 (mkN [[m0]; [m1]] [[s00; s01]; [s01; s11]]) [[y0]; [y1]] = Some tj
    /\ n_density (F:=Qc) minv 1 1 (mkN [[m1]] [[s11]]) [[y1]] = Some t1
    /\ n_density (F:=Qc) minv 1 1 (mkN [[m0 + s01 / s11 * (y1 - m1)]] [[s00 - s01 * (s01 / s11)]])%F [[y0]] = Some t0.
Proof. do 3 eexists. vm_compute. repeat split; reflexivity. Qed.
