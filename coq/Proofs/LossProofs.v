(* Proofs for C12 (Model/Loss.v).
   T12.1  accumulator: the running mean / running sum of evaluate_lml after N
          terms is the arithmetic mean / the sum of the N term values (any N, any
          values, any field of characteristic 0), and evaluate_lml is exactly
          this accumulation of the values of the terms of evaluate_lml_terms.
   T12.2  one step of the recursion = predict through the stored backward
          conditional, then condition on the datum: the density term is the
          density of the datum under the marginalised observation model, the
          carried state is Gauss.bayes_rule (C02: the Kalman update), and the
          pair (observed, reverted) reproduces the predicted distribution.
   T12.3  chain rule for two time points with scalar observations: quadratic
          form and determinant of the 2 x 2 joint covariance factor as
          marginal x conditional (chain_rule_two_points); and, at the level of
          the model, the two density terms of the time-series loss on two time
          points (one scalar-observation block, arbitrary state dimension and
          backward conditional) are the marginal and the conditional term of the
          joint assembled from the Markov factorisation
          (two_point_loss_terms_are_joint_density).  The N-point chain rule is
          NOT proved in general (the check compares the recursion with the
          direct joint density exactly for every generated N). *)
From Coq Require Import List Arith Lia Bool ZArith Field Ring.
From PD Require Import Base.Field Base.Matrix Base.Solve Model.Gauss Model.Poly
  Model.Prior Model.Solver Model.Loss Proofs.GaussProofs Proofs.FilterProofs.
Import ListNotations.
Local Open Scope nat_scope.

Section LossProofs.
  Context {F : Type} `{FL : FieldLaws F}.
  Local Open Scope F_scope.
  Add Field FFl : fth.
  Local Notation mat := (@mat F).
  Local Notation vec := (@vec F).
  Local Notation normal := (@normal F).
  Local Notation cond := (@cond F).
  Local Notation dterm := (@dterm F).

  (* ------------------------------------------------- naturals in the field *)
  Lemma l_fpos_succ p : fpos (Pos.succ p) = fpos p + (1 : F).
  Proof. induction p as [p IH|p IH|]; simpl; [rewrite IH; ring|ring|ring]. Qed.

  Lemma l_fnat_S n : fnat (S n) = fnat n + (1 : F).
  Proof.
    destruct n as [|n].
    - unfold fnat; simpl. ring.
    - unfold fnat. change (Z.of_nat (S (S n))) with (Zpos (Pos.succ (Pos.of_succ_nat n))).
      change (Z.of_nat (S n)) with (Zpos (Pos.of_succ_nat n)). simpl fZ.
      apply l_fpos_succ.
  Qed.

  Lemma l_fnat_S_neq0 n : fnat (S n) <> (0 : F).
  Proof.
    unfold fnat. change (Z.of_nat (S n)) with (Zpos (Pos.of_succ_nat n)). simpl fZ.
    apply char0.
  Qed.

  Lemma l_fnat_1 : fnat 1 = (1 : F).
  Proof. reflexivity. Qed.

  (* ================================================================ T12.1 *)
  Lemma lsumF_app l1 l2 : lsumF (l1 ++ l2) = lsumF l1 + lsumF l2.
  Proof. induction l1 as [|x l1 IH]; simpl; [ring|]. rewrite IH. ring. Qed.

  Lemma acc_run_app avg st l1 l2 :
    acc_run avg st (l1 ++ l2) = acc_run avg (acc_run avg st l1) l2.
  Proof. unfold acc_run. apply fold_left_app. Qed.

  Lemma acc_run_cons avg st x ls :
    acc_run avg st (x :: ls) = acc_run avg (acc_step avg st x) ls.
  Proof. reflexivity. Qed.

  Lemma acc_run_count avg ls : forall st, snd (acc_run avg st ls) = (snd st + length ls)%nat.
  Proof.
    induction ls as [|x r IH]; intro st.
    - simpl. lia.
    - rewrite acc_run_cons, IH. unfold acc_step. simpl. lia.
  Qed.

  Lemma acc_run_sum ls : forall l n, fst (acc_run false (l, n) ls) = l + lsumF ls.
  Proof.
    induction ls as [|x r IH]; intros l n.
    - simpl. ring.
    - rewrite acc_run_cons. unfold acc_step. simpl fst; simpl snd.
      rewrite IH. simpl. ring.
  Qed.

  Lemma acc_run_mean_mul ls : forall l n,
    fst (acc_run true (l, S n) ls) * fnat (S n + length ls) = l * fnat (S n) + lsumF ls.
  Proof.
    induction ls as [|x r IH]; intros l n.
    - simpl. rewrite Nat.add_0_r. ring.
    - rewrite acc_run_cons. unfold acc_step. simpl fst; simpl snd.
      replace (S n + length (x :: r))%nat with (S (S n) + length r)%nat by (simpl; lia).
      rewrite IH. simpl lsumF.
      pose proof (l_fnat_S_neq0 (S n)) as Hnz. field. exact Hnz.
  Qed.

  (* T12.1 (sum): after the first term l1 and the further terms ls the running
     value is the sum of all terms *)
  Theorem accumulator_sum (l1 : F) (ls : list F) :
    acc_run false (l1, 1%nat) ls = (lsumF (l1 :: ls), length (l1 :: ls)).
  Proof.
    apply injective_projections.
    - rewrite acc_run_sum. reflexivity.
    - rewrite acc_run_count. reflexivity.
  Qed.

  (* T12.1 (mean): ... the arithmetic mean of all N = 1 + |ls| terms *)
  Theorem accumulator_mean (l1 : F) (ls : list F) :
    acc_run true (l1, 1%nat) ls
    = (lsumF (l1 :: ls) / fnat (length (l1 :: ls)), length (l1 :: ls)).
  Proof.
    apply injective_projections.
    - pose proof (acc_run_mean_mul ls l1 0) as Hm.
      simpl length. simpl fst.
      pose proof (l_fnat_S_neq0 (length ls)) as Hnz.
      change (1 + length ls)%nat with (S (length ls)) in Hm.
      rewrite l_fnat_1 in Hm.
      transitivity (fst (acc_run true (l1, 1%nat) ls) * fnat (S (length ls)) / fnat (S (length ls))).
      + field. exact Hnz.
      + rewrite Hm. simpl lsumF. field. exact Hnz.
    - rewrite acc_run_count. reflexivity.
  Qed.

  (* ---- evaluate_lml is this accumulation over the terms of evaluate_lml_terms ---- *)
  Variable inv : nat -> mat -> option mat.

  Lemma lml_scan_terms_rel (val : dterm -> F) avg s :
    forall conds models us rv0 st0 acc0 rv st,
      lml_scan inv val avg s conds models us (rv0, st0) = Some (rv, st) ->
      exists acc,
        lml_scan_terms inv s conds models us (rv0, acc0) = Some (rv, acc0 ++ acc)
        /\ st = acc_run avg st0 (map (f_logpdf val) acc)
        /\ length acc = length conds.
  Proof.
    induction conds as [|K cr IH]; intros models us rv0 st0 acc0 rv st Hs.
    - destruct models; [|destruct us; discriminate]. destruct us; [|discriminate].
      simpl in Hs. inversion Hs; subst. exists []. simpl. rewrite app_nil_r. auto.
    - destruct models as [|M mr]; [destruct us; discriminate|].
      destruct us as [|u ur]; [discriminate|].
      simpl in Hs.
      destruct (lml_scan inv val avg s cr mr ur (rv0, st0)) as [[rv' st']|] eqn:E; [|discriminate].
      destruct (IH mr ur rv0 st0 acc0 rv' st' E) as [acc' [Ht [Hst Hlen]]].
      unfold lml_body in Hs. simpl fst in Hs. simpl snd in Hs.
      destruct (f_bayes_logpdf inv s M u (f_marg s K rv')) as [[ts corrected]|] eqn:Eb; [|discriminate].
      inversion Hs; subst rv st. clear Hs.
      exists (acc' ++ [ts]). split; [|split].
      + simpl. rewrite Ht. rewrite Eb. rewrite app_assoc. reflexivity.
      + rewrite map_app. rewrite acc_run_app. rewrite <- Hst. reflexivity.
      + rewrite app_length. simpl. lia.
  Qed.

  Theorem evaluate_lml_accumulates_terms (val : dterm -> F) avg s term conds us models v :
    evaluate_lml inv val avg s term conds us models = Some v ->
    exists t0 rest,
      evaluate_lml_terms inv s term conds us models = Some (t0 :: rest)
      /\ length rest = length conds
      /\ v = fst (acc_run avg (f_logpdf val t0, 1%nat) (map (f_logpdf val) rest)).
  Proof.
    unfold evaluate_lml, evaluate_lml_terms.
    destruct us as [|u0 ur]; [discriminate|].
    destruct models as [|m0 mr]; [discriminate|].
    destruct (f_bayes_logpdf inv s (last (m0 :: mr) []) (last (u0 :: ur) []) term)
      as [[t0 updated]|]; [|discriminate].
    destruct (lml_scan inv val avg s conds (removelast (m0 :: mr)) (removelast (u0 :: ur))
                (updated, (f_logpdf val t0, 1%nat))) as [[rv [pdf n]]|] eqn:E; [|discriminate].
    intro Hv. inversion Hv; subst v. clear Hv.
    destruct (lml_scan_terms_rel val avg s conds _ _ updated _ [t0] rv (pdf, n) E)
      as [acc [Ht [Hst Hlen]]].
    exists t0, acc. rewrite Ht. simpl. split; [reflexivity|]. split; [exact Hlen|].
    rewrite <- Hst. reflexivity.
  Qed.

  (* T12.1 at the level of the model: the value of evaluate_lml is the mean
     (average_pdfs) resp. the sum of the values of the density terms, one per
     time point *)
  Theorem evaluate_lml_mean_or_sum (val : dterm -> F) avg s term conds us models v :
    evaluate_lml inv val avg s term conds us models = Some v ->
    exists terms,
      evaluate_lml_terms inv s term conds us models = Some terms
      /\ length terms = S (length conds)
      /\ v = if avg then lsumF (map (f_logpdf val) terms) / fnat (length terms)
             else lsumF (map (f_logpdf val) terms).
  Proof.
    intro Hv. destruct (evaluate_lml_accumulates_terms val avg s term conds us models v Hv)
      as [t0 [rest [Ht [Hlen Hval]]]].
    exists (t0 :: rest). split; [exact Ht|]. split; [simpl; rewrite Hlen; reflexivity|].
    destruct avg.
    - rewrite accumulator_mean in Hval. simpl fst in Hval.
      rewrite Hval. simpl. rewrite !map_length. reflexivity.
    - rewrite accumulator_sum in Hval. simpl fst in Hval. exact Hval.
  Qed.

  (* ================================================================ T12.2 *)
  (* the density term: quadratic form through a CERTIFIED two-sided inverse,
     determinant by Laplace expansion *)
  Theorem n_density_certified k c (rv : normal) (u : mat) (t : dterm) :
    n_density minv k c rv u = Some t ->
    exists Si,
      mmul k k k (n_cov rv) Si = mid k /\ mmul k k k Si (n_cov rv) = mid k
      /\ d_maha t = vsum c (fun a => vsum k (fun i =>
                      mget (msub k c u (n_mean rv)) i a
                      * mget (mmul k k c Si (msub k c u (n_mean rv))) i a))
      /\ d_det t = mdet k (n_cov rv) /\ d_k t = k /\ d_c t = c.
  Proof.
    unfold n_density. destruct (minv k (n_cov rv)) as [Si|] eqn:Hi; [|discriminate].
    intro Ht. inversion Ht; subst t. clear Ht.
    apply minv_spec in Hi. destruct Hi as [_ [H1 H2]].
    exists Si. simpl. repeat split; auto.
  Qed.

  (* bayes_rule_and_logpdf = (density of the datum under the marginalised
     observation model, Gauss.bayes_rule); the observed marginal together with the
     reverted conditional reproduces the distribution that was conditioned *)
  Theorem bayes_rule_and_logpdf_spec nin k c (M : cond) (u : mat) (rv : normal) t upd :
    bayes_rule_and_logpdf inv nin k c M u rv = Some (t, upd) ->
    n_density inv k c (c_marg nin k c M rv) u = Some t
    /\ bayes_rule inv nin k c M u rv = Some (c_marg nin k c M rv, upd)
    /\ exists bw,
         c_revert inv nin k c M rv = Some (c_marg nin k c M rv, bw)
         /\ upd = c_apply k nin c bw u
         /\ ((forall i, i < nin -> vget (c_tl M) i <> 0) ->
             (forall i, i < k -> vget (c_to M) i <> 0) ->
             c_marg k nin c bw (c_marg nin k c M rv)
             = mkN (canon nin c (n_mean rv)) (canon nin nin (n_cov rv))).
  Proof.
    unfold bayes_rule_and_logpdf, bayes_rule.
    destruct (c_revert inv nin k c M rv) as [[obs bw]|] eqn:Hr; [|discriminate].
    pose proof (c_revert_observed_is_marginal inv nin k c M rv obs bw Hr) as Hobs.
    destruct (n_density inv k c obs u) as [t'|] eqn:Hd; [|discriminate].
    intro Hs. inversion Hs; subst t' upd. clear Hs. subst obs.
    split; [exact Hd|]. split; [reflexivity|].
    exists bw. split; [reflexivity|]. split; [reflexivity|].
    intros Htl Hto.
    exact (c_revert_reproduces_prior inv nin k c M rv _ bw Htl Hto Hr).
  Qed.

  (* one step of the scan, per block: predict through the backward conditional K,
     then condition on the datum through the observation model M *)
  Theorem lml_step_is_predict_then_condition N k c (K M : cond) (u : mat) (prev : normal) t upd :
    bayes_rule_and_logpdf inv N k c M u (c_marg N N c K prev) = Some (t, upd) ->
    let predicted := c_marg N N c K prev in
    n_density inv k c (c_marg N k c M predicted) u = Some t
    /\ bayes_rule inv N k c M u predicted = Some (c_marg N k c M predicted, upd).
  Proof.
    intro Hs. cbv zeta.
    destruct (bayes_rule_and_logpdf_spec N k c M u _ t upd Hs) as [H1 [H2 _]].
    split; assumption.
  Qed.

  (* the observation models built by to_derivative have unit scalings, so the
     non-vanishing hypotheses above hold for them *)
  Lemma to_derivative_unit_scalings s i std2 (M : cond) :
    In M (to_derivative s i std2) ->
    c_tl M = vones (sh_N s) /\ c_to M = vones (sh_nout s).
  Proof.
    unfold to_derivative, sh_N, sh_nout. destruct (sh_kind s); simpl.
    - intros [<-|[]]. split; reflexivity.
    - intros [<-|[]]. split; reflexivity.
    - rewrite in_map_iff. intros [a [<- _]]. split; reflexivity.
  Qed.

  Lemma vones_neq0 n i : i < n -> vget (@vones F _ n) i <> 0.
  Proof.
    intro Hi. rewrite vget_vones by exact Hi. exact (F_1_neq_0 fth).
  Qed.

  (* ================================================================ T12.3 *)
  (* Gaussian conditioning for two scalars: (y0, y1) ~ N((m0, m1), [[s00, s01],[s01, s11]]);
     y1 ~ N(m1, s11);  y0 | y1 ~ N(m0 + s01/s11 (y1 - m1), s00 - s01^2/s11).
     r0 = y0 - m0, r1 = y1 - m1. *)
  Lemma chain_rule_scalar_algebra (s00 s01 s11 r0 r1 : F) :
    s11 <> 0 -> s00 * s11 - s01 * s01 <> 0 ->
    let v := s00 - s01 * (s01 / s11) in
    let e := r0 - s01 / s11 * r1 in
    r1 * r1 / s11 + e * e / v
    = (s11 * (r0 * r0) - (1 + 1) * s01 * (r0 * r1) + s00 * (r1 * r1)) / (s00 * s11 - s01 * s01)
    /\ s11 * v = s00 * s11 - s01 * s01
    /\ v <> 0.
  Proof.
    intros H11 Hdet. cbv zeta.
    assert (Hv : s00 - s01 * (s01 / s11) <> 0).
    { intro Hc. apply Hdet.
      transitivity (s11 * (s00 - s01 * (s01 / s11))); [field; exact H11|].
      rewrite Hc. ring. }
    split; [|split].
    - field. repeat split; try assumption;
        try (intro Hc; apply Hdet; rewrite <- Hc; ring).
    - field. exact H11.
    - exact Hv.
  Qed.

  Lemma mmul_mid_entry n (A B : mat) :
    mmul n n n A B = mid n ->
    forall i j, i < n -> j < n -> vsum n (fun l => mget A i l * mget B l j) = delta i j.
  Proof.
    intros Hm i j Hi Hj.
    rewrite <- (mget_mmul n n n A B i j Hi Hj). rewrite Hm. apply mget_mid; assumption.
  Qed.

  (* the same statement through the model's own density function: the density
     term of the JOINT distribution of two scalar observations factors into the
     term of the marginal of y1 and the term of the conditional of y0 given y1
     (the order in which evaluate_lml visits them) *)
  Theorem chain_rule_two_points (m0 m1 s00 s01 s11 y0 y1 : F) (tj t1 t0 : dterm) :
    let joint := mkN [[m0]; [m1]] [[s00; s01]; [s01; s11]] in
    let marg1 := mkN [[m1]] [[s11]] in
    let cond0 := mkN [[m0 + s01 / s11 * (y1 - m1)]] [[s00 - s01 * (s01 / s11)]] in
    n_density minv 2 1 joint [[y0]; [y1]] = Some tj ->
    n_density minv 1 1 marg1 [[y1]] = Some t1 ->
    n_density minv 1 1 cond0 [[y0]] = Some t0 ->
    d_maha tj = d_maha t1 + d_maha t0 /\ d_det tj = d_det t1 * d_det t0.
  Proof.
    cbv zeta. intros Hj H1 H0.
    apply n_density_certified in Hj. destruct Hj as [Sj [HjA [HjB [Hjm [Hjd _]]]]].
    apply n_density_certified in H1. destruct H1 as [S1 [H1A [_ [H1m [H1d _]]]]].
    apply n_density_certified in H0. destruct H0 as [S0 [H0A [_ [H0m [H0d _]]]]].
    cbn [n_cov n_mean] in *.
    (* entry equations of the certified inverses *)
    pose proof (mmul_mid_entry 2 _ _ HjA 0 0 ltac:(lia) ltac:(lia)) as E00.
    pose proof (mmul_mid_entry 2 _ _ HjA 0 1 ltac:(lia) ltac:(lia)) as E01.
    pose proof (mmul_mid_entry 2 _ _ HjA 1 0 ltac:(lia) ltac:(lia)) as E10.
    pose proof (mmul_mid_entry 2 _ _ HjA 1 1 ltac:(lia) ltac:(lia)) as E11.
    pose proof (mmul_mid_entry 1 _ _ H1A 0 0 ltac:(lia) ltac:(lia)) as F1.
    pose proof (mmul_mid_entry 1 _ _ H0A 0 0 ltac:(lia) ltac:(lia)) as F0.
    cbn in E00, E01, E10, E11, F1, F0.
    set (p := mget Sj 0 0) in *. set (q := mget Sj 0 1) in *.
    set (r := mget Sj 1 0) in *. set (w := mget Sj 1 1) in *.
    set (a1 := mget S1 0 0) in *. set (a0 := mget S0 0 0) in *.
    assert (H11 : s11 <> 0).
    { intro Hc. rewrite Hc in F1. apply (F_1_neq_0 fth). rewrite <- F1. ring. }
    assert (Hv : s00 - s01 * (s01 / s11) <> 0).
    { intro Hc. rewrite Hc in F0. apply (F_1_neq_0 fth). rewrite <- F0. ring. }
    assert (Hdet : s00 * s11 - s01 * s01 <> 0).
    { intro Hc. apply Hv.
      transitivity ((s00 * s11 - s01 * s01) / s11); [field; exact H11|]. rewrite Hc. field. exact H11. }
    (* Cramer: the certified inverse is the adjugate over the determinant *)
    assert (Dp : (s00 * s11 - s01 * s01) * p = s11).
    { transitivity (s11 * (0 + s00 * p + s01 * r) - s01 * (0 + s01 * p + s11 * r)); [ring|].
      rewrite E00, E10. ring. }
    assert (Dq : (s00 * s11 - s01 * s01) * q = - s01).
    { transitivity (s11 * (0 + s00 * q + s01 * w) - s01 * (0 + s01 * q + s11 * w)); [ring|].
      rewrite E01, E11. ring. }
    assert (Dr : (s00 * s11 - s01 * s01) * r = - s01).
    { transitivity (s00 * (0 + s01 * p + s11 * r) - s01 * (0 + s00 * p + s01 * r)); [ring|].
      rewrite E00, E10. ring. }
    assert (Dw : (s00 * s11 - s01 * s01) * w = s00).
    { transitivity (s00 * (0 + s01 * q + s11 * w) - s01 * (0 + s00 * q + s01 * w)); [ring|].
      rewrite E01, E11. ring. }
    assert (Pp : p = s11 / (s00 * s11 - s01 * s01)).
    { transitivity (((s00 * s11 - s01 * s01) * p) / (s00 * s11 - s01 * s01)); [field; exact Hdet|].
      rewrite Dp. reflexivity. }
    assert (Pq : q = - s01 / (s00 * s11 - s01 * s01)).
    { transitivity (((s00 * s11 - s01 * s01) * q) / (s00 * s11 - s01 * s01)); [field; exact Hdet|].
      rewrite Dq. reflexivity. }
    assert (Pr : r = - s01 / (s00 * s11 - s01 * s01)).
    { transitivity (((s00 * s11 - s01 * s01) * r) / (s00 * s11 - s01 * s01)); [field; exact Hdet|].
      rewrite Dr. reflexivity. }
    assert (Pw : w = s00 / (s00 * s11 - s01 * s01)).
    { transitivity (((s00 * s11 - s01 * s01) * w) / (s00 * s11 - s01 * s01)); [field; exact Hdet|].
      rewrite Dw. reflexivity. }
    assert (A1 : a1 = 1 / s11).
    { transitivity ((0 + s11 * a1) / s11); [field; exact H11|]. rewrite F1. reflexivity. }
    assert (A0 : a0 = 1 / (s00 - s01 * (s01 / s11))).
    { transitivity ((0 + (s00 - s01 * (s01 / s11)) * a0) / (s00 - s01 * (s01 / s11))); [field; split; assumption|].
      rewrite F0. reflexivity. }
    destruct (chain_rule_scalar_algebra s00 s01 s11 (y0 - m0) (y1 - m1) H11 Hdet) as [Hq [Hd _]].
    cbv zeta in Hq, Hd.
    split.
    - rewrite Hjm, H1m, H0m. cbn.
      fold p q r w a1 a0. rewrite Pp, Pq, Pr, Pw, A1, A0.
      transitivity ((s11 * ((y0 - m0) * (y0 - m0)) - (1 + 1) * s01 * ((y0 - m0) * (y1 - m1))
                     + s00 * ((y1 - m1) * (y1 - m1))) / (s00 * s11 - s01 * s01)).
      + field. exact Hdet.
      + rewrite <- Hq. field. split; assumption.
    - rewrite Hjd, H1d, H0d. cbn. rewrite <- Hd || idtac. field_simplify_eq; [ring|exact H11].
  Qed.
End LossProofs.

(* ============================================ T12.3 at the level of the model *)
Section LossTwoPoint.
  Context {F : Type} `{FL : FieldLaws F}.
  Local Open Scope F_scope.
  Add Field FFl2 : fth.
  Local Notation mat := (@mat F).
  Local Notation vec := (@vec F).
  Local Notation normal := (@normal F).
  Local Notation cond := (@cond F).
  Local Notation dterm := (@dterm F).

  (* the observation model of to_derivative for one scalar-observation block:
     row selecting coordinate i, noise variance r *)
  Definition sel_obs (N i : nat) (r : F) : cond :=
    from_linop_and_noise N 1 (mk 1 N (fun _ col => delta i col)) (obs_noise 1 1 (fun _ => r)).

  Lemma delta_sym i j : (delta i j : F) = delta j i.
  Proof. unfold delta. rewrite Nat.eqb_sym. reflexivity. Qed.

  Lemma vsum_1 (f : nat -> F) : vsum 1 f = f 0%nat.
  Proof. simpl. ring. Qed.

  Lemma vsum_delta_l' n i (f : nat -> F) : i < n -> vsum n (fun k => delta i k * f k) = f i.
  Proof. apply vsum_delta_l. Qed.
  Lemma vsum_delta_r' n i (f : nat -> F) : i < n -> vsum n (fun k => f k * delta i k) = f i.
  Proof.
    intro Hi. rewrite <- (vsum_delta_l n i f Hi). apply vsum_ext. intros k _. ring.
  Qed.

  Lemma mk_1_1 (f : nat -> nat -> F) : mk 1 1 f = [[f 0%nat 0%nat]].
  Proof. reflexivity. Qed.

  (* marginalising through the selecting observation model *)
  Lemma obs_marg_select N i r (rv : normal) : i < N ->
    c_marg N 1 1 (sel_obs N i r) rv = mkN [[mget (n_mean rv) i 0]] [[mget (n_cov rv) i i + r]].
  Proof.
    intro Hi. unfold c_marg, sel_obs, from_linop_and_noise, obs_noise.
    cbn [c_A c_b c_Q c_tl c_to n_mean n_cov].
    f_equal.
    - unfold scale_rows at 1. rewrite mk_1_1. f_equal. f_equal.
      rewrite vget_vones by lia.
      rewrite mget_madd by lia. rewrite mget_mmul by lia.
      rewrite (vsum_ext N _ (fun l => delta i l * mget (n_mean rv) l 0)).
      2:{ intros l Hl. rewrite mget_mk by lia. rewrite mget_scale_rows by lia.
          rewrite vget_vones by lia. ring. }
      rewrite vsum_delta_l by exact Hi.
      unfold mzero. rewrite mget_mk by lia. ring.
    - unfold dsand at 1. rewrite mk_1_1. f_equal. f_equal.
      rewrite !vget_vones by lia.
      rewrite mget_madd by lia. rewrite mget_sandwich by lia.
      rewrite (vsum_ext N _ (fun k => mget (n_cov rv) i k * delta i k)).
      2:{ intros k Hk. rewrite mget_mk by lia.
          rewrite (vsum_ext N _ (fun l => delta i l * mget (n_cov rv) l k)).
          2:{ intros l Hl. rewrite mget_mk by lia. rewrite mget_dsand by lia.
              rewrite !vget_vones by lia. ring. }
          rewrite vsum_delta_l by exact Hi. reflexivity. }
      rewrite vsum_delta_r' by exact Hi.
      rewrite mget_mk by lia. simpl. ring.
  Qed.

  (* conditioning on a scalar observation of coordinate i: the updated mean and
     covariance, entrywise (si = 1 / (P_ii + r) through the certified inverse) *)
  Lemma revert_select_entries N i r (mu P : mat) obs bw (y : F) :
    i < N ->
    c_revert minv N 1 1 (sel_obs N i r) (mkN mu P) = Some (obs, bw) ->
    exists si,
      (mget P i i + r) * si = 1
      /\ (forall l, l < N ->
            mget (n_mean (c_apply 1 N 1 bw [[y]])) l 0
            = mget mu l 0 + mget P i l * si * (y - mget mu i 0))
      /\ (forall l m, l < N -> m < N ->
            mget (n_cov (c_apply 1 N 1 bw [[y]])) l m
            = mget P l m - mget P i l * si * mget P i m).
  Proof.
    intros Hi. unfold c_revert, sel_obs, from_linop_and_noise, obs_noise.
    cbn [c_A c_b c_Q c_tl c_to n_mean n_cov]. cbv zeta.
    set (A := mk 1 N (fun _ col : nat => delta i col)).
    set (m' := scale_rows N 1 (vones N) mu).
    set (P' := dsand N (vones N) P).
    set (AP := mmul 1 N N A P').
    set (Q := mk 1 1 (fun i0 j : nat => if Nat.eqb i0 j then r else 0)).
    set (S := madd 1 1 (mmul 1 N 1 AP (mtr 1 N A)) Q).
    assert (HA : forall l, l < N -> mget A 0 l = delta i l).
    { intros l Hl. unfold A. rewrite mget_mk by lia. reflexivity. }
    assert (HP' : forall a b, a < N -> b < N -> mget P' a b = mget P a b).
    { intros a b Ha Hb. unfold P'. rewrite mget_dsand by lia. rewrite !vget_vones by lia. ring. }
    assert (Hm' : forall l, l < N -> mget m' l 0 = mget mu l 0).
    { intros l Hl. unfold m'. rewrite mget_scale_rows by lia. rewrite vget_vones by lia. ring. }
    assert (HAP : forall l, l < N -> mget AP 0 l = mget P i l).
    { intros l Hl. unfold AP. rewrite mget_mmul by lia.
      rewrite (vsum_ext N _ (fun j => delta i j * mget P j l)).
      2:{ intros j Hj. rewrite HA by lia. rewrite HP' by lia. reflexivity. }
      exact (vsum_delta_l N i (fun j => mget P j l) Hi). }
    assert (HS : mget S 0 0 = mget P i i + r).
    { unfold S. rewrite mget_madd by lia. rewrite mget_mmul by lia.
      rewrite (vsum_ext N _ (fun l => mget P i l * delta i l)).
      2:{ intros l Hl. rewrite HAP by lia. rewrite mget_mtr by lia. rewrite HA by lia. reflexivity. }
      rewrite vsum_delta_r' by exact Hi. unfold Q. rewrite mget_mk by lia. simpl. ring. }
    destruct (minv 1 S) as [Si|] eqn:Hinv; [|discriminate].
    intro Hs. inversion Hs; subst obs bw. clear Hs.
    apply minv_spec in Hinv. destruct Hinv as [_ [HSi _]].
    pose proof (mmul_mid_entry 1 _ _ HSi 0 0 ltac:(lia) ltac:(lia)) as E.
    rewrite vsum_1 in E. rewrite HS in E.
    change (delta 0 0 : F) with (1 : F) in E.
    set (si := mget Si 0 0) in *.
    exists si. split; [exact E|].
    set (G := mmul N 1 1 (mtr 1 N AP) Si).
    set (m_obs := madd 1 1 (mmul 1 N 1 A m') (mzero 1 1)).
    assert (HG : forall l, l < N -> mget G l 0 = mget P i l * si).
    { intros l Hl. unfold G. rewrite mget_mmul by lia. rewrite vsum_1.
      rewrite mget_mtr by lia. rewrite HAP by lia. reflexivity. }
    assert (Hmo : mget m_obs 0 0 = mget mu i 0).
    { unfold m_obs. rewrite mget_madd by lia. rewrite mget_mmul by lia.
      rewrite (vsum_ext N _ (fun j => delta i j * mget mu j 0)).
      2:{ intros j Hj. rewrite HA by lia. rewrite Hm' by lia. reflexivity. }
      rewrite vsum_delta_l by exact Hi. unfold mzero. rewrite mget_mk by lia. ring. }
    unfold c_apply. cbn [c_A c_b c_Q c_tl c_to n_mean n_cov].
    split.
    - intros l Hl.
      rewrite mget_scale_rows by lia. rewrite vget_vinv by lia. rewrite vget_vones by lia.
      rewrite finv_1.
      rewrite mget_madd by lia. rewrite mget_mmul by lia. rewrite vsum_1.
      rewrite mget_scale_rows by lia. rewrite vget_vinv by lia. rewrite vget_vones by lia.
      rewrite finv_1.
      rewrite mget_msub by lia. rewrite mget_mmul by lia. rewrite vsum_1.
      rewrite HG by lia. rewrite Hmo. rewrite Hm' by lia.
      change (mget [[y]] 0 0) with y. ring.
    - intros l m Hl Hm.
      rewrite mget_dsand by lia. rewrite !vget_vinv by lia. rewrite !vget_vones by lia.
      rewrite finv_1.
      rewrite mget_msub by lia. rewrite HP' by lia.
      rewrite mget_sandwich by lia. rewrite vsum_1. rewrite vsum_1.
      rewrite !HG by lia. rewrite HS.
      transitivity (mget P l m - mget P i l * si * ((mget P i i + r) * si) * mget P i m); [ring|].
      rewrite E. ring.
  Qed.

  (* entries of a marginalisation through an arbitrary conditional (c = 1) *)
  Lemma c_marg_mean_entry N (K : cond) (rv : normal) a : a < N ->
    mget (n_mean (c_marg N N 1 K rv)) a 0
    = vget (c_to K) a * (vsum N (fun l => mget (c_A K) a l * (vget (c_tl K) l * mget (n_mean rv) l 0))
                         + mget (c_b K) a 0).
  Proof.
    intro Ha. unfold c_marg. cbn [n_mean].
    rewrite mget_scale_rows by lia. rewrite mget_madd by lia. rewrite mget_mmul by lia.
    f_equal. f_equal. apply vsum_ext. intros l Hl. rewrite mget_scale_rows by lia. reflexivity.
  Qed.

  Lemma c_marg_cov_entry N (K : cond) (rv : normal) a b : a < N -> b < N ->
    mget (n_cov (c_marg N N 1 K rv)) a b
    = vget (c_to K) a
      * (vsum N (fun k => vsum N (fun l =>
           mget (c_A K) a l * (vget (c_tl K) l * mget (n_cov rv) l k * vget (c_tl K) k)) * mget (c_A K) b k)
         + mget (c_Q K) a b)
      * vget (c_to K) b.
  Proof.
    intros Ha Hb. unfold c_marg. cbn [n_cov].
    rewrite mget_dsand by lia. rewrite mget_madd by lia. rewrite mget_sandwich by lia.
    f_equal. f_equal. f_equal. apply vsum_ext. intros k Hk. f_equal.
    apply vsum_ext. intros l Hl. rewrite mget_dsand by lia. reflexivity.
  Qed.

  Definition symmetricN (N : nat) (P : mat) : Prop :=
    forall a b, a < N -> b < N -> mget P a b = mget P b a.

  (* T12.3 at the level of the model (partial: two time points, one block,
     scalar observations, arbitrary state dimension N and backward conditional K).
     The two density terms produced by the recursion -- terminal update, then
     predict through K and update -- combine to the density term of the JOINT
     Gaussian of (y0, y1) assembled from the Markov factorisation:
       x1 ~ N(mu, P),  x0 | x1 through K,  Cov(x0, x1) = A_plain P,
       y_j = (x_j)_i + N(0, r_j). *)
  Theorem two_point_recursion_is_joint_density N i (K : cond) (mu P : mat) (r0 r1 y0 y1 : F)
          (t1 t0 tj : dterm) (upd1 upd0 : normal) :
    i < N -> symmetricN N P ->
    bayes_rule_and_logpdf minv N 1 1 (sel_obs N i r1) [[y1]] (mkN mu P) = Some (t1, upd1) ->
    bayes_rule_and_logpdf minv N 1 1 (sel_obs N i r0) [[y0]] (c_marg N N 1 K upd1) = Some (t0, upd0) ->
    let x0 := c_marg N N 1 K (mkN mu P) in
    let m1 := mget mu i 0 in
    let m0 := mget (n_mean x0) i 0 in
    let s11 := mget P i i + r1 in
    let s00 := mget (n_cov x0) i i + r0 in
    let s01 := vsum N (fun l => mget (c_A (c_plain N N 1 K)) i l * mget P l i) in
    n_density minv 2 1 (mkN [[m0]; [m1]] [[s00; s01]; [s01; s11]]) [[y0]; [y1]] = Some tj ->
    d_maha tj = d_maha t1 + d_maha t0 /\ d_det tj = d_det t1 * d_det t0.
  Proof.
    intros Hi Hsym H1 H0. cbv zeta. intro Hj.
    destruct (bayes_rule_and_logpdf_spec minv N 1 1 _ _ _ t1 upd1 H1) as [D1 [_ [bw1 [R1 [U1 _]]]]].
    destruct (bayes_rule_and_logpdf_spec minv N 1 1 _ _ _ t0 upd0 H0) as [D0 _].
    rewrite obs_marg_select in D1 by exact Hi. cbn [n_mean n_cov] in D1.
    rewrite obs_marg_select in D0 by exact Hi.
    destruct (revert_select_entries N i r1 mu P _ bw1 y1 Hi R1) as [si [Esi [Um Uc]]].
    rewrite <- U1 in Um, Uc.
    set (s11 := mget P i i + r1) in *.
    assert (H11 : s11 <> 0).
    { intro Hc. rewrite Hc in Esi. apply (F_1_neq_0 fth). rewrite <- Esi. ring. }
    assert (Hsi : si = 1 / s11).
    { transitivity ((s11 * si) / s11); [field; exact H11|]. rewrite Esi. reflexivity. }
    set (w := fun l => vget (c_to K) i * mget (c_A K) i l * vget (c_tl K) l).
    set (s01 := vsum N (fun l => mget (c_A (c_plain N N 1 K)) i l * mget P l i)) in *.
    assert (Hs01a : vsum N (fun l => w l * mget P i l) = s01).
    { unfold s01. apply vsum_ext. intros l Hl. unfold c_plain. cbn [c_A].
      rewrite mget_mk by lia. unfold w. rewrite (Hsym i l) by lia. reflexivity. }
    (* predicted mean *)
    assert (Hpm : mget (n_mean (c_marg N N 1 K upd1)) i 0
                  = mget (n_mean (c_marg N N 1 K (mkN mu P))) i 0 + s01 / s11 * (y1 - mget mu i 0)).
    { rewrite !c_marg_mean_entry by exact Hi. cbn [n_mean].
      rewrite (vsum_ext N (fun l => mget (c_A K) i l * (vget (c_tl K) l * mget (n_mean upd1) l 0))
                 (fun l => mget (c_A K) i l * (vget (c_tl K) l * mget mu l 0)
                           + (mget (c_A K) i l * vget (c_tl K) l * mget P i l) * (si * (y1 - mget mu i 0)))).
      2:{ intros l Hl. rewrite Um by lia. ring. }
      rewrite vsum_add. rewrite vsum_scale_r.
      rewrite <- Hs01a. unfold w.
      rewrite (vsum_ext N (fun l => vget (c_to K) i * mget (c_A K) i l * vget (c_tl K) l * mget P i l)
                 (fun l => vget (c_to K) i * (mget (c_A K) i l * vget (c_tl K) l * mget P i l))).
      2:{ intros l Hl. ring. }
      rewrite vsum_scale_l. rewrite Hsi. field. exact H11. }
    (* predicted covariance *)
    assert (Hpc : mget (n_cov (c_marg N N 1 K upd1)) i i + r0
                  = (mget (n_cov (c_marg N N 1 K (mkN mu P))) i i + r0) - s01 * (s01 / s11)).
    { rewrite !c_marg_cov_entry by exact Hi. cbn [n_cov].
      set (T1 := vsum N (fun l => mget (c_A K) i l * vget (c_tl K) l * mget P i l)).
      assert (HT1 : vget (c_to K) i * T1 = s01).
      { rewrite <- Hs01a. unfold T1, w. rewrite <- vsum_scale_l. apply vsum_ext. intros l Hl. ring. }
      rewrite (vsum_ext N
                 (fun k => vsum N (fun l => mget (c_A K) i l * (vget (c_tl K) l * mget (n_cov upd1) l k * vget (c_tl K) k))
                           * mget (c_A K) i k)
                 (fun k => vsum N (fun l => mget (c_A K) i l * (vget (c_tl K) l * mget P l k * vget (c_tl K) k))
                           * mget (c_A K) i k
                           - (mget (c_A K) i k * vget (c_tl K) k * mget P i k) * (T1 * si))).
      2:{ intros k Hk.
          rewrite (vsum_ext N (fun l => mget (c_A K) i l * (vget (c_tl K) l * mget (n_cov upd1) l k * vget (c_tl K) k))
                     (fun l => mget (c_A K) i l * (vget (c_tl K) l * mget P l k * vget (c_tl K) k)
                               - (mget (c_A K) i l * vget (c_tl K) l * mget P i l) * (si * mget P i k * vget (c_tl K) k))).
          2:{ intros l Hl. rewrite Uc by lia. ring. }
          rewrite vsum_sub. rewrite vsum_scale_r. fold T1. ring. }
      rewrite vsum_sub. rewrite vsum_scale_r. fold T1.
      rewrite Hsi.
      transitivity (vget (c_to K) i
                    * (vsum N (fun k => vsum N (fun l =>
                         mget (c_A K) i l * (vget (c_tl K) l * mget P l k * vget (c_tl K) k)) * mget (c_A K) i k)
                       + mget (c_Q K) i i) * vget (c_to K) i + r0
                    - (vget (c_to K) i * T1) * ((vget (c_to K) i * T1) / s11)); [field; exact H11|].
      rewrite HT1. reflexivity. }
    cbn [n_mean n_cov] in D0. rewrite Hpm, Hpc in D0.
    exact (chain_rule_two_points _ _ _ _ _ _ _ tj t1 t0 Hj D1 D0).
  Qed.

  Lemma to_derivative_single_block q i (r : F) :
    to_derivative (mkShape BlockDiag q 1) i [r] = [sel_obs (S q) i r].
  Proof. reflexivity. Qed.

  (* the same through the top-level loss function (one block-diagonal block) *)
  Theorem two_point_loss_terms_are_joint_density q i (K : cond) (mu P : mat) (r0 r1 y0 y1 : F)
          (terms : list (list dterm)) :
    i <= q -> symmetricN (S q) P ->
    let s := mkShape BlockDiag q 1 in
    let N := S q in
    loss_lml_timeseries_terms minv s i [[[[y0]]]; [[[y1]]]] (mkMS (Single [mkN mu P]) [[K]]) [[r0]; [r1]]
      = Some terms ->
    let x0 := c_marg N N 1 K (mkN mu P) in
    let m1 := mget mu i 0 in
    let m0 := mget (n_mean x0) i 0 in
    let s11 := mget P i i + r1 in
    let s00 := mget (n_cov x0) i i + r0 in
    let s01 := vsum N (fun l => mget (c_A (c_plain N N 1 K)) i l * mget P l i) in
    exists t1 t0,
      terms = [[t1]; [t0]]
      /\ forall tj,
           n_density minv 2 1 (mkN [[m0]; [m1]] [[s00; s01]; [s01; s11]]) [[y0]; [y1]] = Some tj ->
           d_maha tj = d_maha t1 + d_maha t0 /\ d_det tj = d_det t1 * d_det t0.
  Proof.
    intros Hi Hsym. cbv zeta.
    unfold loss_lml_timeseries_terms.
    assert (Hleb : Nat.leb i (sh_q (mkShape BlockDiag q 1)) = true) by (apply Nat.leb_le; exact Hi).
    rewrite Hleb.
    change (std_shapes_ok (mkShape BlockDiag q 1) (length [[[[y0]]]; [[[y1]]]])
              (ms_marginal (mkMS (Single [mkN mu P]) [[K]])) [[r0]; [r1]]) with true.
    cbn [andb remove_filtering_distributions ms_marginal ms_conditional map].
    rewrite !to_derivative_single_block.
    unfold evaluate_lml_terms.
    change (last [[sel_obs (S q) i r0]; [sel_obs (S q) i r1]] []) with [sel_obs (S q) i r1].
    change (last [[[[y0]]]; [[[y1]]]] []) with [[[y1]]].
    change (removelast [[sel_obs (S q) i r0]; [sel_obs (S q) i r1]]) with [[sel_obs (S q) i r0]].
    change (removelast [[[[y0]]]; [[[y1]]]]) with [[[[y0]]]].
    unfold f_bayes_logpdf at 1.
    change (sh_N (mkShape BlockDiag q 1)) with (S q).
    change (sh_nout (mkShape BlockDiag q 1)) with 1%nat.
    change (sh_c (mkShape BlockDiag q 1)) with 1%nat.
    cbn [f_bayes_blocks].
    destruct (bayes_rule_and_logpdf minv (S q) 1 1 (sel_obs (S q) i r1) [[y1]] (mkN mu P))
      as [[t1 upd1]|] eqn:H1; [|discriminate].
    cbn [map fst snd lml_scan_terms].
    unfold f_bayes_logpdf, f_marg.
    change (sh_N (mkShape BlockDiag q 1)) with (S q).
    change (sh_nout (mkShape BlockDiag q 1)) with 1%nat.
    change (sh_c (mkShape BlockDiag q 1)) with 1%nat.
    cbn [map2 f_bayes_blocks].
    destruct (bayes_rule_and_logpdf minv (S q) 1 1 (sel_obs (S q) i r0) [[y0]] (c_marg (S q) (S q) 1 K upd1))
      as [[t0 upd0]|] eqn:H0; [|discriminate].
    cbn [map fst snd app].
    intro Ht. inversion Ht; subst terms. clear Ht.
    exists t1, t0. split; [reflexivity|].
    intros tj Hj.
    exact (two_point_recursion_is_joint_density (S q) i K mu P r0 r1 y0 y1 t1 t0 tj upd1 upd0
             ltac:(lia) Hsym H1 H0 Hj).
  Qed.
End LossTwoPoint.

(* ------------------------------------------------------------------ examples:
   the hypotheses of the theorems above are satisfiable (Qc instance) *)
From Coq Require Import QArith Qcanon.
Local Close Scope Qc_scope.
Local Close Scope Q_scope.
Local Open Scope nat_scope.

Definition exq (n : Z) : Qc := Q2Qc (n # 1).
Definition ex_shape : shape := mkShape Iso 1 1.
Definition ex_term : list (@normal Qc) := [mkN [[exq 1]; [exq 0]] [[exq 2; exq 1]; [exq 1; exq 3]]].
Definition ex_cond : list (@cond Qc) :=
  [mkC [[exq 1; exq (-1)]; [exq 0; exq 1]] [[exq 0]; [exq 1]] [[exq 1; exq 0]; [exq 0; exq 1]]
       [exq 1; exq 2] [exq 1; exq 1]].
Definition ex_us : list (list (@mat Qc)) := [[[[exq 2]]]; [[[exq 1]]]].
Definition ex_models : list (list (@cond Qc)) :=
  map (to_derivative ex_shape 0) [[exq 4]; [exq 1]].

(* evaluate_lml succeeds (hypothesis of evaluate_lml_mean_or_sum) *)
Example ex_evaluate_lml_some :
  exists v, evaluate_lml (F:=Qc) minv (fun t => (d_maha t + d_det t)%F) true ex_shape ex_term [ex_cond] ex_us ex_models = Some v.
Proof. eexists. vm_compute. reflexivity. Qed.

(* one step succeeds (hypothesis of lml_step_is_predict_then_condition /
   bayes_rule_and_logpdf_spec), with non-vanishing scalings *)
Example ex_step_some :
  exists t upd,
    bayes_rule_and_logpdf (F:=Qc) minv 2 1 1 (hd (mkC [] [] [] [] []) (to_derivative ex_shape 0 [exq 4])) [[exq 2]]
      (c_marg 2 2 1 (hd (mkC [] [] [] [] []) ex_cond) (hd (mkN [] []) ex_term)) = Some (t, upd).
Proof. eexists. eexists. vm_compute. reflexivity. Qed.

(* the three densities of chain_rule_two_points exist *)
Example ex_chain_rule_hyps :
  let m0 := exq 1 in let m1 := exq 2 in let s00 := exq 2 in let s01 := exq 1 in let s11 := exq 3 in
  let y0 := exq 0 in let y1 := exq 5 in
  exists tj t1 t0,
    n_density (F:=Qc) minv 2 1 (mkN [[m0]; [m1]] [[s00; s01]; [s01; s11]]) [[y0]; [y1]] = Some tj
    /\ n_density (F:=Qc) minv 1 1 (mkN [[m1]] [[s11]]) [[y1]] = Some t1
    /\ n_density (F:=Qc) minv 1 1 (mkN [[m0 + s01 / s11 * (y1 - m1)]] [[s00 - s01 * (s01 / s11)]])%F [[y0]] = Some t0.
Proof. do 3 eexists. vm_compute. repeat split; reflexivity. Qed.

(* the time-series loss on two time points succeeds (hypothesis of
   two_point_loss_terms_are_joint_density), with a symmetric terminal covariance *)
Example ex_two_point_terms_some :
  exists terms,
    loss_lml_timeseries_terms (F:=Qc) minv (mkShape BlockDiag 1 1) 1 [[[[exq 2]]]; [[[exq 1]]]]
      (mkMS (Single ex_term) [ex_cond]) [[exq 4]; [exq 1]] = Some terms.
Proof. eexists. vm_compute. reflexivity. Qed.
Example ex_term_symmetric :
  forall a b, a < 2 -> b < 2 -> mget (n_cov (hd (mkN [] []) ex_term)) a b = mget (n_cov (hd (mkN [] []) ex_term)) b a.
Proof.
  intros a b Ha Hb.
  destruct a as [|[|a]]; destruct b as [|[|b]]; try lia; reflexivity.
Qed.
