(* Proofs about Model/LstSq.v (C19).  All statements are over an arbitrary field
   with decidable equality (FieldLaws) and arbitrary oracles [pinv], [gtb]. *)
From Coq Require Import List Arith Lia Bool.
From PD Require Import Base.Field Base.Matrix Base.Solve Model.Gauss Model.Poly Model.LstSq.
Import ListNotations.

Section MatAux.
  Context {F : Type} `{FL : FieldLaws F}.
  Local Open Scope F_scope.
  Add Field FFa : fth.
  Local Notation mat := (@mat F).

  Lemma mmul_sub_r n k m (A B C : mat) :
    mmul n k m A (msub k m B C) = msub n m (mmul n k m A B) (mmul n k m A C).
  Proof.
    unfold mmul, msub. apply mk_ext. intros i j Hi Hj.
    rewrite !mget_mk by assumption. rewrite <- vsum_sub. apply vsum_ext.
    intros l Hl. rewrite mget_mk by assumption. ring.
  Qed.

  Lemma mmul_opp_r n k m (A B : mat) :
    mmul n k m A (mopp k m B) = mopp n m (mmul n k m A B).
  Proof.
    unfold mmul, mopp. apply mk_ext. intros i j Hi Hj.
    rewrite !mget_mk by assumption. rewrite <- vsum_opp. apply vsum_ext.
    intros l Hl. rewrite mget_mk by assumption. ring.
  Qed.

  Lemma mtr_mid n : mtr n n (mid n) = (mid n : mat).
  Proof.
    unfold mtr, mid. apply mk_ext. intros i j Hi Hj.
    rewrite mget_mk by assumption. unfold delta. rewrite Nat.eqb_sym. reflexivity.
  Qed.

  Lemma canon_canon n m (A : mat) : canon n m (canon n m A) = canon n m A.
  Proof. unfold canon at 1. apply mk_ext. intros. unfold canon. apply mget_mk; assumption. Qed.

  Lemma mget_canon n m (A : mat) i j : i < n -> j < m -> mget (canon n m A) i j = mget A i j.
  Proof. intros. unfold canon. apply mget_mk; assumption. Qed.

  Lemma madd_canon_r n m (A B : mat) : madd n m A (canon n m B) = madd n m A B.
  Proof.
    unfold madd. apply mk_ext. intros i j Hi Hj. rewrite mget_canon by assumption. reflexivity.
  Qed.

  Lemma madd_mzero_r n m (A : mat) : madd n m A (mzero n m) = canon n m A.
  Proof.
    unfold madd, mzero, canon. apply mk_ext. intros i j Hi Hj.
    rewrite mget_mk by assumption. ring.
  Qed.

  Lemma mmul_mzero_r n k m (A : mat) : mmul n k m A (mzero k m) = mzero n m.
  Proof.
    unfold mmul, mzero. apply mk_ext. intros i j Hi Hj.
    rewrite (vsum_ext k _ (fun _ => 0)); [apply vsum_zero|].
    intros l Hl. rewrite mget_mk by assumption. ring.
  Qed.

  Lemma scale_rows_mzero n m v : scale_rows n m v (mzero n m) = (mzero n m : mat).
  Proof.
    unfold scale_rows, mzero. apply mk_ext. intros i j Hi Hj.
    rewrite mget_mk by assumption. ring.
  Qed.

  Lemma msub_self n m (A : mat) : msub n m A A = mzero n m.
  Proof. unfold msub, mzero. apply mk_ext. intros. ring. Qed.

  Lemma norm2_mzero n : norm2 n (mzero n 1) = (0 : F).
  Proof.
    unfold norm2. rewrite (vsum_ext n _ (fun _ => 0)); [apply vsum_zero|].
    intros i Hi. unfold mzero. rewrite mget_mk by (assumption || lia). ring.
  Qed.

  Lemma finv_one : finv (1 : F) = 1.
  Proof.
    pose proof (Field_theory.Finv_l fth 1 (Field_theory.F_1_neq_0 fth)) as Hinv.
    transitivity (finv 1 * 1); [ring | exact Hinv].
  Qed.
End MatAux.

(* ======================================================= pseudo-inverse *)
Section PInvProofs.
  Context {F : Type} `{FL : FieldLaws F}.
  Local Open Scope F_scope.
  Local Notation mat := (@mat F).

  (* the four Penrose equations on canonical n x n forms *)
  Definition penrose (n : nat) (A X : mat) : Prop :=
    mmul n n n (mmul n n n A X) A = canon n n A /\
    mmul n n n (mmul n n n X A) X = canon n n X /\
    mtr n n (mmul n n n A X) = mmul n n n A X /\
    mtr n n (mmul n n n X A) = mmul n n n X A.

  Lemma mk_canon_eq n m (f : nat -> nat -> F) (B : mat) :
    canon n m (mk n m f) = canon n m B -> mk n m f = canon n m B.
  Proof. rewrite canon_mk. auto. Qed.

  Lemma mpinv_spec n (A X : mat) :
    mpinv n A = Some X -> X = canon n n X /\ penrose n A X.
  Proof.
    unfold mpinv. destruct (minv n A) as [Y|] eqn:Hm.
    - intro HX. inversion HX; subst Y. clear HX.
      destruct (minv_spec n A X Hm) as (Hc & H1 & H2).
      split; [exact Hc|]. unfold penrose. rewrite H1, H2.
      rewrite mmul_id_l, mmul_id_l, mtr_mid. auto.
    - destruct (mpinv_candidate n A) as [Y|]; [|discriminate].
      destruct (penrose_ok n A Y) eqn:Hp; [|discriminate].
      intro HX. inversion HX; subst X. clear HX.
      split; [symmetry; apply canon_canon|].
      unfold penrose_ok in Hp.
      apply andb_prop in Hp. destruct Hp as (Hp & H4).
      apply andb_prop in Hp. destruct Hp as (Hp & H3).
      apply andb_prop in Hp. destruct Hp as (H1 & H2).
      apply meqb_canon in H1, H2, H3, H4.
      unfold penrose. rewrite canon_canon.
      rewrite !mmul_canon_r, !mmul_canon_l.
      repeat split.
      + unfold mmul at 1 in H1. unfold mmul at 1. apply mk_canon_eq. exact H1.
      + unfold mmul at 1 in H2. unfold mmul at 1. apply mk_canon_eq. exact H2.
      + unfold mtr at 1 in H3. unfold mmul at 2 in H3. rewrite !canon_mk in H3. exact H3.
      + unfold mtr at 1 in H4. unfold mmul at 2 in H4. rewrite !canon_mk in H4. exact H4.
  Qed.

  Lemma mpinv_of_minv n (A X : mat) : minv n A = Some X -> mpinv n A = Some X.
  Proof. unfold mpinv. intros ->. reflexivity. Qed.
End PInvProofs.

(* ============================================================ the loop *)
Section LoopProofs.
  Context {F : Type} `{FL : FieldLaws F}.
  Add Field FFl : fth.
  Local Notation mat := (@mat F).
  Local Notation gn_state := (@gn_state F).

  Variable pinv : nat -> mat -> option mat.
  Variable gtb : F -> F -> bool.
  Variables (D K : nat).
  Variable f : mat -> mat.
  Variable jac : mat -> mat.
  Variables (m C : mat).
  Variable maxiter : nat.
  Variable tol2 : F.

  Local Notation body := (gn_body pinv D K f jac m C).
  Local Notation cnd := (gn_cond gtb D K maxiter tol2).
  Local Notation loop := (gn_loop pinv gtb D K f jac m C maxiter tol2).
  Local Notation iter := (gn_iter pinv D K f jac m C).
  Local Notation init := (gn_init D f).

  (* what one pass through body_fun establishes *)
  Lemma gn_body_spec st st' :
    body st = Some st' ->
    s_i st' = S (s_i st) /\ s_fx st' = f (s_x st') /\
    s_dx st' = msub D 1 (s_x st') (s_x st).
  Proof.
    unfold gn_body. destruct (gn_dx _ _ _ _ _ _ _ _) as [dx|]; [|discriminate].
    intro Hs. inversion Hs; subst; simpl. auto.
  Qed.

  Lemma gn_iter_snoc n st sn st' :
    iter n st = Some sn -> body sn = Some st' -> iter (S n) st = Some st'.
  Proof.
    revert st. induction n as [|n IH]; intros st Hn Hb; simpl in *.
    - inversion Hn; subst. rewrite Hb. reflexivity.
    - destruct (body st) as [s1|]; [|discriminate]. apply IH; assumption.
  Qed.

  (* the loop returns the FIRST state of the iterate sequence at which cond_fun
     is false *)
  Lemma gn_loop_done fuel st st' :
    loop fuel st = Done st' ->
    exists n, n <= fuel /\ iter n st = Some st' /\
      (forall j, j < n -> exists sj, iter j st = Some sj /\ cnd sj = true) /\
      cnd st' = false /\ s_i st' = s_i st + n.
  Proof.
    revert st. induction fuel as [|fuel IH]; intros st; simpl.
    - destruct (cnd st) eqn:Hc; [discriminate|].
      intro Hd. inversion Hd; subst. exists 0. repeat split; auto; try lia; intros j Hj; lia.
    - destruct (cnd st) eqn:Hc.
      + destruct (body st) as [s1|] eqn:Hb; [|discriminate].
        intro Hd. destruct (IH s1 Hd) as (n & Hn & Hit & Hall & Hstop & Hi).
        exists (S n). repeat split.
        * lia.
        * simpl. rewrite Hb. exact Hit.
        * intros [|j] Hj.
          -- exists st. split; [reflexivity|exact Hc].
          -- destruct (Hall j) as (sj & Hsj & Hcj); [lia|].
             exists sj. split; [|exact Hcj]. simpl. rewrite Hb. exact Hsj.
        * exact Hstop.
        * destruct (gn_body_spec st s1 Hb) as (Hi1 & _). rewrite Hi, Hi1. lia.
      + intro Hd. inversion Hd; subst. exists 0. repeat split; auto; try lia; intros j Hj; lia.
  Qed.

  (* conversely: a prefix of continuing states followed by a stopping state is
     what the loop returns (so the loop stops IFF cond_fun is false) *)
  Lemma gn_loop_complete n : forall fuel st st',
    n <= fuel -> iter n st = Some st' ->
    (forall j, j < n -> exists sj, iter j st = Some sj /\ cnd sj = true) ->
    cnd st' = false -> loop fuel st = Done st'.
  Proof.
    induction n as [|n IH]; intros fuel st st' Hle Hit Hall Hstop.
    - simpl in Hit. inversion Hit; subst.
      destruct fuel; simpl; rewrite Hstop; reflexivity.
    - destruct fuel as [|fuel]; [lia|]. simpl.
      destruct (Hall 0) as (s0 & Hs0 & Hc0); [lia|]. simpl in Hs0. inversion Hs0; subst s0.
      rewrite Hc0. simpl in Hit. destruct (body st) as [s1|] eqn:Hb; [|discriminate].
      apply IH; try assumption; try lia.
      intros j Hj. destruct (Hall (S j)) as (sj & Hsj & Hcj); [lia|].
      exists sj. split; [|exact Hcj]. simpl in Hsj. rewrite Hb in Hsj. exact Hsj.
  Qed.

  Lemma gn_loop_step fuel st :
    loop (S fuel) st =
    if cnd st then match body st with None => SolveFailed st | Some st' => loop fuel st' end
    else Done st.
  Proof. reflexivity. Qed.

  (* fuel = maxiter is enough: the loop never runs out of fuel *)
  Lemma gn_loop_fuel fuel st st' :
    maxiter <= s_i st + fuel -> loop fuel st <> OutOfFuel st'.
  Proof.
    revert st. induction fuel as [|fuel IH]; intros st Hle; simpl.
    - destruct (cnd st) eqn:Hc; [|discriminate].
      unfold gn_cond in Hc. apply andb_prop in Hc. destruct Hc as (Hc & _).
      apply andb_prop in Hc. destruct Hc as (_ & Hc2).
      unfold cond2 in Hc2. apply Nat.ltb_lt in Hc2. lia.
    - destruct (cnd st); [|discriminate].
      destruct (body st) as [s1|] eqn:Hb; [|discriminate].
      apply IH. destruct (gn_body_spec st s1 Hb) as (Hi1 & _). rewrite Hi1. lia.
  Qed.

  (* the only failure is an uncertified pseudo-inverse at a reachable state *)
  Lemma gn_loop_failed fuel st st' :
    loop fuel st = SolveFailed st' ->
    exists n, iter n st = Some st' /\ cnd st' = true /\ body st' = None.
  Proof.
    revert st. induction fuel as [|fuel IH]; intros st; simpl.
    - destruct (cnd st); discriminate.
    - destruct (cnd st) eqn:Hc; [|discriminate].
      destruct (body st) as [s1|] eqn:Hb.
      + intro Hf. destruct (IH s1 Hf) as (n & Hn & Hcn & Hbn).
        exists (S n). simpl. rewrite Hb. auto.
      + intro Hf. inversion Hf; subst. exists 0. simpl. auto.
  Qed.

  Lemma gn_iter_inv n : forall st st',
    iter n st = Some st' -> s_fx st = f (s_x st) -> s_fx st' = f (s_x st').
  Proof.
    induction n as [|n IH]; intros st st' Hit Hinv; simpl in Hit.
    - inversion Hit; subst. exact Hinv.
    - destruct (body st) as [s1|] eqn:Hb; [|discriminate].
      apply (IH s1); [exact Hit|]. apply (gn_body_spec st s1 Hb).
  Qed.

  Lemma gn_iter_count n : forall st st', iter n st = Some st' -> s_i st' = s_i st + n.
  Proof.
    induction n as [|n IH]; intros st st' Hit; simpl in Hit.
    - inversion Hit; subst. lia.
    - destruct (body st) as [s1|] eqn:Hb; [|discriminate].
      rewrite (IH s1 st' Hit). destruct (gn_body_spec st s1 Hb) as (Hi1 & _). lia.
  Qed.

  Lemma gn_iter_last n : forall st st',
    iter (S n) st = Some st' -> exists sn, iter n st = Some sn /\ body sn = Some st'.
  Proof.
    induction n as [|n IH]; intros st st' Hit.
    - simpl in Hit. destruct (body st) as [s1|] eqn:Hb; [|discriminate].
      inversion Hit; subst. exists st. simpl. auto.
    - change (iter (S (S n)) st) with
        (match body st with None => None | Some s1 => iter (S n) s1 end) in Hit.
      destruct (body st) as [s1|] eqn:Hb; [|discriminate].
      destruct (IH s1 st' Hit) as (sn & Hsn & Hbn).
      exists sn. split; [|exact Hbn]. simpl. rewrite Hb. exact Hsn.
  Qed.

  (* T19.3 *)
  Theorem gn_run_exit x0 st :
    gn_run pinv gtb D K f jac m C maxiter tol2 x0 = Done st ->
    (* the iteration count is truthful and within budget *)
    iter (s_i st) (init x0) = Some st /\ s_i st <= maxiter /\
    (* the loop ran exactly as long as all three conditions held *)
    (forall j, j < s_i st -> exists sj, iter j (init x0) = Some sj /\ s_i sj = j /\
        cond1 gtb K tol2 sj = true /\ cond2 maxiter sj = true /\ cond3 gtb D tol2 sj = true) /\
    (cond1 gtb K tol2 st = false \/ s_i st = maxiter \/ cond3 gtb D tol2 st = false) /\
    (* the reported residual is the constraint at the returned point *)
    s_fx st = f (s_x st) /\
    (* the reported increment is the last step taken (ones if none was taken) *)
    (s_i st = 0 -> st = init x0) /\
    (forall j sj, S j = s_i st -> iter j (init x0) = Some sj ->
        s_dx st = msub D 1 (s_x st) (s_x sj)).
  Proof.
    unfold gn_run. intro Hd.
    destruct (gn_loop_done _ _ _ Hd) as (n & Hn & Hit & Hall & Hstop & Hi).
    simpl in Hi. subst n.
    assert (Hiter : iter (s_i st) (init x0) = Some st) by exact Hit.
    split; [exact Hit|]. split; [exact Hn|].
    split.
    { intros j Hj. destruct (Hall j Hj) as (sj & Hsj & Hcj). exists sj.
      split; [exact Hsj|]. split; [apply gn_iter_count in Hsj; simpl in Hsj; exact Hsj|].
      unfold gn_cond in Hcj. apply andb_prop in Hcj. destruct Hcj as (Hc & Hc3).
      apply andb_prop in Hc. destruct Hc as (Hc1 & Hc2). auto. }
    split.
    { unfold gn_cond in Hstop.
      destruct (cond1 gtb K tol2 st); [|auto].
      destruct (cond3 gtb D tol2 st); [|auto].
      right. left. simpl in Hstop. rewrite andb_true_r in Hstop.
      unfold cond2 in Hstop. apply Nat.ltb_ge in Hstop. lia. }
    split.
    { apply (gn_iter_inv _ _ _ Hit). reflexivity. }
    split.
    { intro H0. rewrite H0 in Hit. simpl in Hit. inversion Hit. reflexivity. }
    intros j sj Hj Hsj. rewrite <- Hj in Hit.
    destruct (gn_iter_last _ _ _ Hit) as (sn & Hsn & Hbn).
    rewrite Hsj in Hsn. inversion Hsn; subst sn.
    apply (gn_body_spec sj st Hbn).
  Qed.

  Theorem gn_run_never_out_of_fuel x0 st :
    gn_run pinv gtb D K f jac m C maxiter tol2 x0 <> OutOfFuel st.
  Proof. unfold gn_run. apply gn_loop_fuel. simpl. lia. Qed.

  Theorem gn_run_iff x0 st :
    gn_run pinv gtb D K f jac m C maxiter tol2 x0 = Done st <->
    exists n, n <= maxiter /\ iter n (init x0) = Some st /\
      (forall j, j < n -> exists sj, iter j (init x0) = Some sj /\ cnd sj = true) /\
      cnd st = false.
  Proof.
    split.
    - intro Hd. destruct (gn_loop_done _ _ _ Hd) as (n & Hn & Hit & Hall & Hstop & _).
      exists n. auto.
    - intros (n & Hn & Hit & Hall & Hstop).
      unfold gn_run. apply (gn_loop_complete n); assumption.
  Qed.

  (* T19.2: after every iteration the displacement from the mean lies in the
     range of C J^T, J the Jacobian at the PREVIOUS iterate (the one used) *)
  Theorem gn_body_range st st' :
    body st = Some st' ->
    exists w, msub D 1 (s_x st') m
              = mmul D K 1 (mmul D D K C (mtr K D (jac (s_x st)))) w.
  Proof.
    unfold gn_body, gn_dx.
    destruct (pinv K _) as [Sp|]; [|discriminate].
    intro Hs. inversion Hs; subst; clear Hs. simpl.
    set (CJt := mmul D D K C (mtr K D (jac (s_x st)))).
    set (y := mmul K K 1 Sp _).
    exists (mopp K 1 y).
    rewrite mmul_opp_r.
    unfold msub, madd, mopp. apply mk_ext. intros i j Hi Hj.
    rewrite !mget_mk by assumption. ring.
  Qed.
  (* Each step solves the LINEARISED constraint exactly when the certified
     pseudo-inverse is a right inverse of J C J^T:  f(x) + J(x) (x' - x) = 0.
     Together with gn_body_range this is the first-order (KKT) system of
       min (x - m)^T C^-1 (x - m)  s.t.  f(x) + J(x)(x' - x) = 0,
     so a returned point is first-order optimal up to the change of J over the
     last increment. *)
  Theorem gn_body_newton st st' :
    (forall Sp, pinv K (mmul K D K (jac (s_x st)) (mmul D D K C (mtr K D (jac (s_x st)))))
                = Some Sp ->
       mmul K K K (mmul K D K (jac (s_x st)) (mmul D D K C (mtr K D (jac (s_x st))))) Sp
       = mid K) ->
    body st = Some st' ->
    madd K 1 (s_fx st) (mmul K D 1 (jac (s_x st)) (s_dx st')) = mzero K 1.
  Proof.
    unfold gn_body, gn_dx. intro Hright.
    set (J := jac (s_x st)) in *.
    set (Sm := mmul K D K J (mmul D D K C (mtr K D J))) in *.
    destruct (pinv K Sm) as [Sp|] eqn:Hp; [|discriminate].
    specialize (Hright Sp eq_refl).
    intro Hs. inversion Hs; subst; clear Hs. simpl.
    set (mx := msub D 1 m (s_x st)).
    set (r := madd K 1 (s_fx st) (mmul K D 1 J mx)).
    set (Y := mmul D K 1 (mmul D D K C (mtr K D J)) (mmul K K 1 Sp r)).
    assert (Hdx : msub D 1 (madd D 1 (s_x st) (msub D 1 mx Y)) (s_x st) = msub D 1 mx Y).
    { unfold msub, madd. apply mk_ext. intros i j Hi Hj.
      rewrite !mget_mk by assumption. ring. }
    rewrite Hdx, mmul_sub_r. unfold Y.
    rewrite <- (mmul_assoc K D K 1 J). fold Sm.
    rewrite <- (mmul_assoc K K K 1 Sm Sp). rewrite Hright, mmul_id_l.
    unfold r, madd, msub, mzero. apply mk_ext. intros i j Hi Hj.
    rewrite !mget_mk by assumption. rewrite mget_canon by assumption.
    rewrite mget_mk by assumption. ring.
  Qed.

  (* a stationary state (zero increment) is feasible: KKT point *)
  Corollary gn_fixed_point_feasible st st' :
    (forall Sp, pinv K (mmul K D K (jac (s_x st)) (mmul D D K C (mtr K D (jac (s_x st)))))
                = Some Sp ->
       mmul K K K (mmul K D K (jac (s_x st)) (mmul D D K C (mtr K D (jac (s_x st))))) Sp
       = mid K) ->
    body st = Some st' -> s_dx st' = mzero D 1 ->
    canon K 1 (s_fx st) = mzero K 1.
  Proof.
    intros Hright Hb Hz. pose proof (gn_body_newton st st' Hright Hb) as Hn.
    rewrite Hz, mmul_mzero_r, madd_mzero_r in Hn. exact Hn.
  Qed.
End LoopProofs.

(* ================================================== affine constraints *)
Section AffineProofs.
  Context {F : Type} `{FL : FieldLaws F}.
  Add Field FFf : fth.
  Local Notation mat := (@mat F).

  Variable pinv : nat -> mat -> option mat.
  Variable gtb : F -> F -> bool.
  Variables (D K : nat).
  Variables (A c m C : mat).
  Variable maxiter : nat.
  Variable tol2 : F.

  Local Notation fA := (affine_f D K A c).
  Local Notation jA := (fun _ : mat => A).
  Local Notation body := (gn_body pinv D K fA jA m C).

  (* innovation matrix  A C A^T  and the closed-form conditional mean
     m - C A^T Sp (A m + c) *)
  Definition aff_S : mat := mmul K D K A (mmul D D K C (mtr K D A)).
  Definition cond_mean (Sp : mat) : mat :=
    msub D 1 m (mmul D K 1 (mmul D D K C (mtr K D A)) (mmul K K 1 Sp (fA m))).

  Lemma affine_rhs x :
    madd K 1 (fA x) (mmul K D 1 A (msub D 1 m x)) = fA m.
  Proof.
    unfold affine_f. rewrite mmul_sub_r.
    unfold madd, msub. apply mk_ext. intros i j Hi Hj.
    rewrite !mget_mk by assumption. ring.
  Qed.

  (* T19.1a: ONE iteration from ANY consistent state lands on the closed form *)
  Lemma gn_body_affine st Sp :
    s_fx st = fA (s_x st) -> pinv K aff_S = Some Sp ->
    body st = Some (mkGN (cond_mean Sp) (fA (cond_mean Sp))
                         (msub D 1 (cond_mean Sp) (s_x st)) (S (s_i st))).
  Proof.
    intros Hfx Hp. unfold gn_body, gn_dx. fold aff_S. rewrite Hp, Hfx, affine_rhs.
    set (Y := mmul D K 1 _ _).
    assert (Hx : madd D 1 (s_x st) (msub D 1 (msub D 1 m (s_x st)) Y) = cond_mean Sp).
    { unfold cond_mean. fold Y. unfold madd, msub. apply mk_ext. intros i j Hi Hj.
      rewrite !mget_mk by assumption. ring. }
    rewrite Hx. reflexivity.
  Qed.

  (* T19.1b: the closed form is feasible when Sp is a right inverse of A C A^T *)
  Lemma cond_mean_feasible Sp :
    mmul K K K aff_S Sp = mid K -> fA (cond_mean Sp) = mzero K 1.
  Proof.
    intro Hinv. unfold cond_mean, affine_f at 1.
    rewrite mmul_sub_r.
    rewrite <- (mmul_assoc K D K 1 A). fold aff_S.
    rewrite <- (mmul_assoc K K K 1 aff_S Sp). rewrite Hinv, mmul_id_l.
    unfold madd, msub, mzero. apply mk_ext. intros i j Hi Hj.
    rewrite !mget_mk by assumption. rewrite mget_canon by assumption.
    unfold affine_f, madd. rewrite mget_mk by assumption. ring.
  Qed.

  (* T19.1c: a second iteration does not move *)
  Lemma gn_body_affine_twice st st1 st2 Sp :
    s_fx st = fA (s_x st) -> pinv K aff_S = Some Sp ->
    body st = Some st1 -> body st1 = Some st2 ->
    s_x st1 = cond_mean Sp /\ s_x st2 = s_x st1 /\ s_dx st2 = mzero D 1.
  Proof.
    intros Hfx Hp H1 H2.
    rewrite (gn_body_affine st Sp Hfx Hp) in H1. inversion H1; subst st1; clear H1.
    match type of H2 with gn_body _ _ _ _ _ _ _ ?s = _ =>
      rewrite (gn_body_affine s Sp eq_refl Hp) in H2 end. inversion H2; subst st2; clear H2.
    simpl. repeat split. apply msub_self.
  Qed.

  (* T19.1d: the whole routine on an affine constraint: either the start is
     already accepted (0 iterations) or exactly one iteration is made and the
     result is the (feasible) closed form.  [gtb 0 (tol2 * K) = false] says
     "0 > tol^2 K is false", true for every real tolerance. *)
  Lemma gn_loop_affine fuel x0 Sp :
    1 <= fuel -> pinv K aff_S = Some Sp -> mmul K K K aff_S Sp = mid K ->
    gtb f0 (fmul tol2 (fnat K)) = false ->
    exists st, gn_loop pinv gtb D K fA jA m C maxiter tol2 fuel (gn_init D fA x0) = Done st /\
      ((st = gn_init D fA x0 /\ gn_cond gtb D K maxiter tol2 st = false) \/
       (s_i st = 1 /\ s_x st = cond_mean Sp /\ s_fx st = mzero K 1 /\
        s_dx st = msub D 1 (cond_mean Sp) x0)).
  Proof.
    intros Hmax Hp Hinv Hg.
    destruct fuel as [|fuel]; [lia|]. rewrite gn_loop_step.
    destruct (gn_cond gtb D K maxiter tol2 (gn_init D fA x0)) eqn:Hc.
    - rewrite (gn_body_affine (gn_init D fA x0) Sp eq_refl Hp).
      rewrite (cond_mean_feasible Sp Hinv). simpl s_x. simpl s_i.
      set (st1 := mkGN _ _ _ _).
      assert (Hc1 : gn_cond gtb D K maxiter tol2 st1 = false).
      { unfold gn_cond, cond1. simpl s_fx. rewrite norm2_mzero, Hg. reflexivity. }
      exists st1. split.
      + destruct fuel; simpl; rewrite Hc1; reflexivity.
      + right. simpl. auto.
    - exists (gn_init D fA x0). auto.
  Qed.

  Theorem gn_run_affine x0 Sp :
    1 <= maxiter -> pinv K aff_S = Some Sp -> mmul K K K aff_S Sp = mid K ->
    gtb f0 (fmul tol2 (fnat K)) = false ->
    exists st, gn_run pinv gtb D K fA jA m C maxiter tol2 x0 = Done st /\
      ((st = gn_init D fA x0 /\ gn_cond gtb D K maxiter tol2 st = false) \/
       (s_i st = 1 /\ s_x st = cond_mean Sp /\ s_fx st = mzero K 1 /\
        s_dx st = msub D 1 (cond_mean Sp) x0)).
  Proof. unfold gn_run. apply gn_loop_affine. Qed.

  (* ---------------- relation to Model/Gauss.v ---------------- *)
  Hypothesis Csym : forall i j, i < D -> j < D -> mget C i j = mget C j i.

  Lemma vget_vones n i : i < n -> vget (vones n) i = (f1 : F).
  Proof. intro Hi. unfold vones. exact (vget_mkv n (fun _ => f1) i Hi). Qed.
  Lemma vget_vinv_vones n i : i < n -> vget (vinv n (vones n)) i = (f1 : F).
  Proof.
    intro Hi. unfold vinv. rewrite vget_mkv by exact Hi.
    rewrite vget_vones by exact Hi. apply finv_one.
  Qed.

  Lemma dsand_ones n (P : mat) : dsand n (vones n) P = canon n n P.
  Proof.
    unfold dsand, canon. apply mk_ext. intros i j Hi Hj.
    rewrite !vget_vones by assumption. ring.
  Qed.
  Lemma scale_rows_ones n k (X : mat) : scale_rows n k (vones n) X = canon n k X.
  Proof.
    unfold scale_rows, canon. apply mk_ext. intros i j Hi Hj.
    rewrite vget_vones by assumption. ring.
  Qed.

  Lemma gauss_S_eq :
    madd K K (mmul K D K (mmul K D D A (canon D D C)) (mtr K D A)) (mzero K K) = aff_S.
  Proof.
    rewrite mmul_canon_r, mmul_assoc, madd_mzero_r. unfold aff_S. apply canon_mk.
  Qed.

  Lemma gauss_gain_eq :
    mtr K D (mmul K D D A (canon D D C)) = mmul D D K C (mtr K D A).
  Proof.
    rewrite mmul_canon_r, mtr_mmul.
    assert (Ht : mtr D D C = canon D D C).
    { unfold mtr, canon. apply mk_ext. intros i j Hi Hj. apply Csym; assumption. }
    rewrite Ht, mmul_canon_l. reflexivity.
  Qed.

  (* the exact affine observation model  A x + c = 0  (no noise) *)
  Definition affine_cond : @cond F :=
    from_linop_and_noise D K A (mkN c (mzero K K)).

  (* T19.1e: the closed form IS the Gaussian conditional mean of N(m, C) given
     A x + c = 0, as computed by Model/Gauss.v's bayes_rule *)
  Theorem cond_mean_is_bayes inv Si obs post :
    inv K aff_S = Some Si ->
    bayes_rule inv D K 1 affine_cond (mzero K 1) (mkN m C) = Some (obs, post) ->
    n_mean post = cond_mean Si.
  Proof.
    intros Hi. unfold bayes_rule, c_revert, affine_cond, from_linop_and_noise.
    cbn [c_A c_b c_Q c_tl c_to n_mean n_cov].
    rewrite dsand_ones, !scale_rows_ones, gauss_S_eq, Hi.
    intro Hb. inversion Hb; subst; clear Hb.
    unfold c_apply. cbn [c_A c_b c_Q c_tl c_to n_mean n_cov].
    rewrite gauss_gain_eq, mmul_canon_r.
    rewrite !(mmul_assoc D K K 1).
    change (madd K 1 (mmul K D 1 A m) c) with (fA m).
    rewrite scale_rows_mzero, !mmul_mzero_r.
    unfold cond_mean.
    set (Y := mmul D K 1 (mmul D D K C (mtr K D A)) (mmul K K 1 Si (fA m))).
    unfold scale_rows, madd, mzero, msub. apply mk_ext. intros i j Hi' Hj.
    rewrite vget_vinv_vones by assumption.
    rewrite !mget_mk by assumption. rewrite mget_canon by assumption. ring.
  Qed.

  (* T19.4: DenseResidual.linearize of an affine constraint, at ANY point,
     is the constraint itself: linop = A, bias = c *)
  Lemma lin_at_affine xi :
    lin_at D K fA jA xi = from_linop_and_noise D K A (mkN (canon K 1 c) (mzero K K)).
  Proof.
    unfold lin_at. f_equal. f_equal.
    unfold affine_f, madd, msub, canon. apply mk_ext. intros i j Hi Hj.
    rewrite !mget_mk by assumption. ring.
  Qed.

  Theorem bayes_lin_at_affine inv xi data rv :
    bayes_rule inv D K 1 (lin_at D K fA jA xi) data rv
    = bayes_rule inv D K 1 affine_cond data rv.
  Proof.
    rewrite lin_at_affine. unfold bayes_rule, c_revert, affine_cond, from_linop_and_noise.
    cbn [c_A c_b c_Q c_tl c_to n_mean n_cov]. rewrite madd_canon_r. reflexivity.
  Qed.

  (* the filter update linearised at the MAP point: posterior mean = closed
     form conditional mean = the MAP point itself (if an iteration was made),
     and it satisfies the constraint exactly *)
  Theorem map_update_exact x0 Si st obs post :
    pinv K aff_S = Some Si -> mmul K K K aff_S Si = mid K ->
    gn_run pinv gtb D K fA jA m C maxiter tol2 x0 = Done st ->
    bayes_rule pinv D K 1 (lin_at D K fA jA (s_x st)) (mzero K 1) (mkN m C)
      = Some (obs, post) ->
    n_mean post = cond_mean Si /\ fA (n_mean post) = mzero K 1 /\
    (1 <= s_i st -> s_x st = n_mean post).
  Proof.
    intros Hi Hinv Hrun Hb. rewrite bayes_lin_at_affine in Hb.
    pose proof (cond_mean_is_bayes pinv Si obs post Hi Hb) as Hm.
    split; [exact Hm|]. split; [rewrite Hm; apply cond_mean_feasible; exact Hinv|].
    intro Hit. rewrite Hm.
    destruct (gn_run_exit pinv gtb D K fA jA m C maxiter tol2 x0 st Hrun)
      as (Hiter & _).
    destruct (s_i st) as [|n] eqn:Hn; [lia|].
    destruct (gn_iter_last pinv D K fA jA m C n _ _ Hiter) as (sn & Hsn & Hbn).
    assert (Hfx : s_fx sn = fA (s_x sn)).
    { apply (gn_iter_inv pinv D K fA jA m C n _ _ Hsn). reflexivity. }
    rewrite (gn_body_affine sn Si Hfx Hi) in Hbn.
    inversion Hbn. reflexivity.
  Qed.
End AffineProofs.

(* ===================== the model's own solver: mpinv (certified pinv) *)
Section WithMpinv.
  Context {F : Type} `{FL : FieldLaws F}.
  Local Notation mat := (@mat F).
  Variable gtb : F -> F -> bool.
  Variables (D K : nat) (A c m C : mat) (maxiter : nat) (tol2 : F).

  Lemma mpinv_right_inverse Si :
    minv K (aff_S D K A C) = Some Si ->
    mpinv K (aff_S D K A C) = Some Si /\ mmul K K K (aff_S D K A C) Si = mid K.
  Proof.
    intro Hm. split; [apply mpinv_of_minv; exact Hm|].
    apply (minv_spec K _ Si Hm).
  Qed.

  (* T19.1 as stated: affine constraint, ANY start, ANY covariance with
     A C A^T invertible (certified: minv returned Some) *)
  Theorem affine_one_iteration st Si :
    minv K (aff_S D K A C) = Some Si ->
    s_fx st = affine_f D K A c (s_x st) ->
    exists st1,
      gn_body mpinv D K (affine_f D K A c) (fun _ => A) m C st = Some st1 /\
      s_x st1 = cond_mean D K A c m C Si /\
      s_fx st1 = mzero K 1 /\
      s_i st1 = S (s_i st) /\
      exists st2,
        gn_body mpinv D K (affine_f D K A c) (fun _ => A) m C st1 = Some st2 /\
        s_x st2 = s_x st1 /\ s_dx st2 = mzero D 1.
  Proof.
    intros Hm Hfx. destruct (mpinv_right_inverse Si Hm) as (Hp & Hinv).
    pose proof (gn_body_affine mpinv D K A c m C st Si Hfx Hp) as H1.
    eexists. split; [exact H1|]. simpl.
    split; [reflexivity|]. split; [apply cond_mean_feasible; exact Hinv|].
    split; [reflexivity|].
    match goal with |- exists st2, gn_body _ _ _ _ _ _ _ ?s = _ /\ _ =>
      pose proof (gn_body_affine mpinv D K A c m C s Si eq_refl Hp) as H2 end.
    eexists. split; [exact H2|]. simpl. split; [reflexivity|apply msub_self].
  Qed.

  Theorem affine_run x0 Si :
    1 <= maxiter -> minv K (aff_S D K A C) = Some Si ->
    gtb f0 (fmul tol2 (fnat K)) = false ->
    exists st,
      gn_run mpinv gtb D K (affine_f D K A c) (fun _ => A) m C maxiter tol2 x0 = Done st /\
      ((st = gn_init D (affine_f D K A c) x0 /\ gn_cond gtb D K maxiter tol2 st = false) \/
       (s_i st = 1 /\ s_x st = cond_mean D K A c m C Si /\ s_fx st = mzero K 1 /\
        s_dx st = msub D 1 (cond_mean D K A c m C Si) x0)).
  Proof.
    intros Hmax Hm Hg. destruct (mpinv_right_inverse Si Hm) as (Hp & Hinv).
    apply gn_run_affine; assumption.
  Qed.

  Theorem affine_map_update_exact x0 Si st obs post :
    (forall i j, i < D -> j < D -> mget C i j = mget C j i) ->
    minv K (aff_S D K A C) = Some Si ->
    gn_run mpinv gtb D K (affine_f D K A c) (fun _ => A) m C maxiter tol2 x0 = Done st ->
    bayes_rule mpinv D K 1 (lin_at D K (affine_f D K A c) (fun _ => A) (s_x st))
               (mzero K 1) (mkN m C) = Some (obs, post) ->
    n_mean post = cond_mean D K A c m C Si /\
    affine_f D K A c (n_mean post) = mzero K 1 /\
    (1 <= s_i st -> s_x st = n_mean post).
  Proof.
    intros Hsym Hm Hrun Hb. destruct (mpinv_right_inverse Si Hm) as (Hp & Hinv).
    apply (map_update_exact mpinv gtb D K A c m C maxiter tol2 Hsym x0 Si st obs post);
      assumption.
  Qed.
End WithMpinv.

(* ============ examples: the hypotheses of the theorems are satisfiable *)
From Coq Require Import QArith Qcanon.
Local Close Scope Qc_scope.
Local Close Scope Q_scope.
Local Open Scope nat_scope.

Module C19Examples.
  Definition q (a : Z) (b : positive) : Qc := Q2Qc (a # b).
  (* D = 2, K = 1:  x + y - 1 = 0, prior N(0, I) *)
  Definition A : @mat Qc := [[q 1 1; q 1 1]].
  Definition c : @mat Qc := [[q (-1) 1]].
  Definition m : @mat Qc := [[q 0 1]; [q 0 1]].
  Definition C : @mat Qc := [[q 1 1; q 0 1]; [q 0 1; q 1 1]].
  Definition tol2 : Qc := q 1 1000000.

  Example ex_minv : minv 1 (aff_S 2 1 A C) = Some [[q 1 2]].
  Proof. vm_compute. reflexivity. Qed.

  Example ex_gtb : qc_gtb f0 (fmul tol2 (fnat 1)) = false.
  Proof. vm_compute. reflexivity. Qed.

  Example ex_run :
    exists st, gn_run mpinv qc_gtb 2 1 (affine_f 2 1 A c) (fun _ => A) m C 10 tol2 m = Done st
               /\ s_i st = 1 /\ s_x st = [[q 1 2]; [q 1 2]].
  Proof. eexists. split; [vm_compute; reflexivity|]. split; reflexivity. Qed.

  Example ex_bayes :
    exists obs post,
      bayes_rule mpinv 2 1 1 (lin_at 2 1 (affine_f 2 1 A c) (fun _ => A) [[q 1 2]; [q 1 2]])
                 (mzero 1 1) (mkN m C) = Some (obs, post)
      /\ n_mean post = [[q 1 2]; [q 1 2]].
  Proof. eexists. eexists. split; [vm_compute; reflexivity|reflexivity]. Qed.

  (* a singular covariance (second variable is deterministic) AND a singular
     innovation matrix (two copies of the same constraint): minv fails, the
     certified pseudo-inverse answers, the step is still feasible *)
  Definition Cs : @mat Qc := [[q 1 1; q 0 1]; [q 0 1; q 0 1]].
  Definition A2 : @mat Qc := [[q 1 1; q 1 1]; [q 1 1; q 1 1]].
  Definition c2 : @mat Qc := [[q (-1) 1]; [q (-1) 1]].
  Example ex_singular :
    minv 2 (aff_S 2 2 A2 Cs) = None /\
    mpinv 2 (aff_S 2 2 A2 Cs) = Some [[q 1 4; q 1 4]; [q 1 4; q 1 4]] /\
    exists st, gn_run mpinv qc_gtb 2 2 (affine_f 2 2 A2 c2) (fun _ => A2) m Cs 10 tol2 m = Done st
               /\ s_i st = 1 /\ s_x st = [[q 1 1]; [q 0 1]] /\ s_fx st = [[q 0 1]; [q 0 1]].
  Proof.
    split; [vm_compute; reflexivity|]. split; [vm_compute; reflexivity|].
    eexists. split; [vm_compute; reflexivity|]. repeat split; reflexivity.
  Qed.

  (* a nonlinear constraint x^2 + y - 1 = 0 from the mean (1, 1): the loop
     makes two iterations and stops on the residual test *)
  Definition ps : list (@poly Qc) := [[(q 1 1, [2; 0]); (q 1 1, [0; 1]); (q (-1) 1, [0; 0])]].
  Definition m1 : @mat Qc := [[q 1 1]; [q 1 1]].
  Example ex_nonlinear :
    exists st, gn_run mpinv qc_gtb 2 1 (poly_f 2 1 ps) (poly_jac 2 1 ps) m1 C 10 tol2 m1 = Done st
               /\ s_i st = 2 /\ cond1 qc_gtb 1 tol2 st = false.
  Proof. eexists. split; [vm_compute; reflexivity|]. split; reflexivity. Qed.
End C19Examples.
