(* T06.9: the rejection loop TERMINATES.  For arbitrary solver / error oracles:
   if every attempt with a step of at most hmin > 0 is accepted, and the
   controller shrinks a rejected step by a factor of at most rho < 1 (true of
   both shipped controllers whenever safety < 1: rho = max(factor_min, safety)),
   then the loop returns after at most k + 1 attempts, where k is any number
   with dt * rho^k <= hmin -- and such a k exists for every dt (Archimedes).
   Fuel is therefore not a restriction of the model: rej_loop with enough fuel
   never returns None. *)
From Coq Require Import List QArith Bool Lqa Lia.
From PD Require Import Model.Control Proofs.ControlProofs.
Import ListNotations.
Local Open Scope Q_scope.

Fixpoint qpow (x : Q) (n : nat) : Q :=
  match n with O => 1 | Datatypes.S m => x * qpow x m end.

Lemma qpow_bounds x n : 0 <= x -> x <= 1 -> 0 <= qpow x n <= 1.
Proof.
  intros H0 H1. induction n as [|n IH]; cbn [qpow]; [lra|]. nra.
Qed.

(* Bernoulli:  rho^k (1 + k e) <= 1  with  1/rho = 1 + e *)
Lemma qpow_bernoulli rho k : 0 < rho -> rho < 1 ->
  qpow rho k * (1 + inject_Z (Z.of_nat k) * ((1 - rho) / rho)) <= 1.
Proof.
  intros H0 H1. induction k as [|k IH].
  - cbn [qpow]. change (inject_Z (Z.of_nat 0)) with 0. lra.
  - cbn [qpow]. rewrite Nat2Z.inj_succ. unfold Z.succ. rewrite inject_Z_plus.
    change (inject_Z 1) with 1.
    pose proof (qpow_bounds rho k (Qlt_le_weak _ _ H0) (Qlt_le_weak _ _ H1)) as [P0 P1].
    set (e := (1 - rho) / rho) in *.
    assert (He : rho * e == 1 - rho).
    { unfold e. field. lra. }
    set (p := qpow rho k) in *. set (n := inject_Z (Z.of_nat k)) in *.
    (* rho p (1 + (n+1) e) = rho [p (1 + n e)] + p (rho e) <= rho + (1 - rho) *)
    setoid_replace (rho * p * (1 + (n + 1) * e)) with (rho * (p * (1 + n * e)) + p * (rho * e)) by ring.
    rewrite He. nra.
Qed.

Lemma qpow_archimedes rho x h : 0 < rho -> rho < 1 -> 0 < x -> 0 < h ->
  exists k : nat, x * qpow rho k <= h.
Proof.
  intros H0 H1 Hx Hh.
  set (e := (1 - rho) / rho).
  assert (He : 0 < e). { unfold e. apply Qlt_shift_div_l; lra. }
  destruct (Qarchimedean (x / h / e)) as [pp Hp].
  exists (Pos.to_nat pp).
  pose proof (qpow_bernoulli rho (Pos.to_nat pp) H0 H1) as HB. fold e in HB.
  rewrite positive_nat_Z in HB.
  pose proof (qpow_bounds rho (Pos.to_nat pp) (Qlt_le_weak _ _ H0) (Qlt_le_weak _ _ H1)) as [P0 P1].
  set (p := qpow rho (Pos.to_nat pp)) in *.
  change (Z.pos pp # 1) with (inject_Z (Z.pos pp)) in Hp.
  set (n := inject_Z (Z.pos pp)) in *.
  (* x/h/e < n  =>  x < n e h ;  p (1 + n e) <= 1  =>  p n e <= 1  => x p < n e h p <= h *)
  assert (Hxn : x < n * e * h).
  { assert (Hq : x / h / e * (e * h) == x) by (field; lra).
    assert (0 < e * h) by nra. nra. }
  assert (Hpn : p * (n * e) <= 1) by nra.
  nra.
Qed.

Section Termination.
  Variable S E : Type.
  Variable time : S -> Q.
  Variable sstep : S -> Q -> S.
  Variable est : E -> S -> S -> Q -> Q * E.
  Variable capply : Q -> Q -> Q -> Q * Q.
  Variable clip_dt : bool.

  Variable rho hmin : Q.
  Hypothesis Hrho0 : 0 < rho.
  Hypothesis Hrho1 : rho < 1.
  Hypothesis Hhmin : 0 < hmin.

  Variable CI : Q -> Prop.       (* invariant of the controller memory *)
  (* the controller keeps steps positive and shrinks a rejected step by rho *)
  Hypothesis Hctrl : forall dt c pow, 0 < dt -> CI c ->
      0 < fst (capply dt c pow) /\
      (pow < 1 -> fst (capply dt c pow) <= rho * dt) /\
      CI (snd (capply dt c pow)).
  (* sufficiently small steps are accepted, whatever the state *)
  Hypothesis Hsmall : forall e s dt, 0 < dt -> dt <= hmin ->
      1 <= fst (est e s (sstep s dt) dt).

  Local Notation RSt := (RS S E).
  Local Notation rej_loop := (rej_loop S E time sstep est capply clip_dt).
  Local Notation step_attempt := (step_attempt S E time sstep est capply clip_dt).

  Theorem rej_loop_terminates t1 : forall (k : nat) (r : RSt),
      0 < rs_dt S E r -> CI (rs_control S E r) ->
      (clip_dt = true -> time (rs_step_from S E r) < t1) ->
      rs_dt S E r * qpow rho k <= hmin ->
      forall fuel, (k < fuel)%nat -> exists r', rej_loop fuel t1 r = Some r'.
  Proof.
    induction k as [|k IH]; intros r Hdt Hci Hclip Hk fuel Hfuel.
    - destruct fuel as [|f]; [lia|]. cbn [Control.rej_loop].
      destruct (qltb (rs_acc S E r) 1) eqn:Hacc; [|eexists; reflexivity].
      (* one attempt with a step <= hmin: accepted *)
      set (dt := if clip_dt then qmin (rs_dt S E r) (t1 - time (rs_step_from S E r)) else rs_dt S E r).
      assert (Hd : 0 < dt /\ dt <= rs_dt S E r).
      { unfold dt. destruct clip_dt.
        - specialize (Hclip eq_refl).
          destruct (qmin_spec (rs_dt S E r) (t1 - time (rs_step_from S E r))) as [[A B]|[A B]]; rewrite B; lra.
        - lra. }
      destruct Hd as [Hd0 Hd1].
      cbn [qpow] in Hk.
      assert (Hdh : dt <= hmin) by (clearbody dt; lra).
      assert (Hacc1 : 1 <= fst (est (rs_err_step_from S E r) (rs_step_from S E r)
                                    (sstep (rs_step_from S E r) dt) dt)).
      { apply Hsmall; assumption. }
      unfold Control.step_attempt. fold dt.
      destruct (est (rs_err_step_from S E r) (rs_step_from S E r) (sstep (rs_step_from S E r) dt) dt)
        as [pow es] eqn:He. cbn [fst] in Hacc1.
      destruct (capply dt (rs_control S E r) pow) as [dtn c] eqn:Hc.
      destruct f as [|f']; cbn [Control.rej_loop rs_acc].
      + assert (Hq : qltb pow 1 = false) by (apply qltb_false; exact Hacc1).
        rewrite Hq. eexists; reflexivity.
      + assert (Hq : qltb pow 1 = false) by (apply qltb_false; exact Hacc1).
        rewrite Hq. eexists; reflexivity.
    - destruct fuel as [|f]; [lia|]. cbn [Control.rej_loop].
      destruct (qltb (rs_acc S E r) 1) eqn:Hacc; [|eexists; reflexivity].
      set (dt := if clip_dt then qmin (rs_dt S E r) (t1 - time (rs_step_from S E r)) else rs_dt S E r).
      assert (Hd : 0 < dt /\ dt <= rs_dt S E r).
      { unfold dt. destruct clip_dt.
        - specialize (Hclip eq_refl).
          destruct (qmin_spec (rs_dt S E r) (t1 - time (rs_step_from S E r))) as [[A B]|[A B]]; rewrite B; lra.
        - lra. }
      destruct Hd as [Hd0 Hd1].
      pose proof (Hctrl dt (rs_control S E r)) as HC.
      (* the state after the attempt *)
      assert (Hnext : exists r1, step_attempt t1 r = r1 /\
                 rs_step_from S E r1 = rs_step_from S E r /\
                 0 < rs_dt S E r1 /\ CI (rs_control S E r1) /\
                 (rs_acc S E r1 < 1 -> rs_dt S E r1 <= rho * dt)).
      { unfold Control.step_attempt. fold dt.
        destruct (est (rs_err_step_from S E r) (rs_step_from S E r) (sstep (rs_step_from S E r) dt) dt)
          as [pow es] eqn:He.
        specialize (HC pow Hd0 Hci).
        destruct (capply dt (rs_control S E r) pow) as [dtn c] eqn:Hc. cbn [fst snd] in HC.
        destruct HC as [C1 [C2 C3]].
        eexists. split; [reflexivity|]. cbn [rs_step_from rs_dt rs_control rs_acc].
        repeat split; auto. }
      destruct Hnext as [r1 [Hr1 [Hsf [Hdt1 [Hci1 Hshr]]]]].
      rewrite Hr1.
      destruct (Qlt_le_dec (rs_acc S E r1) 1) as [Hrej|Hok].
      + apply IH; auto.
        * rewrite Hsf. exact Hclip.
        * specialize (Hshr Hrej). cbn [qpow] in Hk.
          pose proof (qpow_bounds rho k (Qlt_le_weak _ _ Hrho0) (Qlt_le_weak _ _ Hrho1)) as [P0 P1].
          set (pk := qpow rho k) in *.
          clearbody dt.
          assert (Hrp : 0 <= rho * pk) by nra.
          assert (H1 : rs_dt S E r1 * pk <= (rho * dt) * pk) by nra.
          assert (H2 : dt * (rho * pk) <= rs_dt S E r * (rho * pk)) by nra.
          assert (H3 : (rho * dt) * pk == dt * (rho * pk)) by ring.
          assert (H4 : rs_dt S E r * (rho * pk) == rs_dt S E r * (rho * pk)) by reflexivity.
          lra.
        * lia.
      + destruct f as [|f']; cbn [Control.rej_loop].
        * assert (Hq : qltb (rs_acc S E r1) 1 = false) by (apply qltb_false; exact Hok).
          rewrite Hq. eexists; reflexivity.
        * assert (Hq : qltb (rs_acc S E r1) 1 = false) by (apply qltb_false; exact Hok).
          rewrite Hq. eexists; reflexivity.
  Qed.

  (* ... and a sufficient amount of fuel exists for every starting step *)
  Corollary rej_loop_enough_fuel_exists t1 (r : RSt) :
      0 < rs_dt S E r -> CI (rs_control S E r) ->
      (clip_dt = true -> time (rs_step_from S E r) < t1) ->
      exists n : nat, forall fuel, (n <= fuel)%nat -> exists r', rej_loop fuel t1 r = Some r'.
  Proof.
    intros Hdt Hci Hclip.
    destruct (qpow_archimedes rho (rs_dt S E r) hmin Hrho0 Hrho1 Hdt Hhmin) as [k Hk].
    exists (Datatypes.S k). intros fuel Hf.
    apply (rej_loop_terminates t1 k r Hdt Hci Hclip Hk). lia.
  Qed.
End Termination.

(* ------------------------------------------------- the shipped controllers *)
Section ControllersShrink.
  Variable p : ctrl_params.
  Hypothesis Hfmin : 0 < cp_fmin p.
  Hypothesis Hfmin1 : cp_fmin p < 1.
  Hypothesis Hfmax : cp_fmin p <= cp_fmax p.
  Hypothesis Hsafe0 : 0 < cp_safety p.
  Hypothesis HsafeS : cp_safety p < 1.

  Definition shrink_rho : Q := qmax (cp_fmin p) (cp_safety p).

  Lemma shrink_rho_bounds : 0 < shrink_rho /\ shrink_rho < 1.
  Proof.
    unfold shrink_rho. destruct (qmax_spec (cp_fmin p) (cp_safety p)) as [[A B]|[A B]]; rewrite B; lra.
  Qed.

  Lemma clip_factor_le_rho r : r <= cp_safety p -> clip_factor p r <= shrink_rho.
  Proof.
    intro Hr. unfold clip_factor, shrink_rho.
    destruct (qmax_spec (cp_fmin p) (cp_safety p)) as [[A B]|[A B]]; rewrite B;
      destruct (qmin_spec r (cp_fmax p)) as [[C D]|[C D]]; rewrite D;
      [destruct (qmax_spec (cp_fmin p) r) as [[G K]|[G K]]
      |destruct (qmax_spec (cp_fmin p) (cp_fmax p)) as [[G K]|[G K]]
      |destruct (qmax_spec (cp_fmin p) r) as [[G K]|[G K]]
      |destruct (qmax_spec (cp_fmin p) (cp_fmax p)) as [[G K]|[G K]]];
      rewrite K; lra.
  Qed.

  Theorem integral_shrinks dt c pow : 0 < dt ->
    0 < fst (integral_apply p dt c pow) /\
    (pow < 1 -> fst (integral_apply p dt c pow) <= shrink_rho * dt) /\
    True.
  Proof.
    intro Hdt. unfold integral_apply. cbn [fst].
    pose proof (clip_factor_bounds p Hfmax (cp_safety p * pow)) as [B1 B2].
    split; [nra|]. split; auto. intro Hp.
    assert (Hr : cp_safety p * pow <= cp_safety p) by nra.
    pose proof (clip_factor_le_rho _ Hr). nra.
  Qed.

  Variable pw : Q -> Q -> Q.
  Hypothesis Hpw : forall x e, x < 1 -> 0 <= pw x e <= 1.

  Theorem pi_shrinks dt prev pow : 0 < dt -> 1 <= prev ->
    0 < fst (pi_apply pw p dt prev pow) /\
    (pow < 1 -> fst (pi_apply pw p dt prev pow) <= shrink_rho * dt) /\
    1 <= snd (pi_apply pw p dt prev pow).
  Proof.
    intros Hdt Hprev. unfold pi_apply. cbv zeta. cbn [fst snd].
    pose proof (clip_factor_bounds p Hfmax
      (cp_safety p * pw pow (cp_eI p) * pw (pow / prev) (cp_eP p))) as [B1 B2].
    split; [nra|]. split.
    - intro Hp.
      pose proof (Hpw pow (cp_eI p) Hp) as [G1 G2].
      assert (Hq : pow / prev < 1) by (apply Qlt_shift_div_r; lra).
      pose proof (Hpw _ (cp_eP p) Hq) as [G3 G4].
      set (a := pw pow (cp_eI p)) in *. set (b := pw (pow / prev) (cp_eP p)) in *.
      assert (Hab0 : 0 <= a * b) by nra.
      assert (Hab1 : a * b <= 1) by nra.
      assert (Hr : cp_safety p * a * b <= cp_safety p).
      { setoid_replace (cp_safety p * a * b) with (cp_safety p * (a * b)) by ring. nra. }
      pose proof (clip_factor_le_rho _ Hr). nra.
    - destruct (Qle_bool 1 pow) eqn:Hb; auto. apply Qle_bool_iff in Hb. auto.
  Qed.
End ControllersShrink.

(* --------------------------------- the parameters as read from the source *)
From PD Require Import Generated.Constants.
Ltac qdec' := vm_compute; first [reflexivity | discriminate].

Lemma shipped_integral_shrinks :
  0 < shrink_rho src_integral_params /\ shrink_rho src_integral_params < 1 /\
  forall dt c pow, 0 < dt ->
    0 < fst (integral_apply src_integral_params dt c pow) /\
    (pow < 1 -> fst (integral_apply src_integral_params dt c pow)
                <= shrink_rho src_integral_params * dt) /\ True.
Proof.
  split; [qdec'|]. split; [qdec'|]. apply integral_shrinks; qdec'.
Qed.

Lemma shipped_pi_shrinks :
  0 < shrink_rho src_pi_params /\ shrink_rho src_pi_params < 1 /\
  forall (pw : Q -> Q -> Q), (forall x e, x < 1 -> 0 <= pw x e <= 1) ->
  forall dt prev pow, 0 < dt -> 1 <= prev ->
    0 < fst (pi_apply pw src_pi_params dt prev pow) /\
    (pow < 1 -> fst (pi_apply pw src_pi_params dt prev pow) <= shrink_rho src_pi_params * dt) /\
    1 <= snd (pi_apply pw src_pi_params dt prev pow).
Proof.
  split; [qdec'|]. split; [qdec'|]. intros pw Hpw. apply pi_shrinks; auto; qdec'.
Qed.

(* the shipped integral controller in the loop: termination for ANY solver and
   any error estimator that accepts steps <= hmin *)
Theorem shipped_integral_loop_terminates
        (S E : Type) (time : S -> Q) (sstep : S -> Q -> S) (est : E -> S -> S -> Q -> Q * E)
        (clip_dt : bool) (hmin : Q) :
  0 < hmin ->
  (forall e s dt, 0 < dt -> dt <= hmin -> 1 <= fst (est e s (sstep s dt) dt)) ->
  forall t1 (r : RS S E),
    0 < rs_dt S E r -> (clip_dt = true -> time (rs_step_from S E r) < t1) ->
    exists n : nat, forall fuel, (n <= fuel)%nat ->
      exists r', rej_loop S E time sstep est (integral_apply src_integral_params) clip_dt fuel t1 r = Some r'.
Proof.
  intros Hh Hsmall t1 r Hdt Hclip.
  destruct shipped_integral_shrinks as [R0 [R1 HS]].
  apply (rej_loop_enough_fuel_exists S E time sstep est (integral_apply src_integral_params) clip_dt
           (shrink_rho src_integral_params) hmin R0 R1 Hh (fun _ => True)); auto.

Qed.

Theorem shipped_pi_loop_terminates
        (S E : Type) (time : S -> Q) (sstep : S -> Q -> S) (est : E -> S -> S -> Q -> Q * E)
        (pw : Q -> Q -> Q) (clip_dt : bool) (hmin : Q) :
  (forall x e, x < 1 -> 0 <= pw x e <= 1) ->
  0 < hmin ->
  (forall e s dt, 0 < dt -> dt <= hmin -> 1 <= fst (est e s (sstep s dt) dt)) ->
  forall t1 (r : RS S E),
    0 < rs_dt S E r -> 1 <= rs_control S E r -> (clip_dt = true -> time (rs_step_from S E r) < t1) ->
    exists n : nat, forall fuel, (n <= fuel)%nat ->
      exists r', rej_loop S E time sstep est (pi_apply pw src_pi_params) clip_dt fuel t1 r = Some r'.
Proof.
  intros Hpw Hh Hsmall t1 r Hdt Hmem Hclip.
  destruct shipped_pi_shrinks as [R0 [R1 HS]].
  apply (rej_loop_enough_fuel_exists S E time sstep est (pi_apply pw src_pi_params) clip_dt
           (shrink_rho src_pi_params) hmin R0 R1 Hh (fun c => 1 <= c)); auto.
Qed.
