(* Non-vacuity of T06.9: the scripted error estimator of ControlShipped.v (accept
   iff dt <= 1/4) satisfies the "small steps are accepted" hypothesis with
   hmin = 1/4, so the termination theorems apply to a concrete machine. *)
From Coq Require Import List QArith Bool Lqa Lia.
From PD Require Import Model.Control Proofs.ControlProofs Generated.Constants Proofs.ControlShipped
  Proofs.ControlTermination.
Import ListNotations.
Local Open Scope Q_scope.

Lemma x_est_accepts_small_steps :
  forall (e : unit) (s : xS) (dt : Q), 0 < dt -> dt <= 1 # 4 -> 1 <= fst (x_est e s (x_step s dt) dt).
Proof.
  intros e s dt Hd Hs. unfold x_est. cbn [fst]. rewrite Qred_correct.
  apply Qle_shift_div_l; [exact Hd|]. lra.
Qed.

Example shipped_integral_loop_terminates_on_the_scripted_machine :
  forall t1 (r : RS xS unit), 0 < rs_dt xS unit r ->
    exists n : nat, forall fuel, (n <= fuel)%nat ->
      exists r', rej_loop xS unit x_time x_step x_est (integral_apply src_integral_params) false fuel t1 r = Some r'.
Proof.
  intros t1 r Hdt.
  apply (shipped_integral_loop_terminates xS unit x_time x_step x_est false (1 # 4)); auto.
  - reflexivity.
  - exact x_est_accepts_small_steps.
  - discriminate.
Qed.
