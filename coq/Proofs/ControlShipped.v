(* The shipped controller parameters (Generated/Constants.v, re-read from the
   source on every run) satisfy the hypotheses of the C06 theorems; plus a
   concrete non-trivial run showing that the hypotheses are jointly satisfiable. *)
From Coq Require Import List QArith Bool Lqa Lia.
From PD Require Import Model.Control Proofs.ControlProofs Generated.Constants.
Import ListNotations.
Local Open Scope Q_scope.

Ltac qdec := vm_compute; first [reflexivity | discriminate].

Lemma shipped_integral_ok :
  forall dt c pow, 0 < dt ->
    cp_fmin src_integral_params * dt
      <= fst (integral_apply src_integral_params dt c pow)
      <= cp_fmax src_integral_params * dt /\
    (pow < 1 -> fst (integral_apply src_integral_params dt c pow) < dt /\
                snd (integral_apply src_integral_params dt c pow) = c).
Proof. apply integral_contract; qdec. Qed.

Lemma shipped_pi_ok :
  forall (pw : Q -> Q -> Q), (forall x e, x < 1 -> 0 <= pw x e <= 1) ->
  forall dt prev pow, 0 < dt -> 1 <= prev ->
    cp_fmin src_pi_params * dt
      <= fst (pi_apply pw src_pi_params dt prev pow)
      <= cp_fmax src_pi_params * dt /\
    (pow < 1 -> fst (pi_apply pw src_pi_params dt prev pow) < dt /\
                snd (pi_apply pw src_pi_params dt prev pow) = prev) /\
    1 <= snd (pi_apply pw src_pi_params dt prev pow).
Proof. intros pw Hpw. apply pi_contract; auto; qdec. Qed.

Lemma C06_constants_ok :
  src_acc_init < src_acc_threshold /\ src_acc_threshold == 1 /\
  1 <= src_pi_memory_init /\ 0 <= src_default_eps /\ 0 < src_default_dt0 /\
  0 < cp_fmin src_integral_params /\ 0 < cp_fmin src_pi_params.
Proof. repeat split; qdec. Qed.

(* ---- non-vacuity: a concrete scripted solver and a complete run ---- *)
Definition xS := (Q * nat)%type.
Definition x_time (s : xS) := fst s.
Definition x_n (s : xS) := snd s.
Definition x_step (s : xS) (dt : Q) : xS := (Qred (fst s + dt), Datatypes.S (snd s)).
(* accept iff dt <= 1/4: error power (1/4)/dt *)
Definition x_est (e : unit) (a b : xS) (dt : Q) : Q * unit := (Qred ((1#4) / dt), tt).
Definition x_interp (t : Q) (a b : xS) : xS * (xS * xS) := ((t, snd b), (b, (t, snd a))).
Definition x_interp_at (t : Q) (a b : xS) : xS * (xS * xS) := (b, (b, (fst b, snd a))).

Definition x_run :=
  run xS unit x_time x_n x_step x_est x_interp x_interp_at
      (integral_apply src_integral_params) 0 tt false src_default_eps src_acc_init
      100 100 (0, O) 1 [1#2; 1; 3#2].

Example x_run_is_some :
  match x_run with
  | Some (sols, sN) =>
      length sols = 3%nat /\ count_acc (ts_trace _ _ sN) = 7%nat /\
      Nat.ltb 7 (length (filter is_attempt (ts_trace _ _ sN))) = true
  | None => False
  end.
Proof. vm_compute. repeat split. Qed.

Example x_oracles_satisfy_contracts :
  (forall s dt, x_time (x_step s dt) == x_time s + dt) /\
  (forall s dt, x_n (x_step s dt) = Datatypes.S (x_n s)) /\
  (forall t a b,
      x_time (fst (x_interp t a b)) == t /\
      x_time (fst (snd (x_interp t a b))) == x_time b /\
      x_time (snd (snd (x_interp t a b))) == t /\
      x_n (fst (x_interp t a b)) = x_n b /\
      x_n (fst (snd (x_interp t a b))) = x_n b) /\
  (forall t a b,
      x_time (fst (x_interp_at t a b)) == x_time b /\
      x_time (fst (snd (x_interp_at t a b))) == x_time b /\
      x_time (snd (snd (x_interp_at t a b))) == x_time b /\
      x_n (fst (x_interp_at t a b)) = x_n b /\
      x_n (fst (snd (x_interp_at t a b))) = x_n b).
Proof.
  split; [intros s dt; unfold x_time, x_step; cbn [fst]; apply Qred_correct|].
  repeat split; simpl; reflexivity.
Qed.
