(* C15 (proof part): the ravel orders of the three state-space factorisations
   (Model/Ravel.v).
   T15.1  unravel (ravel x) = x for well-formed coefficient structures, in the
          dense, isotropic and block-diagonal order (and ravel (unravel v) = v)
   T15.2  isotropic[i][a] = dense[i*d+a] = blockdiag[a][i]
   T15.3  re-indexing (permuting) the flat state components re-indexes the
          ravel: rows entrywise (isotropic), blocks (block-diagonal), index
          i*d + sigma a (dense).
   NOT provable in any Gallina model and therefore NOT claimed here: that
   jax.jit and jax.vmap preserve results (runtime properties of JAX/XLA).  The
   C15 proof is PARTIAL; jit/vmap are covered by harness/c15.py only. *)
From Coq Require Import List Arith Lia PeanoNat.
From PD Require Import Model.Ravel.
Import ListNotations.

Section RavelProofs.
  Context {A : Type}.
  Variable dflt : A.
  Local Notation tree := (tree A).
  Local Notation forest := (forest A).

  Scheme tree_ind2 := Induction for Ravel.tree Sort Prop
  with forest_ind2 := Induction for Ravel.forest Sort Prop.
  Combined Scheme tree_forest_ind from tree_ind2, forest_ind2.
  Scheme stree_ind2 := Induction for Ravel.stree Sort Prop
  with sforest_ind2 := Induction for Ravel.sforest Sort Prop.
  Combined Scheme stree_sforest_ind from stree_ind2, sforest_ind2.

  (* cbn unfolds the first component of a mutual fixpoint without refolding it *)
  Ltac refold :=
    repeat (progress (fold (@wf A) in *; fold (@wf_f A) in *; fold (@shape_of A) in *; fold (@shape_of_f A) in *;
                      fold (@ravel_tree A) in *; fold (@ravel_forest A) in *; fold (@unravel A) in *;
                      fold (@unravel_f A) in *; fold size in *; fold size_f in * )).

  (* ------------------------------------------------------------ list facts *)
  Lemma firstn_app_len (l r : list A) : firstn (length l) (l ++ r) = l.
  Proof. induction l as [|x l IH]; simpl; [reflexivity|]. rewrite IH. reflexivity. Qed.
  Lemma skipn_app_len (l r : list A) : skipn (length l) (l ++ r) = r.
  Proof. induction l as [|x l IH]; simpl; [reflexivity|]. exact IH. Qed.

  Lemma nth_map_seq {B : Type} (f : nat -> B) n a (d0 : B) : a < n -> nth a (map f (seq 0 n)) d0 = f a.
  Proof.
    intro Ha. rewrite nth_indep with (d' := f 0) by (rewrite map_length, seq_length; exact Ha).
    rewrite map_nth. rewrite seq_nth by exact Ha. reflexivity.
  Qed.
  Lemma nth_map_in {B C : Type} (f : B -> C) (l : list B) i (d0 : B) (d1 : C) :
    i < length l -> nth i (map f l) d1 = f (nth i l d0).
  Proof.
    intro Hi. rewrite nth_indep with (d' := f d0) by (rewrite map_length; exact Hi). apply map_nth.
  Qed.

  Lemma skipn_add a b (l : list A) : skipn b (skipn a l) = skipn (a + b) l.
  Proof.
    revert l. induction a as [|a IH]; intro l; [reflexivity|].
    destruct l as [|x l]; simpl; [apply skipn_nil|apply IH].
  Qed.
  Lemma firstn_add a b (l : list A) : firstn a l ++ firstn b (skipn a l) = firstn (a + b) l.
  Proof.
    revert l. induction a as [|a IH]; intro l; [reflexivity|].
    destruct l as [|x l]; simpl; [rewrite firstn_nil; reflexivity|rewrite IH; reflexivity].
  Qed.

  (* ---------------------------------------------------------- single trees *)
  Lemma ravel_length :
    (forall t : tree, wf t -> length (ravel_tree t) = size (shape_of t))
    /\ (forall f : forest, wf_f f -> length (ravel_forest f) = size_f (shape_of_f f)).
  Proof.
    apply tree_forest_ind.
    - intros sh data Hw. exact Hw.
    - intros f IH Hw. cbn in *; refold. apply IH. exact Hw.
    - intros _. reflexivity.
    - intros t IHt f IHf Hw. cbn in *; refold. destruct Hw as [Hwt Hwf].
      rewrite app_length, IHt, IHf by assumption. reflexivity.
  Qed.

  Lemma unravel_ravel_gen :
    (forall t : tree, wf t -> forall r, unravel (shape_of t) (ravel_tree t ++ r) = (t, r))
    /\ (forall f : forest, wf_f f -> forall r, unravel_f (shape_of_f f) (ravel_forest f ++ r) = (f, r)).
  Proof.
    apply tree_forest_ind.
    - intros sh data Hw r. cbn in *; refold. rewrite <- Hw. rewrite firstn_app_len, skipn_app_len. reflexivity.
    - intros f IH Hw r. cbn in *; refold. rewrite IH by assumption. reflexivity.
    - intros _ r. reflexivity.
    - intros t IHt f IHf Hw r. cbn in *; refold. destruct Hw as [Hwt Hwf]. rewrite <- app_assoc.
      rewrite IHt by assumption. rewrite IHf by assumption. reflexivity.
  Qed.

  (* T15.1 for one tree *)
  Theorem unravel_ravel_tree (t : tree) :
    wf t -> fst (unravel (shape_of t) (ravel_tree t)) = t.
  Proof.
    intro Hw. pose proof (proj1 unravel_ravel_gen t Hw []) as E.
    rewrite app_nil_r in E. rewrite E. reflexivity.
  Qed.

  (* the other round trip: unravel is well-formed, has the requested shape, and
     ravels back to the consumed prefix *)
  Lemma ravel_unravel_gen :
    (forall (s : stree) (v : list A), size s <= length v ->
        wf (fst (unravel s v)) /\ shape_of (fst (unravel s v)) = s
        /\ ravel_tree (fst (unravel s v)) = firstn (size s) v
        /\ snd (unravel s v) = skipn (size s) v)
    /\ (forall (f : sforest) (v : list A), size_f f <= length v ->
        wf_f (fst (unravel_f f v)) /\ shape_of_f (fst (unravel_f f v)) = f
        /\ ravel_forest (fst (unravel_f f v)) = firstn (size_f f) v
        /\ snd (unravel_f f v) = skipn (size_f f) v).
  Proof.
    apply stree_sforest_ind.
    - intros sh v Hl. cbn in *; refold. repeat split. apply firstn_length_le. exact Hl.
    - intros f IH v Hl. cbn in Hl; refold. destruct (IH v Hl) as [Hw [Hs [Hr Hk]]].
      cbn; refold. destruct (unravel_f f v) as [fr rest]. cbn in *; refold. repeat split; try assumption.
      rewrite Hs. reflexivity.
    - intros v _. cbn. repeat split.
    - intros s IHs f IHf v Hl. cbn in Hl; refold.
      assert (Hls : size s <= length v) by lia.
      destruct (IHs v Hls) as [Hw [Hs [Hr Hk]]].
      cbn; refold. destruct (unravel s v) as [t r]. cbn in Hw, Hs, Hr, Hk; refold.
      assert (Hlf : size_f f <= length r).
      { rewrite Hk. rewrite skipn_length. lia. }
      destruct (IHf r Hlf) as [Hwf [Hsf [Hrf Hkf]]].
      destruct (unravel_f f r) as [fr r']. cbn in *; refold.
      repeat split; try assumption.
      + rewrite Hs, Hsf. reflexivity.
      + rewrite Hr, Hrf, Hk. apply firstn_add.
      + rewrite Hkf, Hk. apply skipn_add.
  Qed.

  Theorem ravel_unravel_tree (s : stree) (v : list A) :
    length v = size s -> ravel_tree (fst (unravel s v)) = v.
  Proof.
    intro Hl. destruct (proj1 ravel_unravel_gen s v) as [_ [_ [Hr _]]]; [lia|].
    rewrite Hr. rewrite <- Hl. apply firstn_all.
  Qed.
  Theorem unravel_wf_shape (s : stree) (v : list A) :
    length v = size s -> wf (fst (unravel s v)) /\ shape_of (fst (unravel s v)) = s.
  Proof.
    intro Hl. destruct (proj1 ravel_unravel_gen s v) as [Hw [Hs _]]; [lia|]. split; assumption.
  Qed.

  (* ------------------------------------------------- coefficient structures *)
  Lemma rows_length (s : stree) (x : list tree) :
    coeffs_ok s x -> Forall (fun r => length r = size s) (ravel_iso x).
  Proof.
    intro H. unfold ravel_iso. apply Forall_map. eapply Forall_impl; [|exact H].
    intros t [Hw Hs]. simpl. rewrite <- Hs. apply (proj1 ravel_length). exact Hw.
  Qed.

  (* T15.1 isotropic *)
  Theorem unravel_ravel_iso (s : stree) (x : list tree) :
    coeffs_ok s x -> unravel_iso s (ravel_iso x) = x.
  Proof.
    intro H. unfold unravel_iso, ravel_iso. rewrite map_map.
    rewrite <- (map_id x) at 2. apply map_ext_in. intros t Ht.
    unfold coeffs_ok in H. rewrite Forall_forall in H. destruct (H t Ht) as [Hw Hs].
    rewrite <- Hs. apply unravel_ravel_tree. exact Hw.
  Qed.

  Lemma chunks_concat d (rows : list (list A)) (rest : list A) :
    Forall (fun r => length r = d) rows ->
    chunks d (length rows) (concat rows ++ rest) = rows.
  Proof.
    induction rows as [|r rows IH]; intro H; simpl; [reflexivity|].
    inversion H as [|? ? Hr Hrs]; subst. rewrite <- app_assoc.
    rewrite firstn_app_len, skipn_app_len. rewrite IH by assumption. reflexivity.
  Qed.

  (* T15.1 dense *)
  Theorem unravel_ravel_dense (s : stree) (x : list tree) :
    coeffs_ok s x -> unravel_dense s (length x) (ravel_dense x) = x.
  Proof.
    intro H. unfold unravel_dense, ravel_dense.
    pose proof (rows_length s x H) as Hrows.
    replace (length x) with (length (ravel_iso x)) by (unfold ravel_iso; apply map_length).
    rewrite <- (app_nil_r (concat (ravel_iso x))).
    rewrite chunks_concat by exact Hrows. apply unravel_ravel_iso. exact H.
  Qed.

  (* transposition *)
  Lemma transpose_length ncols (M : list (list A)) : length (transpose dflt ncols M) = ncols.
  Proof. unfold transpose. rewrite map_length, seq_length. reflexivity. Qed.
  Lemma transpose_row ncols (M : list (list A)) a : a < ncols ->
    nth a (transpose dflt ncols M) [] = map (fun row => nth a row dflt) M.
  Proof.
    intro Ha. unfold transpose. apply (nth_map_seq (fun a => map (fun row => nth a row dflt) M)). exact Ha.
  Qed.
  Lemma transpose_nth ncols (M : list (list A)) a i : a < ncols -> i < length M ->
    nth i (nth a (transpose dflt ncols M) []) dflt = nth a (nth i M []) dflt.
  Proof.
    intros Ha Hi. rewrite transpose_row by exact Ha.
    apply (nth_map_in (fun row => nth a row dflt) M i [] dflt). exact Hi.
  Qed.
  Lemma transpose_transpose d (M : list (list A)) :
    Forall (fun r => length r = d) M ->
    transpose dflt (length M) (transpose dflt d M) = M.
  Proof.
    intro H. apply nth_ext with (d := []) (d' := []).
    - apply transpose_length.
    - intros i Hi. rewrite transpose_length in Hi.
      rewrite Forall_forall in H.
      assert (Hrow : length (nth i M []) = d) by (apply H; apply nth_In; exact Hi).
      rewrite transpose_row by exact Hi.
      apply nth_ext with (d := dflt) (d' := dflt).
      + rewrite map_length, transpose_length. symmetry. exact Hrow.
      + intros a Ha. rewrite map_length, transpose_length in Ha.
        rewrite (nth_map_in (fun row => nth i row dflt) (transpose dflt d M) a [] dflt)
          by (rewrite transpose_length; exact Ha).
        apply transpose_nth; assumption.
  Qed.

  (* T15.1 block-diagonal *)
  Theorem unravel_ravel_blockdiag (s : stree) (x : list tree) :
    coeffs_ok s x -> unravel_blockdiag dflt s (length x) (ravel_blockdiag dflt s x) = x.
  Proof.
    intro H. unfold unravel_blockdiag, ravel_blockdiag.
    replace (length x) with (length (ravel_iso x)) by (unfold ravel_iso; apply map_length).
    rewrite transpose_transpose by (apply rows_length; exact H).
    apply unravel_ravel_iso. exact H.
  Qed.

  (* the unravel direction: every array of the right size is the ravel of its unravel *)
  Theorem ravel_unravel_iso (s : stree) (M : list (list A)) :
    Forall (fun r => length r = size s) M -> ravel_iso (unravel_iso s M) = M.
  Proof.
    intro H. unfold ravel_iso, unravel_iso. rewrite map_map.
    rewrite <- (map_id M) at 2. apply map_ext_in. intros r Hr.
    rewrite Forall_forall in H. apply ravel_unravel_tree. apply H. exact Hr.
  Qed.
  Theorem unravel_iso_ok (s : stree) (M : list (list A)) :
    Forall (fun r => length r = size s) M -> coeffs_ok s (unravel_iso s M).
  Proof.
    intro H. unfold coeffs_ok, unravel_iso. apply Forall_map.
    eapply Forall_impl; [|exact H]. intros r Hr. simpl. apply unravel_wf_shape. exact Hr.
  Qed.

  Theorem ravel_unravel_iso_both (s : stree) (M : list (list A)) :
    Forall (fun r => length r = size s) M ->
    ravel_iso (unravel_iso s M) = M /\ coeffs_ok s (unravel_iso s M).
  Proof. intro H. split; [apply ravel_unravel_iso|apply unravel_iso_ok]; exact H. Qed.

  (* ------------------------------------------------------------------ T15.2 *)
  Lemma nth_concat d (rows : list (list A)) i a :
    Forall (fun r => length r = d) rows -> i < length rows -> a < d ->
    nth (i * d + a) (concat rows) dflt = nth a (nth i rows []) dflt.
  Proof.
    revert i. induction rows as [|r rows IH]; intros i H Hi Ha; [simpl in Hi; lia|].
    inversion H as [|? ? Hr Hrs]; subst. simpl concat.
    destruct i as [|i].
    - simpl. apply app_nth1. lia.
    - replace (S i * length r + a) with (length r + (i * length r + a)) by (simpl; lia).
      rewrite app_nth2_plus. simpl in Hi. apply IH; [assumption|lia|assumption].
  Qed.

  Theorem ravel_orders_agree (s : stree) (x : list tree) i a :
    coeffs_ok s x -> i < length x -> a < size s ->
    nth a (nth i (ravel_iso x) []) dflt = nth (i * size s + a) (ravel_dense x) dflt
    /\ nth a (nth i (ravel_iso x) []) dflt = nth i (nth a (ravel_blockdiag dflt s x) []) dflt.
  Proof.
    intros H Hi Ha. pose proof (rows_length s x H) as Hrows.
    assert (Hi' : i < length (ravel_iso x)) by (unfold ravel_iso; rewrite map_length; exact Hi).
    split.
    - unfold ravel_dense. symmetry. apply nth_concat; assumption.
    - unfold ravel_blockdiag. symmetry. apply transpose_nth; assumption.
  Qed.

  (* shapes of the three arrays: (n*d,), (n, d), (d, n) *)
  Theorem ravel_shapes (s : stree) (x : list tree) :
    coeffs_ok s x ->
    length (ravel_dense x) = length x * size s
    /\ (length (ravel_iso x) = length x /\ Forall (fun r => length r = size s) (ravel_iso x))
    /\ (length (ravel_blockdiag dflt s x) = size s
        /\ Forall (fun r => length r = length x) (ravel_blockdiag dflt s x)).
  Proof.
    intro H. pose proof (rows_length s x H) as Hrows.
    assert (Hn : length (ravel_iso x) = length x) by (unfold ravel_iso; apply map_length).
    repeat split; try assumption.
    - unfold ravel_dense. rewrite <- Hn. clear Hn. induction Hrows as [|r rows Hr _ IH]; simpl; [reflexivity|].
      rewrite app_length, IH, Hr. reflexivity.
    - apply transpose_length.
    - unfold ravel_blockdiag, transpose. apply Forall_map. apply Forall_forall. intros a _.
      simpl. rewrite map_length. exact Hn.
  Qed.

  (* ------------------------------------------------------------------ T15.3 *)
  Lemma reindex_length sigma d (v : list A) : length (reindex dflt sigma d v) = d.
  Proof. unfold reindex. rewrite map_length, seq_length. reflexivity. Qed.
  Lemma reindex_nth sigma d (v : list A) a : a < d ->
    nth a (reindex dflt sigma d v) dflt = nth (sigma a) v dflt.
  Proof.
    intro Ha. unfold reindex. apply (nth_map_seq (fun a => nth (sigma a) v dflt)). exact Ha.
  Qed.

  (* the permuted structure is well formed with the same shape tree, and its
     isotropic ravel is the row-wise re-indexed ravel *)
  Theorem permute_coeffs_ok sigma (s : stree) (x : list tree) :
    coeffs_ok s (permute_coeffs dflt sigma s x)
    /\ length (permute_coeffs dflt sigma s x) = length x.
  Proof.
    unfold permute_coeffs. split.
    - apply unravel_iso_ok. apply Forall_map. apply Forall_forall. intros r _. apply reindex_length.
    - unfold unravel_iso, ravel_iso. rewrite !map_length. reflexivity.
  Qed.

  Theorem ravel_iso_permuted sigma (s : stree) (x : list tree) :
    ravel_iso (permute_coeffs dflt sigma s x)
    = map (reindex dflt sigma (size s)) (ravel_iso x).
  Proof.
    unfold permute_coeffs. apply ravel_unravel_iso.
    apply Forall_map. apply Forall_forall. intros r _. apply reindex_length.
  Qed.

  Theorem ravel_dense_permuted sigma (s : stree) (x : list tree) i a :
    coeffs_ok s x -> i < length x -> a < size s -> sigma a < size s ->
    nth (i * size s + a) (ravel_dense (permute_coeffs dflt sigma s x)) dflt
    = nth (i * size s + sigma a) (ravel_dense x) dflt.
  Proof.
    intros H Hi Ha Hsa.
    destruct (permute_coeffs_ok sigma s x) as [Hok Hlen].
    destruct (ravel_orders_agree s _ i a Hok) as [E1 _]; [lia|assumption|].
    destruct (ravel_orders_agree s x i (sigma a) H Hi Hsa) as [E2 _].
    rewrite <- E1, <- E2. rewrite ravel_iso_permuted.
    assert (Hi' : i < length (ravel_iso x)) by (unfold ravel_iso; rewrite map_length; exact Hi).
    rewrite (nth_map_in (reindex dflt sigma (size s)) (ravel_iso x) i [] []) by exact Hi'.
    apply reindex_nth. exact Ha.
  Qed.

  (* block a of the permuted problem is block sigma(a) of the original one *)
  Theorem ravel_blockdiag_permuted sigma (s : stree) (x : list tree) :
    (forall a, a < size s -> sigma a < size s) ->
    ravel_blockdiag dflt s (permute_coeffs dflt sigma s x)
    = map (fun a => nth (sigma a) (ravel_blockdiag dflt s x) []) (seq 0 (size s)).
  Proof.
    intro Hsig. unfold ravel_blockdiag. rewrite ravel_iso_permuted.
    unfold transpose at 1. apply map_ext_in. intros a Ha. apply in_seq in Ha.
    rewrite transpose_row by (apply Hsig; lia).
    rewrite map_map. apply map_ext. intro row. apply reindex_nth. lia.
  Qed.
End RavelProofs.

(* the hypotheses are satisfiable: a dict-like state {a: scalar, b: 2x1 array}
   nested in a tuple with a rank-3 leaf, two Taylor coefficients *)
Example ravel_example :
  let t0 := Node (FCons (Leaf [] [1]) (FCons (Node (FCons (Leaf [2; 1] [2; 3]) (FCons (Leaf [1; 1; 1] [4]) FNil))) FNil)) in
  let t1 := Node (FCons (Leaf [] [5]) (FCons (Node (FCons (Leaf [2; 1] [6; 7]) (FCons (Leaf [1; 1; 1] [8]) FNil))) FNil)) in
  let s := shape_of t0 in
  coeffs_ok s [t0; t1]
  /\ ravel_dense [t0; t1] = [1; 2; 3; 4; 5; 6; 7; 8]
  /\ ravel_iso [t0; t1] = [[1; 2; 3; 4]; [5; 6; 7; 8]]
  /\ ravel_blockdiag 0 s [t0; t1] = [[1; 5]; [2; 6]; [3; 7]; [4; 8]]
  /\ unravel_blockdiag 0 s 2 [[1; 5]; [2; 6]; [3; 7]; [4; 8]] = [t0; t1]
  /\ ravel_iso (permute_coeffs 0 (fun a => 3 - a) s [t0; t1]) = [[4; 3; 2; 1]; [8; 7; 6; 5]].
Proof.
  cbv zeta. repeat split.
  repeat constructor.
Qed.
