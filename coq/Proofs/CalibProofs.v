(* C04: the running update is the running mean of squares (quasi-MLE), and the
   Kalman recursion is equivariant under rescaling of all covariances. *)
From Coq Require Import List Arith Lia Bool Field Ring ZArith.
From PD Require Import Base.Field Base.Matrix Base.Solve Model.Gauss Model.Poly Model.Prior Model.Solver
  Spec.RTS Proofs.GaussProofs Proofs.FilterProofs Proofs.PriorProofs.
Import ListNotations.

Section CalibProofs.
  Context {F : Type} `{FL : FieldLaws F}.
  Local Open Scope F_scope.
  Add Field FFc : fth.
  Local Notation mat := (@mat F).

  (* ---------------------------------------------------------------- T04.1 *)
  (* the MLE solver's accumulation: (num_data, running^2) after consuming the
     squared whitened residual norms of the steps, one by one *)
  Definition run_fold (terms : list F) (st : nat * F) : nat * F :=
    fold_left (fun s b2 => (S (fst s), running_update (fst s) (snd s) b2)) terms st.

  Lemma fnat_S (n : nat) : fnat (S n) = fnat n + (1 : F).
  Proof.
    unfold fnat. rewrite Nat2Z.inj_succ. unfold Z.succ.
    destruct (Z.of_nat n) as [|p|p] eqn:Hz; simpl.
    - ring.
    - (* fpos (p+1) = fpos p + 1 *)
      clear Hz. revert p. 
      assert (Hsucc : forall p, fpos (Pos.succ p) = fpos p + (1:F)).
      { induction p as [p IH|p IH|]; simpl; try rewrite IH; ring. }
      intro p. rewrite Pos.add_1_r. apply Hsucc.
    - lia.
  Qed.

  Lemma running_update_spec n (a2 b2 : F) :
    running_update n a2 b2 * fnat (S n) = a2 * fnat n + b2.
  Proof.
    unfold running_update. pose proof (fnat_S_nonzero (F:=F) n). field. assumption.
  Qed.

  Lemma run_fold_inv (terms : list F) : forall n a2,
    snd (run_fold terms (n, a2)) * fnat (fst (run_fold terms (n, a2)))
    = a2 * fnat n + fold_right fadd 0 terms
    /\ fst (run_fold terms (n, a2)) = (n + length terms)%nat.
  Proof.
    induction terms as [|b l IH]; intros n a2; simpl.
    - split; [ring|lia].
    - unfold run_fold in *. simpl.
      destruct (IH (S n) (running_update n a2 b)) as [H1 H2].
      split.
      + rewrite H1. rewrite running_update_spec. ring.
      + rewrite H2. lia.
  Qed.

  (* after N >= 1 steps the running value squared is the mean of the N terms *)
  Theorem running_rms_is_rms (terms : list F) :
    terms <> [] ->
    snd (run_fold terms (O, 0))
    = fold_right fadd 0 terms / fnat (length terms)
    /\ fst (run_fold terms (O, 0)) = length terms.
  Proof.
    intro Hne. destruct (run_fold_inv terms O 0) as [H1 H2]. simpl in H2.
    split; [|exact H2].
    rewrite H2 in H1.
    destruct terms as [|b l]; [contradiction|].
    cbn [length] in *. pose proof (fnat_S_nonzero (F:=F) (length l)) as Hnz.
    assert (Hs : snd (run_fold (b :: l) (O, 0)) * fnat (S (length l)) = fold_right fadd 0 (b :: l)).
    { rewrite H1. unfold fnat at 1. simpl. ring. }
    rewrite <- Hs. field. exact Hnz.
  Qed.

  (* the 1/sqrt(N) correction, on squares: calibrated scale^2 = mean / N *)
  Theorem mle_final_scale_formula (cf : @config F) (last : @sstate F) nlast :
    cf_calib cf = CalMLE true ->
    final_scale2 cf last nlast = map (fun x => x / fnat nlast) (st_run2 last).
  Proof. intro Hc. unfold final_scale2. rewrite Hc. reflexivity. Qed.

  (* ---------------------------------------------------------------- T04.3 *)
  Lemma mmul_mscale_l n k m c (A B : mat) :
    mmul n k m (mscale n k c A) B = mscale n m c (mmul n k m A B).
  Proof.
    unfold mmul at 1, mscale at 2. apply mk_ext. intros i j Hi Hj.
    rewrite mget_mmul by assumption. rewrite <- vsum_scale_l. apply vsum_ext. intros l Hl.
    rewrite mget_mscale by assumption. ring.
  Qed.
  Lemma mmul_mscale_r n k m c (A B : mat) :
    mmul n k m A (mscale k m c B) = mscale n m c (mmul n k m A B).
  Proof.
    unfold mmul at 1, mscale at 2. apply mk_ext. intros i j Hi Hj.
    rewrite mget_mmul by assumption. rewrite <- vsum_scale_l. apply vsum_ext. intros l Hl.
    rewrite mget_mscale by assumption. ring.
  Qed.
  Lemma mscale_mscale n m a b (A : mat) :
    mscale n m a (mscale n m b A) = mscale n m (a * b) A.
  Proof.
    unfold mscale at 1 3. apply mk_ext. intros i j Hi Hj.
    rewrite mget_mscale by assumption. ring.
  Qed.
  Lemma mscale_one n m (A : mat) : mscale n m 1 A = canon n m A.
  Proof. unfold mscale, canon. apply mk_ext. intros. ring. Qed.

  (* uniqueness of certified inverses, hence inverse of a rescaled matrix *)
  Lemma minv_unique n (A X Y : mat) :
    mmul n n n X A = mid n -> mmul n n n A Y = mid n ->
    canon n n X = canon n n Y.
  Proof.
    intros HX HY.
    rewrite <- (mmul_id_r n n X). rewrite <- HY.
    rewrite <- mmul_assoc. rewrite HX. apply mmul_id_l.
  Qed.

  Theorem minv_of_rescaled n c (A X X' : mat) :
    c <> 0 -> minv n A = Some X -> minv n (mscale n n c A) = Some X' ->
    X' = mscale n n (finv c) X.
  Proof.
    intros Hc HX HX'.
    apply minv_spec in HX. destruct HX as [HXc [HAX HXA]].
    apply minv_spec in HX'. destruct HX' as [HXc' [HAX' HXA']].
    rewrite HXc'.
    assert (HY : mmul n n n (mscale n n c A) (mscale n n (finv c) X) = mid n).
    { rewrite mmul_mscale_l, mmul_mscale_r, mscale_mscale. rewrite HAX.
      replace (c * finv c) with (1 : F) by (field; exact Hc).
      rewrite mscale_one. unfold mid. apply canon_mk. }
    rewrite (minv_unique n (mscale n n c A) X' (mscale n n (finv c) X) HXA' HY).
    unfold mscale. apply canon_mk.
  Qed.

  (* Kalman prediction: scaling P and Q by c scales the predicted covariance by c
     and leaves the mean unchanged *)
  Theorem kf_predict_scale n k c (A b Q : mat) (rv : @normal F) :
    kf_predict n k A b (mscale n n c Q) (mkN (n_mean rv) (mscale n n c (n_cov rv)))
    = mkN (n_mean (kf_predict n k A b Q rv)) (mscale n n c (n_cov (kf_predict n k A b Q rv))).
  Proof.
    unfold kf_predict; cbn [n_mean n_cov]. f_equal.
    rewrite mmul_mscale_r, mmul_mscale_l.
    unfold madd at 1, mscale at 3. apply mk_ext. intros i j Hi Hj.
    rewrite mget_madd by assumption. rewrite !mget_mscale by assumption. ring.
  Qed.

  Lemma madd_mscale n m c (X Y : mat) :
    madd n m (mscale n m c X) (mscale n m c Y) = mscale n m c (madd n m X Y).
  Proof.
    unfold madd at 1, mscale at 3. apply mk_ext. intros i j Hi Hj.
    rewrite mget_madd by assumption. rewrite !mget_mscale by assumption. ring.
  Qed.
  Lemma msub_mscale n m c (X Y : mat) :
    msub n m (mscale n m c X) (mscale n m c Y) = mscale n m c (msub n m X Y).
  Proof.
    unfold msub at 1, mscale at 3. apply mk_ext. intros i j Hi Hj.
    rewrite mget_msub by assumption. rewrite !mget_mscale by assumption. ring.
  Qed.

  (* Kalman update: scaling P and R by c <> 0 leaves gain and mean unchanged and
     scales the posterior covariance by c *)
  Theorem kf_update_scale n k cc c (Hm r R : mat) (rv u u' : @normal F) :
    c <> 0 ->
    kf_update minv n k cc Hm r R rv = Some u ->
    kf_update minv n k cc Hm r (mscale k k c R) (mkN (n_mean rv) (mscale n n c (n_cov rv))) = Some u' ->
    u' = mkN (n_mean u) (mscale n n c (n_cov u)).
  Proof.
    intros Hc H1 H2. unfold kf_update in *. cbn [n_mean n_cov] in H2.
    set (S := madd k k (mmul k n k (mmul k n n Hm (n_cov rv)) (mtr k n Hm)) R) in *.
    assert (HS : madd k k (mmul k n k (mmul k n n Hm (mscale n n c (n_cov rv))) (mtr k n Hm)) (mscale k k c R)
                 = mscale k k c S).
    { rewrite mmul_mscale_r, mmul_mscale_l. apply madd_mscale. }
    rewrite HS in H2.
    destruct (minv k S) as [Si|] eqn:HSi; [|discriminate].
    destruct (minv k (mscale k k c S)) as [Si'|] eqn:HSi'; [|discriminate].
    pose proof (minv_of_rescaled k c S Si Si' Hc HSi HSi') as HX. subst Si'.
    inversion H1; subst u. inversion H2; subst u'. clear H1 H2. cbn [n_mean n_cov].
    assert (HK : mmul n k k (mmul n n k (mscale n n c (n_cov rv)) (mtr k n Hm)) (mscale k k (finv c) Si)
                 = canon n k (mmul n k k (mmul n n k (n_cov rv) (mtr k n Hm)) Si)).
    { rewrite mmul_mscale_l, mmul_mscale_l, mmul_mscale_r, mscale_mscale.
      replace (c * finv c) with (1 : F) by (field; exact Hc). apply mscale_one. }
    rewrite HK. rewrite !mmul_canon_l. rewrite mtr_canon.
    f_equal.
    rewrite mmul_mscale_r, mmul_mscale_l. apply msub_mscale.
  Qed.

  (* whitened residual: scaling the covariance by c divides rms^2 by c *)
  Theorem whitened_rms2_scale n cc c (rv : @normal F) (u : mat) x x' :
    c <> 0 ->
    whitened_rms2 minv n cc rv u = Some x ->
    whitened_rms2 minv n cc (mkN (n_mean rv) (mscale n n c (n_cov rv))) u = Some x' ->
    x' = x / c.
  Proof.
    intros Hc H1 H2. unfold whitened_rms2 in *. cbn [n_mean n_cov] in H2.
    destruct (minv n (n_cov rv)) as [Si|] eqn:HSi; [|discriminate].
    destruct (minv n (mscale n n c (n_cov rv))) as [Si'|] eqn:HSi'; [|discriminate].
    pose proof (minv_of_rescaled n c _ Si Si' Hc HSi HSi') as HX. subst Si'.
    inversion H1; subst x. inversion H2; subst x'. clear H1 H2.
    set (R := msub n cc u (n_mean rv)).
    assert (Hs : vsum n (fun i => vsum cc (fun a => mget R i a * mget (mmul n n cc (mscale n n (finv c) Si) R) i a))
                 = finv c * vsum n (fun i => vsum cc (fun a => mget R i a * mget (mmul n n cc Si R) i a))).
    { rewrite <- vsum_scale_l. apply vsum_ext. intros i Hi.
      rewrite <- vsum_scale_l. apply vsum_ext. intros a Ha.
      rewrite mmul_mscale_l. rewrite mget_mscale by assumption. ring. }
    rewrite Hs. rewrite !(Fdiv_def fth). ring.
  Qed.
End CalibProofs.
