(* Non-vacuity: concrete instances (over Qc) on which the hypotheses of the
   C02/C03/C05 theorems hold and the partial functions they speak about return
   Some.  Each is checked by vm_compute on a boolean. *)
From Coq Require Import List Arith ZArith QArith Qcanon Bool.
From PD Require Import Base.Field Base.Matrix Base.Solve Model.Gauss Model.Poly Model.Prior Model.Solver
  Spec.RTS Proofs.FilterProofs Proofs.SolverRefine Proofs.SolverGrid.
Import ListNotations.
Local Close Scope Q_scope.

Definition qc (n : Z) (d : positive) : Qc := Q2Qc (Qmake n d).
Definition id3 : @mat Qc := noise_cov 3 (qc 1 1).
Definition rv0 : @normal Qc := mkN (mk 3 1 (fun i _ => qc (Z.of_nat (S i)) 2)) id3.
(* u' = u^2 - t u  (polynomial, time-dependent), q = 2, d = 1 *)
Definition ode0 : @odeP Qc := mkOde 1 [[(qc 1 1, [0; 2]%nat); (qc (-1) 1, [1; 1]%nat)]].
Definition cf0 := mkCfg (mkShape Iso 2 1) Filter CalNone TS0 ode0 [qc 3 2] (qc 0 1).
Definition st0 : @sstate Qc :=
  mkSt (qc 0 1) [rv0] (mkPost [rv0] [identity_conditional 3 1]) [qc 1 1] [qc 0 1] 0 0 [].
Definition dts0 : list Qc := [qc 1 2; qc 1 4; qc 1 8].

Lemma id3_symmetric : symmetric 3 (n_cov rv0).
Proof. exact (noise_cov_symmetric 3 (qc 1 1)). Qed.

Lemma dts0_nonzero : Forall (fun dt : Qc => dt <> f0) dts0.
Proof. repeat constructor; intro H; discriminate H. Qed.

(* the hypotheses of C02_isotropic_ts0_fixed_grid_is_ekf hold and both sides are Some of 3 states *)
Example C02_grid_theorem_not_vacuous :
  st_u st0 = [rv0] /\ st_post st0 = mkPost [rv0] [identity_conditional 3 1] /\
  symmetric 3 (n_cov rv0) /\ Forall (fun dt : Qc => dt <> f0) dts0 /\
  match fixed_grid_states minv cf0 st0 dts0 with Some l => Nat.eqb (length l) 3 | None => false end = true.
Proof.
  split; [reflexivity|]. split; [reflexivity|]. split; [exact id3_symmetric|].
  split; [exact dts0_nonzero|]. vm_compute. reflexivity.
Qed.

(* C03/C05: a preconditioned IWP transition has non-zero scalings and c_revert returns Some *)
Definition K0 : @cond Qc := iwp_transition_1d 2 1 (qc 1 2) (qc 3 2).
Example C03_backward_kernel_theorems_not_vacuous :
  (forall i, (i < 3)%nat -> vget (c_tl K0) i <> f0) /\ (forall i, (i < 3)%nat -> vget (c_to K0) i <> f0) /\
  match c_revert minv 3 3 1 K0 rv0 with Some _ => true | None => false end = true.
Proof.
  split; [|split].
  - intros i Hi. destruct i as [|[|[|i]]]; try (intro H; vm_compute in H; discriminate H).
    exfalso. apply (Nat.lt_irrefl 3). eapply Nat.le_lt_trans; [|exact Hi]. do 3 apply le_n_S. apply Nat.le_0_l.
  - intros i Hi. destruct i as [|[|[|i]]]; try (intro H; vm_compute in H; discriminate H).
    exfalso. apply (Nat.lt_irrefl 3). eapply Nat.le_lt_trans; [|exact Hi]. do 3 apply le_n_S. apply Nat.le_0_l.
  - vm_compute. reflexivity.
Qed.
