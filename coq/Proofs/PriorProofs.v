(* T09.1: removing the preconditioner from the (flipped Pascal, dt * flipped
   Hilbert) form of the integrated Wiener process gives the closed-form
   discretisation  A(h)_ij = h^(j-i)/(j-i)!,
   Q(h)_ij = s2 h^(2q+1-i-j) / ((2q+1-i-j) (q-i)! (q-j)!),  for every q. *)
From Coq Require Import List Arith Lia Bool Field Ring ZArith.
From PD Require Import Base.Field Base.Matrix Model.Gauss Model.Prior Proofs.GaussProofs.
Import ListNotations.

Section PriorProofs.
  Context {F : Type} `{FL : FieldLaws F}.
  Local Open Scope F_scope.
  Add Field FFp : fth.
  Local Notation mat := (@mat F).

  Lemma fpow_add (x : F) a b : fpow x (a + b) = fpow x a * fpow x b.
  Proof. induction a as [|a IH]; simpl; [ring|]. rewrite IH. ring. Qed.
  Lemma fmul_nonzero (x y : F) : x <> 0 -> y <> 0 -> x * y <> 0.
  Proof.
    intros Hx Hy Hc. apply Hy.
    assert (Hy' : y = finv x * (x * y)) by (field; exact Hx).
    rewrite Hy', Hc. ring.
  Qed.
  Lemma fpow_nonzero (x : F) a : x <> 0 -> fpow x a <> 0.
  Proof.
    intro Hx. induction a as [|a IH]; simpl.
    - apply (F_1_neq_0 fth).
    - apply fmul_nonzero; assumption.
  Qed.
  Lemma fnat_S_nonzero n : fnat (S n) <> (0 : F).
  Proof. unfold fnat. simpl. apply char0. Qed.
  Lemma ffact_nonzero n : ffact n <> (0 : F).
  Proof.
    induction n as [|n IH]; cbn [ffact].
    - apply (F_1_neq_0 fth).
    - apply fmul_nonzero; [apply fnat_S_nonzero|exact IH].
  Qed.

  Theorem iwp_plain_A_closed_form q c (dt s2 : F) : dt <> 0 ->
    c_A (c_plain (S q) (S q) c (iwp_transition_1d q c dt s2)) = iwp_A_closed q dt.
  Proof.
    intro Hdt. unfold c_plain, iwp_transition_1d, iwp_A_closed; cbn [c_A c_to c_tl].
    apply mk_ext. intros i j Hi Hj.
    unfold precon, precon_inv, pascal_flip.
    rewrite !vget_mkv by assumption. rewrite mget_mk by assumption.
    unfold binom.
    destruct (Nat.leb_spec i j) as [Hij|Hij].
    - assert (Hle : Nat.leb (q - j) (q - i) = true) by (apply Nat.leb_le; lia).
      rewrite Hle.
      replace (q - i - (q - j))%nat with (j - i)%nat by lia.
      replace (q - i)%nat with ((j - i) + (q - j))%nat at 1 by lia.
      rewrite fpow_add.
      pose proof (ffact_nonzero (q - i)). pose proof (ffact_nonzero (q - j)).
      pose proof (ffact_nonzero (j - i)). pose proof (fpow_nonzero dt (q - j) Hdt).
      field. repeat split; assumption.
    - assert (Hle : Nat.leb (q - j) (q - i) = false) by (apply Nat.leb_gt; lia).
      rewrite Hle. ring.
  Qed.

  Theorem iwp_plain_Q_closed_form q c (dt s2 : F) :
    c_Q (c_plain (S q) (S q) c (iwp_transition_1d q c dt s2)) = iwp_Q_closed q dt s2.
  Proof.
    unfold c_plain, iwp_transition_1d, iwp_Q_closed; cbn [c_Q c_to].
    unfold dsand. apply mk_ext. intros i j Hi Hj.
    unfold precon, hilbert_flip.
    rewrite !vget_mkv by assumption. rewrite mget_mscale by assumption.
    rewrite mget_mk by assumption.
    replace (2 * q + 1 - i - j)%nat with ((q - i) + S (q - j))%nat by lia.
    rewrite fpow_add. cbn [fpow].
    pose proof (ffact_nonzero (q - i)). pose proof (ffact_nonzero (q - j)).
    pose proof (fnat_S_nonzero (q - i + (q - j))) as Hn.
    replace (S (q - i + (q - j)))%nat with (q - i + S (q - j))%nat in Hn by lia.
    field. repeat split; assumption.
  Qed.

  Theorem iwp_plain_offset_zero q c (dt s2 : F) i a : i < S q -> a < c ->
    mget (c_b (c_plain (S q) (S q) c (iwp_transition_1d q c dt s2))) i a = 0.
  Proof.
    intros Hi Ha. unfold c_plain, iwp_transition_1d; cbn [c_b c_to].
    rewrite mget_scale_rows by assumption. unfold mzero. rewrite mget_mk by assumption. ring.
  Qed.

  (* process noise is linear in the squared output scale *)
  Theorem iwp_Q_linear_in_scale q (h a s2 : F) :
    iwp_Q_closed q h (a * s2) = mscale (S q) (S q) a (iwp_Q_closed q h s2).
  Proof.
    unfold iwp_Q_closed at 1, mscale. apply mk_ext. intros i j Hi Hj.
    unfold iwp_Q_closed. rewrite mget_mk by assumption.
    pose proof (ffact_nonzero (q - i)). pose proof (ffact_nonzero (q - j)).
    assert (Hn : fnat (2 * q + 1 - i - j) <> 0).
    { replace (2 * q + 1 - i - j)%nat with (S (2 * q - i - j))%nat by lia. apply fnat_S_nonzero. }
    field. repeat split; assumption.
  Qed.

  (* ------------------------------------------------------------------
     Binomial theorem in divided-power form and the semigroup law of the
     closed-form transition matrix:  A(h2) A(h1) = A(h1 + h2)  for every q. *)
  Definition dpow (x : F) (n : nat) : F := fpow x n / ffact n.

  Lemma fnat_0 : fnat 0 = (0 : F).
  Proof. reflexivity. Qed.
  Lemma fnat_succ (n : nat) : fnat (S n) = fnat n + (1 : F).
  Proof.
    unfold fnat. rewrite Nat2Z.inj_succ. unfold Z.succ.
    destruct (Z.of_nat n) as [|p|p] eqn:Hz; simpl.
    - ring.
    - assert (Hsucc : forall p, fpos (Pos.succ p) = fpos p + (1:F)).
      { induction p0 as [p0 IH|p0 IH|]; simpl; try rewrite IH; ring. }
      rewrite Pos.add_1_r. apply Hsucc.
    - lia.
  Qed.

  Lemma dpow_0 (x : F) : dpow x 0 = 1.
  Proof. unfold dpow. simpl. field. apply (F_1_neq_0 fth). Qed.
  Lemma dpow_S (x : F) n : fnat (S n) * dpow x (S n) = x * dpow x n.
  Proof.
    unfold dpow. cbn [fpow ffact].
    pose proof (ffact_nonzero n). pose proof (fnat_S_nonzero n).
    field. split; assumption.
  Qed.

  Lemma vsum_shift n (f : nat -> F) : vsum (S n) f = f 0%nat + vsum n (fun m => f (S m)).
  Proof.
    induction n as [|n IH]; simpl; [ring|].
    simpl in IH. rewrite IH. ring.
  Qed.

  Theorem dpow_add (x y : F) : forall n,
    dpow (x + y) n = vsum (S n) (fun m => dpow x m * dpow y (n - m)).
  Proof.
    induction n as [|n IH].
    - simpl. rewrite !dpow_0. ring.
    - set (Sn := vsum (S n) (fun m => dpow x m * dpow y (n - m))) in *.
      set (Sn1 := vsum (S (S n)) (fun m => dpow x m * dpow y (S n - m))).
      pose proof (fnat_S_nonzero n) as Hn.
      assert (Hmain : fnat (S n) * Sn1 = (x + y) * Sn).
      { (* split (n+1) = m + (n+1-m) termwise *)
        assert (H1 : vsum (S (S n)) (fun m => fnat m * dpow x m * dpow y (S n - m)) = x * Sn).
        { rewrite vsum_shift. rewrite fnat_0.
          transitivity (vsum (S n) (fun m => x * (dpow x m * dpow y (n - m)))).
          - transitivity (0 + vsum (S n) (fun m => fnat (S m) * dpow x (S m) * dpow y (S n - S m))); [ring|].
            transitivity (vsum (S n) (fun m => fnat (S m) * dpow x (S m) * dpow y (S n - S m))); [ring|].
            apply vsum_ext. intros m Hm. rewrite dpow_S. simpl. ring.
          - unfold Sn. rewrite vsum_scale_l. reflexivity. }
        assert (H2 : vsum (S (S n)) (fun m => dpow x m * (fnat (S n - m) * dpow y (S n - m))) = y * Sn).
        { cbn [vsum]. rewrite Nat.sub_diag. rewrite fnat_0.
          transitivity (vsum (S n) (fun m => y * (dpow x m * dpow y (n - m)))).
          - transitivity (vsum (S n) (fun m => dpow x m * (fnat (S n - m) * dpow y (S n - m))) + 0); [cbn [vsum]; ring|].
            transitivity (vsum (S n) (fun m => dpow x m * (fnat (S n - m) * dpow y (S n - m)))); [ring|].
            apply vsum_ext. intros m Hm.
            replace (S n - m)%nat with (S (n - m)) by lia. rewrite dpow_S. ring.
          - unfold Sn. rewrite vsum_scale_l. reflexivity. }
        transitivity (vsum (S (S n)) (fun m => fnat m * dpow x m * dpow y (S n - m))
                      + vsum (S (S n)) (fun m => dpow x m * (fnat (S n - m) * dpow y (S n - m)))).
        - unfold Sn1. rewrite <- vsum_scale_l. rewrite <- vsum_add. apply vsum_ext. intros m Hm.
          assert (Hs : fnat (S n) = fnat m + fnat (S n - m)).
          { clear - Hm FL. assert (Hadd : forall a b, fnat (a + b) = fnat a + (fnat b : F)).
            { induction a as [|a IHa]; intro b; [rewrite fnat_0; simpl; ring|].
              change (S a + b)%nat with (S (a + b)). rewrite !fnat_succ. rewrite IHa. ring. }
            replace (S n) with (m + (S n - m))%nat at 1 by lia. apply Hadd. }
          rewrite Hs. ring.
        - rewrite H1, H2. ring. }
      fold Sn1.
      assert (Hd : fnat (S n) * dpow (x + y) (S n) = (x + y) * Sn) by (rewrite dpow_S; rewrite IH; reflexivity).
      assert (Heq : fnat (S n) * dpow (x + y) (S n) = fnat (S n) * Sn1) by (rewrite Hd, Hmain; reflexivity).
      transitivity (finv (fnat (S n)) * (fnat (S n) * dpow (x + y) (S n))); [field; exact Hn|].
      rewrite Heq. field. exact Hn.
  Qed.

  Lemma vsum_split a b (f : nat -> F) :
    vsum (a + b) f = vsum a f + vsum b (fun m => f (a + m)%nat).
  Proof.
    induction b as [|b IH].
    - rewrite Nat.add_0_r. simpl. ring.
    - replace (a + S b)%nat with (S (a + b)) by lia. cbn [vsum]. rewrite IH. ring.
  Qed.
  Lemma vsum_all_zero n (f : nat -> F) : (forall k, k < n -> f k = 0) -> vsum n f = 0.
  Proof. intro Hz. rewrite (vsum_ext n f (fun _ => 0) Hz). apply vsum_zero. Qed.

  Lemma vsum_window n i j (g : nat -> F) :
    i <= j -> j < n ->
    (forall k, k < n -> (k < i \/ j < k) -> g k = 0) ->
    vsum n g = vsum (S (j - i)) (fun m => g (i + m)%nat).
  Proof.
    intros Hij Hjn Hz.
    replace n with (i + (S (j - i) + (n - S j)))%nat at 1 by lia.
    rewrite vsum_split. rewrite vsum_split.
    rewrite (vsum_all_zero i) by (intros k Hk; apply Hz; lia).
    rewrite (vsum_all_zero (n - S j)) by (intros k Hk; apply Hz; lia).
    ring.
  Qed.

  (* Chapman-Kolmogorov for the transition matrix, every q, h1, h2 *)
  Theorem iwp_A_semigroup q (h1 h2 : F) :
    mmul (S q) (S q) (S q) (iwp_A_closed q h2) (iwp_A_closed q h1) = iwp_A_closed q (h1 + h2).
  Proof.
    unfold mmul. unfold iwp_A_closed at 3. apply mk_ext. intros i j Hi Hj.
    destruct (Nat.leb_spec i j) as [Hij|Hij].
    - rewrite (vsum_window (S q) i j); [|exact Hij|lia|].
      2:{ intros k Hk Hout. unfold iwp_A_closed. rewrite !mget_mk by lia.
          destruct Hout as [Ho|Ho].
          - assert (Hl : Nat.leb i k = false) by (apply Nat.leb_gt; lia). rewrite Hl. ring.
          - assert (Hl : Nat.leb k j = false) by (apply Nat.leb_gt; lia). rewrite Hl. ring. }
      change (fpow (h1 + h2) (j - i) / ffact (j - i)) with (dpow (h1 + h2) (j - i)).
      replace (h1 + h2) with (h2 + h1) by ring.
      rewrite dpow_add. apply vsum_ext. intros m Hm.
      unfold iwp_A_closed. rewrite !mget_mk by lia.
      assert (H1 : Nat.leb i (i + m) = true) by (apply Nat.leb_le; lia).
      assert (H2 : Nat.leb (i + m) j = true) by (apply Nat.leb_le; lia).
      rewrite H1, H2. unfold dpow.
      replace (i + m - i)%nat with m by lia. replace (j - (i + m))%nat with (j - i - m)%nat by lia.
      reflexivity.
    - apply vsum_all_zero. intros k Hk. unfold iwp_A_closed. rewrite !mget_mk by lia.
      destruct (Nat.leb_spec i k) as [Hik|Hik]; [|ring].
      assert (Hl : Nat.leb k j = false) by (apply Nat.leb_gt; lia). rewrite Hl. ring.
  Qed.
End PriorProofs.
