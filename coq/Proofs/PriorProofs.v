(* T09.1: removing the preconditioner from the (flipped Pascal, dt * flipped
   Hilbert) form of the integrated Wiener process gives the closed-form
   discretisation  A(h)_ij = h^(j-i)/(j-i)!,
   Q(h)_ij = s2 h^(2q+1-i-j) / ((2q+1-i-j) (q-i)! (q-j)!),  for every q. *)
From Coq Require Import List Arith Lia Bool Field Ring ZArith.
From PD Require Import Base.Field Base.Matrix Model.Gauss Model.Prior Proofs.GaussProofs.
Import ListNotations.

Section PriorProofs.
  Context {F : Type} `{FL : FieldLaws F}.
  Local Open Scope F_scope.
  Add Field FFp : fth.
  Local Notation mat := (@mat F).

  Lemma fpow_add (x : F) a b : fpow x (a + b) = fpow x a * fpow x b.
  Proof. induction a as [|a IH]; simpl; [ring|]. rewrite IH. ring. Qed.
  Lemma fmul_nonzero (x y : F) : x <> 0 -> y <> 0 -> x * y <> 0.
  Proof.
    intros Hx Hy Hc. apply Hy.
    assert (Hy' : y = finv x * (x * y)) by (field; exact Hx).
    rewrite Hy', Hc. ring.
  Qed.
  Lemma fpow_nonzero (x : F) a : x <> 0 -> fpow x a <> 0.
  Proof.
    intro Hx. induction a as [|a IH]; simpl.
    - apply (F_1_neq_0 fth).
    - apply fmul_nonzero; assumption.
  Qed.
  Lemma fnat_S_nonzero n : fnat (S n) <> (0 : F).
  Proof. unfold fnat. simpl. apply char0. Qed.
  Lemma ffact_nonzero n : ffact n <> (0 : F).
  Proof.
    induction n as [|n IH]; cbn [ffact].
    - apply (F_1_neq_0 fth).
    - apply fmul_nonzero; [apply fnat_S_nonzero|exact IH].
  Qed.

  Theorem iwp_plain_A_closed_form q c (dt s2 : F) : dt <> 0 ->
    c_A (c_plain (S q) (S q) c (iwp_transition_1d q c dt s2)) = iwp_A_closed q dt.
  Proof.
    intro Hdt. unfold c_plain, iwp_transition_1d, iwp_A_closed; cbn [c_A c_to c_tl].
    apply mk_ext. intros i j Hi Hj.
    unfold precon, precon_inv, pascal_flip.
    rewrite !vget_mkv by assumption. rewrite mget_mk by assumption.
    unfold binom.
    destruct (Nat.leb_spec i j) as [Hij|Hij].
    - assert (Hle : Nat.leb (q - j) (q - i) = true) by (apply Nat.leb_le; lia).
      rewrite Hle.
      replace (q - i - (q - j))%nat with (j - i)%nat by lia.
      replace (q - i)%nat with ((j - i) + (q - j))%nat at 1 by lia.
      rewrite fpow_add.
      pose proof (ffact_nonzero (q - i)). pose proof (ffact_nonzero (q - j)).
      pose proof (ffact_nonzero (j - i)). pose proof (fpow_nonzero dt (q - j) Hdt).
      field. repeat split; assumption.
    - assert (Hle : Nat.leb (q - j) (q - i) = false) by (apply Nat.leb_gt; lia).
      rewrite Hle. ring.
  Qed.

  Theorem iwp_plain_Q_closed_form q c (dt s2 : F) :
    c_Q (c_plain (S q) (S q) c (iwp_transition_1d q c dt s2)) = iwp_Q_closed q dt s2.
  Proof.
    unfold c_plain, iwp_transition_1d, iwp_Q_closed; cbn [c_Q c_to].
    unfold dsand. apply mk_ext. intros i j Hi Hj.
    unfold precon, hilbert_flip.
    rewrite !vget_mkv by assumption. rewrite mget_mscale by assumption.
    rewrite mget_mk by assumption.
    replace (2 * q + 1 - i - j)%nat with ((q - i) + S (q - j))%nat by lia.
    rewrite fpow_add. cbn [fpow].
    pose proof (ffact_nonzero (q - i)). pose proof (ffact_nonzero (q - j)).
    pose proof (fnat_S_nonzero (q - i + (q - j))) as Hn.
    replace (S (q - i + (q - j)))%nat with (q - i + S (q - j))%nat in Hn by lia.
    field. repeat split; assumption.
  Qed.

  Theorem iwp_plain_offset_zero q c (dt s2 : F) i a : i < S q -> a < c ->
    mget (c_b (c_plain (S q) (S q) c (iwp_transition_1d q c dt s2))) i a = 0.
  Proof.
    intros Hi Ha. unfold c_plain, iwp_transition_1d; cbn [c_b c_to].
    rewrite mget_scale_rows by assumption. unfold mzero. rewrite mget_mk by assumption. ring.
  Qed.

  (* process noise is linear in the squared output scale *)
  Theorem iwp_Q_linear_in_scale q (h a s2 : F) :
    iwp_Q_closed q h (a * s2) = mscale (S q) (S q) a (iwp_Q_closed q h s2).
  Proof.
    unfold iwp_Q_closed at 1, mscale. apply mk_ext. intros i j Hi Hj.
    unfold iwp_Q_closed. rewrite mget_mk by assumption.
    pose proof (ffact_nonzero (q - i)). pose proof (ffact_nonzero (q - j)).
    assert (Hn : fnat (2 * q + 1 - i - j) <> 0).
    { replace (2 * q + 1 - i - j)%nat with (S (2 * q - i - j))%nat by lia. apply fnat_S_nonzero. }
    field. repeat split; assumption.
  Qed.
End PriorProofs.
