(* C07: the acceptance test "error_power >= 1" is the test "norm <= 1" on the
   documented error norm, and the estimate uses the previous MEAN only. *)
From Coq Require Import List Arith Lia Bool Reals Lra.
From PD Require Import Base.Field Base.Matrix Base.Solve Model.Gauss Model.Poly Model.Prior Model.Solver Model.Error.
Import ListNotations.

(* ---- over the reals: error_power = norm ** (-1/rate); the model carries
   x = norm^2, so error_power = x ** (-1/(2 rate)) ---- *)
Section Accept.
  Local Open Scope R_scope.

  Lemma exp_ge_1 z : 1 <= exp z <-> 0 <= z.
  Proof.
    split; intro Hz.
    - destruct (Rle_or_lt 0 z) as [H|H]; [exact H|].
      pose proof (exp_increasing z 0 H) as Hi. rewrite exp_0 in Hi. lra.
    - destruct Hz as [Hz|Hz].
      + pose proof (exp_increasing 0 z Hz) as Hi. rewrite exp_0 in Hi. lra.
      + subst. rewrite exp_0. lra.
  Qed.

  Lemma ln_le_0 x : 0 < x -> (ln x <= 0 <-> x <= 1).
  Proof.
    intro Hx. split; intro H.
    - destruct (Rle_or_lt x 1) as [Hc|Hc]; [exact Hc|].
      pose proof (ln_increasing 1 x Rlt_0_1 Hc) as Hi. rewrite ln_1 in Hi. lra.
    - destruct H as [H|H].
      + pose proof (ln_increasing x 1 Hx H) as Hi. rewrite ln_1 in Hi. lra.
      + subst. rewrite ln_1. lra.
  Qed.

  Theorem accept_iff_norm_le_1 (x rate : R) :
    0 < x -> 0 < rate ->
    (1 <= Rpower x (- 1 / (2 * rate)) <-> x <= 1).
  Proof.
    intros Hx Hr. unfold Rpower. rewrite exp_ge_1.
    assert (Hy : - 1 / (2 * rate) < 0).
    { unfold Rdiv. apply Rmult_lt_reg_r with (2 * rate); [lra|].
      rewrite Rmult_assoc. rewrite Rinv_l by lra. lra. }
    rewrite <- (ln_le_0 x Hx).
    set (y := - 1 / (2 * rate)) in *. set (l := ln x).
    split; intro H.
    - destruct (Rle_or_lt l 0) as [Hc|Hc]; [exact Hc|]. nra.
    - nra.
  Qed.
End Accept.

(* ---- the estimate depends on the previous state through its mean only ---- *)
Section MeanOnly.
  Context {F : Type} `{FieldOps F}.

  Lemma map2_apply_mean_ext (s : shape) (tr : list (@cond F)) : forall (u1 u2 : list (@normal F)),
    map n_mean u1 = map n_mean u2 ->
    f_apply_mean s tr u1 = f_apply_mean s tr u2.
  Proof.
    unfold f_apply_mean. induction tr as [|k tr IH]; intros u1 u2 Hm; [reflexivity|].
    destruct u1 as [|a u1]; destruct u2 as [|b u2]; simpl in *; try discriminate; auto.
    inversion Hm as [[Ha Hr]]. rewrite Ha. f_equal. apply IH. exact Hr.
  Qed.

  Theorem error_estimate_uses_previous_mean_only inv (cf : @config F) est
          (u1 u2 : list (@normal F)) t dt :
    map n_mean u1 = map n_mean u2 ->
    error_sq_components inv cf est u1 t dt = error_sq_components inv cf est u2 t dt.
  Proof.
    intro Hm. unfold error_sq_components.
    rewrite (map2_apply_mean_ext (cf_shape cf) _ u1 u2 Hm). reflexivity.
  Qed.
End MeanOnly.
