(* Proofs for C11 (Model/JetLift.v, linearisations of Model/Solver.v).

   Part 1  T11.2 range-check reflection; the lift raises exactly outside the range
   Part 2  T11.3 residual_from_ode: value x_k - f, lift = lift of both parts
           T11.4 stacked residuals evaluate each part on its own prefix
   Part 3  T11.5 linearisation: value and Jacobian structure for the three
           factorisations; diff_poly is the directional derivative
   Part 4  T11.1 the lift of a polynomial function returns the iterated total
           time derivatives D_t^l f at the supplied Taylor coefficients *)
From Coq Require Import List Arith Lia Bool ZArith QArith Qcanon Field Ring Setoid Morphisms.
From PD Require Import Base.Field Base.Matrix Base.Solve Model.Poly Base.Series Spec.ODESeries
  Model.Jet Model.JetLift Model.Gauss Model.Prior Model.Solver Proofs.JetProofs.
Import ListNotations.
Local Close Scope Qc_scope.
Local Close Scope Q_scope.
Local Open Scope nat_scope.

(* ============================================= Part 1: the range check *)
(* T11.2 *)
Lemma P_lift_accepts_iff (k ncoords : nat) (lift_by : Z) :
  lift_accepts k ncoords lift_by = true <->
  (0 <= lift_by /\ lift_by <= Z.of_nat ncoords - Z.of_nat k)%Z.
Proof.
  unfold lift_accepts. rewrite andb_true_iff, !Z.leb_le. tauto.
Qed.

Section LiftProofs.
  Context {F : Type} `{FL : FieldLaws F}.
  Local Open Scope F_scope.
  Add Field FLift : fth.
  Add Ring FSringL : fs_ring_theory.
  Local Notation fs := (@fs F).
  Local Notation series := (@series F).
  Local Notation poly := (@poly F).
  Local Notation tvec := (list F).
  Local Notation jetfun := (@jetfun F).
  Local Infix "==" := fs_eq (at level 70).

  (* what args_aj hands to jet inside lift *)
  Lemma args_aj_lengths (tcs : list tvec) k t :
    1 <= k -> k <= length tcs ->
    let '((pu, pt), (su, st)) := args_aj tcs k t in
    length pu = k /\ length su = k /\
    (forall s, In s su -> length s = (length tcs - k)%nat) /\
    length (nth 0 su []) = (length tcs - k)%nat /\
    length st = Nat.max 1 (length tcs - k).
  Proof.
    intros Hk HL. unfold args_aj. cbv zeta.
    assert (Hs : forall j, j < k -> length (pyslice j (k - 1 - j) (tl tcs)) = (length tcs - k)%nat).
    { intros j Hj. rewrite pyslice_length, length_tl. lia. }
    repeat split.
    - rewrite firstn_length. lia.
    - rewrite map_length, seq_length. reflexivity.
    - intros s Hs'. apply in_map_iff in Hs'. destruct Hs' as [j [<- Hj]]. apply in_seq in Hj.
      apply Hs. lia.
    - rewrite nth_map_seq by lia. apply Hs. lia.
    - cbn [length]. rewrite repeat_length. rewrite nth_map_seq by lia. rewrite Hs by lia.
      destruct (length tcs - k)%nat; simpl; lia.
  Qed.

  (* inside the admissible range the lift returns a value; outside it raises *)
  Theorem lift_some_iff (jf : jetfun) (lift_by : Z) (coords : list tvec) (t : F) :
    1 <= jf_k jf ->
    (lift jf lift_by coords t <> None <->
     (0 <= lift_by /\ lift_by <= Z.of_nat (length coords) - Z.of_nat (jf_k jf))%Z).
  Proof.
    intro Hk. rewrite <- P_lift_accepts_iff. unfold lift.
    destruct (lift_accepts (jf_k jf) (length coords) lift_by) eqn:Hacc; [|split; congruence].
    split; [reflexivity|]. intros _.
    apply P_lift_accepts_iff in Hacc. destruct Hacc as [H0 H1].
    destruct (jf_k jf) as [|k'] eqn:Ek; [lia|]. rewrite <- Ek in *.
    set (m := Z.to_nat lift_by).
    set (tcs := firstn (jf_k jf + m) coords).
    assert (HLt : length tcs = (jf_k jf + m)%nat).
    { unfold tcs. rewrite firstn_length. unfold m. lia. }
    pose proof (args_aj_lengths tcs (jf_k jf) t Hk ltac:(lia)) as Hargs.
    destruct (args_aj tcs (jf_k jf) t) as [[pu pt] [su st]].
    destruct Hargs as [Hpu [Hsu [Hall [H0len Hst]]]].
    destruct (nth 0 su []) as [|x r] eqn:E0; [discriminate|].
    unfold run_jet.
    assert (Hm : (length tcs - jf_k jf)%nat = m) by lia.
    assert (Hm1 : 1 <= m) by (rewrite <- Hm, <- H0len; simpl; lia).
    assert (Hchk : forallb (fun s => Nat.eqb (length s) (length st)) su
                   && Nat.eqb (length pu) (length su) = true).
    { apply andb_true_iff. split.
      - apply forallb_forall. intros s Hs. apply Nat.eqb_eq. rewrite (Hall s Hs), Hst. lia.
      - apply Nat.eqb_eq. lia. }
    rewrite Hchk. discriminate.
  Qed.

  (* ============================ Part 2: residual_from_ode and stacks *)
  Lemma map_zipw {A B C D} (g : C -> D) (h : A -> B -> C) l1 l2 :
    map g (zipw h l1 l2) = zipw (fun x y => g (h x y)) l1 l2.
  Proof.
    revert l2. induction l1 as [|x l1 IH]; intros [|y l2]; simpl; try reflexivity.
    rewrite IH. reflexivity.
  Qed.
  Lemma zipw_map_l {A A' B C} (h : A' -> B -> C) (g : A -> A') l1 l2 :
    zipw h (map g l1) l2 = zipw (fun x y => h (g x) y) l1 l2.
  Proof.
    revert l2. induction l1 as [|x l1 IH]; intros [|y l2]; simpl; try reflexivity.
    rewrite IH. reflexivity.
  Qed.
  Lemma zipw_map_r {A B B' C} (h : A -> B' -> C) (g : B -> B') l1 l2 :
    zipw h l1 (map g l2) = zipw (fun x y => h x (g y)) l1 l2.
  Proof.
    revert l2. induction l1 as [|x l1 IH]; intros [|y l2]; simpl; try reflexivity.
    rewrite IH. reflexivity.
  Qed.
  Lemma zipw_ext {A B C} (h h' : A -> B -> C) l1 l2 :
    (forall x y, In x l1 -> In y l2 -> h x y = h' x y) -> zipw h l1 l2 = zipw h' l1 l2.
  Proof.
    revert l2. induction l1 as [|x l1 IH]; intros [|y l2] E; simpl; try reflexivity.
    rewrite E by (left; reflexivity). rewrite IH; [reflexivity|].
    intros; apply E; right; assumption.
  Qed.

  (* the first d entries of a vector, as the model reads them *)
  Definition vhead (d : nat) (x : tvec) : tvec := map (fun b => vget x b) (seq 0 d).

  Lemma flat_map_length_const {A B} (g : A -> list B) (l : list A) n :
    (forall x, length (g x) = n) -> length (flat_map g l) = (length l * n)%nat.
  Proof.
    intro Hg. induction l as [|x l IH]; simpl; [reflexivity|].
    rewrite app_length, Hg, IH. lia.
  Qed.

  Lemma firstn_snoc_nth {A} (l : list A) k d : k < length l -> firstn (S k) l = firstn k l ++ [nth k l d].
  Proof.
    revert k. induction l as [|x l IH]; intros k Hk; simpl in Hk; [lia|].
    destruct k as [|k]; [reflexivity|]. simpl. f_equal. apply IH. lia.
  Qed.

  (* the plain environment of k+1 coordinates splits into the ODE's inputs,
     the top coordinate and t *)
  Lemma plain_env_split d (coords : list tvec) k t :
    length coords = S k ->
    plain_env d coords t
    = (flat_map (fun p => map (fun b => [vget p b]) (seq 0 d)) (firstn k coords))
      ++ map (fun b => [vget (nth k coords []) b]) (seq 0 d) ++ [[t]].
  Proof.
    intro HL. unfold plain_env.
    rewrite <- (firstn_all coords) at 1. rewrite HL.
    rewrite (firstn_snoc_nth coords k []) by lia.
    rewrite flat_map_app. simpl flat_map. rewrite app_nil_r, <- app_assoc. reflexivity.
  Qed.

  Lemma skipn_app_exact {A} (X R : list A) n : length X = n -> skipn n (X ++ R) = R.
  Proof. intros <-. rewrite skipn_app, Nat.sub_diag, skipn_all. reflexivity. Qed.
  Lemma firstn_app_exact {A} (X R : list A) n : length X = n -> firstn n (X ++ R) = X.
  Proof. intros <-. rewrite firstn_app, Nat.sub_diag, firstn_all. simpl. apply app_nil_r. Qed.

  Lemma sget_ssub1 (a b : series) : sget (ssub 1 a b) 0 = sget a 0 - sget b 0.
  Proof. unfold ssub. rewrite sget_mkv by lia. reflexivity. Qed.

  (* T11.3 (value): residual_from_ode(ode)(x_0..x_k, t) = x_k - f(x_0..x_{k-1}, t) *)
  Theorem residual_from_ode_value (o : jetfun) (coords : list tvec) (t : F) :
    length coords = S (jf_k o) ->
    jf_eval (residual_from_ode_jf o) coords t
    = Some (vsub_ (vhead (jf_d o) (nth (jf_k o) coords []))
                  (run_plain o (firstn (jf_k o) coords) t)).
  Proof.
    intro HL. unfold jf_eval. simpl jf_k. rewrite HL, Nat.eqb_refl. f_equal.
    unfold run_plain, residual_from_ode_jf. simpl jf_body. simpl jf_d.
    set (k := jf_k o) in *. set (d := jf_d o).
    rewrite (plain_env_split d coords k t HL).
    set (X := flat_map (fun p => map (fun b => [vget p b]) (seq 0 d)) (firstn k coords)).
    set (Y := map (fun b => [vget (nth k coords []) b]) (seq 0 d)).
    assert (HX : length X = (k * d)%nat).
    { unfold X. rewrite (flat_map_length_const _ _ d) by (intro; rewrite map_length, seq_length; reflexivity).
      rewrite firstn_length. lia. }
    assert (HY : length Y = d) by (unfold Y; rewrite map_length, seq_length; reflexivity).
    rewrite (skipn_app_exact X _ _ HX).
    rewrite (firstn_app_exact Y _ _ HY).
    rewrite (firstn_app_exact X _ _ HX).
    rewrite (app_assoc X Y).
    rewrite (skipn_app_exact (X ++ Y) _ (d + k * d)) by (rewrite app_length, HX, HY; lia).
    change (X ++ [[t]]) with (plain_env d (firstn k coords) t).
    rewrite map_zipw. unfold vsub_, vhead, Y. rewrite !zipw_map_l, zipw_map_r.
    apply zipw_ext. intros b y _ _. rewrite sget_ssub1. reflexivity.
  Qed.

  (* T11.4: a stack evaluates each part on its own prefix of the coefficients *)
  Lemma all_some_spec {A} (l : list (option A)) (vals : list A) :
    all_some l = Some vals <-> Forall2 (fun o x => o = Some x) l vals.
  Proof.
    revert vals. induction l as [|o l IH]; intro vals; simpl.
    - split.
      + intro E. inversion E. constructor.
      + intro E. inversion E. reflexivity.
    - destruct o as [x|].
      + destruct (all_some l) as [xs|] eqn:Ex.
        * split.
          -- intro E. inversion E; subst. constructor; [reflexivity|]. apply IH. reflexivity.
          -- intro E. inversion E as [|? y ? ys Hy Hys]; subst. inversion Hy; subst.
             apply IH in Hys. inversion Hys; subst. reflexivity.
        * split; [discriminate|].
          intro E. inversion E as [|? y ? ys Hy Hys]; subst. apply IH in Hys. discriminate.
      + split; [discriminate|]. intro E. inversion E as [|? y ? ys Hy Hys]. discriminate.
  Qed.

  Lemma Forall2_map_l {A A' B} (R : A' -> B -> Prop) (g : A -> A') l1 l2 :
    Forall2 R (map g l1) l2 <-> Forall2 (fun x y => R (g x) y) l1 l2.
  Proof.
    revert l2. induction l1 as [|x l1 IH]; intro l2; simpl.
    - split; intro E; inversion E; constructor.
    - split; intro E; inversion E; subst; constructor; try assumption; apply IH; assumption.
  Qed.

  Theorem stack_evaluates_each_part_on_its_prefix
          (parts : list (@resfun F)) (coords : list tvec) (t : F) (vals : list (list (list F))) :
    stack_eval parts coords t = Some vals <->
    Forall2 (fun r x => rf_eval r (firstn (rf_k r) coords) t = Some x) parts vals.
  Proof. unfold stack_eval. rewrite all_some_spec. apply Forall2_map_l. Qed.

  Lemma stack_k_upper (parts : list (@resfun F)) r : In r parts -> rf_k r <= stack_k parts.
  Proof.
    unfold stack_k. induction parts as [|p parts IH]; intros [].
    - subst. simpl. lia.
    - simpl. specialize (IH H0). lia.
  Qed.
  Lemma stack_k_attained (parts : list (@resfun F)) :
    parts <> [] -> exists r, In r parts /\ rf_k r = stack_k parts.
  Proof.
    unfold stack_k. induction parts as [|p parts IH]; [congruence|]. intros _.
    destruct parts as [|p' parts'].
    - exists p. split; [left; reflexivity|]. simpl. lia.
    - destruct IH as [r [Hr Er]]; [discriminate|].
      simpl fold_right in *. simpl map in *.
      destruct (Nat.max_spec (rf_k p) (Nat.max (rf_k p') (fold_right Nat.max 0%nat (map rf_k parts'))))
        as [[_ E]|[_ E]]; rewrite E.
      + exists r. split; [right; exact Hr|exact Er].
      + exists p. split; [left; reflexivity|reflexivity].
  Qed.

  (* ===================================== Part 3: linearisation (T11.5) *)
  Local Notation mat := (@mat F).
  Local Notation normal := (@normal F).
  Local Notation cond := (@cond F).

  Lemma vget_vones n i : i < n -> vget (vones n) i = (1 : F).
  Proof. intro Hi. unfold vones. rewrite vget_mkv by exact Hi. reflexivity. Qed.

  (* the conditional mean A x + b of a conditional built by from_linop_and_noise *)
  Lemma c_apply_from_linop nin nout c (A : mat) (noise : normal) (x : mat) r a :
    r < nout -> a < c ->
    mget (n_mean (c_apply nin nout c (from_linop_and_noise nin nout A noise) x)) r a
    = vsum nin (fun l => mget A r l * mget x l a) + mget (n_mean noise) r a.
  Proof.
    intros Hr Ha. unfold c_apply, from_linop_and_noise. simpl n_mean. simpl c_A. simpl c_b.
    simpl c_tl. simpl c_to.
    unfold scale_rows at 1. rewrite mget_mk by assumption. rewrite vget_vones by exact Hr.
    unfold madd. rewrite mget_mk by assumption. unfold mmul. rewrite mget_mk by assumption.
    rewrite (vsum_ext nin _ (fun l => mget A r l * mget x l a)).
    - ring.
    - intros l Hl. unfold scale_rows. rewrite mget_mk by assumption.
      rewrite vget_vones by exact Hl. ring.
  Qed.

  Definition dflt_cond : cond := mkC [] [] [] [] [].

  (* ---- dense: A is the FULL Jacobian of g = x_k - f, and A xi + b = g(xi) ---- *)
  Theorem linearize_dense_ts1 q d (o : @odeP F) damp2 (m : list normal) t :
    let s := mkShape Dense q d in
    let K := nth 0 (linearize s o TS1 damp2 m t) dflt_cond in
    length (linearize s o TS1 damp2 m t) = 1%nat /\
    (forall r col, r < d -> col < sh_N s ->
       mget (c_A K) r col = dg_eval s o m t r (col / d) (col mod d)) /\
    (forall r, r < d ->
       mget (n_mean (c_apply (sh_N s) d 1 K (n_mean (nth_normal m 0)))) r 0 = g_eval s o m t r) /\
    c_Q K = noise_cov d damp2.
  Proof.
    intros s K. unfold K, linearize. simpl sh_kind. simpl nth.
    split; [reflexivity|]. split; [|split].
    - intros r col Hr Hc. unfold from_linop_and_noise. simpl c_A. rewrite mget_mk by assumption.
      reflexivity.
    - intros r Hr. rewrite c_apply_from_linop by lia. simpl n_mean.
      rewrite mget_mk by lia.
      set (J := mk d (sh_N s) (fun r0 col => dg_eval s o m t r0 (col / d) (col mod d))).
      rewrite (vsum_ext (sh_N s) (fun l => mget J r l * mget (n_mean (nth_normal m 0)) l 0)
                        (fun col => mget J r col * coeff s m (col / d) (col mod d))).
      + ring.
      + intros l Hl. unfold coeff. simpl sh_kind. simpl sh_d.
        destruct d as [|d']; [lia|].
        rewrite (Nat.mul_comm (l / S d')), <- Nat.div_mod by discriminate. reflexivity.
    - reflexivity.
  Qed.

  (* TS0: A selects the rows of the k-th derivative, b = - f(xi) *)
  Theorem linearize_dense_ts0 q d (o : @odeP F) damp2 (m : list normal) t :
    let s := mkShape Dense q d in
    let K := nth 0 (linearize s o TS0 damp2 m t) dflt_cond in
    length (linearize s o TS0 damp2 m t) = 1%nat /\
    (forall r col, r < d -> col < sh_N s -> mget (c_A K) r col = delta (ode_k o * d + r) col) /\
    (forall r, r < d -> mget (c_b K) r 0 = - f_eval s o m t r) /\
    c_Q K = noise_cov d damp2.
  Proof.
    intros s K. unfold K, linearize. simpl sh_kind. simpl nth.
    split; [reflexivity|]. split; [|split].
    - intros r col Hr Hc. unfold from_linop_and_noise. simpl c_A. rewrite mget_mk by assumption.
      reflexivity.
    - intros r Hr. unfold from_linop_and_noise. simpl c_b. rewrite mget_mk by lia. reflexivity.
    - reflexivity.
  Qed.

  (* ---- isotropic: A is the trace average over the dimensions ---- *)
  Theorem linearize_iso_ts1 q d (o : @odeP F) damp2 (m : list normal) t :
    let s := mkShape Iso q d in
    let K := nth 0 (linearize s o TS1 damp2 m t) dflt_cond in
    length (linearize s o TS1 damp2 m t) = 1%nat /\
    (forall i, i < S q ->
       mget (c_A K) 0 i = vsum d (fun a => dg_eval s o m t a i a) / fnat d) /\
    (forall a, a < d ->
       mget (n_mean (c_apply (S q) 1 d K (n_mean (nth_normal m 0)))) 0 a = g_eval s o m t a) /\
    c_Q K = noise_cov 1 damp2.
  Proof.
    intros s K. unfold K, linearize. simpl sh_kind. simpl nth.
    split; [reflexivity|]. split; [|split].
    - intros i Hi. unfold from_linop_and_noise. simpl c_A. rewrite mget_mk by lia. reflexivity.
    - intros a Ha. rewrite c_apply_from_linop by lia. simpl n_mean. rewrite mget_mk by lia.
      change (sh_q s) with q. change (sh_d s) with d.
      set (Hr := mk 1 (S q) (fun _ i => vsum d (fun a0 => dg_eval s o m t a0 i a0) / fnat d)).
      rewrite (vsum_ext (S q) (fun l => mget Hr 0 l * mget (n_mean (nth_normal m 0)) l a)
                        (fun i => mget Hr 0 i * coeff s m i a)) by (intros; reflexivity).
      cbn [vsum]. ring.
    - reflexivity.
  Qed.

  Theorem linearize_iso_ts0 q d (o : @odeP F) damp2 (m : list normal) t :
    let s := mkShape Iso q d in
    let K := nth 0 (linearize s o TS0 damp2 m t) dflt_cond in
    length (linearize s o TS0 damp2 m t) = 1%nat /\
    (forall i, i < S q -> mget (c_A K) 0 i = delta (ode_k o) i) /\
    (forall a, a < d -> mget (c_b K) 0 a = - f_eval s o m t a) /\
    c_Q K = noise_cov 1 damp2.
  Proof.
    intros s K. unfold K, linearize. simpl sh_kind. simpl nth.
    split; [reflexivity|]. split; [|split].
    - intros i Hi. unfold from_linop_and_noise. simpl c_A. rewrite mget_mk by lia. reflexivity.
    - intros a Ha. unfold from_linop_and_noise. simpl c_b. rewrite mget_mk by lia. reflexivity.
    - reflexivity.
  Qed.

  (* ---- block-diagonal: block a carries the per-dimension diagonal entries ---- *)
  Theorem linearize_blockdiag_ts1 q d (o : @odeP F) damp2 (m : list normal) t a :
    let s := mkShape BlockDiag q d in
    let K := nth a (linearize s o TS1 damp2 m t) dflt_cond in
    a < d ->
    length (linearize s o TS1 damp2 m t) = d /\
    (forall i, i < S q -> mget (c_A K) 0 i = dg_eval s o m t a i a) /\
    mget (n_mean (c_apply (S q) 1 1 K (n_mean (nth_normal m a)))) 0 0 = g_eval s o m t a /\
    c_Q K = noise_cov 1 damp2.
  Proof.
    intros s K Ha. unfold K, linearize. simpl sh_kind. simpl sh_d. simpl sh_q.
    split; [rewrite map_length, seq_length; reflexivity|].
    rewrite nth_map_seq by exact Ha. simpl plus.
    split; [|split].
    - intros i Hi. unfold from_linop_and_noise. simpl c_A. rewrite mget_mk by lia. reflexivity.
    - rewrite c_apply_from_linop by lia. simpl n_mean. rewrite mget_mk by lia.
      set (Hr := mk 1 (S q) (fun _ i => dg_eval s o m t a i a)).
      rewrite (vsum_ext (S q) (fun l => mget Hr 0 l * mget (n_mean (nth_normal m a)) l 0)
                        (fun i => mget Hr 0 i * coeff s m i a)) by (intros; reflexivity).
      cbn [vsum]. ring.
    - reflexivity.
  Qed.

  Theorem linearize_blockdiag_ts0 q d (o : @odeP F) damp2 (m : list normal) t a :
    let s := mkShape BlockDiag q d in
    let K := nth a (linearize s o TS0 damp2 m t) dflt_cond in
    a < d ->
    length (linearize s o TS0 damp2 m t) = d /\
    (forall i, i < S q -> mget (c_A K) 0 i = delta (ode_k o) i) /\
    mget (c_b K) 0 0 = - f_eval s o m t a /\
    c_Q K = noise_cov 1 damp2.
  Proof.
    intros s K Ha. unfold K, linearize. simpl sh_kind. simpl sh_d. simpl sh_q.
    split; [rewrite map_length, seq_length; reflexivity|].
    rewrite nth_map_seq by exact Ha. simpl plus.
    split; [|split].
    - intros i Hi. unfold from_linop_and_noise. simpl c_A. rewrite mget_mk by lia. reflexivity.
    - unfold from_linop_and_noise. simpl c_b. rewrite mget_mk by lia. reflexivity.
    - reflexivity.
  Qed.

  (* the constraint of the TS1 linearisation is the residual x_k - f, and its
     Jacobian entries are delta - df *)
  Lemma g_is_residual (s : @shape) (o : @odeP F) (m : list normal) t a :
    g_eval s o m t a = coeff s m (ode_k o) a - f_eval s o m t a.
  Proof. reflexivity. Qed.
  Lemma dg_is_jacobian_of_residual (s : @shape) (o : @odeP F) (m : list normal) t a i b :
    dg_eval s o m t a i b
    = (if Nat.eqb i (ode_k o) && Nat.eqb a b then 1 else 0)
      - (if Nat.ltb i (ode_k o)
         then eval_poly (ode_env s o m t) (diff_poly (i * sh_d s + b) (nth a (ode_f o) []))
         else 0).
  Proof. reflexivity. Qed.

  (* ---- diff_poly is the gradient: the tau-coefficient of p(x + tau h) is
          sum_v (d p / d x_v)(x) h_v ---- *)
  Definition line_fs (xv hv : F) : fs := fun n => match n with O => xv | S O => hv | _ => 0 end.

  Lemma fs_sum_at0 (l : list fs) : fs_sum l 0%nat = fold_right (fun a acc => a 0%nat + acc) 0 l.
  Proof. induction l as [|a l IH]; simpl; [reflexivity|]. unfold fs_add at 1. rewrite IH. reflexivity. Qed.

  Lemma fold_sum_map (g : nat -> fs) (l : list nat) :
    fold_right (fun (a : fs) acc => a 0%nat + acc) 0 (map g l)
    = fold_right (fun v acc => g v 0%nat + acc) 0 l.
  Proof. induction l as [|v l IH]; simpl; [reflexivity|]. rewrite IH. reflexivity. Qed.
  Lemma fold_sum_ext (g h : nat -> F) (l : list nat) :
    (forall v, In v l -> g v = h v) ->
    fold_right (fun v acc => g v + acc) 0 l = fold_right (fun v acc => h v + acc) 0 l.
  Proof.
    induction l as [|v l IH]; intro E; simpl; [reflexivity|].
    rewrite E by (left; reflexivity). rewrite IH by (intros; apply E; right; assumption).
    reflexivity.
  Qed.

  Theorem diff_poly_is_directional_derivative (p : poly) (xs hs : list F) :
    fs_compose (map (fun v => line_fs (nth v xs 0) (nth v hs 0)) (seq 0 (length xs))) p 1%nat
    = fold_right (fun v acc => eval_poly xs (diff_poly v p) * nth v hs 0 + acc) 0
                 (seq 0 (length xs)).
  Proof.
    set (env := map (fun v => line_fs (nth v xs 0) (nth v hs 0)) (seq 0 (length xs))).
    assert (Henv0 : map (fun a : nat -> F => a 0%nat) env = xs).
    { unfold env. rewrite map_map. apply (list_eq_nth 0).
      - rewrite map_length, seq_length. reflexivity.
      - intros i Hi. rewrite map_length, seq_length in Hi. rewrite nth_map_seq by exact Hi.
        reflexivity. }
    assert (Hlen : length env = length xs) by (unfold env; rewrite map_length, seq_length; reflexivity).
    assert (E1 : fs_compose env p 1%nat = fs_D (fs_compose env p) 0%nat).
    { unfold fs_D. rewrite fnat_1. ring. }
    rewrite E1. rewrite (fs_eq_at _ _ (fs_D_compose env p) 0%nat). rewrite fs_sum_at0.
    rewrite Hlen, fold_sum_map. apply fold_sum_ext. intros v Hv. apply in_seq in Hv.
    rewrite fs_mul_at0, fs_compose_at0, Henv0. f_equal.
    unfold env. rewrite nth_map_seq by lia. unfold fs_D. simpl plus. unfold line_fs.
    rewrite fnat_1. ring.
  Qed.

  (* ============== Part 4: the lift computes total time derivatives (T11.1) *)
  Definition poly_wf (n : nat) (p : poly) : Prop := forall m, In m p -> length (snd m) = n.

  (* ---- re-indexing: k coordinates embedded into K coordinates ---- *)
  Lemma fs_exps_app (A R : list fs) (E S : list nat) :
    length A = length E ->
    fs_exps (A ++ R) (E ++ S) == fs_mul (fs_exps A E) (fs_exps R S).
  Proof.
    revert E. induction A as [|x A IH]; intros [|e E] HL; simpl in HL; try discriminate.
    - simpl app. change (fs_exps [] []) with (@fs_const F _ 1). ring.
    - simpl app. simpl fs_exps. rewrite IH by lia. ring.
  Qed.
  Lemma fs_exps_zeros (B : list fs) n : fs_exps B (repeat 0%nat n) == fs_const 1.
  Proof.
    revert n. induction B as [|x B IH]; intro n.
    - destruct n; reflexivity.
    - destruct n as [|n]; [reflexivity|]. simpl repeat. simpl fs_exps. rewrite IH. simpl fs_pow. ring.
  Qed.

  Lemma skipn_last_one {A} (l : list A) n d : length l = S n -> skipn n l = [nth n l d].
  Proof.
    revert n. induction l as [|x l IH]; intros n HL; simpl in HL; [discriminate|].
    destruct n as [|n].
    - destruct l; [reflexivity|discriminate].
    - simpl. apply IH. lia.
  Qed.

  Lemma fs_exps_embed (X B : list fs) (T : fs) k d K es :
    length X = (k * d)%nat -> length B = ((K - k) * d)%nat -> length es = S (k * d) ->
    fs_exps (X ++ B ++ [T]) (embed_exps k d K es) == fs_exps (X ++ [T]) es.
  Proof.
    intros HX HB Hes. unfold embed_exps.
    rewrite <- (firstn_skipn (k * d) es) at 3.
    rewrite (skipn_last_one es (k * d) 0%nat Hes).
    assert (HE : length X = length (firstn (k * d) es)) by (rewrite firstn_length; lia).
    rewrite (fs_exps_app X (B ++ [T]) (firstn (k * d) es) _ HE).
    rewrite (fs_exps_app X [T] (firstn (k * d) es) _ HE).
    rewrite (fs_exps_app B [T] (repeat 0%nat ((K - k) * d)) _) by (rewrite repeat_length; exact HB).
    rewrite fs_exps_zeros. ring.
  Qed.

  Lemma fs_compose_embed (X B : list fs) (T : fs) k d K (p : poly) :
    length X = (k * d)%nat -> length B = ((K - k) * d)%nat -> poly_wf (S (k * d)) p ->
    fs_compose (X ++ B ++ [T]) (embed_poly k d K p) == fs_compose (X ++ [T]) p.
  Proof.
    intros HX HB Hp. induction p as [|m p IH].
    - reflexivity.
    - change (fs_add (fs_scale (fst m) (fs_exps (X ++ B ++ [T]) (embed_exps k d K (snd m))))
                     (fs_compose (X ++ B ++ [T]) (embed_poly k d K p))
              == fs_add (fs_scale (fst m) (fs_exps (X ++ [T]) (snd m))) (fs_compose (X ++ [T]) p)).
      rewrite IH by (intros m' Hm'; apply Hp; right; exact Hm').
      rewrite (fs_exps_embed X B T k d K (snd m) HX HB) by (apply Hp; left; reflexivity).
      reflexivity.
  Qed.

  Lemma curve_env_split k d K (a : nat -> nat -> F) t :
    k <= K ->
    exists X B, curve_env k d a t = X ++ [fs_time t] /\
                curve_env K d a t = X ++ B ++ [fs_time t] /\
                length X = (k * d)%nat /\ length B = ((K - k) * d)%nat.
  Proof.
    intro HK. unfold curve_env.
    exists (map (fun idx => curve_fs a (idx / d) (idx mod d)) (seq 0 (k * d))),
           (map (fun idx => curve_fs a (idx / d) (idx mod d)) (seq (k * d) ((K - k) * d))).
    split; [reflexivity|]. split.
    - replace (K * d)%nat with (k * d + (K - k) * d)%nat by nia.
      rewrite seq_app, map_app, <- app_assoc. reflexivity.
    - rewrite !map_length, !seq_length. split; reflexivity.
  Qed.

  (* ---- one application of D_t ---- *)
  (* g involves no coordinate x_{j,.} with c <= j < K *)
  Definition below (K d c : nat) (g : poly) : Prop :=
    forall idx, c * d <= idx < K * d -> no_var idx g.

  Lemma fs_sum_app (l1 l2 : list fs) : fs_sum (l1 ++ l2) == fs_add (fs_sum l1) (fs_sum l2).
  Proof. induction l1 as [|x l1 IH]; simpl; [ring|]. rewrite IH. ring. Qed.

  Lemma no_var_nil idx : no_var idx (@nil (@mono F)).
  Proof. intros m []. Qed.

  Lemma no_var_diff_any kd j (p : poly) : no_var kd p -> no_var kd (diff_poly j p).
  Proof.
    intro Hp. destruct (Nat.eq_dec j kd) as [->|Hne].
    - rewrite diff_poly_no_var by exact Hp. apply no_var_nil.
    - apply no_var_diff; assumption.
  Qed.

  Lemma total_deriv_compose K d (a : nat -> nat -> F) t (g : poly) :
    1 <= K -> below K d (K - 1) g ->
    fs_compose (curve_env K d a t) (total_deriv K d g) == fs_D (fs_compose (curve_env K d a t) g).
  Proof.
    intros HK Hg.
    rewrite fs_D_compose, curve_env_length. set (env := curve_env K d a t).
    unfold total_deriv. rewrite fs_compose_padd.
    (* the fold over idx < (K-1) d *)
    assert (Efold : forall (l : list nat),
               (forall idx, In idx l -> idx < (K - 1) * d) ->
               fs_compose env
                 (fold_right (fun idx acc =>
                     padd (pmul (diff_poly idx g) (pvar (S (K * d)) (idx + d))) acc) [] l)
               == fs_sum (map (fun v0 => fs_mul (fs_compose env (diff_poly v0 g))
                                                 (fs_D (nth v0 env (fs_const 0)))) l)).
    { induction l as [|idx l IH]; intro Hl.
      - simpl. reflexivity.
      - simpl fold_right. simpl map. simpl fs_sum.
        rewrite fs_compose_padd, fs_compose_pmul, IH by (intros; apply Hl; right; assumption).
        assert (Hidx : idx < (K - 1) * d) by (apply Hl; left; reflexivity).
        assert (Hd : d <> 0%nat) by (intro E; rewrite E, Nat.mul_0_r in Hidx; lia).
        rewrite fs_compose_pvar by (unfold env; rewrite curve_env_length; nia).
        unfold env. rewrite !curve_env_nth by nia. rewrite <- curve_fs_S.
        replace ((idx + d) / d)%nat with (S (idx / d)).
        2:{ replace (idx + d)%nat with (idx + 1 * d)%nat by lia. rewrite Nat.div_add by exact Hd. lia. }
        replace ((idx + d) mod d)%nat with (idx mod d)%nat.
        2:{ replace (idx + d)%nat with (idx + 1 * d)%nat by lia. rewrite Nat.mod_add by exact Hd. reflexivity. }
        reflexivity. }
    rewrite Efold by (intros idx Hidx; apply in_seq in Hidx; lia).
    (* split the chain-rule sum *)
    rewrite seq_S, map_app, fs_sum_app, Nat.add_0_l.
    assert (Eseq : seq 0 (K * d) = seq 0 ((K - 1) * d) ++ seq ((K - 1) * d) d).
    { rewrite <- (Nat.add_0_l ((K - 1) * d)) at 2. rewrite <- seq_app. f_equal. nia. }
    rewrite Eseq, map_app, fs_sum_app.
    (* the block of the top coordinate vanishes *)
    rewrite (fs_sum_ext (fun v0 => fs_mul (fs_compose env (diff_poly v0 g)) (fs_D (nth v0 env (fs_const 0))))
                        (fun _ => fs_const 0) (seq ((K - 1) * d) d)).
    2:{ intros v0 Hv0. apply in_seq in Hv0.
        rewrite (diff_poly_no_var v0 g) by (apply Hg; nia).
        change (fs_compose env []) with (@fs_const F _ 0). ring. }
    rewrite fs_sum_zero.
    (* the time term *)
    simpl map. simpl fs_sum.
    assert (Etime : fs_D (nth (K * d) env (fs_const 0)) == fs_const 1).
    { unfold env, curve_env. rewrite app_nth2 by (rewrite map_length, seq_length; lia).
      rewrite map_length, seq_length, Nat.sub_diag. simpl nth. apply fs_D_time. }
    rewrite Etime. ring.
  Qed.

  Lemma below_weaken K d c c' (g : poly) : c <= c' -> below K d c g -> below K d c' g.
  Proof. intros Hc Hg idx Hidx. apply Hg. nia. Qed.

  Lemma pmul_nil_l (q : poly) : pmul [] q = [].
  Proof. reflexivity. Qed.

  Lemma total_deriv_below K d c (g : poly) :
    below K d c g -> below K d (S c) (total_deriv K d g).
  Proof.
    intros Hg idx' Hidx'. unfold total_deriv. apply no_var_padd.
    - apply no_var_diff_any. apply Hg. nia.
    - assert (E : forall l, no_var idx'
                    (fold_right (fun idx acc =>
                        padd (pmul (diff_poly idx g) (pvar (S (K * d)) (idx + d))) acc) [] l)).
      { induction l as [|idx l IH]; [apply no_var_nil|].
        simpl. apply no_var_padd; [|exact IH].
        destruct (Nat.lt_ge_cases idx (c * d)) as [Hlt|Hge].
        - apply no_var_pmul.
          + apply no_var_diff_any. apply Hg. nia.
          + apply no_var_pvar. nia.
        - destruct (Nat.lt_ge_cases idx (K * d)) as [Hlt2|Hge2].
          + rewrite (diff_poly_no_var idx g) by (apply Hg; nia). rewrite pmul_nil_l. apply no_var_nil.
          + apply no_var_pmul.
            * apply no_var_diff_any. apply Hg. nia.
            * apply no_var_pvar. nia. }
      apply E.
  Qed.

  #[local] Instance fs_Dn_proper l : Proper (fs_eq ==> fs_eq) (fs_Dn l).
  Proof.
    intros x y E. induction l as [|l IH]; simpl; [exact E|]. rewrite IH. reflexivity.
  Qed.

  Lemma total_deriv_n_invariant K d k (a : nat -> nat -> F) t (g0 : poly) l :
    below K d k g0 -> k + l <= K ->
    below K d (k + l) (total_deriv_n K d l g0) /\
    fs_compose (curve_env K d a t) (total_deriv_n K d l g0)
    == fs_Dn l (fs_compose (curve_env K d a t) g0).
  Proof.
    intros Hg0. induction l as [|l IH]; intro HlK.
    - rewrite Nat.add_0_r. split; [exact Hg0|reflexivity].
    - destruct IH as [IHb IHc]; [lia|]. simpl total_deriv_n. split.
      + replace (k + S l)%nat with (S (k + l)) by lia. apply total_deriv_below. exact IHb.
      + rewrite total_deriv_compose; [|lia|].
        * simpl fs_Dn. rewrite IHc. reflexivity.
        * apply (below_weaken K d (k + l)); [lia|exact IHb].
  Qed.

  Lemma embed_below k d K (p : poly) :
    poly_wf (S (k * d)) p -> below K d k (embed_poly k d K p).
  Proof.
    intros Hp idx Hidx m Hm. unfold embed_poly in Hm. apply in_map_iff in Hm.
    destruct Hm as [m0 [<- Hm0]]. simpl snd. unfold embed_exps.
    assert (Hl : length (firstn (k * d) (snd m0)) = (k * d)%nat)
      by (rewrite firstn_length, (Hp m0 Hm0); lia).
    rewrite app_nth2 by lia. rewrite Hl.
    rewrite app_nth1 by (rewrite repeat_length; nia).
    apply nth_repeat.
  Qed.

  (* ---- assembling T11.1 ---- *)
  (* the curve whose Taylor coefficients are the supplied derivative vectors *)
  Definition coeffs_of (tcs : list tvec) : nat -> nat -> F :=
    fun n b => vget (nth n tcs []) b / ffact n.

  Lemma coeffs_good (tcs : list tvec) d :
    (forall j, j < length tcs -> length (nth j tcs []) = d) ->
    forall n, n < length tcs -> nth n tcs [] = dvec (coeffs_of tcs) d n.
  Proof.
    intros Hd n Hn. rewrite (list_as_map_vget (nth n tcs []) d (Hd n Hn)) at 1.
    unfold dvec, coeffs_of. apply map_ext. intro b. field. apply ffact_neq0.
  Qed.

  Lemma lift_key k d m (tcs : list tvec) t (p : poly) l :
    length tcs = (k + m)%nat -> (forall j, j < length tcs -> length (nth j tcs []) = d) ->
    poly_wf (S (k * d)) p -> l <= m ->
    ffact l * fs_compose (curve_env k d (coeffs_of tcs) t) p l
    = eval_poly (concat tcs ++ [t]) (total_deriv_n (k + m) d l (embed_poly k d (k + m) p)).
  Proof.
    intros HL Hd Hp Hl. set (K := (k + m)%nat). set (a := coeffs_of tcs).
    assert (Hat0 : map (fun s : fs => s 0%nat) (curve_env K d a t) = concat tcs ++ [t]).
    { apply (curve_env_at0 K d a t tcs); [exact HL|].
      intros j Hj. apply coeffs_good; [exact Hd|lia]. }
    unfold vf_env in Hat0. rewrite <- Hat0.
    rewrite <- (fs_compose_at0 (curve_env K d a t)).
    destruct (total_deriv_n_invariant K d k a t (embed_poly k d K p) l) as [_ Hc].
    - apply embed_below. exact Hp.
    - unfold K. lia.
    - rewrite (fs_eq_at _ _ Hc 0%nat). rewrite fs_Dn_rise, rise_0. simpl plus.
      destruct (curve_env_split k d K a t) as [X [B [Ek [EK [HX HB]]]]]; [unfold K; lia|].
      rewrite EK, Ek.
      rewrite (fs_eq_at _ _ (fs_compose_embed X B (fs_time t) k d K p HX HB Hp) l).
      reflexivity.
  Qed.

  Lemma plain_env_at0 d (pu : list tvec) t :
    (forall x, In x pu -> length x = d) ->
    map (fun s : series => sget s 0) (plain_env d pu t) = concat pu ++ [t].
  Proof.
    intro Hd. unfold plain_env. rewrite map_app. simpl map at 2. f_equal.
    induction pu as [|x pu IH]; [reflexivity|].
    simpl flat_map. rewrite map_app, map_map. simpl concat. f_equal.
    - symmetry. apply (list_as_map_vget x d). apply Hd. left. reflexivity.
    - apply IH. intros y Hy. apply Hd. right. exact Hy.
  Qed.

  Lemma lift_eq (jf : jetfun) lift_by (coords : list tvec) t :
    1 <= jf_k jf -> lift_accepts (jf_k jf) (length coords) lift_by = true ->
    lift jf lift_by coords t
    = let tcs := firstn (jf_k jf + Z.to_nat lift_by) coords in
      let '((pu, pt), (su, st)) := args_aj tcs (jf_k jf) t in
      match nth 0 su [] with
      | [] => Some [run_plain jf pu pt]
      | _ :: _ => run_jet jf pu pt su st
      end.
  Proof. intros Hk Hacc. unfold lift. rewrite Hacc. destruct (jf_k jf); [lia|reflexivity]. Qed.

  (* T11.1 *)
  Theorem lift_is_total_derivative (k d : nat) (ps : list poly) (m : nat)
          (coords : list tvec) (t : F) :
    1 <= k -> k + m <= length coords ->
    (forall j, j < k + m -> length (nth j coords []) = d) ->
    (forall p, In p ps -> poly_wf (S (k * d)) p) ->
    lift (jf_of_polys k d ps) (Z.of_nat m) coords t = Some (lift_spec k d ps m coords t).
  Proof.
    intros Hk HL Hd Hps.
    assert (Hacc : lift_accepts k (length coords) (Z.of_nat m) = true)
      by (apply P_lift_accepts_iff; lia).
    rewrite lift_eq by assumption. cbv zeta. change (jf_k (jf_of_polys k d ps)) with k.
    rewrite Nat2Z.id. set (tcs := firstn (k + m) coords).
    assert (HLt : length tcs = (k + m)%nat) by (unfold tcs; rewrite firstn_length; lia).
    assert (Hdt : forall j, j < length tcs -> length (nth j tcs []) = d).
    { intros j Hj. unfold tcs. rewrite nth_firstn_lt by lia. apply Hd. lia. }
    set (a := coeffs_of tcs).
    assert (Hgood : good_upto a d (k + m - 1) tcs).
    { intros n Hn. apply coeffs_good; [exact Hdt|lia]. }
    unfold args_aj. cbv zeta.
    set (su := map (fun j => pyslice j (k - 1 - j) (tl tcs)) (seq 0 k)).
    assert (Hsu0 : length (nth 0 su []) = m).
    { unfold su. rewrite nth_map_seq by lia. rewrite pyslice_length, length_tl. lia. }
    unfold lift_spec. fold tcs.
    destruct (nth 0 su []) as [|x0 r0] eqn:E0.
    - (* no series: direct call *)
      simpl in Hsu0. subst m. cbn [seq map]. f_equal. f_equal.
      unfold run_plain, jf_of_polys. cbn [jf_body jf_d]. rewrite map_map.
      apply map_ext_in. intros p Hp.
      rewrite (sget_scompose 1) by lia.
      rewrite fs_compose_at0, map_map.
      rewrite (plain_env_at0 d (firstn k tcs) t).
      2:{ intros x Hx. apply In_nth with (d := []) in Hx. destruct Hx as [j [Hj <-]].
          rewrite firstn_length in Hj. rewrite nth_firstn_lt by lia. apply Hdt. lia. }
      pose proof (lift_key k d 0 tcs t p 0 HLt Hdt (Hps p Hp) (le_n 0)) as Hkey.
      rewrite <- Hkey. simpl ffact.
      rewrite (fs_compose_at0 (curve_env k d (coeffs_of tcs) t)).
      rewrite (curve_env_at0 k d (coeffs_of tcs) t (firstn k tcs)).
      + unfold vf_env. ring.
      + rewrite firstn_length. lia.
      + intros j Hj. rewrite nth_firstn_lt by exact Hj. apply coeffs_good; [exact Hdt|lia].
    - (* jet *)
      assert (Hm1 : 1 <= m) by (simpl in Hsu0; lia).
      unfold run_jet. rewrite <- E0. rewrite <- E0 in Hsu0.
      set (st := 1 :: repeat 0 (length (nth 0 su []) - 1)).
      assert (Hst : length st = m) by (unfold st; simpl; rewrite repeat_length, Hsu0; lia).
      rewrite Hst.
      assert (Hchk : forallb (fun s => Nat.eqb (length s) m) su
                     && Nat.eqb (length (firstn k tcs)) (length su) = true).
      { apply andb_true_iff. split.
        - apply forallb_forall. intros s Hs. unfold su in Hs. apply in_map_iff in Hs.
          destruct Hs as [j [<- Hj]]. apply in_seq in Hj. apply Nat.eqb_eq.
          rewrite pyslice_length, length_tl. lia.
        - apply Nat.eqb_eq. unfold su. rewrite firstn_length, map_length, seq_length. lia. }
      rewrite Hchk. f_equal. apply map_ext_in. intros l Hl. apply in_seq in Hl.
      unfold jf_of_polys. cbn [jf_body jf_d]. rewrite !map_map.
      apply map_ext_in. intros p Hp.
      rewrite sget_to_deriv by (rewrite scompose_length; lia).
      rewrite (sget_scompose (S m)) by lia.
      rewrite <- (lift_key k d m tcs t p l HLt Hdt (Hps p Hp)) by lia. f_equal.
      apply (fs_compose_agreeN (S l)); [|lia].
      unfold st. rewrite Hsu0. unfold su. replace (m - 1)%nat with (length tcs - k - 1)%nat by lia.
      apply (jet_env_agreeN (coeffs_of tcs) k d tcs t (k + m - 1)); try assumption; lia.
  Qed.
End LiftProofs.

Section ResidualLift.
  Context {F : Type} `{FL : FieldLaws F}.
  Local Open Scope F_scope.
  Add Field FLift2 : fth.
  Local Notation series := (@series F).
  Local Notation tvec := (list F).
  Local Notation jetfun := (@jetfun F).

  (* ---- T11.3 (lift): lifting residual_from_ode(ode) = lifting both parts ---- *)
  Lemma sget_to_deriv_any (a : series) l : sget (to_deriv a) l = ffact l * sget a l.
  Proof.
    destruct (Nat.lt_ge_cases l (length a)) as [Hl|Hl].
    - apply sget_to_deriv. exact Hl.
    - unfold to_deriv. rewrite sget_mkv_out by exact Hl.
      unfold sget. rewrite nth_overflow by exact Hl. ring.
  Qed.

  Lemma flat_map_ext_in' {A B} (g h : A -> list B) l :
    (forall x, In x l -> g x = h x) -> flat_map g l = flat_map h l.
  Proof.
    induction l as [|x l IH]; intro E; simpl; [reflexivity|].
    rewrite (E x) by (left; reflexivity). rewrite IH by (intros; apply E; right; assumption).
    reflexivity.
  Qed.

  Lemma zipw_map_same {A B C D} (h : B -> C -> D) (g1 : A -> B) (g2 : A -> C) l :
    zipw h (map g1 l) (map g2 l) = map (fun x => h (g1 x) (g2 x)) l.
  Proof. induction l as [|x l IH]; simpl; [reflexivity|]. rewrite IH. reflexivity. Qed.

  (* entry i of the derivative list handed to jet for the coordinate j, component b *)
  Lemma sget_coord_series (tc : list tvec) j drop b i :
    i <= length tc - 1 - drop - j ->
    sget (vget (nth j tc []) b :: map (fun c : list F => vget c b) (pyslice j drop (tl tc))) i
    = vget (nth (j + i) tc []) b.
  Proof.
    intro Hi. destruct i as [|i].
    - rewrite Nat.add_0_r. reflexivity.
    - change (sget (vget (nth j tc []) b :: map (fun c : list F => vget c b) (pyslice j drop (tl tc))) (S i))
        with (nth i (map (fun c : list F => vget c b) (pyslice j drop (tl tc))) 0).
      rewrite (nth_indep _ 0 (vget [] b)) by (rewrite map_length, pyslice_length, length_tl; lia).
      rewrite (map_nth (fun c : list F => vget c b)).
      rewrite pyslice_nth by (rewrite length_tl; lia).
      rewrite nth_tl. replace (S (j + i)) with (j + S i)%nat by lia. reflexivity.
  Qed.

  Lemma run_plain_residual (o : jetfun) (coords : list tvec) (t : F) :
    length coords = S (jf_k o) ->
    run_plain (residual_from_ode_jf o) coords t
    = vsub_ (vhead (jf_d o) (nth (jf_k o) coords [])) (run_plain o (firstn (jf_k o) coords) t).
  Proof.
    intro HL. pose proof (residual_from_ode_value o coords t HL) as E.
    unfold jf_eval in E. simpl jf_k in E. rewrite HL, Nat.eqb_refl in E. inversion E. reflexivity.
  Qed.

  (* the series of the first k coordinates do not depend on whether k or k+1
     coordinates are being reordered *)
  Lemma pyslice_shift (coords : list tvec) k m j :
    j < k -> k + 1 + m <= length coords ->
    pyslice j (k - j) (tl (firstn (k + 1 + m) coords))
    = pyslice j (k - 1 - j) (tl (firstn (k + m) coords)).
  Proof.
    intros Hj HL. apply (list_eq_nth []).
    - rewrite !pyslice_length, !length_tl, !firstn_length. lia.
    - intros i Hi. rewrite pyslice_length, length_tl, firstn_length in Hi.
      rewrite !pyslice_nth by (rewrite length_tl, firstn_length; lia).
      rewrite !nth_tl. rewrite !nth_firstn_lt by lia. reflexivity.
  Qed.

  Theorem residual_lift_is_lift_of_parts (o : jetfun) (m : nat) (coords : list tvec) (t : F)
          (outs : list (list F)) :
    1 <= jf_k o -> jf_k o + 1 + m <= length coords ->
    lift o (Z.of_nat m) coords t = Some outs ->
    lift (residual_from_ode_jf o) (Z.of_nat m) coords t
    = Some (zipw vsub_ (map (fun l => vhead (jf_d o) (nth (jf_k o + l) coords [])) (seq 0 (S m)))
                 outs).
  Proof.
    intros Hk HL Ho. set (k := jf_k o) in *. set (d := jf_d o).
    assert (Hacc : lift_accepts k (length coords) (Z.of_nat m) = true)
      by (apply P_lift_accepts_iff; lia).
    assert (Hacc' : lift_accepts (S k) (length coords) (Z.of_nat m) = true)
      by (apply P_lift_accepts_iff; lia).
    rewrite lift_eq in Ho by assumption. rewrite lift_eq by (simpl; try lia; exact Hacc').
    cbv zeta in *. change (jf_k (residual_from_ode_jf o)) with (S k). fold k in Ho.
    rewrite Nat2Z.id in *.
    replace (S k + m)%nat with (k + 1 + m)%nat by lia.
    set (tcs := firstn (k + m) coords) in *. set (tcs' := firstn (k + 1 + m) coords).
    assert (HLt : length tcs = (k + m)%nat) by (unfold tcs; rewrite firstn_length; lia).
    assert (HLt' : length tcs' = (k + 1 + m)%nat) by (unfold tcs'; rewrite firstn_length; lia).
    unfold args_aj in *. cbv zeta in *.
    set (su := map (fun j => pyslice j (k - 1 - j) (tl tcs)) (seq 0 k)) in *.
    set (su' := map (fun j => pyslice j (S k - 1 - j) (tl tcs')) (seq 0 (S k))).
    assert (Hsu0 : length (nth 0 su []) = m).
    { unfold su. rewrite nth_map_seq by lia. rewrite pyslice_length, length_tl. lia. }
    assert (Hsu0' : length (nth 0 su' []) = m).
    { unfold su'. rewrite nth_map_seq by lia. rewrite pyslice_length, length_tl. lia. }
    assert (Efirst : firstn k (firstn (S k) tcs') = firstn k tcs).
    { unfold tcs, tcs'. rewrite !firstn_firstn. f_equal. lia. }
    assert (Ektop : forall l, l <= m -> nth (k + l) tcs' [] = nth (k + l) coords []).
    { intros l Hl. unfold tcs'. apply nth_firstn_lt. lia. }
    destruct (nth 0 su []) as [|x0 r0] eqn:E0; destruct (nth 0 su' []) as [|x0' r0'] eqn:E0';
      try (simpl in Hsu0, Hsu0'; lia).
    - (* m = 0: direct calls *)
      simpl in Hsu0. subst m. inversion Ho; subst outs. cbn [seq map zipw]. f_equal. f_equal.
      rewrite run_plain_residual by (rewrite firstn_length; lia).
      change (jf_k o) with k. change (jf_d o) with d. rewrite Efirst.
      rewrite nth_firstn_lt by lia. rewrite Nat.add_0_r. unfold tcs'. rewrite nth_firstn_lt by lia. reflexivity.
    - (* jet *)
      rewrite Hsu0 in Ho. rewrite Hsu0'.
      assert (Hm1 : 1 <= m) by (simpl in Hsu0; lia).
      set (st := 1 :: repeat 0 (m - 1)) in *.
      assert (Hst : length st = m) by (unfold st; simpl; rewrite repeat_length; lia).
      unfold run_jet in *. rewrite Hst in *.
      assert (Hchk : forallb (fun s => Nat.eqb (length s) m) su
                     && Nat.eqb (length (firstn k tcs)) (length su) = true).
      { apply andb_true_iff. split.
        - apply forallb_forall. intros s0 Hs. unfold su in Hs. apply in_map_iff in Hs.
          destruct Hs as [j [<- Hj]]. apply in_seq in Hj. apply Nat.eqb_eq.
          rewrite pyslice_length, length_tl. lia.
        - apply Nat.eqb_eq. unfold su. rewrite firstn_length, map_length, seq_length. lia. }
      assert (Hchk' : forallb (fun s => Nat.eqb (length s) m) su'
                      && Nat.eqb (length (firstn (S k) tcs')) (length su') = true).
      { apply andb_true_iff. split.
        - apply forallb_forall. intros s0 Hs. unfold su' in Hs. apply in_map_iff in Hs.
          destruct Hs as [j [<- Hj]]. apply in_seq in Hj. apply Nat.eqb_eq.
          rewrite pyslice_length, length_tl. lia.
        - apply Nat.eqb_eq. unfold su'. rewrite firstn_length, map_length, seq_length. lia. }
      rewrite Hchk in Ho. rewrite Hchk'. injection Ho as Houts. f_equal.
      (* the environment of the residual = (X ++ Y ++ [T]) with X ++ [T] the ODE's *)
      set (T := to_norm (t :: st)).
      set (blk := fun (tc : list tvec) (sl : nat -> list tvec) (j : nat) =>
                    map (fun b => to_norm (vget (nth j tc []) b :: map (fun c : list F => vget c b) (sl j)))
                        (seq 0 d)).
      assert (Eenv : jet_env d (firstn k tcs) t su st
                     = flat_map (blk tcs (fun j => pyslice j (k - 1 - j) (tl tcs))) (seq 0 k) ++ [T]).
      { unfold jet_env, su. rewrite (combine_firstn_map_seq tcs _ []) by lia.
        rewrite flat_map_map. reflexivity. }
      assert (Eenv' : jet_env d (firstn (S k) tcs') t su' st
                      = flat_map (blk tcs' (fun j => pyslice j (S k - 1 - j) (tl tcs'))) (seq 0 (S k)) ++ [T]).
      { unfold jet_env, su'. rewrite (combine_firstn_map_seq tcs' _ []) by lia.
        rewrite flat_map_map. reflexivity. }
      set (X := flat_map (blk tcs (fun j => pyslice j (k - 1 - j) (tl tcs))) (seq 0 k)) in *.
      set (Y := blk tcs' (fun j => pyslice j (S k - 1 - j) (tl tcs')) k).
      assert (EX : flat_map (blk tcs' (fun j => pyslice j (S k - 1 - j) (tl tcs'))) (seq 0 (S k))
                   = X ++ Y).
      { rewrite seq_S, flat_map_app. cbn [flat_map]. rewrite app_nil_r. f_equal.
        unfold X. apply flat_map_ext_in'. intros j Hj. apply in_seq in Hj.
        unfold blk. apply map_ext. intro b.
        replace (S k - 1 - j)%nat with (k - j)%nat by lia.
        unfold tcs', tcs. rewrite pyslice_shift by lia.
        rewrite !nth_firstn_lt by lia. reflexivity. }
      rewrite EX in Eenv'.
      assert (HX : length X = (k * d)%nat).
      { unfold X. rewrite (flat_map_length_const _ _ d), seq_length; [reflexivity|].
        intro j. unfold blk. rewrite map_length, seq_length. reflexivity. }
      assert (HY : length Y = d) by (unfold Y, blk; rewrite map_length, seq_length; reflexivity).
      cbn [jf_body jf_d residual_from_ode_jf]. fold k d. fold d in Houts.
      rewrite Eenv'. rewrite Eenv in Houts.
      rewrite <- (app_assoc X Y [T]).
      rewrite (skipn_app_exact X _ _ HX).
      rewrite (firstn_app_exact Y _ _ HY).
      rewrite (firstn_app_exact X _ _ HX).
      rewrite (app_assoc X Y).
      rewrite (skipn_app_exact (X ++ Y) _ (S k * d)) by (rewrite app_length, HX, HY; lia).
      set (B := jf_body o (S m) (X ++ [T])) in *.
      rewrite <- Houts. clear Houts.
      (* order by order *)
      change (map (fun o0 : series => sget o0 0) (map to_deriv B)
              :: map (fun l => map (fun o0 : series => sget o0 l) (map to_deriv B)) (seq 1 m))
        with (map (fun l => map (fun o0 : series => sget o0 l) (map to_deriv B)) (seq 0 (S m))).
      rewrite zipw_map_same. apply map_ext_in. intros l Hl. apply in_seq in Hl.
      rewrite !map_map, map_zipw. unfold vsub_, vhead, Y, blk.
      rewrite !zipw_map_l, zipw_map_r. apply zipw_ext. intros b bb _ _.
      rewrite !sget_to_deriv_any. rewrite (sget_ssub (S m)) by lia. unfold fs_sub.
      rewrite sget_to_norm by (cbn [length]; rewrite map_length, pyslice_length, length_tl; lia).
      rewrite sget_coord_series by lia.
      rewrite Ektop by lia. field. apply ffact_neq0.
  Qed.
End ResidualLift.

(* ================================================= Examples (satisfiability) *)
Definition qcl (n : Z) (d : positive) : Qc := Q2Qc (n # d).
(* f(u, u', t) = u * u' * t + t^2 (k = 2, d = 1): variables (x0, x1, t) *)
Definition ex_polys : list (@poly Qc) := [[ (qcl 1 1, [1; 1; 1]); (qcl 1 1, [0; 0; 2]) ]].
Definition ex_coords : list (list Qc) := [[qcl 1 2]; [qcl (-1) 1]; [qcl 3 4]; [qcl 2 1]].

Example ex_lift_hypotheses :
  (1 <= 2)%nat /\ (2 + 2 <= length ex_coords)%nat /\
  (forall j, (j < 2 + 2)%nat -> length (nth j ex_coords []) = 1%nat) /\
  (forall p, In p ex_polys -> poly_wf (S (2 * 1)) p).
Proof.
  split; [lia|]. split; [simpl; lia|]. split.
  - intros j Hj. destruct j as [|[|[|[|j]]]]; try reflexivity. lia.
  - intros p [<-|[]] m [<-|[<-|[]]]; reflexivity.
Qed.

(* f, D_t f, D_t^2 f at (1/2, -1, 3/4, 2; t = 1/4):
   f = -1/16;  D_t f = u'^2 t + u u'' t + u u' + 2t = 11/32;  D_t^2 f = 2 + u'^2 + u u'' + (u' + u'' t) u' + (u + 2 u' t) u'' + u t u''' = 71/16 *)
Example ex_lift_values :
  match lift (jf_of_polys 2 1 ex_polys) 2%Z ex_coords (qcl 1 4) with
  | Some l => map (map (fun x : Qc => this x)) l = [[-1 # 16]; [11 # 32]; [71 # 16]]%Q
  | None => False
  end.
Proof. vm_compute. reflexivity. Qed.

Example ex_lift_rejects :
  lift (jf_of_polys 2 1 ex_polys) 3%Z ex_coords (qcl 1 4) = None /\
  lift (jf_of_polys 2 1 ex_polys) (-1)%Z ex_coords (qcl 1 4) = None.
Proof. split; reflexivity. Qed.
