(* Proofs for C11 (Model/JetLift.v, linearisations of Model/Solver.v). *)
From Coq Require Import List Arith Lia Bool ZArith QArith Qcanon Field Ring.
From PD Require Import Base.Field Base.Matrix Model.Poly Base.Series Spec.ODESeries Model.Jet Model.JetLift.
Import ListNotations.
Local Close Scope Qc_scope.
Local Close Scope Q_scope.
Local Open Scope nat_scope.

Lemma P_lift_accepts_iff (k ncoords : nat) (lift_by : Z) :
  lift_accepts k ncoords lift_by = true <->
  (0 <= lift_by /\ lift_by <= Z.of_nat ncoords - Z.of_nat k)%Z.
Proof.
  unfold lift_accepts. rewrite andb_true_iff, !Z.leb_le. tauto.
Qed.
