(* Invariants of the adaptive-step machine (Model/Control.v), for arbitrary
   oracles.  All statements are conditional on the fuel sufficing (the model
   returns None otherwise). *)
From Coq Require Import List QArith Bool Lqa Lia.
From PD Require Import Model.Control.
Import ListNotations.
Local Open Scope Q_scope.

Lemma qltb_true a b : qltb a b = true <-> a < b.
Proof.
  unfold qltb. rewrite negb_true_iff. split; intro H.
  - apply Qnot_le_lt. intro Hc. apply Qle_bool_iff in Hc. congruence.
  - destruct (Qle_bool b a) eqn:Hb; auto. apply Qle_bool_iff in Hb. lra.
Qed.
Lemma qltb_false a b : qltb a b = false <-> b <= a.
Proof.
  unfold qltb. rewrite negb_false_iff. apply Qle_bool_iff.
Qed.
Lemma qmin_spec a b : (a <= b /\ qmin a b = a) \/ (b < a /\ qmin a b = b).
Proof.
  unfold qmin. destruct (Qle_bool a b) eqn:H.
  - left. apply Qle_bool_iff in H. auto.
  - right. split; auto. apply Qnot_le_lt. intro Hc. apply Qle_bool_iff in Hc. congruence.
Qed.
Lemma qmax_spec a b : (a <= b /\ qmax a b = b) \/ (b < a /\ qmax a b = a).
Proof.
  unfold qmax. destruct (Qle_bool a b) eqn:H.
  - left. apply Qle_bool_iff in H. auto.
  - right. split; auto. apply Qnot_le_lt. intro Hc. apply Qle_bool_iff in Hc. congruence.
Qed.

(* ------------------------------------------------------------ trace shape *)
Fixpoint cur_time (t0 : Q) (tr : list event) : Q :=
  match tr with
  | [] => t0
  | EvAccept tn :: _ => tn
  | _ :: r => cur_time t0 r
  end.

Fixpoint count_acc (tr : list event) : nat :=
  match tr with
  | [] => O
  | EvAccept _ :: r => Datatypes.S (count_acc r)
  | _ :: r => count_acc r
  end.

Definition is_attempt (e : event) : bool :=
  match e with EvAttempt _ _ _ _ _ => true | _ => false end.

Definition head_not_attempt (tr : list event) : Prop :=
  match tr with e :: _ => is_attempt e = false | [] => True end.

(* what may follow what (newer, older) *)
Definition pair_ok (newer older : event) : Prop :=
  match newer, older with
  | EvAccept tn, EvAttempt _ tf dt pow _ => 1 <= pow /\ tn == tf + dt
  | EvAccept _, _ => False
  | EvAttempt t1' tf' dt' _ _, EvAttempt t1 tf dt pow dn =>
      pow < 1 /\ tf' == tf /\ dt' <= dn /\ dn < dt /\ t1' == t1
  | EvAttempt _ _ _ _ _, EvAccept _ => False
  | _, EvAttempt _ _ _ _ _ => False
  | _, _ => True
  end.

Fixpoint chain_ok (tr : list event) : Prop :=
  match tr with
  | e1 :: ((e2 :: _) as r) => pair_ok e1 e2 /\ chain_ok r
  | _ => True
  end.

Arguments chain_ok : simpl never.

Fixpoint reports_count_ok (n0 : nat) (tr : list event) : Prop :=
  match tr with
  | [] => True
  | EvReport _ _ n :: r => n = (n0 + count_acc r)%nat /\ reports_count_ok n0 r
  | _ :: r => reports_count_ok n0 r
  end.

Fixpoint reports (tr : list event) : list Q :=   (* newest first *)
  match tr with
  | [] => []
  | EvReport t1 _ _ :: r => t1 :: reports r
  | _ :: r => reports r
  end.

Section Proofs.
  Variable S E : Type.
  Variable time : S -> Q.
  Variable nsteps : S -> nat.
  Variable sstep : S -> Q -> S.
  Variable est : E -> S -> S -> Q -> Q * E.
  Variable interp interp_at : Q -> S -> S -> S * (S * S).
  Variable capply : Q -> Q -> Q -> Q * Q.
  Variable cinit : Q.
  Variable einit : E.
  Variable clip_dt : bool.
  Variable eps acc_init : Q.
  Variable fmin fmax : Q.

  (* contracts of the oracles *)
  Hypothesis Hstep_time : forall s dt, time (sstep s dt) == time s + dt.
  Hypothesis Hstep_n : forall s dt, nsteps (sstep s dt) = Datatypes.S (nsteps s).
  Hypothesis Hinterp : forall t a b,
      time (fst (interp t a b)) == t /\
      time (fst (snd (interp t a b))) == time b /\
      time (snd (snd (interp t a b))) == t /\
      nsteps (fst (interp t a b)) = nsteps b /\
      nsteps (fst (snd (interp t a b))) = nsteps b.
  Hypothesis Hinterp_at : forall t a b,
      time (fst (interp_at t a b)) == time b /\
      time (fst (snd (interp_at t a b))) == time b /\
      time (snd (snd (interp_at t a b))) == time b /\
      nsteps (fst (interp_at t a b)) = nsteps b /\
      nsteps (fst (snd (interp_at t a b))) = nsteps b.
  (* contract of the controller (proved for both shipped controllers below) *)
  Variable CI : Q -> Prop.       (* invariant of the controller memory *)
  Hypothesis Hcinit : CI cinit.
  Hypothesis Hctrl : forall dt c pow, 0 < dt -> CI c ->
      fmin * dt <= fst (capply dt c pow) <= fmax * dt /\
      (pow < 1 -> fst (capply dt c pow) < dt /\ snd (capply dt c pow) = c) /\
      CI (snd (capply dt c pow)).
  Hypothesis Hfmin : 0 < fmin.
  Hypothesis Heps : 0 <= eps.
  Hypothesis Hacc : acc_init < 1.

  Notation TSt := (TS S E).
  Notation RSt := (RS S E).
  Notation step_attempt := (step_attempt S E time sstep est capply clip_dt).
  Notation rej_loop := (rej_loop S E time sstep est capply clip_dt).
  Notation step_extract := (step_extract S E time).
  Notation step_init_loopstate := (step_init_loopstate S E acc_init).
  Notation rstep := (rstep S E time sstep est capply clip_dt acc_init).
  Notation loop := (loop S E time sstep est interp interp_at capply clip_dt eps acc_init).
  Notation advance := (advance S E time nsteps sstep est interp interp_at capply clip_dt eps acc_init).
  Notation scan := (scan S E time nsteps sstep est interp interp_at capply clip_dt eps acc_init).
  Notation run := (run S E time nsteps sstep est interp interp_at capply cinit einit clip_dt eps acc_init).

  Definition ev_ok (e : event) : Prop :=
    match e with
    | EvAttempt t1 tf dt pow dn =>
        0 < dt /\ fmin * dt <= dn <= fmax * dt /\ tf + eps < t1 /\
        (clip_dt = true -> tf + dt <= t1) /\ (pow < 1 -> dn < dt)
    | EvBeyond t1 lo hi => lo <= t1 /\ t1 + eps < hi
    | EvAt t1 lo hi => lo <= hi /\ t1 - eps <= hi <= t1 + eps
    | EvReport t1 ts _ => t1 - eps <= ts <= t1 + eps
    | _ => True
    end.

  (* ------------------------------------------------- T06.2 frame lemmas *)
  Lemma step_attempt_frame t1 (r : RSt) :
    rs_step_from _ _ (step_attempt t1 r) = rs_step_from _ _ r /\
    rs_err_step_from _ _ (step_attempt t1 r) = rs_err_step_from _ _ r.
  Proof.
    unfold Control.step_attempt.
    destruct (est _ _ _ _) as [pow es]. destruct (capply _ _ _) as [dtn c].
    simpl. auto.
  Qed.

  Lemma rej_loop_frame fuel t1 : forall (r r' : RSt),
      rej_loop fuel t1 r = Some r' ->
      rs_step_from _ _ r' = rs_step_from _ _ r /\
      rs_err_step_from _ _ r' = rs_err_step_from _ _ r.
  Proof.
    induction fuel as [|f IH]; intros r r' H; simpl in H.
    - destruct (qltb _ _); [discriminate|]. inversion H; auto.
    - destruct (qltb _ _).
      + apply IH in H. destruct H as [H1 H2].
        destruct (step_attempt_frame t1 r) as [F1 F2]. split; congruence.
      + inversion H; auto.
  Qed.

  (* ------------------------------------------------------- invariants *)
  Record RInv (t0 : Q) (n0 : nat) (t1 : Q) (r : RSt) : Prop := {
    ri_dt : 0 < rs_dt _ _ r;
    ri_ci : CI (rs_control _ _ r);
    ri_before : time (rs_step_from _ _ r) + eps < t1;
    ri_ev : Forall ev_ok (rs_trace _ _ r);
    ri_chain : chain_ok (rs_trace _ _ r);
    ri_rep : reports_count_ok n0 (rs_trace _ _ r);
    ri_cur : time (rs_step_from _ _ r) == cur_time t0 (rs_trace _ _ r);
    ri_n : nsteps (rs_step_from _ _ r) = (n0 + count_acc (rs_trace _ _ r))%nat;
    ri_head : match rs_trace _ _ r with
              | EvAttempt t1' tf dt pow dn :: _ =>
                  rs_dt _ _ r == dn /\ rs_acc _ _ r == pow /\
                  tf == time (rs_step_from _ _ r) /\ t1' == t1 /\
                  time (rs_proposed _ _ r) == tf + dt /\
                  nsteps (rs_proposed _ _ r)
                  = Datatypes.S (nsteps (rs_step_from _ _ r))
              | EvAccept _ :: _ => False
              | _ => rs_acc _ _ r < 1
              end }.

  Definition head_quiet (tr : list event) : Prop :=
    match tr with
    | EvAttempt _ _ _ _ _ :: _ => False
    | EvAccept _ :: _ => False
    | _ => True
    end.

  Record TInv0 (t0 : Q) (n0 : nat) (t : Q) (s : TSt) : Prop := {
    ti_dt : 0 < ts_dt _ _ s;
    ti_ci : CI (ts_control _ _ s);
    ti_ord : time (ts_interp_from _ _ s) <= time (ts_step_from _ _ s);
    ti_J : time (ts_interp_from _ _ s) <= t \/
           time (ts_step_from _ _ s) <= t + eps;
    ti_ev : Forall ev_ok (ts_trace _ _ s);
    ti_chain : chain_ok (ts_trace _ _ s);
    ti_rep : reports_count_ok n0 (ts_trace _ _ s);
    ti_cur : time (ts_step_from _ _ s) == cur_time t0 (ts_trace _ _ s);
    ti_n : nsteps (ts_step_from _ _ s) = (n0 + count_acc (ts_trace _ _ s))%nat }.

  Definition TInv t0 n0 t s := TInv0 t0 n0 t s /\ head_quiet (ts_trace _ _ s).

  Lemma TInv0_mono t0 n0 t t' s : t <= t' -> TInv0 t0 n0 t s -> TInv0 t0 n0 t' s.
  Proof.
    intros Hle [H1 HCI H2 H3 H4 H5 H6 H7 H8]. constructor; auto.
    destruct H3; [left|right]; lra.
  Qed.
  Lemma TInv_mono t0 n0 t t' s : t <= t' -> TInv t0 n0 t s -> TInv t0 n0 t' s.
  Proof. intros Hle [H Hq]. split; auto. eapply TInv0_mono; eauto. Qed.

  Lemma chain_cons e tr :
    chain_ok tr -> (match tr with e2 :: _ => pair_ok e e2 | [] => True end) ->
    chain_ok (e :: tr).
  Proof. destruct tr; unfold chain_ok; fold chain_ok; auto. Qed.

  Lemma init_RInv t0 n0 t1 t (s : TSt) :
    TInv t0 n0 t s -> time (ts_step_from _ _ s) + eps < t1 ->
    RInv t0 n0 t1 (step_init_loopstate s).
  Proof.
    intros [[H1 HCI H2 H3 H4 H5 H6 H7 H8] H9] Hb.
    constructor; simpl; auto.
    destruct (ts_trace _ _ s) as [|e tr]; auto.
    destruct e; simpl in H9; try contradiction; auto.
  Qed.

  Lemma step_attempt_RInv t0 n0 t1 (r : RSt) :
    RInv t0 n0 t1 r -> rs_acc _ _ r < 1 -> RInv t0 n0 t1 (step_attempt t1 r).
  Proof.
    intros [H1 HCI H2 H3 H4 H5 H6 H7 H8] Hacc1.
    unfold Control.step_attempt.
    set (dt := if clip_dt then qmin (rs_dt _ _ r) (t1 - time (rs_step_from _ _ r))
               else rs_dt _ _ r).
    assert (Hdt : 0 < dt /\ dt <= rs_dt _ _ r /\
                  (clip_dt = true -> time (rs_step_from _ _ r) + dt <= t1)).
    { unfold dt. destruct clip_dt.
      - destruct (qmin_spec (rs_dt _ _ r) (t1 - time (rs_step_from _ _ r)))
          as [[Ha Hb]|[Ha Hb]]; rewrite Hb; repeat split; try lra; try (intros _; lra).
      - repeat split; try lra; try (intro; discriminate). }
    destruct Hdt as [Hdt0 [Hdt1 Hdt2]].
    destruct (est _ _ _ _) as [pow es] eqn:Hest.
    destruct (capply dt (rs_control _ _ r) pow) as [dtn c] eqn:Hc.
    pose proof (Hctrl dt (rs_control _ _ r) pow Hdt0 HCI) as [[Hc1 Hc2] [Hc3 Hc4]].
    rewrite Hc in Hc1, Hc2, Hc3, Hc4. simpl in Hc1, Hc2, Hc3, Hc4.
    constructor; cbn -[chain_ok]; auto.
    - nra.
    - constructor; auto. simpl. repeat split; auto; try lra.
      all: try (intro Hp; apply Hc3 in Hp; tauto).
    - apply chain_cons; auto.
      destruct (rs_trace _ _ r) as [|e tr]; auto.
      destruct e; simpl; auto.
      destruct H8 as [Ha [Hb [Hc' [Hd _]]]].
      inversion H3 as [|x l Hev Hrest]; subst. simpl in Hev.
      destruct Hev as [_ [_ [_ [_ Hshr]]]].
      assert (Hp : pow0 < 1) by (rewrite <- Hb; exact Hacc1).
      pose proof (Hshr Hp). repeat split; lra.
    - repeat split; try reflexivity. apply Hstep_time. apply Hstep_n.
  Qed.

  Lemma rej_loop_RInv t0 n0 t1 fuel : forall (r r' : RSt),
      RInv t0 n0 t1 r -> rej_loop fuel t1 r = Some r' ->
      RInv t0 n0 t1 r' /\ 1 <= rs_acc _ _ r'.
  Proof.
    induction fuel as [|f IH]; intros r r' HI H; simpl in H.
    - destruct (qltb _ _) eqn:Hq; [discriminate|]. inversion H; subst.
      apply qltb_false in Hq. auto.
    - destruct (qltb _ _) eqn:Hq.
      + apply qltb_true in Hq. eapply IH; [|exact H].
        apply step_attempt_RInv; auto.
      + inversion H; subst. apply qltb_false in Hq. auto.
  Qed.

  Lemma step_extract_TInv0 t0 n0 t1 (r : RSt) :
    RInv t0 n0 t1 r -> 1 <= rs_acc _ _ r -> TInv0 t0 n0 t1 (step_extract r).
  Proof.
    intros [H1 HCI H2 H3 H4 H5 H6 H7 H8] Hacc1.
    destruct (rs_trace _ _ r) as [|e tr] eqn:Htr; [lra|].
    destruct e; try lra; try contradiction.
    destruct H8 as [Ha [Hb [Hc [Hd [He Hf]]]]].
    inversion H3 as [|x l Hev Hrest]; subst. simpl in Hev.
    destruct Hev as [Hdt0 _].
    constructor; unfold Control.step_extract; simpl; rewrite ?Htr; auto.
    - lra.
    - left. lra.
    - constructor; simpl; auto.
    - split; auto. split; [lra|]. exact He.
    - reflexivity.
    - simpl in *. lia.
  Qed.

  (* RejectionLoop.step *)
  Lemma rstep_TInv0 t0 n0 t t1 fuel (s s' : TSt) :
    TInv t0 n0 t s -> time (ts_step_from _ _ s) + eps < t1 ->
    rstep fuel t1 s = Some s' ->
    TInv0 t0 n0 t1 s' /\
    ts_interp_from _ _ s' = ts_step_from _ _ s /\
    (exists tn, hd (EvSkip 0) (ts_trace _ _ s') = EvAccept tn).
  Proof.
    intros HI Hb H. unfold Control.rstep in H.
    destruct (rej_loop fuel t1 (step_init_loopstate s)) as [r|] eqn:Hr;
      [|discriminate].
    simpl in H. inversion H; subst.
    pose proof (init_RInv _ _ t1 _ _ HI Hb) as HR.
    destruct (rej_loop_RInv _ _ _ _ _ _ HR Hr) as [HR' Hacc1].
    split; [apply step_extract_TInv0; auto|].
    destruct (rej_loop_frame _ _ _ _ Hr) as [F1 _]. simpl in F1.
    split; [exact F1|]. simpl. eauto.
  Qed.

  (* solution time / step count returned by one call of loop, per branch *)
  Definition sol_ok (t1 : Q) (sol : S) (s' : TSt) : Prop :=
    match ts_trace _ _ s' with
    | EvSkip _ :: _ => time (ts_step_from _ _ s') + eps < t1
    | EvBeyond _ _ _ :: _ =>
        time sol == t1 /\ ~ (time (ts_step_from _ _ s') + eps < t1) /\
        nsteps sol = nsteps (ts_step_from _ _ s')
    | EvAt _ _ _ :: _ =>
        t1 - eps <= time sol <= t1 + eps /\
        ~ (time (ts_step_from _ _ s') + eps < t1) /\
        nsteps sol = nsteps (ts_step_from _ _ s')
    | _ => False
    end.

  Lemma interp_branches t0 n0 t1 (s : TSt) sol s' :
    TInv0 t0 n0 t1 s ->
    (match ts_trace _ _ s with
     | EvAttempt _ _ _ _ _ :: _ => False | _ => True end) ->
    (let is_before := qltb (time (ts_step_from _ _ s) + eps) t1 in
     let is_after := qltb (t1 + eps) (time (ts_step_from _ _ s)) in
     if is_before then interp_skip S E t1 s
     else if is_after then interp_beyond S E time interp t1 s
          else interp_at_t1 S E time interp_at t1 s) = (sol, s') ->
    TInv t0 n0 t1 s' /\ sol_ok t1 sol s'.
  Proof.
    intros [H1 HCI H2 H3 H4 H5 H6 H7 H8] Hhd. cbv zeta.
    assert (Hch : forall e, (match e with EvSkip _ | EvBeyond _ _ _ | EvAt _ _ _ => True
                                     | _ => False end) ->
                       chain_ok (e :: ts_trace _ _ s)).
    { intros e He. apply chain_cons; auto.
      destruct (ts_trace _ _ s) as [|e2 tr]; auto.
      destruct e; try contradiction; destruct e2; simpl; auto. }
    destruct (qltb (time (ts_step_from _ _ s) + eps) t1) eqn:Hb.
    - (* skip *)
      apply qltb_true in Hb. unfold interp_skip. intro H. inversion H; subst.
      unfold sol_ok; simpl. split; [split; [constructor; simpl; auto|simpl; auto]|auto].
      constructor; simpl; auto.
    - apply qltb_false in Hb.
      destruct (qltb (t1 + eps) (time (ts_step_from _ _ s))) eqn:Ha.
      + (* beyond *)
        apply qltb_true in Ha. unfold interp_beyond.
        pose proof (Hinterp t1 (ts_interp_from _ _ s) (ts_step_from _ _ s))
          as [I1 [I2 [I3 [I4 I5]]]].
        destruct (interp t1 _ _) as [sol0 [sf ifr]]. simpl in I1, I2, I3, I4, I5.
        intro H. inversion H; subst.
        assert (Hlo : time (ts_interp_from _ _ s) <= t1) by (destruct H3; lra).
        unfold sol_ok; simpl.
        split; [split; [constructor; simpl; auto|simpl; auto]|].
        * lra.
        * left; lra.
        * constructor; auto. simpl. split; lra.
        * rewrite I2. exact H7.
        * rewrite I5. exact H8.
        * split; [exact I1|]. split; [lra|]. congruence.
      + (* at *)
        apply qltb_false in Ha. unfold interp_at_t1.
        pose proof (Hinterp_at t1 (ts_interp_from _ _ s) (ts_step_from _ _ s))
          as [I1 [I2 [I3 [I4 I5]]]].
        destruct (interp_at t1 _ _) as [sol0 [sf ifr]]. simpl in I1, I2, I3, I4, I5.
        intro H. inversion H; subst.
        unfold sol_ok; simpl.
        split; [split; [constructor; simpl; auto|simpl; auto]|].
        * lra.
        * right; lra.
        * constructor; auto. simpl. split; lra.
        * rewrite I2. exact H7.
        * rewrite I5. exact H8.
        * split; [lra|]. split; [lra|]. congruence.
  Qed.

  Lemma loop_TInv t0 n0 t1 fuel (s : TSt) sol s' :
    TInv t0 n0 t1 s -> loop fuel t1 s = Some (sol, s') ->
    TInv t0 n0 t1 s' /\ sol_ok t1 sol s'.
  Proof.
    intros HI H. unfold Control.loop in H.
    destruct (qltb (time (ts_step_from _ _ s) + eps) t1) eqn:Hb.
    - apply qltb_true in Hb.
      destruct (rstep fuel t1 s) as [s1|] eqn:Hs; [|discriminate].
      destruct (rstep_TInv0 _ _ _ _ _ _ _ HI Hb Hs) as [HI1 [_ [tn Hhd]]].
      inversion H as [H']. eapply interp_branches; eauto.
      destruct (ts_trace _ _ s1) as [|e tr]; auto. simpl in Hhd. subst e. auto.
    - inversion H as [H']. destruct HI as [HI0 Hq].
      eapply interp_branches; eauto.
      destruct (ts_trace _ _ s) as [|e tr]; auto. destruct e; auto.
  Qed.

  Lemma advance_TInv t0 n0 t1 fuel fr : forall (s : TSt) sol s',
    TInv t0 n0 t1 s -> advance fuel fr t1 s = Some (sol, s') ->
    TInv t0 n0 t1 s' /\ t1 - eps <= time sol <= t1 + eps /\
    (exists ts n r, ts_trace _ _ s' = EvReport t1 ts n :: r /\ ts == time sol).
  Proof.
    induction fuel as [|f IH]; intros s sol s' HI H; simpl in H; [discriminate|].
    destruct (loop fr t1 s) as [[sol1 s1]|] eqn:Hl; [|discriminate].
    destruct (loop_TInv _ _ _ _ _ _ _ HI Hl) as [HI1 Hsol].
    destruct (qltb (time (ts_step_from _ _ s1) + eps) t1) eqn:Hb.
    - eapply IH; eauto.
    - apply qltb_false in Hb. inversion H; subst. clear H.
      unfold sol_ok in Hsol. destruct HI1 as [[H1 HCI H2 H3 H4 H5 H6 H7 H8] H9].
      assert (Hs : t1 - eps <= time sol <= t1 + eps /\
                   nsteps sol = nsteps (ts_step_from _ _ s1)).
      { destruct (ts_trace _ _ s1) as [|e tr]; [contradiction|].
        destruct e; try contradiction; try lra.
        - destruct Hsol as [Ha [_ Hn]]. split; [lra|exact Hn].
        - destruct Hsol as [Ha [_ Hn]]. split; [lra|exact Hn]. }
      destruct Hs as [Hs Hn].
      split; [|split; [exact Hs|simpl; eexists _, _, _; split; reflexivity]].
      split; [constructor; simpl; auto|simpl; auto].
      + apply chain_cons; auto. destruct (ts_trace _ _ s1) as [|e tr]; auto.
        destruct e; simpl; auto.
      + split; auto. rewrite Hn. exact H8.
  Qed.

  (* -------------------------------------------- reports are not invented *)
  Lemma step_attempt_reports t1 (r : RSt) :
    reports (rs_trace _ _ (step_attempt t1 r)) = reports (rs_trace _ _ r).
  Proof.
    unfold Control.step_attempt.
    destruct (est _ _ _ _) as [pow es]. destruct (capply _ _ _) as [dtn c].
    reflexivity.
  Qed.

  Lemma rej_loop_reports fuel t1 : forall (r r' : RSt),
      rej_loop fuel t1 r = Some r' ->
      reports (rs_trace _ _ r') = reports (rs_trace _ _ r).
  Proof.
    induction fuel as [|f IH]; intros r r' H; simpl in H.
    - destruct (qltb _ _); [discriminate|]. inversion H; auto.
    - destruct (qltb _ _).
      + apply IH in H. rewrite H. apply step_attempt_reports.
      + inversion H; auto.
  Qed.

  Lemma loop_reports fuel t1 (s : TSt) sol s' :
    loop fuel t1 s = Some (sol, s') ->
    reports (ts_trace _ _ s') = reports (ts_trace _ _ s).
  Proof.
    unfold Control.loop. intro H.
    assert (Hs1 : forall s1 : TSt,
               (if qltb (time (ts_step_from _ _ s) + eps) t1
                then rstep fuel t1 s else Some s) = Some s1 ->
               reports (ts_trace _ _ s1) = reports (ts_trace _ _ s)).
    { intros s1 H1. destruct (qltb _ _); [|inversion H1; auto].
      unfold Control.rstep in H1.
      destruct (rej_loop fuel t1 (step_init_loopstate s)) as [r|] eqn:Hr;
        [|discriminate].
      simpl in H1. inversion H1; subst. simpl.
      apply rej_loop_reports in Hr. exact Hr. }
    destruct (if qltb (time (ts_step_from _ _ s) + eps) t1
              then rstep fuel t1 s else Some s) as [s1|]; [|discriminate].
    specialize (Hs1 s1 eq_refl). rewrite <- Hs1.
    inversion H as [H']. clear H.
    destruct (qltb (time (ts_step_from _ _ s1) + eps) t1).
    - unfold interp_skip in H'. inversion H'; subst; reflexivity.
    - destruct (qltb (t1 + eps) (time (ts_step_from _ _ s1))).
      + unfold interp_beyond in H'. destruct (interp t1 _ _) as [a [b c]].
        inversion H'; subst; reflexivity.
      + unfold interp_at_t1 in H'. destruct (interp_at t1 _ _) as [a [b c]].
        inversion H'; subst; reflexivity.
  Qed.

  Lemma advance_reports fuel fr t1 : forall (s : TSt) sol s',
      advance fuel fr t1 s = Some (sol, s') ->
      reports (ts_trace _ _ s') = t1 :: reports (ts_trace _ _ s).
  Proof.
    induction fuel as [|f IH]; intros s sol s' H; simpl in H; [discriminate|].
    destruct (loop fr t1 s) as [[sol1 s1]|] eqn:Hl; [|discriminate].
    apply loop_reports in Hl.
    destruct (qltb _ _).
    - apply IH in H. congruence.
    - inversion H; subst. simpl. congruence.
  Qed.

  Fixpoint sorted_from (t : Q) (cps : list Q) : Prop :=
    match cps with [] => True | c :: r => t <= c /\ sorted_from c r end.

  Lemma scan_TInv t0 n0 fuel fr : forall cps t (s : TSt) sols s',
    TInv t0 n0 t s -> sorted_from t cps ->
    scan fuel fr cps s = Some (sols, s') ->
    (exists t', TInv t0 n0 t' s') /\
    Forall2 (fun sol c => c - eps <= time sol <= c + eps) sols cps /\
    reports (ts_trace _ _ s') = rev cps ++ reports (ts_trace _ _ s).
  Proof.
    induction cps as [|c cps IH]; intros t s sols s' HI Hs H; simpl in H.
    - inversion H; subst. split; [eauto|]. split; [constructor|reflexivity].
    - destruct Hs as [Hle Hs].
      destruct (advance fuel fr c s) as [[sol s1]|] eqn:Ha; [|discriminate].
      destruct (scan fuel fr cps s1) as [[sols1 s2]|] eqn:Hsc; [|discriminate].
      inversion H; subst. clear H.
      pose proof (TInv_mono _ _ _ _ _ Hle HI) as HI'.
      destruct (advance_TInv _ _ _ _ _ _ _ _ HI' Ha) as [HI1 [Hsol _]].
      destruct (IH c s1 sols1 s' HI1 Hs Hsc) as [HI2 [HF Hrep]].
      split; [exact HI2|]. split; [constructor; auto|].
      rewrite Hrep. rewrite (advance_reports _ _ _ _ _ _ Ha).
      simpl. rewrite <- app_assoc. reflexivity.
  Qed.

  Lemma init_TInv (s0 : S) dt0 t :
    0 < dt0 -> time s0 <= t ->
    TInv (time s0) (nsteps s0) t (ts_init S E cinit einit s0 dt0).
  Proof.
    intros Hdt Ht. split; [constructor|]; simpl; auto; try lra. reflexivity.
  Qed.

  (* ====================================================================
     Main theorems about a complete run of solve_adaptive_save_at.
     save_at = t0 :: cps (sorted), dt0 > 0, fuel sufficient (Some). *)
  Section Run.
    Variables (fuel fr : nat) (s0 : S) (dt0 : Q) (cps : list Q).
    Variables (sols : list S) (sN : TSt).
    Hypothesis Hdt0 : 0 < dt0.
    Hypothesis Hsorted : sorted_from (time s0) cps.
    Hypothesis Hrun : run fuel fr s0 dt0 cps = Some (sols, sN).

    Let tr := ts_trace _ _ sN.

    Lemma run_inv : exists t', TInv (time s0) (nsteps s0) t' sN.
    Proof.
      destruct cps as [|c r] eqn:Hc.
      - unfold Control.run in Hrun. simpl in Hrun. inversion Hrun; subst.
        exists (time s0). apply init_TInv; auto. lra.
      - assert (HI : TInv (time s0) (nsteps s0) (time s0)
                          (ts_init S E cinit einit s0 dt0))
          by (apply init_TInv; auto; lra).
        destruct (scan_TInv _ _ _ _ _ _ _ _ _ HI Hsorted Hrun) as [H _]. exact H.
    Qed.

    (* T06.1: time advances only through accepted attempts *)
    Theorem time_advances_only_by_accepted_attempts :
      chain_ok tr /\ time (ts_step_from _ _ sN) == cur_time (time s0) tr.
    Proof.
      destruct run_inv as [t' [[H1 HCI H2 H3 H4 H5 H6 H7 H8] _]]. auto.
    Qed.

    (* T06.2/3/4/6: every event satisfies its local safety condition *)
    Theorem every_event_is_safe : Forall ev_ok tr.
    Proof.
      destruct run_inv as [t' [[H1 HCI H2 H3 H4 H5 H6 H7 H8] _]]. auto.
    Qed.

    (* T06.5: every checkpoint reported exactly once, in order, at its time *)
    Theorem every_checkpoint_reported_once_in_order :
      Forall2 (fun sol c => c - eps <= time sol <= c + eps) sols cps /\
      rev (reports tr) = cps.
    Proof.
      assert (HI : TInv (time s0) (nsteps s0) (time s0)
                        (ts_init S E cinit einit s0 dt0))
        by (apply init_TInv; auto; lra).
      destruct (scan_TInv _ _ _ _ _ _ _ _ _ HI Hsorted Hrun) as [_ [HF Hr]].
      split; auto. unfold tr. rewrite Hr. simpl. rewrite app_nil_r.
      apply rev_involutive.
    Qed.

    (* T06.7: reported step counts = number of accepted attempts so far *)
    Theorem step_count_is_number_of_accepted_attempts :
      reports_count_ok (nsteps s0) tr /\
      nsteps (ts_step_from _ _ sN) = (nsteps s0 + count_acc tr)%nat.
    Proof.
      destruct run_inv as [t' [[H1 HCI H2 H3 H4 H5 H6 H7 H8] _]]. auto.
    Qed.
  End Run.
End Proofs.

(* ---------------------------------------------------------------- controllers *)
Section Controllers.
  Variable p : ctrl_params.
  Hypothesis Hfmin : 0 < cp_fmin p.
  Hypothesis Hfmin1 : cp_fmin p < 1.
  Hypothesis Hfmax : cp_fmin p <= cp_fmax p.
  Hypothesis Hsafe0 : 0 < cp_safety p.
  Hypothesis Hsafe1 : cp_safety p <= 1.

  Lemma clip_factor_bounds r :
    cp_fmin p <= clip_factor p r <= cp_fmax p.
  Proof.
    unfold clip_factor.
    destruct (qmin_spec r (cp_fmax p)) as [[A B]|[A B]]; rewrite B.
    - destruct (qmax_spec (cp_fmin p) r) as [[C D]|[C D]]; rewrite D; lra.
    - destruct (qmax_spec (cp_fmin p) (cp_fmax p)) as [[C D]|[C D]]; rewrite D; lra.
  Qed.

  Lemma clip_factor_lt1 r : r < 1 -> clip_factor p r < 1.
  Proof.
    intro Hr. unfold clip_factor.
    destruct (qmin_spec r (cp_fmax p)) as [[A B]|[A B]]; rewrite B;
    [destruct (qmax_spec (cp_fmin p) r) as [[C D]|[C D]]
    |destruct (qmax_spec (cp_fmin p) (cp_fmax p)) as [[C D]|[C D]]];
    rewrite D; lra.
  Qed.

  (* control_integral satisfies the controller contract *)
  Theorem integral_contract dt c pow : 0 < dt ->
    cp_fmin p * dt <= fst (integral_apply p dt c pow) <= cp_fmax p * dt /\
    (pow < 1 -> fst (integral_apply p dt c pow) < dt /\
                snd (integral_apply p dt c pow) = c).
  Proof.
    intro Hdt. unfold integral_apply. simpl.
    pose proof (clip_factor_bounds (cp_safety p * pow)) as [B1 B2].
    split; [split; nra|]. intro Hp. split; auto.
    assert (cp_safety p * pow < 1) by nra.
    pose proof (clip_factor_lt1 _ H). nra.
  Qed.

  (* control_proportional_integral, for ANY power function that maps
     [0,1) x exponents into [0,1] (x ** e with e >= 0 does), with safety < 1,
     and a memory that is >= 1 (it starts at 1 and is only overwritten by
     error powers >= 1, see pi_memory below) *)
  Variable pw : Q -> Q -> Q.
  Hypothesis Hpw : forall x e, x < 1 -> 0 <= pw x e <= 1.
  Hypothesis HsafeS : cp_safety p < 1.

  Theorem pi_contract dt prev pow : 0 < dt -> 1 <= prev ->
    cp_fmin p * dt <= fst (pi_apply pw p dt prev pow) <= cp_fmax p * dt /\
    (pow < 1 -> fst (pi_apply pw p dt prev pow) < dt /\
                snd (pi_apply pw p dt prev pow) = prev) /\
    1 <= snd (pi_apply pw p dt prev pow).
  Proof.
    intros Hdt Hprev. unfold pi_apply. cbv zeta. simpl.
    pose proof (clip_factor_bounds
      (cp_safety p * pw pow (cp_eI p) * pw (pow / prev) (cp_eP p))) as [B1 B2].
    split; [split; nra|]. split.
    - intro Hp. destruct (Qle_bool 1 pow) eqn:Hb.
      + apply Qle_bool_iff in Hb. lra.
      + split; auto.
        pose proof (Hpw pow (cp_eI p) Hp) as [G1 G2].
        assert (Hq : pow / prev < 1).
        { apply Qlt_shift_div_r; lra. }
        pose proof (Hpw _ (cp_eP p) Hq) as [G3 G4].
        set (a := pw pow (cp_eI p)) in *. set (b := pw (pow / prev) (cp_eP p)) in *.
        assert (Hab0 : 0 <= a * b) by nra.
        assert (Hab1 : a * b <= 1) by nra.
        assert (H : cp_safety p * a * b < 1).
        { setoid_replace (cp_safety p * a * b) with (cp_safety p * (a * b)) by ring.
          nra. }
        pose proof (clip_factor_lt1 _ H). nra.
    - destruct (Qle_bool 1 pow) eqn:Hb; auto. apply Qle_bool_iff in Hb. auto.
  Qed.
End Controllers.
