(* C05: without clipping, the accepted step sequence (step sizes, forward part of
   the solver state, controller memory, error-estimator state) does not depend on
   which checkpoints are requested.  Machine: Model/Control.v; the solver's state
   is split into a FORWARD part [fwd s] (everything a step / error estimate
   reads, including the time) and the rest (what interpolation rewires: backward
   models, interp_from). *)
From Coq Require Import List QArith Bool Lqa Lia.
From PD Require Import Model.Control Proofs.ControlProofs.
Import ListNotations.
Local Open Scope Q_scope.

Section Sim.
  Variable S E X : Type.
  Variable time : S -> Q.
  Variable nsteps : S -> nat.
  Variable sstep : S -> Q -> S.
  Variable est : E -> S -> S -> Q -> Q * E.
  Variable interp interp_at : Q -> S -> S -> S * (S * S).
  Variable capply : Q -> Q -> Q -> Q * Q.
  Variable eps acc_init : Q.

  Variable fwd : S -> X.
  Variable ftime : X -> Q.
  Variable fstep : X -> Q -> X.
  Variable fest : E -> X -> X -> Q -> Q * E.

  Hypothesis Hf_time : forall s, time s = ftime (fwd s).
  Hypothesis Hf_step : forall s dt, fwd (sstep s dt) = fstep (fwd s) dt.
  Hypothesis Hf_est : forall e a b dt, est e a b dt = fest e (fwd a) (fwd b) dt.
  Hypothesis Hf_interp : forall t a b, fwd (fst (snd (interp t a b))) = fwd b.
  Hypothesis Hf_interp_at : forall t a b, fwd (fst (snd (interp_at t a b))) = fwd b.

  Notation TSt := (TS S E).
  Notation RSt := (RS S E).
  (* clip_dt = false throughout *)
  Notation step_attempt := (step_attempt S E time sstep est capply false).
  Notation rej_loop := (rej_loop S E time sstep est capply false).
  Notation rstep := (rstep S E time sstep est capply false acc_init).
  Notation loop := (loop S E time sstep est interp interp_at capply false eps acc_init).
  Notation advance := (advance S E time nsteps sstep est interp interp_at capply false eps acc_init).

  (* the abstract (checkpoint-independent) part of the loop state *)
  Definition absT (s : TSt) : Q * X * Q * E :=
    (ts_dt _ _ s, fwd (ts_step_from _ _ s), ts_control _ _ s, ts_err _ _ s).
  Definition absR (r : RSt) : Q * Q * Q * X * X * E * E :=
    (rs_dt _ _ r, rs_acc _ _ r, rs_control _ _ r, fwd (rs_proposed _ _ r),
     fwd (rs_step_from _ _ r), rs_err_step_from _ _ r, rs_err_proposed _ _ r).

  Lemma step_attempt_abs t1 t1' (r r' : RSt) :
    absR r = absR r' -> absR (step_attempt t1 r) = absR (step_attempt t1' r').
  Proof.
    unfold absR. intro H. inversion H as [[H1 H2 H3 H4 H5 H6 H7]].
    unfold Control.step_attempt.
    rewrite !Hf_est, !Hf_step. rewrite H1, H3, H5, H6.
    destruct (fest _ _ _ _) as [pow es]. destruct (capply _ _ _) as [dtn c]. cbn.
    rewrite !Hf_step. rewrite H5. reflexivity.
  Qed.

  Lemma rej_loop_abs fuel : forall t1 t1' (r r' : RSt),
    absR r = absR r' ->
    match rej_loop fuel t1 r, rej_loop fuel t1' r' with
    | Some x, Some x' => absR x = absR x'
    | None, None => True
    | _, _ => False
    end.
  Proof.
    induction fuel as [|f IH]; intros t1 t1' r r' H; simpl.
    - assert (Ha : rs_acc _ _ r = rs_acc _ _ r') by (unfold absR in H; inversion H; auto).
      rewrite Ha. destruct (qltb _ _); auto.
    - assert (Ha : rs_acc _ _ r = rs_acc _ _ r') by (unfold absR in H; inversion H; auto).
      rewrite Ha. destruct (qltb _ _); auto.
      apply IH. apply step_attempt_abs. exact H.
  Qed.

  Lemma rstep_abs fuel t1 t1' (s s' : TSt) :
    absT s = absT s' ->
    match rstep fuel t1 s, rstep fuel t1' s' with
    | Some x, Some x' => absT x = absT x'
    | None, None => True
    | _, _ => False
    end.
  Proof.
    intro H. unfold Control.rstep.
    assert (HR : absR (step_init_loopstate S E acc_init s) = absR (step_init_loopstate S E acc_init s')).
    { unfold absT in H. inversion H as [[H1 H2 H3 H4]].
      unfold absR, step_init_loopstate; cbn. rewrite H1, H2, H3, H4. reflexivity. }
    pose proof (rej_loop_abs fuel t1 t1' _ _ HR) as HL.
    destruct (rej_loop fuel t1 _) as [x|]; destruct (rej_loop fuel t1' _) as [x'|]; simpl; auto.
    unfold absR in HL. inversion HL as [[H1 H2 H3 H4 H5 H6 H7]].
    unfold absT, step_extract; cbn. rewrite H1, H3, H4, H7. reflexivity.
  Qed.

  Definition before (t : Q) (s : TSt) : bool := qltb (time (ts_step_from _ _ s) + eps) t.

  Lemma before_abs t (s s' : TSt) : absT s = absT s' -> before t s = before t s'.
  Proof.
    unfold absT, before. intro H. inversion H as [[H1 H2 H3 H4]].
    rewrite !Hf_time. rewrite H2. reflexivity.
  Qed.

  (* one call of loop: at most one accepted step on the abstract level, and the
     interpolation branches do not change the abstract state *)
  Lemma loop_abs fuel t (s s1 : TSt) sol :
    loop fuel t s = Some (sol, s1) ->
    (before t s = true /\ exists sm, rstep fuel t s = Some sm /\ absT s1 = absT sm) \/
    (before t s = false /\ absT s1 = absT s).
  Proof.
    unfold Control.loop. fold (before t s).
    assert (Hint : forall sm : TSt,
               (if before t sm then interp_skip S E t sm
                else if qltb (t + eps) (time (ts_step_from _ _ sm))
                     then interp_beyond S E time interp t sm
                     else interp_at_t1 S E time interp_at t sm) = (sol, s1) ->
               absT s1 = absT sm).
    { intros sm. destruct (before t sm).
      - unfold interp_skip. intro H. inversion H; subst. reflexivity.
      - destruct (qltb _ _).
        + unfold interp_beyond.
          pose proof (Hf_interp t (ts_interp_from _ _ sm) (ts_step_from _ _ sm)) as Hi.
          destruct (interp t _ _) as [so [sf ifr]]. cbn in Hi.
          intro H. inversion H; subst. unfold absT; cbn. rewrite Hi. reflexivity.
        + unfold interp_at_t1.
          pose proof (Hf_interp_at t (ts_interp_from _ _ sm) (ts_step_from _ _ sm)) as Hi.
          destruct (interp_at t _ _) as [so [sf ifr]]. cbn in Hi.
          intro H. inversion H; subst. unfold absT; cbn. rewrite Hi. reflexivity. }
    destruct (before t s) eqn:Hb.
    - destruct (rstep fuel t s) as [sm|] eqn:Hs; [|discriminate].
      intro H. inversion H as [H']. left. split; [reflexivity|]. exists sm. split; [reflexivity|].
      apply Hint. unfold before. exact H'.
    - intro H. inversion H as [H']. right. split; [reflexivity|].
      apply Hint. unfold before. exact H'.
  Qed.

  (* advance returns with the reported trace event added only *)
  Lemma advance_unfold fuel fr t (s : TSt) sol se :
    advance (Datatypes.S fuel) fr t s = Some (sol, se) ->
    exists sol1 s1, loop fr t s = Some (sol1, s1) /\
      ((before t s1 = true /\ advance fuel fr t s1 = Some (sol, se)) \/
       (before t s1 = false /\ absT se = absT s1)).
  Proof.
    simpl. destruct (loop fr t s) as [[sol1 s1]|] eqn:Hl; [|discriminate].
    fold (before t s1). intro H. exists sol1, s1. split; auto.
    destruct (before t s1).
    - left. auto.
    - right. split; auto. inversion H; subst. reflexivity.
  Qed.

  (* determinism with respect to the abstract state (any two fuels) *)
  Lemma advance_abs_det fr t : forall fuel fuel' (s s' : TSt) sol sol' e e',
    absT s = absT s' ->
    advance fuel fr t s = Some (sol, e) -> advance fuel' fr t s' = Some (sol', e') ->
    absT e = absT e'.
  Proof.
    induction fuel as [|f IH]; intros fuel' s s' sol sol' e e' Habs H H'; [discriminate|].
    destruct fuel' as [|f']; [discriminate|].
    apply advance_unfold in H. destruct H as [so1 [s1 [Hl Hc]]].
    apply advance_unfold in H'. destruct H' as [so1' [s1' [Hl' Hc']]].
    assert (Habs1 : absT s1 = absT s1').
    { apply loop_abs in Hl. apply loop_abs in Hl'.
      rewrite (before_abs t s s' Habs) in Hl.
      destruct Hl as [[Hb [sm [Hs Ha]]]|[Hb Ha]]; destruct Hl' as [[Hb' [sm' [Hs' Ha']]]|[Hb' Ha']];
        try congruence.
      pose proof (rstep_abs fr t t s s' Habs) as HR. rewrite Hs, Hs' in HR. congruence. }
    rewrite (before_abs t s1 s1' Habs1) in Hc.
    destruct Hc as [[Hb Hr]|[Hb Ha]]; destruct Hc' as [[Hb' Hr']|[Hb' Ha']]; try congruence.
    eapply IH; eauto.
  Qed.

  Hypothesis Heps : 0 <= eps.

  (* inserting an earlier checkpoint t' <= t does not change the abstract state
     reached at t *)
  Theorem checkpoint_insertion fr t' t : t' <= t ->
    forall fuel1 fuel2 fuel3 (s sb s1 s2 s3 : TSt) so1 so2 so3,
    absT s = absT sb ->
    advance fuel1 fr t' s = Some (so1, s1) ->
    advance fuel2 fr t s1 = Some (so2, s2) ->
    advance fuel3 fr t sb = Some (so3, s3) ->
    absT s2 = absT s3.
  Proof.
    intro Hle.
    induction fuel1 as [|f1 IH]; intros fuel2 fuel3 s sb s1 s2 s3 so1 so2 so3 Habs H1 H2 H3; [discriminate|].
    apply advance_unfold in H1. destruct H1 as [soa [sa [Hla Hca]]].
    pose proof (loop_abs _ _ _ _ _ Hla) as HLa.
    destruct HLa as [[Hb [sm [Hs Ha]]]|[Hb Ha]].
    - (* the first loop (towards t') takes a step: so does the first loop towards t *)
      assert (Hbt : before t sb = true).
      { rewrite <- (before_abs t s sb Habs). unfold before in *.
        apply qltb_true in Hb. apply qltb_true. lra. }
      destruct fuel3 as [|f3]; [discriminate|].
      apply advance_unfold in H3. destruct H3 as [sob [sb1 [Hlb Hcb]]].
      pose proof (loop_abs _ _ _ _ _ Hlb) as HLb.
      destruct HLb as [[Hbb [smb [Hsb Hab]]]|[Hbb Hab]]; [|congruence].
      assert (Habs1 : absT sa = absT sb1).
      { pose proof (rstep_abs fr t' t s sb Habs) as HR. rewrite Hs, Hsb in HR. congruence. }
      destruct Hca as [[Hba Hra]|[Hba Haa]].
      + (* still before t' (hence before t): recurse *)
        assert (Hbt1 : before t sb1 = true).
        { rewrite <- (before_abs t sa sb1 Habs1). unfold before in *.
          apply qltb_true in Hba. apply qltb_true. lra. }
        destruct Hcb as [[Hbb1 Hrb]|[Hbb1 _]]; [|congruence].
        eapply IH; eauto.
      + (* reached t': the run towards t continues from s1 ~ sa ~ sb1 *)
        assert (Habs2 : absT s1 = absT sb1) by congruence.
        destruct Hcb as [[Hbb1 Hrb]|[Hbb1 Hab1]].
        * eapply advance_abs_det; eauto.
        * (* already at t as well: the second run does not step *)
          destruct fuel2 as [|f2]; [discriminate|].
          apply advance_unfold in H2. destruct H2 as [soc [sc [Hlc Hcc]]].
          pose proof (loop_abs _ _ _ _ _ Hlc) as HLc.
          rewrite (before_abs t s1 sb1 Habs2) in HLc.
          destruct HLc as [[Hbc _]|[Hbc Hac]]; [congruence|].
          assert (Hbsc : before t sc = false) by (rewrite (before_abs t sc s1 Hac), (before_abs t s1 sb1 Habs2); exact Hbb1).
          destruct Hcc as [[Hx _]|[_ Hac2]]; [congruence|]. congruence.
    - (* no step towards t': s1 ~ s ~ sb *)
      assert (Hbsa : before t' sa = false) by (rewrite (before_abs t' sa s Ha); exact Hb).
      destruct Hca as [[Hx _]|[_ Haa]]; [congruence|].
      assert (Habs2 : absT s1 = absT sb) by congruence.
      eapply advance_abs_det; eauto.
  Qed.
End Sim.
