(* Proofs for C10 (Model/Jet.v vs Spec/ODESeries.v).

   Part 1  list / series toolbox
   Part 2  T10.1 uniqueness of the formal power-series solution; existence: the
           recursion of Spec/ODESeries.v computes a formal solution
   Part 3  T10.2 the unroll and padded-scan models return the derivatives of
           the formal solution (every polynomial field, order k >= 1, num)
   Part 4  polynomial arithmetic of the recursive-JVP model is sound for series
           composition; T10.3 jetexpand_ode_via_jvp as coded now (t as one more
           primal with tangent 1) is correct for every field; the routine before
           that repair (t closed over) is correct for autonomous fields only;
           T10.5 agreement
   Part 6  first-order Taylor expansion of a composition modulo tau^(2 deg);
           T10.4 the Newton-doubling model is correct for autonomous
           first-order fields
   Part 7  ravel / unravel bookkeeping of the pytree wrapper
   Part 5  refutations at Qc (time-dependent witness) for via_jvp and doubling;
           examples showing that the hypotheses are satisfiable *)
From Coq Require Import List Arith Lia Bool ZArith QArith Qcanon Field Ring Setoid Morphisms.
From PD Require Import Base.Field Base.Matrix Model.Poly Base.Series Spec.ODESeries Model.Jet.
Import ListNotations.
Local Close Scope Qc_scope.
Local Close Scope Q_scope.
Local Open Scope nat_scope.

Section JetProofs.
  Context {F : Type} `{FL : FieldLaws F}.
  Local Open Scope F_scope.
  Add Field FJet : fth.
  Add Ring FSringJ : fs_ring_theory.
  Local Notation fs := (@fs F).
  Local Notation series := (@series F).
  Local Notation poly := (@poly F).
  Local Notation vfield := (@vfield F).
  Local Notation tvec := (list F).
  Local Infix "==" := fs_eq (at level 70).

  (* ================================================== Part 1: toolbox *)
  Lemma Forall2_map_seq {A B} (R : A -> B -> Prop) (g : nat -> A) (h : nat -> B) s n :
    (forall i, s <= i < s + n -> R (g i) (h i)) ->
    Forall2 R (map g (seq s n)) (map h (seq s n)).
  Proof.
    revert s. induction n as [|n IH]; intros s E; simpl; constructor.
    - apply E. lia.
    - apply IH. intros i Hi. apply E. lia.
  Qed.

  Lemma list_eq_nth {A} (d : A) (l1 l2 : list A) :
    length l1 = length l2 -> (forall i, i < length l1 -> nth i l1 d = nth i l2 d) -> l1 = l2.
  Proof.
    revert l2. induction l1 as [|x l1 IH]; intros [|y l2] Hl E; simpl in Hl; try discriminate.
    - reflexivity.
    - f_equal.
      + apply (E 0%nat). simpl. lia.
      + apply IH; [lia|]. intros i Hi. apply (E (S i)). simpl. lia.
  Qed.

  Lemma nth_map_seq {A} (g : nat -> A) d s n i : i < n -> nth i (map g (seq s n)) d = g (s + i)%nat.
  Proof.
    intro Hi. rewrite (nth_indep _ d (g 0%nat)) by (rewrite map_length, seq_length; exact Hi).
    rewrite map_nth. rewrite seq_nth by exact Hi. reflexivity.
  Qed.

  Lemma map_nth_seq {A B} (g : A -> B) (l : list A) (d : A) :
    map g l = map (fun i => g (nth i l d)) (seq 0 (length l)).
  Proof.
    apply (list_eq_nth (g d)).
    - rewrite !map_length, seq_length. reflexivity.
    - intros i Hi. rewrite map_length in Hi. rewrite nth_map_seq by exact Hi.
      rewrite map_nth. reflexivity.
  Qed.

  Lemma seq_as_map s n : seq s n = map (fun b => (s + b)%nat) (seq 0 n).
  Proof.
    revert s. induction n as [|n IH]; intro s; [reflexivity|].
    simpl. f_equal; [lia|]. rewrite <- (seq_shift n 0), map_map. rewrite (IH (S s)).
    apply map_ext. intro b. lia.
  Qed.

  (* flat_map over (j, b) = map over idx = j*d + b *)
  Lemma flat_map_seq_divmod {A} (g : nat -> nat -> A) k d :
    flat_map (fun j => map (g j) (seq 0 d)) (seq 0 k)
    = map (fun idx => g (idx / d)%nat (idx mod d)%nat) (seq 0 (k * d)).
  Proof.
    destruct d as [|d'].
    - rewrite Nat.mul_0_r. simpl. induction (seq 0 k); simpl; [reflexivity|assumption].
    - set (d := S d'). induction k as [|k IH]; [reflexivity|].
      rewrite seq_S, flat_map_app, IH. cbn [flat_map]. rewrite app_nil_r.
      replace (S k * d)%nat with (k * d + d)%nat by lia.
      rewrite seq_app, map_app. f_equal.
      rewrite !Nat.add_0_l. rewrite (seq_as_map (k * d) d). rewrite map_map. apply map_ext_in. intros b Hb. apply in_seq in Hb.
      replace (k * d + b)%nat with (b + k * d)%nat by lia.
      rewrite Nat.div_add by (unfold d; discriminate).
      rewrite Nat.mod_add by (unfold d; discriminate).
      rewrite Nat.div_small by lia. rewrite Nat.mod_small by lia. reflexivity.
  Qed.

  (* ---- factorials, rising factorials, iterated derivative ---- *)
  Lemma fnat_1 : fnat 1 = (1 : F).
  Proof. reflexivity. Qed.

  Lemma rise_ffact n j : rise n j * ffact n = (ffact (n + j) : F).
  Proof.
    revert n. induction j as [|j IH]; intro n.
    - simpl. rewrite Nat.add_0_r. ring.
    - simpl rise. replace (n + S j)%nat with (S n + j)%nat by lia. rewrite <- IH.
      simpl ffact. ring.
  Qed.
  Lemma rise_0 j : rise 0 j = (ffact j : F).
  Proof. pose proof (rise_ffact 0 j) as E. simpl in E. rewrite <- E. ring. Qed.
  Lemma rise_neq0 n j : rise n j <> (0 : F).
  Proof.
    revert n. induction j as [|j IH]; intro n; simpl.
    - apply f1_neq0.
    - apply fmul_neq0; [apply fnat_neq0; discriminate|apply IH].
  Qed.

  Lemma fs_Dn_rise j (a : fs) n : fs_Dn j a n = rise n j * a (n + j)%nat.
  Proof.
    revert n. induction j as [|j IH]; intro n.
    - simpl. rewrite Nat.add_0_r. ring.
    - simpl fs_Dn. unfold fs_D. rewrite IH. simpl rise.
      replace (S n + j)%nat with (n + S j)%nat by lia. ring.
  Qed.
  Lemma curve_fs_rise (a : nat -> nat -> F) j b n :
    curve_fs a j b n = rise n j * a (n + j)%nat b.
  Proof. unfold curve_fs. apply fs_Dn_rise. Qed.
  Lemma curve_fs_S (a : nat -> nat -> F) j b : curve_fs a (S j) b = fs_D (curve_fs a j b).
  Proof. reflexivity. Qed.

  (* two coefficient families that agree below n + j give curves that agree below n *)
  Lemma curve_fs_agreeN (a a' : nat -> nat -> F) j b N M :
    (forall i, i < M -> a i b = a' i b) -> (N + j <= M)%nat ->
    agreeN N (curve_fs a j b) (curve_fs a' j b).
  Proof.
    intros E HM i Hi. rewrite !curve_fs_rise. rewrite E by lia. reflexivity.
  Qed.

  (* ================================= Part 2: uniqueness and existence *)
  Lemma curve_env_agreeN k d (a a' : nat -> nat -> F) t0 N M :
    (forall i b, i < M -> b < d -> a i b = a' i b) -> (N + k <= M + 1)%nat ->
    Forall2 (agreeN N) (curve_env k d a t0) (curve_env k d a' t0).
  Proof.
    intros E HM. unfold curve_env. apply Forall2_app.
    - apply Forall2_map_seq. intros idx Hidx.
      destruct d as [|d']; [lia|]. set (d := S d') in *.
      assert (Hj : (idx / d < k)%nat) by (apply Nat.div_lt_upper_bound; unfold d; lia).
      assert (Hb : (idx mod d < d)%nat) by (apply Nat.mod_upper_bound; unfold d; discriminate).
      intros i Hi. rewrite !curve_fs_rise. rewrite E by lia. reflexivity.
    - constructor; [apply agreeN_refl|constructor].
  Qed.

  (* T10.1 *)
  Theorem formal_solution_unique (v : vfield) (t0 : F) (a a' : nat -> nat -> F) :
    is_formal_solution v t0 a -> is_formal_solution v t0 a' ->
    (forall j b, j < vf_k v -> b < vf_d v -> a j b = a' j b) ->
    forall n b, b < vf_d v -> a n b = a' n b.
  Proof.
    intros Ha Ha' E0 n. induction n as [n IH] using lt_wf_ind. intros b Hb.
    destruct (Nat.lt_ge_cases n (vf_k v)) as [Hn|Hn]; [apply E0; assumption|].
    set (m := (n - vf_k v)%nat).
    pose proof (Ha m b Hb) as H1. pose proof (Ha' m b Hb) as H2.
    rewrite curve_fs_rise in H1, H2. replace (m + vf_k v)%nat with n in H1, H2 by (unfold m; lia).
    assert (E : fs_compose (curve_env (vf_k v) (vf_d v) a t0) (nth b (vf_f v) []) m
                = fs_compose (curve_env (vf_k v) (vf_d v) a' t0) (nth b (vf_f v) []) m).
    { apply (fs_compose_agreeN (S m)); [|lia].
      apply (curve_env_agreeN _ _ _ _ _ _ n).
      - intros i b' Hi Hb'. apply IH; assumption.
      - unfold m. lia. }
    rewrite E, <- H2 in H1.
    transitivity (rise m (vf_k v) * a n b / rise m (vf_k v)); [field; apply rise_neq0|].
    rewrite H1. field. apply rise_neq0.
  Qed.

  (* ---- existence: the recursion computes a formal solution ---- *)
  Lemma spec_coeffs_length (v : vfield) t0 A0 num :
    length (spec_coeffs v t0 A0 num) = (length A0 + num)%nat.
  Proof. induction num as [|num IH]; simpl; [lia|]. rewrite app_length, IH. simpl. lia. Qed.

  Lemma spec_coeffs_prefix (v : vfield) t0 A0 num extra n :
    n < length A0 + num ->
    nth n (spec_coeffs v t0 A0 (num + extra)) [] = nth n (spec_coeffs v t0 A0 num) [].
  Proof.
    intro Hn. induction extra as [|e IH].
    - rewrite Nat.add_0_r. reflexivity.
    - replace (num + S e)%nat with (S (num + e)) by lia. simpl spec_coeffs.
      rewrite app_nth1 by (rewrite spec_coeffs_length; lia). exact IH.
  Qed.

  (* the coefficient family defined by the recursion from the initial block A0 *)
  Definition sol (v : vfield) (t0 : F) (A0 : list (list F)) : nat -> nat -> F :=
    fun n b => afun (spec_coeffs v t0 A0 (S n - length A0)) n b.

  Lemma sol_nth (v : vfield) t0 A0 num n b :
    n < length A0 + num -> sol v t0 A0 n b = afun (spec_coeffs v t0 A0 num) n b.
  Proof.
    intro Hn. unfold sol, afun.
    destruct (Nat.le_ge_cases (S n - length A0) num) as [Hle|Hge].
    - replace num with ((S n - length A0) + (num - (S n - length A0)))%nat by lia.
      rewrite spec_coeffs_prefix by lia. reflexivity.
    - replace (S n - length A0)%nat with (num + ((S n - length A0) - num))%nat by lia.
      rewrite spec_coeffs_prefix by lia. reflexivity.
  Qed.

  Lemma vget_map_poly (g : poly -> F) (f : list poly) b :
    g [] = 0 -> vget (map g f) b = g (nth b f []).
  Proof.
    intro G0. unfold vget. destruct (Nat.lt_ge_cases b (length f)) as [Hb|Hb].
    - rewrite (nth_indep _ 0 (g [])) by (rewrite map_length; exact Hb).
      apply map_nth.
    - rewrite !nth_overflow by (try rewrite map_length; exact Hb). symmetry. exact G0.
  Qed.

  Lemma spec_env_agreeN N k d A t0 (a : nat -> nat -> F) M :
    (forall i b, i < M -> a i b = afun A i b) -> (N + k <= M + 1)%nat ->
    Forall2 (agreeN N) (map sget (spec_env N k d A t0)) (curve_env k d a t0).
  Proof.
    intros E HM. unfold spec_env, curve_env. rewrite map_app, map_map. apply Forall2_app.
    - apply Forall2_map_seq. intros idx Hidx.
      destruct d as [|d']; [lia|]. set (d := S d') in *.
      assert (Hj : (idx / d < k)%nat) by (apply Nat.div_lt_upper_bound; unfold d; lia).
      eapply agreeN_trans; [apply sget_strunc|].
      intros i Hi. rewrite !curve_fs_rise. rewrite E by lia. reflexivity.
    - simpl. constructor; [apply sget_stime|constructor].
  Qed.

  Theorem spec_is_formal_solution (v : vfield) (t0 : F) (A0 : list (list F)) :
    length A0 = vf_k v -> is_formal_solution v t0 (sol v t0 A0).
  Proof.
    intros HA n b Hb. rewrite curve_fs_rise.
    set (A := spec_coeffs v t0 A0 n).
    assert (HlenA : length A = (vf_k v + n)%nat) by (unfold A; rewrite spec_coeffs_length; lia).
    rewrite (sol_nth v t0 A0 (S n)) by lia.
    unfold afun. simpl spec_coeffs. fold A.
    rewrite app_nth2 by lia. replace (n + vf_k v - length A)%nat with 0%nat by lia. simpl nth.
    unfold spec_next. rewrite HlenA. replace (vf_k v + n - vf_k v)%nat with n by lia.
    rewrite (vget_map_poly
               (fun p => sget (scompose (S n) (spec_env (S n) (vf_k v) (vf_d v) A t0) p) n
                         / rise n (vf_k v))).
    2:{ simpl. rewrite (sget_sconst (S n) 0 n) by lia. unfold fs_const.
        destruct n; field; apply rise_neq0. }
    rewrite (sget_scompose (S n)) by lia.
    assert (E : fs_compose (map sget (spec_env (S n) (vf_k v) (vf_d v) A t0)) (nth b (vf_f v) []) n
                = fs_compose (curve_env (vf_k v) (vf_d v) (sol v t0 A0) t0) (nth b (vf_f v) []) n).
    { apply (fs_compose_agreeN (S n)); [|lia].
      apply (spec_env_agreeN _ _ _ _ _ _ (vf_k v + n)); [|lia].
      intros i b' Hi. unfold A. apply sol_nth. lia. }
    rewrite E. field. apply rise_neq0.
  Qed.

  (* ============================ Part 3: unroll and padded scan (T10.2) *)
  Lemma nth_firstn_lt {A} (l : list A) n i d : i < n -> nth i (firstn n l) d = nth i l d.
  Proof.
    revert n i. induction l as [|x l IH]; intros n i Hi.
    - rewrite firstn_nil. reflexivity.
    - destruct n as [|n]; [lia|]. destruct i as [|i]; simpl; [reflexivity|]. apply IH. lia.
  Qed.
  Lemma nth_skipn_add {A} (l : list A) n i d : nth i (skipn n l) d = nth (n + i) l d.
  Proof.
    revert n. induction l as [|x l IH]; intro n.
    - rewrite skipn_nil. destruct i, n; reflexivity.
    - destruct n as [|n]; simpl; [reflexivity|]. apply IH.
  Qed.
  Lemma pyslice_length {A} lo drop (l : list A) :
    length (pyslice lo drop l) = (length l - drop - lo)%nat.
  Proof. unfold pyslice. rewrite firstn_length, skipn_length. lia. Qed.
  Lemma pyslice_nth {A} lo drop (l : list A) i d :
    i < length l - drop - lo -> nth i (pyslice lo drop l) d = nth (lo + i) l d.
  Proof. intro Hi. unfold pyslice. rewrite nth_firstn_lt by exact Hi. apply nth_skipn_add. Qed.
  Lemma length_tl {A} (l : list A) : length (tl l) = (length l - 1)%nat.
  Proof. destruct l; simpl; lia. Qed.
  Lemma nth_tl {A} (l : list A) i d : nth i (tl l) d = nth (S i) l d.
  Proof. destruct l; [destruct i; reflexivity|reflexivity]. Qed.

  Lemma flat_map_map {A B C} (g : A -> B) (h : B -> list C) l :
    flat_map h (map g l) = flat_map (fun x => h (g x)) l.
  Proof. induction l as [|x l IH]; simpl; [reflexivity|]. rewrite IH. reflexivity. Qed.

  Lemma combine_firstn_map_seq {A B} (l : list A) (g : nat -> B) (d : A) k :
    k <= length l ->
    combine (firstn k l) (map g (seq 0 k)) = map (fun j => (nth j l d, g j)) (seq 0 k).
  Proof.
    intro Hk. apply (list_eq_nth (d, g 0%nat)).
    - rewrite combine_length, firstn_length, !map_length, seq_length. lia.
    - intros i Hi. rewrite combine_length, firstn_length, map_length, seq_length in Hi.
      rewrite combine_nth by (rewrite firstn_length, map_length, seq_length; lia).
      rewrite nth_firstn_lt by lia. rewrite !nth_map_seq by lia. reflexivity.
  Qed.

  Lemma sget_to_norm (ds : list F) i : i < length ds -> sget (to_norm ds) i = sget ds i / ffact i.
  Proof. intro Hi. unfold to_norm. rewrite sget_mkv by exact Hi. reflexivity. Qed.
  Lemma sget_to_deriv (a : series) i : i < length a -> sget (to_deriv a) i = ffact i * sget a i.
  Proof. intro Hi. unfold to_deriv. rewrite sget_mkv by exact Hi. reflexivity. Qed.
  Lemma scompose_length N (env : list series) (p : poly) : length (scompose N env p) = N.
  Proof. destruct p; simpl; [unfold sconst|unfold sadd]; apply mkv_length. Qed.

  (* the derivative vector of order n of the curve with normalised coefficients a *)
  Definition dvec (a : nat -> nat -> F) (d n : nat) : tvec :=
    map (fun b => ffact n * a n b) (seq 0 d).
  Definition good_upto (a : nat -> nat -> F) (d c : nat) (tc : list tvec) : Prop :=
    forall n, n <= c -> nth n tc [] = dvec a d n.

  Lemma vget_dvec a d n b : b < d -> vget (dvec a d n) b = ffact n * a n b.
  Proof. intro Hb. unfold vget, dvec. rewrite nth_map_seq by exact Hb. reflexivity. Qed.

  Lemma sget_cons_S (x : F) l i : sget (x :: l) (S i) = sget l i.
  Proof. reflexivity. Qed.

  (* the (t, 1, 0, ...) series is t0 + tau *)
  Lemma time_series_agree t0 n N :
    N <= S n -> 1 <= n ->
    agreeN N (sget (to_norm (t0 :: 1 :: repeat 0 (n - 1)))) (fs_time t0).
  Proof.
    intros HN Hn i Hi.
    rewrite sget_to_norm by (simpl; rewrite repeat_length; lia).
    destruct i as [|[|i]].
    - change (t0 / 1 = t0). field. apply f1_neq0.
    - change (sget (t0 :: 1 :: repeat 0 (n - 1)) 1) with (1 : F). unfold fs_time.
      change (ffact 1) with (fnat 1 * 1 : F). rewrite fnat_1. field. apply f1_neq0.
    - change (sget (t0 :: 1 :: repeat 0 (n - 1)) (S (S i))) with (nth i (repeat 0 (n - 1)) (0 : F)).
      unfold fs_time.
      assert (E : nth i (repeat (0 : F) (n - 1)) 0 = 0).
      { destruct (Nat.lt_ge_cases i (n - 1)) as [Hl|Hl].
        - apply nth_repeat.
        - apply nth_overflow. rewrite repeat_length. exact Hl. }
      rewrite E. field. apply ffact_neq0.
  Qed.

  (* the environment handed to jet by the increment agrees with the true curve
     as far as the coefficients of tc are correct *)
  Lemma jet_env_agreeN (a : nat -> nat -> F) k d (tc : list tvec) t0 c N :
    1 <= k -> k + 1 <= length tc -> good_upto a d c tc ->
    (N + k <= c + 2)%nat -> (N <= length tc - k + 1)%nat ->
    Forall2 (agreeN N)
      (map sget (jet_env d (firstn k tc) t0
                         (map (fun j => pyslice j (k - 1 - j) (tl tc)) (seq 0 k))
                         (1 :: repeat 0 (length tc - k - 1))))
      (curve_env k d a t0).
  Proof.
    intros Hk HL Hgood HN HNL. unfold jet_env, curve_env. unfold vec in *.
    rewrite (combine_firstn_map_seq tc _ []) by lia.
    rewrite flat_map_map. cbn [fst snd]. rewrite flat_map_seq_divmod.
    rewrite map_app, map_map. apply Forall2_app.
    - apply Forall2_map_seq. intros idx Hidx.
      destruct d as [|d']; [lia|]. set (d := S d') in *.
      assert (Hj : (idx / d < k)%nat) by (apply Nat.div_lt_upper_bound; unfold d; lia).
      assert (Hb : (idx mod d < d)%nat) by (apply Nat.mod_upper_bound; unfold d; discriminate).
      set (j := (idx / d)%nat) in *. set (b := (idx mod d)%nat) in *. clearbody j b.
      intros i Hi.
      assert (Hlen : length (pyslice j (k - 1 - j) (tl tc)) = (length tc - k)%nat).
      { rewrite pyslice_length, length_tl. lia. }
      rewrite sget_to_norm by (cbn [length]; rewrite map_length, pyslice_length, length_tl; unfold vec in *; lia).
      assert (E : sget (vget (nth j tc []) b :: map (fun c0 : list F => vget c0 b) (pyslice j (k - 1 - j) (tl tc))) i
                  = vget (nth (j + i) tc []) b).
      { destruct i as [|i].
        - rewrite Nat.add_0_r. reflexivity.
        - rewrite sget_cons_S. unfold sget.
          rewrite (nth_indep _ 0 (vget [] b)) by (rewrite map_length, pyslice_length, length_tl; unfold vec in *; lia).
          rewrite (map_nth (fun c0 : list F => vget c0 b)).
          rewrite pyslice_nth by (rewrite length_tl; unfold vec in *; lia).
          rewrite nth_tl. replace (S (j + i)) with (j + S i)%nat by lia. reflexivity. }
      rewrite E. rewrite Hgood by lia. rewrite vget_dvec by exact Hb.
      rewrite curve_fs_rise. replace (j + i)%nat with (i + j)%nat by lia.
      rewrite <- (rise_ffact i j). field. apply ffact_neq0.
    - simpl. constructor; [|constructor].
      apply time_series_agree; lia.
  Qed.

  Lemma increment_good (v : vfield) (t0 : F) (a : nat -> nat -> F) (tc : list tvec) (c : nat) :
    1 <= vf_k v -> length (vf_f v) = vf_d v -> is_formal_solution v t0 a ->
    vf_k v + 1 <= length tc -> vf_k v <= c -> c < length tc ->
    good_upto a (vf_d v) c tc ->
    exists tc', increment v tc t0 = Some tc' /\ length tc' = S (length tc) /\
                good_upto a (vf_d v) (S c) tc'.
  Proof.
    intros Hk Hf Hsol HL Hkc HcL Hgood. unfold vec in *. unfold is_formal_solution in Hsol.
    set (k := vf_k v) in *. set (d := vf_d v) in *. set (L := length tc) in *.
    set (n := (L - k)%nat).
    unfold increment, args_aj. fold k. unfold vec in *.
    set (su := map (fun j => pyslice j (k - 1 - j) (tl tc)) (seq 0 k)).
    assert (Hsu0 : length (nth 0 su []) = n).
    { unfold su. rewrite nth_map_seq by lia. rewrite pyslice_length, length_tl.
      unfold n. fold L. lia. }
    rewrite Hsu0.
    set (st := 1 :: repeat 0 (n - 1)).
    assert (Hst : length st = n) by (unfold st; simpl; rewrite repeat_length; unfold n; lia).
    unfold jet_poly. cbv zeta. unfold vec in *. rewrite Hst.
    assert (Hchk : forallb (fun s => Nat.eqb (length s) n) su
                   && Nat.eqb (length (firstn k tc)) (length su) = true).
    { apply andb_true_iff. split.
      - apply forallb_forall. intros s Hs. unfold su in Hs. apply in_map_iff in Hs.
        destruct Hs as [j [<- Hj]]. apply in_seq in Hj. apply Nat.eqb_eq.
        rewrite pyslice_length, length_tl. unfold n. fold L. lia.
      - apply Nat.eqb_eq. unfold su. rewrite firstn_length, map_length, seq_length.
        fold L. lia. }
    rewrite Hchk. fold d.
    set (env := jet_env d (firstn k tc) t0 su st).
    set (outs := map (fun p => to_deriv (scompose (S n) env p)) (vf_f v)).
    eexists. split; [reflexivity|]. split.
    - rewrite !app_length, firstn_length, map_length, seq_length. simpl. fold L. unfold n. lia.
    - (* entry k + l of the result is (sget o l) over the outputs *)
      assert (Hentry : forall l, l <= n ->
                nth (k + l) (firstn k tc ++ [map (fun o => sget o 0) outs]
                             ++ map (fun l0 => map (fun o => sget o (S l0)) outs) (seq 0 n)) []
                = map (fun o => sget o l) outs).
      { intros l Hl. rewrite app_nth2 by (rewrite firstn_length; fold L; lia).
        rewrite firstn_length. fold L. replace (k + l - Nat.min k L)%nat with l by lia.
        destruct l as [|l]; [reflexivity|]. simpl.
        rewrite nth_map_seq by lia. reflexivity. }
      intros m Hm.
      destruct (Nat.lt_ge_cases m k) as [Hmk|Hmk].
      + rewrite app_nth1 by (rewrite firstn_length; fold L; lia).
        rewrite nth_firstn_lt by exact Hmk. apply Hgood. lia.
      + set (l := (m - k)%nat). replace m with (k + l)%nat by (unfold l; lia).
        assert (Hl : l <= n) by (unfold l, n; lia).
        rewrite Hentry by exact Hl. unfold outs. rewrite map_map.
        rewrite (map_nth_seq _ (vf_f v) []). rewrite Hf. fold d. unfold dvec.
        apply map_ext_in. intros b Hb. apply in_seq in Hb.
        rewrite sget_to_deriv by (rewrite scompose_length; lia).
        rewrite (sget_scompose (S n)) by lia.
        assert (E : fs_compose (map sget env) (nth b (vf_f v) []) l
                    = fs_compose (curve_env k d a t0) (nth b (vf_f v) []) l).
        { apply (fs_compose_agreeN (S l)); [|lia].
          unfold env, su, st. replace (n - 1)%nat with (length tc - k - 1)%nat by (unfold n, L; lia).
          apply (jet_env_agreeN a k d tc t0 c); try assumption; try lia.
          all: unfold l, n, L in *; unfold vec in *; lia. }
        rewrite E. rewrite <- (Hsol l b) by lia. rewrite curve_fs_rise.
        replace (k + l)%nat with (l + k)%nat by lia. rewrite <- (rise_ffact l k). ring.
  Qed.

  Lemma vget_map_zero (g : F -> F) (l : list F) b : g 0 = 0 -> vget (map g l) b = g (vget l b).
  Proof.
    intro G0. unfold vget. destruct (Nat.lt_ge_cases b (length l)) as [Hb|Hb].
    - rewrite (nth_indep _ 0 (g 0)) by (rewrite map_length; exact Hb). apply map_nth.
    - rewrite !nth_overflow by (try rewrite map_length; exact Hb). symmetry. exact G0.
  Qed.

  (* ---- well-formed problems and the canonical solution ---- *)
  Definition wf_problem (v : vfield) (inits : list tvec) : Prop :=
    length (vf_f v) = vf_d v /\ length inits = vf_k v /\
    (forall j, j < vf_k v -> length (nth j inits []) = vf_d v).

  Lemma list_as_map_vget (l : list F) d : length l = d -> l = map (fun b => vget l b) (seq 0 d).
  Proof.
    intro Hl. apply (list_eq_nth 0).
    - rewrite map_length, seq_length. exact Hl.
    - intros i Hi. rewrite nth_map_seq by lia. reflexivity.
  Qed.

  Lemma normalise_length (ds : list (list F)) : length (normalise ds) = length ds.
  Proof. unfold normalise. rewrite map_length, seq_length. reflexivity. Qed.
  Lemma normalise_nth (ds : list (list F)) j :
    j < length ds -> nth j (normalise ds) [] = map (fun x => x / ffact j) (nth j ds []).
  Proof. intro Hj. unfold normalise. rewrite nth_map_seq by exact Hj. reflexivity. Qed.

  Lemma spec_coeffs_entry_length (v : vfield) t0 A0 num n :
    length (vf_f v) = vf_d v -> (forall j, j < length A0 -> length (nth j A0 []) = vf_d v) ->
    n < length A0 + num -> length (nth n (spec_coeffs v t0 A0 num) []) = vf_d v.
  Proof.
    intros Hf HA0. induction num as [|num IH]; intro Hn.
    - simpl. apply HA0. lia.
    - simpl spec_coeffs. destruct (Nat.lt_ge_cases n (length A0 + num)) as [Hlt|Hge].
      + rewrite app_nth1 by (rewrite spec_coeffs_length; exact Hlt). apply IH. exact Hlt.
      + rewrite app_nth2 by (rewrite spec_coeffs_length; exact Hge).
        rewrite spec_coeffs_length. replace (n - (length A0 + num))%nat with 0%nat by lia.
        simpl. unfold spec_next. rewrite map_length. exact Hf.
  Qed.

  (* the canonical solution reproduces the initial derivative vectors *)
  Lemma sol_inits (v : vfield) t0 (inits : list tvec) j :
    wf_problem v inits -> j < vf_k v ->
    nth j inits [] = dvec (sol v t0 (normalise inits)) (vf_d v) j.
  Proof.
    intros [Hf [Hi Hd]] Hj.
    rewrite (list_as_map_vget (nth j inits []) (vf_d v)) at 1 by (apply Hd; exact Hj).
    unfold dvec. apply map_ext_in. intros b Hb.
    rewrite (sol_nth v t0 (normalise inits) 0) by (rewrite normalise_length; lia).
    unfold afun. simpl spec_coeffs. rewrite normalise_nth by lia.
    rewrite (vget_map_zero (fun x => x / ffact j)) by (field; apply ffact_neq0).
    field. apply ffact_neq0.
  Qed.

  (* ---- the initial evaluation f(inits, t0) is the k-th derivative ---- *)
  Lemma curve_env_at0 k d (a : nat -> nat -> F) t0 (inits : list tvec) :
    length inits = k -> (forall j, j < k -> nth j inits [] = dvec a d j) ->
    map (fun s : fs => s 0%nat) (curve_env k d a t0) = vf_env inits t0.
  Proof.
    intros Hi Hd. unfold curve_env, vf_env. rewrite map_app. f_equal.
    assert (E : inits = map (dvec a d) (seq 0 k)).
    { apply (list_eq_nth []).
      - rewrite map_length, seq_length. exact Hi.
      - intros j Hj. rewrite nth_map_seq by lia. apply Hd. lia. }
    rewrite E at 1. rewrite <- flat_map_concat_map. unfold dvec.
    rewrite flat_map_seq_divmod. rewrite map_map. apply map_ext. intro idx.
    rewrite curve_fs_rise, rise_0. reflexivity.
  Qed.

  Lemma init_good (v : vfield) t0 (a : nat -> nat -> F) (inits : list tvec) :
    length (vf_f v) = vf_d v -> length inits = vf_k v ->
    (forall j, j < vf_k v -> nth j inits [] = dvec a (vf_d v) j) ->
    is_formal_solution v t0 a ->
    exists p, vf_eval v inits t0 = Some p /\
              good_upto a (vf_d v) (vf_k v) (inits ++ [p]).
  Proof.
    intros Hf Hi Hd Hsol. unfold vf_eval. rewrite Hi, Nat.eqb_refl.
    eexists. split; [reflexivity|]. intros n Hn.
    destruct (Nat.lt_ge_cases n (vf_k v)) as [Hlt|Hge].
    - rewrite app_nth1 by lia. apply Hd. exact Hlt.
    - assert (n = vf_k v) by lia. subst n.
      rewrite app_nth2 by lia. rewrite Hi, Nat.sub_diag. simpl nth.
      rewrite (map_nth_seq _ (vf_f v) []). rewrite Hf. unfold dvec.
      apply map_ext_in. intros b Hb. apply in_seq in Hb.
      rewrite <- (curve_env_at0 (vf_k v) (vf_d v) a t0 inits Hi Hd).
      rewrite <- (fs_compose_at0 (curve_env (vf_k v) (vf_d v) a t0) (nth b (vf_f v) [])).
      rewrite <- (Hsol 0%nat b) by lia.
      rewrite curve_fs_rise, rise_0. reflexivity.
  Qed.

  (* ---- iterating the increment ---- *)
  Lemma unroll_iter (v : vfield) t0 (a : nat -> nat -> F) i : forall tc : list tvec,
    1 <= vf_k v -> length (vf_f v) = vf_d v -> is_formal_solution v t0 a ->
    vf_k v + 1 <= length tc -> good_upto a (vf_d v) (length tc - 1) tc ->
    exists tc', iter_opt i (fun tc0 => increment v tc0 t0) tc = Some tc' /\
                length tc' = (length tc + i)%nat /\
                good_upto a (vf_d v) (length tc' - 1) tc'.
  Proof.
    induction i as [|i IH]; intros tc Hk Hf Hsol HL Hgood.
    - exists tc. split; [reflexivity|]. split; [lia|exact Hgood].
    - destruct (increment_good v t0 a tc (length tc - 1) Hk Hf Hsol HL) as [tc1 [E1 [L1 G1]]];
        [lia|lia|exact Hgood|].
      simpl iter_opt. rewrite E1.
      destruct (IH tc1 Hk Hf Hsol) as [tc' [E' [L' G']]].
      + lia.
      + rewrite L1. replace (S (length tc) - 1)%nat with (S (length tc - 1)) by lia. exact G1.
      + exists tc'. split; [exact E'|]. split; [lia|exact G'].
  Qed.

  Lemma removelast_nth {A} (l : list A) m d : m < length l - 1 -> nth m (removelast l) d = nth m l d.
  Proof.
    intro Hm. rewrite removelast_firstn_len. apply nth_firstn_lt. lia.
  Qed.
  Lemma removelast_length {A} (l : list A) : length (removelast l) = (length l - 1)%nat.
  Proof. rewrite removelast_firstn_len, firstn_length. lia. Qed.

  Lemma scan_iter (v : vfield) t0 (a : nat -> nat -> F) i : forall (tc : list tvec) c,
    1 <= vf_k v -> length (vf_f v) = vf_d v -> is_formal_solution v t0 a ->
    vf_k v + 1 <= length tc -> vf_k v <= c -> c < length tc ->
    good_upto a (vf_d v) c tc ->
    exists tc', iter_opt i (fun tc0 => match increment v tc0 t0 with
                                        | None => None
                                        | Some tc1 => Some (removelast tc1)
                                        end) tc = Some tc' /\
                length tc' = length tc /\
                good_upto a (vf_d v) (Nat.min (c + i) (length tc - 1)) tc'.
  Proof.
    induction i as [|i IH]; intros tc c Hk Hf Hsol HL Hkc HcL Hgood.
    - exists tc. split; [reflexivity|]. split; [reflexivity|].
      intros n Hn. apply Hgood. lia.
    - destruct (increment_good v t0 a tc c Hk Hf Hsol HL Hkc HcL Hgood) as [tc1 [E1 [L1 G1]]].
      simpl iter_opt. rewrite E1.
      assert (Lr : length (removelast tc1) = length tc) by (rewrite removelast_length; lia).
      destruct (IH (removelast tc1) (Nat.min (S c) (length tc - 1)) Hk Hf Hsol) as [tc' [E' [L' G']]].
      + lia.
      + lia.
      + lia.
      + intros n Hn. rewrite removelast_nth by lia. apply G1. lia.
      + exists tc'. split; [exact E'|]. split; [lia|].
        intros n Hn. apply G'. rewrite Lr. lia.
  Qed.

  (* ---- the specification as a list of derivative vectors ---- *)
  Lemma spec_derivs_dvec (v : vfield) t0 (inits : list tvec) num :
    wf_problem v inits ->
    spec_derivs v t0 inits num
    = map (dvec (sol v t0 (normalise inits)) (vf_d v)) (seq 0 (vf_k v + num)).
  Proof.
    intros [Hf [Hi Hd]]. unfold spec_derivs, denormalise.
    rewrite spec_coeffs_length, normalise_length, Hi.
    apply map_ext_in. intros n Hn. apply in_seq in Hn.
    set (A := spec_coeffs v t0 (normalise inits) num).
    assert (HlenA : length (nth n A []) = vf_d v).
    { unfold A. apply spec_coeffs_entry_length; [exact Hf| |rewrite normalise_length; lia].
      intros j Hj. rewrite normalise_length in Hj. rewrite normalise_nth by exact Hj.
      rewrite map_length. apply Hd. lia. }
    rewrite (list_as_map_vget (nth n A []) (vf_d v) HlenA) at 1. rewrite map_map.
    unfold dvec. apply map_ext_in. intros b Hb.
    rewrite (sol_nth v t0 (normalise inits) num) by (rewrite normalise_length; lia).
    reflexivity.
  Qed.

  Lemma denormalise_normalise (ds : list (list F)) : denormalise (normalise ds) = ds.
  Proof.
    unfold denormalise. rewrite normalise_length.
    apply (list_eq_nth []).
    - rewrite map_length, seq_length. reflexivity.
    - intros i Hi. rewrite map_length, seq_length in Hi. rewrite nth_map_seq by exact Hi.
      simpl plus. rewrite normalise_nth by exact Hi. rewrite map_map.
      rewrite <- (map_id (nth i ds [])) at 2. apply map_ext. intro x. field. apply ffact_neq0.
  Qed.

  Lemma all_good_is_spec (v : vfield) t0 (inits tc : list tvec) num :
    wf_problem v inits -> length tc = (vf_k v + num)%nat ->
    good_upto (sol v t0 (normalise inits)) (vf_d v) (length tc - 1) tc ->
    tc = spec_derivs v t0 inits num.
  Proof.
    intros Hwf HL Hgood. rewrite spec_derivs_dvec by exact Hwf.
    apply (list_eq_nth []).
    - rewrite map_length, seq_length. exact HL.
    - intros n Hn. rewrite nth_map_seq by lia. apply Hgood. lia.
  Qed.

  (* T10.2 *)
  Theorem unroll_correct (v : vfield) (t0 : F) (inits : list tvec) (num : nat) :
    1 <= vf_k v -> wf_problem v inits ->
    unroll_model v inits t0 num = Some (spec_derivs v t0 inits num).
  Proof.
    intros Hk Hwf. pose proof Hwf as [Hf [Hi Hd]].
    set (a := sol v t0 (normalise inits)).
    assert (Hsol : is_formal_solution v t0 a)
      by (apply spec_is_formal_solution; rewrite normalise_length; exact Hi).
    destruct num as [|num'].
    - simpl. unfold spec_derivs. simpl. rewrite denormalise_normalise. reflexivity.
    - unfold unroll_model.
      destruct (init_good v t0 a inits Hf Hi (fun j Hj => sol_inits v t0 inits j Hwf Hj) Hsol)
        as [p [Ep Gp]].
      rewrite Ep.
      assert (HL0 : length (inits ++ [p]) = (vf_k v + 1)%nat) by (rewrite app_length; simpl; lia).
      destruct (unroll_iter v t0 a num' (inits ++ [p]) Hk Hf Hsol) as [tc' [E' [L' G']]].
      + lia.
      + rewrite HL0. replace (vf_k v + 1 - 1)%nat with (vf_k v) by lia. exact Gp.
      + rewrite E'. f_equal. apply all_good_is_spec; [exact Hwf|lia|exact G'].
  Qed.

  Theorem padded_scan_correct (v : vfield) (t0 : F) (inits : list tvec) (num : nat) :
    1 <= vf_k v -> wf_problem v inits ->
    padded_scan_model v inits t0 num = Some (spec_derivs v t0 inits num).
  Proof.
    intros Hk Hwf. pose proof Hwf as [Hf [Hi Hd]].
    set (a := sol v t0 (normalise inits)).
    assert (Hsol : is_formal_solution v t0 a)
      by (apply spec_is_formal_solution; rewrite normalise_length; exact Hi).
    destruct num as [|num'].
    - simpl. unfold spec_derivs. simpl. rewrite denormalise_normalise. reflexivity.
    - unfold padded_scan_model.
      destruct (init_good v t0 a inits Hf Hi (fun j Hj => sol_inits v t0 inits j Hwf Hj) Hsol)
        as [p [Ep Gp]].
      rewrite Ep.
      assert (HL0 : length (inits ++ [p]) = (vf_k v + 1)%nat) by (rewrite app_length; simpl; lia).
      destruct num' as [|num''].
      + f_equal. apply all_good_is_spec; [exact Hwf|lia|].
        rewrite HL0. replace (vf_k v + 1 - 1)%nat with (vf_k v) by lia. exact Gp.
      + set (padded := (inits ++ [p]) ++ repeat (map (fun _ => 0) p)
                                              (length inits + S (S num'') - length (inits ++ [p]))).
        assert (HLp : length padded = (vf_k v + S (S num''))%nat).
        { unfold padded. rewrite app_length, repeat_length, HL0. lia. }
        destruct (scan_iter v t0 a (S num'') padded (vf_k v) Hk Hf Hsol) as [tc' [E' [L' G']]].
        * lia.
        * lia.
        * lia.
        * intros n Hn. unfold padded. rewrite app_nth1 by lia. apply Gp. exact Hn.
        * rewrite E'. f_equal. apply all_good_is_spec; [exact Hwf|lia|].
          intros n Hn. apply G'. lia.
  Qed.

  (* ================= Part 4: the recursive-JVP model (T10.3) *)
  (* ---- the polynomial arithmetic is sound for series composition ---- *)
  Lemma exps_cmp_eq e e' : exps_cmp e e' = Eq -> e = e'.
  Proof.
    revert e'. induction e as [|x e IH]; intros [|y e'] Hc; simpl in Hc; try discriminate.
    - reflexivity.
    - destruct (Nat.compare x y) eqn:Exy; try discriminate.
      apply Nat.compare_eq in Exy. subst y. f_equal. apply IH. exact Hc.
  Qed.

  Lemma padd_nil_l (q : poly) : padd [] q = q.
  Proof. destruct q; reflexivity. Qed.
  Lemma padd_nil_r (p : poly) : padd p [] = p.
  Proof. destruct p as [|[c e] p]; reflexivity. Qed.
  Lemma padd_cons c e (p' : poly) c' e' (q' : poly) :
    padd ((c, e) :: p') ((c', e') :: q')
    = match exps_cmp e e' with
      | Lt => (c, e) :: padd p' ((c', e') :: q')
      | Gt => (c', e') :: padd ((c, e) :: p') q'
      | Eq => if feqb (c + c') 0 then padd p' q' else (c + c', e) :: padd p' q'
      end.
  Proof. reflexivity. Qed.

  Lemma fs_mono_pair env c e : fs_mono env (c, e) = fs_scale c (fs_exps env e).
  Proof. reflexivity. Qed.

  Lemma fs_compose_padd (env : list fs) (p q : poly) :
    fs_compose env (padd p q) == fs_add (fs_compose env p) (fs_compose env q).
  Proof.
    revert q. induction p as [|[c e] p IHp]; intro q.
    - rewrite padd_nil_l, fs_compose_nil. ring.
    - induction q as [|[c' e'] q IHq].
      + rewrite padd_nil_r, fs_compose_nil. ring.
      + rewrite padd_cons. destruct (exps_cmp e e') eqn:Ec.
        * apply exps_cmp_eq in Ec. subst e'.
          destruct (feqb (c + c') 0) eqn:Ez.
          -- apply feqb_eq in Ez. rewrite IHp. rewrite !fs_compose_cons, !fs_mono_pair.
             rewrite !fs_scale_mul.
             assert (E0 : fs_add (fs_const c) (fs_const c') == fs_const 0)
               by (rewrite <- fs_const_add, Ez; reflexivity).
             transitivity (fs_add (fs_mul (fs_add (fs_const c) (fs_const c')) (fs_exps env e))
                                  (fs_add (fs_compose env p) (fs_compose env q))); [|ring].
             rewrite E0. ring.
          -- change (fs_compose env ((c + c', e) :: padd p q))
               with (fs_add (fs_mono env (c + c', e)) (fs_compose env (padd p q))).
             rewrite !fs_compose_cons, IHp, !fs_mono_pair.
             rewrite !fs_scale_mul, fs_const_add. ring.
        * change (fs_compose env ((c, e) :: padd p ((c', e') :: q)))
            with (fs_add (fs_mono env (c, e)) (fs_compose env (padd p ((c', e') :: q)))).
          rewrite IHp. unfold fs_compose. simpl fold_right. ring.
        * change (fs_compose env ((c', e') :: padd ((c, e) :: p) q))
            with (fs_add (fs_mono env (c', e')) (fs_compose env (padd ((c, e) :: p) q))).
          rewrite IHq. unfold fs_compose. simpl fold_right. ring.
  Qed.

  Lemma fs_exps_nil_r (env : list fs) : fs_exps env [] = fs_const 1.
  Proof. destruct env; reflexivity. Qed.

  Lemma fs_exps_eadd (env : list fs) e e' :
    fs_exps env (eadd e e') == fs_mul (fs_exps env e) (fs_exps env e').
  Proof.
    revert e e'. induction env as [|x env IH]; intros e e'.
    - simpl. destruct (eadd e e'), e, e'; simpl; ring.
    - destruct e as [|a e]; [simpl eadd; rewrite fs_exps_nil_r; ring|].
      destruct e' as [|a' e']; [simpl eadd; rewrite fs_exps_nil_r; ring|].
      simpl eadd. simpl fs_exps. rewrite IH, fs_pow_add. ring.
  Qed.

  Lemma fs_compose_pmul_mono (env : list fs) (m : @mono F) (q : poly) :
    fs_compose env (pmul_mono m q) == fs_mul (fs_mono env m) (fs_compose env q).
  Proof.
    induction q as [|a q IH].
    - change (fs_const 0 == fs_mul (fs_mono env m) (fs_const 0)). ring.
    - change (fs_add (fs_mono env (fst m * fst a, eadd (snd m) (snd a))) (fs_compose env (pmul_mono m q))
              == fs_mul (fs_mono env m) (fs_add (fs_mono env a) (fs_compose env q))).
      rewrite IH. unfold fs_mono. simpl fst. simpl snd.
      rewrite fs_exps_eadd, !fs_scale_mul, fs_const_mul. ring.
  Qed.

  Lemma fs_compose_pmul (env : list fs) (p q : poly) :
    fs_compose env (pmul p q) == fs_mul (fs_compose env p) (fs_compose env q).
  Proof.
    induction p as [|m p IH].
    - change (fs_const 0 == fs_mul (fs_const 0) (fs_compose env q)). ring.
    - change (fs_compose env (padd (pmul_mono m q) (pmul p q))
              == fs_mul (fs_add (fs_mono env m) (fs_compose env p)) (fs_compose env q)).
      rewrite fs_compose_padd, fs_compose_pmul_mono, IH. ring.
  Qed.

  Lemma fs_exps_unit (env : list fs) i s n :
    length env <= n ->
    fs_exps env (map (fun j => if Nat.eqb i j then 1%nat else 0%nat) (seq s n))
    == if Nat.ltb i s then fs_const 1
       else if Nat.ltb i (s + length env) then nth (i - s) env (fs_const 0) else fs_const 1.
  Proof.
    revert s n. induction env as [|x env IH]; intros s n Hn.
    - simpl. rewrite Nat.add_0_r. destruct (Nat.ltb i s); reflexivity.
    - destruct n as [|n]; [simpl in Hn; lia|]. simpl seq. simpl map. simpl fs_exps.
      rewrite IH by (simpl in Hn; lia). simpl length.
      destruct (Nat.eqb_spec i s) as [->|Hne].
      + rewrite Nat.ltb_irrefl. replace (Nat.ltb s (S s)) with true by (symmetry; apply Nat.ltb_lt; lia).
        replace (Nat.ltb s (s + S (length env))) with true by (symmetry; apply Nat.ltb_lt; lia).
        rewrite Nat.sub_diag. simpl. ring.
      + destruct (Nat.ltb_spec i s) as [Hlt|Hge].
        * replace (Nat.ltb i (S s)) with true by (symmetry; apply Nat.ltb_lt; lia). simpl. ring.
        * replace (Nat.ltb i (S s)) with false by (symmetry; apply Nat.ltb_ge; lia).
          replace (S s + length env)%nat with (s + S (length env))%nat by lia.
          destruct (Nat.ltb_spec i (s + S (length env))) as [Hl2|Hg2].
          -- replace (i - s)%nat with (S (i - S s)) by lia. simpl. ring.
          -- simpl. ring.
  Qed.

  Lemma fs_compose_pvar (env : list fs) n i :
    i < length env -> length env <= n -> fs_compose env (pvar n i) == nth i env (fs_const 0).
  Proof.
    intros Hi Hn.
    change (fs_compose env (pvar n i))
      with (fs_add (fs_scale 1 (fs_exps env (map (fun j => if Nat.eqb i j then 1%nat else 0%nat) (seq 0 n))))
                   (fs_const 0)).
    rewrite (fs_exps_unit env i 0 n Hn).
    replace (Nat.ltb i 0) with false by (symmetry; apply Nat.ltb_ge; lia).
    replace (Nat.ltb i (0 + length env)) with true by (symmetry; apply Nat.ltb_lt; lia).
    rewrite Nat.sub_0_r, fs_scale_mul. ring.
  Qed.

  (* ---- polynomials that do not involve the variable number kd ---- *)
  Definition no_var (kd : nat) (p : poly) : Prop := forall m, In m p -> nth kd (snd m) 0%nat = 0%nat.

  Lemma dec_at_zero j es : nth j es 0%nat = 0%nat -> dec_at j es = None.
  Proof.
    revert es. induction j as [|j IH]; intros [|e es] Hz; simpl in *; try reflexivity.
    - subst e. reflexivity.
    - rewrite IH by exact Hz. reflexivity.
  Qed.
  Lemma diff_poly_no_var kd (p : poly) : no_var kd p -> diff_poly kd p = [].
  Proof.
    intro Hp. unfold diff_poly. induction p as [|m p IH]; [reflexivity|].
    simpl. unfold diff_mono. rewrite dec_at_zero by (apply Hp; left; reflexivity).
    apply IH. intros m' Hm'. apply Hp. right. exact Hm'.
  Qed.

  Lemma In_padd (p q : poly) m :
    In m (padd p q) -> exists m', (In m' p \/ In m' q) /\ snd m = snd m'.
  Proof.
    revert q. induction p as [|[c e] p IHp]; intro q.
    - rewrite padd_nil_l. intro Hm. exists m. split; [right; exact Hm|reflexivity].
    - induction q as [|[c' e'] q IHq].
      + rewrite padd_nil_r. intro Hm. exists m. split; [left; exact Hm|reflexivity].
      + rewrite padd_cons. destruct (exps_cmp e e') eqn:Ec.
        * apply exps_cmp_eq in Ec. subst e'.
          assert (Hrec : In m (padd p q) ->
                         exists m', (In m' ((c, e) :: p) \/ In m' ((c', e) :: q)) /\ snd m = snd m').
          { intro Hm. destruct (IHp q Hm) as [m' [[H1|H1] H2]]; exists m'; split; auto;
              [left; right; exact H1|right; right; exact H1]. }
          destruct (feqb (c + c') 0); [exact Hrec|].
          intros [<-|Hm]; [|apply Hrec; exact Hm].
          exists (c, e). split; [left; left; reflexivity|reflexivity].
        * intros [<-|Hm].
          -- exists (c, e). split; [left; left; reflexivity|reflexivity].
          -- destruct (IHp _ Hm) as [m' [[H1|H1] H2]]; exists m'; split; auto.
             left. right. exact H1.
        * intros [<-|Hm].
          -- exists (c', e'). split; [right; left; reflexivity|reflexivity].
          -- destruct (IHq Hm) as [m' [[H1|H1] H2]]; exists m'; split; auto.
             right. right. exact H1.
  Qed.
  Lemma no_var_padd kd p q : no_var kd p -> no_var kd q -> no_var kd (padd p q).
  Proof.
    intros Hp Hq m Hm. destruct (In_padd p q m Hm) as [m' [[H1|H1] H2]]; rewrite H2; auto.
  Qed.

  Lemma nth_eadd e e' i : nth i (eadd e e') 0%nat = (nth i e 0 + nth i e' 0)%nat.
  Proof.
    revert e' i. induction e as [|x e IH]; intros e' i.
    - simpl eadd. destruct i; simpl; lia.
    - destruct e' as [|y e']; [simpl eadd; destruct i; simpl; lia|].
      destruct i as [|i]; simpl; [reflexivity|apply IH].
  Qed.
  Lemma no_var_pmul kd p q : no_var kd p -> no_var kd q -> no_var kd (pmul p q).
  Proof.
    intros Hp Hq. unfold pmul. induction p as [|m p IH]; [intros m' []|].
    simpl fold_right. apply no_var_padd.
    - intros m' Hm'. unfold pmul_mono in Hm'. apply in_map_iff in Hm'.
      destruct Hm' as [m'' [<- Hm'']]. simpl snd. rewrite nth_eadd.
      rewrite (Hp m) by (left; reflexivity). rewrite (Hq m'' Hm''). reflexivity.
    - apply IH. intros m' Hm'. apply Hp. right. exact Hm'.
  Qed.

  Lemma dec_at_other j kd es k es' :
    j <> kd -> dec_at j es = Some (k, es') -> nth kd es' 0%nat = nth kd es 0%nat.
  Proof.
    revert kd es k es'. induction j as [|j IH]; intros kd [|e es] k es' Hne Hd; simpl in Hd;
      try discriminate.
    - destruct e as [|e0]; [discriminate|]. inversion Hd; subst.
      destruct kd as [|kd]; [congruence|]. reflexivity.
    - destruct (dec_at j es) as [[k0 r]|] eqn:Er; [|discriminate]. inversion Hd; subst.
      destruct kd as [|kd]; [reflexivity|]. simpl. apply (IH kd es k r); [lia|exact Er].
  Qed.
  Lemma no_var_diff kd j p : j <> kd -> no_var kd p -> no_var kd (diff_poly j p).
  Proof.
    intros Hne Hp m Hm. unfold diff_poly in Hm. apply in_flat_map in Hm.
    destruct Hm as [m0 [Hm0 Hm]]. unfold diff_mono in Hm.
    destruct (dec_at j (snd m0)) as [[k es']|] eqn:Ed; [|destruct Hm].
    destruct Hm as [<-|[]]. simpl snd. rewrite (dec_at_other j kd _ _ _ Hne Ed).
    apply Hp. exact Hm0.
  Qed.
  Lemma no_var_pvar kd n i : i <> kd -> no_var kd (pvar n i).
  Proof.
    intros Hne m [<-|[]]. simpl snd.
    destruct (Nat.lt_ge_cases kd n) as [Hlt|Hge].
    - rewrite nth_map_seq by exact Hlt. simpl. destruct (Nat.eqb_spec i kd); [congruence|reflexivity].
    - apply nth_overflow. rewrite map_length, seq_length. exact Hge.
  Qed.

  (* ---- the recursion differentiates along the flow ---- *)
  (* a field is autonomous when no monomial involves the time variable (index k*d) *)
  Definition autonomous (v : vfield) : Prop :=
    forall p, In p (vf_f v) -> no_var (vf_k v * vf_d v) p.

  Lemma curve_env_length k d (a : nat -> nat -> F) t0 : length (curve_env k d a t0) = S (k * d).
  Proof. unfold curve_env. rewrite app_length, map_length, seq_length. simpl. lia. Qed.
  Lemma curve_env_nth k d (a : nat -> nat -> F) t0 idx :
    idx < k * d ->
    nth idx (curve_env k d a t0) (fs_const 0) = curve_fs a (idx / d) (idx mod d).
  Proof.
    intro Hi. unfold curve_env. rewrite app_nth1 by (rewrite map_length, seq_length; exact Hi).
    rewrite nth_map_seq by exact Hi. reflexivity.
  Qed.

  Lemma no_var_nth_nil kd (l : list poly) b :
    (forall p, In p l -> no_var kd p) -> no_var kd (nth b l []).
  Proof.
    intro Hl. destruct (Nat.lt_ge_cases b (length l)) as [Hb|Hb].
    - apply Hl. apply nth_In. exact Hb.
    - rewrite nth_overflow by exact Hb. intros m [].
  Qed.

  Lemma jvp_tangent_compose (v : vfield) t0 (a : nat -> nat -> F) idx :
    is_formal_solution v t0 a -> idx < vf_k v * vf_d v ->
    fs_compose (curve_env (vf_k v) (vf_d v) a t0)
               (jvp_tangent v (idx / vf_d v) (idx mod vf_d v))
    == fs_D (nth idx (curve_env (vf_k v) (vf_d v) a t0) (fs_const 0)).
  Proof.
    intros Hsol Hi. set (k := vf_k v) in *. set (d := vf_d v) in *.
    assert (Hd : d <> 0%nat) by (intro E; rewrite E, Nat.mul_0_r in Hi; lia).
    assert (Hj : (idx / d < k)%nat) by (apply Nat.div_lt_upper_bound; lia).
    assert (Hb : (idx mod d < d)%nat) by (apply Nat.mod_upper_bound; exact Hd).
    rewrite curve_env_nth by exact Hi. rewrite <- curve_fs_S.
    unfold jvp_tangent. fold k d.
    destruct (Nat.ltb_spec (S (idx / d)) k) as [Hlt|Hge].
    - assert (Hidx' : S (idx / d) * d + idx mod d < k * d) by nia.
      rewrite fs_compose_pvar by (rewrite curve_env_length; lia).
      rewrite curve_env_nth by exact Hidx'.
      replace ((S (idx / d) * d + idx mod d) / d)%nat with (S (idx / d)).
      2:{ rewrite Nat.add_comm, Nat.div_add by exact Hd. rewrite (Nat.div_small (idx mod d) d Hb). reflexivity. }
      replace ((S (idx / d) * d + idx mod d) mod d)%nat with (idx mod d)%nat.
      2:{ rewrite Nat.add_comm, Nat.mod_add by exact Hd. rewrite (Nat.mod_small (idx mod d) d Hb). reflexivity. }
      reflexivity.
    - assert (Ek : S (idx / d) = k) by lia. rewrite Ek.
      constructor. intro n. symmetry. apply Hsol. exact Hb.
  Qed.

  Lemma jvp_tangent_no_var (v : vfield) idx :
    autonomous v -> idx < vf_k v * vf_d v ->
    no_var (vf_k v * vf_d v) (jvp_tangent v (idx / vf_d v) (idx mod vf_d v)).
  Proof.
    intros Haut Hi. set (k := vf_k v) in *. set (d := vf_d v) in *.
    assert (Hd : d <> 0%nat) by (intro E; rewrite E, Nat.mul_0_r in Hi; lia).
    assert (Hb : (idx mod d < d)%nat) by (apply Nat.mod_upper_bound; exact Hd).
    unfold jvp_tangent. fold k d.
    destruct (Nat.ltb_spec (S (idx / d)) k) as [Hlt|Hge].
    - apply no_var_pvar. nia.
    - apply no_var_nth_nil. exact Haut.
  Qed.

  (* one step of the recursion on a polynomial without explicit time: composition
     with the solution curve commutes with d/dtau *)
  Lemma jvp_step_poly_compose (v : vfield) t0 (a : nat -> nat -> F) (g : poly) :
    is_formal_solution v t0 a -> no_var (vf_k v * vf_d v) g ->
    fs_compose (curve_env (vf_k v) (vf_d v) a t0) (jvp_step_poly v g)
    == fs_D (fs_compose (curve_env (vf_k v) (vf_d v) a t0) g).
  Proof.
    intros Hsol Hg.
    rewrite fs_D_compose, curve_env_length. set (env := curve_env (vf_k v) (vf_d v) a t0).
    rewrite seq_S, map_app, Nat.add_0_l. simpl map at 2.
    rewrite (diff_poly_no_var _ g Hg).
    assert (Efold : forall (l : list nat),
               (forall idx, In idx l -> idx < vf_k v * vf_d v) ->
               fs_compose env
                 (fold_right (fun idx acc =>
                     padd (pmul (diff_poly idx g)
                                (jvp_tangent v (idx / vf_d v) (idx mod vf_d v))) acc) [] l)
               == fs_sum (map (fun v0 => fs_mul (fs_compose env (diff_poly v0 g))
                                                 (fs_D (nth v0 env (fs_const 0)))) l)).
    { induction l as [|idx l IH]; intro Hl.
      - simpl. reflexivity.
      - simpl fold_right. simpl map. simpl fs_sum.
        rewrite fs_compose_padd, fs_compose_pmul, IH by (intros; apply Hl; right; assumption).
        unfold env at 2. rewrite (jvp_tangent_compose v t0 a idx Hsol) by (apply Hl; left; reflexivity).
        reflexivity. }
    unfold jvp_step_poly. rewrite Efold by (intros idx Hidx; apply in_seq in Hidx; lia).
    (* the time term vanishes *)
    clear Efold. generalize (map (fun v0 => fs_mul (fs_compose env (diff_poly v0 g))
                                                   (fs_D (nth v0 env (fs_const 0))))
                                 (seq 0 (vf_k v * vf_d v))).
    intro l. induction l as [|x l IH].
    - change (fs_const 0 == fs_add (fs_mul (fs_const 0) (fs_D (nth (vf_k v * vf_d v) env (fs_const 0))))
                                   (fs_const 0)). ring.
    - simpl. rewrite <- IH. reflexivity.
  Qed.

  Lemma jvp_step_poly_no_var (v : vfield) (g : poly) :
    autonomous v -> no_var (vf_k v * vf_d v) g -> no_var (vf_k v * vf_d v) (jvp_step_poly v g).
  Proof.
    intros Haut Hg. unfold jvp_step_poly.
    assert (E : forall l, (forall idx, In idx l -> idx < vf_k v * vf_d v) ->
                no_var (vf_k v * vf_d v)
                  (fold_right (fun idx acc =>
                     padd (pmul (diff_poly idx g)
                                (jvp_tangent v (idx / vf_d v) (idx mod vf_d v))) acc) [] l)).
    { induction l as [|idx l IH]; intro Hl.
      - intros m [].
      - simpl. apply no_var_padd.
        + apply no_var_pmul.
          * apply no_var_diff; [|exact Hg]. pose proof (Hl idx (or_introl eq_refl)). lia.
          * apply jvp_tangent_no_var; [exact Haut|apply Hl; left; reflexivity].
        + apply IH. intros; apply Hl; right; assumption. }
    apply E. intros idx Hidx. apply in_seq in Hidx. lia.
  Qed.

  Lemma jvp_polys_length (v : vfield) n : length (jvp_polys v n) = length (vf_f v).
  Proof. induction n as [|n IH]; simpl; [reflexivity|]. unfold jvp_step. rewrite map_length. exact IH. Qed.

  Lemma jvp_step_poly_nil (v : vfield) : jvp_step_poly v [] = [].
  Proof.
    unfold jvp_step_poly. induction (seq 0 (vf_k v * vf_d v)) as [|idx l IH]; [reflexivity|].
    cbn [fold_right]. rewrite IH. reflexivity.
  Qed.

  Lemma nth_jvp_step (v : vfield) (G : list poly) b :
    nth b (jvp_step v G) [] = jvp_step_poly v (nth b G []).
  Proof.
    unfold jvp_step. destruct (Nat.lt_ge_cases b (length G)) as [Hb|Hb].
    - rewrite (nth_indep _ [] (jvp_step_poly v [])) by (rewrite map_length; exact Hb).
      apply map_nth.
    - rewrite !nth_overflow by (try rewrite map_length; exact Hb). symmetry. apply jvp_step_poly_nil.
  Qed.

  Lemma jvp_polys_invariant (v : vfield) t0 (a : nat -> nat -> F) n b :
    is_formal_solution v t0 a -> autonomous v -> b < vf_d v ->
    no_var (vf_k v * vf_d v) (nth b (jvp_polys v n) []) /\
    fs_compose (curve_env (vf_k v) (vf_d v) a t0) (nth b (jvp_polys v n) [])
    == curve_fs a (vf_k v + n) b.
  Proof.
    intros Hsol Haut Hb. induction n as [|n [IHv IHc]].
    - split.
      + apply no_var_nth_nil. exact Haut.
      + rewrite Nat.add_0_r. constructor. intro m. symmetry. apply Hsol. exact Hb.
    - simpl jvp_polys. rewrite nth_jvp_step. split.
      + apply jvp_step_poly_no_var; assumption.
      + rewrite jvp_step_poly_compose by assumption. rewrite IHc.
        replace (vf_k v + S n)%nat with (S (vf_k v + n)) by lia. reflexivity.
  Qed.

  Lemma jvp_iter_polys (v : vfield) n m :
    jvp_iter v (jvp_polys v m) n = map (fun i => jvp_polys v (m + i)) (seq 0 n).
  Proof.
    revert m. induction n as [|n IH]; intro m; [reflexivity|].
    simpl jvp_iter. change (jvp_step v (jvp_polys v m)) with (jvp_polys v (S m)).
    rewrite IH. simpl seq. simpl map. rewrite Nat.add_0_r. f_equal.
    rewrite <- seq_shift, map_map. apply map_ext. intro i.
    replace (m + S i)%nat with (S (m + i)) by lia. reflexivity.
  Qed.

  (* T10.3 *)
  Theorem via_jvp_correct_autonomous (v : vfield) (t0 : F) (inits : list tvec) (num : nat) :
    1 <= vf_k v -> wf_problem v inits -> autonomous v ->
    via_jvp_model v inits t0 num = Some (spec_derivs v t0 inits num).
  Proof.
    intros Hk Hwf Haut. pose proof Hwf as [Hf [Hi Hd]].
    set (a := sol v t0 (normalise inits)).
    assert (Hsol : is_formal_solution v t0 a)
      by (apply spec_is_formal_solution; rewrite normalise_length; exact Hi).
    destruct num as [|num'].
    - simpl. unfold spec_derivs. simpl. rewrite denormalise_normalise. reflexivity.
    - unfold via_jvp_model. rewrite Hi, Nat.eqb_refl. f_equal.
      change (vf_f v) with (jvp_polys v 0). rewrite jvp_iter_polys.
      apply all_good_is_spec; [exact Hwf| |].
      + rewrite app_length, map_length, map_length, seq_length. lia.
      + intros n Hn.
        destruct (Nat.lt_ge_cases n (vf_k v)) as [Hlt|Hge].
        * rewrite app_nth1 by lia. apply sol_inits; assumption.
        * rewrite app_length, !map_length, seq_length in Hn.
          rewrite app_nth2 by lia. rewrite Hi. rewrite map_map.
          rewrite nth_map_seq by lia. simpl plus.
          set (i := (n - vf_k v)%nat).
          rewrite (map_nth_seq _ (jvp_polys v i) []). rewrite jvp_polys_length, Hf.
          unfold dvec. apply map_ext_in. intros b Hb. apply in_seq in Hb.
          rewrite <- (curve_env_at0 (vf_k v) (vf_d v) a t0 inits Hi
                        (fun j Hj => sol_inits v t0 inits j Hwf Hj)).
          rewrite <- (fs_compose_at0 (curve_env (vf_k v) (vf_d v) a t0) (nth b (jvp_polys v i) [])).
          destruct (jvp_polys_invariant v t0 a i b Hsol Haut) as [_ Hc]; [lia|].
          rewrite (fs_eq_at _ _ Hc 0%nat). rewrite curve_fs_rise, rise_0.
          replace (0 + (vf_k v + i))%nat with n by (unfold i; lia).
          replace (vf_k v + i)%nat with n by (unfold i; lia). reflexivity.
  Qed.

  (* T10.5: the routines agree on their common domain *)
  Corollary routines_agree (v : vfield) (t0 : F) (inits : list tvec) (num : nat) :
    1 <= vf_k v -> wf_problem v inits ->
    padded_scan_model v inits t0 num = unroll_model v inits t0 num /\
    (autonomous v -> via_jvp_model v inits t0 num = unroll_model v inits t0 num).
  Proof.
    intros Hk Hwf. split.
    - rewrite padded_scan_correct, unroll_correct by assumption. reflexivity.
    - intro Haut. rewrite via_jvp_correct_autonomous, unroll_correct by assumption. reflexivity.
  Qed.

  (* ---- jetexpand_ode_via_jvp as coded now: t as one more primal with tangent 1 ---- *)
  (* F_{n+1} = <grad_x F_n, (x_1, .., f)> + dF_n/dt : what jetexpand_ode_via_jvp
     would compute if t were passed to jvp as an extra primal with tangent 1
     (Model/Jet.v via_jvp_fixed_model) *)
  Lemma fs_compose_pone (env : list fs) : fs_compose env pone == fs_const 1.
  Proof.
    change (fs_add (fs_scale 1 (fs_exps env [])) (fs_const 0) == fs_const 1).
    rewrite fs_exps_nil_r, fs_scale_mul. ring.
  Qed.

  Lemma jvp_step_poly_fixed_compose (v : vfield) t0 (a : nat -> nat -> F) (g : poly) :
    is_formal_solution v t0 a ->
    fs_compose (curve_env (vf_k v) (vf_d v) a t0) (jvp_step_poly_fixed v g)
    == fs_D (fs_compose (curve_env (vf_k v) (vf_d v) a t0) g).
  Proof.
    intros Hsol. unfold jvp_step_poly_fixed.
    rewrite fs_compose_padd, fs_compose_pmul, fs_compose_pone.
    rewrite fs_D_compose, curve_env_length. set (env := curve_env (vf_k v) (vf_d v) a t0).
    rewrite seq_S, map_app, Nat.add_0_l. simpl map at 2.
    assert (Etime : fs_D (nth (vf_k v * vf_d v) env (fs_const 0)) == fs_const 1).
    { unfold env, curve_env. rewrite app_nth2 by (rewrite map_length, seq_length; lia).
      rewrite map_length, seq_length, Nat.sub_diag. simpl nth. apply fs_D_time. }
    assert (Efold : forall (l : list nat),
               (forall idx, In idx l -> idx < vf_k v * vf_d v) ->
               fs_compose env
                 (fold_right (fun idx acc =>
                     padd (pmul (diff_poly idx g)
                                (jvp_tangent v (idx / vf_d v) (idx mod vf_d v))) acc) [] l)
               == fs_sum (map (fun v0 => fs_mul (fs_compose env (diff_poly v0 g))
                                                 (fs_D (nth v0 env (fs_const 0)))) l)).
    { induction l as [|idx l IH]; intro Hl.
      - simpl. reflexivity.
      - simpl fold_right. simpl map. simpl fs_sum.
        rewrite fs_compose_padd, fs_compose_pmul, IH by (intros; apply Hl; right; assumption).
        unfold env at 2. rewrite (jvp_tangent_compose v t0 a idx Hsol) by (apply Hl; left; reflexivity).
        reflexivity. }
    unfold jvp_step_poly. rewrite Efold by (intros idx Hidx; apply in_seq in Hidx; lia).
    clear Efold. generalize (map (fun v0 => fs_mul (fs_compose env (diff_poly v0 g))
                                                   (fs_D (nth v0 env (fs_const 0))))
                                 (seq 0 (vf_k v * vf_d v))).
    intro l. induction l as [|x l IH].
    - simpl. rewrite Etime. ring.
    - simpl. rewrite <- IH. ring.
  Qed.

  Lemma jvp_polys_fixed_length (v : vfield) n : length (jvp_polys_fixed v n) = length (vf_f v).
  Proof. induction n as [|n IH]; simpl; [reflexivity|]. rewrite map_length. exact IH. Qed.

  Lemma jvp_step_poly_fixed_nil (v : vfield) : jvp_step_poly_fixed v [] = [].
  Proof. unfold jvp_step_poly_fixed. rewrite jvp_step_poly_nil. reflexivity. Qed.

  Lemma jvp_polys_fixed_invariant (v : vfield) t0 (a : nat -> nat -> F) n b :
    is_formal_solution v t0 a -> b < vf_d v ->
    fs_compose (curve_env (vf_k v) (vf_d v) a t0) (nth b (jvp_polys_fixed v n) [])
    == curve_fs a (vf_k v + n) b.
  Proof.
    intros Hsol Hb. induction n as [|n IHc].
    - rewrite Nat.add_0_r. constructor. intro m. symmetry. apply Hsol. exact Hb.
    - simpl jvp_polys_fixed.
      assert (E : nth b (map (jvp_step_poly_fixed v) (jvp_polys_fixed v n)) []
                  = jvp_step_poly_fixed v (nth b (jvp_polys_fixed v n) [])).
      { destruct (Nat.lt_ge_cases b (length (jvp_polys_fixed v n))) as [Hl|Hl].
        - rewrite (nth_indep _ [] (jvp_step_poly_fixed v [])) by (rewrite map_length; exact Hl).
          apply map_nth.
        - rewrite !nth_overflow by (try rewrite map_length; exact Hl).
          symmetry. apply jvp_step_poly_fixed_nil. }
      rewrite E, jvp_step_poly_fixed_compose by assumption. rewrite IHc.
      replace (vf_k v + S n)%nat with (S (vf_k v + n)) by lia. reflexivity.
  Qed.

  (* the routine as coded now is correct for EVERY polynomial field, time-dependent or not *)
  Theorem via_jvp_fixed_correct (v : vfield) (t0 : F) (inits : list tvec) (num : nat) :
    1 <= vf_k v -> wf_problem v inits ->
    via_jvp_fixed_model v inits t0 num = Some (spec_derivs v t0 inits num).
  Proof.
    intros Hk Hwf. pose proof Hwf as [Hf [Hi Hd]].
    set (a := sol v t0 (normalise inits)).
    assert (Hsol : is_formal_solution v t0 a)
      by (apply spec_is_formal_solution; rewrite normalise_length; exact Hi).
    destruct num as [|num'].
    - simpl. unfold spec_derivs. simpl. rewrite denormalise_normalise. reflexivity.
    - unfold via_jvp_fixed_model. rewrite Hi, Nat.eqb_refl. f_equal.
      apply all_good_is_spec; [exact Hwf| |].
      + rewrite app_length, map_length, seq_length. lia.
      + intros n Hn.
        destruct (Nat.lt_ge_cases n (vf_k v)) as [Hlt|Hge].
        * rewrite app_nth1 by lia. apply sol_inits; assumption.
        * rewrite app_length, !map_length, seq_length in Hn.
          rewrite app_nth2 by lia. rewrite Hi.
          rewrite nth_map_seq by lia. simpl plus.
          set (i := (n - vf_k v)%nat).
          rewrite (map_nth_seq _ (jvp_polys_fixed v i) []). rewrite jvp_polys_fixed_length, Hf.
          unfold dvec. apply map_ext_in. intros b Hb. apply in_seq in Hb.
          rewrite <- (curve_env_at0 (vf_k v) (vf_d v) a t0 inits Hi
                        (fun j Hj => sol_inits v t0 inits j Hwf Hj)).
          rewrite <- (fs_compose_at0 (curve_env (vf_k v) (vf_d v) a t0)
                                     (nth b (jvp_polys_fixed v i) [])).
          pose proof (jvp_polys_fixed_invariant v t0 a i b Hsol) as Hc.
          rewrite (fs_eq_at _ _ (Hc ltac:(lia)) 0%nat). rewrite curve_fs_rise, rise_0.
          replace (0 + (vf_k v + i))%nat with n by (unfold i; lia).
          replace (vf_k v + i)%nat with n by (unfold i; lia). reflexivity.
  Qed.

  (* T10.5 for the routines as coded now: all three agree for EVERY field *)
  Corollary routines_agree_all_fields (v : vfield) (t0 : F) (inits : list tvec) (num : nat) :
    1 <= vf_k v -> wf_problem v inits ->
    padded_scan_model v inits t0 num = unroll_model v inits t0 num /\
    via_jvp_fixed_model v inits t0 num = unroll_model v inits t0 num.
  Proof.
    intros Hk Hwf. split.
    - rewrite padded_scan_correct, unroll_correct by assumption. reflexivity.
    - rewrite via_jvp_fixed_correct, unroll_correct by assumption. reflexivity.
  Qed.
End JetProofs.

(* ============================================== Part 6: Newton doubling *)
Section Doubling.
  Context {F : Type} `{FL : FieldLaws F}.
  Local Open Scope F_scope.
  Add Field FDbl : fth.
  Add Ring FSringD : fs_ring_theory.
  Local Notation fs := (@fs F).
  Local Notation series := (@series F).
  Local Notation poly := (@poly F).
  Local Notation vfield := (@vfield F).
  Local Notation tvec := (list F).
  Local Infix "==" := fs_eq (at level 70).

  (* ---- series whose coefficients below n vanish ---- *)
  Definition lowzero (n : nat) (a : fs) : Prop := forall i, i < n -> a i = 0.

  Lemma lowzero_eq n a b : a == b -> lowzero n a -> lowzero n b.
  Proof. intros [E] Ha i Hi. rewrite <- E. apply Ha. exact Hi. Qed.
  Lemma lowzero_const0 n : lowzero n (fs_const 0).
  Proof. intros i _. unfold fs_const. destruct i; reflexivity. Qed.
  Lemma lowzero_add n a b : lowzero n a -> lowzero n b -> lowzero n (fs_add a b).
  Proof. intros Ha Hb i Hi. unfold fs_add. rewrite Ha, Hb by exact Hi. ring. Qed.
  Lemma lowzero_mul n m a b : lowzero n a -> lowzero m b -> lowzero (n + m) (fs_mul a b).
  Proof.
    intros Ha Hb i Hi. unfold fs_mul.
    rewrite (vsum_ext (S i) _ (fun _ => 0)); [apply vsum_zero|].
    intros j Hj. destruct (Nat.lt_ge_cases j n) as [Hlt|Hge].
    - rewrite Ha by exact Hlt. ring.
    - rewrite Hb by lia. ring.
  Qed.
  Lemma lowzero_mul_l n a b : lowzero n a -> lowzero n (fs_mul a b).
  Proof.
    intro Ha. replace n with (n + 0)%nat by lia. apply lowzero_mul; [exact Ha|].
    intros i Hi. lia.
  Qed.
  Lemma lowzero_mul_r n a b : lowzero n b -> lowzero n (fs_mul a b).
  Proof. intro Hb. apply (lowzero_eq n (fs_mul b a)); [ring|]. apply lowzero_mul_l. exact Hb. Qed.
  Lemma lowzero_sum {A} n (g : A -> fs) l :
    (forall x, In x l -> lowzero n (g x)) -> lowzero n (fs_sum (map g l)).
  Proof.
    induction l as [|x l IH]; intro Hg; simpl; [apply lowzero_const0|].
    apply lowzero_add; [apply Hg; left; reflexivity|]. apply IH. intros; apply Hg; right; assumption.
  Qed.

  (* ---- first-order Taylor expansion of a composition, modulo tau^(2 deg) ---- *)
  Definition dpow (x : fs) (e : nat) : fs :=
    match e with O => fs_const 0 | S e' => fs_scale (fnat e) (fs_pow x e') end.

  Lemma taylor_pow deg (x h : fs) e :
    lowzero deg h ->
    exists r, lowzero (deg + deg) r /\
              fs_pow (fs_add x h) e == fs_add (fs_add (fs_pow x e) (fs_mul (dpow x e) h)) r.
  Proof.
    intro Hh. induction e as [|e [r [Hr E]]].
    - exists (fs_const 0). split; [apply lowzero_const0|]. simpl. ring.
    - exists (fs_add (fs_mul (fs_mul h (dpow x e)) h) (fs_mul (fs_add x h) r)). split.
      + apply lowzero_add.
        * apply lowzero_mul; [apply lowzero_mul_l; exact Hh|exact Hh].
        * apply lowzero_mul_r. exact Hr.
      + change (fs_pow (fs_add x h) (S e)) with (fs_mul (fs_add x h) (fs_pow (fs_add x h) e)).
        rewrite E. destruct e as [|e'].
        * simpl dpow. simpl fs_pow. rewrite !fs_scale_mul.
          assert (E1 : fs_const (fnat 1) == fs_const 1) by (constructor; intro n; reflexivity).
          rewrite E1. ring.
        * unfold dpow. rewrite !fs_scale_mul. rewrite (fnat_succ (S e')), fs_const_add.
          change (fs_pow x (S (S e'))) with (fs_mul x (fs_pow x (S e'))).
          change (fs_pow x (S e')) with (fs_mul x (fs_pow x e')). ring.
  Qed.

  Lemma dexps_cons_0 (x : fs) env e es :
    dexps (x :: env) (e :: es) 0 == fs_mul (dpow x e) (fs_exps env es).
  Proof.
    unfold dexps. simpl dec_at. destruct e as [|e'].
    - simpl. ring.
    - simpl fs_exps. unfold dpow. rewrite !fs_scale_mul. ring.
  Qed.
  Lemma dexps_cons_S (x : fs) env e es v :
    dexps (x :: env) (e :: es) (S v) == fs_mul (fs_pow x e) (dexps env es v).
  Proof.
    unfold dexps. simpl dec_at. destruct (dec_at v es) as [[k r]|].
    - simpl fs_exps. rewrite !fs_scale_mul. ring.
    - ring.
  Qed.

  Lemma taylor_exps deg (env hs : list fs) es :
    length hs = length env -> (forall h, In h hs -> lowzero deg h) ->
    exists r, lowzero (deg + deg) r /\
      fs_exps (zipw fs_add env hs) es
      == fs_add (fs_add (fs_exps env es)
                        (fs_sum (map (fun v => fs_mul (dexps env es v) (nth v hs (fs_const 0)))
                                     (seq 0 (length env)))))
                r.
  Proof.
    revert hs es. induction env as [|x env IH]; intros hs es HL Hh.
    - destruct hs; [|discriminate]. exists (fs_const 0). split; [apply lowzero_const0|].
      simpl. destruct es; ring.
    - destruct hs as [|h hs]; [discriminate|]. simpl in HL.
      destruct es as [|e es].
      + exists (fs_const 0). split; [apply lowzero_const0|].
        simpl zipw. simpl fs_exps.
        rewrite (fs_sum_ext _ (fun _ => fs_const 0)).
        * rewrite fs_sum_zero. ring.
        * intros v _. unfold dexps. destruct v; simpl; ring.
      + destruct (IH hs es) as [r' [Hr' E']]; [lia|intros; apply Hh; right; assumption|].
        destruct (taylor_pow deg x h e) as [rp [Hrp Ep]]; [apply Hh; left; reflexivity|].
        set (R0 := fs_exps env es).
        set (L := fs_sum (map (fun v => fs_mul (dexps env es v) (nth v hs (fs_const 0)))
                              (seq 0 (length env)))).
        assert (HL' : lowzero deg L).
        { unfold L. apply lowzero_sum. intros v Hv. apply in_seq in Hv. apply lowzero_mul_r.
          apply Hh. right. apply nth_In. lia. }
        assert (Hh0 : lowzero deg h) by (apply Hh; left; reflexivity).
        exists (fs_add (fs_add (fs_mul (fs_pow x e) r')
                               (fs_mul (fs_mul (dpow x e) h) (fs_add L r')))
                       (fs_mul rp (fs_add (fs_add R0 L) r'))).
        split.
        * apply lowzero_add; [apply lowzero_add|].
          -- apply lowzero_mul_r. exact Hr'.
          -- apply lowzero_mul.
             ++ apply lowzero_mul_r. exact Hh0.
             ++ apply lowzero_add; [exact HL'|].
                intros i Hi. apply Hr'. lia.
          -- apply lowzero_mul_l. exact Hrp.
        * simpl zipw. simpl fs_exps. rewrite E', Ep. fold R0 L.
          simpl length. rewrite <- cons_seq, <- seq_shift. rewrite map_cons, map_map. simpl fs_sum.
          rewrite dexps_cons_0. fold R0. simpl nth at 1.
          rewrite (fs_sum_ext
                     (fun v => fs_mul (dexps (x :: env) (e :: es) (S v)) (nth v hs (fs_const 0)))
                     (fun v => fs_mul (fs_pow x e)
                                      (fs_mul (dexps env es v) (nth v hs (fs_const 0))))).
          2:{ intros v _. rewrite dexps_cons_S. ring. }
          rewrite fs_sum_mul_l. fold L. ring.
  Qed.

  Theorem taylor_compose deg (env hs : list fs) (p : poly) :
    length hs = length env -> (forall h, In h hs -> lowzero deg h) ->
    exists r, lowzero (deg + deg) r /\
      fs_compose (zipw fs_add env hs) p
      == fs_add (fs_add (fs_compose env p)
                        (fs_sum (map (fun v => fs_mul (fs_compose env (diff_poly v p))
                                                      (nth v hs (fs_const 0)))
                                     (seq 0 (length env)))))
                r.
  Proof.
    intros HL Hh. induction p as [|m p [r [Hr E]]].
    - exists (fs_const 0). split; [apply lowzero_const0|].
      rewrite !fs_compose_nil.
      rewrite (fs_sum_ext _ (fun _ => fs_const 0)).
      + rewrite fs_sum_zero. ring.
      + intros v _. change (diff_poly v (@nil (@mono F))) with (@nil (@mono F)).
        rewrite fs_compose_nil. ring.
    - destruct (taylor_exps deg env hs (snd m) HL Hh) as [rm [Hrm Em]].
      exists (fs_add (fs_mul (fs_const (fst m)) rm) r). split.
      + apply lowzero_add; [apply lowzero_mul_r; exact Hrm|exact Hr].
      + rewrite !fs_compose_cons, E. unfold fs_mono. rewrite Em, !fs_scale_mul.
        rewrite (fs_sum_ext
                   (fun v => fs_mul (fs_compose env (diff_poly v (m :: p))) (nth v hs (fs_const 0)))
                   (fun v => fs_add
                               (fs_mul (fs_const (fst m))
                                       (fs_mul (dexps env (snd m) v) (nth v hs (fs_const 0))))
                               (fs_mul (fs_compose env (diff_poly v p)) (nth v hs (fs_const 0))))).
        2:{ intros v _. unfold diff_poly at 1. simpl flat_map.
            rewrite fs_compose_app, fs_compose_diff_mono, fs_scale_mul.
            fold (diff_poly v p). ring. }
        rewrite fs_sum_add, fs_sum_mul_l. ring.
  Qed.

  (* ---- tools ---- *)
  Lemma fs_compose_ext (env env' : list fs) (p : poly) :
    Forall2 fs_eq env env' -> fs_compose env p == fs_compose env' p.
  Proof.
    intro E. constructor. intro n. apply (fs_compose_agreeN (S n)); [|lia].
    induction E as [|x y l l' Exy E IH]; constructor; [apply fs_eq_agreeN; exact Exy|exact IH].
  Qed.

  Lemma fs_exps_no_var_last (X : list fs) (T T' : fs) es :
    nth (length X) es 0%nat = 0%nat -> fs_exps (X ++ [T]) es == fs_exps (X ++ [T']) es.
  Proof.
    revert es. induction X as [|x X IH]; intros es Hz.
    - destruct es as [|e es]; [reflexivity|]. simpl in Hz. subst e. simpl. ring.
    - destruct es as [|e es]; [reflexivity|]. simpl app. simpl fs_exps.
      rewrite (IH es) by exact Hz. reflexivity.
  Qed.
  Lemma fs_compose_no_var_last (X : list fs) (T T' : fs) (p : poly) :
    no_var (length X) p -> fs_compose (X ++ [T]) p == fs_compose (X ++ [T']) p.
  Proof.
    intro Hp. induction p as [|m p IH]; [reflexivity|].
    rewrite !fs_compose_cons. rewrite IH by (intros m' Hm'; apply Hp; right; exact Hm').
    unfold fs_mono. rewrite (fs_exps_no_var_last X T T') by (apply Hp; left; reflexivity).
    reflexivity.
  Qed.

  Lemma vsum_split a b (f : nat -> F) : vsum (a + b) f = vsum a f + vsum b (fun j => f (a + j)%nat).
  Proof.
    induction b as [|b IH].
    - rewrite Nat.add_0_r. simpl. ring.
    - replace (a + S b)%nat with (S (a + b)) by lia. simpl. rewrite IH. ring.
  Qed.

  (* tau^n * e *)
  Definition shift (n : nat) (e : fs) : fs := fun j => if Nat.ltb j n then 0 else e (j - n)%nat.

  Lemma fs_mul_shift (A e : fs) n i : fs_mul A (shift n e) (n + i)%nat = fs_mul A e i.
  Proof.
    unfold fs_mul. replace (S (n + i)) with (S i + n)%nat by lia. rewrite vsum_split.
    rewrite (vsum_ext n _ (fun _ => 0)).
    - rewrite vsum_zero. transitivity (vsum (S i) (fun j => A j * e (i - j)%nat)); [|reflexivity].
      rewrite (vsum_ext (S i) (fun j => A j * shift n e (n + i - j)%nat)
                        (fun j => A j * e (i - j)%nat)); [ring|].
      intros j Hj. unfold shift. replace (Nat.ltb (n + i - j) n) with false
        by (symmetry; apply Nat.ltb_ge; lia).
      replace (n + i - j - n)%nat with (i - j)%nat by lia. reflexivity.
    - intros j Hj. unfold shift. replace (Nat.ltb (n + i - (S i + j)) n) with true
        by (symmetry; apply Nat.ltb_lt; lia). ring.
  Qed.

  Lemma lowzero_shift n e : lowzero n (shift n e).
  Proof. intros i Hi. unfold shift. replace (Nat.ltb i n) with true by (symmetry; apply Nat.ltb_lt; lia). reflexivity. Qed.

  Lemma fs_sum_at {A} (g : A -> fs) l n :
    fs_sum (map g l) n = fold_right (fun x acc => g x n + acc) 0 l.
  Proof.
    induction l as [|x l IH]; simpl; [unfold fs_const; destruct n; reflexivity|].
    unfold fs_add at 1. rewrite IH. reflexivity.
  Qed.
  Lemma fold_seq_vsum (g : nat -> F) n : fold_right (fun x acc => g x + acc) 0 (seq 0 n) = vsum n g.
  Proof.
    induction n as [|n IH]; [reflexivity|]. rewrite seq_S, fold_right_app. simpl.
    rewrite <- IH. clear IH. generalize (seq 0 n). intro l.
    induction l as [|x l IHl]; simpl; [ring|]. rewrite IHl. ring.
  Qed.

  Lemma zipw_app {A B C} (h : A -> B -> C) l1 l1' l2 l2' :
    length l1 = length l2 -> zipw h (l1 ++ l1') (l2 ++ l2') = zipw h l1 l2 ++ zipw h l1' l2'.
  Proof.
    revert l2. induction l1 as [|x l1 IH]; intros [|y l2] HL; simpl in HL; try discriminate.
    - reflexivity.
    - simpl. rewrite IH by lia. reflexivity.
  Qed.
  Lemma zipw_map_both {A B C D} (h : B -> C -> D) (g1 : A -> B) (g2 : A -> C) l :
    zipw h (map g1 l) (map g2 l) = map (fun x => h (g1 x) (g2 x)) l.
  Proof. induction l as [|x l IH]; simpl; [reflexivity|]. rewrite IH. reflexivity. Qed.

  Lemma set_nth_length {A} n (x : A) l : length (set_nth n x l) = length l.
  Proof. revert n. induction l as [|y l IH]; intros [|n]; simpl; try reflexivity. rewrite IH. reflexivity. Qed.
  Lemma set_nth_same {A} n (x : A) l d : n < length l -> nth n (set_nth n x l) d = x.
  Proof. revert n. induction l as [|y l IH]; intros [|n] Hn; simpl in *; try lia; [reflexivity|]. apply IH. lia. Qed.
  Lemma set_nth_other {A} n m (x : A) l d : n <> m -> nth m (set_nth n x l) d = nth m l d.
  Proof.
    revert n m. induction l as [|y l IH]; intros [|n] [|m] Hne; simpl; try reflexivity; try lia.
    apply IH. lia.
  Qed.

  (* ---- the Newton step on the level of coefficients ---- *)
  (* truncation of the solution series below deg *)
  Definition ctrunc (a : nat -> nat -> F) (deg b : nat) : fs :=
    fun n => if Nat.ltb n deg then a n b else 0.
  Definition envC (a : nat -> nat -> F) (deg d : nat) (t : F) : list fs :=
    map (ctrunc a deg) (seq 0 d) ++ [fs_const t].

  Lemma fs_sum_app' (l1 l2 : list fs) : fs_sum (l1 ++ l2) == fs_add (fs_sum l1) (fs_sum l2).
  Proof. induction l1 as [|x l1 IH]; simpl; [ring|]. rewrite IH. ring. Qed.

  Lemma newton_coefficient (v : vfield) (t : F) (a : nat -> nat -> F) deg i b' :
    vf_k v = 1%nat -> autonomous v -> is_formal_solution v t a ->
    i < deg -> b' < vf_d v ->
    fnat (S (deg + i)) * a (S (deg + i)) b'
    = fs_compose (envC a deg (vf_d v) t) (nth b' (vf_f v) []) (deg + i)%nat
      + vsum (vf_d v)
             (fun b => fs_mul (fs_compose (envC a deg (vf_d v) t) (diff_poly b (nth b' (vf_f v) [])))
                              (fun j => a (deg + j)%nat b) i).
  Proof.
    intros Hk Haut Hsol Hi Hb'. set (d := vf_d v) in *. set (p := nth b' (vf_f v) []).
    assert (Hd : d <> 0%nat) by lia.
    (* the formal solution, coefficient deg + i *)
    pose proof (Hsol (deg + i)%nat b' Hb') as E0. rewrite Hk in E0. fold d p in E0.
    rewrite curve_fs_rise in E0. simpl rise in E0.
    replace (deg + i + 1)%nat with (S (deg + i)) in E0 by lia.
    transitivity (fnat (S (deg + i)) * 1 * a (S (deg + i)) b'); [ring|]. rewrite E0. clear E0.
    set (U := fun b : nat => (fun n => a n b) : fs).
    set (Eb := fun b : nat => (fun j => a (deg + j)%nat b) : fs).
    set (hs := map (fun b => shift deg (Eb b)) (seq 0 d) ++ [fs_const 0]).
    (* rewrite the environment: solution curve = truncation + tau^deg * tail *)
    assert (E1 : fs_compose (curve_env 1 d a t) p == fs_compose (zipw fs_add (envC a deg d t) hs) p).
    { transitivity (fs_compose (map U (seq 0 d) ++ [fs_time t]) p).
      { apply fs_compose_ext. unfold curve_env. rewrite Nat.mul_1_l. apply Forall2_app.
        - apply Forall2_map_seq. intros idx Hidx. constructor. intro n.
          rewrite curve_fs_rise. rewrite Nat.div_small, Nat.mod_small by lia.
          simpl rise. rewrite Nat.add_0_r. unfold U. ring.
        - constructor; [reflexivity|constructor]. }
      transitivity (fs_compose (map U (seq 0 d) ++ [fs_const t]) p).
      { apply fs_compose_no_var_last. rewrite map_length, seq_length.
        unfold p. apply no_var_nth_nil. intros q Hq. specialize (Haut q Hq).
        rewrite Hk, Nat.mul_1_l in Haut. exact Haut. }
      apply fs_compose_ext. unfold envC, hs.
      rewrite zipw_app by (rewrite !map_length; reflexivity). rewrite zipw_map_both.
      apply Forall2_app.
      - apply Forall2_map_seq. intros b Hb. constructor. intro n.
        unfold U, fs_add, ctrunc, shift, Eb.
        destruct (Nat.ltb_spec n deg) as [Hlt|Hge].
        + ring.
        + replace (deg + (n - deg))%nat with n by lia. ring.
      - simpl. constructor; [|constructor]. constructor. intro n. unfold fs_add, fs_const.
        destruct n; ring. }
    rewrite (fs_eq_at _ _ E1 (deg + i)%nat). clear E1.
    destruct (taylor_compose deg (envC a deg d t) hs p) as [r [Hr ET]].
    - unfold envC, hs. rewrite !app_length, !map_length. reflexivity.
    - intros h Hh. unfold hs in Hh. apply in_app_or in Hh. destruct Hh as [Hh|[<-|[]]].
      + apply in_map_iff in Hh. destruct Hh as [b [<- _]]. apply lowzero_shift.
      + apply lowzero_const0.
    - rewrite (fs_eq_at _ _ ET (deg + i)%nat). clear ET.
      unfold fs_add at 1. rewrite (Hr (deg + i)%nat) by lia.
      unfold fs_add at 1.
      assert (Elen : length (envC a deg d t) = S d)
        by (unfold envC; rewrite app_length, map_length, seq_length; simpl; lia).
      rewrite Elen, seq_S, map_app.
      rewrite (fs_eq_at _ _ (fs_sum_app' _ _) (deg + i)%nat). unfold fs_add at 1.
      simpl map at 2. simpl fs_sum at 2.
      assert (Elast : nth d hs (fs_const 0) = fs_const 0).
      { unfold hs. rewrite app_nth2 by (rewrite map_length, seq_length; lia).
        rewrite map_length, seq_length, Nat.sub_diag. reflexivity. }
      rewrite Elast.
      assert (Ezero : fs_add (fs_mul (fs_compose (envC a deg d t) (diff_poly d p)) (fs_const 0))
                             (fs_const 0) (deg + i)%nat = 0).
      { assert (Ez : fs_add (fs_mul (fs_compose (envC a deg d t) (diff_poly d p)) (fs_const 0))
                            (fs_const 0) == fs_const 0) by ring.
        rewrite (fs_eq_at _ _ Ez). unfold fs_const. destruct (deg + i)%nat; reflexivity. }
      rewrite Ezero. rewrite fs_sum_at, fold_seq_vsum.
      rewrite (vsum_ext d _ (fun b => fs_mul (fs_compose (envC a deg d t) (diff_poly b p)) (Eb b) i)).
      + unfold Eb. ring.
      + intros b Hb. unfold hs. rewrite app_nth1 by (rewrite map_length, seq_length; exact Hb).
        rewrite nth_map_seq by exact Hb. simpl plus. apply fs_mul_shift.
  Qed.

  (* ---- the model of one doubling step ---- *)
  (* normalised coefficient vectors of the solution *)
  Definition cvec (a : nat -> nat -> F) (d n : nat) : tvec := map (fun b => a n b) (seq 0 d).

  Lemma vget_cvec a d n b : b < d -> vget (cvec a d n) b = a n b.
  Proof. intro Hb. unfold vget, cvec. rewrite nth_map_seq by exact Hb. reflexivity. Qed.

  Lemma curve_env_autonomous (v : vfield) (t : F) (a : nat -> nat -> F) (p : poly) :
    vf_k v = 1%nat -> no_var (vf_d v) p ->
    fs_compose (curve_env 1 (vf_d v) a t) p
    == fs_compose (map (fun b => (fun n => a n b) : fs) (seq 0 (vf_d v)) ++ [fs_const t]) p.
  Proof.
    intros Hk Hp. set (d := vf_d v) in *.
    transitivity (fs_compose (map (fun b => (fun n => a n b) : fs) (seq 0 d) ++ [fs_time t]) p).
    - apply fs_compose_ext. unfold curve_env. rewrite Nat.mul_1_l. apply Forall2_app.
      + apply Forall2_map_seq. intros idx Hidx. constructor. intro n.
        rewrite curve_fs_rise. rewrite Nat.div_small, Nat.mod_small by lia.
        simpl rise. rewrite Nat.add_0_r. ring.
      + constructor; [reflexivity|constructor].
    - apply fs_compose_no_var_last. rewrite map_length, seq_length. exact Hp.
  Qed.

  Lemma first_coefficient (v : vfield) (t : F) (a : nat -> nat -> F) deg b' :
    vf_k v = 1%nat -> autonomous v -> is_formal_solution v t a ->
    1 <= deg -> b' < vf_d v ->
    fs_compose (envC a deg (vf_d v) t) (nth b' (vf_f v) []) (deg - 1)%nat = fnat deg * a deg b'.
  Proof.
    intros Hk Haut Hsol Hdeg Hb'. set (d := vf_d v) in *. set (p := nth b' (vf_f v) []).
    pose proof (Hsol (deg - 1)%nat b' Hb') as E0. rewrite Hk in E0. fold d p in E0.
    rewrite curve_fs_rise in E0. simpl rise in E0.
    replace (deg - 1 + 1)%nat with deg in E0 by lia. replace (S (deg - 1)) with deg in E0 by lia.
    transitivity (fnat deg * 1 * a deg b'); [|ring]. rewrite E0.
    assert (Hp : no_var d p).
    { unfold p. apply no_var_nth_nil. intros q Hq. specialize (Haut q Hq).
      rewrite Hk, Nat.mul_1_l in Haut. exact Haut. }
    pose proof (fs_eq_at _ _ (curve_env_autonomous v t a p Hk Hp) (deg - 1)%nat) as E1.
    fold d in E1. rewrite E1. clear E1.
    symmetry. apply (fs_compose_agreeN deg); [|lia].
    unfold envC. apply Forall2_app.
    - apply Forall2_map_seq. intros b Hb n Hn. unfold ctrunc.
      replace (Nat.ltb n deg) with true by (symmetry; apply Nat.ltb_lt; exact Hn). reflexivity.
    - constructor; [apply agreeN_refl|constructor].
  Qed.

  (* the series environment of the embedded jet agrees with the truncated solution *)
  Lemma dbl_env_agreeN (a : nat -> nat -> F) d (tc : list tvec) t N :
    (forall n, n < length tc -> nth n tc [] = cvec a d n) ->
    Forall2 (agreeN N) (map sget (dbl_env N d tc t)) (envC a (length tc) d t).
  Proof.
    intro Htc. unfold dbl_env, envC. rewrite map_app, map_map. apply Forall2_app.
    - apply Forall2_map_seq. intros b Hb n Hn. rewrite sget_mkv by exact Hn. unfold ctrunc.
      destruct (Nat.ltb_spec n (length tc)) as [Hlt|Hge].
      + rewrite Htc by exact Hlt. apply vget_cvec. lia.
      + rewrite nth_overflow by exact Hge. unfold vget. destruct b; reflexivity.
    - simpl. constructor; [apply sget_sconst|constructor].
  Qed.

  Definition dbl_inv (a : nat -> nat -> F) (d deg i : nat) (cs : list tvec) : Prop :=
    length cs = S deg /\ forall j, j <= i -> nth j cs [] = cvec a d (deg + j).

  Theorem double_correct (v : vfield) (t : F) (a : nat -> nat -> F) (tc : list tvec) :
    vf_k v = 1%nat -> length (vf_f v) = vf_d v -> autonomous v -> is_formal_solution v t a ->
    1 <= length tc -> (forall n, n < length tc -> nth n tc [] = cvec a (vf_d v) n) ->
    length (double v t tc) = S (2 * length tc) /\
    forall n, n < S (2 * length tc) -> nth n (double v t tc) [] = cvec a (vf_d v) n.
  Proof.
    intros Hk Hf Haut Hsol Hdeg Htc. unfold double. cbv zeta.
    set (d := vf_d v) in *. set (deg := length tc) in *. set (N := (2 * deg)%nat).
    set (env := dbl_env N d tc t).
    set (EC := envC a deg d t).
    assert (HM1 : forall (p : poly) n, n < N -> sget (scompose N env p) n = fs_compose EC p n).
    { intros p n Hn. rewrite (sget_scompose N) by exact Hn.
      apply (fs_compose_agreeN N); [|exact Hn]. apply dbl_env_agreeN. exact Htc. }
    set (fx := map (scompose N env) (vf_f v)).
    set (Jac := map (fun p => map (fun b => scompose N env (diff_poly b p)) (seq 0 d)) (vf_f v)).
    set (jvp_i := fun (E : list tvec) (i : nat) =>
      map (fun Ja => vsum d (fun b =>
             fs_mul (sget (nth b Ja []))
                    (fun j => if Nat.ltb j deg then vget (nth j E []) b else 0) i)) Jac).
    set (fxi := fun i => map (fun s : series => sget s i) fx).
    set (cs0 := map (fun x => x / fnat deg) (fxi (deg - 1)%nat)).
    set (zeros := map (fun _ : F => 0) cs0).
    set (body := fun (cs : list tvec) (i : nat) =>
      set_nth (S i)
        (zipw (fun a0 b => (a0 + b) / fnat (i + deg + 1)) (fxi (deg + i)%nat)
              (jvp_i (removelast cs) i)) cs).
    (* initial state *)
    assert (Hcs0 : cs0 = cvec a d deg).
    { unfold cs0, fxi, fx. rewrite !map_map. rewrite (map_nth_seq _ (vf_f v) []), Hf. fold d.
      unfold cvec. apply map_ext_in. intros b' Hb'. apply in_seq in Hb'.
      rewrite HM1 by (unfold N; lia). unfold EC, d.
      rewrite first_coefficient by (try assumption; lia).
      field. apply fnat_neq0. lia. }
    assert (Hinit : dbl_inv a d deg 0 (cs0 :: repeat zeros deg)).
    { split; [simpl; rewrite repeat_length; reflexivity|].
      intros j Hj. assert (j = 0%nat) by lia. subst j. simpl. rewrite Nat.add_0_r. exact Hcs0. }
    (* one step *)
    assert (Hstep : forall cs i, i < deg -> dbl_inv a d deg i cs -> dbl_inv a d deg (S i) (body cs i)).
    { intros cs i Hi [Hlen Hcs]. unfold body. split; [rewrite set_nth_length; exact Hlen|].
      intros j Hj. destruct (Nat.eq_dec j (S i)) as [->|Hne].
      - rewrite set_nth_same by lia.
        unfold fxi, fx, jvp_i, Jac. rewrite !map_map. rewrite zipw_map_both.
        rewrite (map_nth_seq _ (vf_f v) []), Hf. fold d. unfold cvec.
        apply map_ext_in. intros b' Hb'. apply in_seq in Hb'.
        set (p := nth b' (vf_f v) []).
        rewrite HM1 by (unfold N; lia).
        rewrite (vsum_ext d _ (fun b => fs_mul (fs_compose EC (diff_poly b p))
                                               (fun j0 => a (deg + j0)%nat b) i)).
        2:{ intros b Hb. rewrite nth_map_seq by exact Hb. simpl plus.
            apply (fs_mul_agreeN (S i)); [| |lia].
            - intros n Hn. apply HM1. unfold N. lia.
            - intros n Hn. replace (Nat.ltb n deg) with true by (symmetry; apply Nat.ltb_lt; lia).
              rewrite removelast_nth by lia. rewrite Hcs by lia. apply vget_cvec. exact Hb. }
        pose proof (newton_coefficient v t a deg i b' Hk Haut Hsol Hi) as HN.
        fold d p EC in HN. rewrite <- HN by lia.
        replace (deg + S i)%nat with (S (deg + i)) by lia.
        replace (i + deg + 1)%nat with (S (deg + i)) by lia.
        field. apply fnat_neq0. lia.
      - rewrite set_nth_other by lia. apply Hcs. lia. }
    (* the loop *)
    assert (Hloop : forall n s cs, s + n <= deg -> dbl_inv a d deg s cs ->
                                   dbl_inv a d deg (s + n) (fold_left body (seq s n) cs)).
    { induction n as [|n IH]; intros s cs Hsn Hinv.
      - rewrite Nat.add_0_r. exact Hinv.
      - simpl seq. simpl fold_left. replace (s + S n)%nat with (S s + n)%nat by lia.
        apply IH; [lia|]. apply Hstep; [lia|exact Hinv]. }
    destruct (Hloop deg 0%nat (cs0 :: repeat zeros deg) ltac:(lia) Hinit) as [Hlen Hfin].
    simpl plus in Hfin.
    change (length (tc ++ fold_left body (seq 0 deg) (cs0 :: repeat zeros deg)) = S (2 * deg) /\
            forall n, n < S (2 * deg) ->
                      nth n (tc ++ fold_left body (seq 0 deg) (cs0 :: repeat zeros deg)) [] = cvec a d n).
    split.
    - rewrite app_length, Hlen. fold deg. lia.
    - intros n Hn. destruct (Nat.lt_ge_cases n deg) as [Hlt|Hge].
      + rewrite app_nth1 by exact Hlt. apply Htc. exact Hlt.
      + rewrite app_nth2 by exact Hge. fold deg. rewrite Hfin by lia.
        replace (deg + (n - deg))%nat with n by lia. reflexivity.
  Qed.

  Lemma iter_double_correct (v : vfield) (t : F) (a : nat -> nat -> F) n : forall (tc : list tvec),
    vf_k v = 1%nat -> length (vf_f v) = vf_d v -> autonomous v -> is_formal_solution v t a ->
    1 <= length tc -> (forall i, i < length tc -> nth i tc [] = cvec a (vf_d v) i) ->
    let tc' := iter n (double v t) tc in
    length tc' = (2 ^ n * (length tc + 1) - 1)%nat /\
    forall i, i < length tc' -> nth i tc' [] = cvec a (vf_d v) i.
  Proof.
    induction n as [|n IH]; intros tc Hk Hf Haut Hsol HL Htc.
    - simpl. split; [lia|exact Htc].
    - destruct (double_correct v t a tc Hk Hf Haut Hsol HL Htc) as [HL1 Htc1].
      simpl iter. destruct (IH (double v t tc) Hk Hf Haut Hsol) as [HL2 Htc2].
      + lia.
      + intros i Hi. apply Htc1. lia.
      + split; [|exact Htc2]. simpl in HL2. rewrite HL2, HL1.
        assert (E2 : (2 ^ S n = 2 * 2 ^ n)%nat) by apply Nat.pow_succ_r'.
        assert (Hp1 : 1 <= 2 ^ n) by (pose proof (Nat.pow_nonzero 2 n ltac:(lia)); lia).
        rewrite E2. nia.
  Qed.

  (* T10.4 *)
  Theorem doubling_correct_autonomous (v : vfield) (t0 : F) (inits : list tvec) (nd : nat) :
    vf_k v = 1%nat -> wf_problem v inits -> autonomous v ->
    doubling_model v inits t0 nd = Some (spec_derivs v t0 inits (2 ^ (S nd) - 2)).
  Proof.
    intros Hk Hwf Haut. pose proof Hwf as [Hf [Hi Hd]].
    set (a := sol v t0 (normalise inits)).
    assert (Hsol : is_formal_solution v t0 a)
      by (apply spec_is_formal_solution; rewrite normalise_length; exact Hi).
    destruct inits as [|u0 [|u1 r]]; simpl in Hi; try lia.
    unfold doubling_model. rewrite Hk. simpl orb.
    assert (Hu0 : u0 = cvec a (vf_d v) 0).
    { pose proof (sol_inits v t0 [u0] 0 Hwf ltac:(lia)) as E. simpl nth in E. rewrite E.
      unfold dvec, cvec. apply map_ext. intro b. simpl ffact. fold a. ring. }
    destruct (iter_double_correct v t0 a nd [u0] Hk Hf Haut Hsol) as [HL Htc].
    - simpl. lia.
    - intros i Hi'. simpl in Hi'. assert (i = 0%nat) by lia. subst i. exact Hu0.
    - simpl length in HL. set (tc := iter nd (double v t0) [u0]) in *.
      rewrite spec_derivs_dvec by exact Hwf. rewrite Hk. fold a.
      assert (E2 : (2 ^ S nd = 2 * 2 ^ nd)%nat) by apply Nat.pow_succ_r'.
      assert (Hp1 : 1 <= 2 ^ nd) by (pose proof (Nat.pow_nonzero 2 nd ltac:(lia)); lia).
      unfold factorial_scaling. rewrite HL.
      replace (2 ^ nd * (1 + 1) - 1)%nat with (1 + (2 ^ S nd - 2))%nat by lia.
      f_equal. apply map_ext_in. intros n Hn. apply in_seq in Hn.
      rewrite Htc by lia.
      unfold cvec, dvec. rewrite map_map. apply map_ext. intro b. ring.
  Qed.

  Corollary doubling_agrees_with_unroll (v : vfield) (t0 : F) (inits : list tvec) (nd : nat) :
    vf_k v = 1%nat -> wf_problem v inits -> autonomous v ->
    doubling_model v inits t0 nd = unroll_model v inits t0 (2 ^ (S nd) - 2).
  Proof.
    intros Hk Hwf Haut. rewrite doubling_correct_autonomous by assumption.
    rewrite unroll_correct by (try assumption; lia). reflexivity.
  Qed.
End Doubling.

(* ================================ Part 7: the pytree wrapper's bookkeeping *)
Section Pytree.
  Context {F : Type} `{FieldOps F}.

  Lemma index_of_nth i (perm : list nat) : In i perm -> nth (index_of i perm) perm 0%nat = i.
  Proof.
    induction perm as [|j perm IH]; intros [].
    - subst j. simpl. rewrite Nat.eqb_refl. reflexivity.
    - simpl. destruct (Nat.eqb_spec i j) as [->|Hne]; [reflexivity|]. simpl. apply IH. assumption.
  Qed.
  Lemma index_of_lt i (perm : list nat) : In i perm -> index_of i perm < length perm.
  Proof.
    induction perm as [|j perm IH]; intros [].
    - subst j. simpl. rewrite Nat.eqb_refl. lia.
    - simpl. destruct (Nat.eqb_spec i j); [lia|]. specialize (IH H0). lia.
  Qed.

  (* unravel after ravel is the identity on d-vectors whenever the flattening
     order [perm] lists every natural coordinate 0..d-1 *)
  Theorem unpermute_permute (perm : list nat) (x : list F) :
    length x = length perm -> (forall i, i < length perm -> In i perm) ->
    unpermute_vec perm (permute_vec perm x) = x.
  Proof.
    intros HL Hcov. unfold unpermute_vec, permute_vec.
    apply (list_eq_nth (@f0 F _)).
    - rewrite map_length, seq_length. symmetry. exact HL.
    - intros i Hi. rewrite map_length, seq_length in Hi.
      rewrite (nth_indep _ f0 (vget (map (fun i0 => vget x i0) perm) (index_of 0 perm)))
        by (rewrite map_length, seq_length; exact Hi).
      rewrite (map_nth (fun i0 => vget (map (fun i1 => vget x i1) perm) (index_of i0 perm))).
      rewrite seq_nth by exact Hi. simpl plus. unfold vget at 1.
      rewrite (nth_indep _ f0 (vget x 0%nat)) by (rewrite map_length; apply index_of_lt; apply Hcov; exact Hi).
      rewrite (map_nth (fun i1 => vget x i1)). rewrite index_of_nth by (apply Hcov; exact Hi).
      reflexivity.
  Qed.
End Pytree.

(* =========================================== Part 5: refutations (at Qc) *)
(* u' = t u + t^2, u(1/2) = 1 : variables (u, t) *)
Definition qc (n : Z) (d : positive) : Qc := Q2Qc (n # d).
Definition witness_field : @vfield Qc :=
  mkVF 1 1 [[ (qc 1 1, [1; 1]); (qc 1 1, [0; 2]) ]].
Definition witness_inits : list (list Qc) := [[qc 1 1]].
Definition witness_t0 : Qc := qc 1 2.

(* rational values of a list of coefficient vectors *)
Definition qvals (l : list (list Qc)) : list (list Q) := map (map (fun x : Qc => this x)) l.
Definition oqvals (o : option (list (list Qc))) : option (list (list Q)) :=
  match o with None => None | Some l => Some (qvals l) end.

Lemma witness_wf : wf_problem witness_field witness_inits /\ (1 <= vf_k witness_field)%nat.
Proof.
  split; [|simpl; lia]. split; [reflexivity|]. split; [reflexivity|].
  intros j Hj. simpl in Hj. assert (j = 0)%nat by lia. subst j. reflexivity.
Qed.

(* the true derivatives (1, 3/4, 19/8, 75/16) *)
Lemma witness_spec :
  qvals (spec_derivs witness_field witness_t0 witness_inits 3)
  = [[1 # 1]; [3 # 4]; [19 # 8]; [75 # 16]]%Q.
Proof. vm_compute. reflexivity. Qed.
(* both routines return (1, 3/4, 3/8, 3/16, ...) *)
Lemma witness_via_jvp :
  oqvals (via_jvp_model witness_field witness_inits witness_t0 3)
  = Some [[1 # 1]; [3 # 4]; [3 # 8]; [3 # 16]]%Q.
Proof. vm_compute. reflexivity. Qed.
Lemma witness_doubling :
  oqvals (doubling_model witness_field witness_inits witness_t0 1)
  = Some [[1 # 1]; [3 # 4]; [3 # 8]]%Q.
Proof. vm_compute. reflexivity. Qed.
(* the repaired recursion on the witness *)
Lemma witness_via_jvp_fixed :
  oqvals (via_jvp_fixed_model witness_field witness_inits witness_t0 3)
  = Some [[1 # 1]; [3 # 4]; [19 # 8]; [75 # 16]]%Q.
Proof. vm_compute. reflexivity. Qed.

Lemma P_via_jvp_closed_over_time_witness_values :
  map (map (fun x : Qc => this x)) (spec_derivs witness_field witness_t0 witness_inits 3)
    = [[1 # 1]; [3 # 4]; [19 # 8]; [75 # 16]]%Q /\
  match via_jvp_model witness_field witness_inits witness_t0 3 with
  | Some l => map (map (fun x : Qc => this x)) l = [[1 # 1]; [3 # 4]; [3 # 8]; [3 # 16]]%Q
  | None => False
  end.
Proof. split; [exact witness_spec|]. vm_compute. reflexivity. Qed.

Lemma P_via_jvp_closed_over_time_refuted :
  exists (v : @vfield Qc) (inits : list (list Qc)) (t0 : Qc) (num : nat),
    (1 <= vf_k v)%nat /\ wf_problem v inits /\
    via_jvp_model v inits t0 num <> Some (spec_derivs v t0 inits num).
Proof.
  exists witness_field, witness_inits, witness_t0, 3%nat.
  split; [apply witness_wf|]. split; [apply witness_wf|].
  intro E. apply (f_equal oqvals) in E. vm_compute in E. discriminate E.
Qed.

Lemma P_doubling_time_dependent_refuted :
  exists (v : @vfield Qc) (inits : list (list Qc)) (t0 : Qc) (nd : nat),
    vf_k v = 1%nat /\ wf_problem v inits /\
    doubling_model v inits t0 nd <> Some (spec_derivs v t0 inits (2 ^ (S nd) - 2)).
Proof.
  exists witness_field, witness_inits, witness_t0, 1%nat.
  split; [reflexivity|]. split; [apply witness_wf|].
  intro E. apply (f_equal oqvals) in E. vm_compute in E. discriminate E.
Qed.


(* ================================================= Examples (satisfiability) *)
(* hypotheses of the theorems above are satisfiable: a well-formed first-order
   time-dependent problem (the witness), a well-formed autonomous second-order
   problem, and a formal solution (by existence) *)
Example ex_wf_time_dependent :
  (1 <= vf_k witness_field)%nat /\ wf_problem witness_field witness_inits.
Proof. split; apply witness_wf. Qed.

(* u'' = u * u' - 1/2 u^2, variables (u, u', t) with zero t-exponents *)
Definition autonomous_field : @vfield Qc :=
  mkVF 2 1 [[ (qc 1 1, [1; 1; 0]); (qc (-1) 2, [2; 0; 0]) ]].
Definition autonomous_inits : list (list Qc) := [[qc 1 2]; [qc (-1) 4]].

Example ex_wf_autonomous :
  (1 <= vf_k autonomous_field)%nat /\ wf_problem autonomous_field autonomous_inits /\
  autonomous autonomous_field.
Proof.
  split; [simpl; lia|]. split.
  - split; [reflexivity|]. split; [reflexivity|].
    intros j Hj. simpl in Hj. destruct j as [|[|j]]; [reflexivity|reflexivity|lia].
  - intros p [<-|[]] m [<-|[<-|[]]]; reflexivity.
Qed.

Example ex_formal_solution_exists :
  exists a, is_formal_solution autonomous_field (qc 1 4) a.
Proof.
  exists (sol autonomous_field (qc 1 4) (normalise autonomous_inits)).
  apply spec_is_formal_solution. reflexivity.
Qed.

(* all routines on the autonomous example: derivatives (1/2, -1/4, -1/4, 1/16) *)
Example ex_routines_on_autonomous :
  oqvals (unroll_model autonomous_field autonomous_inits (qc 1 4) 2)
  = Some [[1 # 2]; [-1 # 4]; [-1 # 4]; [1 # 16]]%Q /\
  oqvals (padded_scan_model autonomous_field autonomous_inits (qc 1 4) 2)
  = Some [[1 # 2]; [-1 # 4]; [-1 # 4]; [1 # 16]]%Q /\
  oqvals (via_jvp_model autonomous_field autonomous_inits (qc 1 4) 2)
  = Some [[1 # 2]; [-1 # 4]; [-1 # 4]; [1 # 16]]%Q.
Proof. vm_compute. repeat split. Qed.

(* u' = u^2 - 1/2 u (first order, autonomous): hypotheses of T10.4 are satisfiable;
   two doublings return the 7 derivatives of the solution *)
Definition autonomous_field1 : @vfield Qc :=
  mkVF 1 1 [[ (qc (-1) 2, [1; 0]); (qc 1 1, [2; 0]) ]].
Example ex_wf_autonomous_first_order :
  vf_k autonomous_field1 = 1%nat /\ wf_problem autonomous_field1 [[qc 1 1]] /\
  autonomous autonomous_field1.
Proof.
  split; [reflexivity|]. split.
  - split; [reflexivity|]. split; [reflexivity|].
    intros j Hj. simpl in Hj. assert (j = 0)%nat by lia. subst j. reflexivity.
  - intros p [<-|[]] m [<-|[<-|[]]]; reflexivity.
Qed.
Example ex_doubling_on_autonomous :
  oqvals (doubling_model autonomous_field1 [[qc 1 1]] (qc 0 1) 2)
  = oqvals (Some (spec_derivs autonomous_field1 (qc 0 1) [[qc 1 1]] 6)) /\
  oqvals (doubling_model autonomous_field1 [[qc 1 1]] (qc 0 1) 2)
  = Some [[1 # 1]; [1 # 2]; [3 # 4]; [13 # 8]; [75 # 16]; [541 # 32]; [4683 # 64]]%Q.
Proof. vm_compute. split; reflexivity. Qed.
