(* Proofs for C10 (Model/Jet.v vs Spec/ODESeries.v). *)
From Coq Require Import List Arith Lia Bool ZArith QArith Qcanon Field Ring.
From PD Require Import Base.Field Base.Matrix Model.Poly Base.Series Spec.ODESeries Model.Jet.
Import ListNotations.
Local Close Scope Qc_scope.
Local Close Scope Q_scope.
Local Open Scope nat_scope.

(* ------------------------------------------------------------ refutations *)
(* u' = t u + t^2, u(1/2) = 1 : variables (u, t) *)
Definition qc (n : Z) (d : positive) : Qc := Q2Qc (n # d).
Definition witness_field : @vfield Qc :=
  mkVF 1 1 [[ (qc 1 1, [1; 1]); (qc 1 1, [0; 2]) ]].
Definition witness_inits : list (list Qc) := [[qc 1 1]].
Definition witness_t0 : Qc := qc 1 2.

(* rational values of a list of coefficient vectors *)
Definition qvals (l : list (list Qc)) : list (list Q) := map (map (fun x : Qc => this x)) l.
Definition oqvals (o : option (list (list Qc))) : option (list (list Q)) :=
  match o with None => None | Some l => Some (qvals l) end.

(* the true derivatives (1, 3/4, 19/8, 75/16) *)
Lemma witness_spec :
  qvals (spec_derivs witness_field witness_t0 witness_inits 3)
  = [[1 # 1]; [3 # 4]; [19 # 8]; [75 # 16]]%Q.
Proof. vm_compute. reflexivity. Qed.
(* both routines return (1, 3/4, 3/8, 3/16, ...) *)
Lemma witness_via_jvp :
  oqvals (via_jvp_model witness_field witness_inits witness_t0 3)
  = Some [[1 # 1]; [3 # 4]; [3 # 8]; [3 # 16]]%Q.
Proof. vm_compute. reflexivity. Qed.
Lemma witness_doubling :
  oqvals (doubling_model witness_field witness_inits witness_t0 1)
  = Some [[1 # 1]; [3 # 4]; [3 # 8]]%Q.
Proof. vm_compute. reflexivity. Qed.

Lemma P_via_jvp_time_dependent_refuted :
  exists (v : @vfield Qc) (inits : list (list Qc)) (t0 : Qc) (num : nat),
    vf_k v = 1 /\ length inits = 1 /\
    via_jvp_model v inits t0 num <> Some (spec_derivs v t0 inits num).
Proof.
  exists witness_field, witness_inits, witness_t0, 3.
  split; [reflexivity|]. split; [reflexivity|].
  intro E. apply (f_equal oqvals) in E. vm_compute in E. discriminate E.
Qed.

Lemma P_doubling_time_dependent_refuted :
  exists (v : @vfield Qc) (inits : list (list Qc)) (t0 : Qc) (nd : nat),
    vf_k v = 1 /\ length inits = 1 /\
    doubling_model v inits t0 nd <> Some (spec_derivs v t0 inits (2 ^ (S nd) - 2)).
Proof.
  exists witness_field, witness_inits, witness_t0, 1.
  split; [reflexivity|]. split; [reflexivity|].
  intro E. apply (f_equal oqvals) in E. vm_compute in E. discriminate E.
Qed.
