(* C20 -- bounded-exhaustive reflection over the full CUBE of argument triples
   (multi-field corruptions): every (tcoeffs, flags / std, scale) in cube^3. *)
From Coq Require Import List Bool Arith ZArith.
From PD Require Import Model.Validate Spec.Shapes Proofs.ValidateProofs Proofs.ValidateBounded.
Import ListNotations.

Lemma cube3 : forall (p : aval -> aval -> aval -> bool),
    forallb (fun a => forallb (fun b => forallb (fun c => p a b c) cube) cube) cube = true ->
    forall a b c, In a cube -> In b cube -> In c cube -> p a b c = true.
Proof.
  intros p H a b c Ha Hb Hc.
  rewrite forallb_forall in H. specialize (H a Ha).
  rewrite forallb_forall in H. specialize (H b Hb).
  rewrite forallb_forall in H. exact (H c Hc).
Qed.

Theorem prior_iwp_reflection_bounded_cube :
  forall f tc ie sc, In tc cube -> In ie cube -> In sc cube -> Regular tc ->
    (prior_iwp f tc ie sc = Accept <-> WfPriorIwp f tc ie sc).
Proof.
  intros f tc ie sc H1 H2 H3 Hr. apply agree_iwp_iff; [|exact Hr].
  apply (cube3 (agree_iwp f)); [|assumption|assumption|assumption].
  destruct f; vm_cast_no_check (eq_refl true).
Qed.

Lemma agree_diffuse_iff : forall f m s sc,
    agree_diffuse f m s sc = true -> Regular m -> Regular s ->
    (prior_iwp_diffuse f m s sc = Accept <-> WfPriorDiffuse f m s sc).
Proof.
  intros f m s sc H Hm Hs. unfold agree_diffuse in H.
  apply regular_b_spec in Hm. apply regular_b_spec in Hs. rewrite Hm, Hs in H. simpl in H.
  exact (eqb_iff _ _ _ _ (is_accept_spec _) (wf_prior_diffuse_b_spec f m s sc) H).
Qed.

Theorem prior_iwp_diffuse_isotropic_reflection_bounded_cube :
  forall mean std sc, In mean cube -> In std cube -> In sc cube -> Regular mean -> Regular std ->
    (prior_iwp_diffuse Isotropic mean std sc = Accept <-> WfPriorDiffuse Isotropic mean std sc).
Proof.
  intros m s sc H1 H2 H3 Hm Hs. apply agree_diffuse_iff; auto.
  apply (cube3 (agree_diffuse Isotropic)); [|assumption|assumption|assumption].
  vm_cast_no_check (eq_refl true).
Qed.

Theorem prior_iwp_diffuse_accepts_wellformed_bounded_cube :
  forall f mean std sc, In mean cube -> In std cube -> In sc cube ->
    WfPriorDiffuse f mean std sc -> prior_iwp_diffuse f mean std sc = Accept.
Proof.
  intros f m s sc H1 H2 H3 Hw.
  assert (H : complete_diffuse f m s sc = true).
  { apply (cube3 (complete_diffuse f)); [|assumption|assumption|assumption]. destruct f; vm_cast_no_check (eq_refl true). }
  unfold complete_diffuse in H. apply wf_prior_diffuse_b_spec in Hw. rewrite Hw in H. simpl in H.
  apply is_accept_spec. exact H.
Qed.

(* what the dense / blockdiag constructors DO guarantee for an accepted pair *)
Theorem prior_iwp_diffuse_accepted_partial_bounded_cube :
  forall f mean std sc, In mean cube -> In std cube -> In sc cube -> Regular mean -> Regular std ->
    prior_iwp_diffuse f mean std sc = Accept ->
    WfTcoeffs mean /\ (WfTcoeffs std \/ exists kvs, std = ADict kvs) /\ WfBaseScale f mean sc.
Proof.
  intros f m s sc H1 H2 H3 Hm Hs Ha.
  assert (H : sound_diffuse_weak f m s sc = true).
  { apply (cube3 (sound_diffuse_weak f)); [|assumption|assumption|assumption]. destruct f; vm_cast_no_check (eq_refl true). }
  unfold sound_diffuse_weak in H.
  apply regular_b_spec in Hm. apply regular_b_spec in Hs. apply is_accept_spec in Ha.
  rewrite Hm, Hs, Ha in H. simpl in H.
  apply andb_true_iff in H. destruct H as [H Hc]. apply andb_true_iff in H. destruct H as [Ha' Hb].
  split; [apply wf_tcoeffs_b_spec; exact Ha'|]. split; [|apply wf_basescale_b_spec; exact Hc].
  apply orb_true_iff in Hb. destruct Hb as [Hb|Hb]; [left; apply wf_tcoeffs_b_spec; exact Hb|].
  right. destruct s; try discriminate. exists kvs. reflexivity.
Qed.

(* the hypotheses of the cube theorems are satisfiable *)
Example ex_cube_inhabited :
  In tc_dict cube /\ In APyBool cube /\ In ANone cube /\ Regular tc_dict /\
  WfPriorIwp Dense tc_dict APyBool ANone /\ prior_iwp Dense tc_dict APyBool ANone = Accept.
Proof.
  split; [unfold cube; apply in_or_app; right; apply in_or_app; right; left; reflexivity|].
  split; [unfold cube; apply in_or_app; left; simpl; tauto|].
  split; [unfold cube; apply in_or_app; left; simpl; tauto|].
  split; [apply regular_b_spec; vm_compute; reflexivity|].
  split; [apply wf_prior_iwp_b_spec; vm_compute; reflexivity | vm_compute; reflexivity].
Qed.
