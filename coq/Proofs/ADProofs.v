(* C16: the custom JVP of qr_r (R_dot := Q^T M_dot) preserves the Gram
   derivative but is not the derivative of the triangular factor. *)
From Coq Require Import List Arith Lia Bool Field Ring QArith Qcanon.
From PD Require Import Base.Field Base.Matrix Base.Solve Model.Gauss Spec.RTS Proofs.GaussProofs Proofs.FilterProofs.
Import ListNotations.

Section AD.
  Context {F : Type} `{FL : FieldLaws F}.
  Local Open Scope F_scope.
  Add Field FFa : fth.
  Local Notation mat := (@mat F).

  (* with M = Q R, the rule R_dot = Q^T M_dot satisfies
     R_dot^T R + R^T R_dot = M_dot^T M + M^T M_dot  (derivative of R^T R = M^T M) *)
  Theorem qr_jvp_preserves_gram n m (M Q R Md : mat) :
    mmul n m m Q R = canon n m M ->
    let Rd := mmul m n m (mtr n m Q) Md in
    madd m m (mmul m m m (mtr m m Rd) R) (mmul m m m (mtr m m R) Rd)
    = madd m m (mmul m n m (mtr n m Md) M) (mmul m n m (mtr n m M) Md).
  Proof.
    intros HQR Rd. unfold Rd.
    rewrite mtr_mmul. rewrite mtr_mtr. rewrite mmul_canon_r.
    rewrite mmul_assoc. rewrite HQR. rewrite mmul_canon_r.
    f_equal.
    rewrite <- mmul_assoc. rewrite <- mtr_mmul. rewrite HQR. rewrite mtr_canon. reflexivity.
  Qed.
End AD.

(* Refutation witness (exact rationals): the rule's output is NOT upper
   triangular although R(eps) is upper triangular for every eps, so
   R_dot = Q^T M_dot cannot be the derivative of the triangular factor; every
   quantity read from individual blocks of R (gain, posterior factor) inherits a
   wrong derivative, only R^T R is differentiated correctly. *)
Definition qq (a b : Z) : Qc := Q2Qc (a # (Z.to_pos b)).
Definition wM : @mat Qc := [[qq 3 1; qq 1 1]; [qq 4 1; qq 2 1]].
Definition wQ : @mat Qc := [[qq 3 5; qq (-4) 5]; [qq 4 5; qq 3 5]].
Definition wR : @mat Qc := [[qq 5 1; qq 11 5]; [qq 0 1; qq 2 5]].
Definition wMd : @mat Qc := [[qq 1 1; qq 0 1]; [qq 0 1; qq 0 1]].

Theorem qr_jvp_is_not_triangular_refuted :
  meqb 2 2 (mmul 2 2 2 (mtr 2 2 wQ) wQ) (mid 2) = true /\
  meqb 2 2 (mmul 2 2 2 wQ wR) wM = true /\
  feqb (mget wR 1 0) (Q2Qc 0) = true /\
  feqb (mget (mmul 2 2 2 (mtr 2 2 wQ) wMd) 1 0) (Q2Qc 0) = false.
Proof. repeat split; vm_compute; reflexivity. Qed.
