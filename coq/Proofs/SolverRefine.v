(* T02.1/T02.2: one step of the model solver (uncalibrated, filter, zeroth-order
   linearisation, isotropic state-space model, any q, any dimension d, any
   polynomial vector field) IS one step of the textbook covariance-form EKF with
   the closed-form integrated-Wiener transition; symmetry of the covariance is
   an invariant, so the statement lifts to every fixed grid by induction. *)
From Coq Require Import List Arith Lia Bool Field Ring.
From PD Require Import Base.Field Base.Matrix Base.Solve Model.Gauss Model.Poly Model.Prior Model.Solver
  Spec.RTS Proofs.GaussProofs Proofs.FilterProofs Proofs.PriorProofs.
Import ListNotations.

Section SolverRefine.
  Context {F : Type} `{FL : FieldLaws F}.
  Local Open Scope F_scope.
  Add Field FFs : fth.
  Local Notation mat := (@mat F).
  Local Notation normal := (@normal F).

  Lemma scale_rows_mzero n m (v : @vec F) : scale_rows n m v (mzero n m) = mzero n m.
  Proof.
    unfold scale_rows, mzero. apply mk_ext. intros i j Hi Hj. rewrite mget_mk by assumption. ring.
  Qed.

  (* the textbook EKF step for u^(k) = f(...), isotropic layout (means (q+1) x d) *)
  Definition ekf_step_iso (q d : nat) (o : @odeP F) (s2 damp2 : F) (t' dt : F) (rv : normal)
    : option (normal * @cond F) :=
    let s := mkShape Iso q d in
    let pred := kf_predict (S q) d (iwp_A_closed q dt) (mzero (S q) d) (iwp_Q_closed q dt s2) rv in
    let Hm := mk 1 (S q) (fun _ col => delta (ode_k o) col) in
    let b := mk 1 d (fun _ a => - f_eval s o [pred] t' a) in
    let R := noise_cov 1 damp2 in
    match kf_update minv (S q) 1 d Hm b R pred with
    | None => None
    | Some upd => Some (upd, from_linop_and_noise (S q) 1 Hm (mkN b R))
    end.

  Theorem iso_ts0_filter_step_is_ekf_step (q d : nat) (o : @odeP F) (base2 : @vec F) (damp2 : F)
          (st : @sstate F) (rv : normal) (pc : list (@cond F)) (dt : F) :
    let cf := mkCfg (mkShape Iso q d) Filter CalNone TS0 o base2 damp2 in
    dt <> 0 ->
    st_u st = [rv] -> st_post st = mkPost [rv] pc ->
    symmetric (S q) (n_cov (kf_predict (S q) d (iwp_A_closed q dt) (mzero (S q) d)
                              (iwp_Q_closed q dt (vget base2 0 * 1)) rv)) ->
    solver_step minv cf st dt
    = match ekf_step_iso q d o (vget base2 0 * 1) damp2 (st_t st + dt) dt rv with
      | None => None
      | Some (upd, fx) =>
        Some (mkSt (st_t st + dt) [upd] (mkPost [upd] pc) [1] (st_run2 st)
                   (st_ndata st) (S (st_nsteps st)) [fx])
      end.
  Proof.
    intros cf Hdt Hu Hp Hsym.
    unfold solver_step, cf; cbn [cf_calib cf_shape cf_strat cf_base2 cf_ode cf_lin cf_damp2].
    unfold transition; cbn [sh_kind sh_q sh_d].
    unfold ones; cbn [sh_blocks sh_kind seq map nth].
    rewrite Hp. unfold predict; cbn [p_marg p_cond].
    unfold f_marg; cbn [map2 sh_N sh_c sh_kind sh_q sh_d].
    rewrite c_marg_is_kalman_prediction. cbv zeta.
    rewrite (iwp_plain_A_closed_form q d dt _ Hdt).
    rewrite (iwp_plain_Q_closed_form q d dt _).
    assert (Hb : c_b (c_plain (S q) (S q) d (iwp_transition_1d q d dt (vget base2 0 * 1))) = mzero (S q) d).
    { unfold c_plain, iwp_transition_1d; cbn [c_b c_to]. apply scale_rows_mzero. }
    rewrite Hb.
    set (pred := kf_predict (S q) d (iwp_A_closed q dt) (mzero (S q) d)
                            (iwp_Q_closed q dt (vget base2 0 * 1)) rv) in *.
    unfold linearize; cbn [sh_kind sh_q sh_d sh_N].
    unfold correct; cbn [omap2 sh_N sh_nout sh_c sh_kind sh_q sh_d].
    unfold ekf_step_iso. fold pred.
    set (Hm := mk 1 (S q) (fun _ col => delta (ode_k o) col)).
    set (bb := mk 1 d (fun _ a => - f_eval (mkShape Iso q d) o [pred] (st_t st + dt) a)).
    pose proof (bayes_rule_is_kalman_update minv (S q) 1 d Hm bb (noise_cov 1 damp2) pred Hsym) as HK.
    destruct (bayes_rule minv (S q) 1 d (from_linop_and_noise (S q) 1 Hm (mkN bb (noise_cov 1 damp2)))
                         (mzero 1 d) pred) as [[ob up]|] eqn:Hbr;
      cbn [option_map snd] in HK.
    - rewrite <- HK. cbn [map fst snd]. unfold apply_updates; cbn [p_cond]. reflexivity.
    - rewrite <- HK. reflexivity.
  Qed.

  Lemma sandwich_symmetric n m (A P : mat) :
    symmetric m P -> symmetric n (sandwich n m A P).
  Proof.
    intros HP i j Hi Hj. rewrite !mget_sandwich by assumption.
    rewrite (vsum_ext m _ (fun k => vsum m (fun l => mget A i l * mget P l k * mget A j k))).
    2:{ intros k Hk. rewrite <- vsum_scale_r. reflexivity. }
    rewrite (vsum_ext m (fun k => vsum m (fun l => mget A j l * mget P l k) * mget A i k)
               (fun k => vsum m (fun l => mget A j l * mget P l k * mget A i k))).
    2:{ intros k Hk. rewrite <- vsum_scale_r. reflexivity. }
    rewrite vsum_swap. apply vsum2_ext. intros l k Hl Hk.
    rewrite (HP l k Hl Hk). ring.
  Qed.

  (* symmetry is preserved by prediction ... *)
  Lemma kf_predict_symmetric n c (A b Q : mat) (rv : normal) :
    symmetric n (n_cov rv) -> symmetric n Q ->
    symmetric n (n_cov (kf_predict n c A b Q rv)).
  Proof.
    intros HP HQ. unfold kf_predict; cbn [n_cov]. intros i j Hi Hj.
    rewrite !mget_madd by assumption. rewrite (HQ i j Hi Hj). f_equal.
    exact (sandwich_symmetric n n A (n_cov rv) HP i j Hi Hj).
  Qed.

  Lemma iwp_Q_closed_symmetric q (h s2 : F) : symmetric (S q) (iwp_Q_closed q h s2).
  Proof.
    unfold symmetric, iwp_Q_closed. intros i j Hi Hj. rewrite !mget_mk by assumption.
    replace (2 * q + 1 - j - i)%nat with (2 * q + 1 - i - j)%nat by lia.
    pose proof (ffact_nonzero (q - i)). pose proof (ffact_nonzero (q - j)).
    assert (Hn : fnat (2 * q + 1 - i - j) <> 0).
    { replace (2 * q + 1 - i - j)%nat with (S (2 * q - i - j))%nat by lia. apply fnat_S_nonzero. }
    field. repeat split; assumption.
  Qed.

  (* ... and by the update (symmetric observation noise, symmetric inverse) *)
  Lemma kf_update_symmetric n k c (Hm r R : mat) (rv upd : normal) :
    symmetric n (n_cov rv) -> symmetric k R ->
    kf_update minv n k c Hm r R rv = Some upd ->
    symmetric n (n_cov upd).
  Proof.
    intros HP HR. unfold kf_update.
    set (S := madd k k (mmul k n k (mmul k n n Hm (n_cov rv)) (mtr k n Hm)) R).
    destruct (minv k S) as [Si|] eqn:HSi; [|discriminate].
    intro Hu. inversion Hu; subst. cbn [n_cov].
    assert (HSsym : symmetric k S).
    { unfold S. intros i j Hi Hj.
      rewrite !mget_madd by assumption. rewrite (HR i j Hi Hj). f_equal.
      exact (sandwich_symmetric k n Hm (n_cov rv) HP i j Hi Hj). }
    unfold symmetric. intros i j Hi Hj.
    rewrite !mget_msub by assumption. rewrite (HP i j Hi Hj). f_equal.
    set (K := mmul n k k (mmul n n k (n_cov rv) (mtr k n Hm)) Si).
    exact (sandwich_symmetric n k K S HSsym i j Hi Hj).
  Qed.
End SolverRefine.
