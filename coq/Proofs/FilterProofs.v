(* The model's predict / correct / backward-kernel operations (Model/Gauss.v)
   are the textbook Kalman prediction, Kalman update and Rauch-Tung-Striebel
   step (Spec/RTS.v). *)
From Coq Require Import List Arith Lia Bool Field Ring.
From PD Require Import Base.Field Base.Matrix Base.Solve Model.Gauss Spec.RTS Proofs.GaussProofs.
Import ListNotations.

Section FilterProofs.
  Context {F : Type} `{FL : FieldLaws F}.
  Local Open Scope F_scope.
  Add Field FFf : fth.
  Local Notation mat := (@mat F).
  Local Notation vec := (@vec F).

  Lemma finv_1 : finv (1 : F) = 1.
  Proof. field. apply (F_1_neq_0 fth). Qed.

  Lemma scale_rows_ones n m (X : mat) : scale_rows n m (vones n) X = canon n m X.
  Proof.
    unfold scale_rows, canon. apply mk_ext. intros i j Hi Hj.
    rewrite vget_vones by assumption. ring.
  Qed.
  Lemma dsand_ones n (X : mat) : dsand n (vones n) X = canon n n X.
  Proof.
    unfold dsand, canon. apply mk_ext. intros i j Hi Hj.
    rewrite !vget_vones by assumption. ring.
  Qed.
  Lemma scale_rows_inv_ones n m (X : mat) : scale_rows n m (vinv n (vones n)) X = canon n m X.
  Proof.
    unfold scale_rows, canon. apply mk_ext. intros i j Hi Hj.
    rewrite vget_vinv by assumption. rewrite vget_vones by assumption. rewrite finv_1. ring.
  Qed.
  Lemma dsand_inv_ones n (X : mat) : dsand n (vinv n (vones n)) X = canon n n X.
  Proof.
    unfold dsand, canon. apply mk_ext. intros i j Hi Hj.
    rewrite !vget_vinv by assumption. rewrite !vget_vones by assumption. rewrite finv_1. ring.
  Qed.

  Lemma madd_canon_l n m (X Y : mat) : madd n m (canon n m X) Y = madd n m X Y.
  Proof. apply madd_ext. intros i j Hi Hj. rewrite mget_canon by assumption. reflexivity. Qed.
  Lemma msub_canon_l n m (X Y : mat) : msub n m (canon n m X) Y = msub n m X Y.
  Proof.
    unfold msub. apply mk_ext. intros i j Hi Hj. rewrite mget_canon by assumption. reflexivity.
  Qed.
  Lemma canon_madd n m (X Y : mat) : canon n m (madd n m X Y) = madd n m X Y.
  Proof. unfold madd. apply canon_mk. Qed.
  Lemma canon_msub n m (X Y : mat) : canon n m (msub n m X Y) = msub n m X Y.
  Proof. unfold msub. apply canon_mk. Qed.
  Lemma mtr_canon n m (X : mat) : mtr n m (canon n m X) = mtr n m X.
  Proof.
    unfold mtr. apply mk_ext. intros i j Hi Hj. rewrite mget_canon by assumption. reflexivity.
  Qed.

  (* ---- T02.a: prediction = marginalisation through the plain transition ---- *)
  Theorem c_marg_is_kalman_prediction n c (K : @cond F) (rv : @normal F) :
    c_marg n n c K rv
    = let P := c_plain n n c K in kf_predict n c (c_A P) (c_b P) (c_Q P) rv.
  Proof.
    rewrite c_marg_plain. cbv zeta.
    set (P := c_plain n n c K).
    unfold c_marg, kf_predict.
    assert (Htl : c_tl P = vones n) by reflexivity.
    assert (Hto : c_to P = vones n) by reflexivity.
    rewrite Htl, Hto. rewrite !scale_rows_ones, !dsand_ones.
    f_equal.
    - rewrite canon_madd. rewrite mmul_canon_r. reflexivity.
    - rewrite canon_madd. unfold sandwich. rewrite mmul_canon_r. reflexivity.
  Qed.

  (* ---- T02.b: correction = Kalman update (symmetric prior covariance) ---- *)
  Definition symmetric (n : nat) (P : mat) : Prop :=
    forall i j, i < n -> j < n -> mget P i j = mget P j i.

  Theorem bayes_rule_is_kalman_update inv n k c (Hm r R : mat) (rv : @normal F) :
    symmetric n (n_cov rv) ->
    option_map snd
      (bayes_rule inv n k c (from_linop_and_noise n k Hm (mkN r R)) (mzero k c) rv)
    = kf_update inv n k c Hm r R rv.
  Proof.
    intro Hsym.
    unfold bayes_rule, c_revert, kf_update, from_linop_and_noise, c_apply;
      cbn [c_A c_b c_Q c_tl c_to n_mean n_cov].
    rewrite !scale_rows_ones, !dsand_ones.
    rewrite !mmul_canon_r.
    assert (HG : forall Si, mmul n k k (mtr k n (mmul k n n Hm (n_cov rv))) Si
                 = mmul n k k (mmul n n k (n_cov rv) (mtr k n Hm)) Si).
    { intro Si. f_equal. unfold mtr at 1. unfold mmul at 2. apply mk_ext. intros p q Hp Hq.
      rewrite mget_mmul by assumption. apply vsum_ext. intros l Hl.
      rewrite mget_mtr by assumption. rewrite (Hsym p l) by assumption. ring. }
    destruct (inv k _) as [Si|]; [|reflexivity].
    cbn [option_map snd c_A c_b c_Q c_tl c_to].
    rewrite !scale_rows_inv_ones, !dsand_inv_ones.
    rewrite HG.
    f_equal. f_equal.
    - (* mean: (G 0 + (m - G z)) = m - K z *)
      unfold canon at 1. unfold msub at 2. apply mk_ext. intros i a Hi Ha.
      rewrite mget_madd by assumption.
      rewrite mget_msub by assumption. rewrite mget_canon by assumption.
      rewrite mget_mmul by assumption.
      rewrite (vsum_ext k _ (fun _ => 0)).
      2:{ intros l Hl. rewrite mget_canon by assumption. unfold mzero.
          rewrite mget_mk by assumption. ring. }
      rewrite vsum_zero. ring.
    - (* covariance *)
      rewrite canon_msub. rewrite msub_canon_l. reflexivity.
  Qed.

  (* ------------------------------------------------------------------
     T03.1  The backward conditional stored by the smoothers is the RTS
     backward kernel: for ANY (non-zero) preconditioner scalings, marginalising
     it through the next smoothed marginal is the Rauch-Tung-Striebel update
     with the gain G' = plain form of the stored gain, and G' satisfies the
     gain equation  G' * Cov(prediction) = Cov(filter) * A_plain^T. *)
  Definition rts_with_gain (n c : nat) (G : mat) (filt pred sm : @normal F) : @normal F :=
    mkN (madd n c (canon n c (n_mean filt))
              (mmul n n c G (msub n c (n_mean sm) (n_mean pred))))
        (madd n n (canon n n (n_cov filt))
              (sandwich n n G (msub n n (n_cov sm) (n_cov pred)))).

  Lemma finv_r (x : F) : x <> 0 -> x * finv x = 1.
  Proof. intro Hx. field. exact Hx. Qed.

  Theorem backward_kernel_gain_equation n c (K : @cond F) (filt obs : @normal F) bw :
    (forall i, i < n -> vget (c_tl K) i <> 0) ->
    (forall i, i < n -> vget (c_to K) i <> 0) ->
    c_revert minv n n c K filt = Some (obs, bw) ->
    forall i j, i < n -> j < n ->
    mget (mmul n n n (c_A (c_plain n n c bw)) (n_cov obs)) i j
    = mget (mtr n n (mmul n n n (c_A (c_plain n n c K)) (n_cov filt))) i j.
  Proof.
    intros Htl Hto Hrev i j Hi Hj.
    pose proof (c_revert_gain_equation n n c K filt obs bw Hrev) as Hg. cbv zeta in Hg.
    pose proof (c_revert_observed_is_marginal minv n n c K filt obs bw Hrev) as Hobs.
    assert (Hbw : c_tl bw = vinv n (c_to K) /\ c_to bw = vinv n (c_tl K)).
    { unfold c_revert in Hrev. destruct (minv n _); [|discriminate].
      inversion Hrev; subst. cbn. auto. }
    destruct Hbw as [Hbt Hbo].
    subst obs. unfold c_marg; cbn [n_cov].
    set (P' := dsand n (c_tl K) (n_cov filt)) in *.
    set (S := madd n n (sandwich n n (c_A K) P') (c_Q K)) in *.
    unfold c_plain; cbn [c_A]. rewrite Hbt, Hbo.
    rewrite mget_mmul by assumption.
    rewrite (vsum_ext n _ (fun l => finv (vget (c_tl K) i) * (mget (c_A bw) i l * mget S l j) * vget (c_to K) j)).
    2:{ intros l Hl. rewrite mget_mk by assumption. rewrite mget_dsand by assumption.
        rewrite !vget_vinv by assumption.
        transitivity (finv (vget (c_tl K) i) * (mget (c_A bw) i l * mget S l j) * vget (c_to K) j
                      * (finv (vget (c_to K) l) * vget (c_to K) l)); [ring|].
        rewrite finv_l by (apply Hto; assumption). ring. }
    rewrite vsum_scale_r. rewrite vsum_scale_l.
    rewrite <- (mget_mmul n n n (c_A bw) S i j Hi Hj). rewrite Hg.
    rewrite !mget_mtr by assumption. rewrite !mget_mmul by assumption.
    rewrite <- vsum_scale_l. rewrite <- vsum_scale_r. apply vsum_ext. intros l Hl.
    unfold P'. rewrite mget_dsand by assumption. rewrite mget_mk by assumption.
    transitivity ((finv (vget (c_tl K) i) * vget (c_tl K) i)
                  * (vget (c_to K) j * mget (c_A K) j l * vget (c_tl K) l * mget (n_cov filt) l i)); [ring|].
    rewrite finv_l by (apply Htl; assumption). ring.
  Qed.

  Lemma sandwich_msub n m (A X Y : mat) :
    sandwich n m A (msub m m X Y) = msub n n (sandwich n m A X) (sandwich n m A Y).
  Proof.
    unfold sandwich.
    assert (H1 : mmul n m m A (msub m m X Y) = msub n m (mmul n m m A X) (mmul n m m A Y)).
    { unfold mmul at 1, msub at 2. apply mk_ext. intros i j Hi Hj.
      rewrite !mget_mmul by assumption. rewrite <- vsum_sub. apply vsum_ext. intros l Hl.
      rewrite mget_msub by assumption. ring. }
    rewrite H1.
    unfold mmul at 1, msub at 2. apply mk_ext. intros i j Hi Hj.
    rewrite !mget_mmul by assumption. rewrite <- vsum_sub. apply vsum_ext. intros l Hl.
    rewrite mget_msub by assumption. ring.
  Qed.

  (* the smoothing update computed from the stored backward conditional, for any
     next marginal [sm], is the RTS formula with the plain-form gain *)
  Theorem backward_kernel_is_rts n c (K : @cond F) (filt obs : @normal F) bw :
    (forall i, i < n -> vget (c_tl K) i <> 0) ->
    (forall i, i < n -> vget (c_to K) i <> 0) ->
    c_revert minv n n c K filt = Some (obs, bw) ->
    forall sm,
    c_marg n n c bw sm
    = rts_with_gain n c (c_A (c_plain n n c bw)) filt obs sm.
  Proof.
    intros Htl Hto Hrev sm.
    pose proof (c_revert_observed_is_marginal minv n n c K filt obs bw Hrev) as Hobs.
    rewrite c_marg_is_kalman_prediction. cbv zeta.
    set (G' := c_A (c_plain n n c bw)).
    unfold kf_predict, rts_with_gain.
    unfold c_revert in Hrev.
    destruct (minv n _) as [Si|] eqn:Hinv; [|discriminate].
    inversion Hrev as [[Ho Hb]]. clear Hrev.
    set (m' := scale_rows n c (c_tl K) (n_mean filt)) in *.
    set (P' := dsand n (c_tl K) (n_cov filt)) in *.
    set (AP := mmul n n n (c_A K) P') in *.
    set (S := madd n n (mmul n n n AP (mtr n n (c_A K))) (c_Q K)) in *.
    set (G := mmul n n n (mtr n n AP) Si) in *.
    set (m_obs := madd n c (mmul n n c (c_A K) m') (c_b K)) in *.
    assert (HG' : forall i l, i < n -> l < n ->
               mget G' i l = finv (vget (c_tl K) i) * mget G i l * finv (vget (c_to K) l)).
    { intros i l Hi Hl. unfold G'. rewrite <- Hb. unfold c_plain; cbn [c_A c_to c_tl].
      rewrite mget_mk by assumption. rewrite !vget_vinv by assumption. reflexivity. }
    f_equal.
    - (* means *)
      apply madd_ext. intros i a Hi Ha.
      rewrite !mget_mmul by assumption. rewrite mget_canon by assumption.
      unfold c_plain at 1; cbn [c_b c_to].
      rewrite mget_scale_rows by assumption. rewrite vget_vinv by assumption.
      rewrite mget_msub by assumption.
      unfold m' at 1. rewrite mget_scale_rows by assumption.
      rewrite (vsum_ext n (fun l => mget G' i l * mget (msub n c (n_mean sm) _) l a)
                 (fun l => mget G' i l * mget (n_mean sm) l a
                           - finv (vget (c_tl K) i) * (mget G i l * mget m_obs l a))).
      2:{ intros l Hl. rewrite mget_msub by assumption. cbn [n_mean].
          rewrite mget_scale_rows by assumption. rewrite HG' by assumption.
          transitivity (finv (vget (c_tl K) i) * mget G i l * finv (vget (c_to K) l) * mget (n_mean sm) l a
                        - finv (vget (c_tl K) i) * (mget G i l * mget m_obs l a)
                          * (finv (vget (c_to K) l) * vget (c_to K) l)); [ring|].
          rewrite finv_l by (apply Hto; assumption). ring. }
      rewrite vsum_sub. rewrite vsum_scale_l.
      rewrite <- (mget_mmul n n c G m_obs i a Hi Ha).
      transitivity (vsum n (fun l => mget G' i l * mget (n_mean sm) l a)
                    + ((finv (vget (c_tl K) i) * vget (c_tl K) i) * mget (n_mean filt) i a
                       - finv (vget (c_tl K) i) * mget (mmul n n c G m_obs) i a)); [ring|].
      rewrite finv_l by (apply Htl; assumption). ring.
    - (* covariances *)
      rewrite sandwich_msub.
      apply madd_ext. intros i j Hi Hj.
      rewrite mget_canon by assumption. rewrite mget_msub by assumption.
      unfold c_plain at 1; cbn [c_Q c_to].
      rewrite mget_dsand by assumption. rewrite !vget_vinv by assumption.
      rewrite mget_msub by assumption.
      unfold P' at 1. rewrite mget_dsand by assumption.
      assert (Hs : mget (sandwich n n G' (n_cov obs)) i j
                   = finv (vget (c_tl K) i) * mget (sandwich n n G S) i j * finv (vget (c_tl K) j)).
      { rewrite !mget_sandwich by assumption.
        rewrite <- vsum_scale_l. rewrite <- vsum_scale_r. apply vsum_ext. intros k Hk.
        rewrite HG' by assumption.
        rewrite <- vsum_scale_r. rewrite <- vsum_scale_r. rewrite <- vsum_scale_l. rewrite <- vsum_scale_r.
        apply vsum_ext. intros l Hl.
        rewrite HG' by assumption. rewrite <- Ho. cbn [n_cov].
        rewrite mget_dsand by assumption. fold S.
        transitivity (finv (vget (c_tl K) i) * (mget G i l * mget S l k * mget G j k) * finv (vget (c_tl K) j)
                      * ((finv (vget (c_to K) l) * vget (c_to K) l) * (vget (c_to K) k * finv (vget (c_to K) k)))); [ring|].
        rewrite finv_l by (apply Hto; assumption). rewrite finv_r by (apply Hto; assumption). ring. }
      rewrite <- Ho in Hs. rewrite Hs.
      change (mmul n n n (mmul n n n G' (n_cov sm)) (mtr n n G')) with (sandwich n n G' (n_cov sm)).
      transitivity ((finv (vget (c_tl K) i) * vget (c_tl K) i) * mget (n_cov filt) i j
                    * (vget (c_tl K) j * finv (vget (c_tl K) j))
                    - finv (vget (c_tl K) i) * mget (sandwich n n G S) i j * finv (vget (c_tl K) j)
                    + mget (sandwich n n G' (n_cov sm)) i j); [ring|].
      rewrite finv_l by (apply Htl; assumption). rewrite finv_r by (apply Htl; assumption). ring.
  Qed.

  (* with an identity backward model the marginal is reproduced: when the last
     step ends exactly at the final time, finalize seeds the backward pass with
     the filtering marginal itself *)
  Theorem c_marg_identity n c (rv : @normal F) :
    c_marg n n c (identity_conditional n c) rv
    = mkN (canon n c (n_mean rv)) (canon n n (n_cov rv)).
  Proof.
    unfold c_marg, identity_conditional; cbn [c_A c_b c_Q c_tl c_to].
    rewrite !scale_rows_ones, !dsand_ones.
    f_equal.
    - rewrite canon_madd. rewrite mmul_canon_r. rewrite mmul_id_l.
      unfold madd, canon. apply mk_ext. intros i a Hi Ha.
      rewrite mget_mk by assumption. unfold mzero. rewrite mget_mk by assumption. ring.
    - rewrite canon_madd. unfold sandwich. rewrite mmul_canon_r. rewrite mmul_id_l.
      unfold madd at 1, canon at 2. apply mk_ext. intros i j Hi Hj.
      rewrite mget_mmul by assumption.
      rewrite (vsum_ext n _ (fun l => mget (n_cov rv) i l * delta l j)).
      2:{ intros l Hl. rewrite mget_canon by assumption. rewrite mget_mtr by assumption.
          rewrite mget_mid by assumption. unfold delta. rewrite (Nat.eqb_sym j l). reflexivity. }
      rewrite (vsum_delta_r n j (fun l => mget (n_cov rv) i l) Hj).
      unfold mzero. rewrite mget_mk by assumption. ring.
  Qed.
End FilterProofs.
