(* C20 -- bounded-exhaustive reflection of the prior constructors, by computation.

   The quantifier of the property is "every single-field corruption of an otherwise
   valid argument set".  Here: for every factorisation, every VALID base argument
   set of [bases], and every abstract value of the finite [universe] (all trees of
   depth <= 2 and width <= 2 over 13 kinds of leaves: float / bool arrays of shape
   (), (1,), (2,), (1,2), (2,1), Python bool / float, a function, None, the empty
   tuple), substituted for ONE argument:   validator = Accept  <->  well-formed. *)
From Coq Require Import List Bool Arith ZArith.
From PD Require Import Model.Validate Spec.Shapes Proofs.ValidateProofs.
Import ListNotations.

Definition u_leaves : list aval :=
  [AArr [] DFloat; AArr [1] DFloat; AArr [2] DFloat; AArr [3] DFloat; AArr [1; 2] DFloat; AArr [2; 1] DFloat;
   AArr [] DBool; AArr [1] DBool; AArr [2] DBool; AArr [] DInt; AArr [2] DInt;
   APyBool; APyFloat; APyInt; AFun; AJetOde 1; ANone; ATuple []].

Definition seqs2 (l : list aval) : list (list aval) :=
  [] :: map (fun a => [a]) l ++ flat_map (fun a => map (fun b => [a; b]) l) l.

Definition keyed (s : list aval) : list (nat * aval) :=
  combine (seq 0 (length s)) s.

Definition level (l : list aval) : list aval :=
  map AList (seqs2 l) ++ map ATuple (seqs2 l) ++ map (fun s => ADict (keyed s)) (seqs2 l).

Definition u_depth1 : list aval := u_leaves ++ level u_leaves.

(* depth-2 values over a reduced set of depth-1 values *)
Definition u_inner : list aval :=
  [AArr [] DFloat; AArr [2] DFloat; AArr [1] DFloat; AArr [2] DBool; AArr [] DBool; APyBool; APyFloat; AFun;
   AList [AArr [2] DFloat]; AList [AArr [2] DFloat; AArr [] DFloat]; ATuple [AArr [2] DFloat; AArr [] DFloat];
   ADict [(0, AArr [2] DFloat); (1, AArr [] DFloat)]; ADict [(0, AArr [2] DFloat); (1, AArr [1] DFloat)];
   ADict [(0, AArr [2] DBool); (1, AArr [] DBool)]; ADict [(0, AArr [] DBool); (1, AArr [] DBool)];
   ADict [(0, AArr [2] DFloat)]; ADict [(0, AArr [2] DFloat); (2, AArr [] DFloat)];
   AList [AArr [2] DBool; AArr [] DBool]; ATuple []; ANone;
   AArr [2] DInt; APyInt; AArr [1; 2] DFloat; ATuple [AArr [] DFloat]; AList [];
   AList [AArr [] DBool]; ATuple [AArr [2] DBool; AArr [2] DBool]; AList [AFun]; ADict [(0, AFun)];
   ADict [(0, AArr [1] DBool); (1, AArr [] DBool)]].

Definition universe : list aval := u_depth1 ++ level u_inner.

Record base := mkBase { b_tc : aval; b_ie : aval; b_sc : aval }.

Definition tc_vec : aval := AList [AArr [2] DFloat; AArr [2] DFloat].
Definition tc_scal : aval := ATuple [AArr [] DFloat; AArr [] DFloat].
Definition tc_dict : aval :=
  AList [ADict [(0, AArr [2] DFloat); (1, AArr [] DFloat)]; ADict [(0, AArr [2] DFloat); (1, AArr [] DFloat)]].

Definition bases (f : fact) : list base :=
  match f with
  | Isotropic =>
      [mkBase tc_vec APyBool ANone; mkBase tc_vec (AList [AArr [] DBool; APyBool]) (AArr [] DFloat);
       mkBase tc_scal APyBool APyFloat; mkBase tc_scal (ATuple [AArr [] DBool; AArr [] DBool]) ANone;
       mkBase tc_dict APyBool ANone; mkBase tc_dict (AList [AArr [] DBool; AArr [] DBool]) (AArr [] DFloat)]
  | _ =>
      [mkBase tc_vec APyBool ANone; mkBase tc_vec (AList [AArr [2] DBool; AArr [] DBool]) (AArr [2] DFloat);
       mkBase tc_scal APyBool (AArr [] DFloat); mkBase tc_scal (ATuple [APyBool; AArr [] DBool]) ANone;
       mkBase tc_dict APyBool ANone;
       mkBase tc_dict (AList [ADict [(0, AArr [2] DBool); (1, AArr [] DBool)]; ADict [(0, AArr [] DBool); (1, AArr [] DBool)]])
              (ADict [(0, AArr [2] DFloat); (1, AArr [] DFloat)])]
  end.

Fixpoint regular_b (v : aval) : bool :=
  match v with
  | AList xs | ATuple xs => negb (Nat.eqb (length xs) 0) && forallb regular_b xs
  | ADict kvs => negb (Nat.eqb (length kvs) 0) && forallb (fun kv => match kv with (_, x) => regular_b x end) kvs
  | ANone => false
  | _ => true
  end.

Definition is_accept (v : verdict) : bool := match v with Accept => true | _ => false end.

Definition agree_iwp (f : fact) (tc ie sc : aval) : bool :=
  negb (regular_b tc) || Bool.eqb (is_accept (prior_iwp f tc ie sc)) (wf_prior_iwp_b f tc ie sc).

Definition disagreements_iwp (f : fact) : list (aval * aval * aval) :=
  flat_map (fun b =>
    flat_map (fun x =>
      (if agree_iwp f x (b_ie b) (b_sc b) then [] else [(x, b_ie b, b_sc b)]) ++
      (if agree_iwp f (b_tc b) x (b_sc b) then [] else [(b_tc b, x, b_sc b)]) ++
      (if agree_iwp f (b_tc b) (b_ie b) x then [] else [(b_tc b, b_ie b, x)])) universe) (bases f).

(* a smaller set for the full cube tc x ie x sc (multi-field corruptions) *)
Definition cube : list aval :=
  u_leaves ++
  level [AArr [] DFloat; AArr [2] DFloat; AArr [2] DBool; AArr [] DBool; APyBool] ++
  [tc_dict;
   AList [ADict [(0, AArr [2] DBool); (1, AArr [] DBool)]; ADict [(0, AArr [] DBool); (1, AArr [] DBool)]];
   AList [ADict [(0, AArr [2] DFloat); (1, AArr [] DFloat)]];
   ADict [(0, AArr [2] DFloat); (1, AArr [] DFloat)];
   ADict [(0, AArr [1] DFloat); (1, AArr [] DFloat)];
   AList [AList [AArr [2] DFloat; AArr [] DFloat]; AList [AArr [2] DFloat; AArr [] DFloat]];
   AList [AList [AArr [2] DBool; AArr [] DBool]; AList [AArr [] DBool; AArr [] DBool]];
   AList [AArr [1] DFloat; AArr [1] DFloat]].

Definition single_field_ok (f : fact) : bool :=
  forallb (fun b =>
    forallb (fun x =>
      agree_iwp f x (b_ie b) (b_sc b) && agree_iwp f (b_tc b) x (b_sc b) && agree_iwp f (b_tc b) (b_ie b) x)
      universe) (bases f).

Definition cube_ok (f : fact) : bool :=
  forallb (fun tc => forallb (fun ie => forallb (fun sc => agree_iwp f tc ie sc) cube) cube) cube.

(* explicit standard deviations: the isotropic factorisation has no gap *)
Definition agree_diffuse (f : fact) (mean std sc : aval) : bool :=
  negb (regular_b mean) || negb (regular_b std)
  || Bool.eqb (is_accept (prior_iwp_diffuse f mean std sc)) (wf_prior_diffuse_b f mean std sc).

Definition diffuse_iso_cube_ok : bool :=
  forallb (fun m => forallb (fun s => forallb (fun sc => agree_diffuse Isotropic m s sc) cube) cube) cube.

(* soundness of the dense / blockdiag constructors w.r.t. everything EXCEPT the
   std-vs-mean comparison: accepted => mean well-formed, std a well-formed
   container on its own, scale well-formed *)
Definition sound_diffuse_weak (f : fact) (mean std sc : aval) : bool :=
  negb (regular_b mean) || negb (regular_b std)
  || negb (is_accept (prior_iwp_diffuse f mean std sc))
  || (wf_tcoeffs_b mean && (wf_tcoeffs_b std || match std with ADict _ => true | _ => false end)
      && wf_basescale_b f mean sc).

Definition diffuse_weak_cube_ok (f : fact) : bool :=
  forallb (fun m => forallb (fun s => forallb (fun sc => sound_diffuse_weak f m s sc) cube) cube) cube.

Definition complete_diffuse (f : fact) (mean std sc : aval) : bool :=
  negb (wf_prior_diffuse_b f mean std sc) || is_accept (prior_iwp_diffuse f mean std sc).

Definition diffuse_complete_cube_ok (f : fact) : bool :=
  forallb (fun m => forallb (fun s => forallb (fun sc => complete_diffuse f m s sc) cube) cube) cube.

(* exponential prior (dense) *)
Definition agree_exp (ode tc ie sc : aval) : bool :=
  negb (regular_b tc) || Bool.eqb (is_accept (prior_exp Dense ode tc ie sc)) (wf_prior_exp_b Dense ode tc ie sc).

Definition odes : list aval :=
  [AJetOdeAuto 0; AJetOdeAuto 1; AJetOdeAuto 2; AJetOdeAuto 3; AJetOde 2; AJetResidual 2; AFun; ANone; AArr [2] DFloat].

Definition exp_ok : bool :=
  forallb (fun o => forallb (fun b =>
    forallb (fun x =>
      agree_exp o x (b_ie b) (b_sc b) && agree_exp o (b_tc b) x (b_sc b) && agree_exp o (b_tc b) (b_ie b) x)
      universe) (bases Dense)) odes.

(* ------------------------------------------------------------- reflection *)
Lemma regular_b_spec : forall v, regular_b v = true <-> Regular v.
Proof.
  induction v using aval_ind'.
  - rewrite Regular_list. simpl. rewrite andb_true_iff, length_zero_b.
    assert (E : forallb regular_b xs = true <-> Forall Regular xs).
    { induction H as [|x l Hx Hl IH]; simpl; [split; auto|].
      rewrite andb_true_iff, Hx, IH. split; [intros [A B]; constructor; auto | intros K; inversion K; auto]. }
    rewrite E. tauto.
  - rewrite Regular_tuple. simpl. rewrite andb_true_iff, length_zero_b.
    assert (E : forallb regular_b xs = true <-> Forall Regular xs).
    { induction H as [|x l Hx Hl IH]; simpl; [split; auto|].
      rewrite andb_true_iff, Hx, IH. split; [intros [A B]; constructor; auto | intros K; inversion K; auto]. }
    rewrite E. tauto.
  - rewrite Regular_dict. simpl. rewrite andb_true_iff, length_zero_b.
    assert (E : forallb (fun kv : nat * aval => match kv with (_, x) => regular_b x end) kvs = true <->
                Forall (fun kv => Regular (snd kv)) kvs).
    { induction H as [|[k x] l Hx Hl IH]; simpl; [split; auto|].
      simpl in Hx. rewrite andb_true_iff, Hx, IH.
      split; [intros [A B]; constructor; auto | intros K; inversion K; auto]. }
    rewrite E. tauto.
  - destruct H as [H|H]; [|subst; simpl; split; [discriminate | tauto]].
    destruct v; simpl in H; try discriminate; simpl; tauto.
Qed.

Lemma is_accept_spec : forall v, is_accept v = true <-> v = Accept.
Proof. destruct v; simpl; split; intros H; try reflexivity; discriminate. Qed.

Lemma eqb_iff : forall (a b : bool) (P Q : Prop),
    (a = true <-> P) -> (b = true <-> Q) -> Bool.eqb a b = true -> (P <-> Q).
Proof. intros [] [] P Q HP HQ H; simpl in H; try discriminate; tauto. Qed.

Lemma agree_iwp_iff : forall f tc ie sc,
    agree_iwp f tc ie sc = true -> Regular tc ->
    (prior_iwp f tc ie sc = Accept <-> WfPriorIwp f tc ie sc).
Proof.
  intros f tc ie sc H Hr. unfold agree_iwp in H. apply orb_true_iff in H. destruct H as [H|H].
  - apply regular_b_spec in Hr. rewrite Hr in H. discriminate.
  - exact (eqb_iff _ _ _ _ (is_accept_spec _) (wf_prior_iwp_b_spec f tc ie sc) H).
Qed.

Lemma single_field_ok_all : forall f, single_field_ok f = true.
Proof. intros []; vm_compute; reflexivity. Qed.

Lemma bases_regular : forall f b, In b (bases f) -> Regular (b_tc b).
Proof.
  intros f b Hb. apply regular_b_spec.
  assert (E : forallb (fun b => regular_b (b_tc b)) (bases f) = true) by (destruct f; vm_compute; reflexivity).
  rewrite forallb_forall in E. apply E. exact Hb.
Qed.

Theorem prior_iwp_single_field_reflection_bounded :
  forall f b x, In b (bases f) -> In x universe ->
    (Regular x -> (prior_iwp f x (b_ie b) (b_sc b) = Accept <-> WfPriorIwp f x (b_ie b) (b_sc b))) /\
    (prior_iwp f (b_tc b) x (b_sc b) = Accept <-> WfPriorIwp f (b_tc b) x (b_sc b)) /\
    (prior_iwp f (b_tc b) (b_ie b) x = Accept <-> WfPriorIwp f (b_tc b) (b_ie b) x).
Proof.
  intros f b x Hb Hx.
  pose proof (single_field_ok_all f) as H. unfold single_field_ok in H.
  rewrite forallb_forall in H. specialize (H b Hb). rewrite forallb_forall in H. specialize (H x Hx).
  apply andb_true_iff in H. destruct H as [H H3]. apply andb_true_iff in H. destruct H as [H1 H2].
  pose proof (bases_regular f b Hb) as Hr.
  split; [|split].
  - intros Hrx. apply (agree_iwp_iff f x _ _ H1 Hrx).
  - apply agree_iwp_iff; assumption.
  - apply agree_iwp_iff; assumption.
Qed.

Lemma agree_exp_iff : forall ode tc ie sc,
    agree_exp ode tc ie sc = true -> Regular tc ->
    (prior_exp Dense ode tc ie sc = Accept <-> WfPriorExp Dense ode tc ie sc).
Proof.
  intros ode tc ie sc H Hr. unfold agree_exp in H. apply orb_true_iff in H. destruct H as [H|H].
  - apply regular_b_spec in Hr. rewrite Hr in H. discriminate.
  - exact (eqb_iff _ _ _ _ (is_accept_spec _) (wf_prior_exp_b_spec Dense ode tc ie sc) H).
Qed.

Theorem prior_exp_single_field_reflection_bounded :
  forall o b x, In o odes -> In b (bases Dense) -> In x universe ->
    (Regular x -> (prior_exp Dense o x (b_ie b) (b_sc b) = Accept <-> WfPriorExp Dense o x (b_ie b) (b_sc b))) /\
    (prior_exp Dense o (b_tc b) x (b_sc b) = Accept <-> WfPriorExp Dense o (b_tc b) x (b_sc b)) /\
    (prior_exp Dense o (b_tc b) (b_ie b) x = Accept <-> WfPriorExp Dense o (b_tc b) (b_ie b) x).
Proof.
  intros o b x Ho Hb Hx.
  assert (H : forallb (fun o => forallb (fun b =>
                forallb (fun x =>
                  agree_exp o x (b_ie b) (b_sc b) && agree_exp o (b_tc b) x (b_sc b) && agree_exp o (b_tc b) (b_ie b) x)
                  universe) (bases Dense)) odes = true) by (vm_compute; reflexivity).
  rewrite forallb_forall in H. specialize (H o Ho).
  rewrite forallb_forall in H. specialize (H b Hb). rewrite forallb_forall in H. specialize (H x Hx).
  apply andb_true_iff in H. destruct H as [H H3]. apply andb_true_iff in H. destruct H as [H1 H2].
  pose proof (bases_regular Dense b Hb) as Hr.
  split; [|split].
  - intros Hrx. apply (agree_exp_iff o x _ _ H1 Hrx).
  - apply agree_exp_iff; assumption.
  - apply agree_exp_iff; assumption.
Qed.

(* the exponential prior for the non-dense factorisations is never constructed *)
Lemma prior_exp_not_implemented : forall f ode tc ie sc, f <> Dense -> prior_exp f ode tc ie sc = OtherErr.
Proof. intros [] ode tc ie sc H; [congruence | reflexivity | reflexivity]. Qed.

(* the hypotheses of the single-field theorems are satisfiable *)
Example ex_universe_inhabited :
  In (mkBase tc_vec APyBool ANone) (bases Dense) /\ In (AArr [2] DFloat) universe /\ In (AJetOdeAuto 2) odes.
Proof.
  split; [left; reflexivity|].
  split; [unfold universe, u_depth1; apply in_or_app; left; apply in_or_app; left; simpl; tauto | simpl; tauto].
Qed.
