(* C20 -- general (all inputs) soundness of the prior constructors for the
   Taylor-coefficient field: whatever the other arguments are, an accepted
   coefficient container is well-formed. *)
From Coq Require Import List Bool Arith ZArith Lia.
From PD Require Import Model.Validate Spec.Shapes Proofs.ValidateProofs.
Import ListNotations.

Lemma forallb_flat_map : forall (A B : Type) (p : B -> bool) (g : A -> list B) (l : list A),
    forallb p (flat_map g l) = forallb (fun a => forallb p (g a)) l.
Proof.
  intros A B p g l. induction l as [|a l IH]; simpl; [reflexivity|].
  rewrite forallb_app, IH. reflexivity.
Qed.

Lemma d1_leaves_unfold : forall x0 v,
    d1_leaves x0 v =
    if struct_eqb v x0 then [v] else
      match v with
      | AList xs | ATuple xs => flat_map (d1_leaves x0) xs
      | ADict kvs => flat_map (fun kv => match kv with (_, x) => d1_leaves x0 x end) kvs
      | ANone => []
      | _ => [v]
      end.
Proof. intros x0 v. destruct v; reflexivity. Qed.

(* the depth-one leaves cover all leaves *)
Lemma d1_leaves_numeric : forall x0 v,
    forallb all_numeric (d1_leaves x0 v) = true -> all_numeric v = true.
Proof.
  intros x0. induction v using aval_ind'; intros Hl.
  - rewrite d1_leaves_unfold in Hl. destruct (struct_eqb (AList xs) x0).
    + simpl in Hl. rewrite andb_true_r in Hl. exact Hl.
    + rewrite forallb_flat_map in Hl. change (all_numeric (AList xs)) with (forallb all_numeric xs).
      induction H as [|x l Hx Hl' IH]; simpl in *; [reflexivity|].
      apply andb_true_iff in Hl. destruct Hl as [A B]. rewrite (Hx A), (IH B). reflexivity.
  - rewrite d1_leaves_unfold in Hl. destruct (struct_eqb (ATuple xs) x0).
    + simpl in Hl. rewrite andb_true_r in Hl. exact Hl.
    + rewrite forallb_flat_map in Hl. change (all_numeric (ATuple xs)) with (forallb all_numeric xs).
      induction H as [|x l Hx Hl' IH]; simpl in *; [reflexivity|].
      apply andb_true_iff in Hl. destruct Hl as [A B]. rewrite (Hx A), (IH B). reflexivity.
  - rewrite d1_leaves_unfold in Hl. destruct (struct_eqb (ADict kvs) x0).
    + simpl in Hl. rewrite andb_true_r in Hl. exact Hl.
    + rewrite forallb_flat_map in Hl.
      change (all_numeric (ADict kvs)) with
        (forallb (fun kv : nat * aval => match kv with (_, x) => all_numeric x end) kvs).
      induction H as [|[k x] l Hx Hl' IH]; simpl in *; [reflexivity|].
      apply andb_true_iff in Hl. destruct Hl as [A B]. rewrite (Hx A), (IH B). reflexivity.
  - destruct H as [H|H]; [|subst; reflexivity].
    rewrite d1_leaves_unfold in Hl.
    destruct v; simpl in H; try discriminate;
      destruct (struct_eqb _ x0) in Hl; simpl in Hl; rewrite ?andb_true_r in Hl; exact Hl.
Qed.

Lemma d1_stack_ok_numeric : forall x, d1_stack_ok x = true -> all_numeric x = true /\ first_item x <> None.
Proof.
  intros x H. unfold d1_stack_ok in H. destruct (first_item x) as [x0|]; [|discriminate].
  apply andb_true_iff in H. destruct H as [H _]. apply andb_true_iff in H. destruct H as [H _].
  split; [apply (d1_leaves_numeric x0); exact H | discriminate].
Qed.

Lemma first_item_not_dict : forall x, first_item x <> None -> forall kvs, x <> ADict kvs.
Proof. intros x H kvs ->. apply H. reflexivity. Qed.

Lemma base_scale_first_item : forall f mean sc, base_scale f mean sc = Accept -> first_item mean <> None.
Proof.
  intros f mean sc H K. destruct f; simpl in H.
  - unfold base_scale_dense in H. rewrite K in H. discriminate.
  - unfold base_scale_iso in H. rewrite K in H.
    destruct sc; simpl in H; try discriminate;
      repeat match type of H with (if ?c then _ else _) = _ => destruct c; try discriminate end.
  - unfold base_scale_blockdiag in H. rewrite K in H. discriminate.
Qed.

(* T (all inputs): explicit standard deviations *)
Theorem prior_iwp_diffuse_accepts_only_wellformed_coefficients :
  forall f mean std sc, Regular mean ->
    prior_iwp_diffuse f mean std sc = Accept -> WfTcoeffs mean.
Proof.
  intros f mean std sc Hr H. unfold prior_iwp_diffuse in H.
  destruct (from_mean_and_std f mean std) eqn:E; try discriminate.
  pose proof (base_scale_first_item f mean sc H) as Hf.
  unfold from_mean_and_std in E.
  destruct (verify mean) eqn:Ev; try discriminate.
  destruct (verify std) eqn:Es; try discriminate.
  assert (Hn : all_numeric mean = true).
  { destruct f.
    - destruct (all_numeric mean); [reflexivity | discriminate].
    - destruct (d1_stack_ok mean) eqn:Ed; [|discriminate]. apply d1_stack_ok_numeric in Ed. tauto.
    - destruct (d1_stack_ok mean) eqn:Ed; [|discriminate]. apply d1_stack_ok_numeric in Ed. tauto. }
  apply verify_reflects; auto. apply first_item_not_dict. exact Hf.
Qed.

Lemma tcoeffs_std_never_errs_with_accept : forall f mean ie, tcoeffs_std f mean ie <> Err Accept.
Proof.
  intros f mean ie. unfold tcoeffs_std, std_dense, std_iso.
  destruct f.
  - destruct ie; try (destruct (flags_tree_dense _ mean); discriminate).
    destruct (all_numeric mean); discriminate.
  - destruct (first_item mean) as [x0|]; [|discriminate].
    destruct ie; try (destruct (flags_tree_iso _ _); discriminate). discriminate.
  - destruct ie; try (destruct (flags_tree_dense _ mean); discriminate).
    destruct (all_numeric mean); discriminate.
Qed.

(* T (all inputs): prior_wiener_integrated *)
Theorem prior_iwp_accepts_only_wellformed_coefficients :
  forall f tc ie sc, Regular tc -> prior_iwp f tc ie sc = Accept -> WfTcoeffs tc.
Proof.
  intros f tc ie sc Hr H. unfold prior_iwp in H.
  pose proof (tcoeffs_std_never_errs_with_accept f tc ie) as Hne.
  destruct (tcoeffs_std f tc ie) as [std|e]; [|subst; congruence].
  exact (prior_iwp_diffuse_accepts_only_wellformed_coefficients f tc std sc Hr H).
Qed.

(* T (all inputs): prior_exponential -- and the ODE is an autonomous ODE object of matching order *)
Theorem prior_exp_accepts_only_wellformed_coefficients_and_matching_order :
  forall f ode tc ie sc, Regular tc -> prior_exp f ode tc ie sc = Accept ->
    f = Dense /\ WfTcoeffs tc /\ exists k, ode = AJetOdeAuto k /\ py_len tc = Some k.
Proof.
  intros f ode tc ie sc Hr H. destruct f; try (simpl in H; discriminate).
  unfold prior_exp in H. split; [reflexivity|].
  pose proof (tcoeffs_std_never_errs_with_accept Dense tc ie) as Hne.
  destruct (tcoeffs_std Dense tc ie) as [std|e]; [|subst; congruence].
  destruct (ode_order ode) as [k|] eqn:Eo; [|discriminate].
  destruct (py_len tc) as [n|] eqn:El; [|discriminate].
  destruct (Nat.eqb_spec k n); simpl in H; [subst|discriminate].
  destruct (prior_iwp_diffuse Dense tc std sc) eqn:Ed; try discriminate.
  split; [exact (prior_iwp_diffuse_accepts_only_wellformed_coefficients Dense tc std sc Hr Ed)|].
  destruct ode; try discriminate. simpl in Eo. inversion Eo; subst. exists n. auto.
Qed.

(* rejections of the order mismatch carry the documented class *)
Lemma prior_exp_order_mismatch_is_TypeError :
  forall k tc sc, all_numeric tc = true -> py_len tc <> None -> py_len tc <> Some k ->
    prior_exp Dense (AJetOdeAuto k) tc APyBool sc = TypeErr.
Proof.
  intros k tc sc Hn Hl Hk. simpl. unfold std_dense. rewrite Hn. simpl.
  destruct (py_len tc) as [n|]; [|congruence].
  destruct (Nat.eqb_spec k n); [subst; congruence | reflexivity].
Qed.

Example ex_prior_accepts_only_wf_hyp :
  Regular ex_mean /\ prior_iwp Dense ex_mean APyBool ANone = Accept /\
  prior_exp Dense (AJetOdeAuto 2) ex_mean APyBool ANone = Accept.
Proof. repeat split; try (vm_compute; reflexivity); simpl; try discriminate; auto. Qed.

(* ------------------------------------------------------------ base scales *)
Lemma struct_list : forall xs ys, struct_eqb (AList xs) (AList ys) = forall2b struct_eqb xs ys.
Proof.
  induction xs as [|x xs IH]; intros [|y ys]; simpl; auto.
  specialize (IH ys). simpl in IH. rewrite IH. reflexivity.
Qed.

Lemma struct_tuple : forall xs ys, struct_eqb (ATuple xs) (ATuple ys) = forall2b struct_eqb xs ys.
Proof.
  induction xs as [|x xs IH]; intros [|y ys]; simpl; auto.
  specialize (IH ys). simpl in IH. rewrite IH. reflexivity.
Qed.

Lemma struct_dict : forall xs ys, struct_eqb (ADict xs) (ADict ys) = forall2b_kv struct_eqb xs ys.
Proof.
  induction xs as [|[k x] xs IH]; intros [|[k' y] ys]; simpl; auto.
  specialize (IH ys). simpl in IH. rewrite IH. reflexivity.
Qed.

Lemma sameshape_struct : forall a b, SameShape a b -> struct_eqb a b = true.
Proof.
  induction a using aval_ind'; intros b Hab.
  - destruct b; try (simpl in Hab; tauto).
    apply SameShape_list in Hab. destruct Hab as [_ Hab]. rewrite struct_list.
    revert xs0 Hab. induction H as [|x l Hx Hl IH]; intros ys Hab;
      inversion Hab as [|x0 y0 xs1 ys1 P1 P2]; subst; simpl; auto.
    rewrite (Hx _ P1), (IH _ P2). reflexivity.
  - destruct b; try (simpl in Hab; tauto).
    apply SameShape_tuple in Hab. destruct Hab as [_ Hab]. rewrite struct_tuple.
    revert xs0 Hab. induction H as [|x l Hx Hl IH]; intros ys Hab;
      inversion Hab as [|x0 y0 xs1 ys1 P1 P2]; subst; simpl; auto.
    rewrite (Hx _ P1), (IH _ P2). reflexivity.
  - destruct b; try (simpl in Hab; tauto).
    apply SameShape_dict in Hab. destruct Hab as [_ Hab]. rewrite struct_dict.
    revert kvs0 Hab. induction H as [|[k x] l Hx Hl IH]; intros ys Hab;
      inversion Hab as [|k0 x0 xs1 y0 ys1 P1 P2]; subst; simpl; auto.
    simpl in Hx. rewrite Nat.eqb_refl, (Hx _ P1), (IH _ P2). reflexivity.
  - destruct H as [H|H]; [|subst; simpl in Hab; destruct Hab as [K _]; contradiction].
    assert (S1 : Numeric a /\ Numeric b /\ shape_of a = shape_of b)
      by (destruct a; simpl in H; try discriminate; destruct b; simpl in Hab; tauto).
    destruct S1 as [N1 [N2 _]].
    destruct a; simpl in N1; try contradiction; destruct b; simpl in N2; try contradiction; reflexivity.
Qed.

Definition snd_leaves (ps : list (aval * aval)) : bool := forallb (fun ab : aval * aval => is_leaf (snd ab)) ps.

Lemma snd_leaves_app : forall p q, snd_leaves (p ++ q) = snd_leaves p && snd_leaves q.
Proof. intros. unfold snd_leaves. apply forallb_app. Qed.

Lemma float_like_leaf : forall b, is_leaf b = true -> is_leaf (float_like b) = true.
Proof. destruct b; simpl; intros H; try discriminate; reflexivity. Qed.

Lemma struct_pairs : forall a b,
    struct_eqb a b = true ->
    exists ps, prefix_pairs a (float_like b) = Some ps /\ snd_leaves ps = true.
Proof.
  induction a using aval_ind'; intros b Hab.
  - destruct b; try (simpl in Hab; discriminate).
    rewrite struct_list in Hab. change (float_like (AList xs0)) with (AList (map float_like xs0)).
    rewrite prefix_pairs_list.
    revert xs0 Hab. induction H as [|x l Hx Hl IH]; intros [|y ys] Hab; simpl in Hab; try discriminate.
    + exists []. auto.
    + apply andb_true_iff in Hab. destruct Hab as [A B].
      destruct (Hx y A) as [p [Ep Lp]]. destruct (IH ys B) as [q [Eq Lq]].
      exists (p ++ q). simpl. rewrite Ep, Eq, snd_leaves_app, Lp, Lq. auto.
  - destruct b; try (simpl in Hab; discriminate).
    rewrite struct_tuple in Hab. change (float_like (ATuple xs0)) with (ATuple (map float_like xs0)).
    rewrite prefix_pairs_tuple.
    revert xs0 Hab. induction H as [|x l Hx Hl IH]; intros [|y ys] Hab; simpl in Hab; try discriminate.
    + exists []. auto.
    + apply andb_true_iff in Hab. destruct Hab as [A B].
      destruct (Hx y A) as [p [Ep Lp]]. destruct (IH ys B) as [q [Eq Lq]].
      exists (p ++ q). simpl. rewrite Ep, Eq, snd_leaves_app, Lp, Lq. auto.
  - destruct b; try (simpl in Hab; discriminate).
    rewrite struct_dict in Hab.
    change (float_like (ADict kvs0)) with
      (ADict (map (fun kv : nat * aval => match kv with (k, x) => (k, float_like x) end) kvs0)).
    rewrite prefix_pairs_dict.
    revert kvs0 Hab. induction H as [|[k x] l Hx Hl IH]; intros [|[k' y] ys] Hab; simpl in Hab; try discriminate.
    + exists []. auto.
    + apply andb_true_iff in Hab. destruct Hab as [A B]. apply andb_true_iff in A. destruct A as [A0 A].
      simpl in Hx. destruct (Hx y A) as [p [Ep Lp]]. destruct (IH ys B) as [q [Eq Lq]].
      exists (p ++ q). simpl. rewrite A0, Ep, Eq, snd_leaves_app, Lp, Lq. auto.
  - destruct H as [H|H].
    + assert (Lb : is_leaf b = true) by (destruct a; simpl in H; try discriminate; simpl in Hab; exact Hab).
      exists [(a, float_like b)]. split.
      * destruct a; simpl in H; try discriminate; reflexivity.
      * unfold snd_leaves. simpl. rewrite (float_like_leaf b Lb). reflexivity.
    + subst. destruct b; simpl in Hab; try discriminate. exists []. auto.
Qed.

Lemma coefftree_float_like : forall b, CoeffTree b -> CoeffTree (float_like b).
Proof.
  induction b using aval_ind'; intros Hb.
  - apply CoeffTree_list in Hb. destruct Hb as [Hne Hb].
    change (float_like (AList xs)) with (AList (map float_like xs)). apply CoeffTree_list.
    split; [destruct xs; simpl; congruence|].
    clear Hne. induction H as [|x l Hx Hl IH]; simpl; [constructor|]. inversion Hb; subst. constructor; auto.
  - apply CoeffTree_tuple in Hb. destruct Hb as [Hne Hb].
    change (float_like (ATuple xs)) with (ATuple (map float_like xs)). apply CoeffTree_tuple.
    split; [destruct xs; simpl; congruence|].
    clear Hne. induction H as [|x l Hx Hl IH]; simpl; [constructor|]. inversion Hb; subst. constructor; auto.
  - apply CoeffTree_dict in Hb. destruct Hb as [Hne Hb].
    change (float_like (ADict kvs)) with
      (ADict (map (fun kv : nat * aval => match kv with (k, x) => (k, float_like x) end) kvs)).
    apply CoeffTree_dict. split; [destruct kvs; simpl; congruence|].
    clear Hne. induction H as [|[k x] l Hx Hl IH]; simpl; [constructor|]. inversion Hb; subst. constructor; simpl in *; auto.
  - destruct H as [H|H]; [|subst; simpl in Hb; contradiction].
    destruct b; simpl in H; try discriminate; simpl in Hb; try contradiction; exact I.
Qed.

Lemma sameshape_float_like : forall a b, CoeffTree b -> (SameShape a (float_like b) <-> SameShape a b).
Proof.
  induction a using aval_ind'; intros b Hb.
  - destruct b; try (simpl; tauto).
    apply CoeffTree_list in Hb. destruct Hb as [_ Hb].
    change (float_like (AList xs0)) with (AList (map float_like xs0)).
    rewrite !SameShape_list.
    assert (E : Forall2 SameShape xs (map float_like xs0) <-> Forall2 SameShape xs xs0).
    { revert xs0 Hb. induction H as [|x l Hx Hl IH]; intros [|y ys] Hys; simpl.
      - tauto.
      - split; intros K; inversion K.
      - split; intros K; inversion K.
      - inversion Hys as [|? ? Hy Hys']; subst.
        split; intros K; inversion K as [|x0 y0 xs1 ys1 P1 P2]; subst; constructor;
          try (apply (Hx y Hy); assumption); try (apply (IH ys Hys'); assumption). }
    rewrite E. tauto.
  - destruct b; try (simpl; tauto).
    apply CoeffTree_tuple in Hb. destruct Hb as [_ Hb].
    change (float_like (ATuple xs0)) with (ATuple (map float_like xs0)).
    rewrite !SameShape_tuple.
    assert (E : Forall2 SameShape xs (map float_like xs0) <-> Forall2 SameShape xs xs0).
    { revert xs0 Hb. induction H as [|x l Hx Hl IH]; intros [|y ys] Hys; simpl.
      - tauto.
      - split; intros K; inversion K.
      - split; intros K; inversion K.
      - inversion Hys as [|? ? Hy Hys']; subst.
        split; intros K; inversion K as [|x0 y0 xs1 ys1 P1 P2]; subst; constructor;
          try (apply (Hx y Hy); assumption); try (apply (IH ys Hys'); assumption). }
    rewrite E. tauto.
  - destruct b; try (simpl; tauto).
    apply CoeffTree_dict in Hb. destruct Hb as [_ Hb].
    change (float_like (ADict kvs0)) with
      (ADict (map (fun kv : nat * aval => match kv with (k, x) => (k, float_like x) end) kvs0)).
    rewrite !SameShape_dict.
    assert (E : Forall2kv SameShape kvs (map (fun kv : nat * aval => match kv with (k, x) => (k, float_like x) end) kvs0)
                <-> Forall2kv SameShape kvs kvs0).
    { revert kvs0 Hb. induction H as [|[k x] l Hx Hl IH]; intros [|[k' y] ys] Hys; simpl.
      - split; intros; constructor.
      - split; intros K; inversion K.
      - split; intros K; inversion K.
      - inversion Hys as [|? ? Hy Hys']; subst. simpl in Hy, Hx.
        split; intros K; inversion K as [|k0 x0 xs1 y0 ys1 P1 P2]; subst; constructor;
          try (apply (Hx y Hy); assumption); try (apply (IH ys Hys'); assumption). }
    rewrite E. tauto.
  - destruct H as [H|H]; [|subst; destruct b; simpl; tauto].
    destruct a; simpl in H; try discriminate;
      destruct b; simpl in Hb; try contradiction; simpl; tauto.
Qed.

Lemma wf_tcoeffs_first : forall mean, WfTcoeffs mean ->
    exists c cs, coefficients mean = Some (c :: cs) /\ first_item mean = Some c /\ CoeffTree c.
Proof.
  intros mean H. unfold WfTcoeffs in H.
  destruct mean; simpl in H; try contradiction;
    destruct xs as [|c cs]; try contradiction; exists c, cs; simpl; tauto.
Qed.

(* the tree checks of _process_base_scale, once the trivial cases are gone *)
Lemma tree_scale_checks : forall sc c,
    CoeffTree c ->
    ((all_numeric sc = true /\ struct_eqb sc c = true /\
      exists ps, prefix_pairs sc (float_like c) = Some ps /\ pairs_shapes_equal ps = true)
     <-> SameShape sc c).
Proof.
  intros sc c Hc.
  pose proof (coefftree_float_like c Hc) as Hf.
  split.
  - intros [A [B [ps [E S]]]].
    apply (sameshape_float_like sc c Hc). apply (loss_ok_reflects sc (float_like c) Hf).
    unfold loss_ok, pairs_ok. split; [exact A|]. exists ps. split; [exact E|].
    destruct (struct_pairs sc c B) as [ps' [E' L]]. rewrite E in E'. inversion E'; subst.
    unfold snd_leaves in L. rewrite L, S. reflexivity.
  - intros K. pose proof (sameshape_struct sc c K) as B.
    apply (sameshape_float_like sc c Hc) in K. apply (loss_ok_reflects sc (float_like c) Hf) in K.
    destruct K as [A [ps [E S]]]. unfold pairs_ok in S. apply andb_true_iff in S. destruct S as [_ S].
    split; [exact A|]. split; [exact B|]. exists ps. auto.
Qed.

Lemma dense_scale_body : forall sc c,
    CoeffTree c ->
    ((if negb (all_numeric sc) then OtherErr else
      if negb (struct_eqb sc c) then TypeErr else
      match prefix_pairs sc (float_like c) with
      | None => ValueErr
      | Some ps => if pairs_shapes_equal ps then Accept else if is_leaf sc then ValueErr else OtherErr
      end) = Accept <-> SameShape sc c).
Proof.
  intros sc c Hc. rewrite <- (tree_scale_checks sc c Hc).
  destruct (all_numeric sc); simpl; [|split; [discriminate | intros [K _]; discriminate]].
  destruct (struct_eqb sc c); simpl; [|split; [discriminate | intros [_ [K _]]; discriminate]].
  destruct (prefix_pairs sc (float_like c)) as [ps|]; [|split; [discriminate | intros [_ [_ [ps [K _]]]]; discriminate]].
  destruct (pairs_shapes_equal ps) eqn:E.
  - split; [intros _; repeat split; exists ps; auto | reflexivity].
  - split.
    + destruct (is_leaf sc); discriminate.
    + intros [_ [_ [ps' [K1 K2]]]]. inversion K1; subst. congruence.
Qed.

Lemma blockdiag_scale_body : forall sc c,
    CoeffTree c ->
    ((if negb (struct_eqb sc c) then TypeErr else
      if negb (all_numeric sc) then OtherErr else
      match prefix_pairs sc (float_like c) with
      | None => ValueErr
      | Some ps => if pairs_shapes_equal ps then Accept else if is_leaf sc then ValueErr else OtherErr
      end) = Accept <-> SameShape sc c).
Proof.
  intros sc c Hc. rewrite <- (tree_scale_checks sc c Hc).
  destruct (struct_eqb sc c); simpl; [|split; [discriminate | intros [_ [K _]]; discriminate]].
  destruct (all_numeric sc); simpl; [|split; [discriminate | intros [K _]; discriminate]].
  destruct (prefix_pairs sc (float_like c)) as [ps|]; [|split; [discriminate | intros [_ [_ [ps [K _]]]]; discriminate]].
  destruct (pairs_shapes_equal ps) eqn:E.
  - split; [intros _; repeat split; exists ps; auto | reflexivity].
  - split.
    + destruct (is_leaf sc); discriminate.
    + intros [_ [_ [ps' [K1 K2]]]]. inversion K1; subst. congruence.
Qed.

(* T (all inputs): with a well-formed coefficient container, the base-scale checks of the
   three factorisations accept exactly the well-formed base scales. *)
Theorem base_scale_reflects : forall f mean sc,
    WfTcoeffs mean -> (base_scale f mean sc = Accept <-> WfBaseScale f mean sc).
Proof.
  intros f mean sc Hw.
  destruct (wf_tcoeffs_first mean Hw) as [c [cs [Ec [Ef Hc]]]].
  assert (Hn : all_numeric c = true) by (apply coefftree_regular_numeric; exact Hc).
  unfold WfBaseScale. rewrite Ec.
  destruct f.
  - unfold base_scale, base_scale_dense. rewrite Ef, Hn. change (negb true) with false. cbv beta iota.
    destruct sc; cbv beta iota;
      try (rewrite (dense_scale_body _ c Hc); split; [intros K; right; exact K | intros [K|K]; [discriminate | exact K]]).
    split; [intros _; left; reflexivity | reflexivity].
  - unfold base_scale, base_scale_iso. rewrite Ef, Hn.
    destruct sc as [s dt| | | | | | | | | | | | |]; simpl;
      try (split; [intros _; left; reflexivity | reflexivity]);
      try (split; [intros _; right; split; [exact I | reflexivity] | reflexivity]);
      try (split; [discriminate | intros [K|[K _]]; [discriminate | contradiction]]).
    destruct s as [|n s]; simpl.
    + split; [intros _; right; split; [exact I | reflexivity] | reflexivity].
    + split; [discriminate | intros [K|[_ K]]; discriminate].
  - unfold base_scale, base_scale_blockdiag. rewrite Ef, Hn. change (negb true) with false. cbv beta iota.
    destruct sc; cbv beta iota;
      try (rewrite (blockdiag_scale_body _ c Hc); split; [intros K; right; exact K | intros [K|K]; [discriminate | exact K]]).
    split; [intros _; left; reflexivity | reflexivity].
Qed.

(* consequence for the constructors (all inputs): an accepted argument set has a well-formed
   coefficient container AND a well-formed base scale *)
Theorem prior_iwp_accepts_only_wellformed_coefficients_and_scales :
  forall f tc ie sc, Regular tc -> prior_iwp f tc ie sc = Accept ->
    WfTcoeffs tc /\ WfBaseScale f tc sc.
Proof.
  intros f tc ie sc Hr H.
  pose proof (prior_iwp_accepts_only_wellformed_coefficients f tc ie sc Hr H) as Hw.
  split; [exact Hw|].
  unfold prior_iwp in H.
  pose proof (tcoeffs_std_never_errs_with_accept f tc ie) as Hne.
  destruct (tcoeffs_std f tc ie) as [std|e]; [|subst; congruence].
  unfold prior_iwp_diffuse in H.
  destruct (from_mean_and_std f tc std); try discriminate.
  apply (base_scale_reflects f tc sc Hw). exact H.
Qed.

Theorem prior_iwp_diffuse_accepts_only_wellformed_coefficients_and_scales :
  forall f mean std sc, Regular mean -> prior_iwp_diffuse f mean std sc = Accept ->
    WfTcoeffs mean /\ WfBaseScale f mean sc.
Proof.
  intros f mean std sc Hr H.
  pose proof (prior_iwp_diffuse_accepts_only_wellformed_coefficients f mean std sc Hr H) as Hw.
  split; [exact Hw|].
  unfold prior_iwp_diffuse in H.
  destruct (from_mean_and_std f mean std); try discriminate.
  apply (base_scale_reflects f mean sc Hw). exact H.
Qed.

(* ------------------------------------------------------- exactness flags *)
Definition flag_pair_ok (ab : aval * aval) : bool :=
  match snd ab with
  | AArr s _ =>
      (shape_eqb (leaf_shape (fst ab)) [] || shape_eqb (leaf_shape (fst ab)) s)
      && match leaf_dtype (fst ab) with Some DBool => true | _ => false end
  | _ => false
  end.

Lemma dense_flag_stages : forall ps bs ds,
    mapM (fun ab : aval * aval =>
            let (a, b) := ab in
            match np_shape b with
            | Some sb => Ok (shape_eqb (leaf_shape a) [] || shape_eqb (leaf_shape a) sb)
            | None => Err OtherErr
            end) ps = Ok bs ->
    forallb (fun b => b) bs = true ->
    mapM (fun ab : aval * aval =>
            let (a, b) := ab in
            match b, leaf_dtype a with
            | AArr _ _, Some d => Ok d
            | _, _ => Err OtherErr
            end) ps = Ok ds ->
    forallb is_bool_dtype ds = true ->
    forallb flag_pair_ok ps = true.
Proof.
  induction ps as [|[a b] ps IH]; intros bs ds H1 H2 H3 H4; [reflexivity|].
  simpl in H1, H3.
  destruct b as [s dt| | | | | | | | | | | | |]; try discriminate.
  simpl in H1.
  destruct (mapM _ ps) as [bs'|] eqn:E1 in H1; [|discriminate]. inversion H1; subst. clear H1.
  destruct (leaf_dtype a) as [d|] eqn:Ed; [|discriminate].
  destruct (mapM _ ps) as [ds'|] eqn:E3 in H3; [|discriminate]. inversion H3; subst. clear H3.
  simpl in H2, H4. apply andb_true_iff in H2. destruct H2 as [H2a H2b].
  apply andb_true_iff in H4. destruct H4 as [H4a H4b].
  simpl. unfold flag_pair_ok at 1. simpl. rewrite H2a, Ed.
  destruct d; simpl in H4a; try discriminate. simpl.
  exact (IH bs' ds' E1 H2b E3 H4b).
Qed.

Lemma mapM_err : forall (A B : Type) (f : A -> res B) (l : list A) (e : verdict),
    mapM f l = Err e -> exists x, In x l /\ f x = Err e.
Proof.
  intros A B f. induction l as [|x l IH]; intros e H; simpl in H; [discriminate|].
  destruct (f x) as [y|e'] eqn:Ex.
  - destruct (mapM f l) as [ys|e''] eqn:El; [discriminate|]. inversion H; subst.
    destruct (IH e eq_refl) as [x' [I1 I2]]. exists x'. split; [right; exact I1 | exact I2].
  - inversion H; subst. exists x. split; [left; reflexivity | exact Ex].
Qed.

Lemma flags_tree_dense_accept : forall ie mean,
    flags_tree_dense ie mean = Accept ->
    exists ps, prefix_pairs ie mean = Some ps /\ forallb flag_pair_ok ps = true.
Proof.
  intros ie mean H. unfold flags_tree_dense in H.
  destruct (prefix_pairs ie mean) as [ps|]; [|discriminate].
  exists ps. split; [reflexivity|].
  match type of H with (match ?m with _ => _ end) = _ => destruct m as [bs|e] eqn:E1 end.
  - destruct (forallb (fun b => b) bs) eqn:E2; simpl in H; [|discriminate].
    match type of H with (match ?m with _ => _ end) = _ => destruct m as [ds|e] eqn:E3 end.
    + destruct (forallb is_bool_dtype ds) eqn:E4; [|discriminate].
      exact (dense_flag_stages ps bs ds E1 E2 E3 E4).
    + subst e. apply mapM_err in E3. destruct E3 as [[a b] [_ K]].
      destruct b; try discriminate; destruct (leaf_dtype a); discriminate.
  - subst e. apply mapM_err in E1. destruct E1 as [[a b] [_ K]].
    destruct (np_shape b); discriminate.
Qed.

Lemma FlagsFor_list : forall xs ys, FlagsFor (AList xs) (AList ys) <-> Forall2 FlagsFor xs ys.
Proof.
  induction xs as [|x xs IH]; intros [|y ys]; simpl.
  - split; auto.
  - split; [tauto | intros K; inversion K].
  - split; [tauto | intros K; inversion K].
  - specialize (IH ys). simpl in IH. rewrite IH.
    split; [intros [A B]; constructor; auto | intros K; inversion K; auto].
Qed.

Lemma FlagsFor_tuple : forall xs ys, FlagsFor (ATuple xs) (ATuple ys) <-> Forall2 FlagsFor xs ys.
Proof.
  induction xs as [|x xs IH]; intros [|y ys]; simpl.
  - split; auto.
  - split; [tauto | intros K; inversion K].
  - split; [tauto | intros K; inversion K].
  - specialize (IH ys). simpl in IH. rewrite IH.
    split; [intros [A B]; constructor; auto | intros K; inversion K; auto].
Qed.

Lemma FlagsFor_dict : forall xs ys, FlagsFor (ADict xs) (ADict ys) <-> Forall2kv FlagsFor xs ys.
Proof.
  induction xs as [|[k x] xs IH]; intros [|[k' y] ys]; simpl.
  - split; [constructor | auto].
  - split; [tauto | intros K; inversion K].
  - split; [tauto | intros K; inversion K].
  - specialize (IH ys). simpl in IH. rewrite IH.
    split; [intros [A [B C]]; subst; constructor; auto | intros K; inversion K; subst; auto].
Qed.

Lemma pairs_flagsfor : forall ie m,
    CoeffTree m ->
    (exists ps, prefix_pairs ie m = Some ps /\ forallb flag_pair_ok ps = true) -> FlagsFor ie m.
Proof.
  induction ie using aval_ind'; intros m Hm [ps [E F]].
  - destruct m; try (simpl in E; discriminate).
    apply CoeffTree_list in Hm. destruct Hm as [_ Hm].
    rewrite prefix_pairs_list in E. apply FlagsFor_list.
    revert xs0 Hm ps E F. induction H as [|x l Hx Hl IH]; intros [|y ys] Hys ps E F; simpl in E; try discriminate.
    + constructor.
    + destruct (prefix_pairs x y) as [p|] eqn:Ep; [|discriminate].
      destruct (zip_pairs prefix_pairs l ys) as [q|] eqn:Eq; [|discriminate].
      inversion E; subst. rewrite forallb_app in F. apply andb_true_iff in F. destruct F as [Fp Fq].
      inversion Hys as [|? ? Hy Hys']; subst.
      constructor; [apply (Hx y Hy); exists p; auto | apply (IH ys Hys' q); auto].
  - destruct m; try (simpl in E; discriminate).
    apply CoeffTree_tuple in Hm. destruct Hm as [_ Hm].
    rewrite prefix_pairs_tuple in E. apply FlagsFor_tuple.
    revert xs0 Hm ps E F. induction H as [|x l Hx Hl IH]; intros [|y ys] Hys ps E F; simpl in E; try discriminate.
    + constructor.
    + destruct (prefix_pairs x y) as [p|] eqn:Ep; [|discriminate].
      destruct (zip_pairs prefix_pairs l ys) as [q|] eqn:Eq; [|discriminate].
      inversion E; subst. rewrite forallb_app in F. apply andb_true_iff in F. destruct F as [Fp Fq].
      inversion Hys as [|? ? Hy Hys']; subst.
      constructor; [apply (Hx y Hy); exists p; auto | apply (IH ys Hys' q); auto].
  - destruct m; try (simpl in E; discriminate).
    apply CoeffTree_dict in Hm. destruct Hm as [_ Hm].
    rewrite prefix_pairs_dict in E. apply FlagsFor_dict.
    revert kvs0 Hm ps E F. induction H as [|[k x] l Hx Hl IH]; intros [|[k' y] ys] Hys ps E F; simpl in E; try discriminate.
    + constructor.
    + destruct (Nat.eqb_spec k k'); [subst|discriminate].
      destruct (prefix_pairs x y) as [p|] eqn:Ep; [|discriminate].
      destruct (zip_pairs_kv prefix_pairs l ys) as [q|] eqn:Eq; [|discriminate].
      inversion E; subst. rewrite forallb_app in F. apply andb_true_iff in F. destruct F as [Fp Fq].
      inversion Hys as [|? ? Hy Hys']; subst. simpl in Hy, Hx.
      constructor; [apply (Hx y Hy); exists p; auto | apply (IH ys Hys' q); auto].
  - destruct H as [H|H].
    + assert (E' : prefix_pairs ie m = Some [(ie, m)]) by (destruct ie; simpl in H; try discriminate; reflexivity).
      rewrite E' in E. inversion E; subst. simpl in F. rewrite andb_true_r in F.
      unfold flag_pair_ok in F. simpl in F.
      destruct m as [s dt| | | | | | | | | | | | |]; try discriminate.
      apply andb_true_iff in F. destruct F as [F1 F2]. apply orb_true_iff in F1.
      rewrite !shape_eqb_eq in F1.
      destruct ie as [s' []| | | | | | | | | | | | |]; simpl in H; try discriminate; simpl in F2; try discriminate;
        simpl; simpl in F1; tauto.
    + subst. destruct m; simpl in E; try discriminate. simpl in Hm. contradiction.
Qed.

Lemma flags_tree_dense_sound : forall ie mean,
    CoeffTree mean -> flags_tree_dense ie mean = Accept -> FlagsFor ie mean.
Proof.
  intros ie mean Hm H. apply pairs_flagsfor; [exact Hm|]. apply flags_tree_dense_accept. exact H.
Qed.

Lemma wf_tcoeffs_coefftree : forall x, WfTcoeffs x -> CoeffTree x.
Proof.
  intros x H. unfold WfTcoeffs in H.
  destruct x; simpl in H; try contradiction; destruct xs as [|c cs]; try contradiction; destruct H as [Hc Hs].
  - apply CoeffTree_list. split; [discriminate|]. constructor; [exact Hc|].
    induction Hs as [|y l Hy Hl IH]; constructor; [exact (SameShape_coefftree_r c y Hy) | exact IH].
  - apply CoeffTree_tuple. split; [discriminate|]. constructor; [exact Hc|].
    induction Hs as [|y l Hy Hl IH]; constructor; [exact (SameShape_coefftree_r c y Hy) | exact IH].
Qed.

(* dense / blockdiag: an accepted flag argument is well-formed *)
Lemma std_dense_sound : forall f mean ie std,
    f <> Isotropic -> WfTcoeffs mean -> tcoeffs_std f mean ie = Ok std -> WfFlags f mean ie.
Proof.
  intros f mean ie std Hf Hw H.
  assert (Hd : std_dense mean ie = Ok std) by (destruct f; [exact H | congruence | exact H]).
  unfold WfFlags. unfold std_dense in Hd.
  assert (G : ie = APyBool \/ FlagsFor ie mean).
  { destruct ie; try (right; apply flags_tree_dense_sound; [apply wf_tcoeffs_coefftree; exact Hw|];
                      match type of Hd with (match ?m with _ => _ end) = _ => destruct m; try discriminate; reflexivity end).
    left. reflexivity. }
  destruct f; [exact G | congruence | exact G].
Qed.

(* ---- isotropic flags: one scalar per coefficient *)
Lemma struct_self_false : forall c,
    (forall cs, struct_eqb (AList (c :: cs)) c = false) /\
    (forall cs, struct_eqb (ATuple (c :: cs)) c = false).
Proof.
  induction c using aval_ind'.
  - split; [|intros; reflexivity]. intros cs. rewrite struct_list.
    destruct xs as [|y ys]; [reflexivity|].
    change (forall2b struct_eqb (AList (y :: ys) :: cs) (y :: ys))
      with (struct_eqb (AList (y :: ys)) y && forall2b struct_eqb cs ys).
    inversion H as [|? ? Hy _]; subst. destruct Hy as [Hy _]. rewrite (Hy ys). reflexivity.
  - split; [intros; reflexivity|]. intros cs. rewrite struct_tuple.
    destruct xs as [|y ys]; [reflexivity|].
    change (forall2b struct_eqb (ATuple (y :: ys) :: cs) (y :: ys))
      with (struct_eqb (ATuple (y :: ys)) y && forall2b struct_eqb cs ys).
    inversion H as [|? ? Hy _]; subst. destruct Hy as [_ Hy]. rewrite (Hy ys). reflexivity.
  - split; intros; reflexivity.
  - destruct H as [H|H]; [|subst; split; intros; reflexivity].
    destruct c; simpl in H; try discriminate; split; intros; reflexivity.
Qed.

Lemma d1_template_unfold : forall x0 v,
    d1_template x0 v =
    if struct_eqb v x0 then AArr [] DFloat else
      match v with
      | AList xs => AList (map (d1_template x0) xs)
      | ATuple xs => ATuple (map (d1_template x0) xs)
      | ADict kvs => ADict (map (fun kv => match kv with (k, x) => (k, d1_template x0 x) end) kvs)
      | ANone => ANone
      | _ => AArr [] DFloat
      end.
Proof. intros x0 v. destruct v; reflexivity. Qed.

Definition scalars (n : nat) : list aval := repeat (AArr [] DFloat) n.

Lemma template_of_coeffs : forall c l,
    Forall (fun x => struct_eqb x c = true) l -> map (d1_template c) l = scalars (length l).
Proof.
  intros c l H. induction H as [|x l Hx Hl IH]; simpl; [reflexivity|].
  rewrite d1_template_unfold, Hx, IH. reflexivity.
Qed.

Lemma wf_coeffs_struct : forall c cs,
    CoeffTree c -> Forall (SameShape c) cs -> Forall (fun x => struct_eqb x c = true) (c :: cs).
Proof.
  intros c cs Hc Hs. constructor.
  - apply sameshape_struct. apply SameShape_refl. exact Hc.
  - induction Hs as [|y l Hy Hl IH]; constructor; [|exact IH].
    apply sameshape_struct. apply SameShape_sym. exact Hy.
Qed.

Definition iso_pair_ok (ab : aval * aval) : bool :=
  match np_shape (snd ab) with
  | Some sb => shape_eqb (leaf_shape (fst ab)) sb
  | None => false
  end && match leaf_dtype (fst ab) with Some DBool => true | _ => false end.

Lemma iso_flag_stages : forall ps bs ds,
    mapM (fun ab : aval * aval =>
            let (a, b) := ab in
            match np_shape b with
            | Some sb => Ok (shape_eqb (leaf_shape a) sb)
            | None => Err OtherErr
            end) ps = Ok bs ->
    forallb (fun b => b) bs = true ->
    mapM (fun ab : aval * aval =>
            match leaf_dtype (fst ab) with Some d => Ok d | None => Err OtherErr end) ps = Ok ds ->
    forallb is_bool_dtype ds = true ->
    forallb iso_pair_ok ps = true.
Proof.
  induction ps as [|[a b] ps IH]; intros bs ds H1 H2 H3 H4; [reflexivity|].
  simpl in H1, H3.
  destruct (np_shape b) as [sb|] eqn:Eb; [|discriminate].
  destruct (mapM _ ps) as [bs'|] eqn:E1 in H1; [|discriminate]. inversion H1; subst. clear H1.
  destruct (leaf_dtype a) as [d|] eqn:Ed; [|discriminate].
  destruct (mapM _ ps) as [ds'|] eqn:E3 in H3; [|discriminate]. inversion H3; subst. clear H3.
  simpl in H2, H4. apply andb_true_iff in H2. destruct H2 as [H2a H2b].
  apply andb_true_iff in H4. destruct H4 as [H4a H4b].
  simpl. unfold iso_pair_ok at 1. simpl. rewrite Eb, H2a, Ed.
  destruct d; simpl in H4a; try discriminate. simpl.
  exact (IH bs' ds' E1 H2b E3 H4b).
Qed.

Lemma flags_tree_iso_accept : forall ie t,
    flags_tree_iso ie t = Accept ->
    exists ps, prefix_pairs ie t = Some ps /\ forallb iso_pair_ok ps = true.
Proof.
  intros ie t H. unfold flags_tree_iso in H.
  destruct (prefix_pairs ie t) as [ps|]; [|discriminate].
  exists ps. split; [reflexivity|].
  match type of H with (match ?m with _ => _ end) = _ => destruct m as [bs|e] eqn:E1 end.
  - destruct (forallb (fun b => b) bs) eqn:E2; simpl in H; [|discriminate].
    match type of H with (match ?m with _ => _ end) = _ => destruct m as [ds|e] eqn:E3 end.
    + destruct (forallb is_bool_dtype ds) eqn:E4; [|discriminate].
      exact (iso_flag_stages ps bs ds E1 E2 E3 E4).
    + subst e. apply mapM_err in E3. destruct E3 as [[a b] [_ K]].
      simpl in K. destruct (leaf_dtype a); discriminate.
  - subst e. apply mapM_err in E1. destruct E1 as [[a b] [_ K]].
    destruct (np_shape b); discriminate.
Qed.

(* a flag tree zipped against n scalars: n scalar boolean flags *)
Lemma zip_scalars_flags : forall fs n ps,
    zip_pairs prefix_pairs fs (scalars n) = Some ps -> forallb iso_pair_ok ps = true ->
    length fs = n /\ Forall ScalarFlag fs.
Proof.
  induction fs as [|f fs IH]; intros [|n] ps E F; simpl in E; try discriminate.
  - split; [reflexivity | constructor].
  - destruct (prefix_pairs f (AArr [] DFloat)) as [p|] eqn:Ep; [|discriminate].
    fold (scalars n) in E.
    destruct (zip_pairs prefix_pairs fs (scalars n)) as [q|] eqn:Eq; [|discriminate].
    inversion E; subst. rewrite forallb_app in F. apply andb_true_iff in F. destruct F as [Fp Fq].
    destruct (IH n q Eq Fq) as [L A]. split; [simpl; congruence|]. constructor; [|exact A].
    destruct f as [s []| | | | | | | | | | | | |]; simpl in Ep; try discriminate;
      try (destruct xs; discriminate); try (destruct kvs; discriminate);
      inversion Ep; subst; simpl in Fp; unfold iso_pair_ok in Fp; simpl in Fp;
        rewrite ?andb_true_r, ?andb_false_r in Fp; try discriminate;
        unfold ScalarFlag; simpl; try (split; [exact I | reflexivity]).
    split; [exact I|]. apply shape_eqb_eq in Fp. exact Fp.
Qed.

Lemma length_scalars : forall n, length (scalars n) = n.
Proof. intros n. unfold scalars. apply repeat_length. Qed.

Lemma from_mean_and_std_verify_std : forall f mean std,
    from_mean_and_std f mean std = Accept -> verify std = Accept.
Proof.
  intros f mean std H. unfold from_mean_and_std in H.
  destruct (verify mean); try discriminate. destruct (verify std); try discriminate. reflexivity.
Qed.

Lemma iso_flags_sound : forall mean ie std,
    WfTcoeffs mean -> tcoeffs_std Isotropic mean ie = Ok std ->
    from_mean_and_std Isotropic mean std = Accept -> WfFlags Isotropic mean ie.
Proof.
  intros mean ie std Hw Hs Hf.
  pose proof (from_mean_and_std_verify_std _ _ _ Hf) as Hv.
  unfold WfFlags. simpl in Hs. unfold std_iso in Hs.
  unfold WfTcoeffs in Hw.
  destruct mean as [| | | |xs|xs| | | | | | | |]; simpl in Hw; try contradiction;
    destruct xs as [|c cs]; try contradiction; destruct Hw as [Hc Hcs]; simpl first_item in Hs.
  - (* list of coefficients *)
    pose proof (wf_coeffs_struct c cs Hc Hcs) as Hst.
    cbv beta iota zeta in Hs. rewrite d1_template_unfold in Hs.
    destruct (struct_self_false c) as [Sf _]. rewrite (Sf cs) in Hs.
    rewrite (template_of_coeffs c (c :: cs) Hst) in Hs.
    destruct ie as [| | | |fs|fs|kvs| | | | | | |];
      try (left; reflexivity);
      try (match type of Hs with (match ?m with _ => _ end) = _ => destruct m eqn:Ef; try discriminate end;
           inversion Hs; subst; simpl in Hv; discriminate).
    right.
    match type of Hs with (match ?m with _ => _ end) = _ => destruct m eqn:Ef; try discriminate end.
    destruct (flags_tree_iso_accept _ _ Ef) as [ps [Ep Fp]].
    rewrite prefix_pairs_list in Ep.
    destruct (zip_scalars_flags fs _ ps Ep Fp) as [L A].
    simpl. split; [rewrite L; reflexivity | exact A].
  - (* tuple of coefficients *)
    pose proof (wf_coeffs_struct c cs Hc Hcs) as Hst.
    cbv beta iota zeta in Hs. rewrite d1_template_unfold in Hs.
    destruct (struct_self_false c) as [_ Sf]. rewrite (Sf cs) in Hs.
    rewrite (template_of_coeffs c (c :: cs) Hst) in Hs.
    destruct ie as [| | | |fs|fs|kvs| | | | | | |];
      try (left; reflexivity);
      try (match type of Hs with (match ?m with _ => _ end) = _ => destruct m eqn:Ef; try discriminate end;
           inversion Hs; subst; simpl in Hv; discriminate).
    right.
    match type of Hs with (match ?m with _ => _ end) = _ => destruct m eqn:Ef; try discriminate end.
    destruct (flags_tree_iso_accept _ _ Ef) as [ps [Ep Fp]].
    rewrite prefix_pairs_tuple in Ep.
    destruct (zip_scalars_flags fs _ ps Ep Fp) as [L A].
    simpl. split; [rewrite L; reflexivity | exact A].
Qed.

(* ------------------------------------------------------------------------
   T (ALL inputs): soundness of prior_wiener_integrated for the three factorisations.
   On coefficient values without None / empty containers: whatever is accepted is
   well-formed in EVERY field -- malformed argument sets raise. *)
Theorem prior_iwp_accepts_only_wellformed :
  forall f tc ie sc, Regular tc -> prior_iwp f tc ie sc = Accept -> WfPriorIwp f tc ie sc.
Proof.
  intros f tc ie sc Hr H.
  destruct (prior_iwp_accepts_only_wellformed_coefficients_and_scales f tc ie sc Hr H) as [Hw Hsc].
  split; [exact Hw|]. split; [|exact Hsc].
  unfold prior_iwp in H.
  destruct (tcoeffs_std f tc ie) as [std|e] eqn:Es;
    [|exfalso; apply (tcoeffs_std_never_errs_with_accept f tc ie); congruence].
  destruct f.
  - apply (std_dense_sound Dense tc ie std); [discriminate | exact Hw | exact Es].
  - unfold prior_iwp_diffuse in H.
    destruct (from_mean_and_std Isotropic tc std) eqn:Ef; try discriminate.
    exact (iso_flags_sound tc ie std Hw Es Ef).
  - apply (std_dense_sound BlockDiag tc ie std); [discriminate | exact Hw | exact Es].
Qed.

Theorem prior_exp_accepts_only_wellformed :
  forall f ode tc ie sc, Regular tc -> prior_exp f ode tc ie sc = Accept ->
    f = Dense /\ (exists k, ode = AJetOdeAuto k /\ py_len tc = Some k) /\ WfPriorIwp Dense tc ie sc.
Proof.
  intros f ode tc ie sc Hr H.
  destruct (prior_exp_accepts_only_wellformed_coefficients_and_matching_order f ode tc ie sc Hr H) as [Hf [Hw Hk]].
  split; [exact Hf|]. split; [exact Hk|]. subst f.
  apply prior_iwp_accepts_only_wellformed; [exact Hr|].
  unfold prior_exp in H. unfold prior_iwp.
  destruct (tcoeffs_std Dense tc ie) as [std|e] eqn:Es;
    [|exfalso; apply (tcoeffs_std_never_errs_with_accept Dense tc ie); congruence].
  destruct (ode_order ode); [|discriminate]. destruct (py_len tc); [|discriminate].
  destruct (negb (n =? n0)); [discriminate|].
  destruct (prior_iwp_diffuse Dense tc std sc); try discriminate. reflexivity.
Qed.
