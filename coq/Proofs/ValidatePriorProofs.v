(* C20 -- general (all inputs) soundness of the prior constructors for the
   Taylor-coefficient field: whatever the other arguments are, an accepted
   coefficient container is well-formed. *)
From Coq Require Import List Bool Arith ZArith Lia.
From PD Require Import Model.Validate Spec.Shapes Proofs.ValidateProofs.
Import ListNotations.

Lemma forallb_flat_map : forall (A B : Type) (p : B -> bool) (g : A -> list B) (l : list A),
    forallb p (flat_map g l) = forallb (fun a => forallb p (g a)) l.
Proof.
  intros A B p g l. induction l as [|a l IH]; simpl; [reflexivity|].
  rewrite forallb_app, IH. reflexivity.
Qed.

Lemma d1_leaves_unfold : forall x0 v,
    d1_leaves x0 v =
    if struct_eqb v x0 then [v] else
      match v with
      | AList xs | ATuple xs => flat_map (d1_leaves x0) xs
      | ADict kvs => flat_map (fun kv => match kv with (_, x) => d1_leaves x0 x end) kvs
      | ANone => []
      | _ => [v]
      end.
Proof. intros x0 v. destruct v; reflexivity. Qed.

(* the depth-one leaves cover all leaves *)
Lemma d1_leaves_numeric : forall x0 v,
    forallb all_numeric (d1_leaves x0 v) = true -> all_numeric v = true.
Proof.
  intros x0. induction v using aval_ind'; intros Hl.
  - rewrite d1_leaves_unfold in Hl. destruct (struct_eqb (AList xs) x0).
    + simpl in Hl. rewrite andb_true_r in Hl. exact Hl.
    + rewrite forallb_flat_map in Hl. change (all_numeric (AList xs)) with (forallb all_numeric xs).
      induction H as [|x l Hx Hl' IH]; simpl in *; [reflexivity|].
      apply andb_true_iff in Hl. destruct Hl as [A B]. rewrite (Hx A), (IH B). reflexivity.
  - rewrite d1_leaves_unfold in Hl. destruct (struct_eqb (ATuple xs) x0).
    + simpl in Hl. rewrite andb_true_r in Hl. exact Hl.
    + rewrite forallb_flat_map in Hl. change (all_numeric (ATuple xs)) with (forallb all_numeric xs).
      induction H as [|x l Hx Hl' IH]; simpl in *; [reflexivity|].
      apply andb_true_iff in Hl. destruct Hl as [A B]. rewrite (Hx A), (IH B). reflexivity.
  - rewrite d1_leaves_unfold in Hl. destruct (struct_eqb (ADict kvs) x0).
    + simpl in Hl. rewrite andb_true_r in Hl. exact Hl.
    + rewrite forallb_flat_map in Hl.
      change (all_numeric (ADict kvs)) with
        (forallb (fun kv : nat * aval => match kv with (_, x) => all_numeric x end) kvs).
      induction H as [|[k x] l Hx Hl' IH]; simpl in *; [reflexivity|].
      apply andb_true_iff in Hl. destruct Hl as [A B]. rewrite (Hx A), (IH B). reflexivity.
  - destruct H as [H|H]; [|subst; reflexivity].
    rewrite d1_leaves_unfold in Hl.
    destruct v; simpl in H; try discriminate;
      destruct (struct_eqb _ x0) in Hl; simpl in Hl; rewrite ?andb_true_r in Hl; exact Hl.
Qed.

Lemma d1_stack_ok_numeric : forall x, d1_stack_ok x = true -> all_numeric x = true /\ first_item x <> None.
Proof.
  intros x H. unfold d1_stack_ok in H. destruct (first_item x) as [x0|]; [|discriminate].
  apply andb_true_iff in H. destruct H as [H _]. apply andb_true_iff in H. destruct H as [H _].
  split; [apply (d1_leaves_numeric x0); exact H | discriminate].
Qed.

Lemma first_item_not_dict : forall x, first_item x <> None -> forall kvs, x <> ADict kvs.
Proof. intros x H kvs ->. apply H. reflexivity. Qed.

Lemma base_scale_first_item : forall f mean sc, base_scale f mean sc = Accept -> first_item mean <> None.
Proof.
  intros f mean sc H K. destruct f; simpl in H.
  - unfold base_scale_dense in H. rewrite K in H. discriminate.
  - unfold base_scale_iso in H. rewrite K in H.
    destruct sc; simpl in H; try discriminate;
      repeat match type of H with (if ?c then _ else _) = _ => destruct c; try discriminate end.
  - unfold base_scale_blockdiag in H. rewrite K in H. discriminate.
Qed.

(* T (all inputs): explicit standard deviations *)
Theorem prior_iwp_diffuse_accepts_only_wellformed_coefficients :
  forall f mean std sc, Regular mean ->
    prior_iwp_diffuse f mean std sc = Accept -> WfTcoeffs mean.
Proof.
  intros f mean std sc Hr H. unfold prior_iwp_diffuse in H.
  destruct (from_mean_and_std f mean std) eqn:E; try discriminate.
  pose proof (base_scale_first_item f mean sc H) as Hf.
  unfold from_mean_and_std in E.
  destruct (verify mean) eqn:Ev; try discriminate.
  destruct (verify std) eqn:Es; try discriminate.
  assert (Hn : all_numeric mean = true).
  { destruct f.
    - destruct (all_numeric mean); [reflexivity | discriminate].
    - destruct (d1_stack_ok mean) eqn:Ed; [|discriminate]. apply d1_stack_ok_numeric in Ed. tauto.
    - destruct (d1_stack_ok mean) eqn:Ed; [|discriminate]. apply d1_stack_ok_numeric in Ed. tauto. }
  apply verify_reflects; auto. apply first_item_not_dict. exact Hf.
Qed.

Lemma tcoeffs_std_never_errs_with_accept : forall f mean ie, tcoeffs_std f mean ie <> Err Accept.
Proof.
  intros f mean ie. unfold tcoeffs_std, std_dense, std_iso.
  destruct f.
  - destruct ie; try (destruct (flags_tree_dense _ mean); discriminate).
    destruct (all_numeric mean); discriminate.
  - destruct (first_item mean) as [x0|]; [|discriminate].
    destruct ie; try (destruct (flags_tree_iso _ _); discriminate). discriminate.
  - destruct ie; try (destruct (flags_tree_dense _ mean); discriminate).
    destruct (all_numeric mean); discriminate.
Qed.

(* T (all inputs): prior_wiener_integrated *)
Theorem prior_iwp_accepts_only_wellformed_coefficients :
  forall f tc ie sc, Regular tc -> prior_iwp f tc ie sc = Accept -> WfTcoeffs tc.
Proof.
  intros f tc ie sc Hr H. unfold prior_iwp in H.
  pose proof (tcoeffs_std_never_errs_with_accept f tc ie) as Hne.
  destruct (tcoeffs_std f tc ie) as [std|e]; [|subst; congruence].
  exact (prior_iwp_diffuse_accepts_only_wellformed_coefficients f tc std sc Hr H).
Qed.

(* T (all inputs): prior_exponential -- and the ODE is an autonomous ODE object of matching order *)
Theorem prior_exp_accepts_only_wellformed_coefficients_and_matching_order :
  forall f ode tc ie sc, Regular tc -> prior_exp f ode tc ie sc = Accept ->
    f = Dense /\ WfTcoeffs tc /\ exists k, ode = AJetOdeAuto k /\ py_len tc = Some k.
Proof.
  intros f ode tc ie sc Hr H. destruct f; try (simpl in H; discriminate).
  unfold prior_exp in H. split; [reflexivity|].
  pose proof (tcoeffs_std_never_errs_with_accept Dense tc ie) as Hne.
  destruct (tcoeffs_std Dense tc ie) as [std|e]; [|subst; congruence].
  destruct (ode_order ode) as [k|] eqn:Eo; [|discriminate].
  destruct (py_len tc) as [n|] eqn:El; [|discriminate].
  destruct (Nat.eqb_spec k n); simpl in H; [subst|discriminate].
  destruct (prior_iwp_diffuse Dense tc std sc) eqn:Ed; try discriminate.
  split; [exact (prior_iwp_diffuse_accepts_only_wellformed_coefficients Dense tc std sc Hr Ed)|].
  destruct ode; try discriminate. simpl in Eo. inversion Eo; subst. exists n. auto.
Qed.

(* rejections of the order mismatch carry the documented class *)
Lemma prior_exp_order_mismatch_is_TypeError :
  forall k tc sc, all_numeric tc = true -> py_len tc <> None -> py_len tc <> Some k ->
    prior_exp Dense (AJetOdeAuto k) tc APyBool sc = TypeErr.
Proof.
  intros k tc sc Hn Hl Hk. simpl. unfold std_dense. rewrite Hn. simpl.
  destruct (py_len tc) as [n|]; [|congruence].
  destruct (Nat.eqb_spec k n); [subst; congruence | reflexivity].
Qed.

Example ex_prior_accepts_only_wf_hyp :
  Regular ex_mean /\ prior_iwp Dense ex_mean APyBool ANone = Accept /\
  prior_exp Dense (AJetOdeAuto 2) ex_mean APyBool ANone = Accept.
Proof. repeat split; try (vm_compute; reflexivity); simpl; try discriminate; auto. Qed.

(* ------------------------------------------------------------ base scales *)
Lemma struct_list : forall xs ys, struct_eqb (AList xs) (AList ys) = forall2b struct_eqb xs ys.
Proof.
  induction xs as [|x xs IH]; intros [|y ys]; simpl; auto.
  specialize (IH ys). simpl in IH. rewrite IH. reflexivity.
Qed.

Lemma struct_tuple : forall xs ys, struct_eqb (ATuple xs) (ATuple ys) = forall2b struct_eqb xs ys.
Proof.
  induction xs as [|x xs IH]; intros [|y ys]; simpl; auto.
  specialize (IH ys). simpl in IH. rewrite IH. reflexivity.
Qed.

Lemma struct_dict : forall xs ys, struct_eqb (ADict xs) (ADict ys) = forall2b_kv struct_eqb xs ys.
Proof.
  induction xs as [|[k x] xs IH]; intros [|[k' y] ys]; simpl; auto.
  specialize (IH ys). simpl in IH. rewrite IH. reflexivity.
Qed.

Lemma sameshape_struct : forall a b, SameShape a b -> struct_eqb a b = true.
Proof.
  induction a using aval_ind'; intros b Hab.
  - destruct b; try (simpl in Hab; tauto).
    apply SameShape_list in Hab. destruct Hab as [_ Hab]. rewrite struct_list.
    revert xs0 Hab. induction H as [|x l Hx Hl IH]; intros ys Hab;
      inversion Hab as [|x0 y0 xs1 ys1 P1 P2]; subst; simpl; auto.
    rewrite (Hx _ P1), (IH _ P2). reflexivity.
  - destruct b; try (simpl in Hab; tauto).
    apply SameShape_tuple in Hab. destruct Hab as [_ Hab]. rewrite struct_tuple.
    revert xs0 Hab. induction H as [|x l Hx Hl IH]; intros ys Hab;
      inversion Hab as [|x0 y0 xs1 ys1 P1 P2]; subst; simpl; auto.
    rewrite (Hx _ P1), (IH _ P2). reflexivity.
  - destruct b; try (simpl in Hab; tauto).
    apply SameShape_dict in Hab. destruct Hab as [_ Hab]. rewrite struct_dict.
    revert kvs0 Hab. induction H as [|[k x] l Hx Hl IH]; intros ys Hab;
      inversion Hab as [|k0 x0 xs1 y0 ys1 P1 P2]; subst; simpl; auto.
    simpl in Hx. rewrite Nat.eqb_refl, (Hx _ P1), (IH _ P2). reflexivity.
  - destruct H as [H|H]; [|subst; simpl in Hab; destruct Hab as [K _]; contradiction].
    assert (S1 : Numeric a /\ Numeric b /\ shape_of a = shape_of b)
      by (destruct a; simpl in H; try discriminate; destruct b; simpl in Hab; tauto).
    destruct S1 as [N1 [N2 _]].
    destruct a; simpl in N1; try contradiction; destruct b; simpl in N2; try contradiction; reflexivity.
Qed.

Definition snd_leaves (ps : list (aval * aval)) : bool := forallb (fun ab : aval * aval => is_leaf (snd ab)) ps.

Lemma snd_leaves_app : forall p q, snd_leaves (p ++ q) = snd_leaves p && snd_leaves q.
Proof. intros. unfold snd_leaves. apply forallb_app. Qed.

Lemma float_like_leaf : forall b, is_leaf b = true -> is_leaf (float_like b) = true.
Proof. destruct b; simpl; intros H; try discriminate; reflexivity. Qed.

Lemma struct_pairs : forall a b,
    struct_eqb a b = true ->
    exists ps, prefix_pairs a (float_like b) = Some ps /\ snd_leaves ps = true.
Proof.
  induction a using aval_ind'; intros b Hab.
  - destruct b; try (simpl in Hab; discriminate).
    rewrite struct_list in Hab. change (float_like (AList xs0)) with (AList (map float_like xs0)).
    rewrite prefix_pairs_list.
    revert xs0 Hab. induction H as [|x l Hx Hl IH]; intros [|y ys] Hab; simpl in Hab; try discriminate.
    + exists []. auto.
    + apply andb_true_iff in Hab. destruct Hab as [A B].
      destruct (Hx y A) as [p [Ep Lp]]. destruct (IH ys B) as [q [Eq Lq]].
      exists (p ++ q). simpl. rewrite Ep, Eq, snd_leaves_app, Lp, Lq. auto.
  - destruct b; try (simpl in Hab; discriminate).
    rewrite struct_tuple in Hab. change (float_like (ATuple xs0)) with (ATuple (map float_like xs0)).
    rewrite prefix_pairs_tuple.
    revert xs0 Hab. induction H as [|x l Hx Hl IH]; intros [|y ys] Hab; simpl in Hab; try discriminate.
    + exists []. auto.
    + apply andb_true_iff in Hab. destruct Hab as [A B].
      destruct (Hx y A) as [p [Ep Lp]]. destruct (IH ys B) as [q [Eq Lq]].
      exists (p ++ q). simpl. rewrite Ep, Eq, snd_leaves_app, Lp, Lq. auto.
  - destruct b; try (simpl in Hab; discriminate).
    rewrite struct_dict in Hab.
    change (float_like (ADict kvs0)) with
      (ADict (map (fun kv : nat * aval => match kv with (k, x) => (k, float_like x) end) kvs0)).
    rewrite prefix_pairs_dict.
    revert kvs0 Hab. induction H as [|[k x] l Hx Hl IH]; intros [|[k' y] ys] Hab; simpl in Hab; try discriminate.
    + exists []. auto.
    + apply andb_true_iff in Hab. destruct Hab as [A B]. apply andb_true_iff in A. destruct A as [A0 A].
      simpl in Hx. destruct (Hx y A) as [p [Ep Lp]]. destruct (IH ys B) as [q [Eq Lq]].
      exists (p ++ q). simpl. rewrite A0, Ep, Eq, snd_leaves_app, Lp, Lq. auto.
  - destruct H as [H|H].
    + assert (Lb : is_leaf b = true) by (destruct a; simpl in H; try discriminate; simpl in Hab; exact Hab).
      exists [(a, float_like b)]. split.
      * destruct a; simpl in H; try discriminate; reflexivity.
      * unfold snd_leaves. simpl. rewrite (float_like_leaf b Lb). reflexivity.
    + subst. destruct b; simpl in Hab; try discriminate. exists []. auto.
Qed.

Lemma coefftree_float_like : forall b, CoeffTree b -> CoeffTree (float_like b).
Proof.
  induction b using aval_ind'; intros Hb.
  - apply CoeffTree_list in Hb. destruct Hb as [Hne Hb].
    change (float_like (AList xs)) with (AList (map float_like xs)). apply CoeffTree_list.
    split; [destruct xs; simpl; congruence|].
    clear Hne. induction H as [|x l Hx Hl IH]; simpl; [constructor|]. inversion Hb; subst. constructor; auto.
  - apply CoeffTree_tuple in Hb. destruct Hb as [Hne Hb].
    change (float_like (ATuple xs)) with (ATuple (map float_like xs)). apply CoeffTree_tuple.
    split; [destruct xs; simpl; congruence|].
    clear Hne. induction H as [|x l Hx Hl IH]; simpl; [constructor|]. inversion Hb; subst. constructor; auto.
  - apply CoeffTree_dict in Hb. destruct Hb as [Hne Hb].
    change (float_like (ADict kvs)) with
      (ADict (map (fun kv : nat * aval => match kv with (k, x) => (k, float_like x) end) kvs)).
    apply CoeffTree_dict. split; [destruct kvs; simpl; congruence|].
    clear Hne. induction H as [|[k x] l Hx Hl IH]; simpl; [constructor|]. inversion Hb; subst. constructor; simpl in *; auto.
  - destruct H as [H|H]; [|subst; simpl in Hb; contradiction].
    destruct b; simpl in H; try discriminate; simpl in Hb; try contradiction; exact I.
Qed.

Lemma sameshape_float_like : forall a b, CoeffTree b -> (SameShape a (float_like b) <-> SameShape a b).
Proof.
  induction a using aval_ind'; intros b Hb.
  - destruct b; try (simpl; tauto).
    apply CoeffTree_list in Hb. destruct Hb as [_ Hb].
    change (float_like (AList xs0)) with (AList (map float_like xs0)).
    rewrite !SameShape_list.
    assert (E : Forall2 SameShape xs (map float_like xs0) <-> Forall2 SameShape xs xs0).
    { revert xs0 Hb. induction H as [|x l Hx Hl IH]; intros [|y ys] Hys; simpl.
      - tauto.
      - split; intros K; inversion K.
      - split; intros K; inversion K.
      - inversion Hys as [|? ? Hy Hys']; subst.
        split; intros K; inversion K as [|x0 y0 xs1 ys1 P1 P2]; subst; constructor;
          try (apply (Hx y Hy); assumption); try (apply (IH ys Hys'); assumption). }
    rewrite E. tauto.
  - destruct b; try (simpl; tauto).
    apply CoeffTree_tuple in Hb. destruct Hb as [_ Hb].
    change (float_like (ATuple xs0)) with (ATuple (map float_like xs0)).
    rewrite !SameShape_tuple.
    assert (E : Forall2 SameShape xs (map float_like xs0) <-> Forall2 SameShape xs xs0).
    { revert xs0 Hb. induction H as [|x l Hx Hl IH]; intros [|y ys] Hys; simpl.
      - tauto.
      - split; intros K; inversion K.
      - split; intros K; inversion K.
      - inversion Hys as [|? ? Hy Hys']; subst.
        split; intros K; inversion K as [|x0 y0 xs1 ys1 P1 P2]; subst; constructor;
          try (apply (Hx y Hy); assumption); try (apply (IH ys Hys'); assumption). }
    rewrite E. tauto.
  - destruct b; try (simpl; tauto).
    apply CoeffTree_dict in Hb. destruct Hb as [_ Hb].
    change (float_like (ADict kvs0)) with
      (ADict (map (fun kv : nat * aval => match kv with (k, x) => (k, float_like x) end) kvs0)).
    rewrite !SameShape_dict.
    assert (E : Forall2kv SameShape kvs (map (fun kv : nat * aval => match kv with (k, x) => (k, float_like x) end) kvs0)
                <-> Forall2kv SameShape kvs kvs0).
    { revert kvs0 Hb. induction H as [|[k x] l Hx Hl IH]; intros [|[k' y] ys] Hys; simpl.
      - split; intros; constructor.
      - split; intros K; inversion K.
      - split; intros K; inversion K.
      - inversion Hys as [|? ? Hy Hys']; subst. simpl in Hy, Hx.
        split; intros K; inversion K as [|k0 x0 xs1 y0 ys1 P1 P2]; subst; constructor;
          try (apply (Hx y Hy); assumption); try (apply (IH ys Hys'); assumption). }
    rewrite E. tauto.
  - destruct H as [H|H]; [|subst; destruct b; simpl; tauto].
    destruct a; simpl in H; try discriminate;
      destruct b; simpl in Hb; try contradiction; simpl; tauto.
Qed.

Lemma wf_tcoeffs_first : forall mean, WfTcoeffs mean ->
    exists c cs, coefficients mean = Some (c :: cs) /\ first_item mean = Some c /\ CoeffTree c.
Proof.
  intros mean H. unfold WfTcoeffs in H.
  destruct mean; simpl in H; try contradiction;
    destruct xs as [|c cs]; try contradiction; exists c, cs; simpl; tauto.
Qed.

(* the tree checks of _process_base_scale, once the trivial cases are gone *)
Lemma tree_scale_checks : forall sc c,
    CoeffTree c ->
    ((all_numeric sc = true /\ struct_eqb sc c = true /\
      exists ps, prefix_pairs sc (float_like c) = Some ps /\ pairs_shapes_equal ps = true)
     <-> SameShape sc c).
Proof.
  intros sc c Hc.
  pose proof (coefftree_float_like c Hc) as Hf.
  split.
  - intros [A [B [ps [E S]]]].
    apply (sameshape_float_like sc c Hc). apply (loss_ok_reflects sc (float_like c) Hf).
    unfold loss_ok, pairs_ok. split; [exact A|]. exists ps. split; [exact E|].
    destruct (struct_pairs sc c B) as [ps' [E' L]]. rewrite E in E'. inversion E'; subst.
    unfold snd_leaves in L. rewrite L, S. reflexivity.
  - intros K. pose proof (sameshape_struct sc c K) as B.
    apply (sameshape_float_like sc c Hc) in K. apply (loss_ok_reflects sc (float_like c) Hf) in K.
    destruct K as [A [ps [E S]]]. unfold pairs_ok in S. apply andb_true_iff in S. destruct S as [_ S].
    split; [exact A|]. split; [exact B|]. exists ps. auto.
Qed.
