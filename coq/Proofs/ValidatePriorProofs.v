(* C20 -- general (all inputs) soundness of the prior constructors for the
   Taylor-coefficient field: whatever the other arguments are, an accepted
   coefficient container is well-formed. *)
From Coq Require Import List Bool Arith ZArith Lia.
From PD Require Import Model.Validate Spec.Shapes Proofs.ValidateProofs.
Import ListNotations.

Lemma forallb_flat_map : forall (A B : Type) (p : B -> bool) (g : A -> list B) (l : list A),
    forallb p (flat_map g l) = forallb (fun a => forallb p (g a)) l.
Proof.
  intros A B p g l. induction l as [|a l IH]; simpl; [reflexivity|].
  rewrite forallb_app, IH. reflexivity.
Qed.

Lemma d1_leaves_unfold : forall x0 v,
    d1_leaves x0 v =
    if struct_eqb v x0 then [v] else
      match v with
      | AList xs | ATuple xs => flat_map (d1_leaves x0) xs
      | ADict kvs => flat_map (fun kv => match kv with (_, x) => d1_leaves x0 x end) kvs
      | ANone => []
      | _ => [v]
      end.
Proof. intros x0 v. destruct v; reflexivity. Qed.

(* the depth-one leaves cover all leaves *)
Lemma d1_leaves_numeric : forall x0 v,
    forallb all_numeric (d1_leaves x0 v) = true -> all_numeric v = true.
Proof.
  intros x0. induction v using aval_ind'; intros Hl.
  - rewrite d1_leaves_unfold in Hl. destruct (struct_eqb (AList xs) x0).
    + simpl in Hl. rewrite andb_true_r in Hl. exact Hl.
    + rewrite forallb_flat_map in Hl. change (all_numeric (AList xs)) with (forallb all_numeric xs).
      induction H as [|x l Hx Hl' IH]; simpl in *; [reflexivity|].
      apply andb_true_iff in Hl. destruct Hl as [A B]. rewrite (Hx A), (IH B). reflexivity.
  - rewrite d1_leaves_unfold in Hl. destruct (struct_eqb (ATuple xs) x0).
    + simpl in Hl. rewrite andb_true_r in Hl. exact Hl.
    + rewrite forallb_flat_map in Hl. change (all_numeric (ATuple xs)) with (forallb all_numeric xs).
      induction H as [|x l Hx Hl' IH]; simpl in *; [reflexivity|].
      apply andb_true_iff in Hl. destruct Hl as [A B]. rewrite (Hx A), (IH B). reflexivity.
  - rewrite d1_leaves_unfold in Hl. destruct (struct_eqb (ADict kvs) x0).
    + simpl in Hl. rewrite andb_true_r in Hl. exact Hl.
    + rewrite forallb_flat_map in Hl.
      change (all_numeric (ADict kvs)) with
        (forallb (fun kv : nat * aval => match kv with (_, x) => all_numeric x end) kvs).
      induction H as [|[k x] l Hx Hl' IH]; simpl in *; [reflexivity|].
      apply andb_true_iff in Hl. destruct Hl as [A B]. rewrite (Hx A), (IH B). reflexivity.
  - destruct H as [H|H]; [|subst; reflexivity].
    rewrite d1_leaves_unfold in Hl.
    destruct v; simpl in H; try discriminate;
      destruct (struct_eqb _ x0) in Hl; simpl in Hl; rewrite ?andb_true_r in Hl; exact Hl.
Qed.

Lemma d1_stack_ok_numeric : forall x, d1_stack_ok x = true -> all_numeric x = true /\ first_item x <> None.
Proof.
  intros x H. unfold d1_stack_ok in H. destruct (first_item x) as [x0|]; [|discriminate].
  apply andb_true_iff in H. destruct H as [H _]. apply andb_true_iff in H. destruct H as [H _].
  split; [apply (d1_leaves_numeric x0); exact H | discriminate].
Qed.

Lemma first_item_not_dict : forall x, first_item x <> None -> forall kvs, x <> ADict kvs.
Proof. intros x H kvs ->. apply H. reflexivity. Qed.

Lemma base_scale_first_item : forall f mean sc, base_scale f mean sc = Accept -> first_item mean <> None.
Proof.
  intros f mean sc H K. destruct f; simpl in H.
  - unfold base_scale_dense in H. rewrite K in H. discriminate.
  - unfold base_scale_iso in H. rewrite K in H.
    destruct sc; simpl in H; try discriminate;
      repeat match type of H with (if ?c then _ else _) = _ => destruct c; try discriminate end.
  - unfold base_scale_blockdiag in H. rewrite K in H. discriminate.
Qed.

(* T (all inputs): explicit standard deviations *)
Theorem prior_iwp_diffuse_accepts_only_wellformed_coefficients :
  forall f mean std sc, Regular mean ->
    prior_iwp_diffuse f mean std sc = Accept -> WfTcoeffs mean.
Proof.
  intros f mean std sc Hr H. unfold prior_iwp_diffuse in H.
  destruct (from_mean_and_std f mean std) eqn:E; try discriminate.
  pose proof (base_scale_first_item f mean sc H) as Hf.
  unfold from_mean_and_std in E.
  destruct (verify mean) eqn:Ev; try discriminate.
  destruct (verify std) eqn:Es; try discriminate.
  assert (Hn : all_numeric mean = true).
  { destruct f.
    - destruct (all_numeric mean); [reflexivity | discriminate].
    - destruct (d1_stack_ok mean) eqn:Ed; [|discriminate]. apply d1_stack_ok_numeric in Ed. tauto.
    - destruct (d1_stack_ok mean) eqn:Ed; [|discriminate]. apply d1_stack_ok_numeric in Ed. tauto. }
  apply verify_reflects; auto. apply first_item_not_dict. exact Hf.
Qed.

Lemma tcoeffs_std_never_errs_with_accept : forall f mean ie, tcoeffs_std f mean ie <> Err Accept.
Proof.
  intros f mean ie. unfold tcoeffs_std, std_dense, std_iso.
  destruct f.
  - destruct ie; try (destruct (flags_tree_dense _ mean); discriminate).
    destruct (all_numeric mean); discriminate.
  - destruct (first_item mean) as [x0|]; [|discriminate].
    destruct ie; try (destruct (flags_tree_iso _ _); discriminate). discriminate.
  - destruct ie; try (destruct (flags_tree_dense _ mean); discriminate).
    destruct (all_numeric mean); discriminate.
Qed.

(* T (all inputs): prior_wiener_integrated *)
Theorem prior_iwp_accepts_only_wellformed_coefficients :
  forall f tc ie sc, Regular tc -> prior_iwp f tc ie sc = Accept -> WfTcoeffs tc.
Proof.
  intros f tc ie sc Hr H. unfold prior_iwp in H.
  pose proof (tcoeffs_std_never_errs_with_accept f tc ie) as Hne.
  destruct (tcoeffs_std f tc ie) as [std|e]; [|subst; congruence].
  exact (prior_iwp_diffuse_accepts_only_wellformed_coefficients f tc std sc Hr H).
Qed.

(* T (all inputs): prior_exponential -- and the ODE is an autonomous ODE object of matching order *)
Theorem prior_exp_accepts_only_wellformed_coefficients_and_matching_order :
  forall f ode tc ie sc, Regular tc -> prior_exp f ode tc ie sc = Accept ->
    f = Dense /\ WfTcoeffs tc /\ exists k, ode = AJetOdeAuto k /\ py_len tc = Some k.
Proof.
  intros f ode tc ie sc Hr H. destruct f; try (simpl in H; discriminate).
  unfold prior_exp in H. split; [reflexivity|].
  pose proof (tcoeffs_std_never_errs_with_accept Dense tc ie) as Hne.
  destruct (tcoeffs_std Dense tc ie) as [std|e]; [|subst; congruence].
  destruct (ode_order ode) as [k|] eqn:Eo; [|discriminate].
  destruct (py_len tc) as [n|] eqn:El; [|discriminate].
  destruct (Nat.eqb_spec k n); simpl in H; [subst|discriminate].
  destruct (prior_iwp_diffuse Dense tc std sc) eqn:Ed; try discriminate.
  split; [exact (prior_iwp_diffuse_accepts_only_wellformed_coefficients Dense tc std sc Hr Ed)|].
  destruct ode; try discriminate. simpl in Eo. inversion Eo; subst. exists n. auto.
Qed.

(* rejections of the order mismatch carry the documented class *)
Lemma prior_exp_order_mismatch_is_TypeError :
  forall k tc sc, all_numeric tc = true -> py_len tc <> None -> py_len tc <> Some k ->
    prior_exp Dense (AJetOdeAuto k) tc APyBool sc = TypeErr.
Proof.
  intros k tc sc Hn Hl Hk. simpl. unfold std_dense. rewrite Hn. simpl.
  destruct (py_len tc) as [n|]; [|congruence].
  destruct (Nat.eqb_spec k n); [subst; congruence | reflexivity].
Qed.

Example ex_prior_accepts_only_wf_hyp :
  Regular ex_mean /\ prior_iwp Dense ex_mean APyBool ANone = Accept /\
  prior_exp Dense (AJetOdeAuto 2) ex_mean APyBool ANone = Accept.
Proof. repeat split; try (vm_compute; reflexivity); simpl; try discriminate; auto. Qed.
