(* T02.1 for BOTH linearisation orders (isotropic model): one solver step of the
   uncalibrated filter is one step of the textbook EXTENDED Kalman filter whose
   observation model is the documented linearisation at the predicted mean --
   TS0: H = derivative selector E_k, bias -f(m^-);
   TS1: H = E_k - (trace-averaged Jacobian of f), bias g(m^-) - H m^-  --
   and, by induction over the step sizes, on every fixed grid. *)
From Coq Require Import List Arith Lia Bool Field Ring.
From PD Require Import Base.Field Base.Matrix Base.Solve Model.Gauss Model.Poly Model.Prior Model.Solver
  Spec.RTS Proofs.GaussProofs Proofs.FilterProofs Proofs.PriorProofs Proofs.SolverRefine Proofs.SolverGrid.
Import ListNotations.

Section SolverRefineLin.
  Context {F : Type} `{FL : FieldLaws F}.
  Local Open Scope F_scope.
  Add Field FFl : fth.
  Local Notation mat := (@mat F).
  Local Notation normal := (@normal F).

  (* the documented isotropic linearisation at a predicted marginal *)
  Definition iso_H (q d : nat) (o : @odeP F) (l : lin) (t' : F) (pred : normal) : mat :=
    let s := mkShape Iso q d in
    match l with
    | TS0 => mk 1 (S q) (fun _ col => delta (ode_k o) col)
    | TS1 => mk 1 (S q) (fun _ i => vsum d (fun a => dg_eval s o [pred] t' a i a) / fnat d)
    end.
  Definition iso_bias (q d : nat) (o : @odeP F) (l : lin) (t' : F) (pred : normal) : mat :=
    let s := mkShape Iso q d in
    match l with
    | TS0 => mk 1 d (fun _ a => - f_eval s o [pred] t' a)
    | TS1 => mk 1 d (fun _ a => g_eval s o [pred] t' a
                                - vsum (S q) (fun i => mget (iso_H q d o TS1 t' pred) 0 i * coeff s [pred] i a))
    end.

  Definition ekf_step_iso_lin (q d : nat) (o : @odeP F) (l : lin) (s2 damp2 : F) (t' dt : F) (rv : normal)
    : option (normal * @cond F) :=
    let pred := kf_predict (S q) d (iwp_A_closed q dt) (mzero (S q) d) (iwp_Q_closed q dt s2) rv in
    let Hm := iso_H q d o l t' pred in
    let b := iso_bias q d o l t' pred in
    let R := noise_cov 1 damp2 in
    match kf_update minv (S q) 1 d Hm b R pred with
    | None => None
    | Some upd => Some (upd, from_linop_and_noise (S q) 1 Hm (mkN b R))
    end.

  Theorem iso_filter_step_is_ekf_step (q d : nat) (o : @odeP F) (l : lin) (base2 : @vec F) (damp2 : F)
          (st : @sstate F) (rv : normal) (pc : list (@cond F)) (dt : F) :
    let cf := mkCfg (mkShape Iso q d) Filter CalNone l o base2 damp2 in
    dt <> 0 ->
    st_u st = [rv] -> st_post st = mkPost [rv] pc ->
    symmetric (S q) (n_cov (kf_predict (S q) d (iwp_A_closed q dt) (mzero (S q) d)
                              (iwp_Q_closed q dt (vget base2 0 * 1)) rv)) ->
    solver_step minv cf st dt
    = match ekf_step_iso_lin q d o l (vget base2 0 * 1) damp2 (st_t st + dt) dt rv with
      | None => None
      | Some (upd, fx) =>
        Some (mkSt (st_t st + dt) [upd] (mkPost [upd] pc) [1] (st_run2 st)
                   (st_ndata st) (S (st_nsteps st)) [fx])
      end.
  Proof.
    intros cf Hdt Hu Hp Hsym.
    unfold solver_step, cf; cbn [cf_calib cf_shape cf_strat cf_base2 cf_ode cf_lin cf_damp2].
    unfold transition; cbn [sh_kind sh_q sh_d].
    unfold ones; cbn [sh_blocks sh_kind seq map nth].
    rewrite Hp. unfold predict; cbn [p_marg p_cond].
    unfold f_marg; cbn [map2 sh_N sh_c sh_kind sh_q sh_d].
    rewrite c_marg_is_kalman_prediction. cbv zeta.
    rewrite (iwp_plain_A_closed_form q d dt _ Hdt).
    rewrite (iwp_plain_Q_closed_form q d dt _).
    assert (Hb : c_b (c_plain (S q) (S q) d (iwp_transition_1d q d dt (vget base2 0 * 1))) = mzero (S q) d).
    { unfold c_plain, iwp_transition_1d; cbn [c_b c_to]. apply scale_rows_mzero. }
    rewrite Hb.
    set (pred := kf_predict (S q) d (iwp_A_closed q dt) (mzero (S q) d)
                            (iwp_Q_closed q dt (vget base2 0 * 1)) rv) in *.
    unfold ekf_step_iso_lin. fold pred.
    destruct l.
    - unfold linearize; cbn [sh_kind sh_q sh_d sh_N].
      unfold correct; cbn [omap2 sh_N sh_nout sh_c sh_kind sh_q sh_d].
      cbn [iso_H iso_bias].
      set (Hm := mk 1 (S q) (fun _ col => delta (ode_k o) col)).
      set (bb := mk 1 d (fun _ a => - f_eval (mkShape Iso q d) o [pred] (st_t st + dt) a)).
      pose proof (bayes_rule_is_kalman_update minv (S q) 1 d Hm bb (noise_cov 1 damp2) pred Hsym) as HK.
      destruct (bayes_rule minv (S q) 1 d (from_linop_and_noise (S q) 1 Hm (mkN bb (noise_cov 1 damp2)))
                           (mzero 1 d) pred) as [[ob up]|] eqn:Hbr;
        cbn [option_map snd] in HK.
      + rewrite <- HK. cbn [map fst snd]. unfold apply_updates; cbn [p_cond]. reflexivity.
      + rewrite <- HK. reflexivity.
    - unfold linearize; cbn [sh_kind sh_q sh_d sh_N].
      unfold correct; cbn [omap2 sh_N sh_nout sh_c sh_kind sh_q sh_d].
      cbn [iso_H iso_bias].
      set (Hm := mk 1 (S q) (fun _ i => vsum d (fun a => dg_eval (mkShape Iso q d) o [pred] (st_t st + dt) a i a) / fnat d)).
      set (bb := mk 1 d (fun _ a => g_eval (mkShape Iso q d) o [pred] (st_t st + dt) a
                                   - vsum (S q) (fun i => mget Hm 0 i * coeff (mkShape Iso q d) [pred] i a))).
      pose proof (bayes_rule_is_kalman_update minv (S q) 1 d Hm bb (noise_cov 1 damp2) pred Hsym) as HK.
      destruct (bayes_rule minv (S q) 1 d (from_linop_and_noise (S q) 1 Hm (mkN bb (noise_cov 1 damp2)))
                           (mzero 1 d) pred) as [[ob up]|] eqn:Hbr;
        cbn [option_map snd] in HK.
      + rewrite <- HK. cbn [map fst snd]. unfold apply_updates; cbn [p_cond]. reflexivity.
      + rewrite <- HK. reflexivity.
  Qed.

  Fixpoint ekf_grid_iso_lin (q d : nat) (o : @odeP F) (l : lin) (s2 damp2 : F) (t : F) (rv : normal) (dts : list F)
    : option (list (F * normal)) :=
    match dts with
    | [] => Some []
    | dt :: r =>
      match ekf_step_iso_lin q d o l s2 damp2 (t + dt) dt rv with
      | None => None
      | Some (upd, _) =>
        match ekf_grid_iso_lin q d o l s2 damp2 (t + dt) upd r with
        | None => None
        | Some rest => Some ((t + dt, upd) :: rest)
        end
      end
    end.

  Theorem iso_fixed_grid_is_ekf (q d : nat) (o : @odeP F) (l : lin) (base2 : @vec F) (damp2 : F)
          (dts : list F) :
    let cf := mkCfg (mkShape Iso q d) Filter CalNone l o base2 damp2 in
    Forall (fun dt => dt <> 0) dts ->
    forall (st : @sstate F) (rv : normal) (pc : list (@cond F)),
      st_u st = [rv] -> st_post st = mkPost [rv] pc ->
      symmetric (S q) (n_cov rv) ->
      option_map (map view) (fixed_grid_states minv cf st dts)
      = option_map (map lift1) (ekf_grid_iso_lin q d o l (vget base2 0 * 1) damp2 (st_t st) rv dts).
  Proof.
    intros cf Hall. induction Hall as [|dt r Hdt Hr IH]; intros st rv pc Hu Hp Hsym.
    - reflexivity.
    - cbn [fixed_grid_states ekf_grid_iso_lin].
      assert (Hps : symmetric (S q) (n_cov (kf_predict (S q) d (iwp_A_closed q dt) (mzero (S q) d)
                                (iwp_Q_closed q dt (vget base2 0 * 1)) rv))).
      { apply kf_predict_symmetric; [exact Hsym | apply iwp_Q_closed_symmetric]. }
      pose proof (iso_filter_step_is_ekf_step q d o l base2 damp2 st rv pc dt Hdt Hu Hp Hps) as Hstep.
      cbv zeta in Hstep. fold cf in Hstep. rewrite Hstep.
      destruct (ekf_step_iso_lin q d o l (vget base2 0 * 1) damp2 (st_t st + dt) dt rv) as [[upd fx]|] eqn:He.
      2:{ reflexivity. }
      assert (Hus : symmetric (S q) (n_cov upd)).
      { unfold ekf_step_iso_lin in He.
        match type of He with
        | match kf_update ?inv ?n ?k ?c ?Hm ?b ?R ?pred with _ => _ end = _ =>
          destruct (kf_update inv n k c Hm b R pred) as [u'|] eqn:Hku; [|discriminate];
            inversion He; subst;
            exact (kf_update_symmetric n k c Hm b R pred upd Hps (noise_cov_symmetric _ _) Hku)
        end. }
      set (st' := mkSt (st_t st + dt) [upd] (mkPost [upd] pc) [1] (st_run2 st)
                       (st_ndata st) (S (st_nsteps st)) [fx]).
      specialize (IH st' upd pc eq_refl eq_refl Hus).
      change (st_t st') with (st_t st + dt) in IH.
      destruct (fixed_grid_states minv cf st' r) as [ll|];
        destruct (ekf_grid_iso_lin q d o l (vget base2 0 * 1) damp2 (st_t st + dt) upd r) as [l'|];
        cbn [option_map] in IH |- *; try discriminate; try reflexivity.
      inversion IH as [Hl]. cbn [map]. rewrite Hl. reflexivity.
  Qed.
End SolverRefineLin.
