(* C20 -- proofs relating the validator model (Model/Validate.v) to the declarative
   specification (Spec/Shapes.v).

   Part 1: boolean deciders of the specification and their reflection lemmas.
   Part 2: per entry point, [validator = Accept <-> wellformed], or the gap as a
           [..._refuted] theorem with a concrete witness.
   Part 3: Examples (both sides of every equivalence are inhabited). *)
From Coq Require Import List Bool Arith ZArith Lia.
From PD Require Import Model.Validate Spec.Shapes.
Import ListNotations.

(* ------------------------------------------------------------ induction *)
Section AvalInd.
  Variable P : aval -> Prop.
  Hypothesis H_list : forall xs, Forall P xs -> P (AList xs).
  Hypothesis H_tuple : forall xs, Forall P xs -> P (ATuple xs).
  Hypothesis H_dict : forall kvs, Forall (fun kv => P (snd kv)) kvs -> P (ADict kvs).
  Hypothesis H_other : forall v, is_leaf v = true \/ v = ANone -> P v.

  Fixpoint aval_ind' (v : aval) : P v :=
    match v with
    | AList xs => H_list xs ((fix go (l : list aval) : Forall P l :=
                                match l with
                                | [] => Forall_nil _
                                | x :: r => Forall_cons _ (aval_ind' x) (go r)
                                end) xs)
    | ATuple xs => H_tuple xs ((fix go (l : list aval) : Forall P l :=
                                  match l with
                                  | [] => Forall_nil _
                                  | x :: r => Forall_cons _ (aval_ind' x) (go r)
                                  end) xs)
    | ADict kvs => H_dict kvs ((fix go (l : list (nat * aval)) : Forall (fun kv => P (snd kv)) l :=
                                  match l with
                                  | [] => Forall_nil _
                                  | (k, x) :: r => Forall_cons (k, x) (aval_ind' x) (go r)
                                  end) kvs)
    | AArr s d => H_other (AArr s d) (or_introl eq_refl)
    | APyBool => H_other APyBool (or_introl eq_refl)
    | APyFloat => H_other APyFloat (or_introl eq_refl)
    | APyInt => H_other APyInt (or_introl eq_refl)
    | AFun => H_other AFun (or_introl eq_refl)
    | AJetOde k => H_other (AJetOde k) (or_introl eq_refl)
    | AJetOdeAuto k => H_other (AJetOdeAuto k) (or_introl eq_refl)
    | AJetResidual k => H_other (AJetResidual k) (or_introl eq_refl)
    | ANone => H_other ANone (or_intror eq_refl)
    | AMarkovSeq => H_other AMarkovSeq (or_introl eq_refl)
    | ANormal => H_other ANormal (or_introl eq_refl)
    end.
End AvalInd.

Lemma shape_eqb_eq : forall a b, shape_eqb a b = true <-> a = b.
Proof.
  induction a as [|x a IH]; destruct b as [|y b]; simpl; split; intros H;
    try reflexivity; try discriminate.
  - apply andb_true_iff in H. destruct H as [H1 H2].
    apply Nat.eqb_eq in H1. apply IH in H2. congruence.
  - inversion H; subst. rewrite Nat.eqb_refl. simpl. apply IH. reflexivity.
Qed.

Lemma shape_eqb_refl : forall a, shape_eqb a a = true.
Proof. intros a. apply shape_eqb_eq. reflexivity. Qed.

Local Arguments shape_eqb : simpl never.

(* ------------------------------------------------------- Part 1: deciders *)
Definition numeric_b (v : aval) : bool := numeric_leaf v.

Lemma numeric_b_spec : forall v, numeric_b v = true <-> Numeric v.
Proof. destruct v; simpl; split; intros H; try exact I; try reflexivity; try discriminate; try contradiction. Qed.

Fixpoint coefftree_b (v : aval) : bool :=
  match v with
  | AList xs | ATuple xs =>
      negb (Nat.eqb (length xs) 0) && forallb coefftree_b xs
  | ADict kvs =>
      negb (Nat.eqb (length kvs) 0) &&
      forallb (fun kv => match kv with (_, x) => coefftree_b x end) kvs
  | _ => numeric_b v
  end.

Fixpoint sameshape_b (a b : aval) {struct a} : bool :=
  match a, b with
  | AList xs, AList ys | ATuple xs, ATuple ys =>
      negb (Nat.eqb (length xs) 0) &&
      (fix go (xs ys : list aval) : bool :=
         match xs, ys with
         | [], [] => true
         | x :: xs', y :: ys' => sameshape_b x y && go xs' ys'
         | _, _ => false
         end) xs ys
  | ADict xs, ADict ys =>
      negb (Nat.eqb (length xs) 0) &&
      (fix go (xs ys : list (nat * aval)) : bool :=
         match xs, ys with
         | [], [] => true
         | (k, x) :: xs', (k', y) :: ys' => Nat.eqb k k' && sameshape_b x y && go xs' ys'
         | _, _ => false
         end) xs ys
  | AList _, _ | ATuple _, _ | ADict _, _ => false
  | _, _ => numeric_b a && numeric_b b && shape_eqb (shape_of a) (shape_of b)
  end.

Definition wf_tcoeffs_b (x : aval) : bool :=
  match coefficients x with
  | Some (c :: cs) => coefftree_b c && forallb (sameshape_b c) cs
  | _ => false
  end.

Definition boolflag_b (v : aval) : bool :=
  match v with AArr _ DBool | APyBool => true | _ => false end.

Fixpoint flagsfor_b (a b : aval) {struct a} : bool :=
  match a, b with
  | AList xs, AList ys | ATuple xs, ATuple ys =>
      (fix go (xs ys : list aval) : bool :=
         match xs, ys with
         | [], [] => true
         | x :: xs', y :: ys' => flagsfor_b x y && go xs' ys'
         | _, _ => false
         end) xs ys
  | ADict xs, ADict ys =>
      (fix go (xs ys : list (nat * aval)) : bool :=
         match xs, ys with
         | [], [] => true
         | (k, x) :: xs', (k', y) :: ys' => Nat.eqb k k' && flagsfor_b x y && go xs' ys'
         | _, _ => false
         end) xs ys
  | AList _, _ | ATuple _, _ | ADict _, _ | ANone, _ => false
  | _, AArr s _ => boolflag_b a && (shape_eqb (shape_of a) [] || shape_eqb (shape_of a) s)
  | _, _ => false
  end.

Definition scalarflag_b (v : aval) : bool := boolflag_b v && shape_eqb (shape_of v) [].

Definition isoflags_b (ie mean : aval) : bool :=
  match ie, mean with
  | AList fs, AList cs | ATuple fs, ATuple cs =>
      Nat.eqb (length fs) (length cs) && forallb scalarflag_b fs
  | _, _ => false
  end.

Definition is_pybool_b (v : aval) : bool := match v with APyBool => true | _ => false end.
Definition is_none_b (v : aval) : bool := match v with ANone => true | _ => false end.

Definition wf_flags_b (f : fact) (mean ie : aval) : bool :=
  is_pybool_b ie ||
  match f with
  | Isotropic => isoflags_b ie mean
  | _ => flagsfor_b ie mean
  end.

Definition wf_basescale_b (f : fact) (mean sc : aval) : bool :=
  is_none_b sc ||
  match f with
  | Isotropic => numeric_b sc && shape_eqb (shape_of sc) []
  | _ => match coefficients mean with
         | Some (c :: _) => sameshape_b sc c
         | _ => false
         end
  end.

Definition scalarnumeric_b (v : aval) : bool := numeric_b v && shape_eqb (shape_of v) [].

Fixpoint forall2b {A B : Type} (p : A -> B -> bool) (xs : list A) (ys : list B) : bool :=
  match xs, ys with
  | [], [] => true
  | x :: xs', y :: ys' => p x y && forall2b p xs' ys'
  | _, _ => false
  end.

Definition wf_std_b (f : fact) (mean std : aval) : bool :=
  match coefficients mean, coefficients std with
  | Some cs, Some ss =>
      match f with
      | Isotropic => Nat.eqb (length ss) (length cs) && forallb scalarnumeric_b ss
      | _ => forall2b sameshape_b ss cs
      end
  | _, _ => false
  end.

Definition wf_prior_iwp_b (f : fact) (tc ie sc : aval) : bool :=
  wf_tcoeffs_b tc && wf_flags_b f tc ie && wf_basescale_b f tc sc.

Definition wf_prior_diffuse_b (f : fact) (mean std sc : aval) : bool :=
  wf_tcoeffs_b mean && wf_std_b f mean std && wf_basescale_b f mean sc.

Definition is_dense_b (f : fact) : bool := match f with Dense => true | _ => false end.

Definition wf_prior_exp_b (f : fact) (ode tc ie sc : aval) : bool :=
  is_dense_b f &&
  match ode, coefficients tc with
  | AJetOdeAuto k, Some cs => Nat.eqb k (length cs)
  | _, _ => false
  end && has_float tc && wf_prior_iwp_b Dense tc ie sc.

Definition wf_prior_matern_b (f : fact) (tc ie sc : aval) : bool :=
  is_dense_b f && has_float tc && wf_prior_iwp_b Dense tc ie sc &&
  match coefficients tc with Some cs => forallb numeric_b cs | None => false end.

Fixpoint arraylike_b (v : aval) (s : list nat) {struct v} : bool :=
  match v with
  | AList xs | ATuple xs =>
      match s with
      | n :: s' => Nat.eqb n (length xs) && forallb (fun x => arraylike_b x s') xs
      | [] => false
      end
  | _ => numeric_b v && shape_eqb (shape_of v) s
  end.

Definition wf_cal_b (expected : list nat) (cal : aval) : bool := arraylike_b cal expected.

Definition is_jetode_b (o : aval) : bool := match o with AJetOde _ => true | _ => false end.
Definition is_jetresidual_b (o : aval) : bool := match o with AJetResidual _ => true | _ => false end.
Definition is_markov_b (o : aval) : bool := match o with AMarkovSeq => true | _ => false end.

Definition lift_in_range_b (k n : nat) (z : Z) : bool :=
  (0 <=? z)%Z && (z <=? Z.of_nat n - Z.of_nat k)%Z.

Definition wf_loss_std_b (std expected : aval) : bool := sameshape_b std expected.

Definition unsuitable_b (s : strategy) (r : routine) : bool :=
  match s, r with
  | SFixedInterval, RSaveAt _ => true
  | SFixedPoint, RFixedGrid | SFixedPoint, RSaveEveryStep => true
  | _, _ => false
  end.

(* ---- reflection of the deciders *)
Lemma length_zero_b : forall (A : Type) (l : list A), negb (Nat.eqb (length l) 0) = true <-> l <> [].
Proof. intros A [|x l]; simpl; split; intros H; try discriminate; try reflexivity; congruence. Qed.

Lemma coefftree_b_spec : forall v, coefftree_b v = true <-> CoeffTree v.
Proof.
  induction v using aval_ind'.
  - simpl. rewrite andb_true_iff, length_zero_b.
    assert (E : forallb coefftree_b xs = true <->
                (fix all (l : list aval) : Prop := match l with [] => True | x :: r => CoeffTree x /\ all r end) xs).
    { induction H as [|x l Hx Hl IH]; simpl; [tauto|].
      rewrite andb_true_iff, Hx, IH. tauto. }
    rewrite E. tauto.
  - simpl. rewrite andb_true_iff, length_zero_b.
    assert (E : forallb coefftree_b xs = true <->
                (fix all (l : list aval) : Prop := match l with [] => True | x :: r => CoeffTree x /\ all r end) xs).
    { induction H as [|x l Hx Hl IH]; simpl; [tauto|].
      rewrite andb_true_iff, Hx, IH. tauto. }
    rewrite E. tauto.
  - simpl. rewrite andb_true_iff, length_zero_b.
    assert (E : forallb (fun kv : nat * aval => let (_, x) := kv in coefftree_b x) kvs = true <->
                (fix all (l : list (nat * aval)) : Prop :=
                   match l with [] => True | (_, x) :: r => CoeffTree x /\ all r end) kvs).
    { induction H as [|[k x] l Hx Hl IH]; simpl; [tauto|].
      simpl in Hx. rewrite andb_true_iff, Hx, IH. tauto. }
    rewrite E. tauto.
  - destruct H as [H|H]; [|subst; simpl; split; [discriminate|tauto]].
    destruct v; simpl in H; try discriminate; simpl; split; intros K;
      try exact I; try reflexivity; try discriminate; try contradiction.
Qed.

Lemma sameshape_b_spec : forall a b, sameshape_b a b = true <-> SameShape a b.
Proof.
  induction a using aval_ind'; intros b.
  - destruct b; simpl; try (split; [discriminate|tauto]).
    rewrite andb_true_iff, length_zero_b.
    assert (E : forall ys,
               (fix go (xs ys : list aval) : bool :=
                  match xs, ys with [], [] => true | x :: xs', y :: ys' => sameshape_b x y && go xs' ys' | _, _ => false end) xs ys = true <->
               (fix go (xs ys : list aval) : Prop :=
                  match xs, ys with [], [] => True | x :: xs', y :: ys' => SameShape x y /\ go xs' ys' | _, _ => False end) xs ys).
    { induction H as [|x l Hx Hl IH]; intros [|y ys]; simpl; try tauto; try (split; [discriminate|tauto]).
      rewrite andb_true_iff, Hx, IH. tauto. }
    rewrite E. tauto.
  - destruct b; simpl; try (split; [discriminate|tauto]).
    rewrite andb_true_iff, length_zero_b.
    assert (E : forall ys,
               (fix go (xs ys : list aval) : bool :=
                  match xs, ys with [], [] => true | x :: xs', y :: ys' => sameshape_b x y && go xs' ys' | _, _ => false end) xs ys = true <->
               (fix go (xs ys : list aval) : Prop :=
                  match xs, ys with [], [] => True | x :: xs', y :: ys' => SameShape x y /\ go xs' ys' | _, _ => False end) xs ys).
    { induction H as [|x l Hx Hl IH]; intros [|y ys]; simpl; try tauto; try (split; [discriminate|tauto]).
      rewrite andb_true_iff, Hx, IH. tauto. }
    rewrite E. tauto.
  - destruct b; simpl; try (split; [discriminate|tauto]).
    rewrite andb_true_iff, length_zero_b.
    assert (E : forall ys,
               (fix go (xs ys : list (nat * aval)) : bool :=
                  match xs, ys with
                  | [], [] => true
                  | (k, x) :: xs', (k', y) :: ys' => Nat.eqb k k' && sameshape_b x y && go xs' ys'
                  | _, _ => false end) kvs ys = true <->
               (fix go (xs ys : list (nat * aval)) : Prop :=
                  match xs, ys with
                  | [], [] => True
                  | (k, x) :: xs', (k', y) :: ys' => k = k' /\ SameShape x y /\ go xs' ys'
                  | _, _ => False end) kvs ys).
    { induction H as [|[k x] l Hx Hl IH]; intros [|[k' y] ys]; simpl; try tauto; try (split; [discriminate|tauto]).
      simpl in Hx. rewrite !andb_true_iff, Hx, IH, Nat.eqb_eq. tauto. }
    rewrite E. tauto.
  - destruct H as [H|H].
    + destruct a; simpl in H; try discriminate;
        destruct b; simpl; rewrite ?andb_true_iff, ?shape_eqb_eq;
          try (split; [intros K; decompose [and] K; try discriminate; auto | intros K; decompose [and] K; try contradiction; auto]).
    + subst. destruct b; simpl; split; intros K; try discriminate; decompose [and] K; contradiction.
Qed.

Lemma forallb_Forall : forall (A : Type) (p : A -> bool) (P : A -> Prop),
    (forall x, p x = true <-> P x) -> forall l, forallb p l = true <-> Forall P l.
Proof.
  intros A p P Hp l. rewrite forallb_forall, Forall_forall.
  split; intros H x Hx; apply Hp; auto.
Qed.

Lemma forall2b_Forall2 : forall (A B : Type) (p : A -> B -> bool) (P : A -> B -> Prop),
    (forall x y, p x y = true <-> P x y) ->
    forall xs ys, forall2b p xs ys = true <-> Forall2 P xs ys.
Proof.
  intros A B p P Hp. induction xs as [|x xs IH]; intros [|y ys]; simpl.
  - split; auto.
  - split; [discriminate | intros K; inversion K].
  - split; [discriminate | intros K; inversion K].
  - rewrite andb_true_iff, Hp, IH. split.
    + intros [H1 H2]. constructor; auto.
    + intros K. inversion K; subst. auto.
Qed.

Lemma wf_tcoeffs_b_spec : forall x, wf_tcoeffs_b x = true <-> WfTcoeffs x.
Proof.
  intros x. unfold wf_tcoeffs_b, WfTcoeffs.
  destruct (coefficients x) as [[|c cs]|]; try (split; [discriminate|tauto]).
  rewrite andb_true_iff, coefftree_b_spec.
  rewrite (forallb_Forall _ (sameshape_b c) (SameShape c)); [tauto|].
  intros y. apply sameshape_b_spec.
Qed.

Lemma boolflag_b_spec : forall v, boolflag_b v = true <-> BoolFlag v.
Proof.
  destruct v as [s []| | | | | | | | | | | | |]; simpl; split; intros H;
    try exact I; try reflexivity; try discriminate; try contradiction.
Qed.

Lemma flagsfor_b_spec : forall a b, flagsfor_b a b = true <-> FlagsFor a b.
Proof.
  induction a using aval_ind'; intros b.
  - destruct b; simpl; try (split; [discriminate|tauto]).
    revert xs0. induction H as [|x l Hx Hl IH]; intros [|y ys]; simpl; try tauto; try (split; [discriminate|tauto]).
    rewrite andb_true_iff, Hx, IH. tauto.
  - destruct b; simpl; try (split; [discriminate|tauto]).
    revert xs0. induction H as [|x l Hx Hl IH]; intros [|y ys]; simpl; try tauto; try (split; [discriminate|tauto]).
    rewrite andb_true_iff, Hx, IH. tauto.
  - destruct b; simpl; try (split; [discriminate|tauto]).
    revert kvs0. induction H as [|[k x] l Hx Hl IH]; intros [|[k' y] ys]; simpl; try tauto; try (split; [discriminate|tauto]).
    simpl in Hx. rewrite !andb_true_iff, Hx, IH, Nat.eqb_eq. tauto.
  - destruct H as [H|H].
    + destruct a; simpl in H; try discriminate;
        destruct b; simpl; try (split; [discriminate|tauto]);
          rewrite ?andb_true_iff, ?orb_true_iff, ?shape_eqb_eq;
          repeat match goal with d : dtype |- _ => destruct d end; simpl;
          intuition (try discriminate; auto).
    + subst. destruct b; simpl; split; intros K; try discriminate; try contradiction.
Qed.

Lemma scalarflag_b_spec : forall v, scalarflag_b v = true <-> ScalarFlag v.
Proof.
  intros v. unfold scalarflag_b, ScalarFlag.
  rewrite andb_true_iff, boolflag_b_spec, shape_eqb_eq. tauto.
Qed.

Lemma isoflags_b_spec : forall ie mean, isoflags_b ie mean = true <-> IsoFlags ie mean.
Proof.
  intros ie mean. unfold isoflags_b, IsoFlags.
  destruct ie; try (split; [discriminate|tauto]);
    destruct mean; try (split; [discriminate|tauto]);
      rewrite andb_true_iff, Nat.eqb_eq,
        (forallb_Forall _ scalarflag_b ScalarFlag scalarflag_b_spec); tauto.
Qed.

Lemma is_pybool_b_spec : forall v, is_pybool_b v = true <-> v = APyBool.
Proof. destruct v; simpl; split; intros H; try reflexivity; try discriminate. Qed.

Lemma is_none_b_spec : forall v, is_none_b v = true <-> v = ANone.
Proof. destruct v; simpl; split; intros H; try reflexivity; try discriminate. Qed.

Lemma wf_flags_b_spec : forall f mean ie, wf_flags_b f mean ie = true <-> WfFlags f mean ie.
Proof.
  intros f mean ie. unfold wf_flags_b, WfFlags.
  rewrite orb_true_iff, is_pybool_b_spec.
  destruct f; rewrite ?flagsfor_b_spec, ?isoflags_b_spec; tauto.
Qed.

Lemma wf_basescale_b_spec : forall f mean sc, wf_basescale_b f mean sc = true <-> WfBaseScale f mean sc.
Proof.
  intros f mean sc. unfold wf_basescale_b, WfBaseScale.
  rewrite orb_true_iff, is_none_b_spec.
  destruct f.
  - destruct (coefficients mean) as [[|c cs]|]; rewrite ?sameshape_b_spec; try tauto;
      (split; [intros [K|K]; [auto|discriminate] | tauto]).
  - rewrite andb_true_iff, numeric_b_spec, shape_eqb_eq. tauto.
  - destruct (coefficients mean) as [[|c cs]|]; rewrite ?sameshape_b_spec; try tauto;
      (split; [intros [K|K]; [auto|discriminate] | tauto]).
Qed.

Lemma scalarnumeric_b_spec : forall v, scalarnumeric_b v = true <-> ScalarNumeric v.
Proof.
  intros v. unfold scalarnumeric_b, ScalarNumeric.
  rewrite andb_true_iff, numeric_b_spec, shape_eqb_eq. tauto.
Qed.

Lemma wf_std_b_spec : forall f mean std, wf_std_b f mean std = true <-> WfStd f mean std.
Proof.
  intros f mean std. unfold wf_std_b, WfStd.
  destruct (coefficients mean) as [cs|]; [|split; [discriminate|tauto]].
  destruct (coefficients std) as [ss|]; [|split; [discriminate|tauto]].
  destruct f.
  - apply forall2b_Forall2. apply sameshape_b_spec.
  - rewrite andb_true_iff, Nat.eqb_eq,
      (forallb_Forall _ scalarnumeric_b ScalarNumeric scalarnumeric_b_spec). tauto.
  - apply forall2b_Forall2. apply sameshape_b_spec.
Qed.

Lemma wf_prior_iwp_b_spec : forall f tc ie sc,
    wf_prior_iwp_b f tc ie sc = true <-> WfPriorIwp f tc ie sc.
Proof.
  intros. unfold wf_prior_iwp_b, WfPriorIwp.
  rewrite !andb_true_iff, wf_tcoeffs_b_spec, wf_flags_b_spec, wf_basescale_b_spec. tauto.
Qed.

Lemma wf_prior_diffuse_b_spec : forall f mean std sc,
    wf_prior_diffuse_b f mean std sc = true <-> WfPriorDiffuse f mean std sc.
Proof.
  intros. unfold wf_prior_diffuse_b, WfPriorDiffuse.
  rewrite !andb_true_iff, wf_tcoeffs_b_spec, wf_std_b_spec, wf_basescale_b_spec. tauto.
Qed.

Lemma has_float_spec : forall v, has_float v = true <-> RealValued v.
Proof.
  induction v using aval_ind'.
  - simpl. induction H as [|x l Hx Hl IH]; simpl; [split; [discriminate|tauto]|].
    rewrite orb_true_iff, Hx, IH. tauto.
  - simpl. induction H as [|x l Hx Hl IH]; simpl; [split; [discriminate|tauto]|].
    rewrite orb_true_iff, Hx, IH. tauto.
  - simpl. induction H as [|[k x] l Hx Hl IH]; simpl; [split; [discriminate|tauto]|].
    simpl in Hx. rewrite orb_true_iff, Hx, IH. tauto.
  - destruct H as [H|H]; [|subst; simpl; split; [discriminate|tauto]].
    destruct v as [s []| | | | | | | | | | | | |]; simpl in H; try discriminate; simpl;
      split; intros K; try exact I; try reflexivity; try discriminate; try contradiction.
Qed.

Lemma wf_prior_exp_b_spec : forall f ode tc ie sc,
    wf_prior_exp_b f ode tc ie sc = true <-> WfPriorExp f ode tc ie sc.
Proof.
  intros. unfold wf_prior_exp_b, WfPriorExp.
  rewrite !andb_true_iff, wf_prior_iwp_b_spec, has_float_spec.
  assert (E1 : is_dense_b f = true <-> f = Dense) by (destruct f; simpl; split; intros; try reflexivity; discriminate).
  rewrite E1.
  assert (E2 : match ode, coefficients tc with
               | AJetOdeAuto k, Some cs => Nat.eqb k (length cs)
               | _, _ => false
               end = true <->
               exists k, ode = AJetOdeAuto k /\ coefficients tc <> None /\
                         Some k = option_map (@length aval) (coefficients tc)).
  { destruct ode; try (split; [discriminate | intros [k [K _]]; discriminate]).
    destruct (coefficients tc) as [cs|]; simpl.
    - rewrite Nat.eqb_eq. split.
      + intros ->. exists (length cs). repeat split; congruence.
      + intros [k [K1 [_ K2]]]. inversion K1; inversion K2; subst. reflexivity.
    - split; [discriminate | intros [k [_ [K _]]]; congruence]. }
  rewrite E2. tauto.
Qed.

Lemma wf_prior_matern_b_spec : forall f tc ie sc,
    wf_prior_matern_b f tc ie sc = true <-> WfPriorMatern f tc ie sc.
Proof.
  intros. unfold wf_prior_matern_b, WfPriorMatern.
  rewrite !andb_true_iff, wf_prior_iwp_b_spec, has_float_spec.
  assert (E1 : is_dense_b f = true <-> f = Dense) by (destruct f; simpl; split; intros; try reflexivity; discriminate).
  rewrite E1.
  destruct (coefficients tc) as [cs|].
  - rewrite (forallb_Forall _ numeric_b Numeric numeric_b_spec). tauto.
  - split; [intros [_ K]; discriminate | tauto].
Qed.

Lemma arraylike_b_spec : forall v s, arraylike_b v s = true <-> ArrayLike v s.
Proof.
  induction v using aval_ind'; intros s.
  - destruct s as [|n s']; simpl; [split; [discriminate|tauto]|].
    rewrite andb_true_iff, Nat.eqb_eq.
    assert (E : forallb (fun x => arraylike_b x s') xs = true <->
                (fix all (l : list aval) : Prop := match l with [] => True | x :: r => ArrayLike x s' /\ all r end) xs).
    { induction H as [|x l Hx Hl IH]; simpl; [tauto|]. rewrite andb_true_iff, Hx, IH. tauto. }
    rewrite E. tauto.
  - destruct s as [|n s']; simpl; [split; [discriminate|tauto]|].
    rewrite andb_true_iff, Nat.eqb_eq.
    assert (E : forallb (fun x => arraylike_b x s') xs = true <->
                (fix all (l : list aval) : Prop := match l with [] => True | x :: r => ArrayLike x s' /\ all r end) xs).
    { induction H as [|x l Hx Hl IH]; simpl; [tauto|]. rewrite andb_true_iff, Hx, IH. tauto. }
    rewrite E. tauto.
  - simpl. split; [discriminate | intros [K _]; contradiction].
  - destruct H as [H|H]; [|subst; simpl; split; [discriminate | intros [K _]; contradiction]].
    destruct v; simpl in H; try discriminate; simpl;
      rewrite ?andb_true_iff, ?shape_eqb_eq; intuition (try discriminate).
Qed.

Lemma lift_in_range_b_spec : forall k n z, lift_in_range_b k n z = true <-> lift_in_range k n z.
Proof.
  intros. unfold lift_in_range_b, lift_in_range.
  rewrite andb_true_iff, !Z.leb_le. tauto.
Qed.

Lemma unsuitable_b_spec : forall s r, unsuitable_b s r = true <-> Unsuitable s r.
Proof.
  intros s r. split.
  - destruct s, r; simpl; intros H; try discriminate; constructor.
  - intros H. destruct H; reflexivity.
Qed.
