(* C20 -- proofs relating the validator model (Model/Validate.v) to the declarative
   specification (Spec/Shapes.v).

   Part 1: boolean deciders of the specification and their reflection lemmas.
   Part 2: per entry point, [validator = Accept <-> wellformed], or the gap as a
           [..._refuted] theorem with a concrete witness.
   Part 3: Examples (both sides of every equivalence are inhabited). *)
From Coq Require Import List Bool Arith ZArith Lia.
From PD Require Import Model.Validate Spec.Shapes.
Import ListNotations.

(* ------------------------------------------------------------ induction *)
Section AvalInd.
  Variable P : aval -> Prop.
  Hypothesis H_list : forall xs, Forall P xs -> P (AList xs).
  Hypothesis H_tuple : forall xs, Forall P xs -> P (ATuple xs).
  Hypothesis H_dict : forall kvs, Forall (fun kv => P (snd kv)) kvs -> P (ADict kvs).
  Hypothesis H_other : forall v, is_leaf v = true \/ v = ANone -> P v.

  Fixpoint aval_ind' (v : aval) : P v :=
    match v with
    | AList xs => H_list xs ((fix go (l : list aval) : Forall P l :=
                                match l with
                                | [] => Forall_nil _
                                | x :: r => Forall_cons _ (aval_ind' x) (go r)
                                end) xs)
    | ATuple xs => H_tuple xs ((fix go (l : list aval) : Forall P l :=
                                  match l with
                                  | [] => Forall_nil _
                                  | x :: r => Forall_cons _ (aval_ind' x) (go r)
                                  end) xs)
    | ADict kvs => H_dict kvs ((fix go (l : list (nat * aval)) : Forall (fun kv => P (snd kv)) l :=
                                  match l with
                                  | [] => Forall_nil _
                                  | (k, x) :: r => Forall_cons (k, x) (aval_ind' x) (go r)
                                  end) kvs)
    | AArr s d => H_other (AArr s d) (or_introl eq_refl)
    | APyBool => H_other APyBool (or_introl eq_refl)
    | APyFloat => H_other APyFloat (or_introl eq_refl)
    | APyInt => H_other APyInt (or_introl eq_refl)
    | AFun => H_other AFun (or_introl eq_refl)
    | AJetOde k => H_other (AJetOde k) (or_introl eq_refl)
    | AJetOdeAuto k => H_other (AJetOdeAuto k) (or_introl eq_refl)
    | AJetResidual k => H_other (AJetResidual k) (or_introl eq_refl)
    | ANone => H_other ANone (or_intror eq_refl)
    | AMarkovSeq => H_other AMarkovSeq (or_introl eq_refl)
    | ANormal => H_other ANormal (or_introl eq_refl)
    end.
End AvalInd.

Lemma shape_eqb_eq : forall a b, shape_eqb a b = true <-> a = b.
Proof.
  induction a as [|x a IH]; destruct b as [|y b]; simpl; split; intros H;
    try reflexivity; try discriminate.
  - apply andb_true_iff in H. destruct H as [H1 H2].
    apply Nat.eqb_eq in H1. apply IH in H2. congruence.
  - inversion H; subst. rewrite Nat.eqb_refl. simpl. apply IH. reflexivity.
Qed.

Lemma shape_eqb_refl : forall a, shape_eqb a a = true.
Proof. intros a. apply shape_eqb_eq. reflexivity. Qed.

Local Arguments shape_eqb : simpl never.

(* ------------------------------------------------------- Part 1: deciders *)
Definition numeric_b (v : aval) : bool := numeric_leaf v.

Lemma numeric_b_spec : forall v, numeric_b v = true <-> Numeric v.
Proof. destruct v; simpl; split; intros H; try exact I; try reflexivity; try discriminate; try contradiction. Qed.

Fixpoint coefftree_b (v : aval) : bool :=
  match v with
  | AList xs | ATuple xs =>
      negb (Nat.eqb (length xs) 0) && forallb coefftree_b xs
  | ADict kvs =>
      negb (Nat.eqb (length kvs) 0) &&
      forallb (fun kv => match kv with (_, x) => coefftree_b x end) kvs
  | _ => numeric_b v
  end.

Fixpoint sameshape_b (a b : aval) {struct a} : bool :=
  match a, b with
  | AList xs, AList ys | ATuple xs, ATuple ys =>
      negb (Nat.eqb (length xs) 0) &&
      (fix go (xs ys : list aval) : bool :=
         match xs, ys with
         | [], [] => true
         | x :: xs', y :: ys' => sameshape_b x y && go xs' ys'
         | _, _ => false
         end) xs ys
  | ADict xs, ADict ys =>
      negb (Nat.eqb (length xs) 0) &&
      (fix go (xs ys : list (nat * aval)) : bool :=
         match xs, ys with
         | [], [] => true
         | (k, x) :: xs', (k', y) :: ys' => Nat.eqb k k' && sameshape_b x y && go xs' ys'
         | _, _ => false
         end) xs ys
  | AList _, _ | ATuple _, _ | ADict _, _ => false
  | _, _ => numeric_b a && numeric_b b && shape_eqb (shape_of a) (shape_of b)
  end.

Definition wf_tcoeffs_b (x : aval) : bool :=
  match coefficients x with
  | Some (c :: cs) => coefftree_b c && forallb (sameshape_b c) cs
  | _ => false
  end.

Definition boolflag_b (v : aval) : bool :=
  match v with AArr _ DBool | APyBool => true | _ => false end.

Fixpoint flagsfor_b (a b : aval) {struct a} : bool :=
  match a, b with
  | AList xs, AList ys | ATuple xs, ATuple ys =>
      (fix go (xs ys : list aval) : bool :=
         match xs, ys with
         | [], [] => true
         | x :: xs', y :: ys' => flagsfor_b x y && go xs' ys'
         | _, _ => false
         end) xs ys
  | ADict xs, ADict ys =>
      (fix go (xs ys : list (nat * aval)) : bool :=
         match xs, ys with
         | [], [] => true
         | (k, x) :: xs', (k', y) :: ys' => Nat.eqb k k' && flagsfor_b x y && go xs' ys'
         | _, _ => false
         end) xs ys
  | AList _, _ | ATuple _, _ | ADict _, _ | ANone, _ => false
  | _, AArr s _ => boolflag_b a && (shape_eqb (shape_of a) [] || shape_eqb (shape_of a) s)
  | _, _ => false
  end.

Definition scalarflag_b (v : aval) : bool := boolflag_b v && shape_eqb (shape_of v) [].

Definition isoflags_b (ie mean : aval) : bool :=
  match ie, mean with
  | AList fs, AList cs | ATuple fs, ATuple cs =>
      Nat.eqb (length fs) (length cs) && forallb scalarflag_b fs
  | _, _ => false
  end.

Definition is_pybool_b (v : aval) : bool := match v with APyBool => true | _ => false end.
Definition is_none_b (v : aval) : bool := match v with ANone => true | _ => false end.

Definition wf_flags_b (f : fact) (mean ie : aval) : bool :=
  is_pybool_b ie ||
  match f with
  | Isotropic => isoflags_b ie mean
  | _ => flagsfor_b ie mean
  end.

Definition wf_basescale_b (f : fact) (mean sc : aval) : bool :=
  is_none_b sc ||
  match f with
  | Isotropic => numeric_b sc && shape_eqb (shape_of sc) []
  | _ => match coefficients mean with
         | Some (c :: _) => sameshape_b sc c
         | _ => false
         end
  end.

Definition scalarnumeric_b (v : aval) : bool := numeric_b v && shape_eqb (shape_of v) [].

Fixpoint forall2b {A B : Type} (p : A -> B -> bool) (xs : list A) (ys : list B) : bool :=
  match xs, ys with
  | [], [] => true
  | x :: xs', y :: ys' => p x y && forall2b p xs' ys'
  | _, _ => false
  end.

Definition wf_std_b (f : fact) (mean std : aval) : bool :=
  match coefficients mean, coefficients std with
  | Some cs, Some ss =>
      match f with
      | Isotropic => Nat.eqb (length ss) (length cs) && forallb scalarnumeric_b ss
      | _ => forall2b sameshape_b ss cs
      end
  | _, _ => false
  end.

Definition wf_prior_iwp_b (f : fact) (tc ie sc : aval) : bool :=
  wf_tcoeffs_b tc && wf_flags_b f tc ie && wf_basescale_b f tc sc.

Definition wf_prior_diffuse_b (f : fact) (mean std sc : aval) : bool :=
  wf_tcoeffs_b mean && wf_std_b f mean std && wf_basescale_b f mean sc.

Definition is_dense_b (f : fact) : bool := match f with Dense => true | _ => false end.

Definition wf_prior_exp_b (f : fact) (ode tc ie sc : aval) : bool :=
  is_dense_b f &&
  match ode, coefficients tc with
  | AJetOdeAuto k, Some cs => Nat.eqb k (length cs)
  | _, _ => false
  end && has_float tc && wf_prior_iwp_b Dense tc ie sc.

Definition wf_prior_matern_b (f : fact) (tc ie sc : aval) : bool :=
  is_dense_b f && has_float tc && wf_prior_iwp_b Dense tc ie sc &&
  match coefficients tc with Some cs => forallb numeric_b cs | None => false end.

Fixpoint arraylike_b (v : aval) (s : list nat) {struct v} : bool :=
  match v with
  | AList xs | ATuple xs =>
      match s with
      | n :: s' => Nat.eqb n (length xs)
                   && (negb (Nat.eqb (length xs) 0) || shape_eqb s' [])
                   && forallb (fun x => arraylike_b x s') xs
      | [] => false
      end
  | _ => numeric_b v && shape_eqb (shape_of v) s
  end.

Definition wf_cal_b (expected : list nat) (cal : aval) : bool := arraylike_b cal expected.

Definition is_jetode_b (o : aval) : bool := match o with AJetOde _ => true | _ => false end.
Definition is_jetresidual_b (o : aval) : bool := match o with AJetResidual _ => true | _ => false end.
Definition is_markov_b (o : aval) : bool := match o with AMarkovSeq => true | _ => false end.

Definition lift_in_range_b (k n : nat) (z : Z) : bool :=
  (0 <=? z)%Z && (z <=? Z.of_nat n - Z.of_nat k)%Z.

Definition wf_loss_std_b (std expected : aval) : bool := sameshape_b std expected.

Definition unsuitable_b (s : strategy) (r : routine) : bool :=
  match s, r with
  | SFixedInterval, RSaveAt _ => true
  | SFixedPoint, RFixedGrid | SFixedPoint, RSaveEveryStep => true
  | _, _ => false
  end.

(* ---- reflection of the deciders *)
Lemma length_zero_b : forall (A : Type) (l : list A), negb (Nat.eqb (length l) 0) = true <-> l <> [].
Proof. intros A [|x l]; simpl; split; intros H; try discriminate; try reflexivity; congruence. Qed.

Lemma coefftree_b_spec : forall v, coefftree_b v = true <-> CoeffTree v.
Proof.
  induction v using aval_ind'.
  - simpl. rewrite andb_true_iff, length_zero_b.
    assert (E : forallb coefftree_b xs = true <->
                (fix all (l : list aval) : Prop := match l with [] => True | x :: r => CoeffTree x /\ all r end) xs).
    { induction H as [|x l Hx Hl IH]; simpl; [tauto|].
      rewrite andb_true_iff, Hx, IH. tauto. }
    rewrite E. tauto.
  - simpl. rewrite andb_true_iff, length_zero_b.
    assert (E : forallb coefftree_b xs = true <->
                (fix all (l : list aval) : Prop := match l with [] => True | x :: r => CoeffTree x /\ all r end) xs).
    { induction H as [|x l Hx Hl IH]; simpl; [tauto|].
      rewrite andb_true_iff, Hx, IH. tauto. }
    rewrite E. tauto.
  - simpl. rewrite andb_true_iff, length_zero_b.
    assert (E : forallb (fun kv : nat * aval => let (_, x) := kv in coefftree_b x) kvs = true <->
                (fix all (l : list (nat * aval)) : Prop :=
                   match l with [] => True | (_, x) :: r => CoeffTree x /\ all r end) kvs).
    { induction H as [|[k x] l Hx Hl IH]; simpl; [tauto|].
      simpl in Hx. rewrite andb_true_iff, Hx, IH. tauto. }
    rewrite E. tauto.
  - destruct H as [H|H]; [|subst; simpl; split; [discriminate|tauto]].
    destruct v; simpl in H; try discriminate; simpl; split; intros K;
      try exact I; try reflexivity; try discriminate; try contradiction.
Qed.

Lemma sameshape_b_spec : forall a b, sameshape_b a b = true <-> SameShape a b.
Proof.
  induction a using aval_ind'; intros b.
  - destruct b; simpl; try (split; [discriminate|tauto]).
    rewrite andb_true_iff, length_zero_b.
    assert (E : forall ys,
               (fix go (xs ys : list aval) : bool :=
                  match xs, ys with [], [] => true | x :: xs', y :: ys' => sameshape_b x y && go xs' ys' | _, _ => false end) xs ys = true <->
               (fix go (xs ys : list aval) : Prop :=
                  match xs, ys with [], [] => True | x :: xs', y :: ys' => SameShape x y /\ go xs' ys' | _, _ => False end) xs ys).
    { induction H as [|x l Hx Hl IH]; intros [|y ys]; simpl; try tauto; try (split; [discriminate|tauto]).
      rewrite andb_true_iff, Hx, IH. tauto. }
    rewrite E. tauto.
  - destruct b; simpl; try (split; [discriminate|tauto]).
    rewrite andb_true_iff, length_zero_b.
    assert (E : forall ys,
               (fix go (xs ys : list aval) : bool :=
                  match xs, ys with [], [] => true | x :: xs', y :: ys' => sameshape_b x y && go xs' ys' | _, _ => false end) xs ys = true <->
               (fix go (xs ys : list aval) : Prop :=
                  match xs, ys with [], [] => True | x :: xs', y :: ys' => SameShape x y /\ go xs' ys' | _, _ => False end) xs ys).
    { induction H as [|x l Hx Hl IH]; intros [|y ys]; simpl; try tauto; try (split; [discriminate|tauto]).
      rewrite andb_true_iff, Hx, IH. tauto. }
    rewrite E. tauto.
  - destruct b; simpl; try (split; [discriminate|tauto]).
    rewrite andb_true_iff, length_zero_b.
    assert (E : forall ys,
               (fix go (xs ys : list (nat * aval)) : bool :=
                  match xs, ys with
                  | [], [] => true
                  | (k, x) :: xs', (k', y) :: ys' => Nat.eqb k k' && sameshape_b x y && go xs' ys'
                  | _, _ => false end) kvs ys = true <->
               (fix go (xs ys : list (nat * aval)) : Prop :=
                  match xs, ys with
                  | [], [] => True
                  | (k, x) :: xs', (k', y) :: ys' => k = k' /\ SameShape x y /\ go xs' ys'
                  | _, _ => False end) kvs ys).
    { induction H as [|[k x] l Hx Hl IH]; intros [|[k' y] ys]; simpl; try tauto; try (split; [discriminate|tauto]).
      simpl in Hx. rewrite !andb_true_iff, Hx, IH, Nat.eqb_eq. tauto. }
    rewrite E. tauto.
  - destruct H as [H|H].
    + destruct a; simpl in H; try discriminate;
        destruct b; simpl; rewrite ?andb_true_iff, ?shape_eqb_eq;
          try (split; [intros K; decompose [and] K; try discriminate; auto | intros K; decompose [and] K; try contradiction; auto]).
    + subst. destruct b; simpl; split; intros K; try discriminate; decompose [and] K; contradiction.
Qed.

Lemma forallb_Forall : forall (A : Type) (p : A -> bool) (P : A -> Prop),
    (forall x, p x = true <-> P x) -> forall l, forallb p l = true <-> Forall P l.
Proof.
  intros A p P Hp l. rewrite forallb_forall, Forall_forall.
  split; intros H x Hx; apply Hp; auto.
Qed.

Lemma forall2b_Forall2 : forall (A B : Type) (p : A -> B -> bool) (P : A -> B -> Prop),
    (forall x y, p x y = true <-> P x y) ->
    forall xs ys, forall2b p xs ys = true <-> Forall2 P xs ys.
Proof.
  intros A B p P Hp. induction xs as [|x xs IH]; intros [|y ys]; simpl.
  - split; auto.
  - split; [discriminate | intros K; inversion K].
  - split; [discriminate | intros K; inversion K].
  - rewrite andb_true_iff, Hp, IH. split.
    + intros [H1 H2]. constructor; auto.
    + intros K. inversion K; subst. auto.
Qed.

Lemma wf_tcoeffs_b_spec : forall x, wf_tcoeffs_b x = true <-> WfTcoeffs x.
Proof.
  intros x. unfold wf_tcoeffs_b, WfTcoeffs.
  destruct (coefficients x) as [[|c cs]|]; try (split; [discriminate|tauto]).
  rewrite andb_true_iff, coefftree_b_spec.
  rewrite (forallb_Forall _ (sameshape_b c) (SameShape c)); [tauto|].
  intros y. apply sameshape_b_spec.
Qed.

Lemma boolflag_b_spec : forall v, boolflag_b v = true <-> BoolFlag v.
Proof.
  destruct v as [s []| | | | | | | | | | | | |]; simpl; split; intros H;
    try exact I; try reflexivity; try discriminate; try contradiction.
Qed.

Lemma flagsfor_b_spec : forall a b, flagsfor_b a b = true <-> FlagsFor a b.
Proof.
  induction a using aval_ind'; intros b.
  - destruct b; simpl; try (split; [discriminate|tauto]).
    revert xs0. induction H as [|x l Hx Hl IH]; intros [|y ys]; simpl; try tauto; try (split; [discriminate|tauto]).
    rewrite andb_true_iff, Hx, IH. tauto.
  - destruct b; simpl; try (split; [discriminate|tauto]).
    revert xs0. induction H as [|x l Hx Hl IH]; intros [|y ys]; simpl; try tauto; try (split; [discriminate|tauto]).
    rewrite andb_true_iff, Hx, IH. tauto.
  - destruct b; simpl; try (split; [discriminate|tauto]).
    revert kvs0. induction H as [|[k x] l Hx Hl IH]; intros [|[k' y] ys]; simpl; try tauto; try (split; [discriminate|tauto]).
    simpl in Hx. rewrite !andb_true_iff, Hx, IH, Nat.eqb_eq. tauto.
  - destruct H as [H|H].
    + destruct a; simpl in H; try discriminate;
        destruct b; simpl; try (split; [discriminate|tauto]);
          rewrite ?andb_true_iff, ?orb_true_iff, ?shape_eqb_eq;
          repeat match goal with d : dtype |- _ => destruct d end; simpl;
          intuition (try discriminate; auto).
    + subst. destruct b; simpl; split; intros K; try discriminate; try contradiction.
Qed.

Lemma scalarflag_b_spec : forall v, scalarflag_b v = true <-> ScalarFlag v.
Proof.
  intros v. unfold scalarflag_b, ScalarFlag.
  rewrite andb_true_iff, boolflag_b_spec, shape_eqb_eq. tauto.
Qed.

Lemma isoflags_b_spec : forall ie mean, isoflags_b ie mean = true <-> IsoFlags ie mean.
Proof.
  intros ie mean. unfold isoflags_b, IsoFlags.
  destruct ie; try (split; [discriminate|tauto]);
    destruct mean; try (split; [discriminate|tauto]);
      rewrite andb_true_iff, Nat.eqb_eq,
        (forallb_Forall _ scalarflag_b ScalarFlag scalarflag_b_spec); tauto.
Qed.

Lemma is_pybool_b_spec : forall v, is_pybool_b v = true <-> v = APyBool.
Proof. destruct v; simpl; split; intros H; try reflexivity; try discriminate. Qed.

Lemma is_none_b_spec : forall v, is_none_b v = true <-> v = ANone.
Proof. destruct v; simpl; split; intros H; try reflexivity; try discriminate. Qed.

Lemma wf_flags_b_spec : forall f mean ie, wf_flags_b f mean ie = true <-> WfFlags f mean ie.
Proof.
  intros f mean ie. unfold wf_flags_b, WfFlags.
  rewrite orb_true_iff, is_pybool_b_spec.
  destruct f; rewrite ?flagsfor_b_spec, ?isoflags_b_spec; tauto.
Qed.

Lemma wf_basescale_b_spec : forall f mean sc, wf_basescale_b f mean sc = true <-> WfBaseScale f mean sc.
Proof.
  intros f mean sc. unfold wf_basescale_b, WfBaseScale.
  rewrite orb_true_iff, is_none_b_spec.
  destruct f.
  - destruct (coefficients mean) as [[|c cs]|]; rewrite ?sameshape_b_spec; try tauto;
      (split; [intros [K|K]; [auto|discriminate] | tauto]).
  - rewrite andb_true_iff, numeric_b_spec, shape_eqb_eq. tauto.
  - destruct (coefficients mean) as [[|c cs]|]; rewrite ?sameshape_b_spec; try tauto;
      (split; [intros [K|K]; [auto|discriminate] | tauto]).
Qed.

Lemma scalarnumeric_b_spec : forall v, scalarnumeric_b v = true <-> ScalarNumeric v.
Proof.
  intros v. unfold scalarnumeric_b, ScalarNumeric.
  rewrite andb_true_iff, numeric_b_spec, shape_eqb_eq. tauto.
Qed.

Lemma wf_std_b_spec : forall f mean std, wf_std_b f mean std = true <-> WfStd f mean std.
Proof.
  intros f mean std. unfold wf_std_b, WfStd.
  destruct (coefficients mean) as [cs|]; [|split; [discriminate|tauto]].
  destruct (coefficients std) as [ss|]; [|split; [discriminate|tauto]].
  destruct f.
  - apply forall2b_Forall2. apply sameshape_b_spec.
  - rewrite andb_true_iff, Nat.eqb_eq,
      (forallb_Forall _ scalarnumeric_b ScalarNumeric scalarnumeric_b_spec). tauto.
  - apply forall2b_Forall2. apply sameshape_b_spec.
Qed.

Lemma wf_prior_iwp_b_spec : forall f tc ie sc,
    wf_prior_iwp_b f tc ie sc = true <-> WfPriorIwp f tc ie sc.
Proof.
  intros. unfold wf_prior_iwp_b, WfPriorIwp.
  rewrite !andb_true_iff, wf_tcoeffs_b_spec, wf_flags_b_spec, wf_basescale_b_spec. tauto.
Qed.

Lemma wf_prior_diffuse_b_spec : forall f mean std sc,
    wf_prior_diffuse_b f mean std sc = true <-> WfPriorDiffuse f mean std sc.
Proof.
  intros. unfold wf_prior_diffuse_b, WfPriorDiffuse.
  rewrite !andb_true_iff, wf_tcoeffs_b_spec, wf_std_b_spec, wf_basescale_b_spec. tauto.
Qed.

Lemma has_float_spec : forall v, has_float v = true <-> RealValued v.
Proof.
  induction v using aval_ind'.
  - simpl. induction H as [|x l Hx Hl IH]; simpl; [split; [discriminate|tauto]|].
    rewrite orb_true_iff, Hx, IH. tauto.
  - simpl. induction H as [|x l Hx Hl IH]; simpl; [split; [discriminate|tauto]|].
    rewrite orb_true_iff, Hx, IH. tauto.
  - simpl. induction H as [|[k x] l Hx Hl IH]; simpl; [split; [discriminate|tauto]|].
    simpl in Hx. rewrite orb_true_iff, Hx, IH. tauto.
  - destruct H as [H|H]; [|subst; simpl; split; [discriminate|tauto]].
    destruct v as [s []| | | | | | | | | | | | |]; simpl in H; try discriminate; simpl;
      split; intros K; try exact I; try reflexivity; try discriminate; try contradiction.
Qed.

Lemma wf_prior_exp_b_spec : forall f ode tc ie sc,
    wf_prior_exp_b f ode tc ie sc = true <-> WfPriorExp f ode tc ie sc.
Proof.
  intros. unfold wf_prior_exp_b, WfPriorExp.
  rewrite !andb_true_iff, wf_prior_iwp_b_spec, has_float_spec.
  assert (E1 : is_dense_b f = true <-> f = Dense) by (destruct f; simpl; split; intros; try reflexivity; discriminate).
  rewrite E1.
  assert (E2 : match ode, coefficients tc with
               | AJetOdeAuto k, Some cs => Nat.eqb k (length cs)
               | _, _ => false
               end = true <->
               exists k, ode = AJetOdeAuto k /\ coefficients tc <> None /\
                         Some k = option_map (@length aval) (coefficients tc)).
  { destruct ode; try (split; [discriminate | intros [k [K _]]; discriminate]).
    destruct (coefficients tc) as [cs|]; simpl.
    - rewrite Nat.eqb_eq. split.
      + intros ->. exists (length cs). repeat split; congruence.
      + intros [k [K1 [_ K2]]]. inversion K1; inversion K2; subst. reflexivity.
    - split; [discriminate | intros [k [_ [K _]]]; congruence]. }
  rewrite E2. tauto.
Qed.

Lemma wf_prior_matern_b_spec : forall f tc ie sc,
    wf_prior_matern_b f tc ie sc = true <-> WfPriorMatern f tc ie sc.
Proof.
  intros. unfold wf_prior_matern_b, WfPriorMatern.
  rewrite !andb_true_iff, wf_prior_iwp_b_spec, has_float_spec.
  assert (E1 : is_dense_b f = true <-> f = Dense) by (destruct f; simpl; split; intros; try reflexivity; discriminate).
  rewrite E1.
  destruct (coefficients tc) as [cs|].
  - rewrite (forallb_Forall _ numeric_b Numeric numeric_b_spec). tauto.
  - split; [intros [_ K]; discriminate | tauto].
Qed.

Lemma arraylike_b_spec : forall v s, arraylike_b v s = true <-> ArrayLike v s.
Proof.
  induction v using aval_ind'; intros s.
  - destruct s as [|n s']; simpl; [split; [discriminate|tauto]|].
    rewrite !andb_true_iff, orb_true_iff, Nat.eqb_eq, shape_eqb_eq, length_zero_b.
    assert (E : forallb (fun x => arraylike_b x s') xs = true <->
                (fix all (l : list aval) : Prop := match l with [] => True | x :: r => ArrayLike x s' /\ all r end) xs).
    { induction H as [|x l Hx Hl IH]; simpl; [tauto|]. rewrite andb_true_iff, Hx, IH. tauto. }
    rewrite E. clear E H. destruct xs as [|x0 xs0]; intuition congruence.
  - destruct s as [|n s']; simpl; [split; [discriminate|tauto]|].
    rewrite !andb_true_iff, orb_true_iff, Nat.eqb_eq, shape_eqb_eq, length_zero_b.
    assert (E : forallb (fun x => arraylike_b x s') xs = true <->
                (fix all (l : list aval) : Prop := match l with [] => True | x :: r => ArrayLike x s' /\ all r end) xs).
    { induction H as [|x l Hx Hl IH]; simpl; [tauto|]. rewrite andb_true_iff, Hx, IH. tauto. }
    rewrite E. clear E H. destruct xs as [|x0 xs0]; intuition congruence.
  - simpl. split; [discriminate | intros [K _]; contradiction].
  - destruct H as [H|H]; [|subst; simpl; split; [discriminate | intros [K _]; contradiction]].
    destruct v; simpl in H; try discriminate; simpl;
      rewrite ?andb_true_iff, ?shape_eqb_eq; intuition (try discriminate).
Qed.

Lemma lift_in_range_b_spec : forall k n z, lift_in_range_b k n z = true <-> lift_in_range k n z.
Proof.
  intros. unfold lift_in_range_b, lift_in_range.
  rewrite andb_true_iff, !Z.leb_le. tauto.
Qed.

Lemma unsuitable_b_spec : forall s r, unsuitable_b s r = true <-> Unsuitable s r.
Proof.
  intros s r. split.
  - destruct s, r; simpl; intros H; try discriminate; constructor.
  - intros H. destruct H; reflexivity.
Qed.

(* ------------------------------------------- Part 2: validators vs specification *)

(* ---- object-type gates *)
Lemma gate_jetode_reflects : forall o, gate_jetode o = Accept <-> IsJetOde o.
Proof.
  intros o. unfold IsJetOde. destruct o; simpl; split; intros H; try discriminate;
    try (destruct H as [? H]; discriminate); try reflexivity.
  exists order. reflexivity.
Qed.

Lemma gate_jetresidual_reflects : forall o, gate_jetresidual o = Accept <-> IsJetResidual o.
Proof.
  intros o. unfold IsJetResidual. destruct o; simpl; split; intros H; try discriminate;
    try (destruct H as [? H]; discriminate); try reflexivity.
  exists order. reflexivity.
Qed.

Lemma gate_posterior_reflects : forall o, gate_posterior o = Accept <-> IsMarkovSeq o.
Proof.
  intros o. unfold IsMarkovSeq. destruct o; simpl; split; intros H; try discriminate; reflexivity.
Qed.

Lemma gates_reject_with_TypeError : forall o,
    (gate_jetode o = Accept \/ gate_jetode o = TypeErr) /\
    (gate_jetresidual o = Accept \/ gate_jetresidual o = TypeErr) /\
    (gate_posterior o = Accept \/ gate_posterior o = TypeErr).
Proof. intros o. destruct o; simpl; auto. Qed.

(* ---- lifts *)
Lemma lift_construct_reflects : forall lb, lift_construct lb = Accept <-> exists z, lb = Some z.
Proof.
  intros [z|]; simpl; split; intros H; try reflexivity; try discriminate.
  - exists z. reflexivity.
  - destruct H as [z H]. discriminate.
Qed.

Lemma lift_residual_use_reflects : forall k n z,
    lift_residual_use k n z = Accept <-> lift_in_range k n z.
Proof.
  intros k n z. unfold lift_residual_use, lift_in_range.
  destruct (z <? 0)%Z eqn:E1; simpl.
  - apply Z.ltb_lt in E1. split; [discriminate | lia].
  - apply Z.ltb_ge in E1.
    destruct (Z.of_nat n - Z.of_nat k <? z)%Z eqn:E2.
    + apply Z.ltb_lt in E2. split; [discriminate | lia].
    + apply Z.ltb_ge in E2. split; [lia | reflexivity].
Qed.

Lemma lift_residual_use_rejects_with_ValueError : forall k n z,
    lift_residual_use k n z = Accept \/ lift_residual_use k n z = ValueErr.
Proof.
  intros. unfold lift_residual_use.
  destruct ((z <? 0)%Z || (Z.of_nat n - Z.of_nat k <? z)%Z); auto.
Qed.

(* an ODE of order k is the residual u^(k) - f(u, ..., u^(k-1)) of order k+1 *)
Lemma lift_ode_use_reflects : forall k n z,
    lift_ode_use k n z = Accept <-> lift_in_range (S k) n z.
Proof.
  intros k n z. unfold lift_ode_use, lift_in_range.
  destruct (z <? 0)%Z eqn:E1.
  - apply Z.ltb_lt in E1. split; [discriminate | lia].
  - apply Z.ltb_ge in E1.
    destruct (Z.of_nat n <? Z.of_nat k + z + 1)%Z eqn:E2.
    + apply Z.ltb_lt in E2. split; [discriminate | lia].
    + apply Z.ltb_ge in E2. split; [lia | reflexivity].
Qed.

(* ---- residual-based error estimate *)
Lemma error_residual_reflects_iso_blockdiag : forall f m d,
    f <> Dense -> (error_residual_check f m d = Accept <-> WfErrorResidual m d).
Proof.
  intros f m d Hf. unfold WfErrorResidual. destruct f; [congruence| |]; simpl;
    destruct (Nat.eqb_spec m d); split; intros H; try reflexivity; try discriminate; congruence.
Qed.

Lemma error_residual_dense_accepts_exactly : forall m d,
    error_residual_check Dense m d = Accept <-> m = 1 \/ m = d.
Proof.
  intros m d. simpl.
  destruct (Nat.eqb_spec m 1); destruct (Nat.eqb_spec m d); simpl;
    split; intros H; try reflexivity; try discriminate; auto; destruct H; congruence.
Qed.

(* the gap: a single constraint row is broadcast against a state with 3 entries *)
Lemma error_residual_dense_refuted :
  exists m d, error_residual_check Dense m d = Accept /\ ~ WfErrorResidual m d.
Proof. exists 1, 3. split; [reflexivity | unfold WfErrorResidual; discriminate]. Qed.

(* ---- ensembles *)
Lemma matfree_check_reflects : forall ens n, matfree_check ens n = Accept <-> WfEnsembles ens n.
Proof.
  intros ens n. unfold matfree_check, WfEnsembles.
  destruct (Nat.ltb ens n) eqn:E.
  - apply Nat.ltb_lt in E. split; [discriminate | lia].
  - apply Nat.ltb_ge in E. split; [intros _; exact E | reflexivity].
Qed.

(* ---- suitability warnings *)
Lemma warns_reflects : forall s r,
    warns s r = true <-> Unsuitable s r /\ r <> RSaveAt false.
Proof.
  intros s r. rewrite <- unsuitable_b_spec.
  destruct s; destruct r as [[]| | |]; simpl; split; intros H;
    try discriminate; try reflexivity;
    try (split; [reflexivity | discriminate]);
    try (destruct H as [H1 H2]; try discriminate; try (exfalso; apply H2; reflexivity)).
Qed.

(* ---- calibrated output scale of transition() *)
Lemma oshape_eqb_some : forall o s, oshape_eqb o (Some s) = true <-> o = Some s.
Proof.
  intros [t|] s; simpl; [rewrite shape_eqb_eq|]; split; intros H; try discriminate; congruence.
Qed.

Lemma array_shape_reflects : forall v s,
    (array_like v = true /\ np_shape v = Some s) <-> ArrayLike v s.
Proof.
  induction v using aval_ind'; intros s.
  - (* list *)
    destruct xs as [|x r].
    + simpl. destruct s as [|n s']; [split; [intros [_ K]; discriminate | tauto]|].
      split.
      * intros [_ K]. inversion K; subst. simpl. auto.
      * intros [K1 [K2 _]]. simpl in K1. subst. rewrite (K2 eq_refl). auto.
    + inversion H as [|x' r' Hx Hr]; subst.
      change (array_like (AList (x :: r))) with (array_like x && forallb array_like r).
      change (np_shape (AList (x :: r))) with
        (match np_shape x with
         | Some s0 => if forallb (fun y => oshape_eqb (np_shape y) (Some s0)) r
                      then Some (length (x :: r) :: s0) else None
         | None => None
         end).
      assert (R : forall s0,
                 (forallb array_like r = true /\ forallb (fun y => oshape_eqb (np_shape y) (Some s0)) r = true) <->
                 (fix all (l : list aval) : Prop := match l with [] => True | y :: r' => ArrayLike y s0 /\ all r' end) r).
      { intros s0. clear Hx H. induction Hr as [|y l Hy Hl IH]; simpl; [tauto|].
        rewrite !andb_true_iff, oshape_eqb_some, <- IH, <- (Hy s0). tauto. }
      destruct s as [|n s'].
      * simpl. split; [|tauto]. intros [_ K]. destruct (np_shape x); [|discriminate].
        match type of K with context [if ?c then _ else _] => destruct c end; discriminate.
      * simpl ArrayLike. rewrite <- (R s'), <- (Hx s'), andb_true_iff. split.
        -- intros [[A1 A2] K]. destruct (np_shape x) as [s0|]; [|discriminate].
           destruct (forallb (fun y => oshape_eqb (np_shape y) (Some s0)) r) eqn:E; [|discriminate].
           inversion K; subst. repeat split; auto. discriminate.
        -- intros [K1 [_ [[A1 A2] [A3 A4]]]]. rewrite A2, A4. subst. auto.
  - (* tuple *)
    destruct xs as [|x r].
    + simpl. destruct s as [|n s']; [split; [intros [_ K]; discriminate | tauto]|].
      split.
      * intros [_ K]. inversion K; subst. simpl. auto.
      * intros [K1 [K2 _]]. simpl in K1. subst. rewrite (K2 eq_refl). auto.
    + inversion H as [|x' r' Hx Hr]; subst.
      change (array_like (ATuple (x :: r))) with (array_like x && forallb array_like r).
      change (np_shape (ATuple (x :: r))) with
        (match np_shape x with
         | Some s0 => if forallb (fun y => oshape_eqb (np_shape y) (Some s0)) r
                      then Some (length (x :: r) :: s0) else None
         | None => None
         end).
      assert (R : forall s0,
                 (forallb array_like r = true /\ forallb (fun y => oshape_eqb (np_shape y) (Some s0)) r = true) <->
                 (fix all (l : list aval) : Prop := match l with [] => True | y :: r' => ArrayLike y s0 /\ all r' end) r).
      { intros s0. clear Hx H. induction Hr as [|y l Hy Hl IH]; simpl; [tauto|].
        rewrite !andb_true_iff, oshape_eqb_some, <- IH, <- (Hy s0). tauto. }
      destruct s as [|n s'].
      * simpl. split; [|tauto]. intros [_ K]. destruct (np_shape x); [|discriminate].
        match type of K with context [if ?c then _ else _] => destruct c end; discriminate.
      * simpl ArrayLike. rewrite <- (R s'), <- (Hx s'), andb_true_iff. split.
        -- intros [[A1 A2] K]. destruct (np_shape x) as [s0|]; [|discriminate].
           destruct (forallb (fun y => oshape_eqb (np_shape y) (Some s0)) r) eqn:E; [|discriminate].
           inversion K; subst. repeat split; auto. discriminate.
        -- intros [K1 [_ [[A1 A2] [A3 A4]]]]. rewrite A2, A4. subst. auto.
  - simpl. split; [intros [K _]; discriminate | intros [K _]; contradiction].
  - destruct H as [H|H]; [|subst; simpl; split; [intros [K _]; discriminate | intros [K _]; contradiction]].
    destruct v; simpl in H; try discriminate; simpl;
      split; intros K; decompose [and] K; try discriminate; try contradiction;
        try (split; [exact I | congruence]); try (split; [reflexivity | congruence]).
Qed.

Lemma transition_check_reflects : forall expected cal,
    transition_check expected cal = Accept <-> WfCal expected cal.
Proof.
  intros e cal. unfold transition_check, WfCal. rewrite <- array_shape_reflects.
  destruct (array_like cal); simpl; [|split; [discriminate | intros [K _]; discriminate]].
  destruct (np_shape cal) as [s|]; [|split; [discriminate | intros [_ K]; discriminate]].
  destruct (shape_eqb s e) eqn:E.
  - apply shape_eqb_eq in E. subst. tauto.
  - split; [discriminate|]. intros [_ K]. inversion K; subst. rewrite shape_eqb_refl in E. discriminate.
Qed.

(* ---- unfolding lemmas for the nested fixpoints *)
Fixpoint zip_pairs (f : aval -> aval -> option (list (aval * aval))) (xs ys : list aval)
  : option (list (aval * aval)) :=
  match xs, ys with
  | [], [] => Some []
  | x :: xs', y :: ys' =>
      match f x y, zip_pairs f xs' ys' with
      | Some p, Some q => Some (p ++ q)
      | _, _ => None
      end
  | _, _ => None
  end.

Fixpoint zip_pairs_kv (f : aval -> aval -> option (list (aval * aval))) (xs ys : list (nat * aval))
  : option (list (aval * aval)) :=
  match xs, ys with
  | [], [] => Some []
  | (k, x) :: xs', (k', y) :: ys' =>
      if Nat.eqb k k' then
        match f x y, zip_pairs_kv f xs' ys' with
        | Some p, Some q => Some (p ++ q)
        | _, _ => None
        end
      else None
  | _, _ => None
  end.

Lemma prefix_pairs_list : forall xs ys,
    prefix_pairs (AList xs) (AList ys) = zip_pairs prefix_pairs xs ys.
Proof.
  induction xs as [|x xs IH]; intros [|y ys]; simpl; auto.
  specialize (IH ys). simpl in IH. rewrite IH. reflexivity.
Qed.

Lemma prefix_pairs_tuple : forall xs ys,
    prefix_pairs (ATuple xs) (ATuple ys) = zip_pairs prefix_pairs xs ys.
Proof.
  induction xs as [|x xs IH]; intros [|y ys]; simpl; auto.
  specialize (IH ys). simpl in IH. rewrite IH. reflexivity.
Qed.

Lemma prefix_pairs_dict : forall xs ys,
    prefix_pairs (ADict xs) (ADict ys) = zip_pairs_kv prefix_pairs xs ys.
Proof.
  induction xs as [|[k x] xs IH]; intros [|[k' y] ys]; simpl; auto.
  specialize (IH ys). simpl in IH. rewrite IH. reflexivity.
Qed.

Inductive Forall2kv (P : aval -> aval -> Prop) : list (nat * aval) -> list (nat * aval) -> Prop :=
| F2kv_nil : Forall2kv P [] []
| F2kv_cons : forall k x xs y ys, P x y -> Forall2kv P xs ys -> Forall2kv P ((k, x) :: xs) ((k, y) :: ys).

Lemma SameShape_list : forall xs ys,
    SameShape (AList xs) (AList ys) <-> xs <> [] /\ Forall2 SameShape xs ys.
Proof.
  intros xs ys. simpl.
  assert (E : forall xs ys,
             (fix go (xs ys : list aval) : Prop :=
                match xs, ys with [] , [] => True | x :: xs', y :: ys' => SameShape x y /\ go xs' ys' | _, _ => False end) xs ys
             <-> Forall2 SameShape xs ys).
  { induction xs0 as [|x xs0 IH]; intros [|y ys0]; simpl.
    - split; auto.
    - split; [tauto | intros K; inversion K].
    - split; [tauto | intros K; inversion K].
    - rewrite IH. split; [intros [A B]; constructor; auto | intros K; inversion K; auto]. }
  rewrite E. tauto.
Qed.

Lemma SameShape_tuple : forall xs ys,
    SameShape (ATuple xs) (ATuple ys) <-> xs <> [] /\ Forall2 SameShape xs ys.
Proof.
  intros xs ys. simpl.
  assert (E : forall xs ys,
             (fix go (xs ys : list aval) : Prop :=
                match xs, ys with [] , [] => True | x :: xs', y :: ys' => SameShape x y /\ go xs' ys' | _, _ => False end) xs ys
             <-> Forall2 SameShape xs ys).
  { induction xs0 as [|x xs0 IH]; intros [|y ys0]; simpl.
    - split; auto.
    - split; [tauto | intros K; inversion K].
    - split; [tauto | intros K; inversion K].
    - rewrite IH. split; [intros [A B]; constructor; auto | intros K; inversion K; auto]. }
  rewrite E. tauto.
Qed.

Lemma SameShape_dict : forall xs ys,
    SameShape (ADict xs) (ADict ys) <-> xs <> [] /\ Forall2kv SameShape xs ys.
Proof.
  intros xs ys. simpl.
  assert (E : forall xs ys,
             (fix go (xs ys : list (nat * aval)) : Prop :=
                match xs, ys with
                | [], [] => True
                | (k, x) :: xs', (k', y) :: ys' => k = k' /\ SameShape x y /\ go xs' ys'
                | _, _ => False end) xs ys
             <-> Forall2kv SameShape xs ys).
  { induction xs0 as [|[k x] xs0 IH]; intros [|[k' y] ys0]; simpl.
    - split; [constructor | auto].
    - split; [tauto | intros K; inversion K].
    - split; [tauto | intros K; inversion K].
    - rewrite IH. split.
      + intros [A [B C]]. subst. constructor; auto.
      + intros K. inversion K; subst. auto. }
  rewrite E. tauto.
Qed.

Lemma CoeffTree_list : forall xs, CoeffTree (AList xs) <-> xs <> [] /\ Forall CoeffTree xs.
Proof.
  intros xs. simpl.
  assert (E : forall l, (fix all (l : list aval) : Prop := match l with [] => True | x :: r => CoeffTree x /\ all r end) l
                        <-> Forall CoeffTree l).
  { induction l as [|x l IH]; simpl; [split; auto|].
    rewrite IH. split; [intros [A B]; constructor; auto | intros K; inversion K; auto]. }
  rewrite E. tauto.
Qed.

Lemma CoeffTree_tuple : forall xs, CoeffTree (ATuple xs) <-> xs <> [] /\ Forall CoeffTree xs.
Proof.
  intros xs. simpl.
  assert (E : forall l, (fix all (l : list aval) : Prop := match l with [] => True | x :: r => CoeffTree x /\ all r end) l
                        <-> Forall CoeffTree l).
  { induction l as [|x l IH]; simpl; [split; auto|].
    rewrite IH. split; [intros [A B]; constructor; auto | intros K; inversion K; auto]. }
  rewrite E. tauto.
Qed.

Lemma CoeffTree_dict : forall kvs,
    CoeffTree (ADict kvs) <-> kvs <> [] /\ Forall (fun kv => CoeffTree (snd kv)) kvs.
Proof.
  intros kvs. simpl.
  assert (E : forall l, (fix all (l : list (nat * aval)) : Prop :=
                           match l with [] => True | (_, x) :: r => CoeffTree x /\ all r end) l
                        <-> Forall (fun kv => CoeffTree (snd kv)) l).
  { induction l as [|[k x] l IH]; simpl; [split; auto|].
    rewrite IH. split; [intros [A B]; constructor; auto | intros K; inversion K; auto]. }
  rewrite E. tauto.
Qed.

(* ---- observation-noise containers of the losses *)
Definition pairs_ok (ps : list (aval * aval)) : bool :=
  forallb (fun ab : aval * aval => is_leaf (snd ab)) ps && pairs_shapes_equal ps.

Lemma pairs_ok_app : forall p q, pairs_ok (p ++ q) = pairs_ok p && pairs_ok q.
Proof.
  intros p q. unfold pairs_ok, pairs_shapes_equal. rewrite !forallb_app.
  destruct (forallb _ p), (forallb _ q), (forallb _ p), (forallb _ q); reflexivity.
Qed.

Definition loss_ok (std e : aval) : Prop :=
  all_numeric std = true /\ exists ps, prefix_pairs std e = Some ps /\ pairs_ok ps = true.

Lemma loss_ok_zip : forall xs,
    Forall (fun x => forall e, CoeffTree e -> (loss_ok x e <-> SameShape x e)) xs ->
    forall ys, Forall CoeffTree ys ->
      ((forallb all_numeric xs = true /\ exists ps, zip_pairs prefix_pairs xs ys = Some ps /\ pairs_ok ps = true)
       <-> Forall2 SameShape xs ys).
Proof.
  intros xs H. induction H as [|x xs Hx Hxs IH]; intros [|y ys] Hys; simpl.
  - split; [constructor | intros _; split; [reflexivity | exists []; auto]].
  - split; [intros [_ [ps [K _]]]; discriminate | intros K; inversion K].
  - split; [intros [_ [ps [K _]]]; discriminate | intros K; inversion K].
  - inversion Hys as [|y' ys' Hy Hys']; subst.
    specialize (IH ys Hys'). specialize (Hx y Hy). unfold loss_ok in Hx.
    split.
    + intros [A [ps [K1 K2]]]. apply andb_true_iff in A. destruct A as [A1 A2].
      destruct (prefix_pairs x y) as [p|] eqn:Ep; [|discriminate].
      destruct (zip_pairs prefix_pairs xs ys) as [q|] eqn:Eq; [|discriminate].
      inversion K1; subst. rewrite pairs_ok_app in K2. apply andb_true_iff in K2. destruct K2 as [K2 K3].
      constructor.
      * apply Hx. split; [exact A1 | exists p; auto].
      * apply IH. split; [exact A2 | exists q; auto].
    + intros K. inversion K as [|x0 y0 xs0 ys0 P1 P2]; subst.
      apply Hx in P1. destruct P1 as [A1 [p [Ep Kp]]].
      apply IH in P2. destruct P2 as [A2 [q [Eq Kq]]].
      split; [rewrite A1, A2; reflexivity|].
      exists (p ++ q). rewrite Ep, Eq, pairs_ok_app, Kp, Kq. auto.
Qed.

Lemma loss_ok_zip_kv : forall xs,
    Forall (fun kv => forall e, CoeffTree e -> (loss_ok (snd kv) e <-> SameShape (snd kv) e)) xs ->
    forall ys, Forall (fun kv => CoeffTree (snd kv)) ys ->
      ((forallb (fun kv : nat * aval => match kv with (_, x) => all_numeric x end) xs = true /\
        exists ps, zip_pairs_kv prefix_pairs xs ys = Some ps /\ pairs_ok ps = true)
       <-> Forall2kv SameShape xs ys).
Proof.
  intros xs H. induction H as [|[k x] xs Hx Hxs IH]; intros [|[k' y] ys] Hys; simpl.
  - split; [constructor | intros _; split; [reflexivity | exists []; auto]].
  - split; [intros [_ [ps [K _]]]; discriminate | intros K; inversion K].
  - split; [intros [_ [ps [K _]]]; discriminate | intros K; inversion K].
  - inversion Hys as [|y' ys' Hy Hys']; subst. simpl in Hy, Hx.
    specialize (IH ys Hys'). specialize (Hx y Hy). unfold loss_ok in Hx.
    split.
    + intros [A [ps [K1 K2]]]. apply andb_true_iff in A. destruct A as [A1 A2].
      destruct (Nat.eqb_spec k k'); [subst|discriminate].
      destruct (prefix_pairs x y) as [p|] eqn:Ep; [|discriminate].
      destruct (zip_pairs_kv prefix_pairs xs ys) as [q|] eqn:Eq; [|discriminate].
      inversion K1; subst. rewrite pairs_ok_app in K2. apply andb_true_iff in K2. destruct K2 as [K2 K3].
      constructor.
      * apply Hx. split; [exact A1 | exists p; auto].
      * apply IH. split; [exact A2 | exists q; auto].
    + intros K. inversion K as [|k0 x0 xs0 y0 ys0 P1 P2]; subst.
      apply Hx in P1. destruct P1 as [A1 [p [Ep Kp]]].
      apply IH in P2. destruct P2 as [A2 [q [Eq Kq]]].
      split; [rewrite A1, A2; reflexivity|].
      exists (p ++ q). rewrite Nat.eqb_refl, Ep, Eq, pairs_ok_app, Kp, Kq. auto.
Qed.

Lemma zip_pairs_nil_l : forall f ys ps, zip_pairs f [] ys = Some ps -> ys = [].
Proof. intros f [|y ys] ps H; simpl in H; [reflexivity | discriminate]. Qed.

Lemma Forall2_nil_l : forall (A B : Type) (P : A -> B -> Prop) ys, Forall2 P [] ys -> ys = [].
Proof. intros A B P ys H. inversion H. reflexivity. Qed.

Lemma loss_ok_reflects : forall std e, CoeffTree e -> (loss_ok std e <-> SameShape std e).
Proof.
  induction std using aval_ind'; intros e He.
  - (* list *)
    destruct e; try (split; [intros [_ [ps [K _]]]; simpl in K; discriminate | simpl; tauto]).
    apply CoeffTree_list in He. destruct He as [Hne He].
    rewrite SameShape_list. unfold loss_ok. rewrite prefix_pairs_list.
    change (all_numeric (AList xs)) with (forallb all_numeric xs).
    rewrite (loss_ok_zip xs H xs0 He). split.
    + intros K. split; [|exact K]. intros ->. apply Forall2_nil_l in K. congruence.
    + tauto.
  - (* tuple *)
    destruct e; try (split; [intros [_ [ps [K _]]]; simpl in K; discriminate | simpl; tauto]).
    apply CoeffTree_tuple in He. destruct He as [Hne He].
    rewrite SameShape_tuple. unfold loss_ok. rewrite prefix_pairs_tuple.
    change (all_numeric (ATuple xs)) with (forallb all_numeric xs).
    rewrite (loss_ok_zip xs H xs0 He). split.
    + intros K. split; [|exact K]. intros ->. apply Forall2_nil_l in K. congruence.
    + tauto.
  - (* dict *)
    destruct e; try (split; [intros [_ [ps [K _]]]; simpl in K; discriminate | simpl; tauto]).
    apply CoeffTree_dict in He. destruct He as [Hne He].
    rewrite SameShape_dict. unfold loss_ok. rewrite prefix_pairs_dict.
    change (all_numeric (ADict kvs)) with
      (forallb (fun kv : nat * aval => match kv with (_, x) => all_numeric x end) kvs).
    rewrite (loss_ok_zip_kv kvs H kvs0 He). split.
    + intros K. split; [|exact K]. intros ->. inversion K; subst. congruence.
    + tauto.
  - destruct H as [H|H].
    + (* a leaf of std against e *)
      assert (E : prefix_pairs std e = Some [(std, e)]) by (destruct std; simpl in H; try discriminate; reflexivity).
      assert (S1 : SameShape std e <-> Numeric std /\ Numeric e /\ shape_of std = shape_of e)
        by (destruct std; simpl in H; try discriminate; destruct e; simpl; tauto).
      assert (A1 : all_numeric std = numeric_leaf std) by (destruct std; simpl in H; try discriminate; reflexivity).
      rewrite S1. unfold loss_ok. rewrite E, A1. split.
      * intros [N [ps [K1 K2]]]. inversion K1; subst.
        unfold pairs_ok, pairs_shapes_equal in K2. simpl in K2.
        rewrite !andb_true_r in K2. apply andb_true_iff in K2. destruct K2 as [L Sh].
        apply shape_eqb_eq in Sh.
        split; [apply numeric_b_spec; exact N|]. split; [|exact Sh].
        destruct e; simpl in L; try discriminate; simpl in He; try exact I; try contradiction.
      * intros [N1 [N2 Sh]]. split; [apply numeric_b_spec; exact N1|].
        exists [(std, e)]. split; [reflexivity|].
        unfold pairs_ok, pairs_shapes_equal. simpl. rewrite !andb_true_r.
        apply andb_true_iff. split.
        -- destruct e; simpl in N2; try contradiction; reflexivity.
        -- apply shape_eqb_eq. exact Sh.
    + subst. unfold loss_ok. simpl. split.
      * intros [_ [ps [K _]]]. destruct e; try discriminate. simpl in He. contradiction.
      * tauto.
Qed.

Lemma loss_std_check_reflects : forall std expected,
    CoeffTree expected -> (loss_std_check std expected = Accept <-> WfLossStd std expected).
Proof.
  intros std e He. unfold WfLossStd. rewrite <- (loss_ok_reflects std e He).
  unfold loss_std_check, loss_ok.
  destruct (all_numeric std); simpl; [|split; [discriminate | intros [K _]; discriminate]].
  destruct (prefix_pairs std e) as [ps|]; [|split; [discriminate | intros [_ [ps [K _]]]; discriminate]].
  fold (pairs_ok ps). destruct (pairs_ok ps) eqn:E.
  - split; [intros _; split; [reflexivity | exists ps; auto] | reflexivity].
  - split; [discriminate | intros [_ [ps' [K1 K2]]]; inversion K1; subst; congruence].
Qed.

Lemma loss_std_check_rejects_loudly : forall std expected,
    loss_std_check std expected = Accept \/ loss_std_check std expected = ValueErr \/
    loss_std_check std expected = OtherErr.
Proof.
  intros. unfold loss_std_check. destruct (all_numeric std); simpl; auto.
  destruct (prefix_pairs std expected); auto.
  destruct (_ && _); auto.
Qed.

Lemma loss_timeseries_check_reflects : forall post std expected,
    CoeffTree expected ->
    (loss_timeseries_check post std expected = Accept <-> IsMarkovSeq post /\ WfLossStd std expected).
Proof.
  intros post std e He. unfold loss_timeseries_check.
  rewrite <- (loss_std_check_reflects std e He), <- gate_posterior_reflects.
  destruct (gate_posterior post) eqn:E; split; intros K; try discriminate; try tauto;
    destruct K as [K _]; discriminate.
Qed.

(* ---- verify_taylor_coefficient_pytree *)
Lemma Regular_list : forall xs, Regular (AList xs) <-> xs <> [] /\ Forall Regular xs.
Proof.
  intros xs. simpl.
  assert (E : forall l, (fix all (l : list aval) : Prop := match l with [] => True | x :: r => Regular x /\ all r end) l
                        <-> Forall Regular l).
  { induction l as [|x l IH]; simpl; [split; auto|].
    rewrite IH. split; [intros [A B]; constructor; auto | intros K; inversion K; auto]. }
  rewrite E. tauto.
Qed.

Lemma Regular_tuple : forall xs, Regular (ATuple xs) <-> xs <> [] /\ Forall Regular xs.
Proof.
  intros xs. simpl.
  assert (E : forall l, (fix all (l : list aval) : Prop := match l with [] => True | x :: r => Regular x /\ all r end) l
                        <-> Forall Regular l).
  { induction l as [|x l IH]; simpl; [split; auto|].
    rewrite IH. split; [intros [A B]; constructor; auto | intros K; inversion K; auto]. }
  rewrite E. tauto.
Qed.

Lemma Regular_dict : forall kvs, Regular (ADict kvs) <-> kvs <> [] /\ Forall (fun kv => Regular (snd kv)) kvs.
Proof.
  intros kvs. simpl.
  assert (E : forall l, (fix all (l : list (nat * aval)) : Prop :=
                           match l with [] => True | (_, x) :: r => Regular x /\ all r end) l
                        <-> Forall (fun kv => Regular (snd kv)) l).
  { induction l as [|[k x] l IH]; simpl; [split; auto|].
    rewrite IH. split; [intros [A B]; constructor; auto | intros K; inversion K; auto]. }
  rewrite E. tauto.
Qed.

(* regular trees with numeric leaves are exactly the coefficient trees *)
Lemma coefftree_regular_numeric : forall a, CoeffTree a <-> Regular a /\ all_numeric a = true.
Proof.
  induction a using aval_ind'.
  - rewrite CoeffTree_list, Regular_list. change (all_numeric (AList xs)) with (forallb all_numeric xs).
    assert (E : Forall CoeffTree xs <-> Forall Regular xs /\ forallb all_numeric xs = true).
    { induction H as [|x l Hx Hl IH]; simpl.
      - split; [intros _; split; [constructor | reflexivity] | intros _; constructor].
      - rewrite andb_true_iff. split.
        + intros K. inversion K; subst. apply Hx in H1. apply IH in H2.
          destruct H1, H2. repeat split; auto.
        + intros [K1 [K2 K3]]. inversion K1; subst. constructor; [apply Hx; auto | apply IH; auto]. }
    rewrite E. tauto.
  - rewrite CoeffTree_tuple, Regular_tuple. change (all_numeric (ATuple xs)) with (forallb all_numeric xs).
    assert (E : Forall CoeffTree xs <-> Forall Regular xs /\ forallb all_numeric xs = true).
    { induction H as [|x l Hx Hl IH]; simpl.
      - split; [intros _; split; [constructor | reflexivity] | intros _; constructor].
      - rewrite andb_true_iff. split.
        + intros K. inversion K; subst. apply Hx in H1. apply IH in H2.
          destruct H1, H2. repeat split; auto.
        + intros [K1 [K2 K3]]. inversion K1; subst. constructor; [apply Hx; auto | apply IH; auto]. }
    rewrite E. tauto.
  - rewrite CoeffTree_dict, Regular_dict.
    change (all_numeric (ADict kvs)) with
      (forallb (fun kv : nat * aval => match kv with (_, x) => all_numeric x end) kvs).
    assert (E : Forall (fun kv => CoeffTree (snd kv)) kvs <->
                Forall (fun kv => Regular (snd kv)) kvs /\
                forallb (fun kv : nat * aval => match kv with (_, x) => all_numeric x end) kvs = true).
    { induction H as [|[k x] l Hx Hl IH]; simpl.
      - split; [intros _; split; [constructor | reflexivity] | intros _; constructor].
      - simpl in Hx. rewrite andb_true_iff. split.
        + intros K. inversion K; subst. simpl in H1. apply Hx in H1. apply IH in H2.
          destruct H1, H2. repeat split; auto.
        + intros [K1 [K2 K3]]. inversion K1; subst. simpl in H1.
          constructor; [simpl; apply Hx; auto | apply IH; auto]. }
    rewrite E. tauto.
  - destruct H as [H|H]; [|subst; simpl; tauto].
    destruct a; simpl in H; try discriminate; simpl; intuition discriminate.
Qed.

Lemma shapetree_list : forall xs ys,
    shapetree_eqb (AList xs) (AList ys) = forall2b shapetree_eqb xs ys.
Proof.
  induction xs as [|x xs IH]; intros [|y ys]; simpl; auto.
  specialize (IH ys). simpl in IH. rewrite IH. reflexivity.
Qed.

Lemma shapetree_tuple : forall xs ys,
    shapetree_eqb (ATuple xs) (ATuple ys) = forall2b shapetree_eqb xs ys.
Proof.
  assert (G : forall xs ys,
             (fix go (xs ys : list aval) : bool :=
                match xs, ys with
                | [], [] => true
                | x :: xs', y :: ys' => shapetree_eqb x y && go xs' ys'
                | _, _ => false
                end) xs ys = forall2b shapetree_eqb xs ys).
  { induction xs as [|x xs IH]; intros [|y ys]; simpl; try reflexivity. rewrite IH. reflexivity. }
  intros [|x xs] [|y ys]; simpl; try reflexivity. rewrite G. reflexivity.
Qed.

Fixpoint forall2b_kv (p : aval -> aval -> bool) (xs ys : list (nat * aval)) : bool :=
  match xs, ys with
  | [], [] => true
  | (k, x) :: xs', (k', y) :: ys' => Nat.eqb k k' && p x y && forall2b_kv p xs' ys'
  | _, _ => false
  end.

Lemma shapetree_dict : forall xs ys,
    shapetree_eqb (ADict xs) (ADict ys) = forall2b_kv shapetree_eqb xs ys.
Proof.
  induction xs as [|[k x] xs IH]; intros [|[k' y] ys]; simpl; auto.
  specialize (IH ys). simpl in IH. rewrite IH. reflexivity.
Qed.

(* on coefficient trees Python's == of the shape trees is exactly SameShape *)
Lemma shapetree_sameshape : forall a b,
    CoeffTree a -> CoeffTree b -> (shapetree_eqb a b = true <-> SameShape a b).
Proof.
  induction a using aval_ind'; intros b Ha Hb.
  - apply CoeffTree_list in Ha. destruct Ha as [Hne Ha].
    destruct b; try (destruct xs; [congruence|]; simpl; split; [discriminate | tauto]).
    apply CoeffTree_list in Hb. destruct Hb as [Hne' Hb].
    rewrite shapetree_list, SameShape_list.
    assert (E : forall ys, Forall CoeffTree ys -> (forall2b shapetree_eqb xs ys = true <-> Forall2 SameShape xs ys)).
    { clear Hne Hne' Hb. induction H as [|x l Hx Hl IH]; intros [|y ys] Hys; simpl.
      - split; auto.
      - split; [discriminate | intros K; inversion K].
      - split; [discriminate | intros K; inversion K].
      - inversion Ha as [|? ? Hax Hal]; subst. inversion Hys as [|? ? Hyy Hyl]; subst.
        rewrite andb_true_iff, (Hx y Hax Hyy), (IH Hal ys Hyl).
        split; [intros [A B]; constructor; auto | intros K; inversion K; auto]. }
    rewrite (E xs0 Hb). tauto.
  - apply CoeffTree_tuple in Ha. destruct Ha as [Hne Ha].
    destruct b; try (destruct xs; [congruence|]; simpl; split; [discriminate | tauto]).
    apply CoeffTree_tuple in Hb. destruct Hb as [Hne' Hb].
    rewrite shapetree_tuple, SameShape_tuple.
    assert (E : forall ys, Forall CoeffTree ys -> (forall2b shapetree_eqb xs ys = true <-> Forall2 SameShape xs ys)).
    { clear Hne Hne' Hb. induction H as [|x l Hx Hl IH]; intros [|y ys] Hys; simpl.
      - split; auto.
      - split; [discriminate | intros K; inversion K].
      - split; [discriminate | intros K; inversion K].
      - inversion Ha as [|? ? Hax Hal]; subst. inversion Hys as [|? ? Hyy Hyl]; subst.
        rewrite andb_true_iff, (Hx y Hax Hyy), (IH Hal ys Hyl).
        split; [intros [A B]; constructor; auto | intros K; inversion K; auto]. }
    rewrite (E xs0 Hb). tauto.
  - apply CoeffTree_dict in Ha. destruct Ha as [Hne Ha].
    destruct b; try (simpl; split; [discriminate | tauto]).
    apply CoeffTree_dict in Hb. destruct Hb as [Hne' Hb].
    rewrite shapetree_dict, SameShape_dict.
    assert (E : forall ys, Forall (fun kv => CoeffTree (snd kv)) ys ->
                           (forall2b_kv shapetree_eqb kvs ys = true <-> Forall2kv SameShape kvs ys)).
    { clear Hne Hne' Hb. induction H as [|[k x] l Hx Hl IH]; intros [|[k' y] ys] Hys; simpl.
      - split; [constructor | auto].
      - split; [discriminate | intros K; inversion K].
      - split; [discriminate | intros K; inversion K].
      - inversion Ha as [|? ? Hax Hal]; subst. inversion Hys as [|? ? Hyy Hyl]; subst. simpl in *.
        rewrite !andb_true_iff, Nat.eqb_eq, (Hx y Hax Hyy), (IH Hal ys Hyl).
        split; [intros [[A B] C]; subst; constructor; auto | intros K; inversion K; subst; auto]. }
    rewrite (E kvs0 Hb). tauto.
  - destruct H as [H|H]; [|subst; simpl in Ha; contradiction].
    destruct a; simpl in H; try discriminate; simpl in Ha; try contradiction;
      (destruct b as [s0 d0| | | |ys|ys|ys| | | | | | |]; simpl in Hb; try contradiction;
       [ simpl; rewrite ?andb_true_iff, ?shape_eqb_eq; intuition (try discriminate; auto)
       | simpl; rewrite ?andb_true_iff, ?shape_eqb_eq; intuition (try discriminate; auto)
       | simpl; rewrite ?andb_true_iff, ?shape_eqb_eq; intuition (try discriminate; auto)
       | simpl; rewrite ?andb_true_iff, ?shape_eqb_eq; intuition (try discriminate; auto)
       | simpl; split; [discriminate | tauto]
       | destruct ys as [|y ys]; [destruct Hb as [Hb _]; congruence|]; simpl; split; [discriminate | tauto]
       | simpl; split; [discriminate | tauto] ]).
Qed.

Lemma SameShape_refl : forall a, CoeffTree a -> SameShape a a.
Proof.
  induction a using aval_ind'; intros Ha.
  - apply CoeffTree_list in Ha. destruct Ha as [Hne Ha]. apply SameShape_list. split; [exact Hne|].
    clear Hne. induction H as [|x l Hx Hl IH]; [constructor|]. inversion Ha; subst. constructor; auto.
  - apply CoeffTree_tuple in Ha. destruct Ha as [Hne Ha]. apply SameShape_tuple. split; [exact Hne|].
    clear Hne. induction H as [|x l Hx Hl IH]; [constructor|]. inversion Ha; subst. constructor; auto.
  - apply CoeffTree_dict in Ha. destruct Ha as [Hne Ha]. apply SameShape_dict. split; [exact Hne|].
    clear Hne. induction H as [|[k x] l Hx Hl IH]; [constructor|]. inversion Ha; subst. constructor; auto.
  - destruct H as [H|H]; [|subst; simpl in Ha; contradiction].
    destruct a; simpl in H; try discriminate; simpl in Ha; try contradiction; simpl; auto.
Qed.

Lemma SameShape_sym : forall a b, SameShape a b -> SameShape b a.
Proof.
  induction a using aval_ind'; intros b Hab.
  - destruct b; try (simpl in Hab; tauto).
    apply SameShape_list in Hab. destruct Hab as [Hne Hab]. apply SameShape_list.
    split; [intros ->; inversion Hab; subst; congruence|].
    clear Hne. revert xs0 Hab. induction H as [|x l Hx Hl IH]; intros ys Hab; inversion Hab; subst; constructor; auto.
  - destruct b; try (simpl in Hab; tauto).
    apply SameShape_tuple in Hab. destruct Hab as [Hne Hab]. apply SameShape_tuple.
    split; [intros ->; inversion Hab; subst; congruence|].
    clear Hne. revert xs0 Hab. induction H as [|x l Hx Hl IH]; intros ys Hab; inversion Hab; subst; constructor; auto.
  - destruct b; try (simpl in Hab; tauto).
    apply SameShape_dict in Hab. destruct Hab as [Hne Hab]. apply SameShape_dict.
    split; [intros ->; inversion Hab; subst; congruence|].
    clear Hne. revert kvs0 Hab. induction H as [|[k x] l Hx Hl IH]; intros ys Hab; inversion Hab; subst; constructor; auto.
  - destruct H as [H|H]; [|subst; simpl in Hab; destruct Hab as [K _]; contradiction].
    assert (S1 : Numeric a /\ Numeric b /\ shape_of a = shape_of b)
      by (destruct a; simpl in H; try discriminate; destruct b; simpl in Hab; tauto).
    destruct S1 as [N1 [N2 Sh]].
    destruct b; simpl in N2; try contradiction; simpl; auto.
Qed.

Lemma SameShape_coefftree_r : forall a b, SameShape a b -> CoeffTree b.
Proof.
  induction a using aval_ind'; intros b Hab.
  - destruct b; try (simpl in Hab; tauto).
    apply SameShape_list in Hab. destruct Hab as [Hne Hab]. apply CoeffTree_list.
    split; [intros ->; inversion Hab; subst; congruence|].
    clear Hne. revert xs0 Hab. induction H as [|x l Hx Hl IH]; intros ys Hab; inversion Hab; subst; constructor; auto.
  - destruct b; try (simpl in Hab; tauto).
    apply SameShape_tuple in Hab. destruct Hab as [Hne Hab]. apply CoeffTree_tuple.
    split; [intros ->; inversion Hab; subst; congruence|].
    clear Hne. revert xs0 Hab. induction H as [|x l Hx Hl IH]; intros ys Hab; inversion Hab; subst; constructor; auto.
  - destruct b; try (simpl in Hab; tauto).
    apply SameShape_dict in Hab. destruct Hab as [Hne Hab]. apply CoeffTree_dict.
    split; [intros ->; inversion Hab; subst; congruence|].
    clear Hne. revert kvs0 Hab. induction H as [|[k x] l Hx Hl IH]; intros ys Hab; inversion Hab; subst; constructor; simpl; auto.
  - destruct H as [H|H]; [|subst; simpl in Hab; destruct Hab as [K _]; contradiction].
    assert (S1 : Numeric a /\ Numeric b /\ shape_of a = shape_of b)
      by (destruct a; simpl in H; try discriminate; destruct b; simpl in Hab; tauto).
    destruct S1 as [N1 [N2 Sh]].
    destruct b; simpl in N2; try contradiction; simpl; auto.
Qed.

Lemma verify_seq_reflects : forall xs,
    xs <> [] -> Forall CoeffTree xs ->
    ((match xs with
      | [] => ValueErr
      | x0 :: _ => if forallb (fun xi => shapetree_eqb xi x0) xs then Accept else ValueErr
      end) = Accept
     <-> match xs with c :: cs => CoeffTree c /\ Forall (SameShape c) cs | [] => False end).
Proof.
  intros [|c cs] Hne Hall; [congruence|]. inversion Hall as [|c' cs' Hc Hcs]; subst.
  assert (E : forall l, Forall CoeffTree l ->
                        (forallb (fun xi => shapetree_eqb xi c) l = true <-> Forall (SameShape c) l)).
  { induction l as [|x l IH]; intros Hl; simpl.
    - split; auto.
    - inversion Hl; subst. rewrite andb_true_iff, (shapetree_sameshape x c H1 Hc), (IH H2).
      split.
      + intros [A B]. constructor; [apply SameShape_sym; exact A | exact B].
      + intros K. inversion K; subst. split; [apply SameShape_sym; assumption | assumption]. }
  destruct (forallb (fun xi => shapetree_eqb xi c) (c :: cs)) eqn:F.
  - apply (E (c :: cs) Hall) in F. inversion F; subst. tauto.
  - split; [discriminate|]. intros [_ K].
    assert (F' : forallb (fun xi => shapetree_eqb xi c) (c :: cs) = true).
    { apply (E (c :: cs) Hall). constructor; [apply SameShape_refl; exact Hc | exact K]. }
    congruence.
Qed.

Lemma verify_reflects : forall x,
    Regular x -> all_numeric x = true -> (forall kvs, x <> ADict kvs) ->
    (verify x = Accept <-> WfTcoeffs x).
Proof.
  intros x Hr Hn Hd.
  assert (Hc : CoeffTree x) by (apply coefftree_regular_numeric; auto).
  destruct x; try (simpl; unfold WfTcoeffs; simpl; split; [discriminate | tauto]).
  - apply CoeffTree_list in Hc. destruct Hc as [Hne Hc].
    unfold verify, WfTcoeffs, coefficients. apply verify_seq_reflects; auto.
  - apply CoeffTree_tuple in Hc. destruct Hc as [Hne Hc].
    unfold verify, WfTcoeffs, coefficients. apply verify_seq_reflects; auto.
  - exfalso. apply (Hd kvs). reflexivity.
Qed.

(* the gaps of verify_taylor_coefficient_pytree on its own *)
Lemma verify_accepts_dict_container_refuted :
  exists x, verify x = Accept /\ ~ WfTcoeffs x.
Proof.
  exists (ADict [(0, AArr [3] DFloat); (1, AArr [3] DFloat)]).
  split; [reflexivity | rewrite <- wf_tcoeffs_b_spec; vm_compute; discriminate].
Qed.

Lemma verify_confuses_empty_tuple_with_scalar_refuted :
  exists x, verify x = Accept /\ ~ WfTcoeffs x.
Proof.
  exists (AList [AArr [] DFloat; ATuple []]).
  split; [reflexivity | rewrite <- wf_tcoeffs_b_spec; vm_compute; discriminate].
Qed.

Lemma verify_accepts_function_leaves_refuted :
  exists x, verify x = Accept /\ ~ WfTcoeffs x.
Proof.
  exists (AList [AFun; AFun]).
  split; [reflexivity | rewrite <- wf_tcoeffs_b_spec; vm_compute; discriminate].
Qed.

(* ---- explicit standard deviations: from_mean_and_std does not compare std with mean *)
Definition ex_mean : aval := AList [AArr [3] DFloat; AArr [3] DFloat].

Lemma prior_iwp_diffuse_dense_ignores_std_structure_refuted :
  exists mean std, prior_iwp_diffuse Dense mean std ANone = Accept /\ ~ WfPriorDiffuse Dense mean std ANone.
Proof.
  exists ex_mean, (AList [AList [AArr [3] DFloat; AArr [3] DFloat]]).
  split; [vm_compute; reflexivity | rewrite <- wf_prior_diffuse_b_spec; vm_compute; discriminate].
Qed.

Lemma prior_iwp_diffuse_dense_accepts_dict_std_refuted :
  exists mean std, prior_iwp_diffuse Dense mean std ANone = Accept /\ ~ WfPriorDiffuse Dense mean std ANone.
Proof.
  exists ex_mean, (ADict [(0, AArr [3] DFloat); (1, AArr [3] DFloat)]).
  split; [vm_compute; reflexivity | rewrite <- wf_prior_diffuse_b_spec; vm_compute; discriminate].
Qed.

Lemma prior_iwp_diffuse_dense_ignores_std_rank_refuted :
  exists mean std, prior_iwp_diffuse Dense mean std ANone = Accept /\ ~ WfPriorDiffuse Dense mean std ANone.
Proof.
  exists ex_mean, (AList [AArr [1; 3] DFloat; AArr [1; 3] DFloat]).
  split; [vm_compute; reflexivity | rewrite <- wf_prior_diffuse_b_spec; vm_compute; discriminate].
Qed.

Lemma prior_iwp_diffuse_blockdiag_broadcasts_short_std_refuted :
  exists mean std, prior_iwp_diffuse BlockDiag mean std ANone = Accept /\ ~ WfPriorDiffuse BlockDiag mean std ANone.
Proof.
  exists ex_mean, (AList [AArr [3] DFloat]).
  split; [vm_compute; reflexivity | rewrite <- wf_prior_diffuse_b_spec; vm_compute; discriminate].
Qed.

Lemma prior_iwp_diffuse_blockdiag_ignores_std_rank_refuted :
  exists mean std, prior_iwp_diffuse BlockDiag mean std ANone = Accept /\ ~ WfPriorDiffuse BlockDiag mean std ANone.
Proof.
  exists ex_mean, (AList [AArr [1; 3] DFloat; AArr [1; 3] DFloat]).
  split; [vm_compute; reflexivity | rewrite <- wf_prior_diffuse_b_spec; vm_compute; discriminate].
Qed.

(* the dense prior constructor accepts a scalar coefficient next to an empty tuple
   (Python: () == ()); the object it returns fails at first use *)
Lemma prior_iwp_dense_empty_tuple_refuted :
  exists tc, prior_iwp Dense tc APyBool ANone = Accept /\ ~ WfPriorIwp Dense tc APyBool ANone.
Proof.
  exists (AList [AArr [] DFloat; ATuple []]).
  split; [vm_compute; reflexivity | rewrite <- wf_prior_iwp_b_spec; vm_compute; discriminate].
Qed.

(* documented behaviour, not a gap: one scalar flag per leaf is well-formed *)
Lemma scalar_flags_are_wellformed_and_accepted :
  WfPriorIwp Dense ex_mean (AList [AArr [] DBool; AArr [3] DBool]) ANone /\
  prior_iwp Dense ex_mean (AList [AArr [] DBool; AArr [3] DBool]) ANone = Accept.
Proof.
  split; [apply wf_prior_iwp_b_spec; vm_compute; reflexivity | vm_compute; reflexivity].
Qed.

(* broadcastable-but-wrong flags are rejected: shape (1,) against a leaf of shape (3,) *)
Lemma broadcastable_flags_are_rejected :
  prior_iwp Dense ex_mean (AList [AArr [1] DBool; AArr [3] DBool]) ANone = ValueErr /\
  prior_iwp BlockDiag ex_mean (AList [AArr [1] DBool; AArr [3] DBool]) ANone = ValueErr /\
  prior_iwp Isotropic ex_mean (AList [AArr [1] DBool; AArr [] DBool]) ANone = ValueErr.
Proof. repeat split; vm_compute; reflexivity. Qed.

(* ------------------------------------------------------- Part 3: Examples *)
Example ex_verify_accepts : verify ex_mean = Accept /\ WfTcoeffs ex_mean.
Proof. split; [reflexivity | apply wf_tcoeffs_b_spec; vm_compute; reflexivity]. Qed.
Example ex_verify_hyp : Regular ex_mean /\ all_numeric ex_mean = true /\ (forall kvs, ex_mean <> ADict kvs).
Proof. repeat split; simpl; try discriminate; auto. Qed.
Example ex_verify_rejects_array : verify (AArr [2; 3] DFloat) = TypeErr /\ ~ WfTcoeffs (AArr [2; 3] DFloat).
Proof. split; [reflexivity | rewrite <- wf_tcoeffs_b_spec; vm_compute; discriminate]. Qed.
Example ex_verify_rejects_ragged :
  verify (AList [AArr [3] DFloat; AArr [2] DFloat]) = ValueErr /\ ~ WfTcoeffs (AList [AArr [3] DFloat; AArr [2] DFloat]).
Proof. split; [reflexivity | rewrite <- wf_tcoeffs_b_spec; vm_compute; discriminate]. Qed.

Example ex_prior_iwp_accepts :
  forall f, prior_iwp f ex_mean APyBool ANone = Accept /\ WfPriorIwp f ex_mean APyBool ANone.
Proof. intros []; (split; [vm_compute; reflexivity | apply wf_prior_iwp_b_spec; vm_compute; reflexivity]). Qed.
Example ex_prior_iwp_float_flags_TypeError :
  forall f, prior_iwp f ex_mean (AList [AArr [] DFloat; AArr [] DBool]) ANone = TypeErr.
Proof. intros []; vm_compute; reflexivity. Qed.
Example ex_prior_iwp_wrong_scale :
  prior_iwp Dense ex_mean APyBool (AArr [] DFloat) = ValueErr /\
  prior_iwp BlockDiag ex_mean APyBool (AArr [1] DFloat) = ValueErr /\
  prior_iwp Isotropic ex_mean APyBool (AArr [3] DFloat) = ValueErr /\
  prior_iwp Dense ex_mean APyBool (AList [AArr [3] DFloat]) = TypeErr /\
  prior_iwp Isotropic ex_mean APyBool (AList [AArr [] DFloat]) = TypeErr.
Proof. repeat split; vm_compute; reflexivity. Qed.
Example ex_prior_iwp_custom_scale :
  prior_iwp Dense ex_mean APyBool (AArr [3] DFloat) = Accept /\
  prior_iwp Isotropic ex_mean APyBool APyFloat = Accept.
Proof. split; vm_compute; reflexivity. Qed.

Example ex_prior_exp_accepts :
  prior_exp Dense (AJetOdeAuto 2) ex_mean APyBool ANone = Accept /\
  WfPriorExp Dense (AJetOdeAuto 2) ex_mean APyBool ANone.
Proof. split; [vm_compute; reflexivity | apply wf_prior_exp_b_spec; vm_compute; reflexivity]. Qed.
Example ex_prior_exp_rejects :
  prior_exp Dense (AJetOdeAuto 3) ex_mean APyBool ANone = TypeErr /\
  ~ WfPriorExp Dense (AJetOdeAuto 3) ex_mean APyBool ANone.
Proof. split; [vm_compute; reflexivity | rewrite <- wf_prior_exp_b_spec; vm_compute; discriminate]. Qed.
Example ex_prior_exp_plain_function : prior_exp Dense AFun ex_mean APyBool ANone = OtherErr.
Proof. vm_compute. reflexivity. Qed.

Example ex_transition_accepts :
  transition_check [] (AArr [] DFloat) = Accept /\ WfCal [] (AArr [] DFloat).
Proof. split; [reflexivity | apply transition_check_reflects; reflexivity]. Qed.
Example ex_transition_rejects :
  transition_check [] (AArr [1] DFloat) = ValueErr /\ ~ WfCal [] (AArr [1] DFloat).
Proof. split; [reflexivity | rewrite <- transition_check_reflects; vm_compute; discriminate]. Qed.
Example ex_transition_more :
  transition_check [] APyFloat = Accept /\
  transition_check [3] (AArr [3] DFloat) = Accept /\
  transition_check [3] (AArr [] DFloat) = ValueErr /\
  transition_check [] AFun = OtherErr.
Proof. repeat split; reflexivity. Qed.

Example ex_gates :
  gate_jetode (AJetOde 1) = Accept /\ IsJetOde (AJetOde 1) /\
  gate_jetode AFun = TypeErr /\ ~ IsJetOde AFun /\
  gate_jetresidual (AJetResidual 2) = Accept /\ gate_jetresidual (AJetOde 1) = TypeErr /\
  gate_posterior AMarkovSeq = Accept /\ gate_posterior ANormal = TypeErr.
Proof.
  repeat split; try reflexivity.
  - exists 1. reflexivity.
  - intros [k K]. discriminate.
Qed.

Example ex_lift :
  lift_residual_use 2 5 3 = Accept /\ lift_in_range 2 5 3 /\
  lift_residual_use 2 5 4 = ValueErr /\ ~ lift_in_range 2 5 4 /\
  lift_residual_use 2 5 (-1) = ValueErr /\ lift_construct None = TypeErr.
Proof. unfold lift_in_range. repeat split; try reflexivity; lia. Qed.

Example ex_loss :
  CoeffTree (AArr [3; 2] DFloat) /\
  loss_std_check (AArr [3; 2] DFloat) (AArr [3; 2] DFloat) = Accept /\
  loss_std_check (AArr [2; 2] DFloat) (AArr [3; 2] DFloat) = ValueErr /\
  ~ WfLossStd (AArr [2; 2] DFloat) (AArr [3; 2] DFloat) /\
  loss_std_check (AList [AArr [3; 2] DFloat]) (AArr [3; 2] DFloat) = ValueErr.
Proof.
  repeat split; try (vm_compute; reflexivity); try exact I.
  unfold WfLossStd. rewrite <- sameshape_b_spec. vm_compute. discriminate.
Qed.

Example ex_error_residual :
  error_residual_check Isotropic 3 3 = Accept /\ error_residual_check Isotropic 1 3 = ValueErr /\
  error_residual_check Dense 2 3 = ValueErr /\ error_residual_check Dense 1 3 = Accept.
Proof. repeat split; reflexivity. Qed.

Example ex_matfree : matfree_check 3 3 = Accept /\ matfree_check 2 3 = ValueErr.
Proof. split; reflexivity. Qed.

Example ex_warn :
  warns SFixedInterval (RSaveAt true) = true /\ warns SFixedPoint RFixedGrid = true /\
  warns SFilter (RSaveAt true) = false /\ warns SFixedPoint (RSaveAt true) = false /\
  warns SFixedInterval (RSaveAt false) = false.
Proof. repeat split; reflexivity. Qed.
