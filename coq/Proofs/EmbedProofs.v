(* C14: the dense state-space model is the Kronecker embedding (A (x) I_d,
   coefficient-major index i*d + a) of the isotropic one.
   T14.a  kronI is a homomorphism (products, transposes, sums, scalings, identity)
   T14.b  the dense IWP transition is the embedding of the 1-d transition
   T14.c  embedding commutes with marginalisation / application (means: ravel,
          covariances: kronI); the dense TS0 observation is the embedded one
   T14.d  the block-diagonal MLE scale splits the dense residual energy. *)
From Coq Require Import List Arith Lia Bool ZArith Field Ring PeanoNat.
From PD Require Import Base.Field Base.Matrix Base.Solve Model.Gauss Model.Poly Model.Prior Model.Solver
  Proofs.GaussProofs.
Import ListNotations.

(* ------------------------------------------------------------ definitions *)
Section EmbedDefs.
  Context {F : Type} `{FieldOps F}.
  Local Open Scope F_scope.

  (* coefficient-major ravel of an n x d matrix into an (n*d) x 1 column *)
  Definition ravel (n d : nat) (M : @mat F) : @mat F :=
    mk (n * d) 1 (fun i _ => mget M (i / d) (i mod d)).
  (* every entry of v repeated d times *)
  Definition vrep (n d : nat) (v : @vec F) : @vec F :=
    mkv (n * d) (fun i => vget v (i / d)).

  Definition embed_normal (n d : nat) (rv : @normal F) : @normal F :=
    mkN (ravel n d (n_mean rv)) (kronI n n d (n_cov rv)).
  (* K : y | x with x of size nin, y of size nout (A is nout x nin) *)
  Definition embed_cond (nin nout d : nat) (K : @cond F) : @cond F :=
    mkC (kronI nout nin d (c_A K)) (ravel nout d (c_b K)) (kronI nout nout d (c_Q K))
        (vrep nin d (c_tl K)) (vrep nout d (c_to K)).
End EmbedDefs.

Section IndexArith.
  (* ------------------------------------------------------ index arithmetic *)
  Lemma div_lt_mul i n d : i < n * d -> i / d < n.
  Proof.
    intro Hi. destruct d as [|d]; [rewrite Nat.mul_0_r in Hi; lia|].
    apply Nat.div_lt_upper_bound; [discriminate|]. rewrite Nat.mul_comm. exact Hi.
  Qed.
  Lemma mod_lt_mul i n d : i < n * d -> i mod d < d.
  Proof.
    intro Hi. destruct d as [|d]; [rewrite Nat.mul_0_r in Hi; lia|].
    apply Nat.mod_upper_bound. discriminate.
  Qed.
  Lemma div_pd_r p d r : r < d -> (p * d + r) / d = p.
  Proof.
    intro Hr. assert (d <> 0) by lia.
    rewrite Nat.div_add_l by assumption. rewrite Nat.div_small by assumption. lia.
  Qed.
  Lemma mod_pd_r p d r : r < d -> (p * d + r) mod d = r.
  Proof.
    intro Hr. assert (d <> 0) by lia.
    rewrite Nat.add_comm. rewrite Nat.mod_add by assumption. apply Nat.mod_small. exact Hr.
  Qed.
  Lemma pd_r_lt p k d r : p < k -> r < d -> p * d + r < k * d.
  Proof. intros Hp Hr. nia. Qed.
  Lemma div_mod_unique d i j : d <> 0 -> i / d = j / d -> i mod d = j mod d -> i = j.
  Proof.
    intros Hd Hq Hr. rewrite (Nat.div_mod_eq i d), (Nat.div_mod_eq j d). rewrite Hq, Hr. reflexivity.
  Qed.

End IndexArith.

Section EmbedProofs.
  Context {F : Type} `{FL : FieldLaws F}.
  Local Open Scope F_scope.
  Add Field FFe : fth.
  Local Notation mat := (@mat F).
  Local Notation vec := (@vec F).

  (* --------------------------------------------------------------- sums *)
  Lemma vsum_app n m (f : nat -> F) :
    vsum (n + m) f = vsum n f + vsum m (fun i => f (n + i)%nat).
  Proof.
    induction m as [|m IH].
    - rewrite Nat.add_0_r. simpl. ring.
    - rewrite Nat.add_succ_r. simpl. rewrite IH. ring.
  Qed.

  Lemma vsum_split_mul k d (f : nat -> F) :
    vsum (k * d) f = vsum k (fun p => vsum d (fun r => f (p * d + r)%nat)).
  Proof.
    induction k as [|k IH].
    - reflexivity.
    - replace (S k * d)%nat with (k * d + d)%nat by (simpl; lia).
      rewrite vsum_app. rewrite IH. reflexivity.
  Qed.

  Lemma vsum_zero_ext n (f : nat -> F) : (forall i, i < n -> f i = 0) -> vsum n f = 0.
  Proof. intro Hf. rewrite (vsum_ext n f (fun _ => 0)) by exact Hf. apply vsum_zero. Qed.

  (* --------------------------------------------------------- accessors *)
  Lemma mget_kronI n m d (A : mat) i j : i < n * d -> j < m * d ->
    mget (kronI n m d A) i j
    = if Nat.eqb (i mod d) (j mod d) then mget A (i / d) (j / d) else 0.
  Proof. intros. unfold kronI. rewrite mget_mk by assumption. reflexivity. Qed.
  Lemma mget_ravel n d (M : mat) i : i < n * d ->
    mget (ravel n d M) i 0 = mget M (i / d) (i mod d).
  Proof. intro Hi. unfold ravel. rewrite mget_mk by (assumption || lia). reflexivity. Qed.
  Lemma mget_ravel_pd n d (M : mat) p r : p < n -> r < d ->
    mget (ravel n d M) (p * d + r)%nat 0 = mget M p r.
  Proof.
    intros Hp Hr. rewrite mget_ravel by (apply pd_r_lt; assumption).
    rewrite div_pd_r, mod_pd_r by assumption. reflexivity.
  Qed.
  Lemma vget_vrep n d (v : vec) i : i < n * d -> vget (vrep n d v) i = vget v (i / d).
  Proof. intro Hi. unfold vrep. rewrite vget_mkv by assumption. reflexivity. Qed.

  (* one row of (A (x) I) against a column indexed by (p, r) *)
  Lemma vsum_kronI_row k d (A : mat) (g : nat -> nat -> F) n i : i < n * d ->
    vsum (k * d) (fun l => mget (kronI n k d A) i l * g (l / d)%nat (l mod d))
    = vsum k (fun p => mget A (i / d) p * g p (i mod d)).
  Proof.
    intro Hi. rewrite vsum_split_mul. apply vsum_ext. intros p Hp.
    pose proof (mod_lt_mul i n d Hi) as Hr.
    rewrite (vsum_ext d _ (fun r => delta (i mod d) r * (mget A (i / d) p * g p r))).
    - exact (vsum_delta_l d (i mod d) (fun r => mget A (i / d) p * g p r) Hr).
    - intros r Hr'. rewrite mget_kronI by (assumption || apply pd_r_lt; assumption).
      rewrite div_pd_r, mod_pd_r by assumption. unfold delta.
      destruct (Nat.eqb (i mod d) r); ring.
  Qed.

  (* =================================================================
     T14.a  kronI is a homomorphism *)
  Theorem kronI_mmul n k m d (A B : mat) :
    mmul (n * d) (k * d) (m * d) (kronI n k d A) (kronI k m d B)
    = kronI n m d (mmul n k m A B).
  Proof.
    unfold mmul at 1. unfold kronI at 3. apply mk_ext. intros i j Hi Hj.
    pose proof (div_lt_mul i n d Hi) as Hin. pose proof (div_lt_mul j m d Hj) as Hjm.
    pose (G := fun (p r : nat) => if Nat.eqb r (j mod d) then mget B p (j / d) else (0 : F)).
    rewrite (vsum_ext (k * d) _ (fun l => mget (kronI n k d A) i l * G (l / d)%nat (l mod d))).
    2:{ intros l Hl. unfold G. rewrite (mget_kronI k m d B l j) by assumption. reflexivity. }
    rewrite (vsum_kronI_row k d A G n i Hi). unfold G.
    destruct (Nat.eqb (i mod d) (j mod d)).
    - rewrite mget_mmul by assumption. reflexivity.
    - apply vsum_zero_ext. intros p Hp. ring.
  Qed.

  Theorem kronI_mtr n m d (A : mat) :
    mtr (n * d) (m * d) (kronI n m d A) = kronI m n d (mtr n m A).
  Proof.
    unfold mtr at 1. unfold kronI at 2. apply mk_ext. intros i j Hi Hj.
    rewrite mget_kronI by assumption. rewrite (Nat.eqb_sym (j mod d) (i mod d)).
    destruct (Nat.eqb (i mod d) (j mod d)); [|reflexivity].
    rewrite mget_mtr by (apply div_lt_mul; assumption). reflexivity.
  Qed.

  Theorem kronI_madd n m d (A B : mat) :
    madd (n * d) (m * d) (kronI n m d A) (kronI n m d B) = kronI n m d (madd n m A B).
  Proof.
    unfold madd at 1. unfold kronI at 3. apply mk_ext. intros i j Hi Hj.
    rewrite !mget_kronI by assumption.
    destruct (Nat.eqb (i mod d) (j mod d)); [|ring].
    rewrite mget_madd by (apply div_lt_mul; assumption). reflexivity.
  Qed.

  Theorem kronI_msub n m d (A B : mat) :
    msub (n * d) (m * d) (kronI n m d A) (kronI n m d B) = kronI n m d (msub n m A B).
  Proof.
    unfold msub at 1. unfold kronI at 3. apply mk_ext. intros i j Hi Hj.
    rewrite !mget_kronI by assumption.
    destruct (Nat.eqb (i mod d) (j mod d)); [|ring].
    rewrite mget_msub by (apply div_lt_mul; assumption). reflexivity.
  Qed.

  Theorem kronI_mscale n m d c (A : mat) :
    mscale (n * d) (m * d) c (kronI n m d A) = kronI n m d (mscale n m c A).
  Proof.
    unfold mscale at 1. unfold kronI at 2. apply mk_ext. intros i j Hi Hj.
    rewrite mget_kronI by assumption.
    destruct (Nat.eqb (i mod d) (j mod d)); [|ring].
    rewrite mget_mscale by (apply div_lt_mul; assumption). reflexivity.
  Qed.

  Theorem kronI_mid n d : kronI n n d (mid n) = mid (n * d).
  Proof.
    unfold kronI, mid at 2. apply mk_ext. intros i j Hi Hj.
    rewrite mget_mid by (apply div_lt_mul; assumption).
    assert (Hd : d <> 0%nat) by (intro; subst; lia).
    unfold delta.
    destruct (Nat.eqb_spec (i mod d) (j mod d)) as [Hr|Hr];
      destruct (Nat.eqb_spec (i / d) (j / d)) as [Hq|Hq];
      destruct (Nat.eqb_spec i j) as [Hij|Hij]; try reflexivity.
    - exfalso. apply Hij. apply (div_mod_unique d); assumption.
    - exfalso. subst. apply Hq. reflexivity.
    - exfalso. subst. apply Hr. reflexivity.
    - exfalso. subst. apply Hr. reflexivity.
  Qed.

  Theorem kronI_mzero n m d : kronI n m d (mzero n m) = mzero (n * d) (m * d).
  Proof.
    unfold kronI, mzero at 2. apply mk_ext. intros i j Hi Hj.
    unfold mzero. rewrite mget_mk by (apply div_lt_mul; assumption).
    destruct (Nat.eqb (i mod d) (j mod d)); reflexivity.
  Qed.

  Theorem kronI_canon n m d (A : mat) : kronI n m d (canon n m A) = kronI n m d A.
  Proof.
    unfold kronI. apply mk_ext. intros i j Hi Hj.
    rewrite mget_canon by (apply div_lt_mul; assumption). reflexivity.
  Qed.

  Theorem kronI_sandwich n m d (A P : mat) :
    sandwich (n * d) (m * d) (kronI n m d A) (kronI m m d P)
    = kronI n n d (sandwich n m A P).
  Proof. unfold sandwich. rewrite kronI_mmul, kronI_mtr, kronI_mmul. reflexivity. Qed.

  (* diagonal scalings with repeated entries *)
  Lemma dsand_kronI n d (v : vec) (P : mat) :
    dsand (n * d) (vrep n d v) (kronI n n d P) = kronI n n d (dsand n v P).
  Proof.
    unfold dsand at 1. unfold kronI at 2. apply mk_ext. intros i j Hi Hj.
    rewrite mget_kronI by assumption. rewrite !vget_vrep by assumption.
    destruct (Nat.eqb (i mod d) (j mod d)); [|ring].
    rewrite mget_dsand by (apply div_lt_mul; assumption). reflexivity.
  Qed.

  (* ---------------------------------------------------- ravelled columns *)
  Lemma mmul_kronI_ravel n k d (A M : mat) :
    mmul (n * d) (k * d) 1 (kronI n k d A) (ravel k d M) = ravel n d (mmul n k d A M).
  Proof.
    unfold mmul at 1. unfold ravel at 2. apply mk_ext. intros i j Hi Hj.
    assert (j = 0%nat) by lia. subst j.
    pose (G := fun (p r : nat) => mget M p r).
    rewrite (vsum_ext (k * d) _ (fun l => mget (kronI n k d A) i l * G (l / d)%nat (l mod d))).
    2:{ intros l Hl. unfold G. rewrite mget_ravel by assumption. reflexivity. }
    rewrite (vsum_kronI_row k d A G n i Hi). unfold G.
    rewrite mget_mmul by (apply div_lt_mul || apply mod_lt_mul with (n := n); assumption).
    reflexivity.
  Qed.

  Lemma madd_ravel n d (X Y : mat) :
    madd (n * d) 1 (ravel n d X) (ravel n d Y) = ravel n d (madd n d X Y).
  Proof.
    unfold madd at 1. unfold ravel at 3. apply mk_ext. intros i j Hi Hj.
    assert (j = 0%nat) by lia. subst j. rewrite !mget_ravel by assumption.
    rewrite mget_madd by (apply div_lt_mul || apply mod_lt_mul with (n := n); assumption).
    reflexivity.
  Qed.

  Lemma scale_rows_ravel n d (v : vec) (X : mat) :
    scale_rows (n * d) 1 (vrep n d v) (ravel n d X) = ravel n d (scale_rows n d v X).
  Proof.
    unfold scale_rows at 1. unfold ravel at 2. apply mk_ext. intros i j Hi Hj.
    assert (j = 0%nat) by lia. subst j. rewrite mget_ravel by assumption.
    rewrite vget_vrep by assumption.
    rewrite mget_scale_rows by (apply div_lt_mul || apply mod_lt_mul with (n := n); assumption).
    reflexivity.
  Qed.

  (* =================================================================
     T14.c  embedding commutes with marginalisation and application *)
  Theorem c_marg_embed nin nout d (K : @cond F) (rv : @normal F) :
    c_marg (nin * d) (nout * d) 1 (embed_cond nin nout d K) (embed_normal nin d rv)
    = embed_normal nout d (c_marg nin nout d K rv).
  Proof.
    unfold c_marg, embed_cond, embed_normal; cbn [c_A c_b c_Q c_tl c_to n_mean n_cov].
    f_equal.
    - rewrite scale_rows_ravel, mmul_kronI_ravel, madd_ravel, scale_rows_ravel. reflexivity.
    - rewrite dsand_kronI, kronI_sandwich, kronI_madd, dsand_kronI. reflexivity.
  Qed.

  Theorem c_apply_embed nin nout d (K : @cond F) (x : mat) :
    c_apply (nin * d) (nout * d) 1 (embed_cond nin nout d K) (ravel nin d x)
    = embed_normal nout d (c_apply nin nout d K x).
  Proof.
    unfold c_apply, embed_cond, embed_normal; cbn [c_A c_b c_Q c_tl c_to n_mean n_cov].
    f_equal.
    - rewrite scale_rows_ravel, mmul_kronI_ravel, madd_ravel, scale_rows_ravel. reflexivity.
    - rewrite dsand_kronI. reflexivity.
  Qed.

  (* merging embedded conditionals = embedding the merged conditional *)
  Lemma vmap2_vrep n d (u v : vec) :
    vmap2 (n * d) fmul (vrep n d u) (vrep n d v) = vrep n d (vmap2 n fmul u v).
  Proof.
    unfold vmap2 at 1, vrep at 3. apply mkv_ext. intros i Hi.
    rewrite !vget_vrep by assumption.
    rewrite vget_vmap2 by (apply div_lt_mul; assumption). reflexivity.
  Qed.
  Lemma scale_rows_kronI n m d (v : vec) (A : mat) :
    scale_rows (n * d) (m * d) (vrep n d v) (kronI n m d A) = kronI n m d (scale_rows n m v A).
  Proof.
    unfold scale_rows at 1. unfold kronI at 2. apply mk_ext. intros i j Hi Hj.
    rewrite mget_kronI by assumption. rewrite vget_vrep by assumption.
    destruct (Nat.eqb (i mod d) (j mod d)); [|ring].
    rewrite mget_scale_rows by (apply div_lt_mul; assumption). reflexivity.
  Qed.

  Theorem c_merge_embed nin nmid nout d (K1 K2 : @cond F) :
    c_merge (nin * d) (nmid * d) (nout * d) 1 (embed_cond nmid nout d K1) (embed_cond nin nmid d K2)
    = embed_cond nin nout d (c_merge nin nmid nout d K1 K2).
  Proof.
    unfold c_merge, embed_cond; cbn [c_A c_b c_Q c_tl c_to].
    rewrite vmap2_vrep. f_equal.
    - rewrite scale_rows_kronI, kronI_mmul. reflexivity.
    - rewrite scale_rows_ravel, mmul_kronI_ravel, madd_ravel. reflexivity.
    - rewrite dsand_kronI, kronI_sandwich, kronI_madd. reflexivity.
  Qed.

  (* =================================================================
     T14.c'  the certified inverse of an embedded matrix is the embedded
     inverse (uniqueness of two-sided inverses), hence reversal embeds *)
  Theorem minv_kronI n d (Sm Si X : mat) :
    minv n Sm = Some Si ->
    minv (n * d) (kronI n n d Sm) = Some X ->
    X = kronI n n d Si.
  Proof.
    intros H1 H2.
    apply minv_spec in H1. destruct H1 as [_ [HA1 _]].
    apply minv_spec in H2. destruct H2 as [Hc2 [_ HB2]].
    assert (E : mmul (n * d) (n * d) (n * d) (kronI n n d Sm) (kronI n n d Si) = mid (n * d)).
    { rewrite kronI_mmul, HA1, kronI_mid. reflexivity. }
    rewrite Hc2. rewrite <- (mmul_id_r (n * d) (n * d) X). rewrite <- E.
    rewrite <- mmul_assoc. rewrite HB2. rewrite mmul_id_l. unfold kronI. apply canon_mk.
  Qed.

  Lemma msub_ravel n d (X Y : mat) :
    msub (n * d) 1 (ravel n d X) (ravel n d Y) = ravel n d (msub n d X Y).
  Proof.
    unfold msub at 1. unfold ravel at 3. apply mk_ext. intros i j Hi Hj.
    assert (j = 0%nat) by lia. subst j. rewrite !mget_ravel by assumption.
    rewrite mget_msub by (apply div_lt_mul || apply mod_lt_mul with (n := n); assumption).
    reflexivity.
  Qed.
  Lemma vinv_vrep n d (v : vec) : vinv (n * d) (vrep n d v) = vrep n d (vinv n v).
  Proof.
    unfold vinv at 1, vrep at 2. apply mkv_ext. intros i Hi.
    rewrite vget_vrep by assumption.
    rewrite vget_vinv by (apply div_lt_mul; assumption). reflexivity.
  Qed.

  Theorem c_revert_embed nin nout d (K : @cond F) (rv obs : @normal F) (bw : @cond F)
          (obsD : @normal F) (bwD : @cond F) :
    c_revert minv nin nout d K rv = Some (obs, bw) ->
    c_revert minv (nin * d) (nout * d) 1 (embed_cond nin nout d K) (embed_normal nin d rv)
    = Some (obsD, bwD) ->
    obsD = embed_normal nout d obs /\ bwD = embed_cond nout nin d bw.
  Proof.
    intros H1 H2. unfold c_revert in H1, H2. unfold embed_cond, embed_normal in H2.
    cbn [c_A c_b c_Q c_tl c_to n_mean n_cov] in H2. cbv zeta in H1, H2.
    rewrite scale_rows_ravel, dsand_kronI, !kronI_mmul, kronI_mtr, kronI_mmul, kronI_madd in H2.
    set (m' := scale_rows nin d (c_tl K) (n_mean rv)) in *.
    set (P' := dsand nin (c_tl K) (n_cov rv)) in *.
    set (AP := mmul nout nin nin (c_A K) P') in *.
    set (Sm := madd nout nout (mmul nout nin nout AP (mtr nout nin (c_A K))) (c_Q K)) in *.
    destruct (minv nout Sm) as [Si|] eqn:HSi; [|discriminate].
    destruct (minv (nout * d) (kronI nout nout d Sm)) as [X|] eqn:HX; [|discriminate].
    pose proof (minv_kronI nout d Sm Si X HSi HX) as EX. subst X.
    inversion H1; subst obs bw. inversion H2; subst obsD bwD. clear H1 H2.
    unfold embed_normal, embed_cond; cbn [c_A c_b c_Q c_tl c_to n_mean n_cov].
    split; f_equal.
    - rewrite mmul_kronI_ravel, madd_ravel, scale_rows_ravel. reflexivity.
    - rewrite dsand_kronI. reflexivity.
    - rewrite kronI_mtr, kronI_mmul. reflexivity.
    - rewrite kronI_mtr, kronI_mmul, !mmul_kronI_ravel, madd_ravel, mmul_kronI_ravel, msub_ravel. reflexivity.
    - rewrite kronI_mtr, kronI_mmul, kronI_sandwich, kronI_msub. reflexivity.
    - apply vinv_vrep.
    - apply vinv_vrep.
  Qed.

  Lemma ravel_mzero n d : ravel n d (@mzero F _ n d) = mzero (n * d) 1.
  Proof.
    unfold ravel, mzero at 2. apply mk_ext. intros i j Hi Hj.
    unfold mzero. rewrite mget_mk by (apply div_lt_mul || apply mod_lt_mul with (n := n); assumption).
    reflexivity.
  Qed.

  (* the correction step (Bayes' rule on an observation) embeds: observed
     marginal and corrected state of the dense model are the embeddings of the
     isotropic ones *)
  Theorem bayes_rule_embed nin nout d (K : @cond F) (data : mat) (rv obs upd obsD updD : @normal F) :
    bayes_rule minv nin nout d K data rv = Some (obs, upd) ->
    bayes_rule minv (nin * d) (nout * d) 1 (embed_cond nin nout d K) (ravel nout d data)
               (embed_normal nin d rv) = Some (obsD, updD) ->
    obsD = embed_normal nout d obs /\ updD = embed_normal nin d upd.
  Proof.
    unfold bayes_rule. intros H1 H2.
    destruct (c_revert minv nin nout d K rv) as [[o b]|] eqn:E1; [|discriminate].
    destruct (c_revert minv (nin * d) (nout * d) 1 (embed_cond nin nout d K) (embed_normal nin d rv))
      as [[oD bD]|] eqn:E2; [|discriminate].
    destruct (c_revert_embed nin nout d K rv o b oD bD E1 E2) as [Ho Hb]. subst oD bD.
    inversion H1; subst obs upd. inversion H2; subst obsD updD. clear H1 H2.
    split; [reflexivity|]. apply c_apply_embed.
  Qed.

  (* =================================================================
     T14.b  the dense IWP transition is the embedding of the 1-d transition
     (all base scales equal; the isotropic transition uses base2 * out2) *)
  Theorem iwp_transition_dense_is_embedding q d (base2 : vec) (s dt out2 : F) :
    (forall a, a < d -> vget base2 a = s) ->
    iwp_transition_dense q d base2 dt out2
    = embed_cond (S q) (S q) d (iwp_transition_1d q d dt (s * out2)).
  Proof.
    intro Hb. unfold iwp_transition_dense, iwp_transition_1d, embed_cond; cbn [c_A c_b c_Q c_tl c_to].
    f_equal.
    - (* offset *)
      unfold mzero at 1, ravel. apply mk_ext. intros i j Hi Hj.
      unfold mzero. rewrite mget_mk by (apply div_lt_mul || apply mod_lt_mul with (n := S q); assumption).
      reflexivity.
    - (* process noise *)
      unfold kronI. apply mk_ext. intros i j Hi Hj.
      destruct (Nat.eqb (i mod d) (j mod d)); [|reflexivity].
      rewrite mget_mscale by (apply div_lt_mul; assumption).
      rewrite Hb by (apply mod_lt_mul with (n := S q); assumption). ring.
  Qed.

  (* the dense TS0 observation matrix (select derivative k of every dimension)
     is the embedding of the isotropic / block one *)
  Theorem ts0_selector_is_embedding q d k :
    mk (1 * d) (S q * d) (fun r col => (delta (k * d + r)%nat col : F))
    = kronI 1 (S q) d (mk 1 (S q) (fun _ col => delta k col)).
  Proof.
    unfold kronI. apply mk_ext. intros r col Hr Hc.
    assert (Hd : d <> 0%nat) by (intro; subst; lia).
    assert (Hrd : r < d) by lia.
    rewrite (Nat.mod_small r d Hrd), (Nat.div_small r d Hrd).
    rewrite mget_mk by (lia || apply div_lt_mul; assumption).
    unfold delta.
    destruct (Nat.eqb_spec r (col mod d)) as [Hm|Hm];
      destruct (Nat.eqb_spec k (col / d)) as [Hq|Hq];
      destruct (Nat.eqb_spec (k * d + r)%nat col) as [He|He]; try reflexivity.
    - exfalso. apply He. rewrite (Nat.div_mod_eq col d). rewrite <- Hq, <- Hm. lia.
    - exfalso. apply Hq. subst col. rewrite div_pd_r by assumption. reflexivity.
    - exfalso. apply Hm. subst col. rewrite mod_pd_r by assumption. reflexivity.
    - exfalso. apply Hm. subst col. rewrite mod_pd_r by assumption. reflexivity.
  Qed.

  (* =================================================================
     T14.e  one uncalibrated TS0 filter step of the dense model is the embedding
     of the isotropic step (prediction, linearisation, correction) *)
  Lemma coeff_embed q d (rv : @normal F) i a : i < S q -> a < d ->
    coeff (mkShape Dense q d) [embed_normal (S q) d rv] i a = coeff (mkShape Iso q d) [rv] i a.
  Proof.
    intros Hi Ha. unfold coeff, nth_normal, embed_normal; cbn [sh_kind sh_d nth n_mean].
    apply mget_ravel_pd; assumption.
  Qed.

  Lemma ode_env_embed q d (o : @odeP F) (rv : @normal F) (t : F) :
    ode_k o <= S q ->
    ode_env (mkShape Dense q d) o [embed_normal (S q) d rv] t = ode_env (mkShape Iso q d) o [rv] t.
  Proof.
    intro Hk. unfold ode_env; cbn [sh_d]. f_equal. apply map_ext_in. intros idx Hin.
    apply in_seq in Hin.
    assert (Hidx : idx < S q * d) by nia.
    apply coeff_embed; [apply div_lt_mul; exact Hidx|apply mod_lt_mul with (n := S q); exact Hidx].
  Qed.

  Lemma f_eval_embed q d (o : @odeP F) (rv : @normal F) (t : F) a :
    ode_k o <= S q ->
    f_eval (mkShape Dense q d) o [embed_normal (S q) d rv] t a = f_eval (mkShape Iso q d) o [rv] t a.
  Proof. intro Hk. unfold f_eval. rewrite ode_env_embed by exact Hk. reflexivity. Qed.

  Theorem linearize_ts0_embed q d (o : @odeP F) (damp2 : F) (rv : @normal F) (t : F) :
    ode_k o <= S q ->
    linearize (mkShape Dense q d) o TS0 damp2 [embed_normal (S q) d rv] t
    = map (embed_cond (S q) 1 d) (linearize (mkShape Iso q d) o TS0 damp2 [rv] t).
  Proof.
    intro Hk. unfold linearize; cbn [sh_kind sh_q sh_d sh_N map].
    unfold from_linop_and_noise, embed_cond; cbn [c_A c_b c_Q c_tl c_to n_mean n_cov].
    f_equal. f_equal.
    - pose proof (ts0_selector_is_embedding q d (ode_k o)) as E.
      unfold kronI in *. rewrite Nat.mul_1_l in *. exact E.
    - unfold ravel. rewrite Nat.mul_1_l. apply mk_ext. intros r j Hr Hj.
      rewrite (Nat.div_small r d Hr), (Nat.mod_small r d Hr).
      rewrite mget_mk by (lia || assumption). rewrite f_eval_embed by exact Hk. reflexivity.
    - unfold kronI, noise_cov. rewrite Nat.mul_1_l. apply mk_ext. intros i j Hi Hj.
      rewrite (Nat.div_small i d Hi), (Nat.mod_small i d Hi), (Nat.div_small j d Hj), (Nat.mod_small j d Hj).
      rewrite mget_mk by lia. simpl. destruct (Nat.eqb i j); reflexivity.
    - unfold vrep, vones at 1. apply mkv_ext. intros i Hi.
      rewrite vget_vones by (apply div_lt_mul; exact Hi). reflexivity.
    - unfold vrep, vones at 1. rewrite Nat.mul_1_l. apply mkv_ext. intros i Hi.
      rewrite (Nat.div_small i d Hi). rewrite vget_vones by lia. reflexivity.
  Qed.

  (* prediction + TS0 linearisation + correction on the marginal (what
     solver_step does for the filter / uncalibrated solver, see
     solver_step_is_ts0_filter_step) *)
  Definition ts0_filter_step (sh : shape) (o : @odeP F) (damp2 : F) (base2 : vec) (dt t' : F)
             (u : @fnormal F) : option (@fnormal F * @fnormal F) :=
    let tr := transition sh base2 dt (ones sh) in
    let pred := f_marg sh tr u in
    let fx := linearize sh o TS0 damp2 pred t' in
    correct minv sh fx pred.

  Lemma solver_step_is_ts0_filter_step (cf : @config F) (st : @sstate F) (dt : F) :
    cf_calib cf = CalNone -> cf_strat cf = Filter -> cf_lin cf = TS0 ->
    option_map (fun s' => st_u s') (solver_step minv cf st dt)
    = option_map snd (ts0_filter_step (cf_shape cf) (cf_ode cf) (cf_damp2 cf) (cf_base2 cf) dt
                                      (st_t st + dt) (p_marg (st_post st))).
  Proof.
    intros Hc Hs Hl. unfold solver_step, ts0_filter_step. rewrite Hc, Hs, Hl.
    cbn [predict p_marg].
    destruct (correct minv (cf_shape cf) _ _) as [[obs upd]|]; reflexivity.
  Qed.

  Theorem dense_ts0_filter_step_is_embedded_isotropic_step
          q d (o : @odeP F) (damp2 : F) (base2D base2I : vec) (dt t' : F) (rv : @normal F)
          (obs upd obsD updD : @fnormal F) :
    ode_k o <= S q ->
    (forall a, a < d -> vget base2D a = vget base2I 0) ->
    ts0_filter_step (mkShape Iso q d) o damp2 base2I dt t' [rv] = Some (obs, upd) ->
    ts0_filter_step (mkShape Dense q d) o damp2 base2D dt t' [embed_normal (S q) d rv] = Some (obsD, updD) ->
    obsD = map (embed_normal 1 d) obs /\ updD = map (embed_normal (S q) d) upd.
  Proof.
    intros Hk Hb HI HD. unfold ts0_filter_step in HI, HD.
    unfold transition, ones in HI, HD; cbn [sh_kind sh_q sh_d sh_blocks seq map nth] in HI, HD.
    rewrite (iwp_transition_dense_is_embedding q d base2D (vget base2I 0) dt 1 Hb) in HD.
    unfold f_marg in HI, HD; cbn [sh_N sh_c sh_kind sh_q sh_d map2] in HI, HD.
    rewrite c_marg_embed in HD.
    set (pred := c_marg (S q) (S q) d (iwp_transition_1d q d dt (vget base2I 0 * 1)) rv) in *.
    rewrite (linearize_ts0_embed q d o damp2 pred t' Hk) in HD.
    unfold linearize in HI, HD; cbn [sh_kind sh_q sh_d map] in HI, HD.
    set (K := from_linop_and_noise (S q) 1 _ _) in *.
    unfold correct in HI, HD; cbn [sh_N sh_nout sh_c sh_kind sh_q sh_d omap2] in HI, HD.
    pose proof (ravel_mzero 1 d) as RZ. rewrite Nat.mul_1_l in RZ. rewrite <- RZ in HD. clear RZ.
    pose proof (bayes_rule_embed (S q) 1 d K (mzero 1 d) pred) as BE. rewrite Nat.mul_1_l in BE.
    destruct (bayes_rule minv (S q) 1 d K (mzero 1 d) pred) as [[o1 u1]|] eqn:E1; [|discriminate].
    destruct (bayes_rule minv (S q * d) d 1 (embed_cond (S q) 1 d K) (ravel 1 d (mzero 1 d)) (embed_normal (S q) d pred))
      as [[o2 u2]|] eqn:E2; [|discriminate].
    destruct (BE o1 u1 o2 u2 eq_refl eq_refl) as [Ho Hu]. subst o2 u2.
    cbn in HI, HD. inversion HI; subst obs upd. inversion HD; subst obsD updD.
    split; reflexivity.
  Qed.

  (* =================================================================
     T14.d  block-diagonal MLE scale: with a diagonal innovation covariance
     (one scalar block per dimension) the dense squared whitened RMS is the
     mean over the dimensions of the per-block squared whitened RMS. *)
  Lemma fnat_1' : fnat 1 = (1 : F).
  Proof. reflexivity. Qed.
  Lemma fnat_nonzero' n : n <> 0%nat -> fnat n <> (0 : F).
  Proof.
    destruct n as [|n]; intro Hn; [congruence|].
    unfold fnat. change (Z.of_nat (S n)) with (Zpos (Pos.of_succ_nat n)). simpl fZ.
    apply char0.
  Qed.
  Lemma f1_nonzero : (1 : F) <> 0.
  Proof. apply (F_1_neq_0 fth). Qed.

  Lemma minv_1_entry (Sb X : mat) :
    minv 1 Sb = Some X -> mget Sb 0 0 * mget X 0 0 = 1.
  Proof.
    intro Hi. apply minv_spec in Hi. destruct Hi as [_ [H1 _]].
    assert (E : mget (mmul 1 1 1 Sb X) 0 0 = mget (mid 1) 0 0) by (rewrite H1; reflexivity).
    rewrite mget_mmul in E by lia. rewrite mget_mid in E by lia. simpl in E.
    unfold delta in E. simpl in E. rewrite <- E. ring.
  Qed.

  Lemma minv_diag_entries d (Sd Si : mat) (s : nat -> F) :
    (forall a b, a < d -> b < d -> mget Sd a b = if Nat.eqb a b then s a else 0) ->
    minv d Sd = Some Si ->
    forall a b, a < d -> b < d -> s a * mget Si a b = delta a b.
  Proof.
    intros Hdiag Hi a b Ha Hb. apply minv_spec in Hi. destruct Hi as [_ [H1 _]].
    assert (E : mget (mmul d d d Sd Si) a b = mget (mid d) a b) by (rewrite H1; reflexivity).
    rewrite mget_mmul in E by assumption. rewrite mget_mid in E by assumption.
    rewrite <- E.
    rewrite (vsum_ext d _ (fun l => delta a l * (s a * mget Si l b))).
    - symmetry. exact (vsum_delta_l d a (fun l => s a * mget Si l b) Ha).
    - intros l Hl. rewrite Hdiag by assumption. unfold delta.
      destruct (Nat.eqb a l); ring.
  Qed.

  Theorem mle_scale_split d (rvD : @normal F) (uD : mat)
          (rvB : nat -> @normal F) (uB : nat -> mat) (rho : F) (rhob : nat -> F) :
    d <> 0%nat ->
    (forall a b, a < d -> b < d ->
       mget (n_cov rvD) a b = if Nat.eqb a b then mget (n_cov (rvB a)) 0 0 else 0) ->
    (forall a, a < d ->
       mget uD a 0 - mget (n_mean rvD) a 0 = mget (uB a) 0 0 - mget (n_mean (rvB a)) 0 0) ->
    whitened_rms2 minv d 1 rvD uD = Some rho ->
    (forall a, a < d -> whitened_rms2 minv 1 1 (rvB a) (uB a) = Some (rhob a)) ->
    rho = vsum d rhob / fnat d.
  Proof.
    intros Hd Hcov Hres HD HB.
    unfold whitened_rms2 in HD.
    destruct (minv d (n_cov rvD)) as [Si|] eqn:HSi; [|discriminate].
    inversion HD as [Hrho]. clear HD.
    pose proof (minv_diag_entries d (n_cov rvD) Si (fun a => mget (n_cov (rvB a)) 0 0) Hcov HSi) as Hent.
    cbv beta in Hent.
    pose proof (fnat_nonzero' d Hd) as Hdn.
    pose proof f1_nonzero as H1n.
    (* per block: the inverse entry *)
    assert (Hblock : forall a, a < d ->
              exists x, mget (n_cov (rvB a)) 0 0 * x = 1
                        /\ rhob a = (mget uD a 0 - mget (n_mean rvD) a 0)
                                    * (x * (mget uD a 0 - mget (n_mean rvD) a 0))).
    { intros a Ha. specialize (HB a Ha). unfold whitened_rms2 in HB.
      destruct (minv 1 (n_cov (rvB a))) as [X|] eqn:HX; [|discriminate].
      exists (mget X 0 0). split; [apply minv_1_entry; exact HX|].
      inversion HB as [Hr]. clear HB. simpl vsum.
      rewrite mget_mmul by lia. simpl vsum. rewrite !mget_msub by lia.
      rewrite <- (Hres a Ha). rewrite fnat_1'. field. exact H1n. }
    (* dense: row a of Si R *)
    rewrite fnat_1'.
    replace (fnat d * 1) with (fnat d : F) by ring.
    f_equal. apply vsum_ext. intros a Ha. simpl vsum.
    destruct (Hblock a Ha) as [x [Hx Hr]]. rewrite Hr.
    rewrite mget_mmul by (assumption || lia). rewrite !mget_msub by (assumption || lia).
    set (ra := mget uD a 0 - mget (n_mean rvD) a 0).
    rewrite (vsum_ext d _ (fun l => delta a l * (x * (mget uD l 0 - mget (n_mean rvD) l 0)))).
    - rewrite (vsum_delta_l d a (fun l => x * (mget uD l 0 - mget (n_mean rvD) l 0)) Ha).
      fold ra. ring.
    - intros l Hl. rewrite mget_msub by (assumption || lia).
      (* Si a l = x * delta a l *)
      assert (E : mget Si a l = x * delta a l).
      { transitivity ((mget (n_cov (rvB a)) 0 0 * x) * mget Si a l); [rewrite Hx; ring|].
        transitivity (x * (mget (n_cov (rvB a)) 0 0 * mget Si a l)); [ring|].
        rewrite (Hent a l Ha Hl). reflexivity. }
      rewrite E. ring.
  Qed.

  (* the arithmetic core of T14.d: (1/(k d)) sum_a r_a = (1/d) sum_a (r_a / k) *)
  Theorem mean_of_block_means k d (r : nat -> F) :
    k <> 0%nat -> d <> 0%nat ->
    vsum d r / (fnat k * fnat d) = vsum d (fun a => r a / fnat k) / fnat d.
  Proof.
    intros Hk Hd. pose proof (fnat_nonzero' k Hk). pose proof (fnat_nonzero' d Hd).
    assert (E : vsum d (fun a => r a / fnat k) = vsum d r / fnat k).
    { rewrite (vsum_ext d _ (fun a => r a * (1 / fnat k))) by (intros; field; assumption).
      rewrite vsum_scale_r. field. assumption. }
    rewrite E. field. split; assumption.
  Qed.
End EmbedProofs.

(* ------------------------------------------------------------------ examples:
   the hypotheses of the implications above are satisfiable (over Qc) *)
From Coq Require Import QArith Qcanon.
Local Close Scope Qc_scope.
Local Close Scope Q_scope.
Local Open Scope nat_scope.

Definition is_some {X : Type} (o : option X) : bool := match o with Some _ => true | None => false end.

(* equal base scales (the default: all ones) *)
Example equal_base_scales_exist :
  forall a, a < 3 -> vget (@vones Qc _ 3) a = Q2Qc 1.
Proof. intros a Ha. rewrite vget_vones by exact Ha. reflexivity. Qed.

(* a q = 1, d = 2 isotropic prediction step (unit preconditioners, transition
   [[1,1],[0,1]], process noise [[1/3,1/2],[1/2,1]]) observed through the TS0
   selector with a little observation noise: both the isotropic reversal and
   the reversal of its dense embedding exist *)
Definition ex_K : @cond Qc :=
  mkC [[Q2Qc 0; Q2Qc 1]] [[Q2Qc (1#2); Q2Qc (-1#3)]] [[Q2Qc (1#64)]] (vones 2) (vones 1).
Definition ex_rv : @normal Qc :=
  mkN [[Q2Qc 1; Q2Qc 2]; [Q2Qc (1#2); Q2Qc (-1)]] [[Q2Qc (1#3); Q2Qc (1#2)]; [Q2Qc (1#2); Q2Qc 1]].

Example revert_embed_hypotheses_satisfiable :
  is_some (c_revert minv 2 1 2 ex_K ex_rv) = true
  /\ is_some (c_revert minv (2 * 2) (1 * 2) 1 (embed_cond 2 1 2 ex_K) (embed_normal 2 2 ex_rv)) = true.
Proof. split; vm_compute; reflexivity. Qed.

Example inverse_of_embedding_hypotheses_satisfiable :
  is_some (minv 2 (n_cov ex_rv)) = true
  /\ is_some (minv (2 * 3) (kronI 2 2 3 (n_cov ex_rv))) = true.
Proof. split; vm_compute; reflexivity. Qed.

(* two scalar blocks with variances 1/4 and 2, residuals 1 and -3: the dense
   observed marginal is diag(1/4, 2); all whitened RMS values exist and
   (1^2/(1/4) + 3^2/2)/2 = mean(4, 9/2) *)
Definition ex_rvD : @normal Qc := mkN [[Q2Qc 0]; [Q2Qc 0]] [[Q2Qc (1#4); Q2Qc 0]; [Q2Qc 0; Q2Qc 2]].
Definition ex_uD : @mat Qc := [[Q2Qc 1]; [Q2Qc (-3)]].
Definition ex_rvB (a : nat) : @normal Qc :=
  match a with O => mkN [[Q2Qc 0]] [[Q2Qc (1#4)]] | _ => mkN [[Q2Qc 0]] [[Q2Qc 2]] end.
Definition ex_uB (a : nat) : @mat Qc := match a with O => [[Q2Qc 1]] | _ => [[Q2Qc (-3)]] end.

Example mle_scale_split_hypotheses_satisfiable :
  is_some (whitened_rms2 minv 2 1 ex_rvD ex_uD) = true
  /\ is_some (whitened_rms2 minv 1 1 (ex_rvB 0) (ex_uB 0)) = true
  /\ is_some (whitened_rms2 minv 1 1 (ex_rvB 1) (ex_uB 1)) = true
  /\ (forall a b, a < 2 -> b < 2 ->
        feqb (mget (n_cov ex_rvD) a b) (if Nat.eqb a b then mget (n_cov (ex_rvB a)) 0 0 else f0) = true).
Proof.
  repeat split; try (vm_compute; reflexivity).
  intros a b Ha Hb.
  destruct a as [|[|a]]; destruct b as [|[|b]]; try lia; vm_compute; reflexivity.
Qed.

(* the logistic-like field u_a' = u_a (1 - u_b) (a nonlinear, coupled problem), q = 2, d = 2, inexact initial
   condition: one isotropic TS0 filter step and the dense step on the embedded state both exist *)
Definition ex_ode : @odeP Qc :=
  mkOde 1 [[(Q2Qc 1, [1; 0; 0]); (Q2Qc (-1), [1; 1; 0])]; [(Q2Qc (1#2), [0; 1; 0]); (Q2Qc (-1#2), [1; 1; 0])]].
Definition ex_u0 : @normal Qc :=
  mkN [[Q2Qc (1#2); Q2Qc (1#4)]; [Q2Qc (3#8); Q2Qc (1#16)]; [Q2Qc 0; Q2Qc 0]]
      [[Q2Qc (1#64); Q2Qc 0; Q2Qc 0]; [Q2Qc 0; Q2Qc (1#64); Q2Qc 0]; [Q2Qc 0; Q2Qc 0; Q2Qc 1]].

Example filter_step_hypotheses_satisfiable :
  is_some (ts0_filter_step (mkShape Iso 2 2) ex_ode (Q2Qc 0) [Q2Qc 1] (Q2Qc (1#4)) (Q2Qc (1#4)) [ex_u0]) = true
  /\ is_some (ts0_filter_step (mkShape Dense 2 2) ex_ode (Q2Qc 0) [Q2Qc 1; Q2Qc 1] (Q2Qc (1#4)) (Q2Qc (1#4))
                              [embed_normal 3 2 ex_u0]) = true
  /\ ode_k ex_ode <= 3.
Proof. repeat split; try (vm_compute; reflexivity). simpl. lia. Qed.
