(* Proofs about Model/Stepsize.v (dt0, dt0_adaptive) and its relation to the
   textbook algorithm Spec/HNW.v. *)
From Coq Require Import List QArith Qabs Qminmax Bool Lqa Lia.
From PD Require Import Model.Stepsize Spec.HNW.
Import ListNotations.
Local Open Scope Q_scope.

(* ------------------------------------------------------------- order basics *)
Lemma s_ltb_true a b : s_ltb a b = true <-> a < b.
Proof.
  unfold s_ltb. rewrite negb_true_iff. split; intro H.
  - apply Qnot_le_lt. intro Hc. apply Qle_bool_iff in Hc. congruence.
  - destruct (Qle_bool b a) eqn:Hb; auto. apply Qle_bool_iff in Hb. lra.
Qed.
Lemma s_ltb_false a b : s_ltb a b = false <-> b <= a.
Proof. unfold s_ltb. rewrite negb_false_iff. apply Qle_bool_iff. Qed.
Lemma Qle_bool_false a b : Qle_bool a b = false <-> b < a.
Proof.
  split; intro H.
  - apply Qnot_le_lt. intro Hc. apply Qle_bool_iff in Hc. congruence.
  - destruct (Qle_bool a b) eqn:Hb; auto. apply Qle_bool_iff in Hb. lra.
Qed.
Lemma s_min_spec a b : (a <= b /\ s_min a b = a) \/ (b < a /\ s_min a b = b).
Proof.
  unfold s_min. destruct (Qle_bool a b) eqn:H.
  - left. apply Qle_bool_iff in H. auto.
  - right. apply Qle_bool_false in H. auto.
Qed.
Lemma s_max_spec a b : (a <= b /\ s_max a b = b) \/ (b < a /\ s_max a b = a).
Proof.
  unfold s_max. destruct (Qle_bool a b) eqn:H.
  - left. apply Qle_bool_iff in H. auto.
  - right. apply Qle_bool_false in H. auto.
Qed.

Lemma Qdiv_pos a b : 0 < a -> 0 < b -> 0 < a / b.
Proof.
  intros Ha Hb. apply Qlt_shift_div_l; auto. lra.
Qed.

(* ===================================================================== T18.1 *)
(* The first guess is positive for ALL rationals d0 d1 (the branch condition
   is what makes the quotient safe). *)
Lemma stage1_pos d0 d1 : 0 < stage1 d0 d1.
Proof.
  unfold stage1, stage1_branch.
  destruct (s_ltb d0 lit_1em5) eqn:H0; simpl.
  - unfold lit_1em6. reflexivity.
  - destruct (s_ltb d1 lit_1em5) eqn:H1.
    + unfold lit_1em6. reflexivity.
    + apply s_ltb_false in H0. apply s_ltb_false in H1.
      unfold lit_1em5 in *. apply Qdiv_pos.
      * unfold lit_001. nra.
      * lra.
Qed.

Lemma s_max_gt g d1 d2 :
  Qle_bool d1 g && Qle_bool d2 g = false -> g < s_max d1 d2.
Proof.
  intro H. apply andb_false_iff in H.
  destruct (s_max_spec d1 d2) as [[Hle ->] | [Hlt ->]];
    destruct H as [H | H]; apply Qle_bool_false in H; lra.
Qed.

Lemma radicand_pos d1 d2 : stage2_branch d1 d2 = false -> 0 < radicand d1 d2.
Proof.
  intro H. unfold stage2_branch in H. apply s_max_gt in H.
  unfold radicand. apply Qdiv_pos.
  - unfold lit_001. reflexivity.
  - unfold lit_1em15 in H. lra.
Qed.

Lemma stage2_pos root rate h0 d1 d2 :
  (forall x k, 0 < x -> 0 < root x k) ->
  0 < stage2 root rate h0 d1 d2.
Proof.
  intro Hroot. unfold stage2.
  destruct (stage2_branch d1 d2) eqn:Hb.
  - destruct (s_max_spec lit_1em6 (h0 * lit_1em3)) as [[Hle ->] | [Hlt ->]];
      unfold lit_1em6 in *; lra.
  - apply Hroot. apply radicand_pos; auto.
Qed.

Lemma final_step_pos h0 h1 : 0 < h0 -> 0 < h1 -> 0 < final_step h0 h1.
Proof.
  intros H0 H1. unfold final_step.
  destruct (s_min_spec (lit_100 * h0) h1) as [[_ ->] | [_ ->]]; auto.
  unfold lit_100. lra.
Qed.

(* the scalar core: positive for all d0 d1 d2 whatsoever *)
Lemma core_positive root rate d0 d1 d2 :
  (forall x k, 0 < x -> 0 < root x k) ->
  0 < final_step (stage1 d0 d1) (stage2 root rate (stage1 d0 d1) d1 d2).
Proof.
  intro Hr. apply final_step_pos. apply stage1_pos. apply stage2_pos; auto.
Qed.

Theorem dt0_adaptive_positive :
  forall f nrm root t0 y0 rate rtol atol r,
    (forall x k, 0 < x -> 0 < root x k) ->
    dt0_adaptive f nrm root t0 y0 rate rtol atol = Some r ->
    0 < at_h0 r /\ 0 < at_h1 r /\ 0 < at_h r.
Proof.
  intros f nrm root t0 y0 rate rtol atol r Hr H.
  unfold dt0_adaptive in H.
  destruct (scaled_diff _ _ _) as [arg|]; [|discriminate].
  inversion H; subst; clear H. simpl.
  split; [apply stage1_pos|]. split; [apply stage2_pos; auto|].
  apply final_step_pos; [apply stage1_pos | apply stage2_pos; auto].
Qed.

(* definedness: the only failure of the model is a zero entry of [scale] *)
Lemma scaled_diff_defined f1 f0 sc :
  length f1 = length sc -> length f0 = length sc ->
  Forall (fun s => 0 < s) sc ->
  exists arg, scaled_diff f1 f0 sc = Some arg /\ length arg = length sc.
Proof.
  revert f1 f0. induction sc as [|s rs IH]; intros f1 f0 H1 H0 Hs.
  - destruct f1; [|discriminate]. destruct f0; [|discriminate].
    exists []. auto.
  - destruct f1 as [|a r1]; [discriminate|]. destruct f0 as [|b r0]; [discriminate|].
    simpl in *. inversion Hs; subst.
    destruct (Qeq_bool s 0) eqn:Hz.
    + apply Qeq_bool_iff in Hz. lra.
    + destruct (IH r1 r0) as [arg [-> Hl]]; auto.
      exists ((a - b) / s :: arg). simpl. auto.
Qed.

Lemma scale_vec_pos atol rtol y0 :
  0 < atol -> 0 <= rtol -> Forall (fun s => 0 < s) (scale_vec atol rtol y0).
Proof.
  intros Ha Hr. unfold scale_vec. induction y0 as [|y r IH]; simpl; constructor; auto.
  pose proof (Qabs_nonneg y). nra.
Qed.

Lemma euler_step_length h y g :
  length g = length y -> length (euler_step h y g) = length y.
Proof.
  revert g. induction y as [|a r IH]; intros [|b rg] H; simpl in *; try discriminate; auto.
Qed.

Theorem dt0_adaptive_defined :
  forall f nrm root t0 y0 rate rtol atol,
    (forall t y, length (f t y) = length y) ->
    0 < atol -> 0 <= rtol ->
    exists r, dt0_adaptive f nrm root t0 y0 rate rtol atol = Some r.
Proof.
  intros f nrm root t0 y0 rate rtol atol Hlen Ha Hr.
  unfold dt0_adaptive.
  destruct (scaled_diff_defined
              (f (t0 + stage1 (nrm y0) (nrm (f t0 y0)))
                 (euler_step (stage1 (nrm y0) (nrm (f t0 y0))) y0 (f t0 y0)))
              (f t0 y0) (scale_vec atol rtol y0)) as [arg [-> _]].
  - rewrite Hlen, euler_step_length by apply Hlen.
    unfold scale_vec. now rewrite map_length.
  - rewrite Hlen. unfold scale_vec. now rewrite map_length.
  - apply scale_vec_pos; auto.
  - eexists. reflexivity.
Qed.

(* T18.1, as one statement *)
Theorem dt0_adaptive_total_and_positive :
  forall f nrm root t0 y0 rate rtol atol,
    (forall t y, length (f t y) = length y) ->
    (forall x k, 0 < x -> 0 < root x k) ->
    0 < atol -> 0 <= rtol ->
    exists r, dt0_adaptive f nrm root t0 y0 rate rtol atol = Some r /\
              0 < at_h0 r /\ 0 < at_h1 r /\ 0 < at_h r.
Proof.
  intros f nrm root t0 y0 rate rtol atol Hlen Hroot Ha Hr.
  destruct (dt0_adaptive_defined f nrm root t0 y0 rate rtol atol Hlen Ha Hr) as [r H].
  exists r. split; auto. eapply dt0_adaptive_positive; eauto.
Qed.

(* the hypothesis atol > 0 cannot be dropped: with atol = 0 and a zero
   component of y0 the scale vanishes and the model (like the float code,
   which divides by zero) has no value *)
Theorem dt0_adaptive_undefined_for_zero_scale :
  exists f nrm root t0 y0 rate rtol atol,
    (forall t y, length (f t y) = length y) /\ atol == 0 /\ 0 <= rtol /\
    dt0_adaptive f nrm root t0 y0 rate rtol atol = None.
Proof.
  exists (fun _ y => y), (fun _ => 0), (fun _ _ => 1), 0, [0], 1%nat, (1#1000), 0.
  repeat split; try reflexivity. discriminate.
Qed.

(* ===================================================================== T18.3 *)
Lemma norm_sq_nonneg v : 0 <= norm_sq v.
Proof. induction v as [|a r IH]; simpl; [lra | nra]. Qed.

Lemma norm_sq_zero_iff v : norm_sq v == 0 <-> Forall (fun x => x == 0) v.
Proof.
  induction v as [|a r IH]; simpl.
  - split; [constructor | reflexivity].
  - pose proof (norm_sq_nonneg r). split; intro H0.
    + assert (Ha : a == 0) by nra. constructor; auto. apply IH. nra.
    + inversion H0; subst. apply IH in H4. nra.
Qed.

Lemma is_norm_pos_iff d v : is_norm d v -> (0 < d <-> ~ Forall (fun x => x == 0) v).
Proof.
  intros [Hd Hsq]. rewrite <- norm_sq_zero_iff. split; intro H.
  - intro Hz. nra.
  - destruct (Qlt_le_dec 0 d); auto. exfalso. apply H. nra.
Qed.

Lemma quotient_sign s n m : 0 < s -> 0 < m -> (0 < s * n / m <-> 0 < n).
Proof.
  intros Hs Hm. unfold Qdiv. pose proof (Qinv_lt_0_compat m Hm) as Hi.
  generalize dependent (/ m). intros i Hi.
  assert (Hk : 0 < s * i) by nra.
  assert (E : s * n * i == (s * i) * n) by ring. rewrite E.
  generalize dependent (s * i). intros k Hk _.
  split; intro H; nra.
Qed.

Lemma quotient_zero s n m : 0 < s -> 0 < m -> (s * n / m == 0 <-> n == 0).
Proof.
  intros Hs Hm. unfold Qdiv. pose proof (Qinv_lt_0_compat m Hm) as Hi.
  generalize dependent (/ m). intros i Hi.
  assert (Hk : 0 < s * i) by nra.
  assert (E : s * n * i == (s * i) * n) by ring. rewrite E.
  generalize dependent (s * i). intros k Hk _.
  split; intro H; nra.
Qed.

(* ---- the repaired dt0 (guard norm_y0 < 1e-5 -> 1e-6) ---- *)
(* what the guard does: below the threshold the proposal is the constant 1e-6,
   at or above it the quotient of the pre-fix formula *)
Theorem dt0_guard_value :
  forall f nrm scale nugget t u0,
    (nrm u0 < lit_1em5 ->
       dt0_simple_branch nrm u0 = true /\
       dt0_simple f nrm scale nugget t u0 = Some lit_1em6) /\
    (lit_1em5 <= nrm u0 -> ~ nrm (f t u0) + nugget == 0 ->
       dt0_simple_branch nrm u0 = false /\
       dt0_simple f nrm scale nugget t u0 = Some (dt0_unguarded f nrm scale nugget t u0)).
Proof.
  intros f nrm scale nugget t u0. unfold dt0_simple, dt0_simple_branch, dt0_unguarded.
  split.
  - intro H. apply s_ltb_true in H. rewrite H. auto.
  - intros H Hd. apply s_ltb_false in H. rewrite H.
    destruct (Qeq_bool (nrm (f t u0) + nugget) 0) eqn:E; auto.
    apply Qeq_bool_iff in E. contradiction.
Qed.

(* T18.3: the proposal exists and is strictly positive as soon as scale > 0
   and the denominator |f0| + nugget is positive -- no condition on u0, no
   contract on the norm of u0 *)
Theorem dt0_positive :
  forall f nrm scale nugget t u0,
    0 < scale -> 0 < nrm (f t u0) + nugget ->
    exists h, dt0_simple f nrm scale nugget t u0 = Some h /\ 0 < h.
Proof.
  intros f nrm scale nugget t u0 Hs Hd. unfold dt0_simple.
  destruct (s_ltb (nrm u0) lit_1em5) eqn:Hb.
  - exists lit_1em6. split; reflexivity.
  - apply s_ltb_false in Hb. unfold lit_1em5 in Hb.
    destruct (Qeq_bool (nrm (f t u0) + nugget) 0) eqn:E.
    + apply Qeq_bool_iff in E. lra.
    + eexists. split; [reflexivity|]. apply quotient_sign; lra.
Qed.

(* the usual reading: nugget > 0 and a non-negative norm of f0 *)
Corollary dt0_positive_nugget :
  forall f nrm scale nugget t u0,
    0 < scale -> 0 < nugget -> 0 <= nrm (f t u0) ->
    exists h, dt0_simple f nrm scale nugget t u0 = Some h /\ 0 < h.
Proof.
  intros. apply dt0_positive; auto. lra.
Qed.

(* in particular at u0 = 0 (norm oracle exact at u0): 1e-6 *)
Theorem dt0_at_zero_u0 :
  forall f nrm scale nugget t u0,
    is_norm (nrm u0) u0 -> Forall (fun x => x == 0) u0 ->
    dt0_simple f nrm scale nugget t u0 = Some lit_1em6.
Proof.
  intros f nrm scale nugget t u0 [Hd Hsq] Hz.
  apply dt0_guard_value. apply norm_sq_zero_iff in Hz. unfold lit_1em5. nra.
Qed.

(* nugget > 0 cannot be dropped: with nugget = 0 and f(u0) = 0 the selected
   branch divides by zero *)
Theorem dt0_undefined_for_zero_denominator :
  exists (f : Q -> list Q -> list Q) (nrm : list Q -> Q) (scale nugget t : Q) (u0 : list Q),
    is_norm (nrm u0) u0 /\ is_norm (nrm (f t u0)) (f t u0) /\
    0 < scale /\ nugget == 0 /\
    dt0_simple f nrm scale nugget t u0 = None.
Proof.
  exists (fun _ _ => [0]), (table_norm [([1], 1); ([0], 0)] 0), (1 # 100), 0, 0, [1].
  repeat split; try (vm_compute; reflexivity); vm_compute; discriminate.
Qed.

(* ---- the formula before the repair (documentation of finding F6) ---- *)
(* the unguarded quotient is strictly positive exactly when the norm of u0 is *)
Theorem dt0_unguarded_positive_iff_norm_positive :
  forall f nrm scale nugget t u0,
    0 < scale -> 0 < nugget -> 0 <= nrm (f t u0) ->
    (0 < dt0_unguarded f nrm scale nugget t u0 <-> 0 < nrm u0).
Proof.
  intros f nrm scale nugget t u0 Hs Hn H1. unfold dt0_unguarded.
  apply quotient_sign; lra.
Qed.

(* ... i.e. (for a norm oracle that is right at u0) exactly when u0 <> 0 *)
Theorem dt0_unguarded_positive_iff :
  forall f nrm scale nugget t u0,
    0 < scale -> 0 < nugget ->
    is_norm (nrm u0) u0 -> is_norm (nrm (f t u0)) (f t u0) ->
    (0 < dt0_unguarded f nrm scale nugget t u0 <-> ~ Forall (fun x => x == 0) u0).
Proof.
  intros f nrm scale nugget t u0 Hs Hn H0 H1.
  rewrite dt0_unguarded_positive_iff_norm_positive; auto; [|apply H1].
  apply is_norm_pos_iff; auto.
Qed.

(* for EVERY vector field, the unguarded proposal at u0 = 0 was exactly 0 *)
Theorem dt0_unguarded_zero_at_zero_u0 :
  forall f nrm scale nugget t u0,
    0 < scale -> 0 < nugget ->
    is_norm (nrm u0) u0 -> is_norm (nrm (f t u0)) (f t u0) ->
    Forall (fun x => x == 0) u0 ->
    dt0_unguarded f nrm scale nugget t u0 == 0.
Proof.
  intros f nrm scale nugget t u0 Hs Hn H0 H1 Hz. unfold dt0_unguarded.
  destruct H1 as [H1 _]. apply quotient_zero; try lra.
  destruct H0 as [Hd Hsq]. apply norm_sq_zero_iff in Hz. nra.
Qed.

(* "the unguarded dt0 is > 0 for every initial value" is refuted; on the same
   witness the repaired dt0 returns 1e-6 *)
Theorem dt0_unguarded_positive_refuted :
  exists f nrm t u0,
    is_norm (nrm u0) u0 /\ is_norm (nrm (f t u0)) (f t u0) /\
    ~ Forall (fun x => x == 0) (f t u0) /\
    dt0_unguarded f nrm dt0_default_scale dt0_default_nugget t u0 == 0 /\
    dt0_simple f nrm dt0_default_scale dt0_default_nugget t u0 = Some lit_1em6.
Proof.
  exists (fun _ _ => [3; 4]), (table_norm [([0; 0], 0); ([3; 4], 5)] 1), 0, [0; 0].
  split; [|split; [|split; [|split]]].
  - split; vm_compute; [discriminate | reflexivity].
  - split; vm_compute; [discriminate | reflexivity].
  - intro H. inversion H; subst. vm_compute in H2. discriminate.
  - vm_compute. reflexivity.
  - vm_compute. reflexivity.
Qed.

(* a concrete non-trivial instance: u0 = (3,4), f(u0) = (-1, 3/4):
   dt0 = 0.01 * 5 / (5/4 + 1e-5) = 5000/125001 (guard not taken) *)
Example dt0_example :
  let f := fun (_ : Q) (y : list Q) =>
             match y with [a; b] => [-(1#4) * b; (1#4) * a] | _ => [] end in
  let nrm := table_norm [([3; 4], 5); ([-1; 3#4], 5#4)] 0 in
  is_norm (nrm [3; 4]) [3; 4] /\ is_norm (nrm (f 0 [3; 4])) (f 0 [3; 4]) /\
  dt0_simple_branch nrm [3; 4] = false /\
  exists h, dt0_simple f nrm dt0_default_scale dt0_default_nugget 0 [3; 4] = Some h /\
            h == 5000 # 125001 /\ 0 < h.
Proof.
  cbv zeta. split; [|split; [|split]].
  - split; vm_compute; [discriminate | reflexivity].
  - split; vm_compute; [discriminate | reflexivity].
  - vm_compute. reflexivity.
  - eexists. split; [vm_compute; reflexivity|]. split; vm_compute; reflexivity.
Qed.

(* ===================================================================== T18.2 *)
Definition veq : list Q -> list Q -> Prop := Forall2 Qeq.
Definition oveq (a b : option (list Q)) : Prop :=
  match a, b with
  | Some x, Some y => veq x y
  | None, None => True
  | _, _ => False
  end.

Lemma veq_refl v : veq v v.
Proof. induction v; constructor; auto. reflexivity. Qed.

Lemma sc_of_scale_vec a r y : sc_of a r y = scale_vec a r y.
Proof. induction y as [|x l IH]; simpl; [reflexivity | now rewrite IH]. Qed.

Lemma euler_veq h h' y g :
  h == h' -> veq (euler_step h y g) (explicit_euler y h' g).
Proof.
  intro Hh. revert g. induction y as [|a r IH]; intros [|b rg]; simpl; try constructor.
  - rewrite Hh. reflexivity.
  - apply IH.
Qed.

Lemma step_b_stage1 d0 d1 :
  fst (step_b d0 d1) = stage1_branch d0 d1 /\ snd (step_b d0 d1) == stage1 d0 d1.
Proof.
  unfold step_b, stage1, stage1_branch, lit_1em5, lit_1em6, lit_001.
  destruct (Qlt_le_dec d0 (1 # 100000)) as [H0|H0].
  - apply s_ltb_true in H0. rewrite H0. simpl. split; reflexivity.
  - apply s_ltb_false in H0. rewrite H0. simpl.
    destruct (Qlt_le_dec d1 (1 # 100000)) as [H1|H1].
    + apply s_ltb_true in H1. rewrite H1. simpl. split; reflexivity.
    + apply s_ltb_false in H1. rewrite H1. simpl. split; [reflexivity|].
      unfold Qdiv. ring.
Qed.

Lemma scaled_wdiv f1 f1' :
  veq f1 f1' -> forall f0 sc, length f1 = length f0 ->
  oveq (scaled_diff f1 f0 sc) (wdiv (vsub f1' f0) sc).
Proof.
  induction 1 as [|a a' r r' Ha Hr IH]; intros f0 sc Hl.
  - destruct f0; [|discriminate]. destruct sc; simpl; auto. constructor.
  - destruct f0 as [|b r0]; [discriminate|]. simpl in Hl.
    destruct sc as [|s rs]; simpl; auto.
    destruct (Qeq_dec s 0) as [Hz|Hz].
    + apply Qeq_bool_iff in Hz. rewrite Hz. exact I.
    + destruct (Qeq_bool s 0) eqn:Hb.
      * apply Qeq_bool_iff in Hb. contradiction.
      * specialize (IH r0 rs). assert (Hl' : length r = length r0) by lia.
        specialize (IH Hl'). unfold oveq in IH.
        destruct (scaled_diff r r0 rs) as [l|]; destruct (wdiv (vsub r' r0) rs) as [l'|];
          simpl; try contradiction; auto.
        constructor; auto. rewrite Ha. reflexivity.
Qed.

Lemma guard_agrees d1 d2 d2' :
  d2 == d2' -> stage2_branch d1 d2 = step_e_guard d1 d2'.
Proof.
  intro E. unfold stage2_branch, step_e_guard, lit_1em15.
  destruct (Qlt_le_dec (1 # 1000000000000000) (Qmax d1 d2')) as [H|H];
    destruct (Q.max_spec d1 d2') as [[Hlt Hm]|[Hle Hm]]; rewrite Hm in H.
  - apply andb_false_iff. right. apply Qle_bool_false. lra.
  - apply andb_false_iff. left. apply Qle_bool_false. lra.
  - apply andb_true_iff. split; apply Qle_bool_iff; lra.
  - apply andb_true_iff. split; apply Qle_bool_iff; lra.
Qed.

Lemma s_max_Qmax a b a' b' : a == a' -> b == b' -> s_max a b == Qmax a' b'.
Proof.
  intros Ea Eb.
  destruct (s_max_spec a b) as [[H ->]|[H ->]];
    destruct (Q.max_spec a' b') as [[H' ->]|[H' ->]]; lra.
Qed.

Lemma s_min_Qmin a b a' b' : a == a' -> b == b' -> s_min a b == Qmin a' b'.
Proof.
  intros Ea Eb.
  destruct (s_min_spec a b) as [[H ->]|[H ->]];
    destruct (Q.min_spec a' b') as [[H' ->]|[H' ->]]; lra.
Qed.

Section Refinement.
  Variable f : Q -> list Q -> list Q.
  Variable nrm : list Q -> Q.
  Variable root : Q -> nat -> Q.
  (* the oracles are functions of the VALUES of their rational arguments *)
  Hypothesis Hf : forall t t' y y', t == t' -> veq y y' -> veq (f t y) (f t' y').
  Hypothesis Hlen : forall t y, length (f t y) = length y.
  Hypothesis Hn : forall v v', veq v v' -> nrm v == nrm v'.
  Hypothesis Hr : forall x x' k, x == x' -> root x k == root x' k.

  Definition traces_agree (m : adaptive_trace) (s : hnw_trace) : Prop :=
    at_d0 m == hs_d0 s /\ at_d1 m == hs_d1 s /\
    at_b1 m = hs_fallback s /\ at_h0 m == hs_h0 s /\
    veq (at_y1 m) (hs_y1 s) /\ at_t1 m == hs_x1 s /\
    at_d2 m == hs_d2 s /\ at_b2 m = hs_guard s /\
    at_h1 m == hs_h1 s /\ at_h m == hs_h s.

  Lemma dt0_adaptive_is_hnw_sec t0 y0 rate rtol atol :
    match dt0_adaptive f nrm root t0 y0 rate rtol atol,
          hnw_start f (plain_of nrm) (scaled_of nrm) rate atol rtol root t0 y0 with
    | Some m, Some s => traces_agree m s
    | None, None => True
    | _, _ => False
    end.
  Proof.
    unfold dt0_adaptive, hnw_start, plain_of, scaled_of.
    rewrite sc_of_scale_vec.
    set (f0 := f t0 y0). set (d0 := nrm y0). set (d1 := nrm f0).
    set (sc := scale_vec atol rtol y0).
    destruct (step_b_stage1 d0 d1) as [Eb Eh].
    destruct (step_b d0 d1) as [fb h0']. simpl in Eb, Eh.
    set (h0 := stage1 d0 d1) in *.
    assert (Ey : veq (euler_step h0 y0 f0) (explicit_euler y0 h0' f0))
      by (apply euler_veq; symmetry; exact Eh).
    assert (Et : t0 + h0 == t0 + h0') by (rewrite Eh; reflexivity).
    assert (Ef1 : veq (f (t0 + h0) (euler_step h0 y0 f0))
                      (f (t0 + h0') (explicit_euler y0 h0' f0)))
      by (apply Hf; auto).
    pose proof (scaled_wdiv _ _ Ef1 f0 sc) as Hsd.
    assert (Hl : length (f (t0 + h0) (euler_step h0 y0 f0)) = length f0).
    { rewrite Hlen. rewrite euler_step_length by (unfold f0; apply Hlen).
      unfold f0. symmetry. apply Hlen. }
    specialize (Hsd Hl). unfold oveq in Hsd.
    destruct (scaled_diff _ f0 sc) as [arg|];
      destruct (wdiv _ sc) as [arg'|]; simpl; try contradiction; auto.
    assert (Ed2 : nrm arg / h0 == nrm arg' / h0').
    { rewrite (Hn _ _ Hsd), Eh. reflexivity. }
    pose proof (guard_agrees d1 _ _ Ed2) as Eg.
    unfold traces_agree; simpl.
    assert (Eh1 : stage2 root rate h0 d1 (nrm arg / h0) ==
                  (if step_e_guard d1 (nrm arg' / h0')
                   then Qmax (1 # 1000000) (h0' * (1 # 1000))
                   else root ((1 # 100) / Qmax d1 (nrm arg' / h0')) (rate + 1))).
    { unfold stage2. rewrite Eg.
      destruct (step_e_guard d1 (nrm arg' / h0')).
      - apply s_max_Qmax; [reflexivity|]. unfold lit_1em3. rewrite Eh. reflexivity.
      - rewrite Nat.add_1_r. apply Hr. unfold radicand, lit_001.
        rewrite (s_max_Qmax d1 (nrm arg / h0) d1 (nrm arg' / h0')); [reflexivity|reflexivity|exact Ed2]. }
    repeat split; auto; try reflexivity.
    - symmetry; exact Eh.
    - apply s_min_Qmin; auto. unfold lit_100. rewrite Eh. reflexivity.
  Qed.
End Refinement.

Theorem dt0_adaptive_is_hnw :
  forall (f : Q -> list Q -> list Q) (nrm : list Q -> Q) (root : Q -> nat -> Q),
    (forall t t' y y', t == t' -> veq y y' -> veq (f t y) (f t' y')) ->
    (forall t y, length (f t y) = length y) ->
    (forall v v', veq v v' -> nrm v == nrm v') ->
    (forall x x' k, x == x' -> root x k == root x' k) ->
    forall t0 y0 rate rtol atol,
    match dt0_adaptive f nrm root t0 y0 rate rtol atol,
          hnw_start f (plain_of nrm) (scaled_of nrm) rate atol rtol root t0 y0 with
    | Some m, Some s => traces_agree m s
    | None, None => True
    | _, _ => False
    end.
Proof. exact dt0_adaptive_is_hnw_sec. Qed.

(* ---- the functional form of the textbook algorithm satisfies the book's
        relational form, provided the root oracle is a correct (p+1)-th root at
        the one radicand that occurs ---- *)
Lemma hnw_start_sound f na nd p Atol Rtol root x0 y0 r :
  hnw_start f na nd p Atol Rtol root x0 y0 = Some r ->
  (let x := (1 # 100) / Qmax (hs_d1 r) (hs_d2 r) in
   0 < x -> 0 < root x (p + 1)%nat /\ pow_nat (root x (p + 1)%nat) (p + 1) == x) ->
  hnw_rel f na nd p Atol Rtol x0 y0 r.
Proof.
  unfold hnw_start, hnw_rel.
  destruct (na (sc_of Atol Rtol y0) y0) as [d0|]; [|discriminate].
  destruct (na (sc_of Atol Rtol y0) (f x0 y0)) as [d1|]; [|discriminate].
  destruct (step_b d0 d1) as [fb h0] eqn:Eb.
  destruct (nd _ _) as [n2|] eqn:En; [|discriminate].
  intros H Hroot. inversion H; subst; clear H. simpl in *.
  repeat split; auto.
  - exists n2. split; auto.
  - unfold step_e_rel. destruct (step_e_guard d1 (n2 / h0)) eqn:Eg; [reflexivity|].
    unfold step_e_guard in Eg.
    destruct (Qlt_le_dec (1 # 1000000000000000) (Qmax d1 (n2 / h0))) as [Hm|Hm];
      [|discriminate].
    assert (Hx : 0 < (1 # 100) / Qmax d1 (n2 / h0)) by (apply Qdiv_pos; lra).
    destruct (Hroot Hx) as [Hp Hpow]. split; auto.
    rewrite Hpow. field. lra.
Qed.

(* ---- the book's relation determines the proposal uniquely ---- *)
Lemma pow_nat_pos a k : 0 < a -> 0 < pow_nat a k.
Proof. intro Ha. induction k; simpl; [reflexivity | nra]. Qed.

Lemma pow_nat_lt a b k : 0 < a -> a < b -> pow_nat a (Datatypes.S k) < pow_nat b (Datatypes.S k).
Proof.
  intros Ha Hab. induction k.
  - simpl. lra.
  - pose proof (pow_nat_pos a (Datatypes.S k) Ha).
    change (pow_nat a (Datatypes.S (Datatypes.S k))) with (pow_nat a (Datatypes.S k) * a).
    change (pow_nat b (Datatypes.S (Datatypes.S k))) with (pow_nat b (Datatypes.S k) * b).
    nra.
Qed.

Lemma pow_nat_inj a b k :
  0 < a -> 0 < b -> pow_nat a (Datatypes.S k) == pow_nat b (Datatypes.S k) -> a == b.
Proof.
  intros Ha Hb E.
  destruct (Q_dec a b) as [[H|H]|H]; auto.
  - pose proof (pow_nat_lt a b k Ha H). lra.
  - pose proof (pow_nat_lt b a k Hb H). lra.
Qed.

Theorem hnw_rel_unique f na nd p Atol Rtol x0 y0 r r' :
  hnw_rel f na nd p Atol Rtol x0 y0 r -> hnw_rel f na nd p Atol Rtol x0 y0 r' ->
  hs_fallback r = hs_fallback r' /\ hs_h0 r = hs_h0 r' /\ hs_d2 r = hs_d2 r' /\
  hs_guard r = hs_guard r' /\ hs_h1 r == hs_h1 r' /\ hs_h r == hs_h r'.
Proof.
  unfold hnw_rel.
  intros (A0 & A1 & B & C1 & C2 & (n2 & D1 & D2) & G & E & F)
         (A0' & A1' & B' & C1' & C2' & (n2' & D1' & D2') & G' & E' & F').
  rewrite A0 in A0'. rewrite A1 in A1'.
  injection A0' as E0. injection A1' as E1.
  rewrite <- E0, <- E1 in *. rewrite <- B in B'. injection B' as Bf Bh.
  rewrite <- Bh in *. rewrite <- C1 in C1'. rewrite <- C2 in C2'.
  rewrite C1', C2' in D1'. rewrite D1 in D1'. injection D1' as En. rewrite <- En in D2'.
  rewrite <- D2 in D2'. rewrite D2' in *. rewrite <- G in G'.
  assert (Eh1 : hs_h1 r == hs_h1 r').
  { unfold step_e_rel in E, E'. destruct (step_e_guard (hs_d1 r) (hs_d2 r)).
    - rewrite E, E'. reflexivity.
    - destruct E as [Hp Hq], E' as [Hp' Hq'].
      rewrite Nat.add_1_r in Hq, Hq'.
      assert (Hm : 0 < Qmax (hs_d1 r) (hs_d2 r)).
      { destruct (Qlt_le_dec 0 (Qmax (hs_d1 r) (hs_d2 r))); auto.
        pose proof (pow_nat_pos (hs_h1 r) (Datatypes.S p) Hp). nra. }
      apply (pow_nat_inj _ _ p); auto.
      apply (Qmult_inj_r _ _ (Qmax (hs_d1 r) (hs_d2 r))); [lra|].
      rewrite Hq, Hq'. reflexivity. }
  repeat split; auto.
  rewrite F, F', Eh1. reflexivity.
Qed.

(* ---- where the implemented variant and the book coincide / differ ---- *)
Lemma norm_sq_sum_sq v : norm_sq v == sum_sq v.
Proof. induction v as [|a r IH]; simpl; [reflexivity | rewrite IH; ring]. Qed.

(* the model's contract for linalg.vector_norm is the spec's "plain" norm *)
Lemma is_norm_variant_plain d v : is_norm d v <-> variant_plain v d.
Proof. unfold is_norm, variant_plain. rewrite norm_sq_sum_sq. tauto. Qed.

(* the oracle the code uses for d2 is the spec's "scaled" norm *)
Lemma scaled_of_variant_scaled nrm sc v w :
  wdiv v sc = Some w -> is_norm (nrm w) w ->
  exists d, scaled_of nrm sc v = Some d /\ variant_scaled sc v d.
Proof.
  intros Hw Hn. exists (nrm w). unfold scaled_of, variant_scaled. rewrite Hw. simpl.
  split; auto. exists w. apply is_norm_variant_plain in Hn. destruct Hn. auto.
Qed.

(* scaled norm (code, d2) versus (4.11) (book): they differ by the factor
   sqrt(n), n the dimension *)
Theorem variant_scaled_vs_book sc v d d' :
  book_norm sc v d -> variant_scaled sc v d' ->
  d' * d' == inject_Z (Z.of_nat (length v)) * (d * d).
Proof.
  intros (w & Hw & _ & Hd) (w' & Hw' & _ & Hd').
  rewrite Hw in Hw'. injection Hw' as <-. rewrite Hd, Hd'. reflexivity.
Qed.

(* all three norms coincide for a scalar state with sc = 1 (Atol = 1, Rtol = 0) *)
Theorem variants_coincide_scalar_unit_scale a d :
  (book_norm [1] [a] d <-> variant_plain [a] d) /\
  (variant_scaled [1] [a] d <-> variant_plain [a] d).
Proof.
  unfold book_norm, variant_scaled, variant_plain. simpl.
  split; split.
  - intros (w & Hw & Hd & E). injection Hw as <-. simpl in E. split; auto.
    unfold Qdiv in E. change (/ 1) with 1 in E. change (inject_Z 1) with 1 in E. nra.
  - intros [Hd E]. exists [a / 1]. repeat split; auto. simpl.
    unfold Qdiv. change (/ 1) with 1. change (inject_Z 1) with 1. nra.
  - intros (w & Hw & Hd & E). injection Hw as <-. simpl in E. split; auto.
    unfold Qdiv in E. change (/ 1) with 1 in E. nra.
  - intros [Hd E]. exists [a / 1]. repeat split; auto. simpl.
    unfold Qdiv. change (/ 1) with 1. nra.
Qed.

(* the first guess h0 = 0.01 d0/d1 is invariant under a common rescaling of
   d0 and d1: for a uniform scale vector (Rtol = 0) the book's h0 and the
   code's h0 agree whenever neither takes the 1e-6 fallback *)
Theorem first_guess_scale_invariant k d0 d1 :
  0 < k -> 0 < d1 -> (1 # 100) * ((k * d0) / (k * d1)) == (1 # 100) * (d0 / d1).
Proof. intros Hk Hd. field. split; lra. Qed.

Lemma Qabs_sq a : Qabs a * Qabs a == a * a.
Proof.
  apply Qabs_case; intros; ring.
Qed.

(* The implemented variant is NOT the book's algorithm in general: a scalar
   problem (y' = 1, y0 = 2, Atol = 4, Rtol = 0, p = 1) on which both are
   well-defined, every oracle answer is the exact value of the respective norm
   / square root, and the proposals are 1/5 (book) and 1/10 (implementation). *)
Theorem implemented_variant_differs_from_book :
  exists (f : Q -> list Q -> list Q) (nb : list Q -> list Q -> option Q)
         (nrm : list Q -> Q) (p : nat) (Atol Rtol x0 : Q) (y0 : list Q)
         (rb rc : hnw_trace),
    (forall sc v d, nb sc v = Some d -> book_norm sc v d) /\
    (forall a, is_norm (nrm [a]) [a]) /\
    hnw_rel f nb nb p Atol Rtol x0 y0 rb /\
    hnw_rel f (plain_of nrm) (scaled_of nrm) p Atol Rtol x0 y0 rc /\
    hs_h rb == 1 # 5 /\ hs_h rc == 1 # 10.
Proof.
  set (f := fun (_ : Q) (_ : list Q) => [1]).
  set (nb := fun (sc v : list Q) =>
               match sc, v with
               | [s], [a] => if Qeq_bool s 4 then Some (Qabs a / 4) else None
               | _, _ => None
               end).
  set (nrm := fun v : list Q => match v with [a] => Qabs a | _ => 0 end).
  set (root := fun (x : Q) (_ : nat) =>
                 if Qeq_bool x (1 # 25) then 1 # 5
                 else if Qeq_bool x (1 # 100) then 1 # 10 else 1).
  destruct (hnw_start f nb nb 1 4 0 root 0 [2]) as [rb|] eqn:Eb;
    [|vm_compute in Eb; discriminate].
  destruct (hnw_start f (plain_of nrm) (scaled_of nrm) 1 4 0 root 0 [2]) as [rc|] eqn:Ec;
    [|vm_compute in Ec; discriminate].
  exists f, nb, nrm, 1%nat, 4, 0, 0, [2], rb, rc.
  split; [|split; [|split; [|split; [|split]]]].
  - intros sc v d H. unfold nb in H.
    destruct sc as [|s [|? ?]]; try discriminate.
    destruct v as [|a [|? ?]]; try discriminate.
    destruct (Qeq_bool s 4) eqn:Es; [|discriminate]. injection H as <-.
    apply Qeq_bool_iff in Es. unfold book_norm. simpl.
    destruct (Qeq_dec s 0) as [Hz|Hz]; [lra|].
    exists [a / s]. simpl. split; [reflexivity|]. split.
    + pose proof (Qabs_nonneg a). unfold Qdiv. change (/ 4) with (1 # 4). nra.
    + change (inject_Z 1) with 1. pose proof (Qabs_sq a) as Ha.
      rewrite Es. unfold Qdiv in *. change (/ 4) with (1 # 4). nra.
  - intro a. unfold nrm, is_norm. simpl. split; [apply Qabs_nonneg|].
    rewrite Qabs_sq. ring.
  - apply (hnw_start_sound _ _ _ _ _ _ root); auto.
    vm_compute in Eb. injection Eb as <-. vm_compute. intros _. split; reflexivity.
  - apply (hnw_start_sound _ _ _ _ _ _ root); auto.
    vm_compute in Ec. injection Ec as <-. vm_compute. intros _. split; reflexivity.
  - vm_compute in Eb. injection Eb as <-. vm_compute. reflexivity.
  - vm_compute in Ec. injection Ec as <-. vm_compute. reflexivity.
Qed.

(* ------------------------------------------------------------------ examples *)
(* the hypotheses of [dt0_adaptive_is_hnw] are satisfiable *)
Example refinement_hypotheses_satisfiable :
  exists (f : Q -> list Q -> list Q) (nrm : list Q -> Q) (root : Q -> nat -> Q),
    (forall t t' y y', t == t' -> veq y y' -> veq (f t y) (f t' y')) /\
    (forall t y, length (f t y) = length y) /\
    (forall v v', veq v v' -> nrm v == nrm v') /\
    (forall x x' k, x == x' -> root x k == root x' k) /\
    (forall x k, 0 < x -> 0 < root x k).
Proof.
  exists (fun t y => map (fun a => t * a + 1) y), norm_sq, (fun x _ => x).
  split; [|split; [|split; [|split]]].
  - intros t t' y y' Et Hy. induction Hy; simpl; constructor; auto.
    rewrite Et, H. reflexivity.
  - intros. apply map_length.
  - intros v v' Hv. induction Hv; simpl; [reflexivity|]. rewrite H, IHHv. reflexivity.
  - auto.
  - auto.
Qed.

(* A concrete non-trivial run: y' = (1/4) J y, y0 = (3,4), t0 = 0,
   error_contraction_rate = 2, atol = 29/5600, rtol = 493/67200.
   d0 = 5, d1 = 5/4, dt0 = 1/25, scaled difference (-8/29, -42/145) of norm 2/5,
   d2 = 10 > d1 (so the tolerances matter), radicand 1/1000, dt1 = 1/10,
   result min(4, 1/10) = 1/10.  Every oracle answer used is exact. *)
Definition ex_field (t : Q) (y : list Q) : list Q :=
  match y with
  | a :: b :: r => (-(1 # 4) * b) :: ((1 # 4) * a) :: map (fun _ => 0) r
  | _ => map (fun _ => 0) y
  end.
Definition ex_norm : list Q -> Q :=
  table_norm [([3; 4], 5); ([-1; 3 # 4], 5 # 4)] (2 # 5).
Definition ex_root : Q -> nat -> Q :=
  fun x _ => if Qeq_bool x (1 # 1000) then 1 # 10 else 1.

Example dt0_adaptive_example :
  exists r s,
    dt0_adaptive ex_field ex_norm ex_root 0 [3; 4] 2 (493 # 67200) (29 # 5600) = Some r /\
    hnw_start ex_field (plain_of ex_norm) (scaled_of ex_norm) 2 (29 # 5600) (493 # 67200)
              ex_root 0 [3; 4] = Some s /\
    (* the oracle answers are exact *)
    is_norm (at_d0 r) [3; 4] /\ is_norm (at_d1 r) (ex_field 0 [3; 4]) /\
    is_norm (at_d2 r * at_h0 r) (at_arg2 r) /\
    qpow (at_h1 r) 3 == at_x r /\
    (* the values *)
    at_b1 r = false /\ at_h0 r == 1 # 25 /\ at_d2 r == 10 /\ at_b2 r = false /\
    at_x r == 1 # 1000 /\ at_h1 r == 1 # 10 /\ at_h r == 1 # 10 /\
    traces_agree r s /\ 0 < at_h r.
Proof.
  destruct (dt0_adaptive ex_field ex_norm ex_root 0 [3; 4] 2 (493 # 67200) (29 # 5600))
    as [r|] eqn:Er; [|vm_compute in Er; discriminate].
  destruct (hnw_start ex_field (plain_of ex_norm) (scaled_of ex_norm) 2 (29 # 5600)
                      (493 # 67200) ex_root 0 [3; 4]) as [s|] eqn:Es;
    [|vm_compute in Es; discriminate].
  exists r, s. vm_compute in Er, Es. injection Er as <-. injection Es as <-.
  unfold is_norm, traces_agree, veq. simpl.
  repeat match goal with
         | |- _ /\ _ => split
         | |- Forall2 _ _ _ => constructor
         end; try reflexivity; try (vm_compute; reflexivity); try (vm_compute; discriminate).
Qed.
