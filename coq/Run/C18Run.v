(* Executable instances of Model/Stepsize.v with scripted oracles, mirrored by
   harness/c18_impl.py (the real ivpsolve.dt0 / ivpsolve.dt0_adaptive with the
   calls to linalg.vector_norm, np.where, np.maximum, np.minimum and to the
   user's vector field logged).

   The oracle answers are the implementation's own float values (converted
   exactly): the norms d0, d1, the norm n2 of the scaled difference, the
   vector-field values f0, f1 and the value of the real power.  Everything
   else is recomputed exactly by the model. *)
From Coq Require Import List ZArith QArith Qabs Bool.
From PD Require Import Model.Stepsize Run.Show.
Import ListNotations.
Local Open Scope Q_scope.

Definition qb (b : bool) : Q := if b then 1 else 0.

(* Vectors like (f1 - f0) / (atol + 1e-300 rtol) are rationals with thousands of
   bits and pairwise different odd denominators: reducing or printing them (or
   their sum of squares) takes minutes inside coqc.  The comparisons of these
   quantities with the implementation's values are therefore evaluated HERE
   (cross-multiplication only) and only the verdicts are printed; the scalar
   results (quotients of floats) are printed exactly. *)
Definition close (rt ab a b : Q) : bool :=       (* |a - b| <= rt |b| + ab *)
  Qle_bool (Qabs (a - b)) (rt * Qabs b + ab).

(* index (from 1) of the first component of [impl] that is not close to the
   model's; 0 if all are; -1 on a length mismatch *)
Fixpoint first_bad (k : Z) (rt ab : Q) (impl model : list Q) : Z :=
  match impl, model with
  | [], [] => 0%Z
  | a :: ri, b :: rm => if close rt ab a b then first_bad (k + 1) rt ab ri rm else k
  | _, _ => (-1)%Z
  end.

(* Euler step: |y1_impl - y1| <= rt (|y0_i| + |h0 f0_i|) + ab *)
Fixpoint first_bad_euler (k : Z) (rt ab h0 : Q) (impl model y0 f0 : list Q) : Z :=
  match impl, model, y0, f0 with
  | [], [], [], [] => 0%Z
  | a :: ri, b :: rm, y :: ry, g :: rg =>
      if Qle_bool (Qabs (a - b)) (rt * (Qabs y + Qabs (h0 * g)) + ab)
      then first_bad_euler (k + 1) rt ab h0 ri rm ry rg else k
  | _, _, _, _ => (-1)%Z
  end.

(* [1; b1; h0; t1; d2; b2; x; h1; h; ok|y0|^2; ok|f0|^2; ok|arg|^2; bad_y1; bad_arg]
   rt = relative tolerance, asq = absolute slack for squared norms (underflow
   of squares in float64), asm = absolute slack for components (denormals) *)
Definition c18_adaptive (atol rtol : Q) (rate : nat) (t0 : Q) (y0 f0 f1 : list Q)
           (d0 d1 n2 rootval : Q) (y1_impl arg_impl : list Q) (rt asq asm : Q) : list Z :=
  let f := two_point_field t0 f0 f1 in
  let nrm := table_norm [(y0, d0); (f0, d1)] n2 in
  let root := fun (_ : Q) (_ : nat) => rootval in
  showQ (match dt0_adaptive f nrm root t0 y0 rate rtol atol with
         | None => None
         | Some r =>
           Some [qb (at_b1 r); at_h0 r; at_t1 r; at_d2 r; qb (at_b2 r); at_x r;
                 at_h1 r; at_h r;
                 qb (close rt asq (d0 * d0) (norm_sq y0));
                 qb (close rt asq (d1 * d1) (norm_sq f0));
                 qb (close rt asq (n2 * n2) (norm_sq (at_arg2 r)));
                 inject_Z (first_bad_euler 1 rt asm (at_h0 r) y1_impl (at_y1 r) y0 f0);
                 inject_Z (first_bad 1 rt asm arg_impl (at_arg2 r))]
         end).

(* [1; guard branch taken; dt0; ok|u0|^2; ok|f0|^2]   ([0]: zero denominator) *)
Definition c18_simple (scale nugget t : Q) (u0 f0 : list Q) (d0 d1 rt asq : Q) : list Z :=
  let f := fun (_ : Q) (_ : list Q) => f0 in
  let nrm := table_norm [(u0, d0)] d1 in
  showQ (match dt0_simple f nrm scale nugget t u0 with
         | None => None
         | Some h =>
           Some [qb (dt0_simple_branch nrm u0); h;
                 qb (close rt asq (d0 * d0) (norm_sq u0));
                 qb (close rt asq (d1 * d1) (norm_sq f0))]
         end).
