(* Executable instances of Model/Stepsize.v with scripted oracles, mirrored by
   harness/c18_impl.py (the real ivpsolve.dt0 / ivpsolve.dt0_adaptive with the
   calls to linalg.vector_norm, np.where, np.maximum, np.minimum and to the
   user's vector field logged).

   The oracle answers are the implementation's own float values (converted
   exactly): the norms d0, d1, the norm n2 of the scaled difference, the
   vector-field values f0, f1 and the value of the real power.  Everything
   else is recomputed exactly by the model. *)
From Coq Require Import List ZArith QArith Bool.
From PD Require Import Model.Stepsize Run.Show.
Import ListNotations.
Local Open Scope Q_scope.

Definition qb (b : bool) : Q := if b then 1 else 0.

(* Results are printed UNREDUCED (numerator, denominator as computed): reducing
   a sum of squares of components like 1e-300 / (atol + 1e-300 rtol) needs gcds of
   numbers with thousands of bits, which take minutes inside vm_compute; the
   harness reduces them (fractions.Fraction) instead. *)
Definition zq_raw (q : Q) : list Z := [Qnum q; Zpos (Qden q)].
Definition showQ_raw (o : option (list Q)) : list Z :=
  match o with None => [0%Z] | Some l => 1%Z :: flat_map zq_raw l end.

(* [1; b1; h0; t1; d2; b2; x; h1; h; |y0|^2; |f0|^2; |arg|^2; n; y1...; arg...] *)
Definition c18_adaptive (atol rtol : Q) (rate : nat) (t0 : Q) (y0 f0 f1 : list Q)
           (d0 d1 n2 rootval : Q) : list Z :=
  let f := two_point_field t0 f0 f1 in
  let nrm := table_norm [(y0, d0); (f0, d1)] n2 in
  let root := fun (_ : Q) (_ : nat) => rootval in
  showQ_raw (match dt0_adaptive f nrm root t0 y0 rate rtol atol with
         | None => None
         | Some r =>
           Some ([qb (at_b1 r); at_h0 r; at_t1 r; at_d2 r; qb (at_b2 r); at_x r;
                  at_h1 r; at_h r; norm_sq y0; norm_sq f0; norm_sq (at_arg2 r);
                  inject_Z (Z.of_nat (length (at_y1 r)))]
                 ++ at_y1 r ++ at_arg2 r)
         end).

(* [1; dt0; |u0|^2; |f0|^2] *)
Definition c18_simple (scale nugget t : Q) (u0 f0 : list Q) (d0 d1 : Q) : list Z :=
  let f := fun (_ : Q) (_ : list Q) => f0 in
  let nrm := table_norm [(u0, d0)] d1 in
  showQ_raw (Some [dt0_simple f nrm scale nugget t u0; norm_sq u0; norm_sq f0]).
