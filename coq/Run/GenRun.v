(* Generic (field-polymorphic) run functions used by the correspondence harness:
   evaluated inside Coq at Qc by vm_compute (Run/GaussRun.v) and, for volume,
   extracted to OCaml (Extract/Extract.v) and run at Zarith rationals. *)
From Coq Require Import List Arith Bool.
From PD Require Import Base.Field Base.Matrix Base.Solve Model.Gauss Model.Poly
  Model.Prior Model.Solver Model.Error Spec.RTS.
Import ListNotations.

Section GenRun.
  Context {F : Type} `{FieldOps F}.
  Local Open Scope F_scope.
  Local Notation mat := (@mat F).
  Local Notation normal := (@normal F).
  Local Notation cond := (@cond F).

  Definition ginv : nat -> mat -> option mat := minv.

  Definition flat_mat (n m : nat) (A : mat) : list F :=
    flat_map (fun i => map (mget A i) (seq 0 m)) (seq 0 n).
  Definition enc_normal (N c : nat) (rv : normal) : list F :=
    flat_mat N c (n_mean rv) ++ flat_mat N N (n_cov rv).
  (* a conditional is reported in PLAIN form (after preconditioner_apply) *)
  Definition enc_cond (nin nout c : nat) (K : cond) : list F :=
    let P := c_plain nin nout c K in
    flat_mat nout nin (c_A P) ++ flat_mat nout c (c_b P) ++ flat_mat nout nout (c_Q P).

  (* C08: operations on one block.  op: 0 apply, 1 marginalise, 2 merge, 3 revert,
     4 plain, 5 whitened rms^2 of x under rv *)
  Definition g_c08 (op nin nmid nout c : nat) (K1 K2 : cond) (rv : normal) (x : mat)
    : option (list F) :=
    match op with
    | 0 => Some (enc_normal nout c (c_apply nin nout c K1 x))
    | 1 => Some (enc_normal nout c (c_marg nin nout c K1 rv))
    | 2 => Some (enc_cond nin nout c (c_merge nin nmid nout c K1 K2))
    | 3 => match c_revert ginv nin nout c K1 rv with
           | None => None
           | Some (obs, bw) => Some (enc_normal nout c obs ++ enc_cond nout nin c bw)
           end
    | 4 => Some (enc_cond nin nout c K1)
    | _ => match whitened_rms2 ginv nin c rv x with None => None | Some r => Some [r] end
    end%nat.

  Definition g_c09_transition (kind q d : nat) (base2 : list F) (dt out2 : F) : option (list F) :=
    match kind with
    | O => Some (enc_cond (S q * d) (S q * d) 1 (iwp_transition_dense q d base2 dt out2))
    | _ => Some (enc_cond (S q) (S q) d (iwp_transition_1d q d dt (vget base2 0 * out2)))
    end.
  Definition g_c09_merge (q : nat) (h1 h2 s2 : F) : option (list F) :=
    Some (enc_cond (S q) (S q) 1
      (c_merge (S q) (S q) (S q) 1 (iwp_transition_1d q 1 h2 s2) (iwp_transition_1d q 1 h1 s2))).
  Definition g_c09_closed (q : nat) (h s2 : F) : option (list F) :=
    Some (flat_mat (S q) (S q) (iwp_A_closed q h) ++ flat_mat (S q) (S q) (iwp_Q_closed q h s2)).

  Definition enc_fnormal (s : shape) (rv : list normal) : list F :=
    flat_map (enc_normal (sh_N s) (sh_c s)) rv.
  Definition enc_fcond (s : shape) (K : list cond) : list F :=
    flat_map (enc_cond (sh_N s) (sh_N s) (sh_c s)) K.

  Definition g_fixed_grid (cf : @config F) (t0 : F) (u0 : list normal) (dts : list F)
    : option (list F) :=
    match solve_fixed_grid ginv cf t0 u0 dts with
    | None => None
    | Some (margs, sts) =>
      let s := cf_shape cf in
      Some (flat_map (enc_fnormal s) margs
            ++ flat_map (fun st => st_out2 st) sts
            ++ final_scale2 cf (last sts (solver_init cf t0 u0))
                            (st_nsteps (last sts (solver_init cf t0 u0))))
    end.

  (* ---- one-step refinement along the implementation's trajectory ---- *)
  Definition mk_state (cf : @config F) (t : F) (u : list normal) (pc : list cond)
             (out2 run2 : list F) (ndata nsteps : nat) : @sstate F :=
    mkSt t u (mkPost u pc) out2 run2 ndata nsteps [].

  Definition is_smoother (st : strat) : bool :=
    match st with Filter => false | _ => true end.

  Definition enc_state (cf : @config F) (st : @sstate F) : list F :=
    let s := cf_shape cf in
    enc_fnormal s (st_u st)
    ++ (if is_smoother (cf_strat cf) then enc_fcond s (p_cond (st_post st)) else [])
    ++ st_out2 st ++ st_run2 st
    (* bookkeeping: time, step counter, number of MLE data *)
    ++ [st_t st; fnat (st_nsteps st); fnat (st_ndata st)].

  Definition g_step (cf : @config F) (st : @sstate F) (dt : F) : option (list F) :=
    match solver_step ginv cf st dt with
    | None => None
    | Some st' => Some (enc_state cf st')
    end.

  (* solver.init: plain (cinit = false) or with the initial-constraint update;
     encodes u, (backward model), scales AND the posterior marginal *)
  Definition g_init (cf : @config F) (t0 : F) (u0 : list normal) (cinit : bool) : option (list F) :=
    let st := if cinit then solver_init_constrained ginv cf t0 u0 else Some (solver_init cf t0 u0) in
    match st with
    | None => None
    | Some st => Some (enc_state cf st ++ enc_fnormal (cf_shape cf) (p_marg (st_post st)))
    end.

  Definition g_finalize (cf : @config F) (st0 : @sstate F) (sts : list (@sstate F))
             (st1 : @sstate F) : option (list F) :=
    (* st1 is the LAST STATE of a fixed-grid solve; solve_fixed_grid hands
       interpolate_fwd_at_t1(st1).step_from to userfriendly_output *)
    Some (flat_map (enc_fnormal (cf_shape cf)) (finalize cf st0 sts (state_at_t1 cf st1))
          ++ final_scale2 cf st1 (st_nsteps (last sts st0))).

  (* ---- C03: textbook RTS on the exact filtering states (specification) ---- *)
  Definition g_spec_smooth (cf : @config F) (st0 : @sstate F) (sts : list (@sstate F))
             (dts : list F) : option (list F) :=
    let s := cf_shape cf in
    let N := sh_N s in let c := sh_c s in let nb := sh_blocks s in
    let st1 := last sts st0 in
    let sc2 := final_scale2 cf st1 (st_nsteps st1) in
    let filts := map (fun st => f_rescale s sc2 (st_u st)) (st0 :: sts) in
    let trs := map2 (fun st dt =>
                 map2 (fun k c2 => c_rescale_noise N c2 (c_plain N N c k))
                      (transition s (cf_base2 cf) dt (st_out2 st)) sc2) sts dts in
    let dflt := mkN [] [] in
    let dfc := mkC [] [] [] [] [] in
    let per_block :=
        map (fun a => rts_pass ginv N c (map (fun f => nth a f dflt) filts)
                               (map (fun t => nth a t dfc) trs)) (seq 0 nb) in
    if forallb (fun o => match o with Some _ => true | None => false end) per_block
    then
      let bl := map (fun o => match o with Some l => l | None => [] end) per_block in
      Some (flat_map (fun k => flat_map (fun l => enc_normal N c (nth k l dflt)) bl)
                     (seq 0 (S (length sts))))
    else None.

  (* ---- C07: acceptance quantity.  norm_kind 0: scale-then-rms -> [norm^2];
     1: rms-then-scale -> [mean abs err^2; mean ref^2] ---- *)
  Definition g_error (cf : @config F) (est : estimator) (per_unit : bool)
             (prev_u : list normal) (t_prop dt : F) (ref : list F) (atol rtol : F)
             (norm_kind : nat) : option (list F) :=
    match error_sq_components ginv cf est prev_u t_prop dt with
    | None => None
    | Some errs2 =>
      let n0 := match est with ResidualStd => ode_k (cf_ode cf) | StateStd idx => idx end in
      let n := if per_unit then S n0 else n0 in
      let fac2 := step_factor2 dt n in
      match norm_kind with
      | O => Some [norm2_scale_then_rms errs2 fac2 ref atol rtol]
      | _ => let p := parts_rms_then_scale errs2 fac2 ref in Some [fst p; snd p]
      end
    end.

  (* ---- C05: interpolation between two solver states (one-step refinement) ---- *)
  Definition enc_post (cf : @config F) (p : @post F) : list F :=
    let s := cf_shape cf in
    enc_fnormal s (p_marg p)
    ++ (if is_smoother (cf_strat cf) then enc_fcond s (p_cond p) else []).
  Definition g_interp (cf : @config F) (st0 st1 : @sstate F) (t : F) : option (list F) :=
    match interpolate_fwd ginv cf st0 st1 t with
    | None => None
    | Some (ip, sf, ifr) =>
      (* posteriors of the three returned states, then their bookkeeping:
         squared output scale per block, squared running scale, #data, #steps *)
      let book (st : @sstate F) := st_out2 st ++ [fnat (st_nsteps st)] in
      Some (enc_post cf (st_post ip) ++ enc_post cf (st_post sf) ++ enc_post cf (st_post ifr)
            ++ book ip ++ book sf ++ book ifr)
    end.

  (* ---- C05/C03: exact Gaussian smoothing on the union of step ends and
     output times.  nodes: (dt from previous node, squared scale per block of the
     transition, Some filtering marginal at a step end | None at an output time
     that is not a step end).  All covariances are multiplied by sc2. ---- *)
  Fixpoint union_filter (s : shape) (base2 : list F) (prev : list normal)
           (nodes : list (F * list F * option (list normal)))
    : list (list normal) * list (list cond) :=
    match nodes with
    | [] => ([], [])
    | (dt, out2, o) :: r =>
      let N := sh_N s in let c := sh_c s in
      let tr := map (c_plain N N c) (transition s base2 dt out2) in
      let here := match o with
                  | Some m => m
                  | None => map2 (fun k p => kf_predict N c (c_A k) (c_b k) (c_Q k) p) tr prev
                  end in
      let rest := union_filter s base2 here r in
      (here :: fst rest, tr :: snd rest)
    end.

  Definition g_spec_union (cf : @config F) (sc2 : list F) (f0 : list normal)
             (nodes : list (F * list F * option (list normal))) (smooth : bool)
    : option (list F) :=
    let s := cf_shape cf in
    let N := sh_N s in let c := sh_c s in let nb := sh_blocks s in
    let fl := union_filter s (cf_base2 cf) f0 nodes in
    let filts := map (f_rescale s sc2) (f0 :: fst fl) in
    let trs := map (fun t => map2 (fun k c2 => c_rescale_noise N c2 k) t sc2) (snd fl) in
    let dflt := mkN [] [] in
    let dfc := mkC [] [] [] [] [] in
    if smooth then
      let per_block :=
          map (fun a => rts_pass ginv N c (map (fun f => nth a f dflt) filts)
                                 (map (fun t => nth a t dfc) trs)) (seq 0 nb) in
      if forallb (fun o => match o with Some _ => true | None => false end) per_block
      then
        let bl := map (fun o => match o with Some l => l | None => [] end) per_block in
        Some (flat_map (fun k => flat_map (fun l => enc_normal N c (nth k l dflt)) bl)
                       (seq 0 (S (length nodes))))
      else None
    else Some (flat_map (enc_fnormal s) filts).
End GenRun.
