(* Executable Qc instance of the Gaussian / prior / solver model with encoders
   for the correspondence harness. *)
From Coq Require Import List ZArith QArith Qcanon Bool.
From PD Require Import Base.Field Base.Matrix Base.Solve Model.Gauss Model.Poly
  Model.Prior Model.Solver Run.Show.
Import ListNotations.

Definition QcMat := @mat Qc.
Definition flat_mat (n m : nat) (A : QcMat) : list Qc :=
  flat_map (fun i => map (mget A i) (seq 0 m)) (seq 0 n).
Definition enc_normal (N c : nat) (rv : @normal Qc) : list Qc :=
  flat_mat N c (n_mean rv) ++ flat_mat N N (n_cov rv).
(* a conditional is reported in PLAIN form (after preconditioner_apply) *)
Definition enc_cond (nin nout c : nat) (K : @cond Qc) : list Qc :=
  let P := c_plain nin nout c K in
  flat_mat nout nin (c_A P) ++ flat_mat nout c (c_b P) ++ flat_mat nout nout (c_Q P).

Definition qinv : nat -> QcMat -> option QcMat := minv.

(* C08: operations on one block.  op: 0 apply, 1 marginalise, 2 merge, 3 revert,
   4 plain, 5 whitened rms^2 of x under rv *)
Definition c08_run (op nin nmid nout c : nat) (K1 K2 : @cond Qc) (rv : @normal Qc)
           (x : QcMat) : list Z :=
  showQc (match op with
  | 0 => Some (enc_normal nout c (c_apply nin nout c K1 x))
  | 1 => Some (enc_normal nout c (c_marg nin nout c K1 rv))
  | 2 => Some (enc_cond nin nout c (c_merge nin nmid nout c K1 K2))
  | 3 => match c_revert qinv nin nout c K1 rv with
         | None => None
         | Some (obs, bw) => Some (enc_normal nout c obs ++ enc_cond nout nin c bw)
         end
  | 4 => Some (enc_cond nin nout c K1)
  | _ => match whitened_rms2 qinv nin c rv x with None => None | Some r => Some [r] end
  end)%nat.

(* C09: IWP transition in plain form.  kind 0 dense (base2 per dimension),
   kind 1 one (q+1)-block with c columns *)
Definition c09_transition (kind q d : nat) (base2 : list Qc) (dt out2 : Qc) : list Z :=
  showQc (match kind with
  | O => Some (enc_cond (S q * d) (S q * d) 1 (iwp_transition_dense q d base2 dt out2))
  | _ => Some (enc_cond (S q) (S q) d (iwp_transition_1d q d dt (vget base2 0 * out2)))
  end).
(* merge of transitions over h1 then h2 (plain form) *)
Definition c09_merge (q : nat) (h1 h2 s2 : Qc) : list Z :=
  showQc (Some (enc_cond (S q) (S q) 1
    (c_merge (S q) (S q) (S q) 1 (iwp_transition_1d q 1 h2 s2) (iwp_transition_1d q 1 h1 s2)))).
Definition c09_closed (q : nat) (h s2 : Qc) : list Z :=
  showQc (Some (flat_mat (S q) (S q) (iwp_A_closed q h) ++ flat_mat (S q) (S q) (iwp_Q_closed q h s2))).

(* C02..: fixed-grid solve.  Output: per time point, per block: mean, cov;
   then per step the squared output scale(s) of the state, then the final
   calibrated squared scale. *)
Definition enc_fnormal (s : shape) (rv : list (@normal Qc)) : list Qc :=
  flat_map (enc_normal (sh_N s) (sh_c s)) rv.

Definition fixed_grid_run (cf : @config Qc) (t0 : Qc) (u0 : list (@normal Qc)) (dts : list Qc)
  : list Z :=
  showQc (match solve_fixed_grid qinv cf t0 u0 dts with
  | None => None
  | Some (margs, sts) =>
    let s := cf_shape cf in
    Some (flat_map (enc_fnormal s) margs
          ++ flat_map (fun st => st_out2 st) sts
          ++ final_scale2 cf (last sts (solver_init cf t0 u0))
                          (st_nsteps (last sts (solver_init cf t0 u0))))
  end).

(* ---- one-step refinement along the implementation's trajectory ---- *)
Definition mk_state (cf : @config Qc) (t : Qc) (u : list (@normal Qc)) (pc : list (@cond Qc))
           (out2 run2 : list Qc) (ndata nsteps : nat) : @sstate Qc :=
  mkSt t u (mkPost u pc) out2 run2 ndata nsteps [].

Definition is_smoother (st : strat) : bool :=
  match st with Filter => false | _ => true end.

Definition enc_fcond (s : shape) (K : list (@cond Qc)) : list Qc :=
  flat_map (enc_cond (sh_N s) (sh_N s) (sh_c s)) K.

Definition enc_state (cf : @config Qc) (st : @sstate Qc) : list Qc :=
  let s := cf_shape cf in
  enc_fnormal s (st_u st)
  ++ (if is_smoother (cf_strat cf) then enc_fcond s (p_cond (st_post st)) else [])
  ++ st_out2 st ++ st_run2 st.

Definition step_run (cf : @config Qc) (st : @sstate Qc) (dt : Qc) : list Z :=
  showQc (match solver_step qinv cf st dt with
          | None => None
          | Some st' => Some (enc_state cf st')
          end).

(* userfriendly_output on given states *)
Definition finalize_run (cf : @config Qc) (st0 : @sstate Qc) (sts : list (@sstate Qc))
           (st1 : @sstate Qc) : list Z :=
  showQc (Some (flat_map (enc_fnormal (cf_shape cf)) (finalize cf st0 sts st1)
                ++ final_scale2 cf st1 (st_nsteps (last sts st0)))).
