(* Qc instance of the generic run functions, evaluated by vm_compute. *)
From Coq Require Import List ZArith QArith Qcanon Bool.
From PD Require Import Base.Field Base.Matrix Base.Solve Model.Gauss Model.Poly
  Model.Prior Model.Solver Model.Error Run.Show Run.GenRun.
Import ListNotations.

Definition QcMat := @mat Qc.
Definition qinv : nat -> QcMat -> option QcMat := minv.
(* Qc-specialised constructors (so that case terms need no type annotations) *)
Definition mkNq := @mkN Qc.
Definition mkCq := @mkC Qc.
Definition mkOdeq := @mkOde Qc.
Definition mkCfgq := @mkCfg Qc.
Definition mk_stateq := @mk_state Qc.
Definition q0 : Qc := Q2Qc 0.

Definition c08_run op nin nmid nout c K1 K2 rv x := showQc (@g_c08 Qc _ op nin nmid nout c K1 K2 rv x).
Definition c09_transition kind q d base2 dt out2 := showQc (@g_c09_transition Qc _ kind q d base2 dt out2).
Definition c09_merge q h1 h2 s2 := showQc (@g_c09_merge Qc _ q h1 h2 s2).
Definition c09_closed q h s2 := showQc (@g_c09_closed Qc _ q h s2).
Definition fixed_grid_run cf t0 u0 dts := showQc (@g_fixed_grid Qc _ cf t0 u0 dts).
Definition step_run cf st dt := showQc (@g_step Qc _ cf st dt).
Definition init_run cf t0 u0 cinit := showQc (@g_init Qc _ cf t0 u0 cinit).
Definition finalize_run cf st0 sts st1 := showQc (@g_finalize Qc _ cf st0 sts st1).
Definition spec_smooth_run cf st0 sts dts := showQc (@g_spec_smooth Qc _ cf st0 sts dts).
Definition error_run cf est per_unit prev_u t_prop dt ref atol rtol nk :=
  showQc (@g_error Qc _ cf est per_unit prev_u t_prop dt ref atol rtol nk).
Definition interp_run cf st0 st1 t := showQc (@g_interp Qc _ cf st0 st1 t).
Definition spec_union_run cf sc2 f0 nodes smooth := showQc (@g_spec_union Qc _ cf sc2 f0 nodes smooth).
