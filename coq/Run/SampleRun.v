(* Run functions of the sampling model (Model/Sample.v) for the correspondence
   check harness/c13.py; generic over the field, evaluated at Qc by vm_compute. *)
From Coq Require Import List Arith ZArith QArith Qcanon Bool.
From PD Require Import Base.Field Base.Matrix Base.Solve Model.Gauss Model.Sample Run.Show.
Import ListNotations.

Section SampleRun.
  Context {F : Type} `{FieldOps F}.
  Local Open Scope F_scope.
  Local Notation mat := (@mat F).
  Local Notation cond := (@cond F).

  Definition sflat_mat (n m : nat) (A : mat) : list F :=
    flat_map (fun i => map (mget A i) (seq 0 m)) (seq 0 n).

  (* draw number t (consumption order) is the unit matrix e_{l,b} (n x c), all others zero *)
  Definition unit_draws (n c T t l b : nat) : list mat :=
    map (fun t' => mk n c (fun i a => if Nat.eqb t' t && Nat.eqb i l && Nat.eqb a b then 1 else 0))
        (seq 0 T).
  Definition zero_draws (n c T : nat) : list mat := map (fun _ => mzero n c) (seq 0 T).

  (* one sample: all time points (time order), each n x c row-major *)
  Definition g_sample (reverse : bool) (n c : nat) (m0 L0 : mat) (conds : list cond)
             (Ls draws : list mat) : option (list F) :=
    match markov_sample reverse n c m0 L0 conds Ls draws with
    | None => None
    | Some xs => Some (flat_map (sflat_mat n c) xs)
    end.

  (* sample(0) followed by sample(e_{t,l,b}) for every scalar draw (t: consumption
     order, l < n, b < c; b fastest) *)
  Definition g_sample_all (reverse : bool) (n c : nat) (m0 L0 : mat) (conds : list cond)
             (Ls : list mat) : option (list F) :=
    let T := S (length conds) in
    let run := fun z => g_sample reverse n c m0 L0 conds Ls z in
    let all := run (zero_draws n c T)
               :: flat_map (fun t => flat_map (fun l => map (fun b => run (unit_draws n c T t l b)) (seq 0 c))
                                              (seq 0 n)) (seq 0 T) in
    if forallb (fun o => match o with Some _ => true | None => false end) all
    then Some (flat_map (fun o => match o with Some l => l | None => [] end) all)
    else None.

  (* the explicit matrix of the linear part (reverse chain): rows in time order,
     each row = list over draws in TIME order of n x n blocks *)
  Definition g_rev_rows (n : nat) (conds : list cond) (Ls : list mat) (LN : mat) : option (list F) :=
    Some (flat_map (fun row => flat_map (sflat_mat n n) row) (rev_rows n (combine conds Ls) LN)).
End SampleRun.

Definition sample_run reverse n c m0 L0 conds Ls draws :=
  showQc (@g_sample Qc _ reverse n c m0 L0 conds Ls draws).
Definition sample_all_run reverse n c m0 L0 conds Ls :=
  showQc (@g_sample_all Qc _ reverse n c m0 L0 conds Ls).
Definition rev_rows_run n conds Ls LN := showQc (@g_rev_rows Qc _ n conds Ls LN).
Definition mkCs := @mkC Qc.

(* ------------------------------------------------------------------------
   Fast instance: the SAME polymorphic functions over Bignums' bigQ (normalising
   operations, machine-integer limbs under vm_compute).  Qc is the reference
   instance; harness/c13.py evaluates a sample of the cases with both and
   requires agreement (to the printing precision below).  Printer as in
   Run/C19Run.v: non-integers are ROUNDED for printing to a dyadic rational with
   >= 119 significant bits; the harness compares at 1e-9. *)
From Bignums Require Import BigQ BigZ BigN.
Local Close Scope bigQ_scope.
Local Close Scope bigZ_scope.
Local Close Scope bigN_scope.
Local Open Scope nat_scope.

Definition BigQOpsS : FieldOps bigQ := {|
  f0 := BigQ.zero; f1 := BigQ.one;
  fadd := BigQ.add_norm; fmul := BigQ.mul_norm; fsub := BigQ.sub_norm;
  fopp := BigQ.opp; fdiv := BigQ.div_norm; finv := BigQ.inv_norm;
  feqb := BigQ.eq_bool
|}.
Definition bqs (n : Z) (d : N) : bigQ := BigQ.red (BigQ.Qq (BigZ.of_Z n) (BigN.of_N d)).
Definition show_prec_s : Z := 120%Z.
Definition showBS1 (x : bigQ) : list Z :=
  match BigQ.red x with
  | BigQ.Qz n => [BigZ.to_Z n; 1%Z]
  | BigQ.Qq n d =>
    let ln := BigZ.to_Z (BigZ.log2 (BigZ.abs n)) in
    let ld := BigZ.to_Z (BigZ.log2 (BigZ.Pos d)) in
    let s := Z.max 0 (show_prec_s + ld - ln) in
    [BigZ.to_Z (BigZ.div (BigZ.shiftl n (BigZ.of_Z s)) (BigZ.Pos d)); Z.shiftl 1 s]
  end.
Definition showBS (o : option (list bigQ)) : list Z :=
  match o with None => [0%Z] | Some l => 1%Z :: flat_map showBS1 l end.

Definition sample_run_b reverse n c m0 L0 conds Ls draws :=
  showBS (@g_sample bigQ BigQOpsS reverse n c m0 L0 conds Ls draws).
Definition sample_all_run_b reverse n c m0 L0 conds Ls :=
  showBS (@g_sample_all bigQ BigQOpsS reverse n c m0 L0 conds Ls).
Definition rev_rows_run_b n conds Ls LN := showBS (@g_rev_rows bigQ BigQOpsS n conds Ls LN).
Definition mkCb := @mkC bigQ.
