(* Executable Qc instance of Model/Jacobians.v with encoders for the C17
   correspondence harness (harness/c17.py).  The Jacobian tensor is passed as
   a nested list in the (n_out, d, n_in, d) layout; all outputs are flattened
   row-major in the layout the implementation returns. *)
From Coq Require Import List ZArith QArith Qcanon Bool.
From PD Require Import Base.Field Base.Matrix Model.Jacobians Run.Show.
Import ListNotations.

Definition QcMat := @mat Qc.
Definition QcT3 := @tensor3 Qc.
Definition QcT4 := @tensor4 Qc.

Definition flat2 (n m : nat) (A : QcMat) : list Qc :=
  flat_map (fun i => map (mget A i) (seq 0 m)) (seq 0 n).
Definition flat3 (p n m : nat) (T : QcT3) : list Qc :=
  flat_map (fun x => flat2 n m (nth x T [])) (seq 0 p).
Definition flat4 (q p n m : nat) (T : QcT4) : list Qc :=
  flat_map (fun w => flat3 p n m (nth w T [])) (seq 0 q).

(* jacobian_materialize: dense (n_out,d,n_in,d) ++ trace (n_out,n_in) ++ diagonal (d,n_out,n_in) *)
Definition c17_materialize (n_in n_out d : nat) (Jl : QcT4) : list Z :=
  let J := jac_of Jl in
  showQc (Some (flat4 n_out d n_in d (materialize_dense n_in n_out d J)
                ++ flat2 n_out n_in (mat_trace n_in n_out d J)
                ++ flat3 d n_out n_in (mat_diagonal n_in n_out d J))).

(* stochastic handlers on an explicit list of probes.
   mode 0 forward (probes (n_in,d)), 1 reverse (probes (n_out,d));
   kind 0 trace, 1 diagonal *)
Definition c17_mc (mode kind n_in n_out d : nat) (Jl : QcT4) (Ps : list QcMat) : list Z :=
  let J := jac_of Jl in
  showQc (Some (match mode, kind with
  | O, O => flat2 n_out n_in (mc_fwd_trace n_in n_out d J Ps)
  | O, _ => flat3 d n_out n_in (mc_fwd_diag n_in n_out d J Ps)
  | _, O => flat2 n_out n_in (mc_rev_trace n_in n_out d J Ps)
  | _, _ => flat3 d n_out n_in (mc_rev_diag n_in n_out d J Ps)
  end)).

(* the same with the model's own enumeration of ALL sign probes *)
Definition c17_mc_all (mode kind n_in n_out d : nat) (Jl : QcT4) : list Z :=
  c17_mc mode kind n_in n_out d Jl
         (match mode with O => all_probes n_in d | _ => all_probes n_out d end).

(* validator: [0] TypeError, [1] ValueError, [2; n_in; n_out; d] accepted *)
Definition c17_verify (xa : bool) (xs : list nat) (fa : bool) (fs : list nat) : list Z :=
  match verify_fun_and_x (mkArg xa xs) (mkArg fa fs) with
  | RejectType => [0%Z]
  | RejectValue => [1%Z]
  | Accept a b c => [2%Z; Z.of_nat a; Z.of_nat b; Z.of_nat c]
  end.
