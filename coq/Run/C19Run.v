(* Executable Qc instance of Model/LstSq.v with encoders for the C19
   correspondence harness.  Vectors travel as plain lists and are turned into
   n x 1 matrices here. *)
From Coq Require Import List ZArith QArith Qcanon Bool.
From PD Require Import Base.Field Base.Matrix Base.Solve Model.Gauss Model.Poly
  Model.LstSq Run.Show.
Import ListNotations.
Local Close Scope Qc_scope.
Local Close Scope Q_scope.
Local Open Scope nat_scope.

Definition QcM := @mat Qc.
Definition to_col (l : list Qc) : QcM := map (fun x => [x]) l.
Definition of_col (n : nat) (v : QcM) : list Qc := map (fun i => mget v i 0) (seq 0 n).
Definition flat19 (n m : nat) (A : QcM) : list Qc :=
  flat_map (fun i => map (mget A i) (seq 0 m)) (seq 0 n).
Definition b2q (b : bool) : Qc := if b then Q2Qc 1 else Q2Qc 0.
Definition qpinv : nat -> QcM -> option QcM := mpinv.
(* Qc values are canonical by construction: print numerator/denominator as they
   are (Show.showQc re-reduces, which costs seconds on 6000-bit squared norms) *)
Definition showQc' (o : option (list Qc)) : list Z :=
  match o with
  | None => [0%Z]
  | Some l => 1%Z :: flat_map (fun x => [Qnum (this x); Zpos (Qden (this x))]) l
  end.

(* x ++ fx ++ dx ++ [iters; |fx|^2; |dx|^2; cond1; cond2; cond3] *)
Definition enc_gn (D K maxiter : nat) (tol2 : Qc) (st : @gn_state Qc) : list Qc :=
  of_col D (s_x st) ++ of_col K (s_fx st) ++ of_col D (s_dx st)
  ++ [fnat (s_i st); norm2 K (s_fx st); norm2 D (s_dx st);
      b2q (cond1 qc_gtb K tol2 st); b2q (cond2 maxiter st); b2q (cond3 qc_gtb D tol2 st)].

(* ONE pass through body_fun from the implementation's state (x, fx) *)
Definition c19_step (D K : nat) (ps : list (@poly Qc)) (m : list Qc) (C : QcM)
           (x fx : list Qc) : list Z :=
  showQc' (match gn_body qpinv D K (poly_f D K ps) (poly_jac D K ps) (to_col m) C
                        (mkGN (to_col x) (to_col fx) (ones_col D) 0) with
          | None => None
          | Some st => Some (enc_gn D K 0 (Q2Qc 0) st)
          end).

(* cond_fun on the implementation's state: the three flags *)
Definition c19_cond (D K maxiter : nat) (tol2 : Qc) (fx dx : list Qc) (i : nat) : list Z :=
  let st := mkGN (to_col []) (to_col fx) (to_col dx) i in
  showQc' (Some [b2q (cond1 qc_gtb K tol2 st); b2q (cond2 maxiter st);
                b2q (cond3 qc_gtb D tol2 st); norm2 K (s_fx st); norm2 D (s_dx st)]).

(* the while loop with [fuel] from a given state.  tag 1 Done, 2 OutOfFuel;
   None = SolveFailed *)
Definition enc_result (D K maxiter : nat) (tol2 : Qc) (r : @gn_result Qc) : list Z :=
  showQc' (match r with
          | Done st => Some (Q2Qc 1 :: enc_gn D K maxiter tol2 st)
          | OutOfFuel st => Some (Q2Qc 2 :: enc_gn D K maxiter tol2 st)
          | SolveFailed _ => None
          end).

Definition c19_loop (fuel D K : nat) (ps : list (@poly Qc)) (m : list Qc) (C : QcM)
           (maxiter : nat) (tol2 : Qc) (x fx dx : list Qc) (i : nat) : list Z :=
  enc_result D K maxiter tol2
    (gn_loop qpinv qc_gtb D K (poly_f D K ps) (poly_jac D K ps) (to_col m) C maxiter tol2
             fuel (mkGN (to_col x) (to_col fx) (to_col dx) i)).

(* the complete routine from x0 (used on affine constraints / tiny budgets) *)
Definition c19_run (D K : nat) (ps : list (@poly Qc)) (m : list Qc) (C : QcM)
           (maxiter : nat) (tol2 : Qc) (x0 : list Qc) : list Z :=
  enc_result D K maxiter tol2
    (gn_run qpinv qc_gtb D K (poly_f D K ps) (poly_jac D K ps) (to_col m) C maxiter tol2
            (to_col x0)).

(* Gaussian conditional of N(m, C) given A x + c = 0 through Model/Gauss.v:
   posterior mean ++ posterior covariance *)
Definition c19_condmean (D K : nat) (A : QcM) (c m : list Qc) (C : QcM) : list Z :=
  showQc' (match bayes_rule qpinv D K 1
                  (from_linop_and_noise D K A (mkN (to_col c) (mzero K K)))
                  (mzero K 1) (mkN (to_col m) C) with
          | None => None
          | Some (_, post) => Some (of_col D (n_mean post) ++ flat19 D D (n_cov post))
          end).

(* DenseResidual.linearize at xi followed by the update with data 0 *)
Definition c19_update (D K : nat) (ps : list (@poly Qc)) (m : list Qc) (C : QcM)
           (xi : list Qc) : list Z :=
  showQc' (match bayes_rule qpinv D K 1
                  (lin_at D K (poly_f D K ps) (poly_jac D K ps) (to_col xi))
                  (mzero K 1) (mkN (to_col m) C) with
          | None => None
          | Some (_, post) => Some (of_col D (n_mean post) ++ flat19 D D (n_cov post))
          end).

(* ------------------------------------------------------------------------
   Fast instance: the SAME polymorphic model over Bignums' bigQ (normalising
   operations; machine-integer limbs under vm_compute).  Qc above is the
   reference instance; the harness cross-checks both on small cases and uses
   bigQ for the bulk (Qc's unary-binary gcd makes a 5 x 5 certified inverse on
   53-bit inputs take ~20 s). *)
From Bignums Require Import BigQ BigZ BigN.
Local Close Scope bigQ_scope.
Local Close Scope bigZ_scope.
Local Close Scope bigN_scope.
Local Open Scope nat_scope.

#[global] Instance BigQOps : FieldOps bigQ := {|
  f0 := BigQ.zero; f1 := BigQ.one;
  fadd := BigQ.add_norm; fmul := BigQ.mul_norm; fsub := BigQ.sub_norm;
  fopp := BigQ.opp; fdiv := BigQ.div_norm; finv := BigQ.inv_norm;
  feqb := BigQ.eq_bool
|}.
Definition bq (n : Z) (d : N) : bigQ := BigQ.red (BigQ.Qq (BigZ.of_Z n) (BigN.of_N d)).
Definition bq_gtb (a b : bigQ) : bool :=
  match BigQ.compare a b with Gt => true | _ => false end.
(* Printer: Coq prints a 3000-bit integer in seconds, so non-integers are
   ROUNDED for printing to a dyadic rational with >= 119 significant bits
   (floor of n 2^s / d over 2^s); zero and integers are printed exactly.  The
   harness compares at 1e-7 .. 1e-8, 28 orders of magnitude above this. *)
Definition show_prec : Z := 120%Z.
Definition showB1 (x : bigQ) : list Z :=
  match BigQ.red x with
  | BigQ.Qz n => [BigZ.to_Z n; 1%Z]
  | BigQ.Qq n d =>
    let ln := BigZ.to_Z (BigZ.log2 (BigZ.abs n)) in
    let ld := BigZ.to_Z (BigZ.log2 (BigZ.Pos d)) in
    let s := Z.max 0 (show_prec + ld - ln) in
    [BigZ.to_Z (BigZ.div (BigZ.shiftl n (BigZ.of_Z s)) (BigZ.Pos d)); Z.shiftl 1 s]
  end.
Definition showB (o : option (list bigQ)) : list Z :=
  match o with None => [0%Z] | Some l => 1%Z :: flat_map showB1 l end.

Definition BM := @mat bigQ.
Definition to_colB (l : list bigQ) : BM := map (fun x => [x]) l.
Definition of_colB (n : nat) (v : BM) : list bigQ := map (fun i => mget v i 0) (seq 0 n).
Definition flatB (n m : nat) (A : BM) : list bigQ :=
  flat_map (fun i => map (mget A i) (seq 0 m)) (seq 0 n).
Definition b2b (b : bool) : bigQ := if b then BigQ.one else BigQ.zero.
Definition bpinv : nat -> BM -> option BM := mpinv.

Definition enc_gnB (D K maxiter : nat) (tol2 : bigQ) (st : @gn_state bigQ) : list bigQ :=
  of_colB D (s_x st) ++ of_colB K (s_fx st) ++ of_colB D (s_dx st)
  ++ [fnat (s_i st); norm2 K (s_fx st); norm2 D (s_dx st);
      b2b (cond1 bq_gtb K tol2 st); b2b (cond2 maxiter st); b2b (cond3 bq_gtb D tol2 st)].

Definition c19b_step (D K : nat) (ps : list (@poly bigQ)) (m : list bigQ) (C : BM)
           (x fx : list bigQ) : list Z :=
  showB (match gn_body bpinv D K (poly_f D K ps) (poly_jac D K ps) (to_colB m) C
                       (mkGN (to_colB x) (to_colB fx) (ones_col D) 0) with
         | None => None
         | Some st => Some (enc_gnB D K 0 BigQ.zero st)
         end).

Definition c19b_cond (D K maxiter : nat) (tol2 : bigQ) (fx dx : list bigQ) (i : nat) : list Z :=
  let st := mkGN (to_colB []) (to_colB fx) (to_colB dx) i in
  showB (Some [b2b (cond1 bq_gtb K tol2 st); b2b (cond2 maxiter st);
               b2b (cond3 bq_gtb D tol2 st); norm2 K (s_fx st); norm2 D (s_dx st)]).

Definition enc_resultB (D K maxiter : nat) (tol2 : bigQ) (r : @gn_result bigQ) : list Z :=
  showB (match r with
         | Done st => Some (BigQ.one :: enc_gnB D K maxiter tol2 st)
         | OutOfFuel st => Some (bq 2 1 :: enc_gnB D K maxiter tol2 st)
         | SolveFailed _ => None
         end).

Definition c19b_loop (fuel D K : nat) (ps : list (@poly bigQ)) (m : list bigQ) (C : BM)
           (maxiter : nat) (tol2 : bigQ) (x fx dx : list bigQ) (i : nat) : list Z :=
  enc_resultB D K maxiter tol2
    (gn_loop bpinv bq_gtb D K (poly_f D K ps) (poly_jac D K ps) (to_colB m) C maxiter tol2
             fuel (mkGN (to_colB x) (to_colB fx) (to_colB dx) i)).

Definition c19b_run (D K : nat) (ps : list (@poly bigQ)) (m : list bigQ) (C : BM)
           (maxiter : nat) (tol2 : bigQ) (x0 : list bigQ) : list Z :=
  enc_resultB D K maxiter tol2
    (gn_run bpinv bq_gtb D K (poly_f D K ps) (poly_jac D K ps) (to_colB m) C maxiter tol2
            (to_colB x0)).

Definition c19b_condmean (D K : nat) (A : BM) (c m : list bigQ) (C : BM) : list Z :=
  showB (match bayes_rule bpinv D K 1
                 (from_linop_and_noise D K A (mkN (to_colB c) (mzero K K)))
                 (mzero K 1) (mkN (to_colB m) C) with
         | None => None
         | Some (_, post) => Some (of_colB D (n_mean post) ++ flatB D D (n_cov post))
         end).

Definition c19b_update (D K : nat) (ps : list (@poly bigQ)) (m : list bigQ) (C : BM)
           (xi : list bigQ) : list Z :=
  showB (match bayes_rule bpinv D K 1
                 (lin_at D K (poly_f D K ps) (poly_jac D K ps) (to_colB xi))
                 (mzero K 1) (mkN (to_colB m) C) with
         | None => None
         | Some (_, post) => Some (of_colB D (n_mean post) ++ flatB D D (n_cov post))
         end).
