(* Executable Qc instances of Model/Jet.v, Model/JetLift.v, Spec/ODESeries.v and
   of the linearisations of Model/Solver.v, with encoders for the C10 / C11
   correspondence harnesses (harness/c10.py, harness/c11.py).  Vectors of
   Taylor coefficients are flattened order-major (coefficient 0 first). *)
From Coq Require Import List ZArith QArith Qcanon Bool.
From PD Require Import Base.Field Base.Matrix Base.Solve Model.Poly Base.Series
  Spec.ODESeries Model.Jet Model.Gauss Model.Prior Model.Solver Run.Show.
Import ListNotations.
Local Close Scope Qc_scope.
Local Close Scope Q_scope.
Local Open Scope nat_scope.

Definition QcPoly := @poly Qc.

Definition show_vecs (o : option (list (list Qc))) : list Z :=
  showQc (match o with None => None | Some l => Some (concat l) end).

(* the specification: (u, u', ..., u^(k-1+num)) of the formal series solution *)
Definition c10_spec (k d : nat) (f : list QcPoly) (inits : list (list Qc)) (t : Qc) (num : nat)
  : list Z :=
  show_vecs (Some (spec_derivs (mkVF k d f) t inits num)).

(* alg: 0 padded_scan, 1 unroll, 2 via_jvp, 3 doubling (num = num_doublings) *)
Definition c10_alg (alg : nat) (v : @vfield Qc) (inits : list (list Qc)) (t : Qc) (num : nat)
  : option (list (list Qc)) :=
  match alg with
  | 0 => padded_scan_model v inits t num
  | 1 => unroll_model v inits t num
  | 2 => via_jvp_model v inits t num
  | _ => doubling_model v inits t num
  end.

Definition c10_model (alg k d : nat) (f : list QcPoly) (inits : list (list Qc)) (t : Qc)
           (num : nat) : list Z :=
  show_vecs (c10_alg alg (mkVF k d f) inits t num).

(* the same through the pytree wrapper: [shape] is the tree of natural
   coordinate indices, inits / outputs are in natural coordinates *)
Definition c10_tree (alg k d : nat) (f : list QcPoly) (shape : ptree nat)
           (inits : list (list Qc)) (t : Qc) (num : nat) : list Z :=
  show_vecs (pytree_expand (fun v i t' => c10_alg alg v i t' num) (mkVF k d f) shape inits t).
