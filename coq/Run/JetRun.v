(* Executable Qc instances of Model/Jet.v, Model/JetLift.v, Spec/ODESeries.v and
   of the linearisations of Model/Solver.v, with encoders for the C10 / C11
   correspondence harnesses (harness/c10.py, harness/c11.py).  Vectors of
   Taylor coefficients are flattened order-major (coefficient 0 first). *)
From Coq Require Import List ZArith QArith Qcanon Bool.
From PD Require Import Base.Field Base.Matrix Base.Solve Model.Poly Base.Series
  Spec.ODESeries Model.Jet Model.Gauss Model.Prior Model.Solver Run.Show.
Import ListNotations.
Local Close Scope Qc_scope.
Local Close Scope Q_scope.
Local Open Scope nat_scope.

Definition QcPoly := @poly Qc.

Definition show_vecs (o : option (list (list Qc))) : list Z :=
  showQc (match o with None => None | Some l => Some (concat l) end).

(* the specification: (u, u', ..., u^(k-1+num)) of the formal series solution *)
Definition c10_spec (k d : nat) (f : list QcPoly) (inits : list (list Qc)) (t : Qc) (num : nat)
  : list Z :=
  show_vecs (Some (spec_derivs (mkVF k d f) t inits num)).

(* alg: 0 padded_scan, 1 unroll, 2 via_jvp (as coded now: t is a primal with tangent one),
   3 doubling (num = num_doublings), 4 via_jvp before the repair (t closed over) *)
Definition c10_alg (alg : nat) (v : @vfield Qc) (inits : list (list Qc)) (t : Qc) (num : nat)
  : option (list (list Qc)) :=
  match alg with
  | 0 => padded_scan_model v inits t num
  | 1 => unroll_model v inits t num
  | 2 => via_jvp_fixed_model v inits t num
  | 3 => doubling_model v inits t num
  | _ => via_jvp_model v inits t num
  end.

Definition c10_model (alg k d : nat) (f : list QcPoly) (inits : list (list Qc)) (t : Qc)
           (num : nat) : list Z :=
  show_vecs (c10_alg alg (mkVF k d f) inits t num).

(* the same through the pytree wrapper: [shape] is the tree of natural
   coordinate indices, inits / outputs are in natural coordinates *)
Definition c10_tree (alg k d : nat) (f : list QcPoly) (shape : ptree nat)
           (inits : list (list Qc)) (t : Qc) (num : nat) : list Z :=
  show_vecs (pytree_expand (fun v i t' => c10_alg alg v i t' num) (mkVF k d f) shape inits t).

(* ================================================================= C11 *)
From PD Require Import Model.JetLift.

(* plain (A, b, Q) encoding of a conditional, as Run/GenRun.v enc_cond (copied so that this
   file does not depend on GenRun.vo) *)
Definition flat_mat_q (n m : nat) (A : @mat Qc) : list Qc :=
  flat_map (fun i => map (mget A i) (seq 0 m)) (seq 0 n).
Definition enc_cond_q (nin nout c : nat) (K : @cond Qc) : list Qc :=
  let P := c_plain nin nout c K in
  flat_mat_q nout nin (c_A P) ++ flat_mat_q nout c (c_b P) ++ flat_mat_q nout nout (c_Q P).

Definition QcJF := @jetfun Qc.
Definition jfp (k d : nat) (ps : list QcPoly) : QcJF := jf_of_polys k d ps.

(* fun(jet_coords=coords, t=t) *)
Definition c11_eval (k d : nat) (ps : list QcPoly) (coords : list (list Qc)) (t : Qc) : list Z :=
  showQc (jf_eval (jfp k d ps) coords t).

(* lifted(jet_coords=coords, t=t): [0] = ValueError, else the outputs order by order *)
Definition c11_lift (k d : nat) (ps : list QcPoly) (lift_by : Z) (coords : list (list Qc)) (t : Qc)
  : list Z :=
  show_vecs (lift (jfp k d ps) lift_by coords t).

(* the specification: D_t^l f, l = 0..m, at the coefficients (Spec/ODESeries.v lift_spec) *)
Definition c11_lift_spec (k d : nat) (ps : list QcPoly) (m : nat) (coords : list (list Qc)) (t : Qc)
  : list Z :=
  show_vecs (Some (lift_spec k d ps m coords t)).

(* (num_tcoeffs_in_args, tcoeff_indices_output) advertised by ode.jet_lift(lift_by) *)
Definition c11_ode_signature (k idx : nat) (lift_by : Z) : list Z :=
  let '(k', out) := ode_lift_signature k idx lift_by in k' :: map Z.of_nat out.
Definition c11_ode_lift_max_by (idx : nat) (num_tcoeffs : Z) : list Z :=
  [ode_lift_max_by idx num_tcoeffs].
Definition c11_res_lift_max_by (k : nat) (num_tcoeffs : Z) : list Z :=
  [res_lift_max_by k num_tcoeffs; res_lift_signature k (res_lift_max_by k num_tcoeffs)].

(* residual_from_ode(ode).jet_lift(lift_by) *)
Definition c11_res_from_ode (k d : nat) (f : list QcPoly) (lift_by : Z) (coords : list (list Qc))
           (t : Qc) : list Z :=
  show_vecs (lift (residual_from_ode_jf (jfp k d f)) lift_by coords t).
(* residual_from_ode(ode.jet_lift(lift_by)) *)
Definition c11_res_from_lifted (k d : nat) (f : list QcPoly) (lift_by : Z)
           (coords : list (list Qc)) (t : Qc) : list Z :=
  show_vecs (residual_from_lifted (jfp k d f) lift_by coords t).

(* residual_from_stack(r1.jet_lift(m1), r2, ...): parts = (k, polys, Some lift_by | None = unlifted);
   output = num_tcoeffs_in_args of the stack followed by the flattened values *)
Definition c11_stack (d : nat) (parts : list (nat * list QcPoly * option Z)) (coords : list (list Qc))
           (t : Qc) : list Z :=
  let rs := map (fun p : nat * list QcPoly * option Z =>
                   match snd p with
                   | Some m => lifted_part (jfp (fst (fst p)) d (snd (fst p))) m
                   | None => plain_part (jfp (fst (fst p)) d (snd (fst p)))
                   end) parts in
  let st := residual_from_stack rs in
  Z.of_nat (rf_k st) :: show_vecs (rf_eval st coords t).

(* constraint.linearize(rv, state, damp=, t=): kind 0 dense, 1 isotropic, 2 block-diagonal;
   lin 0 TS0, 1 TS1; mean = the q+1 Taylor coefficient vectors; plain (A, b, Q) per block *)
Definition c11_linearize (kind lin q d k : nat) (f : list QcPoly) (damp2 : Qc)
           (mean : list (list Qc)) (t : Qc) : list Z :=
  let fk := match kind with 0 => Dense | 1 => Iso | _ => BlockDiag end in
  let s := mkShape fk q d in
  let cf := fun i a => vget (nth i mean []) a in
  let m := match fk with
           | Dense => [mkN (mk (S q * d) 1 (fun r _ => cf (r / d) (r mod d))) []]
           | Iso => [mkN (mk (S q) d (fun i a => cf i a)) []]
           | BlockDiag => map (fun a => mkN (mk (S q) 1 (fun i _ => cf i a)) []) (seq 0 d)
           end in
  let l := match lin with 0 => TS0 | _ => TS1 end in
  showQc (Some (flat_map (enc_cond_q (sh_N s) (sh_nout s) (sh_c s))
                         (linearize s (mkOde k f) l damp2 m t))).
