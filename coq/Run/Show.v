(* Printers used by the correspondence harness: results are flattened to lists
   of integers so that the harness parses one line per case. *)
From Coq Require Import List ZArith QArith Qcanon.
Import ListNotations.

Definition zq (q : Q) : list Z := let r := Qred q in [Qnum r; Zpos (Qden r)].
Definition showQ (o : option (list Q)) : list Z :=
  match o with None => [0%Z] | Some l => 1%Z :: flat_map zq l end.
Definition showQc (o : option (list Qc)) : list Z :=
  match o with None => [0%Z] | Some l => 1%Z :: flat_map (fun x => zq (this x)) l end.
