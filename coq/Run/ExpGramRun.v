(* Run functions of the Pade/Legendre/doubling model (Model/ExpGram.v) for the
   C09 correspondence check: a field-polymorphic section (extracted to OCaml by
   Extract/ExtractExpGram.v and run over Zarith rationals) and its Qc instance
   (evaluated by vm_compute).  The tables are the ones translated from the source
   (Generated/ExpGramConstants.v). *)
From Coq Require Import List Arith Bool ZArith QArith Qcanon.
From PD Require Import Base.Field Base.Matrix Base.Solve Model.Gauss Model.Prior Model.ExpGram
  Generated.ExpGramConstants Run.Show.
Import ListNotations.
Local Close Scope Qc_scope.
Local Close Scope Q_scope.
Local Open Scope nat_scope.

Section ExpGramRun.
  Context {F : Type} `{FieldOps F}.
  Local Open Scope F_scope.
  Local Notation mat := (@mat F).
  Local Notation vec := (@vec F).

  (* same encodings as Run/GenRun.v (not imported: it would tie this file to Model/Solver.v) *)
  Definition flat_mat (n m : nat) (A : mat) : list F :=
    flat_map (fun i => map (mget A i) (seq 0 m)) (seq 0 n).
  (* a conditional is reported in PLAIN form (after preconditioner_apply) *)
  Definition enc_cond (nin nout c : nat) (K : @cond F) : list F :=
    let P := c_plain nin nout c K in
    flat_mat nout nin (c_A P) ++ flat_mat nout c (c_b P) ++ flat_mat nout nout (c_Q P).

  Definition fQ (x : Q) : F := fZ (Qnum x) / fpos (Qden x).
  Definition tableQ (p : nat) (b : list Q) (C : list (list Q)) (nr : list Q) : @pl_table F :=
    mkPL p (map fQ b) (map (map fQ) C) (map fQ nr).

  (* the PadeLegendre objects offered by gram_util, by order *)
  Definition src_table (order : nat) : option (@pl_table F) :=
    match order with
    | 3 => Some (tableQ src_q_3 src_pade_3 src_legendre_3 src_legendre_norms_3)
    | 5 => Some (tableQ src_q_5 src_pade_5 src_legendre_5 src_legendre_norms_5)
    | 7 => Some (tableQ src_q_7 src_pade_7 src_legendre_7 src_legendre_norms_7)
    | 9 => Some (tableQ src_q_9 src_pade_9 src_legendre_9 src_legendre_norms_9)
    | 13 => Some (tableQ src_q_13 src_pade_13 src_legendre_13 src_legendre_norms_13)
    | _ => None
    end%nat.

  Definition enc_pair (n : nat) (r : option (mat * mat)) : option (list F) :=
    match r with
    | None => None
    | Some (Phi, Gam) => Some (flat_mat n n Phi ++ flat_mat n n Gam)
    end.

  (* exp_gram_cholesky(pade_legendre=order)(A, B) with num doublings: e^A and U U^T *)
  Definition g_expgram (order n mB num : nat) (A B : mat) : option (list F) :=
    match src_table order with
    | None => None
    | Some T => enc_pair n (exp_gram n mB T num A B)
    end.
  (* one call of _exp_gram_cholesky_double on (eA, U U^T) *)
  Definition g_expgram_double (n : nat) (Phi Gam : mat) : option (list F) :=
    enc_pair n (Some (eg_double n (Phi, Gam))).
  (* order 3 and 13 as literally written vs the generic model: D, N and the blocks *)
  Definition g_expgram_variants (n mB : nat) (A B : mat) : option (list F) :=
    match src_table 3, src_table 13 with
    | Some T3, Some T13 =>
      Some (flat_map (flat_mat n mB) (leg_blocks n mB 3 (pl_leg T3) A B)
            ++ flat_map (flat_mat n mB) (leg_blocks3 n mB (pl_leg T3) A B)
            ++ flat_mat n n (pade_V n 13 (pl_pade T13) A) ++ flat_mat n n (pade_U n 13 (pl_pade T13) A)
            ++ flat_mat n n (pade13_V n (pl_pade T13) A) ++ flat_mat n n (pade13_U n (pl_pade T13) A))
    | _, _ => None
    end.

  (* cholesky_hilbert(n, K): squared entries of the factor, then its Gram matrix *)
  Definition g_kahan (K n : nat) : option (list F) :=
    Some (flat_mat n n (kahan_L2 K n) ++ flat_mat n n (kahan_gram K n)).
  (* system_matrices_1d_iwp(q): A_1d = flipped Pascal, Gram of Q_1d *)
  Definition g_iwp_1d (q : nat) : option (list F) :=
    Some (flat_mat (S q) (S q) (pascal_flip q) ++ flat_mat (S q) (S q) (kahan_gram_flip q)
          ++ flat_mat (S q) (S q) (hilbert_flip q)).

  (* bottom blocks obtained as Jacobians of the [autonomous] functions *)
  Definition g_bottom_ou (q d : nat) (Lop : mat) : option (list F) :=
    Some (flat_mat (S q * d) (S q * d) (drift_matrix q d (jac_of q d (ou_autonomous d Lop)))).
  Definition g_bottom_matern (q d : nat) (z : F) : option (list F) :=
    Some (flat_mat (S q * d) (S q * d) (drift_matrix q d (jac_of q d (matern_autonomous d z)))).

  (* DenseExponential.transition(dt, output_scale).preconditioner_apply() *)
  Definition g_exp_transition (order q d num : nat) (Adrift : mat) (base : vec) (dt out2 : F)
    : option (list F) :=
    match src_table order with
    | None => None
    | Some T =>
      match exp_transition q d T num Adrift base (precon q dt) (precon_inv q dt) dt out2 with
      | None => None
      | Some K => Some (enc_cond (S q * d) (S q * d) 1 K)
      end
    end.
End ExpGramRun.

(* ---- Qc instance (vm_compute) ---- *)
Definition eg_run order n mB num A B := showQc (@g_expgram Qc _ order n mB num A B).
Definition eg_double_run n Phi Gam := showQc (@g_expgram_double Qc _ n Phi Gam).
Definition eg_variants_run n mB A B := showQc (@g_expgram_variants Qc _ n mB A B).
Definition kahan_run K n := showQc (@g_kahan Qc _ K n).
Definition iwp_1d_run q := showQc (@g_iwp_1d Qc _ q).
Definition bottom_ou_run q d Lop := showQc (@g_bottom_ou Qc _ q d Lop).
Definition bottom_matern_run q d z := showQc (@g_bottom_matern Qc _ q d z).
Definition exp_transition_run order q d num Adrift base dt out2 :=
  showQc (@g_exp_transition Qc _ order q d num Adrift base dt out2).
