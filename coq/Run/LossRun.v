(* C12: generic (field-polymorphic) run functions of the loss model and their Qc
   instances.  The generic functions are also extracted to OCaml
   (Extract/ExtractLoss.v) for volume. *)
From Coq Require Import List ZArith QArith Qcanon Bool.
From PD Require Import Base.Field Base.Matrix Base.Solve Model.Gauss Model.Poly
  Model.Prior Model.Solver Model.Loss Run.Show Run.GenRun.
Import ListNotations.

Section LossGen.
  Context {F : Type} `{FieldOps F}.
  Local Open Scope F_scope.

  Definition enc_dterms (l : list (@dterm F)) : list F :=
    flat_map (fun t => [d_maha t; d_det t]) l.

  (* a rational valuation of density terms, used only to EXECUTE the
     accumulating recursion (evaluate_lml with its running mean / sum) on the
     case inputs; the harness recomputes mean / sum of the same valuation over
     the reported terms and must find exactly this number *)
  Definition surrogate (t : @dterm F) : F := d_maha t + (1 + 1) * d_det t.

  (* output: surrogate loss value, then (maha, det) for every term in
     processing order (terminal time point first), blocks inner *)
  Definition g_lml_timeseries (s : shape) (i : nat) (avg : bool)
             (us : list (list (@mat F))) (post : @markov_seq F) (std2s : list (list F))
    : option (list F) :=
    match loss_lml_timeseries_terms ginv s i us post std2s,
          loss_lml_timeseries ginv surrogate avg s i us post std2s with
    | Some ts, Some v => Some (v :: flat_map enc_dterms ts)
    | _, _ => None
    end.

  Definition g_lml_terminal (s : shape) (i : nat) (u : list (@mat F))
             (marginals : list (@normal F)) (std2 : list F) : option (list F) :=
    match loss_lml_terminal_terms ginv s i u marginals std2,
          loss_lml_terminal_values ginv surrogate s i u marginals std2 with
    | Some ts, Some v => Some (v :: enc_dterms ts)
    | _, _ => None
    end.

  (* remove_filtering_distributions: the retained marginal *)
  Definition g_remove_filtering (s : shape) (post : @markov_seq F) : option (list F) :=
    match remove_filtering_distributions post with
    | Some (mkMS (Single m) conds) => Some (fnat (length conds) :: enc_fnormal s m)
    | _ => None
    end.
End LossGen.

(* Qc instances (constructor aliases so that case terms need no annotations) *)
Definition mkMSq := @mkMS Qc.
Definition Singleq := @Single Qc.
Definition Stackedq := @Stacked Qc.
Definition mkNq := @mkN Qc.
Definition mkCq := @mkC Qc.

Definition lml_timeseries_run s i avg us post std2s :=
  showQc (@g_lml_timeseries Qc _ s i avg us post std2s).
Definition lml_terminal_run s i u marginals std2 :=
  showQc (@g_lml_terminal Qc _ s i u marginals std2).
Definition remove_filtering_run s post := showQc (@g_remove_filtering Qc _ s post).
