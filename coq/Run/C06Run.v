(* Executable instance of the C06 machine with scripted oracles, mirrored by
   harness/c06_impl.py (the scripted Solver / ErrorEstimator objects driven
   through the real solve_adaptive_save_at). *)
From Coq Require Import List ZArith QArith Bool.
From PD Require Import Model.Control Generated.Constants Run.Show.
Import ListNotations.
Local Open Scope Q_scope.

Definition xS := (Q * nat)%type.
Definition x_time (s : xS) : Q := fst s.
Definition x_n (s : xS) : nat := snd s.
Definition x_step (s : xS) (dt : Q) : xS := (Qred (fst s + dt), Datatypes.S (snd s)).
Definition x_interp (t : Q) (a b : xS) : xS * (xS * xS) := ((t, snd b), (b, (t, snd a))).
Definition x_interp_at (t : Q) (a b : xS) : xS * (xS * xS) := (b, (b, (fst b, snd a))).

(* piecewise-constant admissible step size h(t) *)
Fixpoint prof_at (h0 : Q) (prof : list (Q * Q)) (t : Q) : Q :=
  match prof with
  | [] => h0
  | (tk, hk) :: r => if Qle_bool tk t then prof_at hk r t else h0
  end.

(* mode 0: pow = 2^j, j = max { j in -3..3 | dt*2^j <= h } (else 2^-4): exact in floats
   mode 1: pow = h / dt
   mode 2: pow = (h / dt)^2 *)
Definition quant_pow (h dt : Q) : Q :=
  if Qle_bool (dt * 8) h then 8 else
  if Qle_bool (dt * 4) h then 4 else
  if Qle_bool (dt * 2) h then 2 else
  if Qle_bool dt h then 1 else
  if Qle_bool (dt * (1#2)) h then 1#2 else
  if Qle_bool (dt * (1#4)) h then 1#4 else
  if Qle_bool (dt * (1#8)) h then 1#8 else 1#16.

Definition x_est (mode : nat) (h0 : Q) (prof : list (Q * Q))
           (e : Q) (a b : xS) (dt : Q) : Q * Q :=
  let h := prof_at h0 prof (fst a) in
  let pow := match mode with
             | O => quant_pow h dt
             | Datatypes.S O => Qred (h / dt)
             | _ => Qred ((h / dt) * (h / dt))
             end in
  (* the error state must belong to the state we step from *)
  let pow := if Qeq_bool e (-1) || Qeq_bool e (fst a) then pow else 1 # 1024 in
  (pow, fst b).

Definition red_pair (p : Q * Q) : Q * Q := (Qred (fst p), Qred (snd p)).

Definition enc_event (e : event) : list Q :=
  match e with
  | EvAttempt t1 tf dt pow dn => [1; t1; tf; dt; pow; dn]
  | EvAccept tn => [2; tn]
  | EvSkip t1 => [3; t1]
  | EvBeyond t1 lo hi => [4; t1; lo; hi]
  | EvAt t1 lo hi => [5; t1; lo; hi]
  | EvReport t1 ts n => [6; t1; ts; inject_Z (Z.of_nat n)]
  end.

Definition c06_run (ctrl : nat) (p : ctrl_params) (clip : bool) (eps : Q)
           (mode : nat) (h0 : Q) (prof : list (Q * Q)) (t0 dt0 : Q)
           (cps : list Q) : list Z :=
  let capply := match ctrl with
                | O => fun dt c pow => red_pair (integral_apply p dt c pow)
                | _ => fun dt c pow => red_pair (pi_apply pw_int p dt c pow)
                end in
  let cinit := match ctrl with O => 0 | _ => src_pi_memory_init end in
  let r := run xS Q x_time x_n x_step (x_est mode h0 prof) x_interp x_interp_at
               capply cinit (-1) clip eps src_acc_init 600 80 (t0, O) dt0 cps in
  showQ (match r with
         | None => None
         | Some (sols, sN) =>
           Some (inject_Z (Z.of_nat (length sols))
                 :: flat_map (fun s : xS => [fst s; inject_Z (Z.of_nat (snd s))]) sols
                 ++ [fst (ts_step_from _ _ sN);
                     inject_Z (Z.of_nat (snd (ts_step_from _ _ sN)));
                     ts_dt _ _ sN]
                 ++ flat_map enc_event (rev (ts_trace _ _ sN)))
         end).
