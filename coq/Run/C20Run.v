(* Executable entry points of the C20 model for the correspondence harness
   (harness/c20.py).  Every function returns [construct; use; wf]:
     construct / use : 0 Accept, 1 TypeError, 2 ValueError, 3 other exception,
                       4 Accept + suitability warning, 9 stage not modelled
     wf              : 1 if the declarative specification (Spec/Shapes.v, decided
                       by the reflected booleans of Proofs/ValidateProofs.v) calls
                       the argument set well-formed, else 0. *)
From Coq Require Import List ZArith Bool.
From PD Require Import Model.Validate Spec.Shapes Proofs.ValidateProofs.
Import ListNotations.
Local Open Scope Z_scope.

Definition vcode (v : verdict) : Z :=
  match v with Accept => 0 | TypeErr => 1 | ValueErr => 2 | OtherErr => 3 end.
Definition bcode (b : bool) : Z := if b then 1 else 0.

Definition c20_verify (x : aval) : list Z :=
  [vcode (verify x); 9; bcode (wf_tcoeffs_b x)].

Definition c20_prior_iwp (f : fact) (tc ie sc : aval) : list Z :=
  [vcode (prior_iwp f tc ie sc); 9; bcode (wf_prior_iwp_b f tc ie sc)].

Definition c20_prior_iwp_diffuse (f : fact) (mean std sc : aval) : list Z :=
  [vcode (prior_iwp_diffuse f mean std sc); 9; bcode (wf_prior_diffuse_b f mean std sc)].

Definition c20_prior_exp (f : fact) (ode tc ie sc : aval) : list Z :=
  [vcode (prior_exp f ode tc ie sc); 9; bcode (wf_prior_exp_b f ode tc ie sc)].

Definition c20_prior_exp_builtin (f : fact) (tc ie sc : aval) : list Z :=
  [vcode (prior_exp_builtin f tc ie sc); 9;
   bcode (match f with Dense => has_float tc && wf_prior_iwp_b Dense tc ie sc | _ => false end)].

Definition c20_prior_matern (f : fact) (tc ie sc : aval) : list Z :=
  [vcode (prior_matern f tc ie sc); 9; bcode (wf_prior_matern_b f tc ie sc)].

Definition c20_transition (f : fact) (tc cal : aval) : list Z :=
  [vcode (transition_check (cal_shape f tc) cal); 9; bcode (wf_cal_b (cal_shape f tc) cal)].

(* which: 0 constraint_ode_ts0, 1 constraint_ode_ts1, 2 constraint_residual;
   matfree = true: state_space_model_matfree (ts0 is not implemented there) *)
Definition c20_constraint (which : nat) (matfree : bool) (o : aval) : list Z :=
  match which with
  | O => if matfree then [3; 9; 0]
         else [vcode (gate_jetode o); 9; bcode (is_jetode_b o)]
  | S O => [vcode (gate_jetode o); 9; bcode (is_jetode_b o)]
  | _ => [vcode (gate_jetresidual o); 9; bcode (is_jetresidual_b o)]
  end.

(* gated = false: jetexpand_ode_doubling_unroll *)
Definition c20_jetexpand (gated : bool) (o : aval) : list Z :=
  if gated then [vcode (gate_jetode o); 9; bcode (is_jetode_b o)]
  else [vcode (jetexpand_doubling o); 9; bcode (match o with AJetOde 1 => true | _ => false end)].

Definition c20_lift_residual (k n : nat) (lb : option Z) : list Z :=
  match lb with
  | None => [vcode (lift_construct lb); 9; 0]
  | Some z => [0; vcode (lift_residual_use k n z); bcode (lift_in_range_b k n z)]
  end.

Definition c20_lift_ode (k n : nat) (lb : option Z) : list Z :=
  match lb with
  | None => [vcode (lift_construct lb); 9; 0]
  | Some z => [0; vcode (lift_ode_use k n z); bcode (lift_in_range_b (S k) n z)]
  end.

Definition c20_loss_terminal (std expected : aval) : list Z :=
  [vcode (loss_std_check std expected); 9; bcode (wf_loss_std_b std expected)].

Definition c20_loss_timeseries (post std expected : aval) : list Z :=
  [vcode (loss_timeseries_check post std expected); 9;
   bcode (is_markov_b post && wf_loss_std_b std expected)].

Definition c20_error_residual (f : fact) (m d : nat) : list Z :=
  [0; vcode (error_residual_check f m d); bcode (Nat.eqb m d)].

Definition c20_matfree (S n : nat) : list Z :=
  [0; vcode (matfree_check S n); bcode (Nat.leb n S)].

Definition c20_warn (s : strategy) (r : routine) : list Z :=
  [if warns s r then 4 else 0; 9; bcode (negb (unsuitable_b s r))].
