(* Extraction of the field-polymorphic model to OCaml (for volume in the
   correspondence checks).  Directives used: ExtrOcamlBasic ONLY (bool, option,
   unit, list, prod, sumbool/sumor to OCaml natives).  nat, positive, Z stay
   the extracted inductive types.  The scalar field is NOT extracted: the
   OCaml driver supplies a FieldOps dictionary over Zarith rationals
   (harness/ocaml/helpers.ml) -- that dictionary is part of the trusted base and
   is cross-checked against the in-Coq Qc evaluation on every run. *)
From Coq Require Import ExtrOcamlBasic.
From PD Require Import Base.Field Base.Matrix Base.Solve Model.Gauss Model.Poly
  Model.Prior Model.Solver Model.Error Spec.RTS Run.GenRun.
Extraction Language OCaml.
Extraction "model.ml" g_c08 g_c09_transition g_c09_merge g_c09_closed g_fixed_grid
  g_step g_init g_finalize g_spec_smooth g_error g_interp g_spec_union mk_state mkN mkC mkCfg mkShape mkOde.
