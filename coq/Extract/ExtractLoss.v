(* C12: extraction of the field-polymorphic loss model to OCaml (volume in the
   correspondence check).  Same directives as Extract/Extract.v:
   ExtrOcamlBasic ONLY; nat / positive / Z stay extracted inductive types; the
   scalar field is NOT extracted, the driver supplies a FieldOps dictionary
   over Zarith rationals (harness/ocaml/helpers_loss.ml), which is cross-checked
   against the in-Coq Qc evaluation (Run/LossRun.v) on every run. *)
From Coq Require Import ExtrOcamlBasic.
From PD Require Import Base.Field Base.Matrix Base.Solve Model.Gauss Model.Poly
  Model.Prior Model.Solver Model.Loss Run.GenRun Run.LossRun.
Extraction Language OCaml.
Extraction "model_loss.ml" g_lml_timeseries g_lml_terminal g_remove_filtering
  mkN mkC mkShape mkMS Single Stacked.
