(* Extraction of the Pade/Legendre/doubling run functions to OCaml (same
   conventions as Extract/Extract.v: ExtrOcamlBasic only; the scalar field is a
   FieldOps dictionary over Zarith rationals supplied by
   harness/ocaml/helpers_expgram.ml and cross-checked against the in-Coq Qc
   evaluation on every run of harness/c09.py). *)
From Coq Require Import ExtrOcamlBasic.
From PD Require Import Base.Field Base.Matrix Base.Solve Model.Gauss Model.Prior Model.ExpGram
  Generated.ExpGramConstants Run.ExpGramRun.
Extraction Language OCaml.
Extraction "model_expgram.ml" g_expgram g_expgram_double g_expgram_variants g_kahan g_iwp_1d
  g_bottom_ou g_bottom_matern g_exp_transition.
