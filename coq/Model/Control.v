(* Model of probdiffeq/_ivpsolve/solvers_via_adaptive_steps.py (RejectionLoop,
   solve_adaptive_save_at.advance, the outer scan) and of
   probdiffeq/_ivpsolve/controllers.py, over exact rationals Q.

   Definitions only (no proofs): the model must still run when a proof breaks.

   The solver, the error estimator and the real-exponent power function are
   ORACLES (Section variables).  Every event of the machine is appended to a
   trace that is threaded through the (linear) state, so that theorems can
   speak about complete histories and the correspondence check can compare the
   trace with the call log of the real implementation. *)
From Coq Require Import List QArith Bool.
Import ListNotations.
Local Open Scope Q_scope.

Definition qltb (a b : Q) : bool := negb (Qle_bool b a).
Definition qmin (a b : Q) : Q := if Qle_bool a b then a else b.
Definition qmax (a b : Q) : Q := if Qle_bool a b then b else a.

(* ---------------------------------------------------------------- events *)
Inductive event : Type :=
| EvAttempt (t1 tfrom dt pow dtnext : Q)
    (* step_attempt while advancing to checkpoint t1: solver.step from time
       tfrom with (clipped) step dt, error power pow, controller proposes
       dtnext *)
| EvAccept (tnew : Q)                 (* step_extract_timestep_state *)
| EvSkip (t1 : Q)                     (* interp_skip *)
| EvBeyond (t1 tlo thi : Q)           (* interp_beyond_t1: interpolate_fwd *)
| EvAt (t1 tlo thi : Q)               (* interp_at_t1: interpolate_fwd_at_t1 *)
| EvReport (t1 tsol : Q) (n : nat).   (* advance() returns for checkpoint t1:
                                         solution time and its num_steps *)

Section Machine.
  Variable S : Type.            (* solver state (ProbabilisticSolution) *)
  Variable E : Type.            (* error-estimator state *)

  (* oracles *)
  Variable time : S -> Q.
  Variable nsteps : S -> nat.                         (* .num_steps *)
  Variable sstep : S -> Q -> S.                       (* solver.step *)
  Variable est : E -> S -> S -> Q -> Q * E.           (* estimate_error_norm *)
  Variable interp : Q -> S -> S -> S * (S * S).       (* interpolate_fwd:
                                   (solution, (step_from, interp_from)) *)
  Variable interp_at : Q -> S -> S -> S * (S * S).    (* interpolate_fwd_at_t1 *)
  Variable capply : Q -> Q -> Q -> Q * Q.  (* control.apply dt state pow *)
  Variable cinit : Q.
  Variable einit : E.

  (* configuration *)
  Variable clip_dt : bool.
  Variable eps : Q.
  Variable acc_init : Q.        (* acceptance_factor_init, read from source *)

  Record TS : Type := mkTS {
    ts_dt : Q; ts_step_from : S; ts_interp_from : S; ts_control : Q;
    ts_err : E; ts_trace : list event (* newest first *) }.

  Record RS : Type := mkRS {
    rs_dt : Q; rs_acc : Q; rs_control : Q; rs_proposed : S; rs_step_from : S;
    rs_err_step_from : E; rs_err_proposed : E; rs_trace : list event }.

  (* RejectionLoop.init *)
  Definition ts_init (s0 : S) (dt0 : Q) : TS :=
    mkTS dt0 s0 s0 cinit einit [].

  (* RejectionLoop.step_init_loopstate (proposed / error_proposed are
     "irrelevant" placeholders in the code; any value of the type will do) *)
  Definition step_init_loopstate (s : TS) : RS :=
    mkRS (ts_dt s) acc_init (ts_control s) (ts_step_from s) (ts_step_from s)
         (ts_err s) (ts_err s) (ts_trace s).

  (* RejectionLoop.step_attempt *)
  Definition step_attempt (t1 : Q) (r : RS) : RS :=
    let dt := if clip_dt then qmin (rs_dt r) (t1 - time (rs_step_from r))
              else rs_dt r in
    let proposed := sstep (rs_step_from r) dt in
    let '(pow, es) := est (rs_err_step_from r) (rs_step_from r) proposed dt in
    let '(dtn, c) := capply dt (rs_control r) pow in
    mkRS dtn pow c proposed (rs_step_from r) (rs_err_step_from r) es
         (EvAttempt t1 (time (rs_step_from r)) dt pow dtn :: rs_trace r).

  (* while acceptance_factor_proposed < 1.0 *)
  Fixpoint rej_loop (fuel : nat) (t1 : Q) (r : RS) : option RS :=
    if qltb (rs_acc r) 1 then
      match fuel with
      | O => None
      | Datatypes.S f => rej_loop f t1 (step_attempt t1 r)
      end
    else Some r.

  (* RejectionLoop.step_extract_timestep_state *)
  Definition step_extract (r : RS) : TS :=
    mkTS (rs_dt r) (rs_proposed r) (rs_step_from r) (rs_control r)
         (rs_err_proposed r) (EvAccept (time (rs_proposed r)) :: rs_trace r).

  (* RejectionLoop.step *)
  Definition rstep (fuel : nat) (t1 : Q) (s : TS) : option TS :=
    option_map step_extract (rej_loop fuel t1 (step_init_loopstate s)).

  Definition interp_skip (t1 : Q) (s : TS) : S * TS :=
    (ts_step_from s,
     mkTS (ts_dt s) (ts_step_from s) (ts_interp_from s) (ts_control s)
          (ts_err s) (EvSkip t1 :: ts_trace s)).

  Definition interp_beyond (t1 : Q) (s : TS) : S * TS :=
    let '(sol, (sf, ifr)) := interp t1 (ts_interp_from s) (ts_step_from s) in
    (sol, mkTS (ts_dt s) sf ifr (ts_control s) (ts_err s)
           (EvBeyond t1 (time (ts_interp_from s)) (time (ts_step_from s))
              :: ts_trace s)).

  Definition interp_at_t1 (t1 : Q) (s : TS) : S * TS :=
    let '(sol, (sf, ifr)) := interp_at t1 (ts_interp_from s) (ts_step_from s) in
    (sol, mkTS (ts_dt s) sf ifr (ts_control s) (ts_err s)
           (EvAt t1 (time (ts_interp_from s)) (time (ts_step_from s))
              :: ts_trace s)).

  (* RejectionLoop.loop *)
  Definition loop (fuel : nat) (t1 : Q) (s0 : TS) : option (S * TS) :=
    let is_before := qltb (time (ts_step_from s0) + eps) t1 in
    match (if is_before then rstep fuel t1 s0 else Some s0) with
    | None => None
    | Some s =>
      let is_before := qltb (time (ts_step_from s) + eps) t1 in
      let is_after := qltb (t1 + eps) (time (ts_step_from s)) in
      Some (if is_before then interp_skip t1 s
            else if is_after then interp_beyond t1 s
            else interp_at_t1 t1 s)
    end.

  (* solve_adaptive_save_at.advance: do { loop } while step_from.t + eps < t_next *)
  Fixpoint advance (fuel : nat) (fuel_rej : nat) (t_next : Q) (s : TS)
    : option (S * TS) :=
    match fuel with
    | O => None
    | Datatypes.S f =>
      match loop fuel_rej t_next s with
      | None => None
      | Some (sol, s') =>
        if qltb (time (ts_step_from s') + eps) t_next
        then advance f fuel_rej t_next s'
        else Some (sol,
                   mkTS (ts_dt s') (ts_step_from s') (ts_interp_from s')
                        (ts_control s') (ts_err s')
                        (EvReport t_next (time sol) (nsteps sol) :: ts_trace s'))
      end
    end.

  (* flow.scan(advance, init, xs = save_at[1:]) *)
  Fixpoint scan (fuel fuel_rej : nat) (cps : list Q) (s : TS)
    : option (list S * TS) :=
    match cps with
    | [] => Some ([], s)
    | t :: rest =>
      match advance fuel fuel_rej t s with
      | None => None
      | Some (sol, s') =>
        match scan fuel fuel_rej rest s' with
        | None => None
        | Some (sols, s'') => Some (sol :: sols, s'')
        end
      end
    end.

  Definition run (fuel fuel_rej : nat) (s0 : S) (dt0 : Q) (cps : list Q) :=
    scan fuel fuel_rej cps (ts_init s0 dt0).
End Machine.

(* ------------------------------------------------------------ controllers *)
Record ctrl_params : Type := mkCP {
  cp_safety : Q; cp_fmin : Q; cp_fmax : Q; cp_eI : Q; cp_eP : Q }.

Definition clip_factor (p : ctrl_params) (ratio : Q) : Q :=
  qmax (cp_fmin p) (qmin ratio (cp_fmax p)).

(* control_integral.apply *)
Definition integral_apply (p : ctrl_params) (dt c pow : Q) : Q * Q :=
  (clip_factor p (cp_safety p * pow) * dt, c).

(* control_proportional_integral.apply; pw x e models x ** e *)
Definition pi_apply (pw : Q -> Q -> Q) (p : ctrl_params) (dt prev pow : Q)
  : Q * Q :=
  let gI := pw pow (cp_eI p) in
  let gP := pw (pow / prev) (cp_eP p) in
  (clip_factor p (cp_safety p * gI * gP) * dt,
   if Qle_bool 1 pow then pow else prev).

(* integer exponents (executable instance of the power oracle) *)
Definition pw_int (x e : Q) : Q := Qpower x (Qnum e).
