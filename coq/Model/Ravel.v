(* Model of the three TreeFlatten classes (ssm_impl_dense.py:90-105,
   ssm_impl_isotropic.py:22-69, ssm_impl_blockdiag.py:186-212) and of
   backend/tree.py:33-49 (tree_flatten_depth_one / tree_leaves_depth_one).

   A pytree is a finitely branching ordered tree whose leaves are arrays: a
   leaf carries its shape and its entries in C order (what ravel_pytree /
   reshape(-1) produce); an inner node carries its children in the canonical
   order of jax.tree_util (tuple / list / namedtuple: field order; dict: sorted
   keys).  A Taylor-coefficient structure is a LIST of n such trees (depth-one
   flattening: the leaves "at depth one" are the n coefficients).

     dense      flatten_tree = ravel_pytree of the whole list
                             = concatenation of the ravelled coefficients   (length n*d)
     isotropic  flatten_tree = stack of the ravelled coefficients           (n rows of length d)
     blockdiag  flatten_tree = the transpose of that                        (d rows of length n)

   unflatten_array is the inverse: split into chunks / rows, un-ravel every
   row with the shape tree of coefficient 0.  Definitions only. *)
From Coq Require Import List Arith.
Import ListNotations.

Section Ravel.
  Context {A : Type}.
  Variable dflt : A.

  Inductive tree : Type :=
  | Leaf (shape : list nat) (data : list A)
  | Node (children : forest)
  with forest : Type :=
  | FNil
  | FCons (t : tree) (f : forest).

  (* tree structure + leaf shapes (treedef and the unravel closure of the code) *)
  Inductive stree : Type :=
  | SLeaf (shape : list nat)
  | SNode (children : sforest)
  with sforest : Type :=
  | SNil
  | SCons (s : stree) (f : sforest).

  Definition prod_shape (sh : list nat) : nat := fold_right Nat.mul 1 sh.

  Fixpoint shape_of (t : tree) : stree :=
    match t with Leaf sh _ => SLeaf sh | Node f => SNode (shape_of_f f) end
  with shape_of_f (f : forest) : sforest :=
    match f with FNil => SNil | FCons t f' => SCons (shape_of t) (shape_of_f f') end.

  Fixpoint size (s : stree) : nat :=
    match s with SLeaf sh => prod_shape sh | SNode f => size_f f end
  with size_f (f : sforest) : nat :=
    match f with SNil => 0 | SCons s f' => size s + size_f f' end.

  (* every leaf holds as many entries as its shape says *)
  Fixpoint wf (t : tree) : Prop :=
    match t with Leaf sh data => length data = prod_shape sh | Node f => wf_f f end
  with wf_f (f : forest) : Prop :=
    match f with FNil => True | FCons t f' => wf t /\ wf_f f' end.

  (* ravel_pytree: leaves in order, every leaf in C order *)
  Fixpoint ravel_tree (t : tree) : list A :=
    match t with Leaf _ data => data | Node f => ravel_forest f end
  with ravel_forest (f : forest) : list A :=
    match f with FNil => [] | FCons t f' => ravel_tree t ++ ravel_forest f' end.

  (* the unravel closure: consume size(s) entries, return the rest *)
  Fixpoint unravel (s : stree) (v : list A) : tree * list A :=
    match s with
    | SLeaf sh => (Leaf sh (firstn (prod_shape sh) v), skipn (prod_shape sh) v)
    | SNode f => let (fr, rest) := unravel_f f v in (Node fr, rest)
    end
  with unravel_f (f : sforest) (v : list A) : forest * list A :=
    match f with
    | SNil => (FNil, v)
    | SCons s f' =>
      let (t, r) := unravel s v in
      let (fr, r') := unravel_f f' r in (FCons t fr, r')
    end.

  (* ---- the three flatten_tree / unflatten_array pairs ---- *)
  Definition ravel_iso (x : list tree) : list (list A) := map ravel_tree x.
  Definition ravel_dense (x : list tree) : list A := concat (ravel_iso x).
  Definition transpose (ncols : nat) (M : list (list A)) : list (list A) :=
    map (fun a => map (fun row => nth a row dflt) M) (seq 0 ncols).
  Definition ravel_blockdiag (s : stree) (x : list tree) : list (list A) :=
    transpose (size s) (ravel_iso x).

  Fixpoint chunks (d n : nat) (v : list A) : list (list A) :=
    match n with O => [] | S n' => firstn d v :: chunks d n' (skipn d v) end.

  Definition unravel_iso (s : stree) (M : list (list A)) : list tree :=
    map (fun row => fst (unravel s row)) M.
  Definition unravel_dense (s : stree) (n : nat) (v : list A) : list tree :=
    unravel_iso s (chunks (size s) n v).
  Definition unravel_blockdiag (s : stree) (n : nat) (M : list (list A)) : list tree :=
    unravel_iso s (transpose n M).

  (* verify_taylor_coefficient_pytree: all coefficients have the shape tree s *)
  Definition coeffs_ok (s : stree) (x : list tree) : Prop :=
    Forall (fun t => wf t /\ shape_of t = s) x.

  (* re-indexing of the d flat components (a permutation when sigma is one) *)
  Definition reindex (sigma : nat -> nat) (d : nat) (v : list A) : list A :=
    map (fun a => nth (sigma a) v dflt) (seq 0 d).
  Definition permute_coeffs (sigma : nat -> nat) (s : stree) (x : list tree) : list tree :=
    unravel_iso s (map (reindex sigma (size s)) (ravel_iso x)).
End Ravel.

Arguments tree A : clear implicits.
Arguments forest A : clear implicits.
