(* Model of probdiffeq/_ivpsolve/stepsize_initialisers.py (dt0, dt0_adaptive)
   over exact rationals Q.  Definitions only (no proofs).

   Oracles (Section variables):
     f    : the user's vector field  vf.vector_field(jet_coords=(y,), t=t)
            after tree.ravel_pytree (a flat list of rationals);
     nrm  : linalg.vector_norm (the Euclidean norm; a square root, hence not a
            rational function: contract  0 <= nrm v /\ nrm v * nrm v == norm_sq v,
            see [is_norm]);
     root : x ** (1.0 / k)  for a positive integer k (a real power: contract
            0 < x -> 0 < root x k, and, for the comparison with the textbook,
            (root x k)^k == x).

   Everything else (scale vector, Euler step, branch conditions, max / min,
   quotients) is an exact rational computation and is modelled as such.
   Division by a zero component of [scale] (possible only if atol = 0 or
   atol + |y0_i| rtol = 0) is a failure of the model ([None]); the float code
   produces inf / nan there. *)
From Coq Require Import List QArith Qabs Bool.
Import ListNotations.
Local Open Scope Q_scope.

(* np.minimum / np.maximum / < on (non-nan) scalars *)
Definition s_ltb (a b : Q) : bool := negb (Qle_bool b a).
Definition s_min (a b : Q) : Q := if Qle_bool a b then a else b.
Definition s_max (a b : Q) : Q := if Qle_bool a b then b else a.

(* the literals of the source *)
Definition lit_1em5 : Q := 1 # 100000.                 (* 1e-5  *)
Definition lit_1em6 : Q := 1 # 1000000.                (* 1e-6  *)
Definition lit_1em15 : Q := 1 # 1000000000000000.      (* 1e-15 *)
Definition lit_1em3 : Q := 1 # 1000.                   (* 1e-3  *)
Definition lit_001 : Q := 1 # 100.                     (* 0.01  *)
Definition lit_100 : Q := 100.                         (* 100.0 *)
Definition dt0_default_scale : Q := 1 # 100.           (* scale=0.01  *)
Definition dt0_default_nugget : Q := 1 # 100000.       (* nugget=1e-5 *)

(* ------------------------------------------------------- exact vector parts *)
Fixpoint norm_sq (v : list Q) : Q :=
  match v with [] => 0 | a :: r => a * a + norm_sq r end.

(* scale = atol + np.abs(y0) * rtol *)
Definition scale_vec (atol rtol : Q) (y0 : list Q) : list Q :=
  map (fun yi => atol + Qabs yi * rtol) y0.

(* y1 = y0 + dt0 * f0 *)
Fixpoint euler_step (h : Q) (y0 f0 : list Q) : list Q :=
  match y0, f0 with
  | y :: ry, g :: rg => (y + h * g) :: euler_step h ry rg
  | _, _ => []
  end.

(* (f1 - f0) / scale, componentwise; None on a zero scale entry or on a
   length mismatch *)
Fixpoint scaled_diff (f1 f0 sc : list Q) : option (list Q) :=
  match f1, f0, sc with
  | [], [], [] => Some []
  | a :: r1, b :: r0, s :: rs =>
      if Qeq_bool s 0 then None
      else match scaled_diff r1 r0 rs with
           | Some l => Some ((a - b) / s :: l)
           | None => None
           end
  | _, _, _ => None
  end.

Fixpoint qpow (x : Q) (k : nat) : Q :=
  match k with O => 1 | Datatypes.S k' => x * qpow x k' end.

(* contract of the norm oracle on one argument *)
Definition is_norm (d : Q) (v : list Q) : Prop := 0 <= d /\ d * d == norm_sq v.

(* ------------------------------------------------------------ scalar stages *)
(* dt0 = np.where((d0 < 1e-5) | (d1 < 1e-5), 1e-6, 0.01 * d0 / d1) *)
Definition stage1_branch (d0 d1 : Q) : bool :=
  s_ltb d0 lit_1em5 || s_ltb d1 lit_1em5.
Definition stage1 (d0 d1 : Q) : Q :=
  if stage1_branch d0 d1 then lit_1em6 else lit_001 * d0 / d1.

(* the radicand 0.01 / np.maximum(d1, d2) *)
Definition radicand (d1 d2 : Q) : Q := lit_001 / s_max d1 d2.

Section Oracles.
  Variable f : Q -> list Q -> list Q.
  Variable nrm : list Q -> Q.
  Variable root : Q -> nat -> Q.

  (* dt1 = np.where((d1 <= 1e-15) & (d2 <= 1e-15),
                    np.maximum(1e-6, dt0 * 1e-3),
                    (0.01 / np.maximum(d1, d2)) ** (1.0 / (rate + 1.0))) *)
  Definition stage2_branch (d1 d2 : Q) : bool :=
    Qle_bool d1 lit_1em15 && Qle_bool d2 lit_1em15.
  Definition stage2 (rate : nat) (h0 d1 d2 : Q) : Q :=
    if stage2_branch d1 d2 then s_max lit_1em6 (h0 * lit_1em3)
    else root (radicand d1 d2) (Datatypes.S rate).

  (* return np.minimum(100.0 * dt0, dt1) *)
  Definition final_step (h0 h1 : Q) : Q := s_min (lit_100 * h0) h1.

  (* ------------------------------------------------------------------ dt0 *)
  (* def dt0(vf, initial_values, /, scale=0.01, nugget=1e-5, **vf_kwargs)
       norm_y0 = linalg.vector_norm(u0)
       norm_dy0 = linalg.vector_norm(f0) + nugget
       return np.where(norm_y0 < 1e-5, 1e-6, scale * norm_y0 / norm_dy0)
     A zero denominator in the branch that is selected (possible only for
     nugget <= 0) is a failure of the model (None): the float code returns
     inf / nan there. *)
  Definition dt0_simple_branch (u0 : list Q) : bool := s_ltb (nrm u0) lit_1em5.
  Definition dt0_simple (scale nugget t : Q) (u0 : list Q) : option Q :=
    let f0 := f t u0 in
    let norm_y0 := nrm u0 in
    let norm_dy0 := nrm f0 + nugget in
    if s_ltb norm_y0 lit_1em5 then Some lit_1em6
    else if Qeq_bool norm_dy0 0 then None
    else Some (scale * norm_y0 / norm_dy0).

  (* The formula BEFORE the repair f2a7222 ("fix: dt0 returns a positive step
     for zero or tiny initial values"): no guard.  Kept as documentation of the
     repaired defect (finding F6, signature C18.dt0.zero-or-tiny-u0). *)
  Definition dt0_unguarded (scale nugget t : Q) (u0 : list Q) : Q :=
    let f0 := f t u0 in
    let norm_y0 := nrm u0 in
    let norm_dy0 := nrm f0 + nugget in
    scale * norm_y0 / norm_dy0.

  (* ---------------------------------------------------------- dt0_adaptive *)
  Record adaptive_trace : Type := mkAT {
    at_d0 : Q; at_d1 : Q;
    at_b1 : bool;          (* the (d0 < 1e-5) | (d1 < 1e-5) branch was taken *)
    at_h0 : Q;             (* dt0 of the source *)
    at_y1 : list Q; at_t1 : Q;
    at_arg2 : list Q;      (* (f1 - f0) / scale *)
    at_d2 : Q;
    at_b2 : bool;          (* the (d1 <= 1e-15) & (d2 <= 1e-15) branch was taken *)
    at_x : Q;              (* 0.01 / max(d1, d2) *)
    at_h1 : Q;             (* dt1 of the source *)
    at_h : Q }.            (* the returned proposal *)

  Definition dt0_adaptive (t0 : Q) (y0 : list Q) (rate : nat) (rtol atol : Q)
    : option adaptive_trace :=
    let f0 := f t0 y0 in
    let scale := scale_vec atol rtol y0 in
    let d0 := nrm y0 in
    let d1 := nrm f0 in
    let h0 := stage1 d0 d1 in
    let y1 := euler_step h0 y0 f0 in
    let t1 := t0 + h0 in
    let f1 := f t1 y1 in
    match scaled_diff f1 f0 scale with
    | None => None
    | Some arg =>
      let d2 := nrm arg / h0 in
      let h1 := stage2 rate h0 d1 d2 in
      Some (mkAT d0 d1 (stage1_branch d0 d1) h0 y1 t1 arg d2
                 (stage2_branch d1 d2) (radicand d1 d2) h1 (final_step h0 h1))
    end.
End Oracles.

(* ------------------------------------------------- scripted oracles (tables) *)
(* Used by the examples and by Run/C18Run.v: an oracle given by a finite table
   of (argument, value) pairs, arguments compared as rational vectors. *)
Fixpoint veqb (a b : list Q) : bool :=
  match a, b with
  | [], [] => true
  | x :: ra, y :: rb => Qeq_bool x y && veqb ra rb
  | _, _ => false
  end.

Fixpoint table_norm (tbl : list (list Q * Q)) (default : Q) (v : list Q) : Q :=
  match tbl with
  | [] => default
  | (a, d) :: r => if veqb a v then d else table_norm r default v
  end.

(* f t y = f0 if t == t0 else f1 *)
Definition two_point_field (t0 : Q) (f0 f1 : list Q) : Q -> list Q -> list Q :=
  fun t _ => if Qeq_bool t t0 then f0 else f1.
