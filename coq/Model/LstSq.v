(* Constrained weighted least squares by Gauss-Newton
   (probdiffeq/_probdiffeq/taylor_points.py: lstsq_constrained_gauss_newton,
   taylor_point_prior, taylor_point_maximum_a_posteriori) and its use as the
   linearisation point of DenseResidual.linearize (ssm_impl_dense.py).

   Covariance level: the code's  L @ lstsq(J L, r)  is the minimum-norm
   least-squares solution pushed through L, i.e.  C J^T (J C J^T)^+ r  with
   C = L L^T  (H^+ = H^T (H H^T)^+ for every matrix H).  The pseudo-inverse is
   a CERTIFIED oracle: [mpinv] proposes a candidate (exact inverse, else rank
   factorisation from a reduced row echelon form) and checks the four Penrose
   equations exactly; it answers None when the check fails.

   Vectors are n x 1 matrices.  Norm comparisons of the code
   (norm > tol * sqrt(size)) are transcribed on squares
   (norm^2 > tol^2 * size; equivalent for tol >= 0); the order of the scalar
   field enters only through the boolean [gtb].  Definitions only. *)
From Coq Require Import List Arith Bool QArith Qcanon.
From PD Require Import Base.Field Base.Matrix Base.Solve Model.Gauss Model.Poly.
Local Close Scope Qc_scope.
Local Close Scope Q_scope.
Local Open Scope nat_scope.
Import ListNotations.

Section PInv.
  Context {F : Type} `{FieldOps F}.
  Local Open Scope F_scope.
  Local Notation mat := (@mat F).

  (* reduced row echelon form; returns the reduced rows and the pivot columns
     (in increasing order).  [r] = number of pivots found so far. *)
  Fixpoint rref (cols : list nat) (r : nat) (M : list (list F)) (pivs : list nat)
    : list (list F) * list nat :=
    match cols with
    | [] => (M, rev pivs)
    | c :: cs =>
      let top := firstn r M in
      let rest := skipn r M in
      match extract_pivot c rest with
      | None => rref cs r M pivs
      | Some (p, rest') =>
        let piv := finv (nth c p 0) in
        let p' := map (fun x => piv * x) p in
        let elim := fun row => row_axpy (nth c row 0) p' row in
        rref cs (S r) (map elim top ++ p' :: map elim rest') (c :: pivs)
      end
    end.

  (* rank factorisation A = B Cm (B = pivot columns of A, Cm = non-zero rows
     of rref A), candidate  Cm^T (Cm Cm^T)^-1 (B^T B)^-1 B^T *)
  Definition mpinv_candidate (n : nat) (A : mat) : option mat :=
    let rows := map (fun i => mkv n (mget A i)) (seq 0 n) in
    let '(R, pivs) := rref (seq 0 n) 0 rows [] in
    let r := length pivs in
    let B := mk n r (fun i k => mget A i (nth k pivs O)) in
    let Cm := mk r n (fun k j => mget R k j) in
    match minv r (mmul r n r Cm (mtr r n Cm)), minv r (mmul r n r (mtr n r B) B) with
    | Some X1, Some X2 =>
      Some (mmul n r n (mmul n r r (mtr r n Cm) X1) (mmul r r n X2 (mtr n r B)))
    | _, _ => None
    end.

  (* the four Penrose equations, checked exactly on the n x n window *)
  Definition penrose_ok (n : nat) (A X : mat) : bool :=
    let AX := mmul n n n A X in
    let XA := mmul n n n X A in
    meqb n n (mmul n n n AX A) A && meqb n n (mmul n n n XA X) X
    && meqb n n (mtr n n AX) AX && meqb n n (mtr n n XA) XA.

  (* certified Moore-Penrose pseudo-inverse of a square matrix *)
  Definition mpinv (n : nat) (A : mat) : option mat :=
    match minv n A with
    | Some X => Some X
    | None =>
      match mpinv_candidate n A with
      | None => None
      | Some X => if penrose_ok n A X then Some (canon n n X) else None
      end
    end.
End PInv.

Section LstSq.
  Context {F : Type} `{FieldOps F}.
  Local Open Scope F_scope.
  Local Notation mat := (@mat F).

  (* squared Euclidean norm of an n x 1 matrix *)
  Definition norm2 (n : nat) (v : mat) : F := vsum n (fun i => mget v i 0 * mget v i 0).
  Definition ones_col (n : nat) : mat := mk n 1 (fun _ _ => 1).

  (* State of lstsq_constrained_gauss_newton.__call__ *)
  Record gn_state : Type := mkGN { s_x : mat; s_fx : mat; s_dx : mat; s_i : nat }.

  Inductive gn_result : Type :=
  | Done (st : gn_state)          (* cond_fun returned False *)
  | SolveFailed (st : gn_state)   (* the pseudo-inverse oracle gave no certified answer *)
  | OutOfFuel (st : gn_state).    (* never happens with fuel >= maxiter (proved) *)

  Section Problem.
    (* oracles: certified pseudo-inverse; strict comparison  a > b *)
    Variable pinv : nat -> mat -> option mat.
    Variable gtb : F -> F -> bool.
    (* D variables, K constraint rows; constraint and its Jacobian (K x D);
       mean (D x 1); covariance C = L L^T (D x D) *)
    Variables (D K : nat).
    Variable f : mat -> mat.
    Variable jac : mat -> mat.
    Variables (m C : mat).
    Variable maxiter : nat.
    Variable tol2 : F.     (* tol^2 *)

    (* body_fun, the increment:
         H = Jx @ cholesky; r = fx + Jx @ (mean - x); dy = lstsq(H, r)
         dx = mean - x - cholesky @ dy                                     *)
    Definition gn_dx (x fx J : mat) : option mat :=
      let CJt := mmul D D K C (mtr K D J) in
      let Sm := mmul K D K J CJt in
      let mx := msub D 1 m x in
      let r := madd K 1 fx (mmul K D 1 J mx) in
      match pinv K Sm with
      | None => None
      | Some Sp => Some (msub D 1 mx (mmul D K 1 CJt (mmul K K 1 Sp r)))
      end.

    (* body_fun: xnew = x + dx; State(xnew, constraint(xnew), dx = xnew - x, i + 1) *)
    Definition gn_body (st : gn_state) : option gn_state :=
      match gn_dx (s_x st) (s_fx st) (jac (s_x st)) with
      | None => None
      | Some dx =>
        let xnew := madd D 1 (s_x st) dx in
        Some (mkGN xnew (f xnew) (msub D 1 xnew (s_x st)) (S (s_i st)))
      end.

    (* cond_fun: the three conditions that all must hold to continue *)
    Definition cond1 (st : gn_state) : bool := gtb (norm2 K (s_fx st)) (tol2 * fnat K).
    Definition cond2 (st : gn_state) : bool := Nat.ltb (s_i st) maxiter.
    Definition cond3 (st : gn_state) : bool := gtb (norm2 D (s_dx st)) (tol2 * fnat D).
    Definition gn_cond (st : gn_state) : bool := (cond1 st && cond2 st) && cond3 st.

    (* init = State(x0, constraint(x0), dx = ones_like(x0), i = 0) *)
    Definition gn_init (x0 : mat) : gn_state := mkGN x0 (f x0) (ones_col D) 0.

    (* while_loop(cond_fun, body_fun, init) *)
    Fixpoint gn_loop (fuel : nat) (st : gn_state) : gn_result :=
      if gn_cond st then
        match fuel with
        | O => OutOfFuel st
        | S fuel' =>
          match gn_body st with
          | None => SolveFailed st
          | Some st' => gn_loop fuel' st'
          end
        end
      else Done st.

    Definition gn_run (x0 : mat) : gn_result := gn_loop maxiter (gn_init x0).

    (* n-fold body (no condition): the iterate sequence *)
    Fixpoint gn_iter (n : nat) (st : gn_state) : option gn_state :=
      match n with
      | O => Some st
      | S n' => match gn_body st with None => None | Some st' => gn_iter n' st' end
      end.

    (* what the routine returns: (x, stats) with
       stats = {iters, final_constraint, final_increment}; the squared norms and
       the three flags are derived quantities used by the correspondence check *)
    Definition gn_point (st : gn_state) : mat := s_x st.
    Definition gn_iters (st : gn_state) : nat := s_i st.
    Definition gn_residual2 (st : gn_state) : F := norm2 K (s_fx st).
    Definition gn_increment2 (st : gn_state) : F := norm2 D (s_dx st).

    (* taylor_point_prior / taylor_point_maximum_a_posteriori (x0 = mean) *)
    Definition taylor_point_prior : mat := m.
    Definition taylor_point_map : option mat :=
      match gn_run m with Done st => Some (s_x st) | _ => None end.

    (* DenseResidual.linearize at the point xi (damp = 0):
         fx, J = f(xi), jac(xi);  fx = fx - J @ xi;
         cond = from_linop_and_noise(J, dirac(fx))                         *)
    Definition lin_at (xi : mat) : @cond F :=
      let J := jac xi in
      from_linop_and_noise D K J
        (mkN (msub K 1 (f xi) (mmul K D 1 J xi)) (mzero K K)).
  End Problem.

  (* ---- constraints as data: a list of K polynomials in D variables ---- *)
  Definition col (n : nat) (x : mat) : list F := mkv n (fun i => mget x i 0).
  Definition poly_f (D K : nat) (ps : list (@poly F)) (x : mat) : mat :=
    mk K 1 (fun i _ => eval_poly (col D x) (nth i ps [])).
  Definition poly_jac (D K : nat) (ps : list (@poly F)) (x : mat) : mat :=
    mk K D (fun i j => eval_poly (col D x) (diff_poly j (nth i ps []))).

  (* affine constraint A x + c *)
  Definition affine_f (D K : nat) (A c : mat) (x : mat) : mat :=
    madd K 1 (mmul K D 1 A x) c.
End LstSq.

(* the comparison oracle of the executable instance:  a > b  on Qc *)
Definition qc_gtb (a b : Qc) : bool :=
  match Qcompare (this a) (this b) with Gt => true | _ => false end.
