(* Matrix exponential and finite-horizon Gramian by Pade/Legendre initialisation
   plus doubling (probdiffeq/util/gram_util.py, after Stillfjord & Tronarp,
   arXiv 2310.13462), Kahan's recurrence for the Cholesky factor of the Hilbert
   matrix (probdiffeq/util/cholesky_util.py: cholesky_hilbert) and the drift
   matrices of the exponential priors (ssm_impl_dense.py: prior_exponential*,
   DenseExponential.transition; ssm_impl_api.py: OU / Matern).

   Gram level: a left Cholesky factor U is represented by Gamma = U U^T; the
   re-triangularisations qr_r(.^T)^T preserve Gamma (contract R^T R = M^T M);
   the final sign normalisation of the columns of U does not change Gamma.
   Square roots never enter: L_k / sqrt(norm_k) contributes L_k L_k^T / norm_k,
   B / sqrt(2^num) contributes a factor 1 / 2^num on the initial Gramian (the
   right-hand sides are linear in B), dr = sqrt(odds) contributes odds.
   The number of doublings [num] is an INPUT of the model (the code computes it
   with log2/ceil of floats; the correspondence check compares it separately).
   Definitions only. *)
From Coq Require Import List Arith Bool.
From PD Require Import Base.Field Base.Matrix Base.Solve Model.Gauss.
Import ListNotations.

Section ExpGram.
  Context {F : Type} `{FieldOps F}.
  Local Open Scope F_scope.
  Local Notation mat := (@mat F).
  Local Notation vec := (@vec F).

  (* one Pade/Legendre table: order p (pade_coeffs has p+1 entries, legendre_coeffs
     is (p+1) x (p+1), legendre_norms has p+1 entries) *)
  Record pl_table : Type := mkPL {
    pl_p : nat; pl_pade : list F; pl_leg : list (list F); pl_norms : list F }.

  Definition tget (t : list F) (i : nat) : F := nth i t 0.

  (* [I; A2; A2 A2; (A2 A2) A2; ...] : A4 = A2 @ A2, A6 = A4 @ A2, A8 = A6 @ A2 *)
  Fixpoint a2_powers (n : nat) (A2 : mat) (k : nat) : list mat :=
    match k with
    | O => [mid n]
    | S k' => let l := a2_powers n A2 k' in l ++ [mmul n n n (last l (mid n)) A2]
    end.

  (* sum_l cs[l] * Ms[l]   (m terms) *)
  Definition mcomb (n m : nat) (cs : list F) (Ms : list mat) : mat :=
    mk n n (fun i j => vsum m (fun l => tget cs l * mget (nth l Ms []) i j)).

  Definition evens (b : list F) (m : nat) : list F := map (fun j => tget b (2 * j)) (seq 0 m).
  Definition odds (b : list F) (m : nat) : list F := map (fun j => tget b (2 * j + 1)) (seq 0 m).

  (* number of even (= number of odd) coefficients: p is odd, m = (p+1)/2 *)
  Definition half (p : nat) : nat := Nat.div (S p) 2.

  (* V = b[p-1] A^(p-1) + ... + b[2] A2 + b[0] I ;  U = A (b[p] A^(p-1) + ... + b[1] I) *)
  Definition pade_V (n p : nat) (b : list F) (A : mat) : mat :=
    let m := half p in
    mcomb n m (evens b m) (a2_powers n (mmul n n n A A) (m - 1)).
  Definition pade_U (n p : nat) (b : list F) (A : mat) : mat :=
    let m := half p in
    mmul n n n A (mcomb n m (odds b m) (a2_powers n (mmul n n n A A) (m - 1))).
  Definition pade_D (n p : nat) (b : list F) (A : mat) : mat :=
    msub n n (pade_V n p b A) (pade_U n p b A).
  Definition pade_N (n p : nat) (b : list F) (A : mat) : mat :=
    madd n n (pade_V n p b A) (pade_U n p b A).

  (* the order-13 function groups the high powers: A6 (b13 A6 + b11 A4 + b9 A2) + ... *)
  Definition pade13_V (n : nat) (b : list F) (A : mat) : mat :=
    let A2 := mmul n n n A A in let A4 := mmul n n n A2 A2 in let A6 := mmul n n n A4 A2 in
    let s := mscale n n in let pl := madd n n in
    pl (pl (pl (pl (mmul n n n A6 (pl (pl (s (tget b 12) A6) (s (tget b 10) A4)) (s (tget b 8) A2)))
                   (s (tget b 6) A6)) (s (tget b 4) A4)) (s (tget b 2) A2)) (s (tget b 0) (mid n)).
  Definition pade13_U (n : nat) (b : list F) (A : mat) : mat :=
    let A2 := mmul n n n A A in let A4 := mmul n n n A2 A2 in let A6 := mmul n n n A4 A2 in
    let s := mscale n n in let pl := madd n n in
    mmul n n n A
      (pl (pl (pl (pl (mmul n n n A6 (pl (pl (s (tget b 13) A6) (s (tget b 11) A4)) (s (tget b 9) A2)))
                      (s (tget b 7) A6)) (s (tget b 5) A4)) (s (tget b 3) A2)) (s (tget b 1) (mid n))).

  (* eA = solve(V - U, V + U) *)
  Definition pade_expm (n p : nat) (b : list F) (A : mat) : option mat :=
    match minv n (pade_D n p b A) with
    | None => None
    | Some Di => Some (mmul n n n Di (pade_N n p b A))
    end.

  (* ---- Legendre right-hand sides, as the loops build them (B is n x mB) ---- *)
  Definition mapi {X Y : Type} (f : nat -> X -> Y) (l : list X) : list Y :=
    map (fun ix => f (fst ix) (snd ix)) (combine (seq 0 (length l)) l).

  (* P = A2;  L_even = [P B C[0,2] + B C[0,0], P B C[2,2], 0, ...]
              L_odd  = [P B C[1,3] + B C[1,1], P B C[3,3], 0, ...] *)
  Definition leg_start (n mB m : nat) (C : mat) (A2 B : mat) : mat * (list mat * list mat) :=
    let PB := mmul n n mB A2 B in
    let s := mscale n mB in
    (A2,
     ([madd n mB (s (mget C 0 2) PB) (s (mget C 0 0) B); s (mget C 2 2) PB]
        ++ repeat (mzero n mB) (m - 2),
      [madd n mB (s (mget C 1 3) PB) (s (mget C 1 1) B); s (mget C 3 3) PB]
        ++ repeat (mzero n mB) (m - 2))).

  (* loop body for k:  P = A2 @ P  (iff [advance k]);
       L_even[i] += P B C[2i, 2k];  L_odd[i] += P B C[2i+1, 2k+1] *)
  Definition leg_step (advance : nat -> bool) (n mB : nat) (C : mat) (A2 B : mat)
             (st : mat * (list mat * list mat)) (k : nat) : mat * (list mat * list mat) :=
    let P := if advance k then mmul n n n A2 (fst st) else fst st in
    let PB := mmul n n mB P B in
    (P,
     (mapi (fun i ell => madd n mB ell (mscale n mB (mget C (2 * i) (2 * k)) PB)) (fst (snd st)),
      mapi (fun i ell => madd n mB ell (mscale n mB (mget C (2 * i + 1) (2 * k + 1)) PB))
           (snd (snd st)))).

  Fixpoint interleave {X : Type} (a b : list X) : list X :=
    match a, b with
    | x :: a', y :: b' => x :: y :: interleave a' b'
    | _, _ => []
    end.

  (* the p+1 blocks L_0 .. L_p (before the division by sqrt(norm_k)):
     for k in [2 .. m-1]: step;  L_odd = [A @ ell];  interleave *)
  Definition leg_blocks_gen (advance : nat -> bool) (n mB p : nat) (C : mat) (A B : mat)
    : list mat :=
    let m := half p in
    let A2 := mmul n n n A A in
    let st := fold_left (leg_step advance n mB C A2 B) (seq 2 (m - 2))
                        (leg_start n mB m C A2 B) in
    interleave (fst (snd st)) (map (mmul n n mB A) (snd (snd st))).
  (* the shipped loops advance P in every pass *)
  Definition leg_blocks := leg_blocks_gen (fun _ => true).

  (* the order-3 function writes its four blocks out by hand *)
  Definition leg_blocks3 (n mB : nat) (C : mat) (A B : mat) : list mat :=
    let A2 := mmul n n n A A in
    let PB := mmul n n mB A2 B in
    let s := mscale n mB in
    [madd n mB (s (mget C 0 2) PB) (s (mget C 0 0) B);
     s (mget C 1 1) (mmul n n mB A B);
     s (mget C 2 2) PB;
     s (mget C 3 3) (mmul n n mB (mmul n n n A A2) B)].

  (* Gram of rhs = concat_k L_k / sqrt(norm_k):  sum_k L_k L_k^T / norm_k *)
  Definition leg_gram (n mB : nat) (norms : list F) (Ls : list mat) : mat :=
    mk n n (fun i j =>
      vsum (length Ls) (fun k =>
        vsum mB (fun c => mget (nth k Ls []) i c * mget (nth k Ls []) j c) / tget norms k)).

  (* PadeLegendre.init at Gram level: eA = D^-1 N ; L = D^-1 rhs ; Gram = L L^T *)
  Definition pl_init_gen (advance : nat -> bool) (n mB : nat) (T : pl_table) (A B : mat)
    : option (mat * mat) :=
    let p := pl_p T in
    match minv n (pade_D n p (pl_pade T) A) with
    | None => None
    | Some Di =>
      Some (mmul n n n Di (pade_N n p (pl_pade T) A),
            sandwich n n Di
              (leg_gram n mB (pl_norms T) (leg_blocks_gen advance n mB p (pl_leg T) A B)))
    end.
  Definition pl_init := pl_init_gen (fun _ => true).

  (* _exp_gram_cholesky_double: stack = (U, eA U), re-triangularise; eA = eA eA *)
  Definition eg_double (n : nat) (s : mat * mat) : mat * mat :=
    (mmul n n n (fst s) (fst s), madd n n (snd s) (sandwich n n (fst s) (snd s))).

  Fixpoint iter {X : Type} (k : nat) (f : X -> X) (x : X) : X :=
    match k with O => x | S k' => iter k' f (f x) end.

  (* exp_gram_cholesky(...)(A, B) with [num] doublings:
     A / 2^num, B / sqrt(2^num), init, num doublings *)
  Definition exp_gram (n mB : nat) (T : pl_table) (num : nat) (A B : mat) : option (mat * mat) :=
    let c := finv (fpow (1 + 1) num) in
    match pl_init n mB T (mscale n n c A) B with
    | None => None
    | Some (Phi, Gam) => Some (iter num (eg_double n) (Phi, mscale n n c Gam))
    end.

  (* ------------------------------------------------------ cholesky_hilbert *)
  (* f[0] = 1+K; f[idx] = (((f[idx-1]/idx) (K+2 idx)) / (K+idx)) (K+2 idx+1)   (before f = 1/f) *)
  Fixpoint kahan_f (K : nat) (idx : nat) : F :=
    match idx with
    | O => 1 + fnat K
    | S i => (((kahan_f K i / fnat idx) * (fnat K + (1 + 1) * fnat idx)) / (fnat K + fnat idx))
             * (fnat K + (1 + 1) * fnat idx + 1)
    end.
  (* column j of U from the identity by the downward recurrence, dist = j - i:
     g[i] = (g[i+1] / (j-i)) * (K + (i+1) + (j+1)) *)
  Fixpoint kahan_col (K j dist : nat) : F :=
    match dist with
    | O => 1
    | S d' => (kahan_col K j d' / fnat dist) * (fnat K + fnat (j - dist + 1) + fnat (j + 1))
    end.
  (* U before the scaling by dr[:,None] * f[None,:] *)
  Definition kahan_U (K n : nat) : mat :=
    mk n n (fun i j => if Nat.leb i j then kahan_col K j (j - i) else 0).
  Definition kahan_odds (K n : nat) : vec := mkv n (fun i => fnat (K + 1 + 2 * i)).
  Definition kahan_finv (K n : nat) : vec := mkv n (fun j => finv (kahan_f K j)).   (* f = 1.0 / f *)
  (* SQUARED entries of the returned factor L = tril((U * dr[:,None] * f[None,:])^T) *)
  Definition kahan_L2 (K n : nat) : mat :=
    let U := kahan_U K n in let od := kahan_odds K n in let fi := kahan_finv K n in
    mk n n (fun j i =>
      if Nat.leb i j then fsq (mget U i j) * vget od i * fsq (vget fi j) else 0).
  (* L L^T: sum_i U[i][j] U[i][j'] odds[i] * f[j] f[j'] *)
  Definition kahan_gram (K n : nat) : mat :=
    let U := kahan_U K n in let od := kahan_odds K n in let fi := kahan_finv K n in
    mk n n (fun j j' =>
      vsum n (fun i => mget U i j * mget U i j' * vget od i) * vget fi j * vget fi j').
  Definition hilbert (K n : nat) : mat := mk n n (fun i j => 1 / fnat (i + j + K + 1)).
  (* system_matrices_1d_iwp: Q_1d = qr_r(flip(L, axis=0)^T)^T ; Gram = flipped Gram *)
  Definition kahan_gram_flip (q : nat) : mat :=
    let G := kahan_gram 0 (S q) in
    mk (S q) (S q) (fun i j => mget G (q - i) (q - j)).

  (* ------------------------------------------------- exponential priors *)
  (* state = Taylor coefficients (derivatives) x_0..x_q, each in F^d, coefficient-major.
     jacfwd of a linear [autonomous] = its matrix: column (k d + a) is the image
     of the basis vector e_(k,a). *)
  Definition basis_coords (q d k a : nat) : list vec :=
    map (fun k' => mkv d (fun a' => if Nat.eqb k' k && Nat.eqb a' a then 1 else 0)) (seq 0 (S q)).
  Definition jac_of (q d : nat) (aut : list vec -> vec) : mat :=
    mk d (S q * d) (fun r c => vget (aut (basis_coords q d (c / d) (c mod d))) r).

  (* OU: autonomous(jet_coords) = [linop(jet_coords[-1])], linop = (x |-> Lop x) *)
  Definition ou_autonomous (d : nat) (Lop : mat) (coords : list vec) : vec :=
    mkv d (fun r => vsum d (fun a => mget Lop r a * vget (last coords []) a)).
  (* Matern: D = len(jet_coords); -(sum_i comb(D,i) z^(D-i) jet_coords[i]),
     z = sqrt(2 (D - 1/2)) / length_scale is an input (z^2 = (2D-1)/length_scale^2) *)
  Definition fcomb (n k : nat) : F := ffact n / (ffact (n - k) * ffact k).
  Definition matern_autonomous (d : nat) (z : F) (coords : list vec) : vec :=
    let D := length coords in
    mkv d (fun r => - vsum D (fun i => fcomb D i * fpow z (D - i) * vget (nth i coords []) r)).

  (* documented bottom blocks *)
  Definition ou_bottom (q d : nat) (Lop : mat) : mat :=
    mk d (S q * d) (fun r c => if Nat.eqb (c / d) q then mget Lop r (c mod d) else 0).
  Definition matern_bottom (q d : nat) (z : F) : mat :=
    mk d (S q * d) (fun r c =>
      if Nat.eqb (c mod d) r then - (fcomb (S q) (c / d) * fpow z (S q - c / d)) else 0).

  (* A = kron(shift, I_d) with the last d rows replaced by the bottom block; B = kron(e_q, Lambda) *)
  Definition drift_matrix (q d : nat) (bottom : mat) : mat :=
    mk (S q * d) (S q * d) (fun i j =>
      if Nat.ltb i (q * d) then (if Nat.eqb j (i + d) then 1 else 0)
      else mget bottom (i - q * d) j).
  Definition dispersion_matrix (q d : nat) (base : vec) : mat :=
    mk (S q * d) d (fun i a => if Nat.eqb i (q * d + a) then vget base a else 0).

  (* DenseExponential.transition for dt > 0 (Gram level):
     A_p = dt * p_inv[:,None] * A * p[None,:],  B_p = sqrt(dt) p_inv[:,None] B,
     (eA, L) = exp_gram(A_p, B_p);  noise = output_scale * L;  to_latent = p_inv, to_observed = p.
     The factor sqrt(dt) on B becomes dt on the Gramian. *)
  Definition exp_transition (q d : nat) (T : pl_table) (num : nat) (Adrift : mat) (base : vec)
             (p p_inv : vec) (dt out2 : F) : option (@cond F) :=
    let N := (S q * d)%nat in
    let pr := mkv N (fun i => vget p (i / d)) in
    let pir := mkv N (fun i => vget p_inv (i / d)) in
    let A_p := mk N N (fun i j => dt * vget pir i * mget Adrift i j * vget pr j) in
    let B_p := scale_rows N d pir (dispersion_matrix q d base) in
    match exp_gram N d T num A_p B_p with
    | None => None
    | Some (Phi, Gam) => Some (mkC Phi (mzero N 1) (mscale N N (dt * out2) Gam) pir pr)
    end.
End ExpGram.
