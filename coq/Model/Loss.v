(* Model of the marginal-likelihood losses
     estimators_and_losses.py : loss_lml_terminal_values, loss_lml_timeseries,
                                MarkovSequence.evaluate_lml,
                                MarkovSequence.remove_filtering_distributions
     ssm_impl_api.py          : AbstractLatentCond.bayes_rule_and_logpdf_tree
     ssm_impl_{dense,isotropic,blockdiag}.py : to_derivative, logpdf_flat /
                                logpdf_scalar_flat.

   Log-densities are not rational.  A Gaussian log-density term
       logpdf = -1/2 ( maha + c * log det S + k c log (2 pi) )
   is represented by the exact pair (maha, det S) [dterm] where
       maha = sum over the c columns a of  r_a^T S^-1 r_a      (r = u - mean)
   is computed through the CERTIFIED inverse oracle [inv] (Base/Solve.minv checks
   S X = I = X S exactly) and det S is the determinant BY DEFINITION: Laplace
   expansion along the first row [mdet].  No elimination is trusted; the
   observation sizes are k = d (dense), k = 1 (isotropic, block-diagonal), so
   the k! cost is irrelevant.
   The running mean / running sum of evaluate_lml is linear in the per-term
   log-densities: the model runs it on an ABSTRACT valuation val : dterm -> F of
   the density terms, so that the accumulator theorem (Proofs/LossProofs.v) is
   exact for every valuation, in particular the real log-density.
   Noise levels are carried as SQUARES (std^2).  Definitions only. *)
From Coq Require Import List Arith Bool.
From PD Require Import Base.Field Base.Matrix Base.Solve Model.Gauss Model.Poly
  Model.Prior Model.Solver.
Import ListNotations.

Section Loss.
  Context {F : Type} `{FieldOps F}.
  Local Open Scope F_scope.
  Local Notation mat := (@mat F).
  Local Notation vec := (@vec F).
  Local Notation normal := (@normal F).
  Local Notation cond := (@cond F).
  Local Notation fnormal := (@fnormal F).
  Local Notation fcond := (@fcond F).

  Variable inv : nat -> mat -> option mat.     (* certified inverse oracle *)

  (* ------------------------------------------------------------ determinant *)
  (* delete row 0 and column j of an (m+1) x (m+1) matrix *)
  Definition mminor (m : nat) (A : mat) (j : nat) : mat :=
    mk m m (fun r c => mget A (S r) (if Nat.ltb c j then c else S c)).
  (* Laplace expansion along the first row *)
  Fixpoint mdet (n : nat) (A : mat) : F :=
    match n with
    | O => 1
    | S m =>
      vsum (S m) (fun j =>
        (if Nat.even j then mget A 0 j else - mget A 0 j) * mdet m (mminor m A j))
    end.

  (* ---------------------------------------------------------- density terms *)
  (* logpdf = -1/2 (d_maha + d_c * log d_det + d_k * d_c * log (2 pi)) *)
  Record dterm : Type := mkD { d_maha : F; d_det : F; d_k : nat; d_c : nat }.

  (* Normal.logpdf_flat for one block: mean k x c, covariance k x k shared by
     the c columns (dense, block-diagonal: c = 1; isotropic: logpdf_scalar_flat
     vmapped over the c = d columns and summed) *)
  Definition n_density (k c : nat) (rv : normal) (u : mat) : option dterm :=
    match inv k (n_cov rv) with
    | None => None
    | Some Si =>
      let R := msub k c u (n_mean rv) in
      let W := mmul k k c Si R in
      Some (mkD (vsum c (fun a => vsum k (fun i => mget R i a * mget W i a)))
                (mdet k (n_cov rv)) k c)
    end.

  (* block-diagonal logpdf_flat: the sum over the blocks of the per-block
     log-densities; [val] is the abstract value of one density term *)
  Definition f_logpdf (val : dterm -> F) (ts : list dterm) : F :=
    fold_right (fun t acc => val t + acc) 0 ts.

  (* --------------------------------------------------------- to_derivative *)
  Definition obs_noise (k c : nat) (var : nat -> F) : normal :=
    mkN (mzero k c) (mk k k (fun i j => if Nat.eqb i j then var i else 0)).

  (* Normal.to_derivative(i, std): the observation model selecting Taylor
     coefficient i, noise std^2 on the diagonal.
       dense          : d rows (coefficient-major index i*d + r), std per dimension
       isotropic      : 1 row, one scalar std
       block-diagonal : per block 1 row, std per dimension *)
  Definition to_derivative (s : shape) (i : nat) (std2 : vec) : fcond :=
    let q := sh_q s in let d := sh_d s in
    match sh_kind s with
    | Dense =>
      [from_linop_and_noise (sh_N s) d
         (mk d (sh_N s) (fun r col => delta (i * d + r) col))
         (obs_noise d 1 (vget std2))]
    | Iso =>
      [from_linop_and_noise (S q) 1
         (mk 1 (S q) (fun _ col => delta i col))
         (obs_noise 1 d (fun _ => vget std2 0))]
    | BlockDiag =>
      map (fun a =>
        from_linop_and_noise (S q) 1
          (mk 1 (S q) (fun _ col => delta i col))
          (obs_noise 1 1 (fun _ => vget std2 a)))
        (seq 0 d)
    end.

  (* number of std entries expected per time point (marginals.std[i] shape) *)
  Definition sh_nstd (s : shape) : nat :=
    match sh_kind s with Iso => 1 | _ => sh_d s end.

  (* ------------------------------------------ bayes_rule_and_logpdf_tree *)
  (* revert; logpdf of the datum under the observed marginal; posterior =
     reverted conditional applied to the datum *)
  Definition bayes_rule_and_logpdf (nin k c : nat) (M : cond) (u : mat) (rv : normal)
    : option (dterm * normal) :=
    match c_revert inv nin k c M rv with
    | None => None
    | Some (obs, bw) =>
      match n_density k c obs u with
      | None => None
      | Some t => Some (t, c_apply k nin c bw u)
      end
    end.

  (* per block; block-count mismatches fail *)
  Fixpoint f_bayes_blocks (nin k c : nat) (M : fcond) (u : list mat) (rv : fnormal)
    : option (list (dterm * normal)) :=
    match M, u, rv with
    | [], [], [] => Some []
    | m :: Mr, x :: ur, r :: rr =>
      match bayes_rule_and_logpdf nin k c m x r, f_bayes_blocks nin k c Mr ur rr with
      | Some z, Some zs => Some (z :: zs)
      | _, _ => None
      end
    | _, _, _ => None
    end.

  Definition f_bayes_logpdf (s : shape) (M : fcond) (u : list mat) (rv : fnormal)
    : option (list dterm * fnormal) :=
    match f_bayes_blocks (sh_N s) (sh_nout s) (sh_c s) M u rv with
    | None => None
    | Some l => Some (map fst l, map snd l)
    end.

  (* ------------------------------------------------------- evaluate_lml *)
  (* running mean (average_pdfs) or running sum; num_data counts the terms
     accumulated so far:
       logpdf1 = (logpdf * num_data + logpdf_n) / (num_data + 1)   | logpdf + logpdf_n *)
  Definition acc_step (avg : bool) (st : F * nat) (ln : F) : F * nat :=
    let l := fst st in let n := snd st in
    (if avg then (l * fnat n + ln) / fnat (S n) else l + ln, S n).

  (* specification helpers used in the theorem statements: the sum of a list
     of term values, and the accumulator run over a list of term values *)
  Fixpoint lsumF (l : list F) : F :=
    match l with [] => 0 | x :: r => x + lsumF r end.
  Definition acc_run (avg : bool) (st : F * nat) (ls : list F) : F * nat :=
    fold_left (acc_step avg) ls st.

  (* body of the scan: predict through the stored backward conditional, then
     bayes_rule_and_logpdf with the observation model of that time point *)
  Definition lml_body (val : dterm -> F) (avg : bool) (s : shape)
             (st : fnormal * (F * nat)) (K M : fcond) (u : list mat)
    : option (fnormal * (F * nat)) :=
    let predicted := f_marg s K (fst st) in
    match f_bayes_logpdf s M u predicted with
    | None => None
    | Some (ts, corrected) => Some (corrected, acc_step avg (snd st) (f_logpdf val ts))
    end.

  (* flow.scan(body, init, xs = (conditional, model1, u1), reverse=True): the
     lists are in time order, the LAST entries are processed first.  Length
     mismatches fail (as the leading-axis check of scan does). *)
  Fixpoint lml_scan (val : dterm -> F) (avg : bool) (s : shape)
           (conds models : list fcond) (us : list (list mat))
           (init : fnormal * (F * nat)) : option (fnormal * (F * nat)) :=
    match conds, models, us with
    | [], [], [] => Some init
    | K :: cr, M :: mr, u :: ur =>
      match lml_scan val avg s cr mr ur init with
      | None => None
      | Some st => lml_body val avg s st K M u
      end
    | _, _, _ => None
    end.

  (* MarkovSequence.evaluate_lml (reverse = True): term = self.marginal (the
     terminal marginal), conds = self.conditional (conds[j]: x_{j+1} -> x_j),
     us / models: data and observation models at ALL time points, time order *)
  Definition evaluate_lml (val : dterm -> F) (avg : bool) (s : shape)
             (term : fnormal) (conds : list fcond)
             (us : list (list mat)) (models : list fcond) : option F :=
    match us, models with
    | _ :: _, _ :: _ =>
      let u0 := last us [] in let model0 := last models [] in
      match f_bayes_logpdf s model0 u0 term with
      | None => None
      | Some (t0, updated) =>
        match lml_scan val avg s conds (removelast models) (removelast us)
                       (updated, (f_logpdf val t0, 1%nat)) with
        | None => None
        | Some (_, (pdf, _)) => Some pdf
        end
      end
    | _, _ => None
    end.

  (* the same recursion, returning the density terms in PROCESSING order
     (terminal time point first) instead of accumulating their values *)
  Fixpoint lml_scan_terms (s : shape) (conds models : list fcond) (us : list (list mat))
           (init : fnormal * list (list dterm)) : option (fnormal * list (list dterm)) :=
    match conds, models, us with
    | [], [], [] => Some init
    | K :: cr, M :: mr, u :: ur =>
      match lml_scan_terms s cr mr ur init with
      | None => None
      | Some (rv, acc) =>
        match f_bayes_logpdf s M u (f_marg s K rv) with
        | None => None
        | Some (ts, corrected) => Some (corrected, acc ++ [ts])
        end
      end
    | _, _, _ => None
    end.

  Definition evaluate_lml_terms (s : shape) (term : fnormal) (conds : list fcond)
             (us : list (list mat)) (models : list fcond) : option (list (list dterm)) :=
    match us, models with
    | _ :: _, _ :: _ =>
      match f_bayes_logpdf s (last models []) (last us []) term with
      | None => None
      | Some (t0, updated) =>
        match lml_scan_terms s conds (removelast models) (removelast us) (updated, [t0]) with
        | None => None
        | Some (_, acc) => Some acc
        end
      end
    | _, _ => None
    end.

  (* ------------------------------------- remove_filtering_distributions *)
  (* the marginal of a MarkovSequence is either one distribution or a stack with
     the same leading (time) axis as the conditionals; reverse = True keeps the
     LAST entry of the stack *)
  Inductive marg_store : Type :=
  | Single (m : fnormal)
  | Stacked (ms : list fnormal).
  Record markov_seq : Type := mkMS { ms_marginal : marg_store; ms_conditional : list fcond }.

  Definition remove_filtering_distributions (p : markov_seq) : option markov_seq :=
    match ms_marginal p with
    | Single _ => Some p
    | Stacked ms =>
      match rev ms with
      | [] => None
      | m :: _ => Some (mkMS (Single m) (ms_conditional p))
      end
    end.

  (* ------------------------------------------------------------- the losses *)
  (* the std container is compared with  stack([posterior.marginal.std[i]] * N):
     N time points, sh_nstd entries each.  The comparison is made BEFORE
     remove_filtering_distributions: for a stacked marginal the expected shape
     has an additional (time) axis, which no container of one std vector per
     time point matches *)
  Definition std_shapes_ok (s : shape) (n : nat) (m : marg_store) (std2s : list vec) : bool :=
    match m with
    | Stacked _ => false
    | Single _ =>
      Nat.eqb (length std2s) n
      && forallb (fun v => Nat.eqb (length v) (sh_nstd s)) std2s
    end.

  (* loss_lml_timeseries(average_pdfs, tcoeff_index)(u, posterior=, std=);
     the ValueError (std container) / IndexError (tcoeff_index) paths are None.
     Consequence of the order of the checks: remove_filtering_distributions is
     the identity on every posterior that reaches it. *)
  Definition loss_lml_timeseries (val : dterm -> F) (avg : bool) (s : shape) (i : nat)
             (us : list (list mat)) (post : markov_seq) (std2s : list vec) : option F :=
    if Nat.leb i (sh_q s) && std_shapes_ok s (length us) (ms_marginal post) std2s then
      match remove_filtering_distributions post with
      | Some (mkMS (Single term) conds) =>
        evaluate_lml val avg s term conds us (map (to_derivative s i) std2s)
      | _ => None
      end
    else None.

  Definition loss_lml_timeseries_terms (s : shape) (i : nat)
             (us : list (list mat)) (post : markov_seq) (std2s : list vec)
    : option (list (list dterm)) :=
    if Nat.leb i (sh_q s) && std_shapes_ok s (length us) (ms_marginal post) std2s then
      match remove_filtering_distributions post with
      | Some (mkMS (Single term) conds) =>
        evaluate_lml_terms s term conds us (map (to_derivative s i) std2s)
      | _ => None
      end
    else None.

  (* loss_lml_terminal_values(tcoeff_index)(u, marginals=, std=):
     marginalise through to_derivative, logpdf of the datum *)
  Fixpoint f_density_blocks (k c : nat) (rv : fnormal) (u : list mat) : option (list dterm) :=
    match rv, u with
    | [], [] => Some []
    | r :: rr, x :: ur =>
      match n_density k c r x, f_density_blocks k c rr ur with
      | Some t, Some ts => Some (t :: ts)
      | _, _ => None
      end
    | _, _ => None
    end.

  Definition loss_lml_terminal_terms (s : shape) (i : nat) (u : list mat)
             (marginals : fnormal) (std2 : vec) : option (list dterm) :=
    if Nat.leb i (sh_q s) && Nat.eqb (length std2) (sh_nstd s) then
      let model := to_derivative s i std2 in
      let marg := map2 (fun k r => c_marg (sh_N s) (sh_nout s) (sh_c s) k r) model marginals in
      f_density_blocks (sh_nout s) (sh_c s) marg u
    else None.

  Definition loss_lml_terminal_values (val : dterm -> F) (s : shape) (i : nat) (u : list mat)
             (marginals : fnormal) (std2 : vec) : option F :=
    match loss_lml_terminal_terms s i u marginals std2 with
    | None => None
    | Some ts => Some (f_logpdf val ts)
    end.
End Loss.
