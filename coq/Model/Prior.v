(* Integrated Wiener process prior in preconditioned form, as built by
   utilities.system_matrices_1d_iwp / preconditioner_taylor and the three
   *WienerIntegrated.transition methods (Gram level: the Cholesky factor of the
   flipped Hilbert matrix is represented by the flipped Hilbert matrix). *)
From Coq Require Import List Arith Bool.
From PD Require Import Base.Field Base.Matrix Model.Gauss.
Import ListNotations.

Section Prior.
  Context {F : Type} `{FieldOps F}.
  Local Open Scope F_scope.
  Local Notation mat := (@mat F).
  Local Notation vec := (@vec F).

  (* utilities._binom with the lgamma convention 1/(negative)! = 0 *)
  Definition binom (n k : nat) : F :=
    if Nat.leb k n then ffact n / (ffact (n - k) * ffact k) else 0.

  (* A_1d = flip(pascal) : entry (i,j) = binom (q-i) (q-j) *)
  Definition pascal_flip (q : nat) : mat :=
    mk (S q) (S q) (fun i j => binom (q - i) (q - j)).
  (* Gram of Q_1d: flipped Hilbert matrix, entry 1/(2q+1-i-j) *)
  Definition hilbert_flip (q : nat) : mat :=
    mk (S q) (S q) (fun i j => 1 / fnat (2 * q + 1 - i - j)).

  (* preconditioner_taylor *)
  Definition precon (q : nat) (dt : F) : vec :=
    mkv (S q) (fun i => fpow dt (q - i) / ffact (q - i)).
  Definition precon_inv (q : nat) (dt : F) : vec :=
    mkv (S q) (fun i => ffact (q - i) / fpow dt (q - i)).

  (* one (q+1)-dimensional block: isotropic model (c = d) and each block of the
     block-diagonal model (c = 1). s2 = (base scale * output scale)^2 *)
  Definition iwp_transition_1d (q c : nat) (dt s2 : F) : cond :=
    mkC (pascal_flip q) (mzero (S q) c)
        (mscale (S q) (S q) (dt * s2) (hilbert_flip q))
        (precon_inv q dt) (precon q dt).

  (* dense: A = kron(a, I_d); Q-Gram = dt * out^2 * kron(hilbert_flip, diag(base^2));
     preconditioners repeated d times (coefficient-major ordering) *)
  Definition iwp_transition_dense (q d : nat) (base2 : vec) (dt out2 : F) : cond :=
    let N := (S q * d)%nat in
    mkC (kronI (S q) (S q) d (pascal_flip q)) (mzero N 1)
        (mk N N (fun i j =>
           if Nat.eqb (i mod d) (j mod d)
           then dt * out2 * mget (hilbert_flip q) (i / d) (j / d) * vget base2 (i mod d)
           else 0))
        (mkv N (fun i => vget (precon_inv q dt) (i / d)))
        (mkv N (fun i => vget (precon q dt) (i / d))).

  (* ---- closed form (the textbook discretisation of the q-times integrated
     Wiener process), used as specification ---- *)
  Definition iwp_A_closed (q : nat) (h : F) : mat :=
    mk (S q) (S q) (fun i j =>
      if Nat.leb i j then fpow h (j - i) / ffact (j - i) else 0).
  Definition iwp_Q_closed (q : nat) (h s2 : F) : mat :=
    mk (S q) (S q) (fun i j =>
      s2 * fpow h (2 * q + 1 - i - j)
      / (fnat (2 * q + 1 - i - j) * ffact (q - i) * ffact (q - j))).
End Prior.
